/-
  Proof/Lifo.lean — the inductive invariant of Model/Lifo.lean (mpmc_lifo.h) and its
  preservation by every step, for any number of threads and nodes.

  The heart is the ABA argument, as an invariant: the counter only grows (by one per
  successful CAS2), so a thread whose loaded counter `c` still equals the current counter
  has seen NO successful CAS2 since that load; hence the head it loaded afterwards is still
  the head, that node is still in the stack (so nobody owns it and nobody writes its
  `next`), and the `next` it read is still the second element.  If the counter moved, the
  CAS2 fails — even when the head POINTER is the same node again.
-/
import LibfiberVerif.Model.Lifo
import LibfiberVerif.Proof.NodeList

namespace LibfiberVerif.Lifo
open NodeList

/-- the node a thread at this pc privately owns -/
def claim : Pc → Option Nat
  | .pushReady n => some n
  | .pushGotCounter n _ => some n
  | .pushGotHead n _ _ => some n
  | .pushWroteNext n _ _ => some n
  | .popWon h => some h
  | _ => none

/-- the counter value of the snapshot a thread at this pc holds -/
def snapC : Pc → Option Nat
  | .pushGotCounter _ c => some c
  | .pushGotHead _ c _ => some c
  | .pushWroteNext _ c _ => some c
  | .popGotCounter c => some c
  | .popGotHead c _ => some c
  | .popGotNext c _ _ => some c
  | _ => none

/-- the head pointer of the snapshot (loaded after the counter) -/
def snapH : Pc → Option Nat
  | .pushGotHead _ _ h => some h
  | .pushWroteNext _ _ h => some h
  | .popGotHead _ h => some h
  | .popGotNext _ h _ => some h
  | _ => none

/-- a pop only goes on with a non-NULL head -/
def popH : Pc → Option Nat
  | .popGotHead _ h => some h
  | .popGotNext _ h _ => some h
  | _ => none

structure Inv (s : St) : Prop where
  /-- the cells spell the abstract stack: following `next` from `head` visits exactly `stk` -/
  chain : Chain s.next s.head s.stk
  nodup : s.stk.Nodup
  /-- a node is in the stack iff nobody owns it -/
  own : ∀ n, n ∈ s.stk ↔ s.owner n = none
  claimOk : ∀ t n, claim (s.pc t) = some n → n ≠ 0 ∧ s.owner n = some t
  /-- a loaded counter is never ahead of the real one -/
  cLe : ∀ t c, snapC (s.pc t) = some c → c ≤ s.counter
  /-- counter unchanged since the load ⇒ the head loaded afterwards is still the head -/
  hOk : ∀ t c h, snapC (s.pc t) = some c → snapH (s.pc t) = some h → s.counter = c → s.head = h
  popNZ : ∀ t h, popH (s.pc t) = some h → h ≠ 0
  /-- counter unchanged since the load ⇒ `head->next` is still what the popper read,
      although it was a plain read of a node that may be recycled at any time -/
  xOk : ∀ t c h x, s.pc t = .popGotNext c h x → s.counter = c → s.next h = x
  wOk : ∀ t n c h, s.pc t = .pushWroteNext n c h → s.next n = h
  /-- the ghost linearisation is a legal sequential stack history ending in the current stack -/
  lin : stackReplay s.lin = some (s.stk.map (fun n => (n, s.data n)))

theorem inv_init (own0 : Nat → Nat) : Inv (init own0) := by
  constructor <;> simp [init, claim, snapC, snapH, popH, stackReplay, stackReplayFrom]

theorem map_data_upd {stk : List Nat} {data : Nat → Nat} {n v : Nat} (hn : n ∉ stk) :
    stk.map (fun m => (m, upd data n v m)) = stk.map (fun m => (m, data m)) := by
  apply List.map_congr_left
  intro m hm
  have : m ≠ n := fun h => hn (h ▸ hm)
  simp [upd, this]

set_option hygiene false in
/-- goals of the form `∀ t' …, P (upd s.pc t newpc t') → …`: for `t' = t` evaluate the new pc,
    for the other threads the old invariant field applies verbatim -/
macro "pcframe" : tactic => `(tactic|
  (intro t'; simp only [upd]; split
   · (rename_i e; subst e; simp [claim, snapC, snapH, popH] <;> simp_all)
   · first | exact hclaim t' | exact hcle t' | exact hhok t' | exact hpnz t' | exact hxok t' | exact hwok t'))

theorem inv_step (s s' : St) (e : Ev) (hI : Inv s) (h : step s e = some s') : Inv s' := by
  obtain ⟨hchain, hnodup, hown, hclaim, hcle, hhok, hpnz, hxok, hwok, hlin⟩ := hI
  cases e with
  | callPush t v =>
    simp only [step] at h
    split at h <;> simp at h
    subst h
    constructor <;> (try assumption) <;> pcframe
  | retPush t =>
    simp only [step] at h
    split at h <;> simp at h
    subst h
    constructor <;> (try assumption) <;> pcframe
  | callPop t =>
    simp only [step] at h
    split at h <;> simp at h
    subst h
    constructor <;> (try assumption) <;> pcframe
  | retPop t v =>
    simp only [step] at h
    split at h <;> simp at h
    obtain ⟨_, rfl⟩ := h
    constructor <;> (try assumption) <;> pcframe
  | wrData t n v =>
    simp only [step] at h
    split at h <;> simp at h
    rename_i v' hpc
    obtain ⟨⟨rfl, hn0, hown_n⟩, rfl⟩ := h
    have hnotin : n ∉ s.stk := by
      intro hm; have := (hown n).1 hm; simp [this] at hown_n
    constructor <;> (try assumption)
    · pcframe
    · pcframe
    · pcframe
    · pcframe
    · pcframe
    · pcframe
    · show stackReplay s.lin = some (s.stk.map (fun m => (m, upd s.data n v m)))
      rw [map_data_upd hnotin]; exact hlin
  | ldCounter t c =>
    simp only [step] at h
    split at h <;> simp at h
    · rename_i n hpc
      obtain ⟨rfl, rfl⟩ := h
      have := hclaim t n (by simp [hpc, claim])
      constructor <;> (try assumption) <;> pcframe
    · rename_i hpc
      obtain ⟨rfl, rfl⟩ := h
      constructor <;> (try assumption) <;> pcframe
  | ldHead t hd =>
    simp only [step] at h
    split at h <;> simp at h
    · rename_i n c hpc
      obtain ⟨rfl, rfl⟩ := h
      have h1 := hclaim t n (by simp [hpc, claim])
      have h2 := hcle t c (by simp [hpc, snapC])
      constructor <;> (try assumption) <;> pcframe
    · rename_i c hpc
      obtain ⟨rfl, h⟩ := h
      have h2 := hcle t c (by simp [hpc, snapC])
      split at h <;> simp at h <;> subst h
      · rename_i h0
        have hnil : s.stk = [] := by rw [h0] at hchain; exact chain_zero hchain
        constructor <;> (try assumption)
        · pcframe
        · pcframe
        · pcframe
        · pcframe
        · pcframe
        · pcframe
        · show stackReplay (s.lin ++ [.popEmpty]) = _
          rw [stackReplay_snoc, hlin, hnil]; simp [stackStep]
      · constructor <;> (try assumption) <;> pcframe
  | wrNext t n hd =>
    simp only [step] at h
    split at h <;> simp at h
    rename_i n' c h' hpc
    obtain ⟨⟨rfl, rfl⟩, rfl⟩ := h
    have h1 := hclaim t n (by simp [hpc, claim])
    have h2 := hcle t c (by simp [hpc, snapC])
    have h3 := hhok t c hd (by simp [hpc, snapC]) (by simp [hpc, snapH])
    have hnotin : n ∉ s.stk := by
      intro hm; have := (hown n).1 hm; simp [this] at h1
    constructor <;> (try assumption)
    · exact chain_upd_notin hnotin hchain
    · pcframe
    · pcframe
    · pcframe
    · pcframe
    · -- a popper's `next` read survives: its head is in the stack, the written node is not
      intro t' c' h'' x hpc' hcnt
      have hne : t' ≠ t := by intro e; subst e; simp [upd] at hpc'
      simp [upd, hne] at hpc'
      have hx := hxok t' c' h'' x hpc' hcnt
      have hhd := hhok t' c' h'' (by simp [hpc', snapC]) (by simp [hpc', snapH]) hcnt
      have hnz := hpnz t' h'' (by simp [hpc', popH])
      have hmem : h'' ∈ s.stk := by rw [← hhd]; exact chain_head_mem hchain (by rw [hhd]; exact hnz)
      have : h'' ≠ n := fun e => hnotin (e ▸ hmem)
      simp [upd, this]; exact hx
    · intro t' m c' h'' hpc'
      by_cases hne : t' = t
      · subst hne; simp [upd] at hpc'; obtain ⟨rfl, rfl, rfl⟩ := hpc'; simp [upd]
      · simp [upd, hne] at hpc'
        have hw := hwok t' m c' h'' hpc'
        have hc := hclaim t' m (by simp [hpc', claim])
        have : m ≠ n := by intro e; subst e; rw [h1.2] at hc; simp at hc; exact hne hc.2.symm
        simp [upd, this]; exact hw
  | rdNext t n x =>
    simp only [step] at h
    split at h <;> simp at h
    rename_i c h' hpc
    obtain ⟨⟨rfl, rfl⟩, rfl⟩ := h
    have h2 := hcle t c (by simp [hpc, snapC])
    have h3 := hhok t c n (by simp [hpc, snapC]) (by simp [hpc, snapH])
    have h4 := hpnz t n (by simp [hpc, popH])
    constructor <;> (try assumption) <;> pcframe
  | rdData t n v =>
    simp only [step] at h
    split at h <;> simp at h
    rename_i h' hpc
    obtain ⟨⟨rfl, rfl⟩, rfl⟩ := h
    constructor <;> (try assumption) <;> pcframe
  | cas2 t el eh nl nh ok =>
    simp only [step] at h
    split at h
    · -- push
      rename_i n c hd hpc
      split at h
      case isFalse => simp at h
      rename_i hcond
      obtain ⟨rfl, rfl, rfl, rfl, hok⟩ := hcond
      have h1 := hclaim t nh (by simp [hpc, claim])
      have h2 := hwok t nh el eh hpc
      have hnotin : nh ∉ s.stk := by
        intro hm; have := (hown nh).1 hm; simp [this] at h1
      split at h <;> simp at h <;> subst h
      · -- success: the counter is unchanged since the load
        rename_i hoktrue
        simp [hoktrue] at hok
        obtain ⟨hc, hh⟩ := hok
        constructor
        · show Chain s.next nh (nh :: s.stk)
          simp; refine ⟨h1.1, ?_⟩; rw [h2, ← hh]; exact hchain
        · show (nh :: s.stk).Nodup
          simp [hnotin, hnodup]
        · intro m; show m ∈ nh :: s.stk ↔ upd s.owner nh none m = none
          simp only [upd]; split
          · simp_all
          · rename_i hne; simp [hne, hown m]
        · intro t' m; simp only [upd]; split
          · simp [claim]
          · intro hcl; have := hclaim t' m hcl
            have : m ≠ nh := by intro e; subst e; simp_all
            simp [this]; simp_all
        · intro t' c'; simp only [upd]; split
          · simp [snapC]
          · intro hs; have := hcle t' c' hs; show c' ≤ el + 1; omega
        · intro t' c' h'; simp only [upd]; split
          · simp [snapC]
          · intro hs _ hcnt; have := hcle t' c' hs
            have : el + 1 = c' := hcnt
            omega
        · intro t' h'; simp only [upd]; split
          · simp [popH]
          · exact hpnz t' h'
        · intro t' c' h' x; simp only [upd]; split
          · simp
          · intro hpc' hcnt; have := hcle t' c' (by simp [hpc', snapC])
            have : el + 1 = c' := hcnt
            omega
        · intro t' m c' h'; simp only [upd]; split
          · simp
          · exact hwok t' m c' h'
        · show stackReplay (s.lin ++ [.push nh (s.data nh)]) = some ((nh :: s.stk).map (fun n => (n, s.data n)))
          rw [stackReplay_snoc, hlin]; simp [stackStep]
      · constructor <;> (try assumption) <;> pcframe
    · -- pop
      rename_i c hd x hpc
      split at h
      case isFalse => simp at h
      rename_i hcond
      obtain ⟨rfl, rfl, rfl, rfl, hok⟩ := hcond
      split at h <;> simp at h <;> subst h
      · -- success: the counter is unchanged since the load, so `eh` is the top and `nh` the second
        rename_i hoktrue
        simp [hoktrue] at hok
        obtain ⟨hc, hh⟩ := hok
        have hnz := hpnz t eh (by simp [hpc, popH])
        have hx := hxok t el eh nh hpc hc
        obtain ⟨l', hl', hchain'⟩ := chain_nonzero hchain (by rw [hh]; exact hnz)
        rw [hh] at hl'
        have hnd : eh ∉ l' ∧ l'.Nodup := by rw [hl'] at hnodup; simpa using hnodup
        constructor
        · show Chain s.next nh s.stk.tail
          rw [hl', ← hx]; simpa [hh] using hchain'
        · show s.stk.tail.Nodup
          rw [hl']; exact hnd.2
        · intro m; show m ∈ s.stk.tail ↔ upd s.owner eh (some t) m = none
          rw [hl']; simp only [upd, List.tail_cons]; split
          · rename_i e; subst e; simp [hnd.1]
          · rename_i hne; rw [← hown m, hl']; simp [hne]
        · intro t' m; simp only [upd]; split
          · rename_i e; subst e; simp [claim]; intro e; subst e; simp [hnz]
          · intro hcl; have hcm := hclaim t' m hcl
            have : m ≠ eh := by
              intro e; subst e
              have := (hown m).1 (by rw [hl']; simp)
              rw [this] at hcm; simp at hcm
            simp [this]; exact hcm
        · intro t' c'; simp only [upd]; split
          · simp [snapC]
          · intro hs; have := hcle t' c' hs; show c' ≤ el + 1; omega
        · intro t' c' h'; simp only [upd]; split
          · simp [snapC]
          · intro hs _ hcnt; have := hcle t' c' hs
            have : el + 1 = c' := hcnt
            omega
        · intro t' h'; simp only [upd]; split
          · simp [popH]
          · exact hpnz t' h'
        · intro t' c' h' x; simp only [upd]; split
          · simp
          · intro hpc' hcnt; have := hcle t' c' (by simp [hpc', snapC])
            have : el + 1 = c' := hcnt
            omega
        · intro t' m c' h'; simp only [upd]; split
          · simp
          · exact hwok t' m c' h'
        · show stackReplay (s.lin ++ [.pop eh (s.data eh)]) = some (s.stk.tail.map (fun n => (n, s.data n)))
          rw [stackReplay_snoc, hlin, hl']; simp [stackStep]
      · constructor <;> (try assumption) <;> pcframe
    · simp at h

theorem inv_of_run {own0 : Nat → Nat} {es : List Ev} {s : St} (h : (sys own0).run es = some s) : Inv s :=
  Sys.inv_of_run (sys own0) Inv (inv_init own0) (fun s e s' hI hs => inv_step s s' e hI hs) h

/-! ### the counter counts the successful CAS2s -/

/-- a successful double-word CAS -/
def casOk : Ev → Bool
  | .cas2 _ _ _ _ _ true => true
  | _ => false

theorem counter_step {s s' : St} {e : Ev} (h : step s e = some s') :
    s'.counter = s.counter + (if casOk e then 1 else 0) := by
  cases e <;> simp only [step] at h
  case cas2 t el eh nl nh ok =>
    split at h
    · split at h
      · rename_i hc; obtain ⟨rfl, rfl, rfl, rfl, hok⟩ := hc
        split at h <;> simp at h <;> subst h
        · rename_i hoktrue; subst hoktrue; simp at hok; simp [casOk, hok.1]
        · rename_i hokf; simp at hokf; subst hokf; simp [casOk]
      · simp at h
    · split at h
      · rename_i hc; obtain ⟨rfl, rfl, rfl, rfl, hok⟩ := hc
        split at h <;> simp at h <;> subst h
        · rename_i hoktrue; subst hoktrue; simp at hok; simp [casOk, hok.1]
        · rename_i hokf; simp at hokf; subst hokf; simp [casOk]
      · simp at h
    · simp at h
  all_goals (repeat' split at h) <;> simp at h <;> (try obtain ⟨_, h⟩ := h) <;> (try subst h) <;> simp [casOk]

theorem counter_counts {own0 : Nat → Nat} {es : List Ev} {s : St} (h : (sys own0).run es = some s) :
    s.counter = (es.filter casOk).length := by
  refine Sys.hist_inv_of_run (sys own0) (fun s es => s.counter = (es.filter casOk).length) ?_ ?_ h
  · simp [sys, init]
  · intro s es e s' hI hs
    have := counter_step (s := s) (s' := s') (e := e) hs
    rw [this, hI, List.filter_append, List.length_append]
    cases hc : casOk e <;> simp [List.filter, hc]

/-! ### the snapshot a thread holds is the one of its LAST counter load -/

theorem snapC_step {s s' : St} {e : Ev} {t : Nat} (h : step s e = some s')
    (hne : ∀ c, e ≠ .ldCounter t c) :
    ∀ c, snapC (s'.pc t) = some c → snapC (s.pc t) = some c := by
  intro c0
  cases e <;> simp only [step] at h
  case ldCounter t1 c1 =>
    have ht : t1 ≠ t := by intro e; subst e; exact hne c1 rfl
    (repeat' split at h) <;> simp at h <;> obtain ⟨_, rfl⟩ := h <;> simp [upd, Ne.symm ht]
  all_goals
    (repeat' split at h) <;> simp at h <;> (try obtain ⟨_, h⟩ := h) <;> (try subst h) <;>
      simp only [upd] <;> split <;> (try rename_i e; subst e) <;> simp_all [snapC]

theorem snapC_runFrom {own0 : Nat → Nat} {post : List Ev} {s s' : St} {t c : Nat}
    (h : (sys own0).runFrom s post = some s')
    (hne : ∀ e ∈ post, ∀ c', e ≠ .ldCounter t c')
    (h0 : ∀ c', snapC (s.pc t) = some c' → c' = c) :
    ∀ c', snapC (s'.pc t) = some c' → c' = c := by
  induction post generalizing s with
  | nil => simp [Sys.runFrom] at h; subst h; exact h0
  | cons e post ih =>
    simp only [Sys.runFrom] at h
    cases hs : (sys own0).step s e with
    | none => simp [hs] at h
    | some s1 =>
      simp [hs] at h
      apply ih h (fun e' he' => hne e' (by simp [he']))
      intro c' hc'
      exact h0 c' (snapC_step (t := t) hs (hne e (by simp)) c' hc')

/-- `cas2_success_means_unchanged`, trace form: if thread `t`'s CAS2 succeeds, then NO
    successful CAS2 (by anybody) happened since `t`'s last counter load, and the compared
    counter is the loaded one. -/
theorem cas2_success_unchanged {own0 : Nat → Nat} {pre post : List Ev} {t c el eh nl nh : Nat} {s s' : St}
    (hrun : (sys own0).run (pre ++ [Ev.ldCounter t c] ++ post) = some s)
    (hlast : ∀ e ∈ post, ∀ c', e ≠ Ev.ldCounter t c')
    (hcas : step s (.cas2 t el eh nl nh true) = some s') :
    el = c ∧ s.counter = c ∧ s.head = eh ∧ ∀ e ∈ post, casOk e = false := by
  -- split the run
  have hrun' := hrun
  simp only [Sys.run, Sys.runFrom_append] at hrun'
  cases h1 : (sys own0).runFrom (sys own0).init pre with
  | none => simp [h1] at hrun'
  | some s1 =>
    simp [h1, Sys.runFrom] at hrun'
    cases h2 : (sys own0).step s1 (Ev.ldCounter t c) with
    | none => simp [h2] at hrun'
    | some s2 =>
      simp [h2] at hrun'
      -- the load read the real counter
      have hc1 : c = s1.counter ∧ snapC (s2.pc t) = some c := by
        simp only [sys, step] at h2
        (repeat' split at h2) <;> simp at h2 <;> subst h2 <;> simp_all [upd, snapC]
      have hcnt1 := counter_counts (own0 := own0) (es := pre) (s := s1) h1
      have hcnt := counter_counts hrun
      have hsnap := snapC_runFrom (c := c) hrun' hlast (by intro c' hc'; rw [hc1.2] at hc'; simpa using hc'.symm)
      -- the CAS compares against the snapshot
      have hcas' := hcas
      simp only [step] at hcas'
      have key : el = c ∧ s.counter = el ∧ s.head = eh := by
        split at hcas'
        · rename_i n c0 h0 hpc
          have := hsnap c0 (by simp [hpc, snapC])
          split at hcas'
          · rename_i hc; obtain ⟨rfl, rfl, _, _, hok⟩ := hc; simp at hok; exact ⟨this, hok.1, hok.2⟩
          · simp at hcas'
        · rename_i c0 h0 x0 hpc
          have := hsnap c0 (by simp [hpc, snapC])
          split at hcas'
          · rename_i hc; obtain ⟨rfl, rfl, _, _, hok⟩ := hc; simp at hok; exact ⟨this, hok.1, hok.2⟩
          · simp at hcas'
        · simp at hcas'
      obtain ⟨rfl, hk2, hk3⟩ := key
      refine ⟨rfl, hk2, hk3, ?_⟩
      have hlen : (post.filter casOk).length = 0 := by
        have e1 : s.counter = s1.counter := hk2.trans hc1.1
        have e2 : ((pre ++ [Ev.ldCounter t el] ++ post).filter casOk).length
            = (pre.filter casOk).length + (post.filter casOk).length := by
          simp [List.filter_append, casOk]
        omega
      intro e he
      cases hce : casOk e with
      | false => rfl
      | true =>
        have : e ∈ post.filter casOk := List.mem_filter.2 ⟨he, hce⟩
        have := List.length_pos_of_mem this
        omega

/-! ### consequences for a successful CAS2 (despite node reuse) -/

/-- a successful pop CAS2 removes the node that is the top of the abstract stack AT THE CAS
    INSTANT, its new head is the second element, and the node goes to the popping thread -/
theorem pop_cas_success {s s' : St} {t c h x el eh nl nh : Nat} (hI : Inv s)
    (hpc : s.pc t = .popGotNext c h x) (hcas : step s (.cas2 t el eh nl nh true) = some s') :
    s.counter = c ∧ s.head = h ∧ s.next h = x ∧ s.stk = h :: s'.stk ∧ Chain s'.next x s'.stk ∧
      s'.head = x ∧ s'.owner h = some t ∧ s'.lin = s.lin ++ [.pop h (s.data h)] := by
  simp only [step, hpc] at hcas
  split at hcas
  · rename_i hc; obtain ⟨rfl, rfl, rfl, rfl, hok⟩ := hc
    simp at hok hcas; subst hcas
    have hnz := hI.popNZ t eh (by simp [hpc, popH])
    have hx := hI.xOk t el eh nh hpc hok.1
    obtain ⟨l', hl', hchain'⟩ := chain_nonzero hI.chain (by rw [hok.2]; exact hnz)
    rw [hok.2] at hl' hchain'
    refine ⟨hok.1, hok.2, hx, ?_, ?_, rfl, by simp [upd], rfl⟩
    · show s.stk = eh :: s.stk.tail
      rw [hl']; rfl
    · show Chain s.next nh s.stk.tail
      rw [hl', ← hx]; exact hchain'
  · simp at hcas

/-- a successful push CAS2 puts the node on top of the abstract stack as it is AT THE CAS
    INSTANT: its `next` is the current top -/
theorem push_cas_success {s s' : St} {t n c h el eh nl nh : Nat} (hI : Inv s)
    (hpc : s.pc t = .pushWroteNext n c h) (hcas : step s (.cas2 t el eh nl nh true) = some s') :
    s.counter = c ∧ s.head = h ∧ s.next n = h ∧ s'.stk = n :: s.stk ∧ s'.head = n ∧
      s.owner n = some t ∧ s'.owner n = none ∧ s'.lin = s.lin ++ [.push n (s.data n)] := by
  simp only [step, hpc] at hcas
  split at hcas
  · rename_i hc; obtain ⟨rfl, rfl, rfl, rfl, hok⟩ := hc
    simp at hok hcas; subst hcas
    have h1 := hI.claimOk t nh (by simp [hpc, claim])
    exact ⟨hok.1, hok.2, hI.wOk t nh el eh hpc, rfl, rfl, h1.2, by simp [upd], rfl⟩
  · simp at hcas

/-- exactly-once bookkeeping: every node was put in exactly as often as it was handed out,
    plus one if it is in the stack right now -/
theorem count_balance {s : St} (hI : Inv s) (n : Nat) :
    pushCount n s.lin = takeCount n s.lin + (if n ∈ s.stk then 1 else 0) := by
  have := stackReplayFrom_count n hI.lin
  simp [List.map_map, Function.comp_def] at this
  rw [this, hI.nodup.count]

end LibfiberVerif.Lifo
