/-
  Proof/AbsQueueRefine.lean — the access-level model of include/mpsc_fifo.h refines the
  abstract waiter queue of Model/AbsQueue.lean.

  Plan:
    1. `MpscCore.coreStep` contains `Mpsc.step .mpsc` and preserves C15's structural
       invariant `Mpsc.Inv .mpsc` (which never mentions payload distinctness).
    2. `Eff`: what one `MpscCore.step` does to the fields the abstraction looks at.
    3. `J`: the coupling invariant between the recordings `hist` / `npop` and the queue.
    4. agreement of the concrete cells with the derived values, step simulation, corollaries.
-/
import LibfiberVerif.Model.AbsQueue
import LibfiberVerif.Proof.Mpsc

namespace LibfiberVerif.MpscCore

open Mpsc (Ev Pc CPc Kind idx_lt mem_of_idx idx_app idx_app_cases idx_drop1 nodup_idx idx_of_mem
  drop1_app drop1_eq_cons head_mem tail_mem)

/-! ### 1. `coreStep` vs `Mpsc.step .mpsc` -/

/-- every step of C15's model is a step of the payload-agnostic core -/
theorem coreStep_of_mpsc {s s' : Mpsc.St} {e : Ev} (h : Mpsc.step .mpsc s e = some s') :
    coreStep s e = some s' := by
  cases e <;> try exact h
  case callPush t v =>
    simp only [Mpsc.step] at h
    split at h <;> simp at h
    rename_i hc
    subst h
    simp [coreStep, hc.1, hc.2.2.2.1]

/-- … and the only steps it adds are `call push` notes with a repeated or zero payload -/
theorem coreStep_cases {s s' : Mpsc.St} {e : Ev} (h : coreStep s e = some s') :
    Mpsc.step .mpsc s e = some s' ∨
      ∃ t v, e = .callPush t v ∧ s.pc t = .idle ∧ (s.cpc = .idle ∨ s.ct ≠ t) ∧
        s' = { s with pc := upd s.pc t (.called v), called := s.called ++ [v] } := by
  cases e <;> try exact Or.inl h
  case callPush t v =>
    right
    simp only [coreStep] at h
    split at h <;> simp at h
    rename_i hc
    exact ⟨t, v, rfl, hc.1, hc.2, h.symm⟩

theorem inv_coreStep {s s' : Mpsc.St} {e : Ev} (h : Mpsc.Inv .mpsc s)
    (hs : coreStep s e = some s') : Mpsc.Inv .mpsc s' := by
  rcases coreStep_cases hs with hs | ⟨t, v, _, hidle, hcons, rfl⟩
  · exact Mpsc.inv_step h hs
  · constructor <;> try inv_frame h
    case lk => have := h.lk; simp only [upd_apply]; grind
    case pHave => have := h.pHave; simp only [upd_apply, Mpsc.Owned] at *; grind
    case pClr => have := h.pClr; simp only [upd_apply, Mpsc.Owned] at *; grind
    case pGot => have := h.pGot; simp only [upd_apply, Mpsc.Owned] at *; grind
    case pX => have := h.pX; simp only [upd_apply]; grind
    case single => have := h.single; simp only [upd_apply]; grind
    case pXs => have := h.pXs; simp only [upd_apply]; grind

/-! ### 2. the effect of one step on what the abstraction looks at -/

theorem step_unfold {c c' : St} {e : Ev} (h : step c e = some c') :
    ∃ m', coreStep c.m e = some m' ∧ c'.m = m' ∧ c'.stub = c.stub ∧
      c'.hist = (match (generalizing := false) e with
        | .xchgTail _ _ n => c.hist ++ [(n, c.m.data n)]
        | _ => c.hist) ∧
      c'.npop = (match (generalizing := false) e with
        | .wrHead _ _ => c.npop + 1
        | _ => c.npop) := by
  cases hm : coreStep c.m e with
  | none => simp [step, hm] at h
  | some m' =>
    simp only [step, hm, Option.some.injEq] at h
    subst h
    exact ⟨m', rfl, rfl, rfl, rfl, rfl⟩

inductive Eff (c c' : St) (e : Ev) : Prop
  /-- nothing the abstraction looks at changes -/
  | frame (hq : c'.m.q = c.m.q) (hhead : c'.m.head = c.m.head)
      (hnext : ∀ a, a ∈ c.m.q → c'.m.next a = c.m.next a)
      (hdata : ∀ a, a ∈ c.m.q → c'.m.data a = c.m.data a)
      (hpushed : c'.m.pushed = c.m.pushed)
      (hcpc : c'.m.cpc = c.m.cpc ∨ ∀ h x, c'.m.cpc ≠ .moved h x)
      (hhist : c'.hist = c.hist) (hnpop : c'.npop = c.npop) (hstub : c'.stub = c.stub)
      (hproj : proj c e = none ∨ ∃ t n x, e = .rdNext t n x ∧ x = c.m.next c.m.head)
  /-- `old = xchg(&tail, n)` -/
  | publish (t n old : Nat) (he : e = .xchgTail t old n) (hold : old = c.m.tail)
      (hnq : n ∉ c.m.q) (hn0 : n ≠ 0) (hnx : c.m.next n = 0)
      (hq : c'.m.q = c.m.q ++ [n]) (hhead : c'.m.head = c.m.head)
      (hnext : c'.m.next = c.m.next) (hdata : c'.m.data = c.m.data)
      (hpushed : c'.m.pushed = c.m.pushed ++ [c.m.data n]) (hcpc : c'.m.cpc = c.m.cpc)
      (hhist : c'.hist = c.hist ++ [(n, c.m.data n)]) (hnpop : c'.npop = c.npop)
      (hstub : c'.stub = c.stub)
  /-- the link write `p->next = m` -/
  | link (t v m p : Nat) (he : e = .wrNext t p m) (hpc : c.m.pc t = .xchgd v m p)
      (hq : c'.m.q = c.m.q) (hhead : c'.m.head = c.m.head)
      (hnext : c'.m.next = upd c.m.next p m) (hdata : c'.m.data = c.m.data)
      (hpushed : c'.m.pushed = c.m.pushed) (hcpc : c'.m.cpc = c.m.cpc)
      (hhist : c'.hist = c.hist) (hnpop : c'.npop = c.npop) (hstub : c'.stub = c.stub)
  /-- `head = x` -/
  | pop (t h x : Nat) (he : e = .wrHead t x) (hcp : c.m.cpc = .gotNext h x) (hx : x ≠ 0)
      (hq : c'.m.q = c.m.q.drop 1) (hhead : c'.m.head = x)
      (hnext : c'.m.next = c.m.next) (hdata : c'.m.data = c.m.data)
      (hpushed : c'.m.pushed = c.m.pushed) (hcpc : c'.m.cpc = .moved h x)
      (hhist : c'.hist = c.hist) (hnpop : c'.npop = c.npop + 1) (hstub : c'.stub = c.stub)

theorem step_eff {c c' : St} {e : Ev} (hI : Mpsc.Inv .mpsc c.m) (hs : step c e = some c') :
    Eff c c' e := by
  obtain ⟨m', hcs, hm', hstub, hhist, hnpop⟩ := step_unfold hs
  subst hm'
  clear hs
  rcases coreStep_cases hcs with hm | ⟨t, v, he, _, _, hm⟩ <;> clear hcs
  · cases e <;> simp only [Mpsc.step] at hm
    case callPush t v =>
      split at hm <;> simp at hm
      exact .frame (by rw [← hm]) (by rw [← hm]) (by rw [← hm]; simp) (by rw [← hm]; simp)
        (by rw [← hm]) (Or.inl (by rw [← hm])) hhist hnpop hstub (Or.inl rfl)
    case wrDataClient t n x =>
      split at hm
      next v hpc =>
        split at hm <;> simp at hm
        rename_i hc
        obtain ⟨_, _, hnq, _, _⟩ := hc
        refine .frame (by rw [← hm]) (by rw [← hm]) (by rw [← hm]; simp) ?_
          (by rw [← hm]) (Or.inl (by rw [← hm])) hhist hnpop hstub (Or.inl rfl)
        intro a ha; rw [← hm]; simp only [upd_apply]; grind
      next => simp at hm
    case wrNext t n x =>
      split at hm
      next v m hpc =>
        split at hm <;> simp at hm
        rename_i hc
        obtain ⟨rfl, rfl⟩ := hc
        obtain ⟨_, hnq, _, _, _⟩ := hI.pHave _ _ _ hpc
        refine .frame (by rw [← hm]) (by rw [← hm]) ?_ (by rw [← hm]; simp)
          (by rw [← hm]) (Or.inl (by rw [← hm])) hhist hnpop hstub (Or.inl ?_)
        · intro a ha; rw [← hm]; simp only [upd_apply]; grind
        · simp [proj, hpc]
      next v m p hpc =>
        split at hm <;> simp at hm
        rename_i hc
        obtain ⟨rfl, rfl⟩ := hc
        exact .link t v x n rfl hpc (by rw [← hm]) (by rw [← hm]) (by rw [← hm]) (by rw [← hm])
          (by rw [← hm]) (by rw [← hm]) hhist hnpop hstub
      next => simp at hm
    case xchgTail t o n =>
      split at hm
      next v m hpc =>
        split at hm <;> simp at hm
        rename_i hc
        obtain ⟨_, rfl, rfl⟩ := hc
        obtain ⟨⟨_, hnq, hn0, hdat, _⟩, hnx⟩ := hI.pClr _ _ _ hpc
        exact .publish t n c.m.tail rfl rfl hnq hn0 hnx (by rw [← hm]; rfl) (by rw [← hm]; rfl)
          (by rw [← hm]; rfl) (by rw [← hm]; rfl) (by rw [← hm, hdat]; rfl) (by rw [← hm]; rfl)
          hhist hnpop hstub
      next => simp at hm
    case ldTail t x =>
      split at hm
      next =>
        split at hm
        · rename_i hc; exact absurd hc.1 (by decide)
        · simp at hm
      next => simp at hm
    case stTail t x =>
      split at hm
      next v m p hpc => exact absurd (hI.pGot _ _ _ _ hpc).2.2.1 (by simp)
      next => simp at hm
    case retPush t r =>
      split at hm
      next =>
        split at hm <;> simp at hm
        exact .frame (by rw [← hm]) (by rw [← hm]) (by rw [← hm]; simp) (by rw [← hm]; simp)
          (by rw [← hm]) (Or.inl (by rw [← hm])) hhist hnpop hstub (Or.inl rfl)
      next => simp at hm
    case callPop t =>
      split at hm <;> simp at hm
      exact .frame (by rw [← hm]) (by rw [← hm]) (by rw [← hm]; simp) (by rw [← hm]; simp)
        (by rw [← hm]) (Or.inr (by rw [← hm]; simp)) hhist hnpop hstub (Or.inl rfl)
    case rdHead t x =>
      split at hm
      next =>
        split at hm <;> simp at hm
        exact .frame (by rw [← hm]) (by rw [← hm]) (by rw [← hm]; simp) (by rw [← hm]; simp)
          (by rw [← hm]) (Or.inr (by rw [← hm]; simp)) hhist hnpop hstub (Or.inl rfl)
      next =>
        split at hm <;> simp at hm
        exact .frame (by rw [← hm]) (by rw [← hm]) (by rw [← hm]; simp) (by rw [← hm]; simp)
          (by rw [← hm]) (Or.inr (by rw [← hm]; simp)) hhist hnpop hstub (Or.inl rfl)
      next => simp at hm
    case rdNext t n x =>
      split at hm
      next h0 hcp =>
        split at hm <;> simp at hm
        rename_i hc
        obtain ⟨_, rfl, rfl⟩ := hc
        have hh := hI.cGotHead _ hcp
        exact .frame (by rw [← hm]) (by rw [← hm]) (by rw [← hm]; simp) (by rw [← hm]; simp)
          (by rw [← hm]) (Or.inr (by rw [← hm]; simp)) hhist hnpop hstub
          (Or.inr ⟨t, n, _, rfl, by rw [hh]⟩)
      next h0 hcp =>
        -- the same read, performed by `mpsc_fifo_peek`
        split at hm <;> simp at hm
        rename_i hc
        obtain ⟨_, rfl, rfl⟩ := hc
        have hh := hI.cPkGotHead _ hcp
        exact .frame (by rw [← hm]) (by rw [← hm]) (by rw [← hm]; simp) (by rw [← hm]; simp)
          (by rw [← hm]) (Or.inr (by rw [← hm]; simp)) hhist hnpop hstub
          (Or.inr ⟨t, n, _, rfl, by rw [hh]⟩)
      next => simp at hm
    case wrHead t x =>
      split at hm
      next h0 y hcp =>
        split at hm <;> simp at hm
        rename_i hc
        obtain ⟨_, hy, rfl⟩ := hc
        exact .pop t h0 x rfl hcp hy (by rw [← hm]; simp) (by rw [← hm]) (by rw [← hm]) (by rw [← hm])
          (by rw [← hm]) (by rw [← hm]) hhist hnpop hstub
      next => simp at hm
    case rdDataPop t n d =>
      split at hm
      next =>
        split at hm <;> simp at hm
        exact .frame (by rw [← hm]) (by rw [← hm]) (by rw [← hm]; simp) (by rw [← hm]; simp)
          (by rw [← hm]) (Or.inr (by rw [← hm]; simp)) hhist hnpop hstub (Or.inl rfl)
      next => simp at hm
    case wrDataPop t n d =>
      split at hm
      next h0 x0 d' hcp =>
        split at hm <;> simp at hm
        rename_i hc
        obtain ⟨_, rfl, rfl⟩ := hc
        have hnq := hI.cGotData _ _ _ hcp
        refine .frame (by rw [← hm]) (by rw [← hm]) (by rw [← hm]; simp) ?_
          (by rw [← hm]) (Or.inr (by rw [← hm]; simp)) hhist hnpop hstub (Or.inl rfl)
        intro a ha; rw [← hm]; simp only [upd_apply]; grind
      next => simp at hm
    case rdDataClient t n d =>
      split at hm
      next =>
        split at hm <;> simp at hm
        exact .frame (by rw [← hm]) (by rw [← hm]) (by rw [← hm]; simp) (by rw [← hm]; simp)
          (by rw [← hm]) (Or.inr (by rw [← hm]; simp)) hhist hnpop hstub (Or.inl rfl)
      next => simp at hm
    case retPop t v =>
      split at hm
      next =>
        split at hm <;> simp at hm
        exact .frame (by rw [← hm]) (by rw [← hm]) (by rw [← hm]; simp) (by rw [← hm]; simp)
          (by rw [← hm]) (Or.inr (by rw [← hm]; simp)) hhist hnpop hstub (Or.inl rfl)
      next =>
        split at hm <;> simp at hm
        exact .frame (by rw [← hm]) (by rw [← hm]) (by rw [← hm]; simp) (by rw [← hm]; simp)
          (by rw [← hm]) (Or.inr (by rw [← hm]; simp)) hhist hnpop hstub (Or.inl rfl)
      next => simp at hm
    case callPeek t =>
      split at hm <;> simp at hm
      exact .frame (by rw [← hm]) (by rw [← hm]) (by rw [← hm]; simp) (by rw [← hm]; simp)
        (by rw [← hm]) (Or.inr (by rw [← hm]; simp)) hhist hnpop hstub (Or.inl rfl)
    case rdDataPeek t n d =>
      split at hm
      next =>
        split at hm <;> simp at hm
        exact .frame (by rw [← hm]) (by rw [← hm]) (by rw [← hm]; simp) (by rw [← hm]; simp)
          (by rw [← hm]) (Or.inr (by rw [← hm]; simp)) hhist hnpop hstub (Or.inl rfl)
      next => simp at hm
    case retPeek t v =>
      split at hm
      next =>
        split at hm <;> simp at hm
        exact .frame (by rw [← hm]) (by rw [← hm]) (by rw [← hm]; simp) (by rw [← hm]; simp)
          (by rw [← hm]) (Or.inr (by rw [← hm]; simp)) hhist hnpop hstub (Or.inl rfl)
      next =>
        split at hm <;> simp at hm
        exact .frame (by rw [← hm]) (by rw [← hm]) (by rw [← hm]; simp) (by rw [← hm]; simp)
          (by rw [← hm]) (Or.inr (by rw [← hm]; simp)) hhist hnpop hstub (Or.inl rfl)
      next => simp at hm
  · subst he
    exact .frame (by rw [hm]) (by rw [hm]) (by rw [hm]; simp) (by rw [hm]; simp) (by rw [hm])
      (Or.inl (by rw [hm])) hhist hnpop hstub (Or.inl rfl)

/-! ### 3. the coupling invariant between the recordings and the queue -/

/-- a non-NULL `next` of the stub is the second node of `q` -/
theorem second_of_next {s : Mpsc.St} (hI : Mpsc.Inv .mpsc s) {x : Nat} (hx : x ≠ 0)
    (hnx : s.next s.head = x) : s.q[1]? = some x := by
  have hq0 := hI.hq
  have hlen : 1 < s.q.length := by
    by_cases hl : s.q.length = 1
    · have htl := hI.tl
      rw [hl] at htl
      simp only [Nat.sub_self] at htl
      rw [hq0] at htl
      have : s.head = s.tail := Option.some.inj htl
      have := hI.last
      grind
    · have := hI.qpos; omega
  have hb : s.q[1]? = some (s.q[1]'hlen) := List.getElem?_eq_getElem hlen
  have := hI.lk 0 s.head _ hq0 hb
  rw [hb]; grind

structure J (c : St) : Prop where
  len : c.npop + c.m.q.length = c.hist.length + 1
  /-- the entries not popped yet are the nodes after the stub … -/
  nodes : (c.hist.drop c.npop).map Prod.fst = c.m.q.drop 1
  /-- … and the recorded payloads are what their `data` cells hold -/
  pay : (c.hist.drop c.npop).map Prod.snd = (c.m.q.drop 1).map c.m.data
  first : c.npop = 0 → c.m.head = c.stub
  /-- the current stub is the node of the entry popped last, and still carries its payload -/
  last : ∀ k, c.npop = k + 1 → c.hist[k]? = some (c.m.head, c.m.data c.m.head)
  pushed : c.hist.map Prod.snd = c.m.pushed
  moved : ∀ h x, c.m.cpc = .moved h x → 0 < c.npop

theorem j_init (stub : Nat) : J (init stub) := by
  constructor <;> simp [init, Mpsc.init]

/-- entry `npop + j` of the history is the node `q[j + 1]` with the payload in its `data` -/
theorem entry_of {c : St} (hJ : J c) {j n : Nat} (h : c.m.q[j + 1]? = some n) :
    c.hist[c.npop + j]? = some (n, c.m.data n) := by
  have h1 := congrArg (fun l => l[j]?) hJ.nodes
  have h2 := congrArg (fun l => l[j]?) hJ.pay
  simp only [List.getElem?_map, List.getElem?_drop] at h1 h2
  rw [Nat.add_comm 1 j, h] at h1 h2
  cases he : c.hist[c.npop + j]? with
  | none => rw [he] at h1; simp at h1
  | some e =>
    rw [he] at h1 h2
    simp only [Option.map_some, Option.some.injEq] at h1 h2
    rw [← h2, ← h1]

theorem entry_inv {c : St} (hJ : J c) {j n f : Nat} (h : c.hist[c.npop + j]? = some (n, f)) :
    c.m.q[j + 1]? = some n ∧ c.m.data n = f := by
  have h1 := congrArg (fun l => l[j]?) hJ.nodes
  have h2 := congrArg (fun l => l[j]?) hJ.pay
  simp only [List.getElem?_map, List.getElem?_drop] at h1 h2
  rw [h, Nat.add_comm 1 j] at h1 h2
  simp only [Option.map_some] at h1 h2
  rw [← h1] at h2
  simp only [Option.map_some, Option.some.injEq] at h2
  exact ⟨h1.symm, h2.symm⟩

theorem j_step {c c' : St} {e : Ev} (hI : Mpsc.Inv .mpsc c.m) (hJ : J c)
    (hs : step c e = some c') : J c' := by
  have hqpos := hI.qpos
  cases step_eff hI hs with
  | frame hq hhead hnext hdata hpushed hcpc hhist hnpop hstub hproj =>
    have hmap : (c.m.q.drop 1).map c'.m.data = (c.m.q.drop 1).map c.m.data :=
      List.map_congr_left (fun a ha => hdata a (List.mem_of_mem_drop ha))
    constructor
    case len => rw [hq, hhist, hnpop]; exact hJ.len
    case nodes => rw [hq, hhist, hnpop]; exact hJ.nodes
    case pay => rw [hq, hhist, hnpop, hmap]; exact hJ.pay
    case first => rw [hhead, hstub, hnpop]; exact hJ.first
    case last => rw [hhead, hhist, hnpop, hdata _ (head_mem hI)]; exact hJ.last
    case pushed => rw [hhist, hpushed]; exact hJ.pushed
    case moved =>
      intro h x hm
      rw [hnpop]
      rcases hcpc with hc | hc
      · rw [hc] at hm; exact hJ.moved _ _ hm
      · exact absurd hm (hc h x)
  | publish t n old he hold hnq hn0 hnx hq hhead hnext hdata hpushed hcpc hhist hnpop hstub =>
    have hle : c.npop ≤ c.hist.length := by have := hJ.len; omega
    constructor
    case len => rw [hq, hhist, hnpop]; have := hJ.len; simp; omega
    case nodes =>
      rw [hq, hhist, hnpop, List.drop_append_of_le_length hle, drop1_app n hqpos,
        List.map_append, hJ.nodes]
      rfl
    case pay =>
      rw [hq, hhist, hnpop, hdata, List.drop_append_of_le_length hle, drop1_app n hqpos,
        List.map_append, List.map_append, hJ.pay]
      rfl
    case first => rw [hhead, hstub, hnpop]; exact hJ.first
    case last =>
      intro k hk
      rw [hnpop] at hk
      have := hJ.last k hk
      have hlt : k < c.hist.length := by omega
      rw [hhead, hhist, hdata, List.getElem?_append_left hlt]; exact this
    case pushed => rw [hhist, hpushed, List.map_append, hJ.pushed]; rfl
    case moved => rw [hcpc, hnpop]; exact hJ.moved
  | link t v m p he hpc hq hhead hnext hdata hpushed hcpc hhist hnpop hstub =>
    constructor
    case len => rw [hq, hhist, hnpop]; exact hJ.len
    case nodes => rw [hq, hhist, hnpop]; exact hJ.nodes
    case pay => rw [hq, hhist, hnpop, hdata]; exact hJ.pay
    case first => rw [hhead, hstub, hnpop]; exact hJ.first
    case last => rw [hhead, hhist, hnpop, hdata]; exact hJ.last
    case pushed => rw [hhist, hpushed]; exact hJ.pushed
    case moved => rw [hcpc, hnpop]; exact hJ.moved
  | pop t h x he hcp hx hq hhead hnext hdata hpushed hcpc hhist hnpop hstub =>
    obtain ⟨hh, hnx⟩ := hI.cGotNext _ _ hcp
    have hq1 : c.m.q[1]? = some x := second_of_next hI hx (hh ▸ hnx hx)
    constructor
    case len => rw [hq, hhist, hnpop, List.length_drop]; have := hJ.len; omega
    case nodes =>
      rw [hq, hhist, hnpop, List.drop_drop]
      have := congrArg (List.drop 1) hJ.nodes
      rw [← List.map_drop, List.drop_drop] at this
      simpa using this
    case pay =>
      rw [hq, hhist, hnpop, hdata, List.drop_drop]
      have := congrArg (List.drop 1) hJ.pay
      rw [← List.map_drop, ← List.map_drop, List.drop_drop, List.drop_drop] at this
      simpa using this
    case first => intro h0; rw [hnpop] at h0; omega
    case last =>
      intro k hk
      rw [hnpop] at hk
      have hk' : k = c.npop + 0 := by omega
      rw [hhead, hhist, hdata, hk']
      exact entry_of hJ hq1
    case pushed => rw [hhist, hpushed]; exact hJ.pushed
    case moved => intro _ _ _; rw [hnpop]; omega

/-- the two invariants together -/
def CInv (c : St) : Prop := Mpsc.Inv .mpsc c.m ∧ J c

theorem cinv_init {stub : Nat} (h0 : stub ≠ 0) : CInv (init stub) :=
  ⟨Mpsc.inv_init .mpsc stub h0, j_init stub⟩

theorem cinv_step {c c' : St} {e : Ev} (h : CInv c) (hs : step c e = some c') : CInv c' := by
  obtain ⟨m', hm, hm', _⟩ := step_unfold hs
  exact ⟨hm' ▸ inv_coreStep h.1 hm, j_step h.1 h.2 hs⟩

theorem cinv_of_run {stub : Nat} (h0 : stub ≠ 0) {es : List Ev} {c : St}
    (h : (sys stub).run es = some c) : CInv c :=
  Sys.inv_of_run (sys stub) CInv (cinv_init h0) (fun _ _ _ hi hs => cinv_step hi hs) h

theorem cinv_of_reachable {stub : Nat} (h0 : stub ≠ 0) {c : St}
    (h : Sys.Reachable (sys stub) c) : CInv c :=
  Sys.inv_of_step (sys stub) CInv (cinv_init h0) (fun _ _ _ hi hs => cinv_step hi hs) h

/-! ### 4. the concrete cells are the derived values -/

theorem st_ext {a b : AbsQueue.St} (h1 : a.stub = b.stub) (h2 : a.order = b.order)
    (h3 : ∀ i, a.linked i = b.linked i) (h4 : a.hd = b.hd) (h5 : a.headNode = b.headNode) :
    a = b := by
  cases a; cases b
  simp only [AbsQueue.St.mk.injEq] at *
  exact ⟨h1, h2, funext h3, h4, h5⟩

theorem abs_linked_iff (c : St) (i : Nat) :
    (abs c).linked i = true ↔
      (i < c.npop ∨ (i < c.hist.length ∧ c.m.next (c.m.q.getD (i - c.npop) 0) ≠ 0)) := by
  simp [abs]

theorem getD_idx {l : List Nat} {k : Nat} (h : k < l.length) : l[k]? = some (l.getD k 0) := by
  rw [List.getD_eq_getElem?_getD, List.getElem?_eq_getElem h]; rfl

theorem getD_of_idx {l : List Nat} {k a : Nat} (h : l[k]? = some a) : l.getD k 0 = a := by
  rw [List.getD_eq_getElem?_getD, h]; rfl

theorem idxOf_of_idx {l : List Nat} (hnd : l.Nodup) {k a : Nat} (h : l[k]? = some a) :
    l.idxOf a = k := by
  have hlt : l.idxOf a < l.length := List.idxOf_lt_length_of_mem (mem_of_idx h)
  have h2 : l[l.idxOf a]? = some a := by
    rw [List.getElem?_eq_getElem hlt, List.getElem_idxOf hlt]
  exact nodup_idx hnd h2 h

/-- the node before live entry `npop + j` is `q[j]` -/
theorem prevNode_live {c : St} (h : CInv c) {j p : Nat} (hp : c.m.q[j]? = some p) :
    AbsQueue.prevNode (abs c) (c.npop + j) = p := by
  obtain ⟨hI, hJ⟩ := h
  cases j with
  | zero =>
    have : p = c.m.head := by rw [hI.hq] at hp; exact (Option.some.inj hp).symm
    subst this
    cases hn : c.npop with
    | zero => simp only [AbsQueue.prevNode, abs]; exact (hJ.first hn).symm
    | succ k => simp only [AbsQueue.prevNode, abs, hJ.last k hn]
  | succ j =>
    have := entry_of hJ hp
    show AbsQueue.prevNode (abs c) ((c.npop + j) + 1) = p
    simp only [AbsQueue.prevNode, abs, this]

/-- everything about a live entry (one that is published and not popped yet) -/
theorem live_entry {c : St} (h : CInv c) {j n f : Nat}
    (he : c.hist[c.npop + j]? = some (n, f)) :
    ∃ p, c.m.q[j]? = some p ∧ c.m.q[j + 1]? = some n ∧ c.m.data n = f ∧ n ≠ 0 ∧
      AbsQueue.prevNode (abs c) (c.npop + j) = p ∧
      ((abs c).linked (c.npop + j) = true ↔ c.m.next p ≠ 0) ∧
      (c.m.next p = n ∨ (c.m.next p = 0 ∧ ∃ t v, c.m.pc t = .xchgd v n p)) := by
  have hI := h.1
  have hJ := h.2
  obtain ⟨hq1, hd⟩ := entry_inv hJ he
  have hlt : j < c.m.q.length := by have := idx_lt hq1; omega
  have hp := getD_idx hlt
  refine ⟨_, hp, hq1, hd, ?_, prevNode_live h hp, ?_, hI.lk j _ _ hp hq1⟩
  · intro h0; subst h0; exact hI.nz (mem_of_idx hq1)
  · rw [abs_linked_iff]
    have h1 : ¬ (c.npop + j < c.npop) := by omega
    have h2 : c.npop + j < c.hist.length := by
      rcases List.getElem?_eq_some_iff.mp he with ⟨hi, _⟩; exact hi
    have h3 : c.npop + j - c.npop = j := by omega
    simp [h1, h2, h3]

/-- index arithmetic: every index from `npop` on is `npop + j` -/
theorem live_entry' {c : St} (h : CInv c) {i n f : Nat} (hi : c.npop ≤ i)
    (he : c.hist[i]? = some (n, f)) :
    ∃ p, c.m.q[i - c.npop]? = some p ∧ c.m.q[i - c.npop + 1]? = some n ∧ c.m.data n = f ∧ n ≠ 0 ∧
      AbsQueue.prevNode (abs c) i = p ∧
      ((abs c).linked i = true ↔ c.m.next p ≠ 0) ∧
      (c.m.next p = n ∨ (c.m.next p = 0 ∧ ∃ t v, c.m.pc t = .xchgd v n p)) := by
  have hi' : i = c.npop + (i - c.npop) := by omega
  rw [hi'] at he
  have hl := live_entry h he
  rwa [← hi'] at hl

theorem tail_eq {c : St} (h : CInv c) : c.m.tail = AbsQueue.tailNode (abs c) := by
  obtain ⟨hI, hJ⟩ := h
  have htl := hI.tl
  have hlen := hJ.len
  have hqpos := hI.qpos
  simp only [AbsQueue.tailNode, abs, List.getLast?_eq_getElem?]
  by_cases hq : c.m.q.length = 1
  · -- nothing queued: the tail is the stub
    have hth : c.m.tail = c.m.head := by
      rw [hq, Nat.sub_self, hI.hq] at htl; exact (Option.some.inj htl).symm
    cases hn : c.npop with
    | zero =>
      have : c.hist.length = 0 := by omega
      have : c.hist = [] := List.eq_nil_of_length_eq_zero this
      rw [this]; simp only [List.length_nil, List.getElem?_nil]
      rw [hth]; exact hJ.first hn
    | succ k =>
      have : c.hist.length - 1 = k := by omega
      rw [this, hJ.last k hn]; exact hth
  · have hj : c.m.q[(c.m.q.length - 2) + 1]? = some c.m.tail := by
      have : c.m.q.length - 2 + 1 = c.m.q.length - 1 := by omega
      rw [this]; exact htl
    have := entry_of hJ hj
    have hidx : c.hist.length - 1 = c.npop + (c.m.q.length - 2) := by omega
    rw [hidx, this]

/-- what the consumer reads from `head->next` is what the abstract queue predicts -/
theorem headNext_eq {c : St} (h : CInv c) : c.m.next c.m.head = AbsQueue.headNext (abs c) := by
  have hI := h.1
  have hJ := h.2
  simp only [AbsQueue.headNext]
  have hhd : (abs c).hd = c.npop := rfl
  have hord : (abs c).order = c.hist := rfl
  rw [hhd, hord]
  cases he : c.hist[c.npop]? with
  | none =>
    -- nothing queued: head = tail, whose next is NULL
    have hl : c.hist.length ≤ c.npop := by
      rcases Nat.lt_or_ge c.npop c.hist.length with hlt | hge
      · rw [List.getElem?_eq_getElem hlt] at he; simp at he
      · exact hge
    have hlen := hJ.len
    have hqpos := hI.qpos
    have hq : c.m.q.length = 1 := by omega
    have htl := hI.tl
    rw [hq, Nat.sub_self, hI.hq] at htl
    rw [Option.some.inj htl]; exact hI.last
  | some e =>
    obtain ⟨n, f⟩ := e
    obtain ⟨p, hp, _, _, hn0, _, hlk, hnx⟩ := live_entry (j := 0) h he
    have : p = c.m.head := by rw [hI.hq] at hp; exact (Option.some.inj hp).symm
    subst this
    simp only [Nat.add_zero] at hlk
    rcases hnx with hnx | ⟨hnx, _⟩
    · have : (abs c).linked c.npop = true := hlk.mpr (by rw [hnx]; exact hn0)
      simp [this, hnx]
    · have : (abs c).linked c.npop = false := by
        cases hb : (abs c).linked c.npop with
        | false => rfl
        | true => exact absurd hnx (hlk.mp hb)
      simp [this, hnx]

/-! ### 5. every concrete step is the corresponding abstract operation -/

theorem getD_mem {l : List Nat} {k : Nat} (h : k < l.length) : l.getD k 0 ∈ l :=
  mem_of_idx (getD_idx h)

theorem abs_frame {c c' : St} (h : CInv c) (hq : c'.m.q = c.m.q) (hhead : c'.m.head = c.m.head)
    (hnext : ∀ a, a ∈ c.m.q → c'.m.next a = c.m.next a) (hhist : c'.hist = c.hist)
    (hnpop : c'.npop = c.npop) (hstub : c'.stub = c.stub) : abs c' = abs c := by
  have hlen := h.2.len
  refine st_ext hstub hhist ?_ hnpop hhead
  intro i
  rw [Bool.eq_iff_iff, abs_linked_iff, abs_linked_iff, hq, hhist, hnpop]
  by_cases h1 : i < c.npop
  · simp [h1]
  · by_cases h2 : i < c.hist.length
    · have hm : c.m.q.getD (i - c.npop) 0 ∈ c.m.q := getD_mem (by omega)
      rw [hnext _ hm]
    · simp [h2]

theorem abs_publish {c c' : St} (h : CInv c) {n : Nat}
    (hq : c'.m.q = c.m.q ++ [n]) (hhead : c'.m.head = c.m.head) (hnext : c'.m.next = c.m.next)
    (hhist : c'.hist = c.hist ++ [(n, c.m.data n)]) (hnpop : c'.npop = c.npop)
    (hstub : c'.stub = c.stub) :
    abs c' = (AbsQueue.enq (abs c) n (c.m.data n)).2 := by
  have hlen := h.2.len
  have hqpos := h.1.qpos
  refine st_ext hstub hhist ?_ hnpop hhead
  intro i
  show (abs c').linked i = (abs c).linked i
  rw [Bool.eq_iff_iff, abs_linked_iff, abs_linked_iff, hq, hhist, hnpop, hnext]
  by_cases h1 : i < c.npop
  · simp [h1]
  · by_cases h2 : i < c.hist.length
    · have hk : i - c.npop < c.m.q.length := by omega
      have : (c.m.q ++ [n]).getD (i - c.npop) 0 = c.m.q.getD (i - c.npop) 0 := by
        rw [List.getD_eq_getElem?_getD, List.getD_eq_getElem?_getD,
          List.getElem?_append_left hk]
      rw [this]; simp [h2]; omega
    · by_cases h3 : i = c.hist.length
      · -- the new entry: its predecessor is the old tail, whose next is NULL
        have hk : i - c.npop = c.m.q.length - 1 := by omega
        have : (c.m.q ++ [n]).getD (i - c.npop) 0 = c.m.tail := by
          rw [hk]
          apply getD_of_idx
          rw [List.getElem?_append_left (by omega)]; exact h.1.tl
        rw [this, h.1.last]; simp [h1, h2]
      · have : ¬ (i < c.hist.length + 1) := by omega
        simp [h1, h2, this]

theorem abs_link {c c' : St} (h : CInv c) {t v m p : Nat} (hpc : c.m.pc t = .xchgd v m p)
    (hq : c'.m.q = c.m.q) (hhead : c'.m.head = c.m.head) (hnext : c'.m.next = upd c.m.next p m)
    (hhist : c'.hist = c.hist) (hnpop : c'.npop = c.npop) (hstub : c'.stub = c.stub) :
    c.npop + c.m.q.idxOf p < c.hist.length ∧ (abs c).linked (c.npop + c.m.q.idxOf p) = false ∧
      c.hist[c.npop + c.m.q.idxOf p]? = some (m, v) ∧
      abs c' = AbsQueue.link (abs c) (c.npop + c.m.q.idxOf p) := by
  have hlen := h.2.len
  obtain ⟨_, hnx, hdat, i0, hi0, hi1⟩ := h.1.pX _ _ _ _ hpc
  have hnd := h.1.nd
  have hidx : c.m.q.idxOf p = i0 := idxOf_of_idx hnd hi0
  rw [hidx]
  have hlt : i0 + 1 < c.m.q.length := idx_lt hi1
  have hm0 : m ≠ 0 := fun h0 => h.1.nz (h0 ▸ mem_of_idx hi1)
  have hent := entry_of h.2 hi1
  rw [hdat] at hent
  have hsub : c.npop + i0 - c.npop = i0 := by omega
  refine ⟨by omega, ?_, hent, ?_⟩
  · cases hb : (abs c).linked (c.npop + i0) with
    | false => rfl
    | true =>
      rw [abs_linked_iff, hsub, getD_of_idx hi0, hnx] at hb
      omega
  · refine st_ext hstub hhist ?_ hnpop hhead
    intro i
    show (abs c').linked i = upd (abs c).linked (c.npop + i0) true i
    by_cases hi : i = c.npop + i0
    · subst hi
      rw [upd_same, abs_linked_iff, hq, hhist, hnpop, hnext, hsub, getD_of_idx hi0, upd_same]
      right; exact ⟨by omega, hm0⟩
    · rw [upd_other _ _ _ _ hi, Bool.eq_iff_iff, abs_linked_iff, abs_linked_iff, hq, hhist, hnpop,
        hnext]
      by_cases h1 : i < c.npop
      · simp [h1]
      · by_cases h2 : i < c.hist.length
        · have hk : i - c.npop < c.m.q.length := by omega
          have hne : c.m.q.getD (i - c.npop) 0 ≠ p := by
            intro he
            have := nodup_idx hnd (he ▸ getD_idx hk) hi0
            omega
          rw [upd_other _ _ _ _ hne]
        · simp [h2]

theorem abs_pop {c c' : St} (h : CInv c) {x : Nat} (hx : x ≠ 0) (hnx : c.m.next c.m.head = x)
    (hq : c'.m.q = c.m.q.drop 1) (hhead : c'.m.head = x) (hnext : c'.m.next = c.m.next)
    (hhist : c'.hist = c.hist) (hnpop : c'.npop = c.npop + 1) (hstub : c'.stub = c.stub) :
    c.hist[c.npop]? = some (x, c.m.data x) ∧ (abs c).linked c.npop = true ∧
      abs c' = { abs c with hd := (abs c).hd + 1, headNode := x } := by
  have hlen := h.2.len
  have hq1 := second_of_next h.1 hx hnx
  have hent : c.hist[c.npop]? = some (x, c.m.data x) := by
    simpa using entry_of (j := 0) h.2 hq1
  have hq0 := getD_of_idx h.1.hq
  have hl : (abs c).linked c.npop = true := by
    rw [abs_linked_iff, Nat.sub_self, hq0, hnx]
    right
    exact ⟨(List.getElem?_eq_some_iff.mp hent).1, hx⟩
  refine ⟨hent, hl, st_ext hstub hhist ?_ hnpop hhead⟩
  intro i
  show (abs c').linked i = (abs c).linked i
  by_cases hi : i = c.npop
  · rw [hi, hl, abs_linked_iff, hnpop]; left; omega
  · rw [Bool.eq_iff_iff, abs_linked_iff, abs_linked_iff, hq, hhist, hnpop, hnext]
    by_cases h1 : i < c.npop
    · have : i < c.npop + 1 := by omega
      simp [h1, this]
    · have h1' : ¬ (i < c.npop + 1) := by omega
      have : (c.m.q.drop 1).getD (i - (c.npop + 1)) 0 = c.m.q.getD (i - c.npop) 0 := by
        rw [List.getD_eq_getElem?_getD, List.getD_eq_getElem?_getD, List.getElem?_drop]
        have : 1 + (i - (c.npop + 1)) = i - c.npop := by omega
        rw [this]
      rw [this]; simp [h1, h1']

/-- **Step simulation**: every step of the access-level model is the abstract operation
    `proj c e` on the abstract queue (a silent step when `proj c e = none`), its observed values
    (`old` of the xchg, the value read from `head->next`, the node stored into `head`) being
    the ones the abstract queue predicts. -/
theorem step_simulates_core {c c' : St} {e : Ev} (h : CInv c) (hs : step c e = some c') :
    AbsQueue.stepO (abs c) (proj c e) = some (abs c') := by
  cases step_eff h.1 hs with
  | frame hq hhead hnext hdata hpushed hcpc hhist hnpop hstub hproj =>
    have ha := abs_frame h hq hhead hnext hhist hnpop hstub
    rcases hproj with hp | ⟨t, n, x, he, hx⟩
    · rw [hp, ha]; rfl
    · subst he
      have : proj c (.rdNext t n x) = some (.popTry x) := rfl
      rw [this, ha]
      simp [AbsQueue.stepO, AbsQueue.step, AbsQueue.ok, AbsQueue.apply, hx, headNext_eq h]
  | publish t n old he hold hnq hn0 hnx hq hhead hnext hdata hpushed hcpc hhist hnpop hstub =>
    subst he
    have : proj c (.xchgTail t old n) = some (.enq n (c.m.data n) old) := rfl
    rw [this, abs_publish h hq hhead hnext hhist hnpop hstub]
    simp [AbsQueue.stepO, AbsQueue.step, AbsQueue.ok, AbsQueue.apply, hold, tail_eq h]
  | link t v m p he hpc hq hhead hnext hdata hpushed hcpc hhist hnpop hstub =>
    subst he
    have : proj c (.wrNext t p m) = some (.link (c.npop + c.m.q.idxOf p)) := by
      simp [proj, hpc]
    obtain ⟨h1, h2, _, h3⟩ := abs_link h hpc hq hhead hnext hhist hnpop hstub
    have h1' : c.npop + c.m.q.idxOf p < (abs c).order.length := h1
    rw [this, h3]
    simp [AbsQueue.stepO, AbsQueue.step, AbsQueue.ok, AbsQueue.apply, h1', h2]
  | pop t h0 x he hcp hx hq hhead hnext hdata hpushed hcpc hhist hnpop hstub =>
    subst he
    have : proj c (.wrHead t x) = some (.popCommit x (c.m.data x)) := rfl
    obtain ⟨hh, hnx⟩ := h.1.cGotNext _ _ hcp
    obtain ⟨h1, h2, h3⟩ := abs_pop h hx (hh ▸ hnx hx) hq hhead hnext hhist hnpop hstub
    have h1' : (abs c).order[(abs c).hd]? = some (x, c.m.data x) := h1
    have h2' : (abs c).linked (abs c).hd = true := h2
    rw [this, h3]
    simp [AbsQueue.stepO, AbsQueue.step, AbsQueue.ok, AbsQueue.apply, h1', h2']

theorem stepO_apply {a a' : AbsQueue.St} {o : Option AbsQueue.Op}
    (h : AbsQueue.stepO a o = some a') : a' = AbsQueue.applyO a o := by
  cases o with
  | none => simp only [AbsQueue.stepO, Option.some.injEq] at h; exact h.symm
  | some o =>
    simp only [AbsQueue.stepO, AbsQueue.step] at h
    split at h <;> simp at h
    exact h.symm

/-! ### 6. runs -/

theorem abs_init (stub : Nat) : abs (init stub) = AbsQueue.init stub := by
  refine st_ext rfl rfl ?_ rfl rfl
  intro i
  simp [abs, init, AbsQueue.init]

/-- every reachable state of the access-level model abstracts to a reachable state of the
    abstract queue -/
theorem abs_reachable {stub : Nat} (h0 : stub ≠ 0) {c : St} (h : Sys.Reachable (sys stub) c) :
    Sys.Reachable (AbsQueue.sys stub) (abs c) := by
  induction h with
  | init => rw [show (sys stub).init = init stub from rfl, abs_init]; exact Sys.Reachable.init
  | @step c1 c2 e hr hst ih =>
    have hsim := step_simulates_core (cinv_of_reachable h0 hr) hst
    cases hp : proj c1 e with
    | none => rw [hp] at hsim; simp only [AbsQueue.stepO, Option.some.injEq] at hsim; rw [← hsim]; exact ih
    | some o => rw [hp] at hsim; exact Sys.Reachable.step ih hsim

/-- trace form: the abstract operations performed along an accepted run form an accepted run
    of the abstract queue, ending in the abstraction of the final state -/
theorem refines_runFrom {stub : Nat} {es : List Ev} {c c' : St} (h : CInv c)
    (hr : (sys stub).runFrom c es = some c') :
    (AbsQueue.sys stub).runFrom (abs c) (opsFrom c es) = some (abs c') := by
  induction es generalizing c with
  | nil => simp only [Sys.runFrom, Option.some.injEq] at hr; subst hr; rfl
  | cons e es ih =>
    simp only [Sys.runFrom] at hr
    cases hst : (sys stub).step c e with
    | none => simp [hst] at hr
    | some c1 =>
      simp only [hst] at hr
      have hst' : step c e = some c1 := hst
      have hsim := step_simulates_core h hst'
      simp only [opsFrom, hst']
      cases hp : proj c e with
      | none =>
        rw [hp] at hsim; simp only [AbsQueue.stepO, Option.some.injEq] at hsim
        simp only [Option.toList, List.nil_append]
        rw [hsim]; exact ih (cinv_step h hst') hr
      | some o =>
        rw [hp] at hsim
        have hsim' : (AbsQueue.sys stub).step (abs c) o = some (abs c1) := hsim
        simp only [Option.toList, List.cons_append, List.nil_append, Sys.runFrom, hsim']
        exact ih (cinv_step h hst') hr

/-- a run of C15's model `Mpsc.sys .mpsc` is a run of the core, with the recordings added -/
theorem lift_runFrom {stub : Nat} {es : List Ev} {s s' : Mpsc.St} {c : St} (hc : c.m = s)
    (hr : (Mpsc.sys .mpsc stub).runFrom s es = some s') :
    ∃ c', (sys stub).runFrom c es = some c' ∧ c'.m = s' := by
  induction es generalizing s c with
  | nil => simp only [Sys.runFrom, Option.some.injEq] at hr; subst hr; exact ⟨c, rfl, hc⟩
  | cons e es ih =>
    simp only [Sys.runFrom] at hr
    cases hst : (Mpsc.sys .mpsc stub).step s e with
    | none => simp [hst] at hr
    | some s1 =>
      simp only [hst] at hr
      have hcs : coreStep c.m e = some s1 := hc ▸ coreStep_of_mpsc hst
      cases hcst : step c e with
      | none => simp [step, hcs] at hcst
      | some c1 =>
        obtain ⟨m', hm, hm', _⟩ := step_unfold hcst
        have hc1 : c1.m = s1 := by rw [hm', ← Option.some.inj (hm.symm.trans hcs)]
        obtain ⟨c', hr', hc'⟩ := ih hc1 hr
        refine ⟨c', ?_, hc'⟩
        have : (sys stub).step c e = some c1 := hcst
        simp only [Sys.runFrom, this]; exact hr'

theorem lift_run {stub : Nat} {es : List Ev} {s : Mpsc.St}
    (hr : (Mpsc.sys .mpsc stub).run es = some s) : ∃ c, (sys stub).run es = some c ∧ c.m = s :=
  lift_runFrom (c := init stub) rfl hr

/-! ### 7. corollaries in the vocabulary of the primitives -/

/-- for every entry that is not popped yet: the `next` cell of the node before it holds the
    entry's node if the entry is linked and NULL otherwise; its `data` cell holds the recorded
    payload -/
theorem interior {c : St} (h : CInv c) {i n f : Nat} (hi : (abs c).hd ≤ i)
    (he : (abs c).order[i]? = some (n, f)) :
    c.m.next (AbsQueue.prevNode (abs c) i) = (if (abs c).linked i then n else 0) ∧
      c.m.data n = f ∧ n ≠ 0 := by
  obtain ⟨p, _, _, hd, hn0, hp, hlk, hnx⟩ := live_entry' h hi he
  refine ⟨?_, hd, hn0⟩
  rw [hp]
  rcases hnx with hnx | ⟨hnx, _⟩
  · have : (abs c).linked i = true := hlk.mpr (by rw [hnx]; exact hn0)
    simp [this, hnx]
  · have : (abs c).linked i = false := by
      cases hb : (abs c).linked i with
      | false => rfl
      | true => exact absurd hnx (hlk.mp hb)
    simp [this, hnx]

/-- `linked i` is "the link write of entry `i` has happened": it is false exactly while the
    producer of entry `i` sits between its tail xchg and its link write -/
theorem linked_false_iff {c : St} (h : CInv c) {i n f : Nat} (hi : (abs c).hd ≤ i)
    (he : (abs c).order[i]? = some (n, f)) :
    (abs c).linked i = false ↔
      ∃ t v, c.m.pc t = .xchgd v n (AbsQueue.prevNode (abs c) i) := by
  obtain ⟨p, _, _, _, hn0, hp, hlk, hnx⟩ := live_entry' h hi he
  rw [hp]
  constructor
  · intro hf
    rcases hnx with hnx | ⟨_, hx⟩
    · have : (abs c).linked i = true := hlk.mpr (by rw [hnx]; exact hn0)
      rw [hf] at this; cases this
    · exact hx
  · rintro ⟨t, v, hpc⟩
    have := (h.1.pX _ _ _ _ hpc).2.1
    cases hb : (abs c).linked i with
    | false => rfl
    | true => exact absurd this (hlk.mp hb)

/-- entries already popped count as linked; indices beyond the history are not linked -/
theorem linked_dead_fresh (c : St) :
    (∀ i, i < (abs c).hd → (abs c).linked i = true) ∧
      (∀ i, (abs c).order.length ≤ i → (abs c).hd ≤ i → (abs c).linked i = false) := by
  constructor
  · intro i hi; rw [abs_linked_iff]; exact Or.inl hi
  · intro i hi hh
    have h1 : ¬ i < c.npop := by have : (abs c).hd = c.npop := rfl; omega
    have h2 : ¬ i < c.hist.length := by have : (abs c).order = c.hist := rfl; rw [this] at hi; omega
    simp [abs, h1, h2]

theorem headNext_zero_iff {c : St} (h : CInv c) :
    AbsQueue.headNext (abs c) = 0 ↔
      ((abs c).order[(abs c).hd]? = none ∨ (abs c).linked (abs c).hd = false) := by
  simp only [AbsQueue.headNext]
  cases he : (abs c).order[(abs c).hd]? with
  | none => simp
  | some e =>
    obtain ⟨n, f⟩ := e
    have hn0 := (interior h (Nat.le_refl _) he).2.2
    cases hb : (abs c).linked (abs c).hd <;> simp [hn0]

/-- FIFO = `order`: the payloads returned so far, followed by the one the trypop in progress
    holds, are the payloads of `order[0 .. hd)`, in that order -/
theorem fifo {c : St} (h : CInv c) :
    c.m.popped ++ Mpsc.inflight c.m = ((abs c).order.take (abs c).hd).map Prod.snd := by
  have hv := h.1.vals
  have hp := h.2.pushed
  have hy := h.2.pay
  show _ = (c.hist.take c.npop).map Prod.snd
  rw [← hp, ← hy] at hv
  have hsplit : c.hist.map Prod.snd =
      (c.hist.take c.npop).map Prod.snd ++ (c.hist.drop c.npop).map Prod.snd := by
    rw [← List.map_append, List.take_append_drop]
  rw [hsplit] at hv
  exact (List.append_cancel_right hv).symm

/-- the write `head = x` of a successful trypop pops `order[hd]`: `x` is its node, the entry is
    linked, `x` is what `head->next` held, and `x->data` holds the entry's payload -/
theorem pop_commit {c c' : St} {t x : Nat} (h : CInv c) (hs : step c (.wrHead t x) = some c') :
    (abs c).order[(abs c).hd]? = some (x, c.m.data x) ∧ (abs c).linked (abs c).hd = true ∧
      AbsQueue.headNext (abs c) = x ∧ x ≠ 0 ∧
      abs c' = { abs c with hd := (abs c).hd + 1, headNode := x } := by
  have hsim := step_simulates_core h hs
  have hp : proj c (.wrHead t x) = some (.popCommit x (c.m.data x)) := rfl
  rw [hp] at hsim
  simp only [AbsQueue.stepO, AbsQueue.step] at hsim
  split at hsim
  next hok =>
    simp only [AbsQueue.ok, Bool.and_eq_true, beq_iff_eq] at hok
    simp only [Option.some.injEq, AbsQueue.apply] at hsim
    have hn0 := (interior h (Nat.le_refl _) hok.1).2.2
    refine ⟨hok.1, hok.2, ?_, hn0, hsim.symm⟩
    simp [AbsQueue.headNext, hok.1, hok.2]
  next => simp at hsim

/-- the consumer's read of `x->data` right after `head = x` returns the payload of the entry
    just popped (`order[hd - 1]`), whose node is `x` -/
theorem pop_data {c c' : St} {t n d : Nat} (h : CInv c)
    (hs : step c (.rdDataPop t n d) = some c') :
    ∃ k, (abs c).hd = k + 1 ∧ (abs c).order[k]? = some (n, d) ∧ (abs c).headNode = n := by
  obtain ⟨m', hm, _⟩ := step_unfold hs
  have hm : Mpsc.step .mpsc c.m (.rdDataPop t n d) = some m' := hm
  simp only [Mpsc.step] at hm
  split at hm
  next h0 x hcp =>
    split at hm <;> simp at hm
    rename_i hc
    obtain ⟨_, rfl, rfl⟩ := hc
    have hpos := h.2.moved _ _ hcp
    have hx := (h.1.cMoved _ _ hcp).1
    obtain ⟨k, hk⟩ : ∃ k, c.npop = k + 1 := ⟨c.npop - 1, by omega⟩
    refine ⟨k, hk, ?_, hx.symm⟩
    rw [hx]; exact h.2.last k hk
  next => simp at hm

/-- the return of a trypop: either the empty path, or the `k`-th successful trypop
    (`k` = number returned before) returns the payload of `order[k]` -/
theorem pop_return {c c' : St} {t v : Nat} (h : CInv c) (hs : step c (.retPop t v) = some c') :
    (∃ h0, c.m.cpc = .gotNext h0 0 ∧ v = 0 ∧ c'.m.popped = c.m.popped) ∨
      (∃ n, (abs c).hd = c.m.popped.length + 1 ∧ (abs c).order[c.m.popped.length]? = some (n, v) ∧
        c'.m.popped = c.m.popped ++ [v]) := by
  obtain ⟨m', hcs, hm', _⟩ := step_unfold hs
  have hm : Mpsc.step .mpsc c.m (.retPop t v) = some m' := hcs
  clear hcs hs
  simp only [Mpsc.step] at hm
  split at hm
  next h0 y hcp =>
    split at hm <;> simp at hm
    rename_i hc
    obtain ⟨_, rfl, rfl⟩ := hc
    left
    exact ⟨h0, hcp, rfl, by rw [hm', ← hm]⟩
  next h0 d hcp =>
    split at hm <;> simp at hm
    rename_i hc
    obtain ⟨_, rfl⟩ := hc
    right
    have hf := fifo h
    simp only [Mpsc.inflight, hcp] at hf
    have hf : c.m.popped ++ [v] = (c.hist.take c.npop).map Prod.snd := hf
    have hle : c.npop ≤ c.hist.length := by have := h.2.len; have := h.1.qpos; omega
    have hl := congrArg List.length hf
    simp only [List.length_append, List.length_cons, List.length_nil, List.length_map,
      List.length_take] at hl
    have hnp : c.npop = c.m.popped.length + 1 := by omega
    have hi := congrArg (fun l => l[c.m.popped.length]?) hf
    simp only [List.getElem?_map, List.getElem?_take] at hi
    rw [List.getElem?_append_right (Nat.le_refl _), Nat.sub_self] at hi
    have hlt : c.m.popped.length < c.npop := by omega
    simp only [hlt, if_true, List.getElem?_cons_zero] at hi
    show ∃ n, c.npop = _ ∧ c.hist[c.m.popped.length]? = some (n, v) ∧ _
    cases he : c.hist[c.m.popped.length]? with
    | none => rw [he] at hi; simp at hi
    | some e =>
      rw [he] at hi
      simp only [Option.map_some, Option.some.injEq] at hi
      refine ⟨e.1, hnp, ?_, by rw [hm', ← hm]⟩
      rw [hi]
  next => simp at hm

/-- the consumer reads NULL from `head->next` exactly in the two situations the abstract queue
    names: no entry follows, or the next entry is exchanged but not linked (its producer sits
    between the tail xchg and the link write) -/
theorem empty_read {c c' : St} {t n : Nat} (h : CInv c) (hs : step c (.rdNext t n 0) = some c') :
    n = (abs c).headNode ∧ AbsQueue.headNext (abs c) = 0 ∧
      ((abs c).order[(abs c).hd]? = none ∨
        ∃ m f p v, (abs c).order[(abs c).hd]? = some (m, f) ∧ (abs c).linked (abs c).hd = false ∧
          c.m.pc p = .xchgd v m (abs c).headNode) := by
  obtain ⟨m', hm, _⟩ := step_unfold hs
  have hm : Mpsc.step .mpsc c.m (.rdNext t n 0) = some m' := hm
  have hn := (Mpsc.empty_core h.1 hm).1
  have hsim := step_simulates_core h hs
  have hp : proj c (.rdNext t n 0) = some (.popTry 0) := rfl
  rw [hp] at hsim
  simp only [AbsQueue.stepO, AbsQueue.step] at hsim
  split at hsim
  next hok =>
    simp only [AbsQueue.ok, beq_iff_eq] at hok
    refine ⟨hn, hok.symm, ?_⟩
    rcases (headNext_zero_iff h).mp hok.symm with hnone | hun
    · exact Or.inl hnone
    · cases he : (abs c).order[(abs c).hd]? with
      | none => exact Or.inl rfl
      | some e =>
        obtain ⟨m, f⟩ := e
        right
        obtain ⟨p, v, hpc⟩ := (linked_false_iff h (Nat.le_refl _) he).mp hun
        have hprev : AbsQueue.prevNode (abs c) (abs c).hd = (abs c).headNode := by
          exact prevNode_live (j := 0) h h.1.hq
        rw [hprev] at hpc
        exact ⟨m, f, p, v, rfl, hun, hpc⟩
  next => simp at hsim

end LibfiberVerif.MpscCore

/-! ### the abstract queue by itself: shape facts of its reachable states -/

namespace LibfiberVerif.AbsQueue

structure WF (a : St) : Prop where
  hdLe : a.hd ≤ a.order.length
  /-- a freshly exchanged entry is not linked: `enq` need not reset `linked` -/
  fresh : ∀ i, a.order.length ≤ i → a.linked i = false
  /-- only linked entries are popped -/
  dead : ∀ i, i < a.hd → a.linked i = true
  /-- the current stub is the node of the entry popped last (the initial stub at first) -/
  head : a.headNode = prevNode a a.hd

theorem wf_init (stub : Nat) : WF (init stub) := by
  constructor <;> simp [init, prevNode]

theorem wf_step {a a' : St} {o : Op} (h : WF a) (hs : step a o = some a') : WF a' := by
  simp only [step] at hs
  split at hs <;> simp at hs
  rename_i hok
  subst hs
  obtain ⟨h1, h2, h3, h4⟩ := h
  cases o with
  | enq n f old =>
    constructor
    · simp [apply, enq]; omega
    · intro i hi; simp [apply, enq] at hi ⊢; exact h2 i (by omega)
    · exact h3
    · show a.headNode = prevNode { a with order := a.order ++ [(n, f)] } a.hd
      rw [h4]
      cases hh : a.hd with
      | zero => rfl
      | succ k =>
        have : k < a.order.length := by omega
        simp only [prevNode, List.getElem?_append_left this]
  | link i =>
    simp only [ok, Bool.and_eq_true, decide_eq_true_eq, Bool.not_eq_true'] at hok
    constructor
    · exact h1
    · intro j hj
      have hj : a.order.length ≤ j := hj
      show upd a.linked i true j = false
      rw [upd_other _ _ _ _ (by have := hok.1; omega)]; exact h2 j hj
    · intro j hj
      show upd a.linked i true j = true
      by_cases hji : j = i
      · rw [hji, upd_same]
      · rw [upd_other _ _ _ _ hji]; exact h3 j hj
    · exact h4
  | popTry x => exact ⟨h1, h2, h3, h4⟩
  | popCommit x g =>
    simp only [ok, Bool.and_eq_true, beq_iff_eq] at hok
    have hlt : a.hd < a.order.length := (List.getElem?_eq_some_iff.mp hok.1).1
    constructor
    · show a.hd + 1 ≤ a.order.length; omega
    · exact h2
    · intro j hj
      have hj : j < a.hd + 1 := hj
      by_cases hji : j = a.hd
      · rw [hji]; exact hok.2
      · exact h3 j (by omega)
    · show x = prevNode { a with hd := a.hd + 1, headNode := x } (a.hd + 1)
      simp only [prevNode, hok.1]

theorem wf_of_reachable {stub : Nat} {a : St} (h : Sys.Reachable (sys stub) a) : WF a :=
  Sys.inv_of_step (sys stub) WF (wf_init stub) (fun _ _ _ hi hs => wf_step hi hs) h

/-- `popCommit` (the function) and the labelled step agree -/
theorem popCommit_eq_step {a : St} {x g : Nat} (h : ok a (.popCommit x g) = true) :
    popCommit a = some (g, apply a (.popCommit x g)) := by
  simp only [ok, Bool.and_eq_true, beq_iff_eq] at h
  simp [popCommit, h.1, h.2, apply]

end LibfiberVerif.AbsQueue
