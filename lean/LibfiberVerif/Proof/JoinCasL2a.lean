/-
  Proof/JoinCasL2a.lean — preservation of layer 2 (first half) (candidate fix; generated layout: one theorem per conjunct of the invariant of
  Proof/JoinCasBase.lean, by case analysis on the event and the acting fiber's program counter,
  then `grind`; the hypotheses of each theorem are exactly the conjuncts it depends on)
-/
import LibfiberVerif.Proof.JoinCasBase

set_option linter.unusedSimpArgs false
set_option linter.unusedVariables false

namespace LibfiberVerif.JoinCas
open LibfiberVerif.Join (Op NONE WFJ WTJ DET READY WAITING DONE)

variable {s s1 : St} {e : Ev}

set_option maxHeartbeats 4000000 in
theorem inv2_k3 (k3 : ∀ g a, claimPath (s.pc a) g = true → s.det g ≠ WFJ) (cpn : ∀ a g, claimPath (s.pc a) g = true → s.det g ≠ NONE) (wfj : ∀ g, s.det g = WFJ → parkF (s.pc g) = true) (cxj : ∀ a g x, s.pc a = .jCas g x → x ≠ WTJ ∧ x ≠ DET) (cxd : ∀ a g x, s.pc a = .dCas g x → x ≠ WTJ ∧ x ≠ DET) (cxf : ∀ a x, s.pc a = .fCas x → x ≠ DET) (dr : ∀ g, s.det g ≤ 3) (hc : stepCore s e = some s1) : ∀ g a, claimPath (s1.pc a) g = true → s1.det g ≠ WFJ := by
  step_cases e with hc
  all_goals (intros; (try simp only [upd_apply, WFJ, DET, NONE, WTJ] at *); first | grind | grind (splits := 25) | grind (splits := 80) | ((repeat' split) <;> grind (splits := 80)))

set_option maxHeartbeats 4000000 in
theorem inv2_k6 (k6 : ∀ g a, postClaim (s.pc a) g = true → s.det g = DET) (k7 : ∀ g, holdsFAny (s.pc g) = true → s.det g = DET) (hf : (∀ a p, s.pc a = .fGot p → s.holder p = some a ∧ s.pc p = .jParked a) ∧ (∀ a p v, s.pc a = .fGotRes p v → s.holder p = some a ∧ s.pc p = .jParked a) ∧ (∀ a p, s.pc a = .fGave p → s.holder p = some a ∧ s.pc p = .jParked a)) (hw : ∀ a op g v p, s.pc a = .wake op g v p → s.holder p = some a ∧ parkedIn (s.pc p) p g = true) (cxj : ∀ a g x, s.pc a = .jCas g x → x ≠ WTJ ∧ x ≠ DET) (cxd : ∀ a g x, s.pc a = .dCas g x → x ≠ WTJ ∧ x ≠ DET) (cxf : ∀ a x, s.pc a = .fCas x → x ≠ DET) (dr : ∀ g, s.det g ≤ 3) (hc : stepCore s e = some s1) : ∀ g a, postClaim (s1.pc a) g = true → s1.det g = DET := by
  step_cases e with hc
  all_goals (intros; (try simp only [upd_apply, WFJ, DET, NONE, WTJ] at *); first | grind | grind (splits := 25) | grind (splits := 80) | ((repeat' split) <;> grind (splits := 80)))

set_option maxHeartbeats 4000000 in
theorem inv2_k7 (k7 : ∀ g, holdsFAny (s.pc g) = true → s.det g = DET) (cxj : ∀ a g x, s.pc a = .jCas g x → x ≠ WTJ ∧ x ≠ DET) (cxd : ∀ a g x, s.pc a = .dCas g x → x ≠ WTJ ∧ x ≠ DET) (cxf : ∀ a x, s.pc a = .fCas x → x ≠ DET) (dr : ∀ g, s.det g ≤ 3) (hc : stepCore s e = some s1) : ∀ g, holdsFAny (s1.pc g) = true → s1.det g = DET := by
  step_cases e with hc
  all_goals (intros; (try simp only [upd_apply, WFJ, DET, NONE, WTJ] at *); first | grind | grind (splits := 25) | grind (splits := 80) | ((repeat' split) <;> grind (splits := 80)))

set_option maxHeartbeats 4000000 in
theorem inv2_k4 (k4 : ∀ g, s.succ g ≠ [] → s.det g = DET) (k6 : ∀ g a, postClaim (s.pc a) g = true → s.det g = DET) (cxj : ∀ a g x, s.pc a = .jCas g x → x ≠ WTJ ∧ x ≠ DET) (cxd : ∀ a g x, s.pc a = .dCas g x → x ≠ WTJ ∧ x ≠ DET) (cxf : ∀ a x, s.pc a = .fCas x → x ≠ DET) (dr : ∀ g, s.det g ≤ 3) (hc : stepCore s e = some s1) : ∀ g, s1.succ g ≠ [] → s1.det g = DET := by
  step_cases e with hc
  all_goals (intros; (try simp only [upd_apply, WFJ, DET, NONE, WTJ] at *); first | grind | grind (splits := 25) | grind (splits := 80) | ((repeat' split) <;> grind (splits := 80)))

set_option maxHeartbeats 4000000 in
theorem inv2_k5 (k5 : ∀ g p, joinerPark (s.pc p) g = true → ((s.det g = WTJ ∧ finX (s.pc g) = false) ∨ (s.det g = DET ∧ finX (s.pc g) = true))) (cpn : ∀ a g, claimPath (s.pc a) g = true → s.det g ≠ NONE) (wfj : ∀ g, s.det g = WFJ → parkF (s.pc g) = true) (hw : ∀ a op g v p, s.pc a = .wake op g v p → s.holder p = some a ∧ parkedIn (s.pc p) p g = true) (hf : (∀ a p, s.pc a = .fGot p → s.holder p = some a ∧ s.pc p = .jParked a) ∧ (∀ a p v, s.pc a = .fGotRes p v → s.holder p = some a ∧ s.pc p = .jParked a) ∧ (∀ a p, s.pc a = .fGave p → s.holder p = some a ∧ s.pc p = .jParked a)) (uq : ∀ g a a', claimPath (s.pc a) g = true → claimPath (s.pc a') g = true → a = a') (fxn : ∀ g, finX (s.pc g) = true → s.det g ≠ NONE) (cxj : ∀ a g x, s.pc a = .jCas g x → x ≠ WTJ ∧ x ≠ DET) (cxd : ∀ a g x, s.pc a = .dCas g x → x ≠ WTJ ∧ x ≠ DET) (cxf : ∀ a x, s.pc a = .fCas x → x ≠ DET) (dr : ∀ g, s.det g ≤ 3) (hc : stepCore s e = some s1) : ∀ g p, joinerPark (s1.pc p) g = true → ((s1.det g = WTJ ∧ finX (s1.pc g) = false) ∨ (s1.det g = DET ∧ finX (s1.pc g) = true)) := by
  step_cases e with hc
  all_goals (intros; (try simp only [upd_apply, WFJ, DET, NONE, WTJ] at *); first | grind | grind (splits := 25) | grind (splits := 80) | ((repeat' split) <;> grind (splits := 80)))

set_option maxHeartbeats 4000000 in
theorem inv2_wtj (wtj : ∀ g, s.det g = WTJ → finX (s.pc g) = false) (wfj : ∀ g, s.det g = WFJ → parkF (s.pc g) = true) (fxn : ∀ g, finX (s.pc g) = true → s.det g ≠ NONE) (cxj : ∀ a g x, s.pc a = .jCas g x → x ≠ WTJ ∧ x ≠ DET) (cxd : ∀ a g x, s.pc a = .dCas g x → x ≠ WTJ ∧ x ≠ DET) (cxf : ∀ a x, s.pc a = .fCas x → x ≠ DET) (dr : ∀ g, s.det g ≤ 3) (hc : stepCore s e = some s1) : ∀ g, s1.det g = WTJ → finX (s1.pc g) = false := by
  step_cases e with hc
  all_goals (intros; (try simp only [upd_apply, WFJ, DET, NONE, WTJ] at *); first | grind | grind (splits := 25) | grind (splits := 80) | ((repeat' split) <;> grind (splits := 80)))

set_option maxHeartbeats 4000000 in
theorem inv2_uq (uq : ∀ g a a', claimPath (s.pc a) g = true → claimPath (s.pc a') g = true → a = a') (cpn : ∀ a g, claimPath (s.pc a) g = true → s.det g ≠ NONE) (k3 : ∀ g a, claimPath (s.pc a) g = true → s.det g ≠ WFJ) (cxj : ∀ a g x, s.pc a = .jCas g x → x ≠ WTJ ∧ x ≠ DET) (cxd : ∀ a g x, s.pc a = .dCas g x → x ≠ WTJ ∧ x ≠ DET) (cxf : ∀ a x, s.pc a = .fCas x → x ≠ DET) (dr : ∀ g, s.det g ≤ 3) (hc : stepCore s e = some s1) : ∀ g a a', claimPath (s1.pc a) g = true → claimPath (s1.pc a') g = true → a = a' := by
  step_cases e with hc
  all_goals (intros; (try simp only [upd_apply, WFJ, DET, NONE, WTJ] at *); first | grind | grind (splits := 25) | grind (splits := 80) | ((repeat' split) <;> grind (splits := 80)))

set_option maxHeartbeats 4000000 in
theorem inv2_sq (sq : ∀ g a, s.succ g ≠ [] → claimPath (s.pc a) g = false) (uq : ∀ g a a', claimPath (s.pc a) g = true → claimPath (s.pc a') g = true → a = a') (scn : ∀ g, s.succ g ≠ [] → s.det g ≠ NONE) (k4 : ∀ g, s.succ g ≠ [] → s.det g = DET) (k3 : ∀ g a, claimPath (s.pc a) g = true → s.det g ≠ WFJ) (cxj : ∀ a g x, s.pc a = .jCas g x → x ≠ WTJ ∧ x ≠ DET) (cxd : ∀ a g x, s.pc a = .dCas g x → x ≠ WTJ ∧ x ≠ DET) (cxf : ∀ a x, s.pc a = .fCas x → x ≠ DET) (dr : ∀ g, s.det g ≤ 3) (hc : stepCore s e = some s1) : ∀ g a, s1.succ g ≠ [] → claimPath (s1.pc a) g = false := by
  step_cases e with hc
  all_goals (intros; (try simp only [upd_apply, WFJ, DET, NONE, WTJ] at *); first | grind | grind (splits := 25) | grind (splits := 80) | ((repeat' split) <;> grind (splits := 80)))

set_option maxHeartbeats 4000000 in
theorem inv2_sl (sl : ∀ g, (s.succ g).length ≤ 1) (sq : ∀ g a, s.succ g ≠ [] → claimPath (s.pc a) g = false) (hc : stepCore s e = some s1) : ∀ g, (s1.succ g).length ≤ 1 := by
  step_cases e with hc
  all_goals (intros; (try simp only [upd_apply, WFJ, DET, NONE, WTJ] at *); first | grind | grind (splits := 25) | grind (splits := 80) | ((repeat' split) <;> grind (splits := 80)))

set_option maxHeartbeats 4000000 in
theorem inv2_cv1 (cv1 : ∀ g p, s.pc p = .jWoken g → s.retval g = some (s.res p)) (gv : ∀ g p, s.pc g = .fGave p → s.retval g = some (s.res p)) (hf : (∀ a p, s.pc a = .fGot p → s.holder p = some a ∧ s.pc p = .jParked a) ∧ (∀ a p v, s.pc a = .fGotRes p v → s.holder p = some a ∧ s.pc p = .jParked a) ∧ (∀ a p, s.pc a = .fGave p → s.holder p = some a ∧ s.pc p = .jParked a)) (hw : ∀ a op g v p, s.pc a = .wake op g v p → s.holder p = some a ∧ parkedIn (s.pc p) p g = true) (uq : ∀ g a a', claimPath (s.pc a) g = true → claimPath (s.pc a') g = true → a = a') (hc : stepCore s e = some s1) : ∀ g p, s1.pc p = .jWoken g → s1.retval g = some (s1.res p) := by
  step_cases e with hc
  all_goals (intros; (try simp only [upd_apply, WFJ, DET, NONE, WTJ] at *); first | grind | grind (splits := 25) | grind (splits := 80) | ((repeat' split) <;> grind (splits := 80)))

end LibfiberVerif.JoinCas
