/-
  Proof/ChanWakeStep.lean — `Chan.WInv` (publish-then-raise / clear-then-recheck) is preserved
  by every event of the unbounded and sp channels; `receiver_resumed` for these kinds.
-/
import LibfiberVerif.Proof.ChanWake

set_option linter.unusedSimpArgs false
set_option linter.unusedVariables false

namespace LibfiberVerif.Chan
open Signal (PSt PEv PPc pstep PInv)

macro "cw_close" : tactic =>
  `(tactic| (intros; (try simp only [upd, avail, headNext, inFlight, committed, asleep, PPc.sleepy, PPc.targets, PPc.inWait] at *); first | done | grind [Pc.isRecv, PPc.isTarget, Pc.isPublished]))

/-- explode a hypothesis `pstep p e = some q` into the concrete successor and substitute it -/
macro "pstep_cases" h:ident : tactic =>
  `(tactic| (simp only [pstep] at $h:ident; (repeat' (split at $h:ident)); all_goals (try simp at $h:ident);
             all_goals (try contradiction);
             all_goals (first | subst $h:ident | (obtain ⟨_, $h:ident⟩ := $h:ident; subst $h:ident) | skip)))

set_option maxHeartbeats 4000000 in
theorem winv_step_callSend (s s' : St) (f v : _) (hk : s.kind ≠ .bounded) (hq : QInv s) (hw : WInv s) (hsp : s.spin = false) (hs : step s (.callSend f v) = some s') : WInv s' := by
  have hW := hw
  have hrecv := hq.recv_id
  have hord := hq.ord
  obtain ⟨hp, w2, w3, w4, w5, w6, w7, w8, w9⟩ := hw
  obtain ⟨p1, p2, p3, p4, p5, p6, p7, p8, p9, p10, p11, p12⟩ := hp
  simp only [step, emptyPc, pubPc, hsp, Bool.false_eq_true, ↓reduceIte] at hs
  repeat' (split at hs)
  all_goals (try simp at hs)
  all_goals (try contradiction)
  all_goals (first | subst hs | (obtain ⟨_, hs⟩ := hs; subst hs))
  all_goals (refine ⟨hW.pinv, ?_, ?_, ?_, ?_, ?_, ?_, ?_, ?_⟩ <;> cw_close)

set_option maxHeartbeats 4000000 in
theorem winv_step_woke (s s' : St) (f r : _) (hk : s.kind ≠ .bounded) (hq : QInv s) (hw : WInv s) (hsp : s.spin = false) (hs : step s (.woke f r) = some s') : WInv s' := by
  have hW := hw
  have hrecv := hq.recv_id
  have hord := hq.ord
  obtain ⟨hp, w2, w3, w4, w5, w6, w7, w8, w9⟩ := hw
  obtain ⟨p1, p2, p3, p4, p5, p6, p7, p8, p9, p10, p11, p12⟩ := hp
  simp only [step, emptyPc, pubPc, hsp, Bool.false_eq_true, ↓reduceIte] at hs
  repeat' (split at hs)
  all_goals (try simp at hs)
  all_goals (try contradiction)
  all_goals (first | subst hs | (obtain ⟨_, hs⟩ := hs; subst hs))
  all_goals (refine ⟨hW.pinv, ?_, ?_, ?_, ?_, ?_, ?_, ?_, ?_⟩ <;> cw_close)

set_option maxHeartbeats 4000000 in
theorem winv_step_retSend (s s' : St) (f : _) (hk : s.kind ≠ .bounded) (hq : QInv s) (hw : WInv s) (hsp : s.spin = false) (hs : step s (.retSend f) = some s') : WInv s' := by
  have hW := hw
  have hrecv := hq.recv_id
  have hord := hq.ord
  obtain ⟨hp, w2, w3, w4, w5, w6, w7, w8, w9⟩ := hw
  obtain ⟨p1, p2, p3, p4, p5, p6, p7, p8, p9, p10, p11, p12⟩ := hp
  simp only [step, emptyPc, pubPc, hsp, Bool.false_eq_true, ↓reduceIte] at hs
  repeat' (split at hs)
  all_goals (try simp at hs)
  all_goals (try contradiction)
  all_goals (first | subst hs | (obtain ⟨_, hs⟩ := hs; subst hs))
  all_goals (refine ⟨hW.pinv, ?_, ?_, ?_, ?_, ?_, ?_, ?_, ?_⟩ <;> cw_close)

set_option maxHeartbeats 4000000 in
theorem winv_step_callRecv (s s' : St) (f : _) (hk : s.kind ≠ .bounded) (hq : QInv s) (hw : WInv s) (hsp : s.spin = false) (hs : step s (.callRecv f) = some s') : WInv s' := by
  have hW := hw
  have hrecv := hq.recv_id
  have hord := hq.ord
  obtain ⟨hp, w2, w3, w4, w5, w6, w7, w8, w9⟩ := hw
  obtain ⟨p1, p2, p3, p4, p5, p6, p7, p8, p9, p10, p11, p12⟩ := hp
  simp only [step, emptyPc, pubPc, hsp, Bool.false_eq_true, ↓reduceIte] at hs
  repeat' (split at hs)
  all_goals (try simp at hs)
  all_goals (try contradiction)
  all_goals (first | subst hs | (obtain ⟨_, hs⟩ := hs; subst hs))
  all_goals (refine ⟨hW.pinv, ?_, ?_, ?_, ?_, ?_, ?_, ?_, ?_⟩ <;> cw_close)

set_option maxHeartbeats 4000000 in
theorem winv_step_callTry (s s' : St) (f : _) (hk : s.kind ≠ .bounded) (hq : QInv s) (hw : WInv s) (hsp : s.spin = false) (hs : step s (.callTry f) = some s') : WInv s' := by
  have hW := hw
  have hrecv := hq.recv_id
  have hord := hq.ord
  obtain ⟨hp, w2, w3, w4, w5, w6, w7, w8, w9⟩ := hw
  obtain ⟨p1, p2, p3, p4, p5, p6, p7, p8, p9, p10, p11, p12⟩ := hp
  simp only [step, emptyPc, pubPc, hsp, Bool.false_eq_true, ↓reduceIte] at hs
  repeat' (split at hs)
  all_goals (try simp at hs)
  all_goals (try contradiction)
  all_goals (first | subst hs | (obtain ⟨_, hs⟩ := hs; subst hs))
  all_goals (refine ⟨hW.pinv, ?_, ?_, ?_, ?_, ?_, ?_, ?_, ?_⟩ <;> cw_close)

set_option maxHeartbeats 4000000 in
theorem winv_step_retRecv (s s' : St) (f v : _) (hk : s.kind ≠ .bounded) (hq : QInv s) (hw : WInv s) (hsp : s.spin = false) (hs : step s (.retRecv f v) = some s') : WInv s' := by
  have hW := hw
  have hrecv := hq.recv_id
  have hord := hq.ord
  obtain ⟨hp, w2, w3, w4, w5, w6, w7, w8, w9⟩ := hw
  obtain ⟨p1, p2, p3, p4, p5, p6, p7, p8, p9, p10, p11, p12⟩ := hp
  simp only [step, emptyPc, pubPc, hsp, Bool.false_eq_true, ↓reduceIte] at hs
  repeat' (split at hs)
  all_goals (try simp at hs)
  all_goals (try contradiction)
  all_goals (first | subst hs | (obtain ⟨_, hs⟩ := hs; subst hs))
  all_goals (refine ⟨hW.pinv, ?_, ?_, ?_, ?_, ?_, ?_, ?_, ?_⟩ <;> cw_close)

set_option maxHeartbeats 4000000 in
theorem winv_step_ldLow (s s' : St) (f l : _) (hk : s.kind ≠ .bounded) (hq : QInv s) (hw : WInv s) (hsp : s.spin = false) (hs : step s (.ldLow f l) = some s') : WInv s' := by
  have hW := hw
  have hrecv := hq.recv_id
  have hord := hq.ord
  obtain ⟨hp, w2, w3, w4, w5, w6, w7, w8, w9⟩ := hw
  obtain ⟨p1, p2, p3, p4, p5, p6, p7, p8, p9, p10, p11, p12⟩ := hp
  simp only [step, emptyPc, pubPc, hsp, Bool.false_eq_true, ↓reduceIte] at hs
  repeat' (split at hs)
  all_goals (try simp at hs)
  all_goals (try contradiction)
  all_goals (first | subst hs | (obtain ⟨_, hs⟩ := hs; subst hs))
  all_goals (refine ⟨hW.pinv, ?_, ?_, ?_, ?_, ?_, ?_, ?_, ?_⟩ <;> cw_close)

set_option maxHeartbeats 4000000 in
theorem winv_step_ldHigh (s s' : St) (f h : _) (hk : s.kind ≠ .bounded) (hq : QInv s) (hw : WInv s) (hsp : s.spin = false) (hs : step s (.ldHigh f h) = some s') : WInv s' := by
  have hW := hw
  have hrecv := hq.recv_id
  have hord := hq.ord
  obtain ⟨hp, w2, w3, w4, w5, w6, w7, w8, w9⟩ := hw
  obtain ⟨p1, p2, p3, p4, p5, p6, p7, p8, p9, p10, p11, p12⟩ := hp
  simp only [step, emptyPc, pubPc, hsp, Bool.false_eq_true, ↓reduceIte] at hs
  repeat' (split at hs)
  all_goals (try simp at hs)
  all_goals (try contradiction)
  all_goals (first | subst hs | (obtain ⟨_, hs⟩ := hs; subst hs))
  all_goals (refine ⟨hW.pinv, ?_, ?_, ?_, ?_, ?_, ?_, ?_, ?_⟩ <;> cw_close)

set_option maxHeartbeats 4000000 in
theorem winv_step_rBuf (s s' : St) (f i x : _) (hk : s.kind ≠ .bounded) (hq : QInv s) (hw : WInv s) (hsp : s.spin = false) (hs : step s (.rBuf f i x) = some s') : WInv s' := by
  have hW := hw
  have hrecv := hq.recv_id
  have hord := hq.ord
  obtain ⟨hp, w2, w3, w4, w5, w6, w7, w8, w9⟩ := hw
  obtain ⟨p1, p2, p3, p4, p5, p6, p7, p8, p9, p10, p11, p12⟩ := hp
  simp only [step, emptyPc, pubPc, hsp, Bool.false_eq_true, ↓reduceIte] at hs
  repeat' (split at hs)
  all_goals (try simp at hs)
  all_goals (try contradiction)
  all_goals (first | subst hs | (obtain ⟨_, hs⟩ := hs; subst hs))
  all_goals (refine ⟨hW.pinv, ?_, ?_, ?_, ?_, ?_, ?_, ?_, ?_⟩ <;> cw_close)

set_option maxHeartbeats 4000000 in
theorem winv_step_casHigh (s s' : St) (f a b c ok : _) (hk : s.kind ≠ .bounded) (hq : QInv s) (hw : WInv s) (hsp : s.spin = false) (hs : step s (.casHigh f a b c ok) = some s') : WInv s' := by
  have hW := hw
  have hrecv := hq.recv_id
  have hord := hq.ord
  obtain ⟨hp, w2, w3, w4, w5, w6, w7, w8, w9⟩ := hw
  obtain ⟨p1, p2, p3, p4, p5, p6, p7, p8, p9, p10, p11, p12⟩ := hp
  simp only [step, emptyPc, pubPc, hsp, Bool.false_eq_true, ↓reduceIte] at hs
  repeat' (split at hs)
  all_goals (try simp at hs)
  all_goals (try contradiction)
  all_goals (first | subst hs | (obtain ⟨_, hs⟩ := hs; subst hs))
  all_goals (refine ⟨hW.pinv, ?_, ?_, ?_, ?_, ?_, ?_, ?_, ?_⟩ <;> cw_close)

set_option maxHeartbeats 4000000 in
theorem winv_step_wBuf (s s' : St) (f i x : _) (hk : s.kind ≠ .bounded) (hq : QInv s) (hw : WInv s) (hsp : s.spin = false) (hs : step s (.wBuf f i x) = some s') : WInv s' := by
  have hW := hw
  have hrecv := hq.recv_id
  have hord := hq.ord
  obtain ⟨hp, w2, w3, w4, w5, w6, w7, w8, w9⟩ := hw
  obtain ⟨p1, p2, p3, p4, p5, p6, p7, p8, p9, p10, p11, p12⟩ := hp
  simp only [step, emptyPc, pubPc, hsp, Bool.false_eq_true, ↓reduceIte] at hs
  repeat' (split at hs)
  all_goals (try simp at hs)
  all_goals (try contradiction)
  all_goals (first | subst hs | (obtain ⟨_, hs⟩ := hs; subst hs))
  all_goals (refine ⟨hW.pinv, ?_, ?_, ?_, ?_, ?_, ?_, ?_, ?_⟩ <;> cw_close)

set_option maxHeartbeats 4000000 in
theorem winv_step_stLow (s s' : St) (f l : _) (hk : s.kind ≠ .bounded) (hq : QInv s) (hw : WInv s) (hsp : s.spin = false) (hs : step s (.stLow f l) = some s') : WInv s' := by
  have hW := hw
  have hrecv := hq.recv_id
  have hord := hq.ord
  obtain ⟨hp, w2, w3, w4, w5, w6, w7, w8, w9⟩ := hw
  obtain ⟨p1, p2, p3, p4, p5, p6, p7, p8, p9, p10, p11, p12⟩ := hp
  simp only [step, emptyPc, pubPc, hsp, Bool.false_eq_true, ↓reduceIte] at hs
  repeat' (split at hs)
  all_goals (try simp at hs)
  all_goals (try contradiction)
  all_goals (first | subst hs | (obtain ⟨_, hs⟩ := hs; subst hs))
  all_goals (refine ⟨hW.pinv, ?_, ?_, ?_, ?_, ?_, ?_, ?_, ?_⟩ <;> cw_close)

set_option maxHeartbeats 4000000 in
theorem winv_step_wNext (s s' : St) (f n x : _) (hk : s.kind ≠ .bounded) (hq : QInv s) (hw : WInv s) (hsp : s.spin = false) (hs : step s (.wNext f n x) = some s') : WInv s' := by
  have hW := hw
  have hrecv := hq.recv_id
  have hord := hq.ord
  obtain ⟨hp, w2, w3, w4, w5, w6, w7, w8, w9⟩ := hw
  obtain ⟨p1, p2, p3, p4, p5, p6, p7, p8, p9, p10, p11, p12⟩ := hp
  simp only [step, emptyPc, pubPc, hsp, Bool.false_eq_true, ↓reduceIte] at hs
  repeat' (split at hs)
  all_goals (try simp at hs)
  all_goals (try contradiction)
  all_goals (first | subst hs | (obtain ⟨_, hs⟩ := hs; subst hs))
  all_goals (refine ⟨hW.pinv, ?_, ?_, ?_, ?_, ?_, ?_, ?_, ?_⟩ <;> cw_close)

set_option maxHeartbeats 4000000 in
theorem winv_step_xchgTail (s s' : St) (f o n : _) (hk : s.kind ≠ .bounded) (hq : QInv s) (hw : WInv s) (hsp : s.spin = false) (hs : step s (.xchgTail f o n) = some s') : WInv s' := by
  have hW := hw
  have hrecv := hq.recv_id
  have hord := hq.ord
  obtain ⟨hp, w2, w3, w4, w5, w6, w7, w8, w9⟩ := hw
  obtain ⟨p1, p2, p3, p4, p5, p6, p7, p8, p9, p10, p11, p12⟩ := hp
  simp only [step, emptyPc, pubPc, hsp, Bool.false_eq_true, ↓reduceIte] at hs
  repeat' (split at hs)
  all_goals (try simp at hs)
  all_goals (try contradiction)
  all_goals (first | subst hs | (obtain ⟨_, hs⟩ := hs; subst hs))
  all_goals (refine ⟨hW.pinv, ?_, ?_, ?_, ?_, ?_, ?_, ?_, ?_⟩ <;> cw_close)

set_option maxHeartbeats 4000000 in
theorem winv_step_ldTail (s s' : St) (f t : _) (hk : s.kind ≠ .bounded) (hq : QInv s) (hw : WInv s) (hsp : s.spin = false) (hs : step s (.ldTail f t) = some s') : WInv s' := by
  have hW := hw
  have hrecv := hq.recv_id
  have hord := hq.ord
  obtain ⟨hp, w2, w3, w4, w5, w6, w7, w8, w9⟩ := hw
  obtain ⟨p1, p2, p3, p4, p5, p6, p7, p8, p9, p10, p11, p12⟩ := hp
  simp only [step, emptyPc, pubPc, hsp, Bool.false_eq_true, ↓reduceIte] at hs
  repeat' (split at hs)
  all_goals (try simp at hs)
  all_goals (try contradiction)
  all_goals (first | subst hs | (obtain ⟨_, hs⟩ := hs; subst hs))
  all_goals (refine ⟨hW.pinv, ?_, ?_, ?_, ?_, ?_, ?_, ?_, ?_⟩ <;> cw_close)

set_option maxHeartbeats 4000000 in
theorem winv_step_stTail (s s' : St) (f n : _) (hk : s.kind ≠ .bounded) (hq : QInv s) (hw : WInv s) (hsp : s.spin = false) (hs : step s (.stTail f n) = some s') : WInv s' := by
  have hW := hw
  have hrecv := hq.recv_id
  have hord := hq.ord
  obtain ⟨hp, w2, w3, w4, w5, w6, w7, w8, w9⟩ := hw
  obtain ⟨p1, p2, p3, p4, p5, p6, p7, p8, p9, p10, p11, p12⟩ := hp
  simp only [step, emptyPc, pubPc, hsp, Bool.false_eq_true, ↓reduceIte] at hs
  repeat' (split at hs)
  all_goals (try simp at hs)
  all_goals (try contradiction)
  all_goals (first | subst hs | (obtain ⟨_, hs⟩ := hs; subst hs))
  all_goals (refine ⟨hW.pinv, ?_, ?_, ?_, ?_, ?_, ?_, ?_, ?_⟩ <;> cw_close)

set_option maxHeartbeats 4000000 in
theorem winv_step_rHead (s s' : St) (f h : _) (hk : s.kind ≠ .bounded) (hq : QInv s) (hw : WInv s) (hsp : s.spin = false) (hs : step s (.rHead f h) = some s') : WInv s' := by
  have hW := hw
  have hrecv := hq.recv_id
  have hord := hq.ord
  obtain ⟨hp, w2, w3, w4, w5, w6, w7, w8, w9⟩ := hw
  obtain ⟨p1, p2, p3, p4, p5, p6, p7, p8, p9, p10, p11, p12⟩ := hp
  simp only [step, emptyPc, pubPc, hsp, Bool.false_eq_true, ↓reduceIte] at hs
  repeat' (split at hs)
  all_goals (try simp at hs)
  all_goals (try contradiction)
  all_goals (first | subst hs | (obtain ⟨_, hs⟩ := hs; subst hs))
  all_goals (refine ⟨hW.pinv, ?_, ?_, ?_, ?_, ?_, ?_, ?_, ?_⟩ <;> cw_close)

set_option maxHeartbeats 4000000 in
theorem winv_step_wHead (s s' : St) (f x : _) (hk : s.kind ≠ .bounded) (hq : QInv s) (hw : WInv s) (hsp : s.spin = false) (hs : step s (.wHead f x) = some s') : WInv s' := by
  have hW := hw
  have hrecv := hq.recv_id
  have hord := hq.ord
  obtain ⟨hp, w2, w3, w4, w5, w6, w7, w8, w9⟩ := hw
  obtain ⟨p1, p2, p3, p4, p5, p6, p7, p8, p9, p10, p11, p12⟩ := hp
  simp only [step, emptyPc, pubPc, hsp, Bool.false_eq_true, ↓reduceIte] at hs
  repeat' (split at hs)
  all_goals (try simp at hs)
  all_goals (try contradiction)
  all_goals (first | subst hs | (obtain ⟨_, hs⟩ := hs; subst hs))
  all_goals (refine ⟨hW.pinv, ?_, ?_, ?_, ?_, ?_, ?_, ?_, ?_⟩ <;> cw_close)

set_option maxHeartbeats 4000000 in
theorem winv_step_rNext (s s' : St) (f n x : _) (hk : s.kind ≠ .bounded) (hq : QInv s) (hw : WInv s) (hsp : s.spin = false) (hs : step s (.rNext f n x) = some s') : WInv s' := by
  have hW := hw
  have hrecv := hq.recv_id
  have hord := hq.ord
  obtain ⟨hp, w2, w3, w4, w5, w6, w7, w8, w9⟩ := hw
  obtain ⟨p1, p2, p3, p4, p5, p6, p7, p8, p9, p10, p11, p12⟩ := hp
  simp only [step, emptyPc, pubPc, hsp, Bool.false_eq_true, ↓reduceIte] at hs
  repeat' (split at hs)
  all_goals (try simp at hs)
  all_goals (try contradiction)
  all_goals (first | subst hs | (obtain ⟨_, hs⟩ := hs; subst hs))
  all_goals (refine ⟨hW.pinv, ?_, ?_, ?_, ?_, ?_, ?_, ?_, ?_⟩ <;> cw_close)

set_option maxHeartbeats 4000000 in
theorem winv_step_rData (s s' : St) (f n d : _) (hk : s.kind ≠ .bounded) (hq : QInv s) (hw : WInv s) (hsp : s.spin = false) (hs : step s (.rData f n d) = some s') : WInv s' := by
  have hW := hw
  have hrecv := hq.recv_id
  have hord := hq.ord
  obtain ⟨hp, w2, w3, w4, w5, w6, w7, w8, w9⟩ := hw
  obtain ⟨p1, p2, p3, p4, p5, p6, p7, p8, p9, p10, p11, p12⟩ := hp
  simp only [step, emptyPc, pubPc, hsp, Bool.false_eq_true, ↓reduceIte] at hs
  repeat' (split at hs)
  all_goals (try simp at hs)
  all_goals (try contradiction)
  all_goals (first | subst hs | (obtain ⟨_, hs⟩ := hs; subst hs))
  all_goals (refine ⟨hW.pinv, ?_, ?_, ?_, ?_, ?_, ?_, ?_, ?_⟩ <;> cw_close)

set_option maxHeartbeats 4000000 in
theorem winv_step_wData (s s' : St) (f n d : _) (hk : s.kind ≠ .bounded) (hq : QInv s) (hw : WInv s) (hsp : s.spin = false) (hs : step s (.wData f n d) = some s') : WInv s' := by
  have hW := hw
  have hrecv := hq.recv_id
  have hord := hq.ord
  obtain ⟨hp, w2, w3, w4, w5, w6, w7, w8, w9⟩ := hw
  obtain ⟨p1, p2, p3, p4, p5, p6, p7, p8, p9, p10, p11, p12⟩ := hp
  simp only [step, emptyPc, pubPc, hsp, Bool.false_eq_true, ↓reduceIte] at hs
  repeat' (split at hs)
  all_goals (try simp at hs)
  all_goals (try contradiction)
  all_goals (first | subst hs | (obtain ⟨_, hs⟩ := hs; subst hs))
  all_goals (refine ⟨hW.pinv, ?_, ?_, ?_, ?_, ?_, ?_, ?_, ?_⟩ <;> cw_close)

set_option maxHeartbeats 16000000 in
theorem winv_step_p_xchg (s s' : St) (f : Nat) (old : Signal.Word) (hk : s.kind ≠ .bounded) (hq : QInv s) (hw : WInv s)
    (hs : step s (.p (.xchg f old)) = some s') : WInv s' := by
  have hp' : PInv s'.p := (psteps_of_step s s' _ hs).pinv hw.pinv
  have hW := hw
  have hrecv := hq.recv_id
  obtain ⟨hp, w2, w3, w4, w5, w6, w7, w8, w9⟩ := hw
  obtain ⟨p1, p2, p3, p4, p5, p6, p7, p8, p9, p10, p11, p12⟩ := hp
  have hs' : pEmbedded s (.xchg f old) = some s' := by simpa [step] using hs
  rcases embedded_cases s s' _ hs' with ⟨hpc, q1, q2, h1, h2, rfl⟩ | ⟨hpc, q2, h2, (⟨hd, q3, h3, rfl⟩ | ⟨hd, rfl⟩)⟩ |
    ⟨v, hpc, q1, q2, h1, h2, (⟨r', q3, hr, h3, rfl⟩ | ⟨hnr, rfl⟩)⟩ | ⟨v, hpc, q2, h2, (⟨r', q3, hr, h3, rfl⟩ | ⟨hnr, rfl⟩)⟩
  all_goals simp only [pactor] at *
  all_goals (try pstep_cases h1)
  all_goals (try pstep_cases h2)
  all_goals (try pstep_cases h3)
  all_goals (refine ⟨hp', ?_, ?_, ?_, ?_, ?_, ?_, ?_, ?_⟩ <;> cw_close)

set_option maxHeartbeats 16000000 in
theorem winv_step_p_clrScratch (s s' : St) (f : Nat) (hk : s.kind ≠ .bounded) (hq : QInv s) (hw : WInv s)
    (hs : step s (.p (.clrScratch f)) = some s') : WInv s' := by
  have hp' : PInv s'.p := (psteps_of_step s s' _ hs).pinv hw.pinv
  have hW := hw
  have hrecv := hq.recv_id
  obtain ⟨hp, w2, w3, w4, w5, w6, w7, w8, w9⟩ := hw
  obtain ⟨p1, p2, p3, p4, p5, p6, p7, p8, p9, p10, p11, p12⟩ := hp
  have hs' : pEmbedded s (.clrScratch f) = some s' := by simpa [step] using hs
  rcases embedded_cases s s' _ hs' with ⟨hpc, q1, q2, h1, h2, rfl⟩ | ⟨hpc, q2, h2, (⟨hd, q3, h3, rfl⟩ | ⟨hd, rfl⟩)⟩ |
    ⟨v, hpc, q1, q2, h1, h2, (⟨r', q3, hr, h3, rfl⟩ | ⟨hnr, rfl⟩)⟩ | ⟨v, hpc, q2, h2, (⟨r', q3, hr, h3, rfl⟩ | ⟨hnr, rfl⟩)⟩
  all_goals simp only [pactor] at *
  all_goals (try pstep_cases h1)
  all_goals (try pstep_cases h2)
  all_goals (try pstep_cases h3)
  all_goals (refine ⟨hp', ?_, ?_, ?_, ?_, ?_, ?_, ?_, ?_⟩ <;> cw_close)

set_option maxHeartbeats 16000000 in
theorem winv_step_p_casWaiter (s s' : St) (f : Nat) (w : Signal.Word) (ok : Bool) (hk : s.kind ≠ .bounded) (hq : QInv s) (hw : WInv s)
    (hs : step s (.p (.casWaiter f w ok)) = some s') : WInv s' := by
  have hp' : PInv s'.p := (psteps_of_step s s' _ hs).pinv hw.pinv
  have hW := hw
  have hrecv := hq.recv_id
  obtain ⟨hp, w2, w3, w4, w5, w6, w7, w8, w9⟩ := hw
  obtain ⟨p1, p2, p3, p4, p5, p6, p7, p8, p9, p10, p11, p12⟩ := hp
  have hs' : pEmbedded s (.casWaiter f w ok) = some s' := by simpa [step] using hs
  rcases embedded_cases s s' _ hs' with ⟨hpc, q1, q2, h1, h2, rfl⟩ | ⟨hpc, q2, h2, (⟨hd, q3, h3, rfl⟩ | ⟨hd, rfl⟩)⟩ |
    ⟨v, hpc, q1, q2, h1, h2, (⟨r', q3, hr, h3, rfl⟩ | ⟨hnr, rfl⟩)⟩ | ⟨v, hpc, q2, h2, (⟨r', q3, hr, h3, rfl⟩ | ⟨hnr, rfl⟩)⟩
  all_goals simp only [pactor] at *
  all_goals (try pstep_cases h1)
  all_goals (try pstep_cases h2)
  all_goals (try pstep_cases h3)
  all_goals (refine ⟨hp', ?_, ?_, ?_, ?_, ?_, ?_, ?_, ?_⟩ <;> cw_close)

set_option maxHeartbeats 16000000 in
theorem winv_step_p_wStateWaiting (s s' : St) (f : Nat) (hk : s.kind ≠ .bounded) (hq : QInv s) (hw : WInv s)
    (hs : step s (.p (.wStateWaiting f)) = some s') : WInv s' := by
  have hp' : PInv s'.p := (psteps_of_step s s' _ hs).pinv hw.pinv
  have hW := hw
  have hrecv := hq.recv_id
  obtain ⟨hp, w2, w3, w4, w5, w6, w7, w8, w9⟩ := hw
  obtain ⟨p1, p2, p3, p4, p5, p6, p7, p8, p9, p10, p11, p12⟩ := hp
  have hs' : pEmbedded s (.wStateWaiting f) = some s' := by simpa [step] using hs
  rcases embedded_cases s s' _ hs' with ⟨hpc, q1, q2, h1, h2, rfl⟩ | ⟨hpc, q2, h2, (⟨hd, q3, h3, rfl⟩ | ⟨hd, rfl⟩)⟩ |
    ⟨v, hpc, q1, q2, h1, h2, (⟨r', q3, hr, h3, rfl⟩ | ⟨hnr, rfl⟩)⟩ | ⟨v, hpc, q2, h2, (⟨r', q3, hr, h3, rfl⟩ | ⟨hnr, rfl⟩)⟩
  all_goals simp only [pactor] at *
  all_goals (try pstep_cases h1)
  all_goals (try pstep_cases h2)
  all_goals (try pstep_cases h3)
  all_goals (refine ⟨hp', ?_, ?_, ?_, ?_, ?_, ?_, ?_, ?_⟩ <;> cw_close)

set_option maxHeartbeats 16000000 in
theorem winv_step_p_stNone (s s' : St) (f : Nat) (hk : s.kind ≠ .bounded) (hq : QInv s) (hw : WInv s)
    (hs : step s (.p (.stNone f)) = some s') : WInv s' := by
  have hp' : PInv s'.p := (psteps_of_step s s' _ hs).pinv hw.pinv
  have hW := hw
  have hrecv := hq.recv_id
  obtain ⟨hp, w2, w3, w4, w5, w6, w7, w8, w9⟩ := hw
  obtain ⟨p1, p2, p3, p4, p5, p6, p7, p8, p9, p10, p11, p12⟩ := hp
  have hs' : pEmbedded s (.stNone f) = some s' := by simpa [step] using hs
  rcases embedded_cases s s' _ hs' with ⟨hpc, q1, q2, h1, h2, rfl⟩ | ⟨hpc, q2, h2, (⟨hd, q3, h3, rfl⟩ | ⟨hd, rfl⟩)⟩ |
    ⟨v, hpc, q1, q2, h1, h2, (⟨r', q3, hr, h3, rfl⟩ | ⟨hnr, rfl⟩)⟩ | ⟨v, hpc, q2, h2, (⟨r', q3, hr, h3, rfl⟩ | ⟨hnr, rfl⟩)⟩
  all_goals simp only [pactor] at *
  all_goals (try pstep_cases h1)
  all_goals (try pstep_cases h2)
  all_goals (try pstep_cases h3)
  all_goals (refine ⟨hp', ?_, ?_, ?_, ?_, ?_, ?_, ?_, ?_⟩ <;> cw_close)

set_option maxHeartbeats 16000000 in
theorem winv_step_p_rScratch (s s' : St) (f g : Nat) (r : Bool) (hk : s.kind ≠ .bounded) (hq : QInv s) (hw : WInv s)
    (hs : step s (.p (.rScratch f g r)) = some s') : WInv s' := by
  have hp' : PInv s'.p := (psteps_of_step s s' _ hs).pinv hw.pinv
  have hW := hw
  have hrecv := hq.recv_id
  obtain ⟨hp, w2, w3, w4, w5, w6, w7, w8, w9⟩ := hw
  obtain ⟨p1, p2, p3, p4, p5, p6, p7, p8, p9, p10, p11, p12⟩ := hp
  have hs' : pEmbedded s (.rScratch f g r) = some s' := by simpa [step] using hs
  rcases embedded_cases s s' _ hs' with ⟨hpc, q1, q2, h1, h2, rfl⟩ | ⟨hpc, q2, h2, (⟨hd, q3, h3, rfl⟩ | ⟨hd, rfl⟩)⟩ |
    ⟨v, hpc, q1, q2, h1, h2, (⟨r', q3, hr, h3, rfl⟩ | ⟨hnr, rfl⟩)⟩ | ⟨v, hpc, q2, h2, (⟨r', q3, hr, h3, rfl⟩ | ⟨hnr, rfl⟩)⟩
  all_goals simp only [pactor] at *
  all_goals (try pstep_cases h1)
  all_goals (try pstep_cases h2)
  all_goals (try pstep_cases h3)
  all_goals (refine ⟨hp', ?_, ?_, ?_, ?_, ?_, ?_, ?_, ?_⟩ <;> cw_close)

set_option maxHeartbeats 16000000 in
theorem winv_step_p_wStateReady (s s' : St) (f g : Nat) (hk : s.kind ≠ .bounded) (hq : QInv s) (hw : WInv s)
    (hs : step s (.p (.wStateReady f g)) = some s') : WInv s' := by
  have hp' : PInv s'.p := (psteps_of_step s s' _ hs).pinv hw.pinv
  have hW := hw
  have hrecv := hq.recv_id
  obtain ⟨hp, w2, w3, w4, w5, w6, w7, w8, w9⟩ := hw
  obtain ⟨p1, p2, p3, p4, p5, p6, p7, p8, p9, p10, p11, p12⟩ := hp
  have hs' : pEmbedded s (.wStateReady f g) = some s' := by simpa [step] using hs
  rcases embedded_cases s s' _ hs' with ⟨hpc, q1, q2, h1, h2, rfl⟩ | ⟨hpc, q2, h2, (⟨hd, q3, h3, rfl⟩ | ⟨hd, rfl⟩)⟩ |
    ⟨v, hpc, q1, q2, h1, h2, (⟨r', q3, hr, h3, rfl⟩ | ⟨hnr, rfl⟩)⟩ | ⟨v, hpc, q2, h2, (⟨r', q3, hr, h3, rfl⟩ | ⟨hnr, rfl⟩)⟩
  all_goals simp only [pactor] at *
  all_goals (try pstep_cases h1)
  all_goals (try pstep_cases h2)
  all_goals (try pstep_cases h3)
  all_goals (refine ⟨hp', ?_, ?_, ?_, ?_, ?_, ?_, ?_, ?_⟩ <;> cw_close)

set_option maxHeartbeats 4000000 in
theorem winv_step_p_setWait (s s' : St) (g f : Nat) (hk : s.kind ≠ .bounded) (hq : QInv s) (hw : WInv s)
    (hs : step s (.p (.setWait g f)) = some s') : WInv s' := by
  have hp' : PInv s'.p := (psteps_of_step s s' _ hs).pinv hw.pinv
  have hW := hw
  have hrecv := hq.recv_id
  obtain ⟨hp, w2, w3, w4, w5, w6, w7, w8, w9⟩ := hw
  obtain ⟨p1, p2, p3, p4, p5, p6, p7, p8, p9, p10, p11, p12⟩ := hp
  simp only [step, Option.map_eq_some_iff] at hs
  obtain ⟨q1, h1, rfl⟩ := hs
  pstep_cases h1
  all_goals (refine ⟨hp', ?_, ?_, ?_, ?_, ?_, ?_, ?_, ?_⟩ <;> cw_close)

theorem winv_step (s s' : St) (e : Ev) (hk : s.kind ≠ .bounded) (hq : QInv s) (hw : WInv s)
    (hsp : s.spin = false) (hs : step s e = some s') : WInv s' := by
  cases e with
  | p pe =>
    cases pe with
    | callWait f => simp [step] at hs
    | retWait f => simp [step] at hs
    | callRaise f => simp [step] at hs
    | retRaise f r => simp [step] at hs
    | setWait g f => exact winv_step_p_setWait s s' g f hk hq hw hs
    | xchg f old => exact winv_step_p_xchg s s' f old hk hq hw hs
    | clrScratch f => exact winv_step_p_clrScratch s s' f hk hq hw hs
    | casWaiter f w ok => exact winv_step_p_casWaiter s s' f w ok hk hq hw hs
    | wStateWaiting f => exact winv_step_p_wStateWaiting s s' f hk hq hw hs
    | stNone f => exact winv_step_p_stNone s s' f hk hq hw hs
    | rScratch f g r => exact winv_step_p_rScratch s s' f g r hk hq hw hs
    | wStateReady f g => exact winv_step_p_wStateReady s s' f g hk hq hw hs
  | callSend f v => exact winv_step_callSend s s' f v hk hq hw hsp hs
  | woke f r => exact winv_step_woke s s' f r hk hq hw hsp hs
  | retSend f => exact winv_step_retSend s s' f hk hq hw hsp hs
  | callRecv f => exact winv_step_callRecv s s' f hk hq hw hsp hs
  | callTry f => exact winv_step_callTry s s' f hk hq hw hsp hs
  | retRecv f v => exact winv_step_retRecv s s' f v hk hq hw hsp hs
  | ldLow f l => exact winv_step_ldLow s s' f l hk hq hw hsp hs
  | ldHigh f h => exact winv_step_ldHigh s s' f h hk hq hw hsp hs
  | rBuf f i x => exact winv_step_rBuf s s' f i x hk hq hw hsp hs
  | casHigh f a b c ok => exact winv_step_casHigh s s' f a b c ok hk hq hw hsp hs
  | wBuf f i x => exact winv_step_wBuf s s' f i x hk hq hw hsp hs
  | stLow f l => exact winv_step_stLow s s' f l hk hq hw hsp hs
  | wNext f n x => exact winv_step_wNext s s' f n x hk hq hw hsp hs
  | xchgTail f o n => exact winv_step_xchgTail s s' f o n hk hq hw hsp hs
  | ldTail f t => exact winv_step_ldTail s s' f t hk hq hw hsp hs
  | stTail f n => exact winv_step_stTail s s' f n hk hq hw hsp hs
  | rHead f h => exact winv_step_rHead s s' f h hk hq hw hsp hs
  | wHead f x => exact winv_step_wHead s s' f x hk hq hw hsp hs
  | rNext f n x => exact winv_step_rNext s s' f n x hk hq hw hsp hs
  | rData f n d => exact winv_step_rData s s' f n d hk hq hw hsp hs
  | wData f n d => exact winv_step_wData s s' f n d hk hq hw hsp hs

theorem winv_of_run {k : Kind} {cap : Nat} (hk : k ≠ .bounded) {es : List Ev} {s : St}
    (h : (sysM false k cap).run es = some s) : WInv s := by
  have : (s.kind = k ∧ s.spin = false) ∧ QInv s ∧ WInv s :=
    Sys.inv_of_run (sysM false k cap) (fun s => (s.kind = k ∧ s.spin = false) ∧ QInv s ∧ WInv s)
      ⟨⟨rfl, rfl⟩, qinv_init k cap, winv_init k cap⟩
      (fun s e s' hi hs => by
        have hk' : s.kind ≠ .bounded := by rw [hi.1.1]; exact hk
        exact ⟨⟨(kind_step s s' e hs).1.trans hi.1.1, (spin_step s s' e hs).trans hi.1.2⟩,
          qinv_step s s' e hk' hi.2.1 hs, winv_step s s' e hk' hi.2.1 hi.2.2 hi.1.2 hs⟩) h
  exact this.2.2

/-- `receiver_resumed` (queue kinds): if a message is linked at the head while no sender is
    between publishing and its exchange, then the receiver's next CAS fails (the word is RAISED)
    if it has decided to sleep, and it is not in the word — so if it is asleep at all, a sender
    has exchanged it out and is on its way to wake it. -/
theorem resumed_of_inv {s : St} (hw : WInv s) (ha : avail s) (hq : ∀ g, ¬ inFlight s g) (w : Nat) :
    (committed s w → s.p.word = .raised) ∧
    (asleep s w → ∃ g, s.p.waker w = some g ∧ (s.p.pc g).targets w) := by
  refine ⟨hw.cov_pre ha hq w, fun hsl => ?_⟩
  rcases hw.pinv.owed w hsl.1 hsl.2 with h | ⟨g, hg⟩
  · exact absurd h (hw.cov_word ha hq w)
  · exact ⟨g, hg, hw.pinv.waker_target w g hg⟩

/-- with every other fiber outside any operation and a message available, the receiver is not
    asleep, and if it has just decided to sleep the word is RAISED -/
theorem not_stranded_of_inv {s : St} (hw : WInv s) (ha : avail s) (w : Nat)
    (hidle : ∀ g, g ≠ w → s.pc g = .idle) :
    ¬ asleep s w ∧ (committed s w → s.p.word = .raised) := by
  by_cases hfw : inFlight s w
  · -- w itself is a sender that has just published: it is neither asleep nor committed
    simp only [inFlight] at hfw
    have hpcw : ∃ v, s.pc w = .sPublished v := by
      cases hp : s.pc w <;> simp [hp, Pc.isPublished] at hfw
      exact ⟨_, rfl⟩
    obtain ⟨v, hv⟩ := hpcw
    have hidlew := hw.idle_link w (by simp [hv]) (by simp [hv])
    constructor
    · intro hsl
      simp only [asleep, PPc.sleepy, hidlew] at hsl
      simp at hsl
    · intro hc
      simp only [committed, hv] at hc
      simp at hc
  · have hnf : ∀ g, ¬ inFlight s g := by
      intro g hg
      by_cases hgw : g = w
      · subst hgw; exact hfw hg
      · simp [inFlight, hidle g hgw, Pc.isPublished] at hg
    obtain ⟨h1, h2⟩ := resumed_of_inv hw ha hnf w
    refine ⟨fun hsl => ?_, h1⟩
    obtain ⟨g, hg, ht⟩ := h2 hsl
    by_cases hgw : g = w
    · subst hgw
      simp only [asleep, PPc.sleepy, PPc.targets] at hsl ht
      rcases hsl.1 with h' | h' | h' <;> simp [h'] at ht
    · have := hw.idle_link g (by simp [hidle g hgw]) (by simp [hidle g hgw])
      simp [PPc.targets, this] at ht

end LibfiberVerif.Chan
