/-
  Proof/Ring.lean — inductive invariant of the ring-buffer model (property C16).

  `N` is the capacity.  Everything is proved for an arbitrary `N > 0` for which the C index
  computation `n & (N-1)` is `n % N`; `Props/C16.lean` instantiates `N = 2^k`.
-/
import LibfiberVerif.Model.Ring

namespace LibfiberVerif.Ring

/-! ### arithmetic helpers -/

theorem idx_two_pow (k n : Nat) : idx (2 ^ k) n = n % 2 ^ k := by
  unfold idx; exact Nat.and_two_pow_sub_one_eq_mod n k

theorem mod_gap {a b n : Nat} (h : a % n = b % n) (hlt : a < b) : a + n ≤ b := by
  have h0 : (b - a) % n = 0 := Nat.sub_mod_eq_zero_of_mod_eq h.symm
  have hd : n ∣ b - a := Nat.dvd_of_mod_eq_zero h0
  have := Nat.le_of_dvd (by omega) hd
  omega

theorem sub_mod_self {h n : Nat} (hn : n ≤ h) : (h - n) % n = h % n := by
  have e : h = (h - n) + n := by omega
  have := Nat.add_mod_right (h - n) n
  rw [← e] at this; exact this.symm

theorem getElem?_append_of_some {l : List Nat} {i : Nat} {x : Nat} (v : Nat)
    (h : l[i]? = some x) : (l ++ [v])[i]? = some x := by
  have hi : i < l.length := by
    rcases List.getElem?_eq_some_iff.mp h with ⟨hi, _⟩; exact hi
  rw [List.getElem?_append_left hi]; exact h

theorem getElem?_append_length (l : List Nat) (v : Nat) : (l ++ [v])[l.length]? = some v := by
  simp

theorem take_succ_of_getElem? {l : List Nat} {i x : Nat} (h : l[i]? = some x) :
    l.take (i + 1) = l.take i ++ [x] := by
  rw [List.take_add_one, h]; rfl

/-! ### the invariant -/

/-- The part of the invariant that does not mention program counters, as a predicate of the
    individual shared cells / ghost fields (so that it is insensitive to `pc` updates). -/
structure DataInv (N size high low : Nat) (buf : Nat → Nat) (pushed popped : List Nat)
    (written cleared : Nat → Bool) : Prop where
  size_eq : size = N
  low_le : low ≤ high
  high_le : high ≤ low + N
  len_pushed : pushed.length = high
  popped_eq : popped = pushed.take low
  nz : ∀ (i v : Nat), pushed[i]? = some v → v ≠ 0
  wr_lt : ∀ i, written i = true → i < high
  cl_lt : ∀ i, cleared i = true → i < low
  cl_wr : ∀ i, cleared i = true → written i = true
  lt_wr : ∀ i, i < low → written i = true
  /-- a written, not yet cleared claim index owns its slot -/
  live : ∀ i, written i = true → cleared i = false → pushed[i]? = some (buf (i % N))
  /-- a non-NULL slot is owned by a written, not yet cleared claim index -/
  nonnull : ∀ j, buf j ≠ 0 → ∃ i, i % N = j ∧ written i = true ∧ cleared i = false
  /-- when `i` is written every earlier user of its slot has been cleared -/
  below : ∀ i i', written i = true → i' < i → i' % N = i % N → cleared i' = true
  /-- a claim of `i` needs the previous lap's slot cleared -/
  wrap : ∀ i, i < high → N ≤ i → cleared (i - N) = true

abbrev Data (N : Nat) (s : St) : Prop :=
  DataInv N s.size s.high s.low s.buf s.pushed s.popped s.written s.cleared

/-- The argument of thread `t`'s current push: the wrapper's `in` (held in `wrap t`) for a
    blocking push, the ghost `arg t` for a direct trypush. -/
def pvalOf (arg : Nat → Nat) (wrap : Nat → Wrap) (t : Nat) : Nat :=
  match wrap t with
  | .push v => v
  | _ => arg t

theorem pvalOf_no {arg : Nat → Nat} {wrap : Nat → Wrap} {t : Nat} (h : wrap t = .no) :
    pvalOf arg wrap t = arg t := by simp [pvalOf, h]

theorem pvalOf_push {arg : Nat → Nat} {wrap : Nat → Wrap} {t v : Nat} (h : wrap t = .push v) :
    pvalOf arg wrap t = v := by simp [pvalOf, h]

theorem pvalOf_other {arg a : Nat → Nat} {wrap wr : Nat → Wrap} {t u : Nat}
    (ha : a u = arg u) (hw : wr u = wrap u) (_ : u ≠ t) : pvalOf a wr u = pvalOf arg wrap u := by
  simp [pvalOf, ha, hw]

/-- What a thread's program counter (with the values it has observed) guarantees;
    `a` is the argument of the thread's push (`pvalOf s.arg s.wrap t`). -/
def PcOk (N : Nat) (s : St) (a : Nat) : Pc → Prop
  | .idle => True
  | .pushCalled v => v ≠ 0 ∧ a = v
  | .pushGotLow v l => v ≠ 0 ∧ a = v ∧ l ≤ s.low
  | .pushGotHigh v l h => v ≠ 0 ∧ a = v ∧ l ≤ s.low ∧ h ≤ s.high
  | .pushReadSlot v l h x => v ≠ 0 ∧ a = v ∧ l ≤ s.low ∧ h ≤ s.high ∧
      (x = 0 → h = s.high → h - l < N → N ≤ h → s.cleared (h - N) = true)
  | .pushClaimed v h => a = v ∧ h < s.high ∧ s.written h = false ∧ s.pushed[h]? = some v ∧
      (N ≤ h → s.cleared (h - N) = true)
  | .pushDone r => r = 0 ∨ (r = 1 ∧ ∃ h, h < s.high ∧ s.written h = true ∧ s.pushed[h]? = some a)
  | .popCalled => True
  | .popGotHigh h => h ≤ s.high
  | .popGotLow h l => h ≤ s.high ∧ l ≤ s.low
  | .popReadSlot h l x => h ≤ s.high ∧ l ≤ s.low ∧
      (x ≠ 0 → s.low = l → l < h → s.written l = true ∧ s.pushed[l]? = some x)
  | .popClaimed l x => l < s.low ∧ s.written l = true ∧ s.cleared l = false ∧ s.pushed[l]? = some x
  | .popDone x => x ≠ 0 → ∃ l, l < s.low ∧ s.cleared l = true ∧ s.pushed[l]? = some x
  | .bpushGotHigh v _ => v ≠ 0 ∧ a = v
  | .bpushFull v => v ≠ 0 ∧ a = v
  | .bpopGotHigh _ => True
  | .bpopEmpty => True
  | .sizeCalled => True
  /- `g` was `low` when `h` was `high`: both have only grown since -/
  | .sizeGotHigh h g => g ≤ s.low ∧ h ≤ s.high ∧ g ≤ h ∧ h ≤ g + N
  | .sizeGotBoth h l g h2 =>
      g ≤ l ∧ l ≤ s.low ∧ g ≤ h ∧ h ≤ g + N ∧ h ≤ h2 ∧ l ≤ h2 ∧ h2 ≤ s.high ∧ h2 ≤ l + N

/-- the wrapper frame fits the program counter: a blocking push (non-NULL argument) is at a
    push pc, a blocking pop at a pop pc -/
def WrapOk : Wrap → Pc → Prop
  | .no, _ => True
  | .push v, p => v ≠ 0 ∧ p.pushing = true
  | .pop, p => p.popping = true

theorem WrapOk.same {w : Wrap} {p p' : Pc} (h : WrapOk w p) (h1 : p'.pushing = p.pushing)
    (h2 : p'.popping = p.popping) : WrapOk w p' := by
  cases w with
  | no => trivial
  | push v => exact ⟨h.1, by rw [h1]; exact h.2⟩
  | pop => show p'.popping = true; rw [h2]; exact h

theorem WrapOk.eq_no {w : Wrap} {p : Pc} (h : WrapOk w p) (h1 : p.pushing = false)
    (h2 : p.popping = false) : w = .no := by
  cases w with
  | no => rfl
  | push v => have := h.2; rw [h1] at this; cases this
  | pop => have : p.popping = true := h; rw [h2] at this; cases this

structure Inv (N : Nat) (s : St) : Prop where
  data : Data N s
  pcok : ∀ t, PcOk N s (pvalOf s.arg s.wrap t) (s.pc t)
  pushClaimed_inj : ∀ t t' v v' h, s.pc t = .pushClaimed v h → s.pc t' = .pushClaimed v' h → t = t'
  popClaimed_inj : ∀ t t' x x' l, s.pc t = .popClaimed l x → s.pc t' = .popClaimed l x' → t = t'
  /-- a claimed but unwritten index has its pusher in flight -/
  unwr : ∀ i, i < s.high → s.written i = false → ∃ t v, s.pc t = .pushClaimed v i
  /-- a claimed but uncleared index has its popper in flight -/
  uncl : ∀ i, i < s.low → s.cleared i = false → ∃ t x, s.pc t = .popClaimed i x
  act : ∀ t, t ∈ s.active ↔ s.pc t ≠ .idle
  wrapok : ∀ t, WrapOk (s.wrap t) (s.pc t)

/-- a thread that is not inside a call has no wrapper frame -/
theorem Inv.wrap_idle {N : Nat} {s : St} (h : Inv N s) (t : Nat) (hpc : s.pc t = .idle) :
    s.wrap t = .no :=
  (h.wrapok t).eq_no (by simp [hpc, Pc.pushing]) (by simp [hpc, Pc.popping])

/-- a blocking push holds a non-NULL argument -/
theorem Inv.wrap_push {N : Nat} {s : St} (h : Inv N s) (t v : Nat) (hw : s.wrap t = .push v) :
    v ≠ 0 := by
  have := h.wrapok t; rw [hw] at this; exact this.1

theorem inv_init (N : Nat) : Inv N (init N) := by
  constructor
  · constructor <;> simp [init]
  all_goals simp [init, PcOk, WrapOk]

/-! ### consequences of the data invariant -/

section data
variable {N size high low : Nat} {buf : Nat → Nat} {pushed popped : List Nat}
  {written cleared : Nat → Bool}

theorem DataInv.below_all (d : DataInv N size high low buf pushed popped written cleared)
    {h : Nat} (hh : N ≤ h → cleared (h - N) = true) :
    ∀ i, i < h → i % N = h % N → cleared i = true := by
  intro i hi hm
  have hg := mod_gap hm hi
  have hc := hh (by omega)
  by_cases e : i = h - N
  · subst e; exact hc
  · exact d.below (h - N) i (d.cl_wr _ hc) (by omega) (by rw [sub_mod_self (by omega)]; exact hm)

/-- the slot of a claimed, unwritten index is NULL -/
theorem DataInv.slot_null (d : DataInv N size high low buf pushed popped written cleared)
    {h : Nat} (hw : written h = false) (hh : N ≤ h → cleared (h - N) = true) :
    buf (h % N) = 0 := by
  by_cases hb : buf (h % N) = 0
  · exact hb
  · obtain ⟨i, hm, hwi, hci⟩ := d.nonnull _ hb
    exfalso
    rcases Nat.lt_trichotomy i h with hlt | heq | hgt
    · have := d.below_all hh i hlt hm; simp [this] at hci
    · subst heq; simp [hw] at hwi
    · have := d.cl_wr _ (d.below i h hwi hgt hm.symm); simp [hw] at this

/-- two live (written, uncleared) indices in the same slot coincide -/
theorem DataInv.live_unique (d : DataInv N size high low buf pushed popped written cleared)
    {i j : Nat} (hi : written i = true) (hj : written j = true)
    (ci : cleared i = false) (cj : cleared j = false) (hm : i % N = j % N) : i = j := by
  rcases Nat.lt_trichotomy i j with hlt | heq | hgt
  · have := d.below j i hj hlt hm; simp [this] at ci
  · exact heq
  · have := d.below i j hi hgt hm.symm; simp [this] at cj

theorem DataInv.casHigh (d : DataInv N size high low buf pushed popped written cleared)
    {v l : Nat} (hv : v ≠ 0) (hl : l ≤ low) (hlt : high - l < N)
    (hc : N ≤ high → cleared (high - N) = true) :
    DataInv N size (high + 1) low buf (pushed ++ [v]) popped written cleared := by
  have hlen := d.len_pushed
  constructor
  · exact d.size_eq
  · have := d.low_le; omega
  · have := d.low_le; omega
  · simp [hlen]
  · rw [List.take_append_of_le_length (by have := d.low_le; omega)]; exact d.popped_eq
  · intro i w hiw
    by_cases hi : i < pushed.length
    · rw [List.getElem?_append_left hi] at hiw; exact d.nz i w hiw
    · rw [List.getElem?_append_right (by omega)] at hiw
      have : i - pushed.length = 0 := by
        rcases List.getElem?_eq_some_iff.mp hiw with ⟨hh, _⟩; simp at hh; omega
      rw [this] at hiw; simp at hiw; omega
  · intro i hi; have := d.wr_lt i hi; omega
  · exact d.cl_lt
  · exact d.cl_wr
  · exact d.lt_wr
  · intro i hw hcl; exact getElem?_append_of_some v (d.live i hw hcl)
  · exact d.nonnull
  · exact d.below
  · intro i hi hn
    by_cases e : i = high
    · subst e; exact hc hn
    · exact d.wrap i (by omega) hn

theorem DataInv.casLow (d : DataInv N size high low buf pushed popped written cleared)
    {x : Nat} (hlt : low < high) (hw : written low = true) (hx : pushed[low]? = some x) :
    DataInv N size high (low + 1) buf pushed (popped ++ [x]) written cleared := by
  constructor
  · exact d.size_eq
  · omega
  · have := d.high_le; omega
  · exact d.len_pushed
  · rw [take_succ_of_getElem? hx, d.popped_eq]
  · exact d.nz
  · exact d.wr_lt
  · intro i hi; have := d.cl_lt i hi; omega
  · exact d.cl_wr
  · intro i hi
    by_cases e : i = low
    · subst e; exact hw
    · exact d.lt_wr i (by omega)
  · exact d.live
  · exact d.nonnull
  · exact d.below
  · exact d.wrap

theorem DataInv.wrPush (d : DataInv N size high low buf pushed popped written cleared)
    {v h : Nat} (hlt : h < high) (hw : written h = false) (hp : pushed[h]? = some v)
    (hc : N ≤ h → cleared (h - N) = true) :
    DataInv N size high low (upd buf (h % N) v) pushed popped (upd written h true) cleared := by
  have hclh : cleared h = false := by
    cases e : cleared h with
    | false => rfl
    | true => have := d.cl_wr h e; simp [hw] at this
  constructor
  · exact d.size_eq
  · exact d.low_le
  · exact d.high_le
  · exact d.len_pushed
  · exact d.popped_eq
  · exact d.nz
  · intro i hi
    by_cases e : i = h
    · subst e; exact hlt
    · rw [upd_other _ _ _ _ e] at hi; exact d.wr_lt i hi
  · exact d.cl_lt
  · intro i hi
    by_cases e : i = h
    · subst e; simp
    · rw [upd_other _ _ _ _ e]; exact d.cl_wr i hi
  · intro i hi
    by_cases e : i = h
    · subst e; simp
    · rw [upd_other _ _ _ _ e]; exact d.lt_wr i hi
  · intro i hwi hci
    by_cases e : i = h
    · subst e; simp [hp]
    · rw [upd_other _ _ _ _ e] at hwi
      have hm : i % N ≠ h % N := by
        intro hm
        rcases Nat.lt_trichotomy i h with h1 | h1 | h1
        · have := d.below_all hc i h1 hm; simp [this] at hci
        · exact e h1
        · have := d.cl_wr _ (d.below i h hwi h1 hm.symm); simp [hw] at this
      rw [upd_other _ _ _ _ hm]; exact d.live i hwi hci
  · intro j hj
    by_cases e : j = h % N
    · exact ⟨h, e.symm, by simp, hclh⟩
    · rw [upd_other _ _ _ _ e] at hj
      obtain ⟨i, hm, hwi, hci⟩ := d.nonnull j hj
      refine ⟨i, hm, ?_, hci⟩
      have : i ≠ h := by intro e'; subst e'; exact e hm.symm
      rw [upd_other _ _ _ _ this]; exact hwi
  · intro i i' hwi hlt' hm
    by_cases e : i = h
    · subst e; exact d.below_all hc i' hlt' hm
    · rw [upd_other _ _ _ _ e] at hwi; exact d.below i i' hwi hlt' hm
  · exact d.wrap

theorem DataInv.wrPop (d : DataInv N size high low buf pushed popped written cleared)
    {l : Nat} (hlt : l < low) (hw : written l = true) (hc : cleared l = false) :
    DataInv N size high low (upd buf (l % N) 0) pushed popped written (upd cleared l true) := by
  constructor
  · exact d.size_eq
  · exact d.low_le
  · exact d.high_le
  · exact d.len_pushed
  · exact d.popped_eq
  · exact d.nz
  · exact d.wr_lt
  · intro i hi
    by_cases e : i = l
    · subst e; exact hlt
    · rw [upd_other _ _ _ _ e] at hi; exact d.cl_lt i hi
  · intro i hi
    by_cases e : i = l
    · subst e; exact hw
    · rw [upd_other _ _ _ _ e] at hi; exact d.cl_wr i hi
  · exact d.lt_wr
  · intro i hwi hci
    have e : i ≠ l := by intro e; subst e; simp at hci
    rw [upd_other _ _ _ _ e] at hci
    have hm : i % N ≠ l % N := fun hm => e (d.live_unique hwi hw hci hc hm)
    rw [upd_other _ _ _ _ hm]; exact d.live i hwi hci
  · intro j hj
    have e : j ≠ l % N := by intro e; subst e; simp at hj
    rw [upd_other _ _ _ _ e] at hj
    obtain ⟨i, hm, hwi, hci⟩ := d.nonnull j hj
    refine ⟨i, hm, hwi, ?_⟩
    have : i ≠ l := by intro e'; subst e'; exact e hm.symm
    rw [upd_other _ _ _ _ this]; exact hci
  · intro i i' hwi hlt' hm
    by_cases e : i' = l
    · subst e; simp
    · rw [upd_other _ _ _ _ e]; exact d.below i i' hwi hlt' hm
  · intro i hi hn
    by_cases e : i - N = l
    · rw [e]; simp
    · rw [upd_other _ _ _ _ e]; exact d.wrap i hi hn

end data

/-! ### program-counter facts are monotone in the shared state -/

theorem PcOk.mono {N : Nat} {s s' : St} {a : Nat} {p : Pc} (hp : PcOk N s a p)
    (hlow : s.low ≤ s'.low) (hhigh : s.high ≤ s'.high)
    (hpushed : ∀ (i x : Nat), s.pushed[i]? = some x → s'.pushed[i]? = some x)
    (hwr : ∀ i, s.written i = true → s'.written i = true)
    (hcl : ∀ i, s.cleared i = true → s'.cleared i = true)
    (hpc1 : ∀ v h, p = .pushClaimed v h → s'.written h = false)
    (hpc2 : ∀ l x, p = .popClaimed l x → s'.cleared l = false) : PcOk N s' a p := by
  cases p with
  | idle => trivial
  | pushCalled v => exact hp
  | pushGotLow v l => obtain ⟨h1, h2, h3⟩ := hp; exact ⟨h1, h2, by omega⟩
  | pushGotHigh v l h => obtain ⟨h1, h2, h3, h4⟩ := hp; exact ⟨h1, h2, by omega, by omega⟩
  | pushReadSlot v l h x =>
    obtain ⟨h1, h2, h3, h4, h5⟩ := hp
    refine ⟨h1, h2, by omega, by omega, ?_⟩
    intro hx hh hl hn
    exact hcl _ (h5 hx (by omega) hl hn)
  | pushClaimed v h =>
    obtain ⟨h1, h2, h3, h4, h5⟩ := hp
    exact ⟨h1, by omega, hpc1 v h rfl, hpushed _ _ h4, fun hn => hcl _ (h5 hn)⟩
  | pushDone r =>
    rcases hp with hp | ⟨hr, h, h1, h2, h3⟩
    · exact Or.inl hp
    · exact Or.inr ⟨hr, h, by omega, hwr _ h2, hpushed _ _ h3⟩
  | popCalled => trivial
  | popGotHigh h => have : h ≤ s.high := hp; show h ≤ s'.high; omega
  | popGotLow h l => obtain ⟨h1, h2⟩ := hp; exact ⟨by omega, by omega⟩
  | popReadSlot h l x =>
    obtain ⟨h1, h2, h3⟩ := hp
    refine ⟨by omega, by omega, ?_⟩
    intro hx hl hlt
    obtain ⟨h4, h5⟩ := h3 hx (by omega) hlt
    exact ⟨hwr _ h4, hpushed _ _ h5⟩
  | popClaimed l x =>
    obtain ⟨h1, h2, h3, h4⟩ := hp
    exact ⟨by omega, hwr _ h2, hpc2 l x rfl, hpushed _ _ h4⟩
  | popDone x =>
    intro hx
    obtain ⟨l, h1, h2, h3⟩ := hp hx
    exact ⟨l, by omega, hcl _ h2, hpushed _ _ h3⟩
  | bpushGotHigh v h => exact hp
  | bpushFull v => exact hp
  | bpopGotHigh h => trivial
  | bpopEmpty => trivial
  | sizeCalled => trivial
  | sizeGotHigh h g => obtain ⟨h1, h2, h3, h4⟩ := hp; exact ⟨by omega, by omega, h3, h4⟩
  | sizeGotBoth h l g h2 =>
    obtain ⟨h1, h2', h3, h4, h5, h6, h7, h8⟩ := hp
    exact ⟨h1, by omega, h3, h4, h5, h6, by omega, h8⟩

/-- `PcOk` only reads `low`, `high`, `pushed`, `written`, `cleared`. -/
theorem PcOk.congr {N : Nat} {s s' : St} {a : Nat} {p : Pc} (hp : PcOk N s a p)
    (hlow : s'.low = s.low) (hhigh : s'.high = s.high) (hpushed : s'.pushed = s.pushed)
    (hwr : s'.written = s.written) (hcl : s'.cleared = s.cleared) : PcOk N s' a p := by
  refine hp.mono (by omega) (by omega) (by rw [hpushed]; exact fun _ _ h => h)
    (by rw [hwr]; exact fun _ h => h) (by rw [hcl]; exact fun _ h => h) ?_ ?_
  · intro v h e; subst e; rw [hwr]; exact hp.2.2.1
  · intro l x e; subst e; rw [hcl]; exact hp.2.2.1

/-! ### preservation: steps that only move one thread's program counter -/

/-- Framing: thread `t` moves from a non-`Claimed` pc to a non-`Claimed` pc `p`; shared cells
    and the data ghosts are unchanged. -/
theorem inv_frame {N : Nat} {s : St} (h : Inv N s) (t : Nat) (p : Pc) (a : Nat → Nat)
    (wr : Nat → Wrap) (ac : List Nat) (w : Nat → Bool)
    (hs1 : ∀ v i, s.pc t ≠ .pushClaimed v i) (hs2 : ∀ l x, s.pc t ≠ .popClaimed l x)
    (hp1 : ∀ v i, p ≠ .pushClaimed v i) (hp2 : ∀ l x, p ≠ .popClaimed l x)
    (harg : ∀ u, u ≠ t → a u = s.arg u)
    (hwr : ∀ u, u ≠ t → wr u = s.wrap u)
    (hact : ∀ u, u ∈ ac ↔ upd s.pc t p u ≠ .idle)
    (hwo : WrapOk (wr t) p)
    (hok : PcOk N s (pvalOf a wr t) p) :
    Inv N { s with pc := upd s.pc t p, wrap := wr, arg := a, active := ac, wit := w } := by
  constructor
  · exact h.data
  · intro u
    by_cases e : u = t
    · subst e; simp only [upd_same]; exact hok.congr rfl rfl rfl rfl rfl
    · simp only [upd_other _ _ _ _ e, pvalOf_other (harg u e) (hwr u e) e]
      exact (h.pcok u).congr rfl rfl rfl rfl rfl
  · intro u u' v v' i h1 h2
    simp only [upd_apply] at h1 h2
    split at h1
    · exact absurd h1 (hp1 _ _)
    · split at h2
      · exact absurd h2 (hp1 _ _)
      · exact h.pushClaimed_inj u u' v v' i h1 h2
  · intro u u' v v' i h1 h2
    simp only [upd_apply] at h1 h2
    split at h1
    · exact absurd h1 (hp2 _ _)
    · split at h2
      · exact absurd h2 (hp2 _ _)
      · exact h.popClaimed_inj u u' v v' i h1 h2
  · intro i hi hw
    obtain ⟨u, v, hu⟩ := h.unwr i hi hw
    have : u ≠ t := by intro e; subst e; exact hs1 _ _ hu
    exact ⟨u, v, by simp only [upd_other _ _ _ _ this]; exact hu⟩
  · intro i hi hw
    obtain ⟨u, v, hu⟩ := h.uncl i hi hw
    have : u ≠ t := by intro e; subst e; exact hs2 _ _ hu
    exact ⟨u, v, by simp only [upd_other _ _ _ _ this]; exact hu⟩
  · exact hact
  · intro u
    show WrapOk (wr u) (upd s.pc t p u)
    by_cases e : u = t
    · subst e; simp only [upd_same]; exact hwo
    · simp only [upd_other _ _ _ _ e, hwr u e]; exact h.wrapok u

/-- the wrapper-frame clause survives any step that keeps `wrap` and moves thread `t` between
    two program counters of the same kind -/
theorem wrapok_upd {N : Nat} {s : St} (h : Inv N s) {t : Nat} {p : Pc}
    (h1 : p.pushing = (s.pc t).pushing) (h2 : p.popping = (s.pc t).popping) :
    ∀ u, WrapOk (s.wrap u) (upd s.pc t p u) := by
  intro u
  by_cases e : u = t
  · subst e; simp only [upd_same]; exact (h.wrapok u).same h1 h2
  · simp only [upd_other _ _ _ _ e]; exact h.wrapok u

/-- `inv_frame` for a step in the middle of a call (`active`, `arg`, `wrap`, `wit` untouched). -/
theorem inv_frame_mid {N : Nat} {s : St} (h : Inv N s) (t : Nat) (p : Pc)
    (hs0 : s.pc t ≠ .idle)
    (hs1 : ∀ v i, s.pc t ≠ .pushClaimed v i) (hs2 : ∀ l x, s.pc t ≠ .popClaimed l x)
    (hp0 : p ≠ .idle)
    (hp1 : ∀ v i, p ≠ .pushClaimed v i) (hp2 : ∀ l x, p ≠ .popClaimed l x)
    (hpp : p.pushing = (s.pc t).pushing) (hpo : p.popping = (s.pc t).popping)
    (hok : PcOk N s (pvalOf s.arg s.wrap t) p) :
    Inv N { s with pc := upd s.pc t p } := by
  refine inv_frame h t p s.arg s.wrap s.active s.wit hs1 hs2 hp1 hp2 (fun _ _ => rfl)
    (fun _ _ => rfl) ?_ ((h.wrapok t).same hpp hpo) hok
  intro u
  by_cases e : u = t
  · subst e; simp [hp0, h.act u, hs0]
  · simp [upd_other _ _ _ _ e, h.act u]

section steps
variable {N : Nat} (hidx : ∀ n, idx N n = n % N)

/-- the side condition of `inv_frame` for a call event -/
theorem act_call {s : St} (h : Inv N s) (t : Nat) {p : Pc} (hp : p ≠ .idle) :
    ∀ u, u ∈ t :: s.active ↔ upd s.pc t p u ≠ .idle := by
  intro u
  by_cases e : u = t
  · subst e; simp [hp]
  · simp [h.act u, e]

/-- the side condition of `inv_frame` for a return event -/
theorem act_ret {s : St} (h : Inv N s) (t : Nat) :
    ∀ u, u ∈ s.active.filter (fun u => u != t) ↔ upd s.pc t .idle u ≠ .idle := by
  intro u
  by_cases e : u = t
  · subst e; simp
  · simp [h.act u, e]

theorem inv_callPush {s s' : St} {t v : Nat} (h : Inv N s)
    (hs : core s (.callPush t v) = some s') : Inv N s' := by
  simp only [core] at hs
  split at hs <;> simp at hs
  subst hs
  rename_i hc
  have hw := h.wrap_idle t hc.1
  refine inv_frame h t _ _ s.wrap _ _ (by simp [hc.1]) (by simp [hc.1]) (by simp) (by simp)
    (fun u e => by simp [upd_other _ _ _ _ e]) (fun _ _ => rfl) (act_call h t (by simp))
    (by rw [hw]; trivial) ?_
  rw [pvalOf_no hw]; simp [PcOk]; exact hc.2

theorem inv_callPop {s s' : St} {t : Nat} (h : Inv N s)
    (hs : core s (.callPop t) = some s') : Inv N s' := by
  simp only [core] at hs
  split at hs <;> simp at hs
  subst hs
  rename_i hc
  refine inv_frame h t _ s.arg s.wrap _ _ (by simp [hc]) (by simp [hc]) (by simp) (by simp)
    (fun u e => rfl) (fun _ _ => rfl) (act_call h t (by simp))
    (by rw [h.wrap_idle t hc]; trivial) (by simp [PcOk])

theorem inv_callBPush {s s' : St} {t v : Nat} (h : Inv N s)
    (hs : core s (.callBPush t v) = some s') : Inv N s' := by
  simp only [core] at hs
  split at hs <;> simp at hs
  subst hs
  rename_i hc
  refine inv_frame h t _ s.arg _ _ _ (by simp [hc.1]) (by simp [hc.1]) (by simp) (by simp)
    (fun u e => rfl) (fun u e => by simp [upd_other _ _ _ _ e]) (act_call h t (by simp))
    ?_ ?_
  · rw [upd_same]; exact ⟨hc.2, rfl⟩
  · rw [pvalOf_push (upd_same _ _ _)]; simp [PcOk]; exact hc.2

theorem inv_callBPop {s s' : St} {t : Nat} (h : Inv N s)
    (hs : core s (.callBPop t) = some s') : Inv N s' := by
  simp only [core] at hs
  split at hs <;> simp at hs
  subst hs
  rename_i hc
  refine inv_frame h t _ s.arg _ _ _ (by simp [hc]) (by simp [hc]) (by simp) (by simp)
    (fun u e => rfl) (fun u e => by simp [upd_other _ _ _ _ e]) (act_call h t (by simp))
    (by rw [upd_same]; rfl) (by simp [PcOk])

theorem inv_callSize {s s' : St} {t : Nat} (h : Inv N s)
    (hs : core s (.callSize t) = some s') : Inv N s' := by
  simp only [core] at hs
  split at hs <;> simp at hs
  subst hs
  rename_i hc
  refine inv_frame h t _ s.arg s.wrap _ _ (by simp [hc]) (by simp [hc]) (by simp) (by simp)
    (fun u e => rfl) (fun _ _ => rfl) (act_call h t (by simp))
    (by rw [h.wrap_idle t hc]; trivial) (by simp [PcOk])

/-- boilerplate for the `inv_frame_mid` side conditions -/
local macro "mid" h:ident t:ident hpc:ident : tactic =>
  `(tactic| refine inv_frame_mid $h $t _ (by simp [$hpc:ident]) (by simp [$hpc:ident])
      (by simp [$hpc:ident]) (by simp) (by simp) (by simp) (by simp [$hpc:ident, Pc.pushing])
      (by simp [$hpc:ident, Pc.popping]) ?_)

theorem inv_ldLow {s s' : St} {t x : Nat} (h : Inv N s)
    (hs : core s (.ldLow t x) = some s') : Inv N s' := by
  simp only [core] at hs
  split at hs
  · split at hs <;> simp at hs
    subst hs
    rename_i v hpc hx
    mid h t hpc
    have hok := h.pcok t; rw [hpc] at hok
    simp only [PcOk] at hok ⊢
    exact ⟨hok.1, hok.2, by omega⟩
  · split at hs <;> simp at hs
    subst hs
    rename_i hh hpc hx
    mid h t hpc
    have hok := h.pcok t; rw [hpc] at hok
    simp only [PcOk] at hok ⊢
    exact ⟨hok, by omega⟩
  · simp at hs

theorem inv_ldHigh {s s' : St} {t x : Nat} (h : Inv N s)
    (hs : core s (.ldHigh t x) = some s') : Inv N s' := by
  simp only [core] at hs
  split at hs
  · split at hs <;> simp at hs
    subst hs
    rename_i v l hpc hx
    mid h t hpc
    have hok := h.pcok t; rw [hpc] at hok
    simp only [PcOk] at hok ⊢
    exact ⟨hok.1, hok.2.1, hok.2.2, by omega⟩
  · split at hs <;> simp at hs
    subst hs
    rename_i hpc hx
    mid h t hpc
    simp only [PcOk]; omega
  · simp at hs

include hidx in
theorem inv_rdBuf {s s' : St} {t i x : Nat} (h : Inv N s)
    (hs : core s (.rdBuf t i x) = some s') : Inv N s' := by
  have d := h.data
  have hsz : s.size = N := d.size_eq
  simp only [core] at hs
  split at hs
  · split at hs <;> simp at hs
    subst hs
    rename_i v l hh hpc hx
    obtain ⟨hi, hx⟩ := hx
    rw [hsz, hidx] at hi
    mid h t hpc
    have hok := h.pcok t; rw [hpc] at hok
    simp only [PcOk] at hok ⊢
    obtain ⟨h1, h2, h3, h4⟩ := hok
    refine ⟨h1, h2, h3, h4, ?_⟩
    intro hx0 hhigh hlt hn
    cases hc : s.cleared (hh - N) with
    | true => rfl
    | false =>
      exfalso
      have hw := d.lt_wr (hh - N) (by omega)
      have hl := d.live _ hw hc
      rw [sub_mod_self hn, ← hi, ← hx, hx0] at hl
      exact d.nz _ _ hl rfl
  · split at hs <;> simp at hs
    subst hs
    rename_i hh l hpc hx
    obtain ⟨hi, hx⟩ := hx
    rw [hsz, hidx] at hi
    mid h t hpc
    have hok := h.pcok t; rw [hpc] at hok
    simp only [PcOk] at hok ⊢
    obtain ⟨h1, h2⟩ := hok
    refine ⟨h1, h2, ?_⟩
    intro hx0 hlow hlt
    rw [hx, hi] at hx0
    obtain ⟨j, hm, hwj, hcj⟩ := d.nonnull _ hx0
    have hjh := d.wr_lt j hwj
    have hhl := d.high_le
    have hjl : j = l := by
      rcases Nat.lt_trichotomy j l with h3 | h3 | h3
      · exfalso
        have := d.below_all (h := l) (fun hn => d.wrap l (by omega) hn) j h3 hm
        simp [this] at hcj
      · exact h3
      · exfalso
        have := mod_gap hm.symm h3
        omega
    subst hjl
    refine ⟨hwj, ?_⟩
    have := d.live _ hwj hcj
    rw [hx, hi]; exact this
  · simp at hs

theorem inv_casHigh {s s' : St} {t found exp des : Nat} {ok : Bool} (h : Inv N s)
    (hs : core s (.casHigh t found exp des ok) = some s') : Inv N s' := by
  have d := h.data
  have hsz : s.size = N := d.size_eq
  simp only [core] at hs
  split at hs
  · rename_i v l hh x hpc
    split at hs
    · rename_i hc
      obtain ⟨hx, hlt, hf, he, hd, hdec⟩ := hc
      rw [hsz] at hlt
      have hok := h.pcok t; rw [hpc] at hok; simp only [PcOk] at hok
      obtain ⟨p1, p2, p3, p4, p5⟩ := hok
      split at hs
      · -- the CAS succeeds
        rename_i hokt
        simp at hs
        subst hs hf he hd
        simp [hokt] at hdec
        subst hdec
        have hcl : N ≤ s.high → s.cleared (s.high - N) = true := fun hn => p5 hx rfl hlt hn
        have hpct : ∀ v i, s.pc t ≠ .pushClaimed v i := by simp [hpc]
        have hpct' : ∀ l x, s.pc t ≠ .popClaimed l x := by simp [hpc]
        constructor
        · exact d.casHigh p1 p3 hlt hcl
        · intro u
          by_cases e : u = t
          · subst e
            simp only [upd_same, PcOk]
            refine ⟨p2, by omega, ?_, ?_, hcl⟩
            · cases hw : s.written s.high with
              | false => rfl
              | true => have := d.wr_lt _ hw; omega
            · rw [← d.len_pushed]; simp
          · simp only [upd_other _ _ _ _ e]
            refine (h.pcok u).mono (Nat.le_refl _) (Nat.le_succ _)
              (fun i x hi => getElem?_append_of_some v hi) (fun _ h => h) (fun _ h => h) ?_ ?_
            · intro v' h' e'; have := h.pcok u; rw [e'] at this; exact this.2.2.1
            · intro l' x' e'; have := h.pcok u; rw [e'] at this; exact this.2.2.1
        · intro u u' v1 v2 i h1 h2
          simp only [upd_apply] at h1 h2
          by_cases e1 : u = t <;> by_cases e2 : u' = t
          · rw [e1, e2]
          · exfalso
            simp only [e1, if_true, Pc.pushClaimed.injEq] at h1
            simp only [e2, if_false] at h2
            have := h.pcok u'; rw [h2] at this
            have := this.2.1; omega
          · exfalso
            simp only [e2, if_true, Pc.pushClaimed.injEq] at h2
            simp only [e1, if_false] at h1
            have := h.pcok u; rw [h1] at this
            have := this.2.1; omega
          · simp only [e1, e2, if_false] at h1 h2
            exact h.pushClaimed_inj u u' v1 v2 i h1 h2
        · intro u u' v1 v2 i h1 h2
          simp only [upd_apply] at h1 h2
          split at h1
          · simp at h1
          · split at h2
            · simp at h2
            · exact h.popClaimed_inj u u' v1 v2 i h1 h2
        · intro i hi hw
          by_cases e : i = s.high
          · subst e; exact ⟨t, v, by simp⟩
          · obtain ⟨u, v', hu⟩ := h.unwr i (by simp at hi; omega) hw
            have : u ≠ t := by intro e; subst e; exact hpct _ _ hu
            exact ⟨u, v', by simp only [upd_other _ _ _ _ this]; exact hu⟩
        · intro i hi hw
          obtain ⟨u, v', hu⟩ := h.uncl i hi hw
          have : u ≠ t := by intro e; subst e; exact hpct' _ _ hu
          exact ⟨u, v', by simp only [upd_other _ _ _ _ this]; exact hu⟩
        · intro u
          by_cases e : u = t
          · subst e; simp [h.act u, hpc]
          · simp [upd_other _ _ _ _ e, h.act u]
        · exact wrapok_upd h (by simp [hpc, Pc.pushing]) (by simp [hpc, Pc.popping])
      · -- the CAS fails
        simp at hs
        subst hs
        mid h t hpc
        simp [PcOk]
    · simp at hs
  · simp at hs

theorem inv_casLow {s s' : St} {t found exp des : Nat} {ok : Bool} (h : Inv N s)
    (hs : core s (.casLow t found exp des ok) = some s') : Inv N s' := by
  have d := h.data
  simp only [core] at hs
  split at hs
  · rename_i hh l x hpc
    split at hs
    · rename_i hc
      obtain ⟨hx, hlt, hf, he, hd, hdec⟩ := hc
      have hok := h.pcok t; rw [hpc] at hok; simp only [PcOk] at hok
      obtain ⟨p1, p2, p3⟩ := hok
      split at hs
      · -- the CAS succeeds
        rename_i hokt
        simp at hs
        subst hs hf he hd
        simp [hokt] at hdec
        subst hdec
        obtain ⟨hw, hpx⟩ := p3 hx rfl hlt
        have hpct : ∀ v i, s.pc t ≠ .pushClaimed v i := by simp [hpc]
        have hpct' : ∀ l x, s.pc t ≠ .popClaimed l x := by simp [hpc]
        constructor
        · exact d.casLow (by omega) hw hpx
        · intro u
          by_cases e : u = t
          · subst e
            simp only [upd_same, PcOk]
            refine ⟨by omega, hw, ?_, hpx⟩
            cases hc : s.cleared s.low with
            | false => rfl
            | true => have := d.cl_lt _ hc; omega
          · simp only [upd_other _ _ _ _ e]
            refine (h.pcok u).mono (Nat.le_succ _) (Nat.le_refl _)
              (fun i x hi => hi) (fun _ h => h) (fun _ h => h) ?_ ?_
            · intro v' h' e'; have := h.pcok u; rw [e'] at this; exact this.2.2.1
            · intro l' x' e'; have := h.pcok u; rw [e'] at this; exact this.2.2.1
        · intro u u' v1 v2 i h1 h2
          simp only [upd_apply] at h1 h2
          split at h1
          · simp at h1
          · split at h2
            · simp at h2
            · exact h.pushClaimed_inj u u' v1 v2 i h1 h2
        · intro u u' v1 v2 i h1 h2
          simp only [upd_apply] at h1 h2
          by_cases e1 : u = t <;> by_cases e2 : u' = t
          · rw [e1, e2]
          · exfalso
            simp only [e1, if_true, Pc.popClaimed.injEq] at h1
            simp only [e2, if_false] at h2
            have := h.pcok u'; rw [h2] at this
            have := this.1; omega
          · exfalso
            simp only [e2, if_true, Pc.popClaimed.injEq] at h2
            simp only [e1, if_false] at h1
            have := h.pcok u; rw [h1] at this
            have := this.1; omega
          · simp only [e1, e2, if_false] at h1 h2
            exact h.popClaimed_inj u u' v1 v2 i h1 h2
        · intro i hi hw'
          obtain ⟨u, v', hu⟩ := h.unwr i hi hw'
          have : u ≠ t := by intro e; subst e; exact hpct _ _ hu
          exact ⟨u, v', by simp only [upd_other _ _ _ _ this]; exact hu⟩
        · intro i hi hc
          by_cases e : i = s.low
          · subst e; exact ⟨t, x, by simp⟩
          · obtain ⟨u, v', hu⟩ := h.uncl i (by simp at hi; omega) hc
            have : u ≠ t := by intro e; subst e; exact hpct' _ _ hu
            exact ⟨u, v', by simp only [upd_other _ _ _ _ this]; exact hu⟩
        · intro u
          by_cases e : u = t
          · subst e; simp [h.act u, hpc]
          · simp [upd_other _ _ _ _ e, h.act u]
        · exact wrapok_upd h (by simp [hpc, Pc.pushing]) (by simp [hpc, Pc.popping])
      · -- the CAS fails
        simp at hs
        subst hs
        mid h t hpc
        simp [PcOk]
    · simp at hs
  · simp at hs

include hidx in
theorem inv_wrBuf {s s' : St} {t i x : Nat} (h : Inv N s)
    (hs : core s (.wrBuf t i x) = some s') : Inv N s' := by
  have d := h.data
  have hsz : s.size = N := d.size_eq
  simp only [core] at hs
  split at hs
  · -- the pusher fills its slot
    rename_i v hh hpc
    split at hs <;> simp at hs
    rename_i hc
    obtain ⟨hi, hx⟩ := hc
    rw [hsz, hidx] at hi
    subst hs hi hx
    have hok := h.pcok t; rw [hpc] at hok; simp only [PcOk] at hok
    obtain ⟨p1, p2, p3, p4, p5⟩ := hok
    have hpct' : ∀ l x, s.pc t ≠ .popClaimed l x := by simp [hpc]
    constructor
    · exact d.wrPush p2 p3 p4 p5
    · intro u
      by_cases e : u = t
      · subst e
        simp only [upd_same, PcOk]
        exact Or.inr ⟨trivial, hh, p2, by simp, by rw [p1]; exact p4⟩
      · simp only [upd_other _ _ _ _ e]
        refine (h.pcok u).mono (Nat.le_refl _) (Nat.le_refl _)
          (fun i x hi => hi) ?_ (fun _ h => h) ?_ ?_
        · intro j hj; simp only [upd_apply]; split <;> simp [hj]
        · intro v' h' e'
          have hu := h.pcok u; rw [e'] at hu
          have hne : h' ≠ hh := by
            intro e''; subst e''; exact e (h.pushClaimed_inj u t v' x h' e' hpc)
          simp only [upd_other _ _ _ _ hne]; exact hu.2.2.1
        · intro l' x' e'; have := h.pcok u; rw [e'] at this; exact this.2.2.1
    · intro u u' v1 v2 j h1 h2
      simp only [upd_apply] at h1 h2
      split at h1
      · simp at h1
      · split at h2
        · simp at h2
        · exact h.pushClaimed_inj u u' v1 v2 j h1 h2
    · intro u u' v1 v2 j h1 h2
      simp only [upd_apply] at h1 h2
      split at h1
      · simp at h1
      · split at h2
        · simp at h2
        · exact h.popClaimed_inj u u' v1 v2 j h1 h2
    · intro j hj hw
      have hne : j ≠ hh := by intro e; subst e; simp at hw
      simp only [upd_other _ _ _ _ hne] at hw
      obtain ⟨u, v', hu⟩ := h.unwr j hj hw
      have : u ≠ t := by
        intro e; subst e; rw [hpc] at hu; simp at hu; exact hne hu.2.symm
      exact ⟨u, v', by simp only [upd_other _ _ _ _ this]; exact hu⟩
    · intro j hj hc
      obtain ⟨u, v', hu⟩ := h.uncl j hj hc
      have : u ≠ t := by intro e; subst e; exact hpct' _ _ hu
      exact ⟨u, v', by simp only [upd_other _ _ _ _ this]; exact hu⟩
    · intro u
      by_cases e : u = t
      · subst e; simp [h.act u, hpc]
      · simp [upd_other _ _ _ _ e, h.act u]
    · exact wrapok_upd h (by simp [hpc, Pc.pushing]) (by simp [hpc, Pc.popping])
  · -- the popper clears its slot
    rename_i l v hpc
    split at hs <;> simp at hs
    rename_i hc
    obtain ⟨hi, hx⟩ := hc
    rw [hsz, hidx] at hi
    subst hs hi hx
    have hok := h.pcok t; rw [hpc] at hok; simp only [PcOk] at hok
    obtain ⟨p1, p2, p3, p4⟩ := hok
    have hpct : ∀ v i, s.pc t ≠ .pushClaimed v i := by simp [hpc]
    constructor
    · exact d.wrPop p1 p2 p3
    · intro u
      by_cases e : u = t
      · subst e
        simp only [upd_same, PcOk]
        intro _
        exact ⟨l, p1, by simp, p4⟩
      · simp only [upd_other _ _ _ _ e]
        refine (h.pcok u).mono (Nat.le_refl _) (Nat.le_refl _)
          (fun i x hi => hi) (fun _ h => h) ?_ ?_ ?_
        · intro j hj; simp only [upd_apply]; split <;> simp [hj]
        · intro v' h' e'; have := h.pcok u; rw [e'] at this; exact this.2.2.1
        · intro l' x' e'
          have hu := h.pcok u; rw [e'] at hu
          have hne : l' ≠ l := by
            intro e''; subst e''; exact e (h.popClaimed_inj u t x' v l' e' hpc)
          simp only [upd_other _ _ _ _ hne]; exact hu.2.2.1
    · intro u u' v1 v2 j h1 h2
      simp only [upd_apply] at h1 h2
      split at h1
      · simp at h1
      · split at h2
        · simp at h2
        · exact h.pushClaimed_inj u u' v1 v2 j h1 h2
    · intro u u' v1 v2 j h1 h2
      simp only [upd_apply] at h1 h2
      split at h1
      · simp at h1
      · split at h2
        · simp at h2
        · exact h.popClaimed_inj u u' v1 v2 j h1 h2
    · intro j hj hw
      obtain ⟨u, v', hu⟩ := h.unwr j hj hw
      have : u ≠ t := by intro e; subst e; exact hpct _ _ hu
      exact ⟨u, v', by simp only [upd_other _ _ _ _ this]; exact hu⟩
    · intro j hj hc
      have hne : j ≠ l := by intro e; subst e; simp at hc
      simp only [upd_other _ _ _ _ hne] at hc
      obtain ⟨u, v', hu⟩ := h.uncl j hj hc
      have : u ≠ t := by
        intro e; subst e; rw [hpc] at hu; simp at hu; exact hne hu.1.symm
      exact ⟨u, v', by simp only [upd_other _ _ _ _ this]; exact hu⟩
    · intro u
      by_cases e : u = t
      · subst e; simp [h.act u, hpc]
      · simp [upd_other _ _ _ _ e, h.act u]
    · exact wrapok_upd h (by simp [hpc, Pc.pushing]) (by simp [hpc, Pc.popping])
  · simp at hs

/-- `inv_frame` for the return of a direct call (no wrapper frame). -/
theorem inv_frame_ret {s : St} (h : Inv N s) (t : Nat)
    (hs1 : ∀ v i, s.pc t ≠ .pushClaimed v i) (hs2 : ∀ l x, s.pc t ≠ .popClaimed l x)
    (hw : s.wrap t = .no) :
    Inv N { s with pc := upd s.pc t .idle, active := s.active.filter (fun u => u != t) } :=
  inv_frame h t .idle s.arg s.wrap _ s.wit hs1 hs2 (by simp) (by simp) (fun _ _ => rfl)
    (fun _ _ => rfl) (act_ret h t) (by rw [hw]; trivial) (by simp [PcOk])

/-- `inv_frame` for the return of a blocking wrapper (its frame is popped). -/
theorem inv_frame_bret {s : St} (h : Inv N s) (t : Nat)
    (hs1 : ∀ v i, s.pc t ≠ .pushClaimed v i) (hs2 : ∀ l x, s.pc t ≠ .popClaimed l x) :
    Inv N { s with pc := upd s.pc t .idle, wrap := upd s.wrap t .no,
                   active := s.active.filter (fun u => u != t) } :=
  inv_frame h t .idle s.arg _ _ s.wit hs1 hs2 (by simp) (by simp) (fun _ _ => rfl)
    (fun u e => by simp [upd_other _ _ _ _ e]) (act_ret h t) (by rw [upd_same]; trivial)
    (by simp [PcOk])

theorem inv_retPush {s s' : St} {t r : Nat} (h : Inv N s)
    (hs : core s (.retPush t r) = some s') : Inv N s' := by
  simp only [core] at hs
  split at hs
  · rename_i hpc
    split at hs <;> simp at hs
    subst hs
    rename_i hc
    exact inv_frame_ret h t (by simp [hpc]) (by simp [hpc]) hc.2
  · rename_i hpc
    split at hs <;> simp at hs
    subst hs
    rename_i hc
    exact inv_frame_ret h t (by simp [hpc]) (by simp [hpc]) hc.2.2
  · simp at hs

theorem inv_retPop {s s' : St} {t x : Nat} (h : Inv N s)
    (hs : core s (.retPop t x) = some s') : Inv N s' := by
  simp only [core] at hs
  split at hs
  · rename_i hpc
    split at hs <;> simp at hs
    subst hs
    rename_i hc
    exact inv_frame_ret h t (by simp [hpc]) (by simp [hpc]) hc.2
  · rename_i hpc
    split at hs <;> simp at hs
    subst hs
    rename_i hc
    exact inv_frame_ret h t (by simp [hpc]) (by simp [hpc]) hc.2.2
  · simp at hs

theorem inv_retBPush {s s' : St} {t r : Nat} (h : Inv N s)
    (hs : core s (.retBPush t r) = some s') : Inv N s' := by
  simp only [core] at hs
  split at hs
  · rename_i hpc
    split at hs <;> simp at hs
    subst hs
    exact inv_frame_bret h t (by simp [hpc]) (by simp [hpc])
  · simp at hs

theorem inv_retBPop {s s' : St} {t x : Nat} (h : Inv N s)
    (hs : core s (.retBPop t x) = some s') : Inv N s' := by
  simp only [core] at hs
  split at hs
  · rename_i hpc
    split at hs <;> simp at hs
    subst hs
    exact inv_frame_bret h t (by simp [hpc]) (by simp [hpc])
  · simp at hs

theorem inv_retSize {s s' : St} {t n : Nat} (h : Inv N s)
    (hs : core s (.retSize t n) = some s') : Inv N s' := by
  simp only [core] at hs
  split at hs
  · rename_i hpc
    split at hs <;> simp at hs
    subst hs
    -- a `size` call has no wrapper frame
    have hw : s.wrap t = .no := by
      have := h.wrapok t; rw [hpc] at this
      exact this.eq_no (by simp [Pc.pushing]) (by simp [Pc.popping])
    exact inv_frame_ret h t (by simp [hpc]) (by simp [hpc]) hw
  · simp at hs

/-- a failed push attempt is at one of two program counters -/
theorem pushFailed_cases {s : St} {t : Nat} (hf : pushFailed s t = true) :
    s.pc t = .pushDone 0 ∨ ∃ v l h x, s.pc t = .pushReadSlot v l h x := by
  unfold pushFailed at hf
  split at hf
  · rename_i r hpc; simp at hf; subst hf; exact Or.inl hpc
  · rename_i v l h x hpc; exact Or.inr ⟨v, l, h, x, hpc⟩
  · cases hf

theorem popFailed_cases {s : St} {t : Nat} (hf : popFailed s t = true) :
    s.pc t = .popDone 0 ∨ ∃ h l y, s.pc t = .popReadSlot h l y := by
  unfold popFailed at hf
  split at hf
  · rename_i r hpc; simp at hf; subst hf; exact Or.inl hpc
  · rename_i h l y hpc; exact Or.inr ⟨h, l, y, hpc⟩
  · cases hf

theorem pushFailed_pc {s : St} {t : Nat} (hf : pushFailed s t = true) :
    s.pc t ≠ .idle ∧ (s.pc t).pushing = true ∧ (s.pc t).popping = false ∧
    (∀ v i, s.pc t ≠ .pushClaimed v i) ∧ (∀ l x, s.pc t ≠ .popClaimed l x) := by
  rcases pushFailed_cases hf with h | ⟨v, l, h', x, h⟩ <;> simp [h, Pc.pushing, Pc.popping]

theorem popFailed_pc {s : St} {t : Nat} (hf : popFailed s t = true) :
    s.pc t ≠ .idle ∧ (s.pc t).pushing = false ∧ (s.pc t).popping = true ∧
    (∀ v i, s.pc t ≠ .pushClaimed v i) ∧ (∀ l x, s.pc t ≠ .popClaimed l x) := by
  rcases popFailed_cases hf with h | ⟨h', l, y, h⟩ <;> simp [h, Pc.pushing, Pc.popping]

theorem inv_wLdHigh {s s' : St} {t x : Nat} (h : Inv N s)
    (hs : core s (.wLdHigh t x) = some s') : Inv N s' := by
  simp only [core] at hs
  split at hs
  · rename_i v hw
    split at hs <;> simp at hs
    subst hs
    rename_i hc
    obtain ⟨p0, p3, p4, p1, p2⟩ := pushFailed_pc hc.1
    refine inv_frame_mid h t _ p0 p1 p2 (by simp) (by simp) (by simp) (by rw [p3]; rfl)
      (by rw [p4]; rfl) ?_
    simp only [PcOk]
    exact ⟨h.wrap_push t v hw, pvalOf_push hw⟩
  · rename_i hw
    split at hs <;> simp at hs
    subst hs
    rename_i hc
    obtain ⟨p0, p3, p4, p1, p2⟩ := popFailed_pc hc.1
    exact inv_frame_mid h t _ p0 p1 p2 (by simp) (by simp) (by simp) (by rw [p3]; rfl)
      (by rw [p4]; rfl) (by simp [PcOk])
  · rename_i hw
    split at hs <;> simp at hs
    subst hs
    rename_i hc
    obtain ⟨hpc, hx⟩ := hc
    mid h t hpc
    have d := h.data
    simp only [PcOk]
    exact ⟨Nat.le_refl _, by omega, by subst hx; exact d.low_le, by subst hx; exact d.high_le⟩

theorem inv_wLdLow {s s' : St} {t x : Nat} (h : Inv N s)
    (hs : core s (.wLdLow t x) = some s') : Inv N s' := by
  simp only [core] at hs
  split at hs
  · rename_i v hh hpc
    have hok := h.pcok t; rw [hpc] at hok; simp only [PcOk] at hok
    split at hs
    · split at hs <;> simp at hs <;> subst hs
      · mid h t hpc
        simp only [PcOk]; exact hok
      · mid h t hpc
        simp only [PcOk]; exact hok
    · simp at hs
  · rename_i hh hpc
    split at hs
    · split at hs <;> simp at hs <;> subst hs
      · mid h t hpc
        simp [PcOk]
      · mid h t hpc
        simp [PcOk]
    · simp at hs
  · rename_i hh g hpc
    have hok := h.pcok t; rw [hpc] at hok; simp only [PcOk] at hok
    split at hs <;> simp at hs
    subst hs
    rename_i hx
    mid h t hpc
    have d := h.data
    have := d.low_le
    simp only [PcOk]
    subst hx
    exact ⟨hok.1, Nat.le_refl _, hok.2.2.1, hok.2.2.2, hok.2.1, d.low_le, Nat.le_refl _, d.high_le⟩
  · simp at hs

theorem inv_relax {s s' : St} {t : Nat} (h : Inv N s)
    (hs : core s (.relax t) = some s') : Inv N s' := by
  simp only [core] at hs
  split at hs
  · rename_i v hpc
    have hok := h.pcok t; rw [hpc] at hok; simp only [PcOk] at hok
    simp at hs; subst hs
    mid h t hpc
    simp only [PcOk]; exact hok
  · rename_i hpc
    simp at hs; subst hs
    mid h t hpc
    simp [PcOk]
  · simp at hs

include hidx in
theorem inv_core {s s' : St} {e : Ev} (h : Inv N s) (hs : core s e = some s') : Inv N s' := by
  cases e with
  | callPush t v => exact inv_callPush h hs
  | retPush t r => exact inv_retPush h hs
  | callPop t => exact inv_callPop h hs
  | retPop t x => exact inv_retPop h hs
  | ldLow t x => exact inv_ldLow h hs
  | ldHigh t x => exact inv_ldHigh h hs
  | rdBuf t i x => exact inv_rdBuf hidx h hs
  | wrBuf t i x => exact inv_wrBuf hidx h hs
  | casHigh t f e d ok => exact inv_casHigh h hs
  | casLow t f e d ok => exact inv_casLow h hs
  | callBPush t v => exact inv_callBPush h hs
  | retBPush t r => exact inv_retBPush h hs
  | callBPop t => exact inv_callBPop h hs
  | retBPop t x => exact inv_retBPop h hs
  | callSize t => exact inv_callSize h hs
  | retSize t n => exact inv_retSize h hs
  | wLdHigh t x => exact inv_wLdHigh h hs
  | wLdLow t x => exact inv_wLdLow h hs
  | relax t => exact inv_relax h hs

theorem inv_observe {s : St} (h : Inv N s) : Inv N (observe s) :=
  ⟨h.data, fun t => (h.pcok t).congr rfl rfl rfl rfl rfl, h.pushClaimed_inj, h.popClaimed_inj,
    h.unwr, h.uncl, h.act, h.wrapok⟩

include hidx in
theorem inv_step {s s' : St} {e : Ev} (h : Inv N s) (hs : step s e = some s') : Inv N s' := by
  simp only [step, Option.map_eq_some_iff] at hs
  obtain ⟨s1, h1, rfl⟩ := hs
  exact inv_observe (inv_core hidx h h1)

end steps

theorem inv_of_reachable {k : Nat} {s : St} (hr : (sys (2 ^ k)).Reachable s) : Inv (2 ^ k) s :=
  Sys.inv_of_step (sys (2 ^ k)) (Inv (2 ^ k)) (inv_init _)
    (fun _ _ _ hi hs => inv_step (idx_two_pow k) hi hs) hr

/-! ### consequences used by `Props/C16.lean` -/

section consequences
variable {N : Nat} {s : St}

theorem Inv.popped_len (h : Inv N s) : s.popped.length = s.low := by
  have d := h.data
  rw [d.popped_eq, List.length_take, d.len_pushed]
  exact Nat.min_eq_left d.low_le

theorem Inv.popped_getElem (h : Inv N s) {l x : Nat} (hl : l < s.low)
    (hx : s.pushed[l]? = some x) : s.popped[l]? = some x := by
  rw [h.data.popped_eq, List.getElem?_take]; simp [hl, hx]

theorem Inv.nz_mem (h : Inv N s) : ∀ v ∈ s.pushed, v ≠ 0 := by
  intro v hv
  obtain ⟨i, hi, hiv⟩ := List.getElem_of_mem hv
  exact h.data.nz i v (by rw [List.getElem?_eq_getElem hi, hiv])

theorem Inv.never_overwrite (h : Inv N s) {t v i : Nat} (hpc : s.pc t = .pushClaimed v i) :
    s.buf (i % N) = 0 := by
  have hok := h.pcok t; rw [hpc] at hok
  exact h.data.slot_null hok.2.2.1 hok.2.2.2.2

/-- shape of the occupied region `[low, high)` -/
theorem Inv.slot_shape (h : Inv N s) {i : Nat} (hlo : s.low ≤ i) (_hhi : i < s.high) :
    (s.written i = true → s.pushed[i]? = some (s.buf (i % N))) ∧
    (s.written i = false →
      ∃ t v, s.pc t = .pushClaimed v i ∧ s.pushed[i]? = some v ∧ s.buf (i % N) = 0) := by
  have d := h.data
  constructor
  · intro hw
    refine d.live i hw ?_
    cases hc : s.cleared i with
    | false => rfl
    | true => have := d.cl_lt i hc; omega
  · intro hw
    obtain ⟨t, v, ht⟩ := h.unwr i _hhi hw
    have hok := h.pcok t; rw [ht] at hok
    exact ⟨t, v, ht, hok.2.2.2.1, h.never_overwrite ht⟩

/-- shape of the free region `[high, low + N)`: NULL, or the stale value of the previous lap
    whose popper has claimed it but not yet cleared it -/
theorem Inv.slot_free (h : Inv N s) {i : Nat} (hlo : s.high ≤ i) (hhi : i < s.low + N) :
    s.buf (i % N) = 0 ∨
    (N ≤ i ∧ ∃ t x, s.pc t = .popClaimed (i - N) x ∧ s.buf (i % N) = x) := by
  have d := h.data
  by_cases hb : s.buf (i % N) = 0
  · exact Or.inl hb
  · right
    obtain ⟨j, hm, hw, hc⟩ := d.nonnull _ hb
    have hj := d.wr_lt j hw
    have hll := d.low_le
    have hg := mod_gap hm (by omega : j < i)
    have hji : j = i - N := by
      by_cases e : j = i - N
      · exact e
      · exfalso
        have hm' : j % N = (j + N) % N := by rw [Nat.add_mod_right]
        have hg2 := mod_gap (a := j + N) (b := i) (by rw [← hm', hm]) (by omega)
        have hw2 := d.lt_wr (j + N) (by omega)
        have := d.below (j + N) j hw2 (by omega) hm'
        simp [this] at hc
    subst hji
    refine ⟨by omega, ?_⟩
    obtain ⟨t, x, ht⟩ := h.uncl (i - N) (by omega) hc
    have hok := h.pcok t; rw [ht] at hok
    have hl := d.live _ hw hc
    rw [hm, hok.2.2.2] at hl
    exact ⟨t, x, ht, (Option.some.inj hl).symm⟩

/-- ghost-free reading of `justNow` -/
theorem Inv.justNow_elim (h : Inv N s) {t : Nat} (hj : justNow s t = true) :
    (∃ u, u ≠ t ∧ s.pc u ≠ .idle) ∨
    ((s.pc t).pushing = true ∧ s.high = s.low + s.size) ∨
    ((s.pc t).popping = true ∧ s.high = s.low) := by
  have d := h.data
  simp only [justNow, Bool.or_eq_true, Bool.and_eq_true, List.any_eq_true, decide_eq_true_eq] at hj
  rcases hj with (⟨u, hu, hne⟩ | ⟨hp, hf⟩) | ⟨hp, he⟩
  · exact Or.inl ⟨u, by simpa using hne, (h.act u).mp hu⟩
  · right; left
    have := d.high_le; have := d.size_eq; have := d.low_le
    exact ⟨hp, by omega⟩
  · right; right
    have := d.low_le
    exact ⟨hp, by omega⟩

end consequences

/-! ### the per-call ghost flag `wit` (failure justification)

`wit t` accumulates `justNow · t` over every instant of thread `t`'s current call.  While it
is still `false` nothing else has happened during the call: every other thread is idle, the
buffer is neither full (push) nor empty (pop), and everything `t` has read is still current.
A call in that situation cannot fail. -/

def Ev.tid : Ev → Nat
  | .callPush t _ | .retPush t _ | .callPop t | .retPop t _ | .ldLow t _ | .ldHigh t _
  | .rdBuf t _ _ | .wrBuf t _ _ | .casHigh t _ _ _ _ | .casLow t _ _ _ _
  | .callBPush t _ | .retBPush t _ | .callBPop t | .retBPop t _ | .callSize t | .retSize t _
  | .wLdHigh t _ | .wLdLow t _ | .relax t => t

/-- what an *unjustified* (`wit = false`) thread knows: its observations are current -/
def WOk (s : St) : Pc → Prop
  | .pushGotLow _ l => l = s.low
  | .pushGotHigh _ l h => l = s.low ∧ h = s.high
  | .pushReadSlot _ l h x => l = s.low ∧ h = s.high ∧ x = 0
  | .pushDone r => r = 1
  | .popGotHigh h => h = s.high
  | .popGotLow h l => h = s.high ∧ l = s.low
  | .popReadSlot h l x => h = s.high ∧ l = s.low ∧ x ≠ 0
  | .popDone x => x ≠ 0
  | _ => True

structure WInv (s : St) : Prop where
  just : ∀ t, s.wit t = false → justNow s t = false
  obs : ∀ t, s.wit t = false → WOk s (s.pc t)

theorem winv_init (N : Nat) : WInv (init N) := by
  constructor <;> simp [init, justNow, WOk, Pc.pushing, Pc.popping]

theorem justNow_false {s : St} {t : Nat} (hj : justNow s t = false) :
    (∀ u ∈ s.active, u = t) ∧ ((s.pc t).pushing = true → s.high - s.low < s.size) ∧
    ((s.pc t).popping = true → s.low < s.high) := by
  simp only [justNow, Bool.or_eq_false_iff, Bool.and_eq_false_iff, List.any_eq_false,
    decide_eq_false_iff_not] at hj
  obtain ⟨⟨h1, h2⟩, h3⟩ := hj
  refine ⟨?_, ?_, ?_⟩
  · intro u hu; have := h1 u hu; simpa using this
  · intro hp; rcases h2 with h2 | h2
    · simp [hp] at h2
    · omega
  · intro hp; rcases h3 with h3 | h3
    · simp [hp] at h3
    · omega

/-- closes the side goals about the pc of a thread whose attempt has failed (`wLdHigh`) -/
local macro "failed_pc" : tactic =>
  `(tactic| (rename_i hc; first
      | (rcases pushFailed_cases hc.1 with hp | ⟨_, _, _, _, hp⟩ <;> simp [hp, Pc.pushing, Pc.popping])
      | (rcases popFailed_cases hc.1 with hp | ⟨_, _, _, hp⟩ <;> simp [hp, Pc.pushing, Pc.popping])))

set_option linter.unusedSimpArgs false in
theorem core_other {N : Nat} {s s1 : St} {e : Ev} (h : Inv N s) (hs : core s e = some s1)
    (t : Nat) (ht : t ≠ e.tid) :
    s1.pc t = s.pc t ∧ s1.wit t = s.wit t ∧ (e.tid ∈ s.active ∨ e.tid ∈ s1.active) := by
  cases e <;> simp only [core] at hs <;> (repeat' split at hs) <;> simp at hs <;> subst hs <;>
    simp only [Ev.tid] at ht <;> simp [Ev.tid, upd_other _ _ _ _ ht, h.act, *] <;> failed_pc

theorem others_idle {N : Nat} {s : St} {t : Nat} (h : Inv N s) (ha : ∀ u ∈ s.active, u = t) :
    ∀ u, u ≠ t → s.pc u = .idle := by
  intro u hu
  cases hp : s.pc u with
  | idle => rfl
  | _ => exact absurd (ha u ((h.act u).mpr (by simp [hp]))) hu

section wsteps
variable {N : Nat} (hidx : ∀ n, idx N n = n % N)

/-- a pusher that nothing has disturbed reads NULL from its slot -/
theorem wok_rdBuf_push {s : St} {t v l : Nat} (h : Inv N s) (hpc : s.pc t = .pushGotHigh v l s.high)
    (ha : ∀ u ∈ s.active, u = t) (hnf : s.high - s.low < N) : s.buf (s.high % N) = 0 := by
  have d := h.data
  cases hb : s.buf (s.high % N) with
  | zero => rfl
  | succ b =>
    exfalso
    obtain ⟨i, hm, hw, hc⟩ := d.nonnull (s.high % N) (by omega)
    have hi := d.wr_lt i hw
    by_cases hlow : i < s.low
    · obtain ⟨u, x, hu⟩ := h.uncl i hlow hc
      have hut : u ≠ t := by intro e; subst e; rw [hpc] at hu; simp at hu
      have := others_idle h ha u hut
      rw [this] at hu; simp at hu
    · have := mod_gap hm hi
      omega

/-- a popper that nothing has disturbed reads a non-NULL value from its slot -/
theorem wok_rdBuf_pop {s : St} {t : Nat} (h : Inv N s) (hpc : s.pc t = .popGotLow s.high s.low)
    (ha : ∀ u ∈ s.active, u = t) (hne : s.low < s.high) : s.buf (s.low % N) ≠ 0 := by
  have d := h.data
  have hw : s.written s.low = true := by
    cases hw : s.written s.low with
    | true => rfl
    | false =>
      exfalso
      obtain ⟨u, x, hu⟩ := h.unwr _ hne hw
      have hut : u ≠ t := by intro e; subst e; rw [hpc] at hu; simp at hu
      have := others_idle h ha u hut
      rw [this] at hu; simp at hu
  have hc : s.cleared s.low = false := by
    cases hc : s.cleared s.low with
    | false => rfl
    | true => have := d.cl_lt _ hc; omega
  exact d.nz _ _ (d.live _ hw hc)

include hidx in
/-- the acting thread: if it is still unjustified after its step, what it knows is current -/
theorem wok_core {s s1 : St} {e : Ev} (h : Inv N s) (W : WInv s) (hs : core s e = some s1)
    (hw : s1.wit e.tid = false) (hj : justNow s1 e.tid = false) : WOk s1 (s1.pc e.tid) := by
  have d := h.data
  have hsz : s.size = N := d.size_eq
  obtain ⟨ha, hfull, hempty⟩ := justNow_false hj
  cases e with
  | callPush t v =>
    simp only [core] at hs; split at hs <;> simp at hs
    subst hs; simp [Ev.tid, WOk]
  | callPop t =>
    simp only [core] at hs; split at hs <;> simp at hs
    subst hs; simp [Ev.tid, WOk]
  | retPush t r =>
    simp only [core] at hs
    split at hs <;> (try split at hs) <;> simp at hs <;> (subst hs; simp [Ev.tid, WOk])
  | retPop t r =>
    simp only [core] at hs
    split at hs <;> (try split at hs) <;> simp at hs <;> (subst hs; simp [Ev.tid, WOk])
  | ldLow t x =>
    simp only [core] at hs
    split at hs
    · split at hs <;> simp at hs
      subst hs; simp [Ev.tid, WOk]; assumption
    · rename_i hh hpc
      split at hs <;> simp at hs
      subst hs
      have := W.obs t hw; rw [hpc] at this
      simp [Ev.tid, WOk] at this ⊢; exact ⟨this, by assumption⟩
    · simp at hs
  | ldHigh t x =>
    simp only [core] at hs
    split at hs
    · rename_i v l hpc
      split at hs <;> simp at hs
      subst hs
      have := W.obs t hw; rw [hpc] at this
      simp [Ev.tid, WOk] at this ⊢; exact ⟨this, by assumption⟩
    · split at hs <;> simp at hs
      subst hs; simp [Ev.tid, WOk]; assumption
    · simp at hs
  | rdBuf t i x =>
    simp only [core] at hs
    split at hs
    · rename_i v l hh hpc
      split at hs <;> simp at hs
      rename_i hc
      obtain ⟨hi, hx⟩ := hc
      rw [hsz, hidx] at hi
      subst hs
      have ho := W.obs t hw; rw [hpc] at ho
      simp only [Ev.tid, WOk] at ho ⊢
      obtain ⟨o1, o2⟩ := ho
      subst o1 o2
      simp only [Ev.tid, upd_same, Pc.pushing] at hfull
      simp only [upd_same]
      refine ⟨trivial, trivial, ?_⟩
      rw [hx, hi]
      refine wok_rdBuf_push h hpc ?_ (by have := hfull trivial; omega)
      exact ha
    · rename_i hh l hpc
      split at hs <;> simp at hs
      rename_i hc
      obtain ⟨hi, hx⟩ := hc
      rw [hsz, hidx] at hi
      subst hs
      have ho := W.obs t hw; rw [hpc] at ho
      simp only [Ev.tid, WOk] at ho ⊢
      obtain ⟨o1, o2⟩ := ho
      subst o1 o2
      simp only [Ev.tid, upd_same, Pc.popping] at hempty
      simp only [upd_same]
      refine ⟨trivial, trivial, ?_⟩
      rw [hx, hi]
      exact wok_rdBuf_pop h hpc ha (hempty trivial)
    · simp at hs
  | wrBuf t i x =>
    simp only [core] at hs
    split at hs
    · split at hs <;> simp at hs
      subst hs; simp [Ev.tid, WOk]
    · rename_i l v hpc
      split at hs <;> simp at hs
      subst hs
      have hok := h.pcok t; rw [hpc] at hok
      simp only [Ev.tid, WOk, upd_same]
      exact d.nz _ _ hok.2.2.2
    · simp at hs
  | casHigh t f ex de ok =>
    simp only [core] at hs
    split at hs
    · rename_i v l hh x hpc
      split at hs
      · rename_i hc
        split at hs
        · simp at hs; subst hs; simp [Ev.tid, WOk]
        · rename_i hnok
          simp at hs; subst hs
          exfalso
          have ho := W.obs t hw; rw [hpc] at ho
          simp only [WOk] at ho
          obtain ⟨_, _, hf, he, _, hdec⟩ := hc
          apply hnok
          rw [hdec, hf, he]; simp [ho.2.1]
      · simp at hs
    · simp at hs
  | casLow t f ex de ok =>
    simp only [core] at hs
    split at hs
    · rename_i hh l x hpc
      split at hs
      · rename_i hc
        split at hs
        · simp at hs; subst hs; simp [Ev.tid, WOk]
        · rename_i hnok
          simp at hs; subst hs
          exfalso
          have ho := W.obs t hw; rw [hpc] at ho
          simp only [WOk] at ho
          obtain ⟨_, _, hf, he, _, hdec⟩ := hc
          apply hnok
          rw [hdec, hf, he]; simp [ho.2.1]
      · simp at hs
    · simp at hs

  | callBPush t v =>
    simp only [core] at hs; split at hs <;> simp at hs
    subst hs; simp [Ev.tid, WOk]
  | callBPop t =>
    simp only [core] at hs; split at hs <;> simp at hs
    subst hs; simp [Ev.tid, WOk]
  | callSize t =>
    simp only [core] at hs; split at hs <;> simp at hs
    subst hs; simp [Ev.tid, WOk]
  | retBPush t r =>
    simp only [core] at hs
    split at hs <;> (try split at hs) <;> simp at hs <;> (subst hs; simp [Ev.tid, WOk])
  | retBPop t r =>
    simp only [core] at hs
    split at hs <;> (try split at hs) <;> simp at hs <;> (subst hs; simp [Ev.tid, WOk])
  | retSize t r =>
    simp only [core] at hs
    split at hs <;> (try split at hs) <;> simp at hs <;> (subst hs; simp [Ev.tid, WOk])
  | wLdHigh t x =>
    simp only [core] at hs
    split at hs <;> split at hs <;> simp at hs <;> (subst hs; simp [Ev.tid, WOk])
  | wLdLow t x =>
    simp only [core] at hs
    (repeat' split at hs) <;> simp at hs <;> (subst hs; simp [Ev.tid, WOk])
  | relax t =>
    simp only [core] at hs
    split at hs <;> simp at hs <;> (subst hs; simp [Ev.tid, WOk])

include hidx in
theorem winv_step {s s' : St} {e : Ev} (h : Inv N s) (W : WInv s) (hs : step s e = some s') :
    WInv s' := by
  simp only [step, Option.map_eq_some_iff] at hs
  obtain ⟨s1, h1, rfl⟩ := hs
  have split : ∀ t, (observe s1).wit t = false → s1.wit t = false ∧ justNow s1 t = false := by
    intro t hw; simpa [observe] using hw
  constructor
  · intro t hw
    exact (split t hw).2
  · intro t hw
    obtain ⟨hw1, hj1⟩ := split t hw
    show WOk s1 (s1.pc t)
    by_cases e' : t = e.tid
    · subst e'; exact wok_core hidx h W h1 hw1 hj1
    · exfalso
      obtain ⟨_, hwt, hact⟩ := core_other h h1 t e'
      rw [hwt] at hw1
      have hj0 := W.just t hw1
      rcases hact with ha | ha
      · exact e' ((justNow_false hj0).1 _ ha).symm
      · exact e' ((justNow_false hj1).1 _ ha).symm

/-- a `trypush` that returns 0 is justified -/
theorem fail_push {s s' : St} {t : Nat} (W : WInv s)
    (hs : step s (.retPush t 0) = some s') : s.wit t = true := by
  simp only [step, Option.map_eq_some_iff] at hs
  obtain ⟨s1, hs, -⟩ := hs
  cases hw : s.wit t with
  | true => rfl
  | false =>
    exfalso
    have ho := W.obs t hw
    obtain ⟨_, hfull, _⟩ := justNow_false (W.just t hw)
    simp only [core] at hs
    split at hs
    · rename_i r' hpc
      rw [hpc] at ho; simp only [WOk] at ho
      split at hs <;> simp at hs
      omega
    · rename_i v l hh x hpc
      rw [hpc] at ho hfull; simp only [WOk] at ho
      have := hfull rfl
      split at hs <;> simp at hs
      rename_i hc
      obtain ⟨o1, o2, o3⟩ := ho
      subst o1 o2 o3
      rcases hc.1 with hc | hc
      · exact hc rfl
      · omega
    · simp at hs

/-- a `trypop` that returns NULL is justified -/
theorem fail_pop {s s' : St} {t : Nat} (W : WInv s)
    (hs : step s (.retPop t 0) = some s') : s.wit t = true := by
  simp only [step, Option.map_eq_some_iff] at hs
  obtain ⟨s1, hs, -⟩ := hs
  cases hw : s.wit t with
  | true => rfl
  | false =>
    exfalso
    have ho := W.obs t hw
    obtain ⟨_, _, hempty⟩ := justNow_false (W.just t hw)
    simp only [core] at hs
    split at hs
    · rename_i r' hpc
      rw [hpc] at ho; simp only [WOk] at ho
      split at hs
      · rename_i hc; exact ho hc.1.symm
      · simp at hs
    · rename_i hh l x hpc
      rw [hpc] at ho hempty; simp only [WOk] at ho
      have := hempty rfl
      split at hs <;> simp at hs
      rename_i hc
      obtain ⟨o1, o2, o3⟩ := ho
      subst o1 o2
      rcases hc.1 with hc | hc
      · exact o3 hc
      · omega
    · simp at hs

/-- a failed push attempt (also one made on behalf of a blocking push) is justified -/
theorem fail_attempt_push {s : St} {t : Nat} (W : WInv s) (hf : pushFailed s t = true) :
    s.wit t = true := by
  cases hw : s.wit t with
  | true => rfl
  | false =>
    exfalso
    have ho := W.obs t hw
    obtain ⟨_, hfull, _⟩ := justNow_false (W.just t hw)
    unfold pushFailed at hf
    split at hf
    · rename_i r hpc
      rw [hpc] at ho; simp only [WOk] at ho
      subst ho; simp at hf
    · rename_i v l hh x hpc
      rw [hpc] at ho hfull; simp only [WOk] at ho
      have := hfull rfl
      obtain ⟨o1, o2, o3⟩ := ho
      subst o1 o2 o3
      simp at hf; omega
    · cases hf

/-- a failed pop attempt (also one made on behalf of a blocking pop) is justified -/
theorem fail_attempt_pop {s : St} {t : Nat} (W : WInv s) (hf : popFailed s t = true) :
    s.wit t = true := by
  cases hw : s.wit t with
  | true => rfl
  | false =>
    exfalso
    have ho := W.obs t hw
    obtain ⟨_, _, hempty⟩ := justNow_false (W.just t hw)
    unfold popFailed at hf
    split at hf
    · rename_i r hpc
      rw [hpc] at ho; simp only [WOk] at ho
      simp at hf; exact ho hf
    · rename_i hh l x hpc
      rw [hpc] at ho hempty; simp only [WOk] at ho
      have := hempty rfl
      obtain ⟨o1, o2, o3⟩ := ho
      subst o1 o2
      simp at hf
      rcases hf with hf | hf
      · exact o3 hf
      · omega
    · cases hf

end wsteps

/-! ### what the flag means: `wit t` is set only if `justNow · t` held at an instant of the
current call of `t` (trace-level statement, no ghost state in the conclusion) -/

/-- `e` is the `call` or `ret` event of thread `t` -/
def Ev.boundaryOf (e : Ev) (t : Nat) : Bool :=
  match e with
  | .callPush u _ | .retPush u _ | .callPop u | .retPop u _
  | .callBPush u _ | .retBPush u _ | .callBPop u | .retBPop u _ | .callSize u | .retSize u _ => u == t
  | _ => false

theorem boundaryOf_other {e : Ev} {t : Nat} (ht : t ≠ e.tid) : e.boundaryOf t = false := by
  cases e <;> simp only [Ev.tid] at ht <;> simp [Ev.boundaryOf] <;> exact fun h => ht h.symm

set_option linter.unusedSimpArgs false in
theorem core_other' {s s1 : St} {e : Ev} (hs : core s e = some s1) (t : Nat) (ht : t ≠ e.tid) :
    s1.pc t = s.pc t ∧ s1.wit t = s.wit t := by
  cases e <;> simp only [core] at hs <;> (repeat' split at hs) <;> simp at hs <;> subst hs <;>
    simp only [Ev.tid] at ht <;> simp [upd_other _ _ _ _ ht]

set_option linter.unusedSimpArgs false in
theorem core_self {s s1 : St} {e : Ev} (hs : core s e = some s1) :
    (e.boundaryOf e.tid = true → s1.wit e.tid = false ∨ s1.pc e.tid = .idle) ∧
    (e.boundaryOf e.tid = false → s1.wit e.tid = s.wit e.tid ∧ s.pc e.tid ≠ .idle ∧
      (s1.pc e.tid).pushing = (s.pc e.tid).pushing ∧
      (s1.pc e.tid).popping = (s.pc e.tid).popping) := by
  cases e <;> simp only [core] at hs <;> (repeat' split at hs) <;> simp at hs <;> subst hs <;>
    simp [Ev.tid, Ev.boundaryOf, Pc.pushing, Pc.popping, *] <;> failed_pc

theorem core_boundary {s s1 : St} {e : Ev} (hs : core s e = some s1) (t : Nat) :
    (e.boundaryOf t = true → s1.wit t = false ∨ s1.pc t = .idle) ∧
    (e.boundaryOf t = false → s1.wit t = s.wit t ∧ (s.pc t = .idle → s1.pc t = .idle) ∧
      (s1.pc t).pushing = (s.pc t).pushing ∧ (s1.pc t).popping = (s.pc t).popping) := by
  by_cases ht : t = e.tid
  · subst ht
    obtain ⟨h1, h2⟩ := core_self hs
    exact ⟨h1, fun hb => ⟨(h2 hb).1, fun h => absurd h (h2 hb).2.1, (h2 hb).2.2⟩⟩
  · obtain ⟨h1, h2⟩ := core_other' hs t ht
    refine ⟨fun hb => ?_, fun _ => ⟨h2, fun h => h1.symm ▸ h, by rw [h1], by rw [h1]⟩⟩
    rw [boundaryOf_other ht] at hb; cases hb

/-- History invariant: a set flag of a thread inside a call points at an instant of that call
    (a prefix `es1` of the trace after which `justNow · t` held, with no `call`/`ret` of `t`
    since). -/
def WitHist (M : Sys St Ev) (s : St) (es : List Ev) : Prop :=
  M.run es = some s ∧
  ∀ t, s.pc t ≠ .idle → s.wit t = true →
    ∃ es1 es2 s1, es = es1 ++ es2 ∧ M.run es1 = some s1 ∧ justNow s1 t = true ∧
      s1.pc t ≠ .idle ∧ (s1.pc t).pushing = (s.pc t).pushing ∧
      (s1.pc t).popping = (s.pc t).popping ∧
      ∀ e ∈ es2, e.boundaryOf t = false

theorem witHist_of_run {n : Nat} {es : List Ev} {s : St} (h : (sys n).run es = some s) :
    WitHist (sys n) s es := by
  refine Sys.hist_inv_of_run (sys n) (WitHist (sys n)) ⟨rfl, ?_⟩ ?_ h
  · intro t ht; exact absurd rfl ht
  · intro s es e s' ⟨hrun, hI⟩ hstep
    have hrun' : (sys n).run (es ++ [e]) = some s' := by
      simp only [Sys.run] at hrun
      simp [Sys.run, Sys.runFrom_append, hrun, Sys.runFrom, hstep]
    refine ⟨hrun', ?_⟩
    intro t hpc hw
    have hstep' : step s e = some s' := hstep
    simp only [step, Option.map_eq_some_iff] at hstep'
    obtain ⟨s1, hcore, rfl⟩ := hstep'
    have hpc1 : s1.pc t ≠ .idle := hpc
    have hw1 : (s1.wit t || justNow s1 t) = true := hw
    cases hj : justNow s1 t with
    | true =>
      exact ⟨es ++ [e], [], observe s1, by simp, hrun', hj, hpc, rfl, rfl, by simp⟩
    | false =>
      rw [hj, Bool.or_false] at hw1
      obtain ⟨hb1, hb2⟩ := core_boundary hcore t
      cases hb : e.boundaryOf t with
      | true =>
        rcases hb1 hb with h' | h'
        · rw [h'] at hw1; cases hw1
        · exact absurd h' hpc1
      | false =>
        obtain ⟨e1, e2, e3, e4⟩ := hb2 hb
        obtain ⟨es1, es2, s0, q1, q2, q3, q4, q5, q5', q6⟩ :=
          hI t (fun h' => hpc1 (e2 h')) (by rw [← e1]; exact hw1)
        refine ⟨es1, es2 ++ [e], s0, by rw [q1, List.append_assoc], q2, q3, q4, ?_, ?_, ?_⟩
        · rw [q5]; exact e3.symm
        · rw [q5']; exact e4.symm
        · intro e' he'
          rcases List.mem_append.mp he' with h' | h'
          · exact q6 e' h'
          · simp at h'; subst h'; exact hb

theorem winv_of_reachable {k : Nat} {s : St} (hr : (sys (2 ^ k)).Reachable s) :
    Inv (2 ^ k) s ∧ WInv s :=
  Sys.inv_of_step (sys (2 ^ k)) (fun s => Inv (2 ^ k) s ∧ WInv s) ⟨inv_init _, winv_init _⟩
    (fun _ _ _ hi hs => ⟨inv_step (idx_two_pow k) hi.1 hs, winv_step (idx_two_pow k) hi.1 hi.2 hs⟩) hr

theorem inv_of_run {k : Nat} {es : List Ev} {s : St} (h : (sys (2 ^ k)).run es = some s) :
    Inv (2 ^ k) s ∧ WInv s :=
  winv_of_reachable (Sys.reachable_of_run _ h)

/-! ### which program counters accept the write / return events -/

theorem step_wrBuf_push {s s' : St} {t j x v i : Nat} (hs : step s (.wrBuf t j x) = some s')
    (hpc : s.pc t = .pushClaimed v i) : j = idx s.size i ∧ x = v := by
  simp only [step, Option.map_eq_some_iff] at hs
  obtain ⟨s1, hs, -⟩ := hs
  simp only [core, hpc] at hs
  split at hs
  · assumption
  · simp at hs

theorem step_retPop {s s' : St} {t x : Nat} (hs : step s (.retPop t x) = some s') :
    (s.pc t).popping = true ∧ (x ≠ 0 → s.pc t = .popDone x) := by
  simp only [step, Option.map_eq_some_iff] at hs
  obtain ⟨s1, hs, -⟩ := hs
  simp only [core] at hs
  split at hs
  · rename_i hpc
    split at hs <;> simp at hs
    rename_i hx; obtain ⟨hx, -⟩ := hx; subst hx
    simp [hpc, Pc.popping]
  · rename_i hpc
    split at hs <;> simp at hs
    rename_i hx
    simp [hpc, Pc.popping, hx.2.1]
  · simp at hs

theorem step_retPush {s s' : St} {t r : Nat} (hs : step s (.retPush t r) = some s') :
    (s.pc t).pushing = true ∧ (r ≠ 0 → s.pc t = .pushDone r) := by
  simp only [step, Option.map_eq_some_iff] at hs
  obtain ⟨s1, hs, -⟩ := hs
  simp only [core] at hs
  split at hs
  · rename_i hpc
    split at hs <;> simp at hs
    rename_i hx; obtain ⟨hx, -⟩ := hx; subst hx
    simp [hpc, Pc.pushing]
  · rename_i hpc
    split at hs <;> simp at hs
    rename_i hx
    simp [hpc, Pc.pushing, hx.2.1]
  · simp at hs

/-- a blocking push returns (always 1) only from `pushDone 1`, under a `push` wrapper frame -/
theorem step_retBPush {s s' : St} {t r : Nat} (hs : step s (.retBPush t r) = some s') :
    r = 1 ∧ s.pc t = .pushDone 1 ∧ (∃ v, s.wrap t = .push v) ∧ s'.pc t = .idle ∧
    s'.wrap t = .no := by
  simp only [step, Option.map_eq_some_iff] at hs
  obtain ⟨s1, hs, rfl⟩ := hs
  simp only [core] at hs
  split at hs
  · rename_i r' hpc
    split at hs <;> simp at hs
    rename_i hc
    obtain ⟨h1, h2, h3⟩ := hc
    subst hs h1
    refine ⟨h2, hpc, ?_, by simp [observe], by simp [observe]⟩
    cases hw : s.wrap t with
    | push v => exact ⟨v, rfl⟩
    | no => rw [hw] at h3; cases h3
    | pop => rw [hw] at h3; cases h3
  · simp at hs

/-- a blocking pop returns `x` only from `popDone x` with `x ≠ NULL`, under a `pop` frame -/
theorem step_retBPop {s s' : St} {t x : Nat} (hs : step s (.retBPop t x) = some s') :
    x ≠ 0 ∧ s.pc t = .popDone x ∧ s.wrap t = .pop ∧ s'.pc t = .idle ∧ s'.wrap t = .no := by
  simp only [step, Option.map_eq_some_iff] at hs
  obtain ⟨s1, hs, rfl⟩ := hs
  simp only [core] at hs
  split at hs
  · rename_i x' hpc
    split at hs <;> simp at hs
    rename_i hc
    obtain ⟨h1, h2, h3⟩ := hc
    subst hs h1
    refine ⟨h2, hpc, ?_, by simp [observe], by simp [observe]⟩
    cases hw : s.wrap t with
    | pop => rfl
    | no => rw [hw] at h3; cases h3
    | push v => rw [hw] at h3; cases h3
  · simp at hs

/-- `size` returns the truncated difference of the two values it read -/
theorem step_retSize {s s' : St} {t n : Nat} (hs : step s (.retSize t n) = some s') :
    ∃ h l g h2, s.pc t = .sizeGotBoth h l g h2 ∧ n = h - l := by
  simp only [step, Option.map_eq_some_iff] at hs
  obtain ⟨s1, hs, -⟩ := hs
  simp only [core] at hs
  split at hs
  · rename_i h l g h2 hpc
    split at hs <;> simp at hs
    rename_i hn
    exact ⟨h, l, g, h2, hpc, hn⟩
  · simp at hs

/-- the direct calls' return events are refused while a wrapper frame is present -/
theorem step_retPush_wrap {s s' : St} {t r : Nat} (hs : step s (.retPush t r) = some s') :
    s.wrap t = .no := by
  simp only [step, Option.map_eq_some_iff] at hs
  obtain ⟨s1, hs, -⟩ := hs
  simp only [core] at hs
  split at hs
  · split at hs <;> simp at hs
    rename_i hc; exact hc.2
  · split at hs <;> simp at hs
    rename_i hc; exact hc.2.2
  · simp at hs

theorem step_retPop_wrap {s s' : St} {t x : Nat} (hs : step s (.retPop t x) = some s') :
    s.wrap t = .no := by
  simp only [step, Option.map_eq_some_iff] at hs
  obtain ⟨s1, hs, -⟩ := hs
  simp only [core] at hs
  split at hs
  · split at hs <;> simp at hs
    rename_i hc; exact hc.2
  · split at hs <;> simp at hs
    rename_i hc; exact hc.2.2
  · simp at hs

/-- the wrapper frame of thread `t` changes only at the call / return events of the blocking
    wrappers -/
theorem step_wrap {s s' : St} {e : Ev} (hs : step s e = some s') (t : Nat) :
    s'.wrap t = match (generalizing := false) e with
      | .callBPush u v => if t = u then .push v else s.wrap t
      | .callBPop u => if t = u then .pop else s.wrap t
      | .retBPush u _ => if t = u then .no else s.wrap t
      | .retBPop u _ => if t = u then .no else s.wrap t
      | _ => s.wrap t := by
  simp only [step, Option.map_eq_some_iff] at hs
  obtain ⟨s1, hs, rfl⟩ := hs
  show s1.wrap t = _
  cases e <;> simp only [core] at hs <;> (repeat' split at hs) <;> simp at hs <;> subst hs <;>
    first | rfl | simp [upd_apply]

/-- the ghost components of the `size` program counters are what their names say: `g` is the
    value of `low` at the instant `high` was read … -/
theorem step_size_high {s s' : St} {t x : Nat} (hs : step s (.wLdHigh t x) = some s')
    (hpc : s.pc t = .sizeCalled) : x = s.high ∧ s'.pc t = .sizeGotHigh s.high s.low := by
  simp only [step, Option.map_eq_some_iff] at hs
  obtain ⟨s1, hs, rfl⟩ := hs
  show x = s.high ∧ s1.pc t = _
  simp only [core] at hs
  split at hs
  · split at hs <;> simp at hs
    rename_i hc
    have := (pushFailed_cases hc.1); rw [hpc] at this; simp at this
  · split at hs <;> simp at hs
    rename_i hc
    have := (popFailed_cases hc.1); rw [hpc] at this; simp at this
  · split at hs <;> simp at hs
    rename_i hc
    subst hs
    obtain ⟨-, hx⟩ := hc
    subst hx
    simp

/-- … and `h2` the value of `high` at the instant `low` was read (`h`, `l` are the values read) -/
theorem step_size_low {s s' : St} {t x h g : Nat} (hs : step s (.wLdLow t x) = some s')
    (hpc : s.pc t = .sizeGotHigh h g) :
    x = s.low ∧ s'.pc t = .sizeGotBoth h s.low g s.high := by
  simp only [step, Option.map_eq_some_iff] at hs
  obtain ⟨s1, hs, rfl⟩ := hs
  show x = s.low ∧ s1.pc t = _
  simp only [core, hpc] at hs
  split at hs <;> simp at hs
  rename_i hx
  subst hs hx
  simp

/-- events of other threads do not touch a thread's program counter -/
theorem step_pc_other {s s' : St} {e : Ev} (hs : step s e = some s') (t : Nat) (ht : t ≠ e.tid) :
    s'.pc t = s.pc t := by
  simp only [step, Option.map_eq_some_iff] at hs
  obtain ⟨s1, hs, rfl⟩ := hs
  exact (core_other' hs t ht).1

/-- a wrapper re-reads `high` only after an attempt of its own has failed -/
theorem step_wLdHigh_wrap {s s' : St} {t x : Nat} (hs : step s (.wLdHigh t x) = some s') :
    (∀ v, s.wrap t = .push v → pushFailed s t = true) ∧
    (s.wrap t = .pop → popFailed s t = true) := by
  simp only [step, Option.map_eq_some_iff] at hs
  obtain ⟨s1, hs, -⟩ := hs
  simp only [core] at hs
  split at hs
  · rename_i v hw
    split at hs <;> simp at hs
    rename_i hc
    exact ⟨fun _ _ => hc.1, fun h' => (by rw [hw] at h'; cases h')⟩
  · rename_i hw
    split at hs <;> simp at hs
    rename_i hc
    exact ⟨fun v h' => (by rw [hw] at h'; cases h'), fun _ => hc.1⟩
  · rename_i hw
    exact ⟨fun v h' => (by rw [hw] at h'; cases h'), fun h' => (by rw [hw] at h'; cases h')⟩

/-! ### `size`: the instant at which `high` was read (trace-level, no ghost in the conclusion) -/

set_option linter.unusedSimpArgs false in
/-- only the acting thread's own `wLdHigh` creates a `sizeGotHigh` pc, with the current cells -/
theorem core_sizeGotHigh {s s1 : St} {e : Ev} (hs : core s e = some s1) {h g : Nat}
    (hp : s1.pc e.tid = .sizeGotHigh h g) :
    h = s.high ∧ g = s.low ∧ s1.high = s.high ∧ s1.low = s.low ∧ e.boundaryOf e.tid = false := by
  cases e <;> simp only [core] at hs <;> (repeat' split at hs) <;> simp at hs <;> subst hs <;>
    simp [Ev.tid, Ev.boundaryOf] at hp ⊢ <;> simp_all

set_option linter.unusedSimpArgs false in
/-- only the acting thread's own `wLdLow` creates a `sizeGotBoth` pc, from `sizeGotHigh` -/
theorem core_sizeGotBoth {s s1 : St} {e : Ev} (hs : core s e = some s1) {h l g h2 : Nat}
    (hp : s1.pc e.tid = .sizeGotBoth h l g h2) :
    s.pc e.tid = .sizeGotHigh h g ∧ e.boundaryOf e.tid = false := by
  cases e <;> simp only [core] at hs <;> (repeat' split at hs) <;> simp at hs <;> subst hs <;>
    simp [Ev.tid, Ev.boundaryOf] at hp ⊢ <;> simp_all

/-- a `size` call that has read `high = h` (ghost `g`) did so at an instant of this call — a
    prefix `es1` of the trace, no `call`/`ret` of `t` since — at which `high = h`, `low = g` -/
def SizeAt (M : Sys St Ev) (es : List Ev) (t h g : Nat) : Prop :=
  ∃ es1 es2 s1, es = es1 ++ es2 ∧ M.run es1 = some s1 ∧ s1.high = h ∧ s1.low = g ∧
    ∀ e ∈ es2, e.boundaryOf t = false

def SizeHist (M : Sys St Ev) (s : St) (es : List Ev) : Prop :=
  M.run es = some s ∧
  ∀ t, (∀ h g, s.pc t = .sizeGotHigh h g → SizeAt M es t h g) ∧
       (∀ h l g h2, s.pc t = .sizeGotBoth h l g h2 → SizeAt M es t h g)

theorem SizeAt.snoc {M : Sys St Ev} {es : List Ev} {t h g : Nat} (hz : SizeAt M es t h g) (e : Ev)
    (hb : e.boundaryOf t = false) : SizeAt M (es ++ [e]) t h g := by
  obtain ⟨es1, es2, s1, q1, q2, q3, q4, q5⟩ := hz
  refine ⟨es1, es2 ++ [e], s1, by rw [q1, List.append_assoc], q2, q3, q4, ?_⟩
  intro e' he'
  rcases List.mem_append.mp he' with h' | h'
  · exact q5 e' h'
  · simp at h'; subst h'; exact hb

theorem sizeHist_of_run {n : Nat} {es : List Ev} {s : St} (h : (sys n).run es = some s) :
    SizeHist (sys n) s es := by
  refine Sys.hist_inv_of_run (sys n) (SizeHist (sys n)) ⟨rfl, ?_⟩ ?_ h
  · intro t; constructor <;> (intros; simp [sys, init] at *)
  · intro s es e s' ⟨hrun, hI⟩ hstep
    have hrun' : (sys n).run (es ++ [e]) = some s' := by
      simp only [Sys.run] at hrun
      simp [Sys.run, Sys.runFrom_append, hrun, Sys.runFrom, hstep]
    refine ⟨hrun', ?_⟩
    intro t
    have hstep' : step s e = some s' := hstep
    simp only [step, Option.map_eq_some_iff] at hstep'
    obtain ⟨s1, hcore, rfl⟩ := hstep'
    by_cases ht : t = e.tid
    · subst ht
      constructor
      · intro hh g hp
        have hp1 : s1.pc e.tid = .sizeGotHigh hh g := hp
        obtain ⟨c1, c2, c3, c4, -⟩ := core_sizeGotHigh hcore hp1
        exact ⟨es ++ [e], [], observe s1, by simp, hrun', by show s1.high = hh; omega,
          by show s1.low = g; omega, by simp⟩
      · intro hh l g h2 hp
        have hp1 : s1.pc e.tid = .sizeGotBoth hh l g h2 := hp
        obtain ⟨c1, c2⟩ := core_sizeGotBoth hcore hp1
        exact ((hI e.tid).1 hh g c1).snoc e c2
    · have hpc : (observe s1).pc t = s.pc t := (core_other' hcore t ht).1
      constructor
      · intro hh g hp
        rw [hpc] at hp
        exact ((hI t).1 hh g hp).snoc e (boundaryOf_other ht)
      · intro hh l g h2 hp
        rw [hpc] at hp
        exact ((hI t).2 hh l g h2 hp).snoc e (boundaryOf_other ht)

theorem Pc.not_pushing_popping (p : Pc) : ¬ (p.pushing = true ∧ p.popping = true) := by
  cases p <;> simp [Pc.pushing, Pc.popping]

theorem Pc.idle_of_pushing {p : Pc} (h : p.pushing = true) : p ≠ .idle := by
  intro e; subst e; simp [Pc.pushing] at h

theorem Pc.idle_of_popping {p : Pc} (h : p.popping = true) : p ≠ .idle := by
  intro e; subst e; simp [Pc.popping] at h


/-- the ghost `arg t` is exactly the argument of thread `t`'s latest `callPush` -/
theorem step_arg {s s' : St} {e : Ev} (hs : step s e = some s') (t : Nat) :
    s'.arg t = match (generalizing := false) e with
      | .callPush u v => if t = u then v else s.arg t
      | _ => s.arg t := by
  simp only [step, Option.map_eq_some_iff] at hs
  obtain ⟨s1, hs, rfl⟩ := hs
  show s1.arg t = _
  cases e <;> simp only [core] at hs <;> (repeat' split at hs) <;> simp at hs <;> subst hs <;>
    first | rfl | simp [upd_apply]

/-- why a pusher about to read its slot can find it non-NULL -/
theorem Inv.nonnull_cause {N : Nat} {s : St} (h : Inv N s) {t v l i : Nat}
    (hpc : s.pc t = .pushGotHigh v l i) (hb : s.buf (i % N) ≠ 0) :
    (∃ u j x, u ≠ t ∧ j % N = i % N ∧ s.pc u = .popClaimed j x) ∨
    s.high = s.low + N ∨ i < s.high := by
  have d := h.data
  obtain ⟨j, hm, hw, hc⟩ := d.nonnull _ hb
  have hj := d.wr_lt j hw
  have hok := h.pcok t; rw [hpc] at hok
  have hi : i ≤ s.high := hok.2.2.2
  by_cases hjl : j < s.low
  · obtain ⟨u, x, hu⟩ := h.uncl j hjl hc
    refine Or.inl ⟨u, j, x, ?_, hm, hu⟩
    intro e; subst e; rw [hpc] at hu; cases hu
  · right
    by_cases e : i = s.high
    · left
      subst e
      have := mod_gap hm hj
      have := d.high_le
      omega
    · right; omega

/-- why a popper about to read its slot can find it NULL -/
theorem Inv.null_cause {N : Nat} {s : St} (h : Inv N s) {t hh l : Nat}
    (hpc : s.pc t = .popGotLow hh l) (hb : s.buf (l % N) = 0) :
    (∃ u v, u ≠ t ∧ s.pc u = .pushClaimed v l) ∨ s.high = s.low ∨ l < s.low := by
  have d := h.data
  have hok := h.pcok t; rw [hpc] at hok
  have hl : l ≤ s.low := hok.2
  by_cases e : l = s.low
  · subst e
    by_cases hlt : s.low < s.high
    · left
      cases hw : s.written s.low with
      | false =>
        obtain ⟨u, v, hu⟩ := h.unwr _ hlt hw
        refine ⟨u, v, ?_, hu⟩
        intro e; subst e; rw [hpc] at hu; cases hu
      | true =>
        exfalso
        have hc : s.cleared s.low = false := by
          cases hc : s.cleared s.low with
          | false => rfl
          | true => have := d.cl_lt _ hc; omega
        have := d.live _ hw hc
        rw [hb] at this
        exact d.nz _ _ this rfl
    · right; left; have := d.low_le; omega
  · right; right; omega

end LibfiberVerif.Ring
