/-
  Proof/MultiSignalInv.lean — the invariant (proved inductive in MultiSignalS1..S5, used in Proof/MultiSignal.lean)
  Invariants of the multi-waiter signal model (fiber_multi_signal_t,
  include/fiber_signal.h).  Multi-signal clause of property C20.

  Core of the ABA argument: `counter` is incremented by EVERY successful CAS2
  (`counter = updates`), a snapshot reads the counter FIRST, so a CAS2 that succeeds from a
  snapshot (c, h) proves that nothing changed since c was read: `head` is still h, and — for
  a raise — the node h is still the top of the list and its `next` is still what was read.
-/
import LibfiberVerif.Model.MultiSignal

namespace LibfiberVerif.MultiSignal

def headOf : List Nat → H
  | [] => .nil
  | n :: _ => .node n

/-- the `next` pointers of the listed nodes form the list -/
def Chain (next : Nat → H) : List Nat → Prop
  | [] => True
  | n :: rest => next n = headOf rest ∧ Chain next rest

theorem chain_upd_of_not_mem (next : Nat → H) (n : Nat) (h : H) :
    ∀ l : List Nat, n ∉ l → Chain next l → Chain (upd next n h) l := by
  intro l
  induction l with
  | nil => intros; trivial
  | cons m rest ih =>
    intro hn hc
    simp only [List.mem_cons, not_or] at hn
    refine ⟨?_, ih hn.2 hc.2⟩
    have : m ≠ n := fun e => hn.1 e.symm
    simp [upd, this, hc.1]

theorem headOf_eq_node {l : List Nat} {n : Nat} (h : headOf l = .node n) : ∃ rest, l = n :: rest := by
  cases l with
  | nil => simp [headOf] at h
  | cons m rest => simp [headOf] at h; exact ⟨rest, by rw [h]⟩

/-- f has listed itself and has not resumed -/
def Pc.sleepy (p : Pc) : Prop := p = .wListed ∨ p = .parking ∨ p = .parked

/-- the raiser has popped g's node and is about to wake g -/
def Pc.targets (p : Pc) (g : Nat) : Prop :=
  p = .rPopped g ∨ p = .rGotData g g ∨ p = .rGaveNode g ∨ p = .rReady g

structure Inv (s : St) : Prop where
  cnt : s.counter = s.updates
  fnode_id : ∀ f, s.fnode f = f
  head_stack : s.head = headOf s.stack ∨ (s.stack = [] ∧ s.head = .raised)
  chain : Chain s.next s.stack
  nodup : s.stack.Nodup
  listed : ∀ n, n ∈ s.stack →
    (s.pc n).sleepy ∧ s.wakes n + 1 = s.parks n ∧ (∀ g, s.waker n ≠ some g) ∧ s.ndata n = n
  wEarly1 : ∀ f n, s.pc f = .wGotNode n → n = f
  wEarly2 : ∀ f n, s.pc f = .wLoop n → n = f
  wData1 : ∀ f n, s.pc f = .wLoop n → s.ndata f = f
  wData2 : ∀ f n c, s.pc f = .wLdC n c → s.ndata f = f
  wData3 : ∀ f n c h, s.pc f = .wLdH n c h → s.ndata f = f
  wData4 : ∀ f n c h, s.pc f = .wNext n c h → s.ndata f = f
  snapW1 : ∀ f n c, s.pc f = .wLdC n c → c ≤ s.counter ∧ n = f
  snapW2 : ∀ f n c h, s.pc f = .wLdH n c h → c ≤ s.counter ∧ (c = s.counter → s.head = h) ∧ n = f
  snapW3 : ∀ f n c h, s.pc f = .wNext n c h →
    c ≤ s.counter ∧ (c = s.counter → s.head = h) ∧ n = f ∧ s.next n = h ∧ h ≠ .raised
  snapR1 : ∀ f c, s.pc f = .rLdC c → c ≤ s.counter
  snapR2 : ∀ f c h, s.pc f = .rLdH c h → c ≤ s.counter ∧ (c = s.counter → s.head = h)
  snapR3 : ∀ f c n x, s.pc f = .rNext c n x →
    c ≤ s.counter ∧ (c = s.counter → s.head = .node n ∧ x = s.next n)
  waker_target : ∀ f g, s.waker f = some g → (s.pc g).targets f
  target_waker1 : ∀ f g, s.pc g = .rPopped f → s.waker f = some g
  target_waker2 : ∀ f g, s.pc g = .rGotData f f → s.waker f = some g
  target_waker3 : ∀ f g, s.pc g = .rGaveNode f → s.waker f = some g
  target_waker4 : ∀ f g, s.pc g = .rReady f → s.waker f = some g
  waker_sleepy : ∀ f g, s.waker f = some g →
    (s.pc f).sleepy ∧ s.wakes f + 1 = s.parks f ∧ f ∉ s.stack ∧ s.ndata f = f
  owed : ∀ f, (s.pc f).sleepy → s.wakes f + 1 = s.parks f → f ∈ s.stack ∨ ∃ g, s.waker f = some g
  counts : ∀ f, s.wakes f = s.parks f ∨ ((s.pc f).sleepy ∧ s.wakes f + 1 = s.parks f)
  woken_parked : ∀ f, (s.pc f).sleepy → s.wakes f = s.parks f → s.pc f = .parked
  marker : ∀ f, s.scratch f = true ↔ s.pc f = .parked
  ready_parked : ∀ r g, s.pc r = .rReady g → s.pc g = .parked
  gotData_eq : ∀ f m g, s.pc f = .rGotData m g → m = g

theorem inv_init : Inv (init (fun k => k)) := by
  constructor <;> simp [init, headOf, Chain, Pc.sleepy, Pc.targets]

/-- closes one conjunct of `Inv s'` for an explicit successor record -/
macro "ms_close" : tactic =>
  `(tactic| (intros; (try simp only [upd, Pc.sleepy, Pc.targets] at *); first | done | grind))

theorem headOf_eq_nil {l : List Nat} (h : headOf l = .nil) : l = [] := by
  cases l with
  | nil => rfl
  | cons m rest => simp [headOf] at h

theorem headOf_ne_raised (l : List Nat) : headOf l ≠ .raised := by
  cases l <;> simp [headOf]

/-- what `head` says about the list -/
theorem stack_of_head {s : St} (hi : Inv s) :
    (s.head = .raised → s.stack = []) ∧ (s.head = .nil → s.stack = []) ∧
    (∀ n, s.head = .node n → ∃ rest, s.stack = n :: rest ∧ s.next n = headOf rest ∧ Chain s.next rest ∧
        n ∉ rest ∧ rest.Nodup) := by
  refine ⟨?_, ?_, ?_⟩
  · intro h
    rcases hi.head_stack with h' | h'
    · rw [h] at h'; exact absurd h'.symm (headOf_ne_raised _)
    · exact h'.1
  · intro h
    rcases hi.head_stack with h' | h'
    · rw [h] at h'; exact headOf_eq_nil h'.symm
    · exact h'.1
  · intro n h
    rcases hi.head_stack with h' | h'
    · rw [h] at h'
      obtain ⟨rest, hr⟩ := headOf_eq_node h'.symm
      have hc := hi.chain
      have hn := hi.nodup
      rw [hr] at hc hn
      simp only [List.nodup_cons] at hn
      exact ⟨rest, hr, hc.1, hc.2, hn.1, hn.2⟩
    · rw [h] at h'; simp at h'


end LibfiberVerif.MultiSignal
