/-
  Proof/SchedN.lean — yield fairness on N kernel threads with work stealing (property C10).

  * `Inv`        : the ghosts `loc` / `busy` are exact, no fiber is in two places, a
                   load_balance call in progress (`lb k > 0`) owns everything in `frm k`.
  * `rankOn k f` : the one-thread rank (`Sched.rank`) of `f` on the deques of thread `k`.
  * `pot`        : potential of a fiber.  In `schedule_from` of its holder: its position plus
                   the steals the holder may still add in the running load_balance call.  In
                   `store_to` of its holder: `2·(#fibers − 1 − [the holder runs a fiber]) − position`
                   (everything that can still be run before it, twice: once out of
                   `schedule_from`, once more as a re-queued yielder in front of it) — the
                   holder may call load_balance with fibers waiting in `store_to`, and what it
                   steals then is run first, but it can only steal fibers that exist.
  * `pot_step`   : every event costs `pot` what it adds to the count of holder switches; only a
                   steal of `f` itself may raise it, to at most `maxSteal - 1` (and the creation
                   / wake-up of another fiber by 2).
  * `Ready`      : `f`'s context is saved (it is not SAVING_STATE_TO_WAIT) or `f` is nowhere;
                   stable without `sched f`, and a ready fiber is never skipped.
-/
import LibfiberVerif.Model.SchedN
import LibfiberVerif.Proof.Sched

namespace LibfiberVerif.SchedN
open LibfiberVerif.Sched (Phase pos)

/-! ### lists -/

theorem next_some {frm to : List Nat} {g : Nat} {frm' to' : List Nat}
    (h : next frm to = some (g, frm', to')) :
    (frm = g :: frm' ∧ to' = to) ∨ (frm = [] ∧ to = g :: frm' ∧ to' = []) := by
  cases frm with
  | cons a as => simp [next] at h; obtain ⟨h1, h2, h3⟩ := h; subst h1 h2 h3; simp
  | nil =>
    cases to with
    | nil => simp [next] at h
    | cons a as => simp [next] at h; obtain ⟨h1, h2, h3⟩ := h; subst h1 h2 h3; simp

theorem next_none {frm to : List Nat} (h : next frm to = none) : frm = [] ∧ to = [] := by
  cases frm with
  | cons a as => simp [next] at h
  | nil =>
    cases to with
    | nil => simp
    | cons a as => simp [next] at h

theorem popTop_some : ∀ {l : List Nat} {t : Nat} {r : List Nat},
    popTop l = some (t, r) → l = r ++ [t]
  | [], _, _, h => by simp [popTop] at h
  | [x], _, _, h => by simp [popTop] at h; obtain ⟨h1, h2⟩ := h; subst h1 h2; rfl
  | x :: y :: l, t, r, h => by
    simp only [popTop, Option.map_eq_some_iff] at h
    obtain ⟨⟨t', r'⟩, h1, h2⟩ := h
    have := popTop_some h1
    simp at h2
    obtain ⟨h3, h4⟩ := h2
    subst h3 h4
    simp [this]

theorem popTop_append (r : List Nat) (t : Nat) : popTop (r ++ [t]) = some (t, r) := by
  induction r with
  | nil => rfl
  | cons x r ih =>
    cases r with
    | nil => rfl
    | cons y r => simp only [List.cons_append] at ih ⊢; simp [popTop, ih]

theorem pos_cons (f g : Nat) (l : List Nat) :
    pos f (g :: l) = if g = f then 0 else pos f l + 1 := rfl

/-- removing the top does not move anything below it -/
theorem pos_append_of_mem {f : Nat} {r : List Nat} (t : List Nat) (h : f ∈ r) :
    pos f (r ++ t) = pos f r := by
  induction r with
  | nil => simp at h
  | cons x r ih =>
    simp only [List.cons_append, pos_cons]
    split
    · rfl
    · rename_i hx
      have : f ∈ r := by
        cases h with
        | head => exact absurd rfl hx
        | tail _ h => exact h
      rw [ih this]

/-- a duplicate-free list inside `m` is no longer than `m` -/
theorem length_le_of_nodup_subset : ∀ {l m : List Nat}, l.Nodup → (∀ x ∈ l, x ∈ m) →
    l.length ≤ m.length
  | [], _, _, _ => by simp
  | a :: l, m, hn, hs => by
    have ham : a ∈ m := hs a (by simp)
    have hn' := List.nodup_cons.mp hn
    have ih := length_le_of_nodup_subset (l := l) (m := m.erase a) hn'.2 (by
      intro x hx
      have hxa : x ≠ a := fun h => hn'.1 (h ▸ hx)
      exact (List.mem_erase_of_ne hxa).mpr (hs x (by simp [hx])))
    have := List.length_erase_of_mem ham
    have : 0 < m.length := List.length_pos_of_mem ham
    simp only [List.length_cons]
    omega

/-! ### what an accepted event does (inversion of `step`) -/

theorem step_sched {M : Nat} {s s' : St} {k f : Nat} (h : step M s (.sched k f) = some s') :
    s.phase k = .running ∧ s.cur k ≠ none ∧ s.loc f = none ∧
    s' = { s with to := upd s.to k (f :: s.to k), loc := upd s.loc f (some k),
                  busy := f :: s.busy } := by
  simp only [step] at h
  split at h <;> simp at h
  rename_i hc
  exact ⟨hc.1, hc.2.1, hc.2.2.2, h.symm⟩

theorem step_yield {M : Nat} {s s' : St} {k : Nat} (h : step M s (.yield k) = some s') :
    s.phase k = .running ∧ s.cur k ≠ none ∧
    s' = { s with phase := upd s.phase k .yielding } := by
  simp only [step] at h
  split at h <;> simp at h
  rename_i hc
  exact ⟨hc.1, hc.2.1, h.symm⟩

theorem step_finish {M : Nat} {s s' : St} {k : Nat} {sv : Bool}
    (h : step M s (.finish k sv) = some s') :
    ∃ f, s.cur k = some f ∧ s.phase k = .running ∧
    s' = { s with cur := upd s.cur k none, phase := upd s.phase k .ending,
                  sav := upd s.sav f sv, loc := upd s.loc f none, busy := s.busy.erase f } := by
  simp only [step] at h
  split at h
  · simp at h
  · rename_i f hf
    split at h <;> simp at h
    rename_i hc
    exact ⟨f, hf, hc.1, h.symm⟩

theorem step_saved {M : Nat} {s s' : St} {k f : Nat} (h : step M s (.saved k f) = some s') :
    s.sav f = true ∧ s' = { s with sav := upd s.sav f false } := by
  simp only [step] at h
  split at h <;> simp at h
  rename_i hc
  exact ⟨hc, h.symm⟩

theorem step_resumed {M : Nat} {s s' : St} {k : Nat} (h : step M s (.resumed k) = some s') :
    (s.phase k = .running ∧ s' = s) ∨
    (s.phase k = .yielding ∧ 0 < s.lb k ∧
      s' = { s with phase := upd s.phase k .running, lb := upd s.lb k 0 }) ∨
    (s.phase k = .yielding ∧ s.lb k = 0 ∧ s.frm k = [] ∧
      s' = { s with phase := upd s.phase k .running }) := by
  simp only [step] at h
  split at h
  · rename_i hp
    split at h <;> simp at h
    exact Or.inl ⟨hp, h.symm⟩
  · rename_i hp
    split at h
    · simp at h
    · split at h
      · rename_i hl
        simp at h
        exact Or.inr (Or.inl ⟨hp, hl, h.symm⟩)
      · rename_i hl
        split at h <;> simp at h
        rename_i hc
        exact Or.inr (Or.inr ⟨hp, by omega, hc, h.symm⟩)
  · simp at h

theorem step_idle {M : Nat} {s s' : St} {k : Nat} (h : step M s (.idle k) = some s') :
    s.phase k = .ending ∧ s.frm k = [] ∧ s' = s := by
  simp only [step] at h
  split at h <;> simp at h
  rename_i hc
  exact ⟨hc.1, hc.2.2.2, h.symm⟩

theorem step_pop {M : Nat} {s s' : St} {k g : Nat} (h : step M s (.pop k g) = some s') :
    s.phase k ≠ .running ∧ (∃ frm' to', next (s.frm k) (s.to k) = some (g, frm', to')) ∧
    s' = { s with hand := upd s.hand k (some g) } := by
  simp only [step] at h
  split at h
  · simp at h
  · rename_i hc
    split at h
    · simp at h
    · rename_i g' frm' to' hn
      split at h <;> simp at h
      rename_i hg
      subst hg
      exact ⟨fun hp => hc (Or.inl hp), ⟨frm', to', hn⟩, h.symm⟩

theorem step_pushed {M : Nat} {s s' : St} {k g : Nat} {w : Which}
    (h : step M s (.pushed k w g) = some s') :
    s.pend k = some (g, w) ∧ s' = { s with pend := upd s.pend k none } := by
  simp only [step] at h
  split at h <;> simp at h
  rename_i hc
  exact ⟨hc, h.symm⟩

theorem step_skip {M : Nat} {s s' : St} {k g : Nat} (h : step M s (.skip k g) = some s') :
    s.hand k = some g ∧ s.sav g = true ∧
    ∃ frm' to', next (s.frm k) (s.to k) = some (g, frm', to') ∧
    s' = { s with frm := upd s.frm k frm', to := upd s.to k (g :: to'),
                  hand := upd s.hand k none, pend := upd s.pend k (some (g, .to)),
                  lb := upd s.lb k 0 } := by
  simp only [step] at h
  split at h
  · simp at h
  · rename_i hc
    split at h
    · simp at h
    · rename_i g' frm' to' hn
      split at h <;> simp at h
      rename_i hg
      subst hg
      refine ⟨?_, ?_, frm', to', hn, h.symm⟩
      · cases hh : s.hand k with
        | none => exact absurd (Or.inl (by simp [hh])) hc
        | some x =>
          by_cases hx : x = g
          · rw [hx]
          · exact absurd (Or.inl (by simp [hh, hx])) hc
      · cases hs : s.sav g with
        | true => rfl
        | false => exact absurd (Or.inr hs) hc

theorem step_switch {M : Nat} {s s' : St} {k g : Nat} (h : step M s (.switch k g) = some s') :
    s.phase k ≠ .running ∧ s.sav g = false ∧
    ∃ frm' to', next (s.frm k) (s.to k) = some (g, frm', to') ∧
    s' = { s with frm := upd s.frm k frm', to := upd s.to k ((s.cur k).toList ++ to'),
                  cur := upd s.cur k (some g), phase := upd s.phase k .running,
                  lb := upd s.lb k 0, hand := upd s.hand k none,
                  pend := upd s.pend k ((s.cur k).map (fun c => (c, Which.to))) } := by
  simp only [step] at h
  split at h
  · simp at h
  · rename_i hc
    split at h
    · simp at h
    · rename_i g' frm' to' hn
      split at h <;> simp at h
      rename_i hg
      subst hg
      refine ⟨fun hp => hc (Or.inl hp), ?_, frm', to', hn, h.symm⟩
      cases hs : s.sav g with
      | false => rfl
      | true => exact absurd (Or.inr (Or.inr hs)) hc

theorem step_steal {M : Nat} {s s' : St} {k j f : Nat} {w : Which}
    (h : step M s (.steal k j w f) = some s') :
    k ≠ j ∧ s.phase k ≠ .running ∧ ∃ rest n, src s j w = rest ++ [f] ∧
    lbNext M (s.frm k) (s.lb k) = some n ∧
    s' = { (setSrc s j w rest) with
             frm := upd (setSrc s j w rest).frm k (f :: (setSrc s j w rest).frm k),
             lb := upd s.lb k n, pend := upd s.pend k (some (f, .frm)),
             loc := upd s.loc f (some k) } := by
  simp only [step] at h
  split at h
  · simp at h
  · rename_i hc
    split at h
    · rename_i f' rest n hp hl
      split at h <;> simp at h
      rename_i hf
      subst hf
      refine ⟨fun hkj => hc (Or.inl hkj), fun hp => hc (Or.inr (Or.inl hp)), rest, n,
        popTop_some hp, hl, ?_⟩
      rw [← h]
      cases w <;> rfl
    · simp at h

theorem lbNext_some {M : Nat} {frm : List Nat} {lb n : Nat}
    (h : lbNext M frm lb = some n) :
    (frm = [] ∧ n = 1) ∨ (frm ≠ [] ∧ 0 < lb ∧ lb < M ∧ n = lb + 1) := by
  simp only [lbNext] at h
  split at h
  · rename_i hc; simp at h; exact Or.inl ⟨hc, h.symm⟩
  · rename_i hc
    split at h <;> simp at h
    rename_i hl
    exact Or.inr ⟨hc, hl.1, hl.2, h.symm⟩

/-! ### the invariant: a fiber is in at most one place, the ghosts are exact -/

structure Inv (M : Nat) (s : St) : Prop where
  frmLoc : ∀ k g, g ∈ s.frm k → s.loc g = some k
  toLoc : ∀ k g, g ∈ s.to k → s.loc g = some k
  curLoc : ∀ k g, s.cur k = some g → s.loc g = some k
  locSome : ∀ g k, s.loc g = some k → g ∈ s.frm k ∨ g ∈ s.to k ∨ s.cur k = some g
  nodup : ∀ k, (s.frm k ++ s.to k).Nodup
  curNot : ∀ k g, s.cur k = some g → g ∉ s.frm k ∧ g ∉ s.to k
  busyIff : ∀ g, g ∈ s.busy ↔ s.loc g ≠ none
  busyNodup : s.busy.Nodup
  lbPhase : ∀ k, 0 < s.lb k → s.phase k ≠ .running
  lbLen : ∀ k, 0 < s.lb k → (s.frm k).length ≤ s.lb k
  lbMax : ∀ k, s.lb k ≤ max M 1
  endCur : ∀ k, s.phase k = .ending → s.cur k = none

theorem inv_init (M : Nat) : Inv M init := by
  constructor <;> simp [init] <;> grind

theorem inv_sched {M : Nat} {s s' : St} {k f : Nat} (hI : Inv M s)
    (h : step M s (.sched k f) = some s') : Inv M s' := by
  obtain ⟨hp, hc, hl, rfl⟩ := step_sched h
  obtain ⟨h1, h2, h3, h4, h5, h6, h7, h8, h9, h11, h12, h13⟩ := hI
  constructor <;> simp only [] <;> grind [upd]

theorem inv_yield {M : Nat} {s s' : St} {k : Nat} (hI : Inv M s)
    (h : step M s (.yield k) = some s') : Inv M s' := by
  obtain ⟨hp, hc, rfl⟩ := step_yield h
  obtain ⟨h1, h2, h3, h4, h5, h6, h7, h8, h9, h11, h12, h13⟩ := hI
  constructor <;> simp only [] <;> grind [upd]

theorem inv_finish {M : Nat} {s s' : St} {k : Nat} {sv : Bool} (hI : Inv M s)
    (h : step M s (.finish k sv) = some s') : Inv M s' := by
  obtain ⟨f, hc, hp, rfl⟩ := step_finish h
  obtain ⟨h1, h2, h3, h4, h5, h6, h7, h8, h9, h11, h12, h13⟩ := hI
  constructor <;> simp only [] <;> grind [upd, List.Nodup.mem_erase_iff, List.Nodup.erase]

theorem inv_resumed {M : Nat} {s s' : St} {k : Nat} (hI : Inv M s)
    (h : step M s (.resumed k) = some s') : Inv M s' := by
  obtain ⟨h1, h2, h3, h4, h5, h6, h7, h8, h9, h11, h12, h13⟩ := hI
  rcases step_resumed h with ⟨hp, rfl⟩ | ⟨hp, hl, rfl⟩ | ⟨hp, hl, hf, rfl⟩
  · constructor <;> assumption
  · constructor <;> simp only [] <;> grind [upd]
  · constructor <;> simp only [] <;> grind [upd]

/-- events that touch only `hand` / `pend` / `sav` -/
theorem inv_ghost {M : Nat} {s : St} (hI : Inv M s) (hand : Nat → Option Nat)
    (pend : Nat → Option (Nat × Which)) (sav : Nat → Bool) :
    Inv M { s with hand := hand, pend := pend, sav := sav } := by
  obtain ⟨h1, h2, h3, h4, h5, h6, h7, h8, h9, h11, h12, h13⟩ := hI
  constructor <;> assumption

theorem inv_switch_aux {M : Nat} {s : St} {k g : Nat} {frm' to' : List Nat} (hI : Inv M s)
    (hand : Nat → Option Nat) (pend : Nat → Option (Nat × Which))
    (hmem : ∀ x, (x ∈ frm' ∨ x ∈ to' ∨ x = g) ↔ (x ∈ s.frm k ∨ x ∈ s.to k ∨ s.cur k = some x))
    (hnd : (frm' ++ to').Nodup) (hg : g ∉ frm' ∧ g ∉ to') :
    Inv M { s with frm := upd s.frm k frm', to := upd s.to k to',
                   cur := upd s.cur k (some g), phase := upd s.phase k .running,
                   lb := upd s.lb k 0, hand := hand, pend := pend } := by
  obtain ⟨h1, h2, h3, h4, h5, h6, h7, h8, h9, h11, h12, h13⟩ := hI
  constructor <;> simp only [] <;> grind [upd]

theorem inv_switch {M : Nat} {s s' : St} {k g : Nat} (hI : Inv M s)
    (h : step M s (.switch k g) = some s') : Inv M s' := by
  obtain ⟨hp, _, frm', to', hn, rfl⟩ := step_switch h
  apply inv_switch_aux hI
  all_goals
    have h5k := hI.nodup k
    have h6k := hI.curNot k
    rcases next_some hn with ⟨hf, ht⟩ | ⟨hf, ht, ht'⟩ <;> cases hc : s.cur k <;>
      simp only [Option.toList] <;> grind

theorem inv_skip_aux {M : Nat} {s : St} {k : Nat} {frm' to' : List Nat} (hI : Inv M s)
    (hand : Nat → Option Nat) (pend : Nat → Option (Nat × Which))
    (hmem : ∀ x, (x ∈ frm' ∨ x ∈ to') ↔ (x ∈ s.frm k ∨ x ∈ s.to k))
    (hnd : (frm' ++ to').Nodup) :
    Inv M { s with frm := upd s.frm k frm', to := upd s.to k to',
                   hand := hand, pend := pend, lb := upd s.lb k 0 } := by
  obtain ⟨h1, h2, h3, h4, h5, h6, h7, h8, h9, h11, h12, h13⟩ := hI
  constructor <;> simp only [] <;> grind [upd]

theorem inv_skip {M : Nat} {s s' : St} {k g : Nat} (hI : Inv M s)
    (h : step M s (.skip k g) = some s') : Inv M s' := by
  obtain ⟨_, _, frm', to', hn, rfl⟩ := step_skip h
  apply inv_skip_aux hI
  all_goals
    have h5k := hI.nodup k
    rcases next_some hn with ⟨hf, ht⟩ | ⟨hf, ht, ht'⟩ <;> grind

theorem upd_eq_self {α : Type} (f : Nat → α) (i : Nat) : upd f i (f i) = f := by
  funext x; simp only [upd]; split <;> simp_all

theorem inv_steal_aux {M : Nat} {s : St} {k j f n : Nat} {fj tj : List Nat} (hI : Inv M s)
    (pend : Nat → Option (Nat × Which))
    (hkj : k ≠ j) (hp : s.phase k ≠ .running)
    (hmem : ∀ x, (x ∈ s.frm j ∨ x ∈ s.to j) ↔ (x = f ∨ x ∈ fj ∨ x ∈ tj))
    (hfm : ∀ x, x ∈ fj → x ∈ s.frm j) (htm : ∀ x, x ∈ tj → x ∈ s.to j)
    (hnd : (fj ++ tj).Nodup) (hf : f ∉ fj ∧ f ∉ tj) (hlen : fj.length ≤ (s.frm j).length)
    (hn : (s.frm k = [] ∧ n = 1) ∨ (0 < s.lb k ∧ s.lb k < M ∧ n = s.lb k + 1)) :
    Inv M { s with frm := upd (upd s.frm j fj) k (f :: s.frm k), to := upd s.to j tj,
                   lb := upd s.lb k n, pend := pend, loc := upd s.loc f (some k) } := by
  obtain ⟨h1, h2, h3, h4, h5, h6, h7, h8, h9, h11, h12, h13⟩ := hI
  have hfj : s.loc f = some j := by
    rcases (hmem f).mpr (Or.inl rfl) with h | h
    · exact h1 j f h
    · exact h2 j f h
  have hfk : f ∉ s.frm k ∧ f ∉ s.to k ∧ s.cur k ≠ some f := by
    refine ⟨fun h => ?_, fun h => ?_, fun h => ?_⟩
    · have := h1 k f h; simp_all
    · have := h2 k f h; simp_all
    · have := h3 k f h; simp_all
  have hcj : s.cur j ≠ some f := by
    intro h
    have := h6 j f h
    have := (hmem f).mpr (Or.inl rfl)
    grind
  have hfrm : ∀ i, upd (upd s.frm j fj) k (f :: s.frm k) i =
      if i = k then f :: s.frm k else if i = j then fj else s.frm i := by
    intro i; simp only [upd]
  have hto : ∀ i, upd s.to j tj i = if i = j then tj else s.to i := by
    intro i; simp only [upd]
  have hloc : ∀ x, upd s.loc f (some k) x = if x = f then some k else s.loc x := by
    intro x; simp only [upd]
  have hlb : ∀ i, upd s.lb k n i = if i = k then n else s.lb i := by
    intro i; simp only [upd]
  generalize upd (upd s.frm j fj) k (f :: s.frm k) = F at hfrm
  generalize upd s.to j tj = T at hto
  generalize upd s.loc f (some k) = L at hloc
  generalize upd s.lb k n = B at hlb
  have h5k := h5 k
  constructor <;> simp only []
  · intro i g hg; rw [hfrm] at hg; rw [hloc]; grind
  · intro i g hg; rw [hto] at hg; rw [hloc]; grind
  · intro i g hg; rw [hloc]; grind
  · intro g i hg; rw [hloc] at hg; rw [hfrm, hto]; grind
  · intro i; rw [hfrm, hto]; grind
  · intro i g hg; rw [hfrm, hto]; grind
  · intro g; rw [hloc]; grind
  · exact h8
  · intro i hi; rw [hlb] at hi; grind
  · intro i hi; rw [hlb] at hi ⊢; rw [hfrm]; grind
  · intro i; rw [hlb]; grind
  · exact h13

theorem inv_steal {M : Nat} {s s' : St} {k j f : Nat} {w : Which} (hI : Inv M s)
    (h : step M s (.steal k j w f) = some s') : Inv M s' := by
  obtain ⟨hkj, hp, rest, n, hsrc, hlb, rfl⟩ := step_steal h
  have h5j := hI.nodup j
  have hn : (s.frm k = [] ∧ n = 1) ∨ (0 < s.lb k ∧ s.lb k < M ∧ n = s.lb k + 1) := by
    rcases lbNext_some hlb with h | h
    · exact Or.inl h
    · exact Or.inr h.2
  cases w with
  | frm =>
    simp only [src] at hsrc
    have := inv_steal_aux (f := f) (fj := rest) (tj := s.to j) hI
      (upd s.pend k (some (f, .frm))) hkj hp
      (by grind) (by grind) (by grind) (by grind) (by grind) (by simp [hsrc]) hn
    simpa [setSrc, upd_eq_self, upd_other _ _ _ _ hkj] using this
  | to =>
    simp only [src] at hsrc
    have := inv_steal_aux (f := f) (fj := s.frm j) (tj := rest) hI
      (upd s.pend k (some (f, .frm))) hkj hp
      (by grind) (by grind) (by grind) (by grind) (by grind) (by simp) hn
    simpa [setSrc, upd_eq_self] using this

theorem inv_step {M : Nat} {s s' : St} {e : Ev} (hI : Inv M s) (h : step M s e = some s') :
    Inv M s' := by
  cases e with
  | sched k f => exact inv_sched hI h
  | yield k => exact inv_yield hI h
  | pop k g => obtain ⟨_, _, rfl⟩ := step_pop h; exact inv_ghost hI _ _ _
  | skip k g => exact inv_skip hI h
  | switch k g => exact inv_switch hI h
  | pushed k w g => obtain ⟨_, rfl⟩ := step_pushed h; exact inv_ghost hI _ _ _
  | resumed k => exact inv_resumed hI h
  | idle k => obtain ⟨_, _, rfl⟩ := step_idle h; exact hI
  | finish k sv => exact inv_finish hI h
  | saved k f => obtain ⟨_, rfl⟩ := step_saved h; exact inv_ghost hI _ _ _
  | steal k j w f => exact inv_steal hI h

theorem inv_of_run {M : Nat} {es : List Ev} {s : St} (h : (sys M).run es = some s) : Inv M s :=
  Sys.inv_of_run (sys M) (Inv M) (inv_init M) (fun _ _ _ hi hs => inv_step hi hs) h

/-! ### the one-thread rank, on the deques of the thread that holds the fiber -/

/-- thread `k` seen as a one-thread scheduler state -/
def view (s : St) (k : Nat) : Sched.St :=
  { frm := s.frm k, to := s.to k, cur := (s.cur k).getD 0, phase := s.phase k }

/-- `f` is ready on thread `k` -/
def QueuedOn (k f : Nat) (s : St) : Prop := f ∈ s.frm k ∨ f ∈ s.to k

/-- `Sched.rank` on explicit deques -/
def rk (f : Nat) (frm to : List Nat) : Nat :=
  if f ∈ frm then pos f frm else 2 * frm.length + pos f to

/-- the one-thread rank of `f` (Proof/Sched.lean) applied to thread `k`'s deques -/
def rankOn (k f : Nat) (s : St) : Nat := Sched.rank f (view s k)

theorem rankOn_eq (k f : Nat) (s : St) : rankOn k f s = rk f (s.frm k) (s.to k) := rfl

theorem queuedOn_iff (k f : Nat) (s : St) : QueuedOn k f s ↔ Sched.Queued f (view s k) := Iff.rfl

theorem pos_append_of_not_mem {f : Nat} {c l : List Nat} (h : f ∉ c) :
    pos f (c ++ l) = c.length + pos f l := by
  induction c with
  | nil => simp
  | cons x c ih =>
    simp at h
    simp only [List.cons_append, pos_cons, if_neg (Ne.symm h.1), ih h.2, List.length_cons]
    omega

/-- `fiber_scheduler_next` + pushing `ys` (the re-queued yielder, the skipped fiber, or nothing)
    onto `store_to`, seen from a queued `f` that is not the fiber popped: `f` stays queued and
    loses at least one unit of rank. -/
theorem rk_next_gen {frm to frm' to' : List Nat} {g f : Nat} (ys : List Nat)
    (hn : next frm to = some (g, frm', to')) (hgf : g ≠ f) (hq : f ∈ frm ∨ f ∈ to)
    (hys : f ∉ ys) (hlen : ys.length ≤ 1) :
    (f ∈ frm' ∨ f ∈ ys ++ to') ∧ rk f frm' (ys ++ to') + 1 ≤ rk f frm to := by
  rcases next_some hn with ⟨hf, ht⟩ | ⟨hf, ht, ht'⟩
  · subst hf ht
    by_cases h1 : f ∈ frm'
    · simp [rk, h1, pos_cons, hgf]
    · have hft : f ∈ to' := by simpa [Ne.symm hgf, h1] using hq
      simp only [rk, h1, if_false, List.mem_cons, Ne.symm hgf, or_self, List.length_cons,
        pos_append_of_not_mem hys]
      refine ⟨Or.inr (by simp [hft]), by omega⟩
  · subst hf ht ht'
    have h1 : f ∈ frm' := by simpa [Ne.symm hgf] using hq
    simp [rk, h1, pos_cons, hgf]

theorem rk_next {frm to frm' to' : List Nat} {g f : Nat} (c : Option Nat)
    (hn : next frm to = some (g, frm', to')) (hgf : g ≠ f) (hq : f ∈ frm ∨ f ∈ to)
    (hc : c ≠ some f) :
    (f ∈ frm' ∨ f ∈ c.toList ++ to') ∧ rk f frm' (c.toList ++ to') + 1 ≤ rk f frm to := by
  have hcl : f ∉ c.toList ∧ c.toList.length ≤ 1 := by
    cases c with
    | none => simp
    | some x => simp at hc; simp [Option.toList, Ne.symm hc]
  exact rk_next_gen c.toList hn hgf hq hcl.1 hcl.2

/-- taking the top of one of the holder's deques (a fiber `h ≠ f`): the exact effect on `f` -/
theorem rk_steal_frm {rest to : List Nat} {h f : Nat} (hhf : h ≠ f) :
    rk f rest to = rk f (rest ++ [h]) to - (if f ∈ rest then 0 else 2) := by
  by_cases h1 : f ∈ rest
  · simp [rk, h1, pos_append_of_mem]
  · simp [rk, h1, Ne.symm hhf]; omega

theorem rk_steal_to {frm rest : List Nat} {h f : Nat} (hq : f ∈ frm ∨ f ∈ rest) :
    rk f frm rest = rk f frm (rest ++ [h]) := by
  by_cases h1 : f ∈ frm
  · simp [rk, h1]
  · have : f ∈ rest := by simpa [h1] using hq
    simp [rk, h1, pos_append_of_mem, this]


/-! ### counting -/

def isSched : Ev → Bool
  | .sched _ _ => true
  | _ => false

/-- `e` creates / wakes the fiber `f` itself -/
def isSchedOf (f : Nat) : Ev → Bool
  | .sched _ g => g = f
  | _ => false

/-- `e` is a steal of the fiber `f` itself -/
def isStealOf (f : Nat) : Ev → Bool
  | .steal _ _ _ g => g = f
  | _ => false

/-- `e` runs `f` (on whatever thread) -/
def isRunOf (f : Nat) : Ev → Bool
  | .switch _ g => g = f
  | _ => false

/-- `e` skips `f` (found in state SAVING_STATE_TO_WAIT by fiber_scheduler_next) -/
def isSkipOf (f : Nat) : Ev → Bool
  | .skip _ g => g = f
  | _ => false

/-- `e` is a context switch on the thread that holds `f` in state `s` -/
def holderSwitch (f : Nat) (s : St) : Ev → Bool
  | .switch k _ => s.loc f = some k
  | _ => false

/-- number of times `f` itself is stolen in an event list -/
def stealsOf (f : Nat) (es : List Ev) : Nat := es.countP (isStealOf f)

/-- number of fibers created or woken in an event list -/
def scheds (es : List Ev) : Nat := es.countP isSched

/-- Number of context switches ON THE THREAD HOLDING `f` AT THAT TIME along the run of `es`
    from `s` — summed over the holders `f` passes through. -/
def holderSwitches (M : Nat) (f : Nat) : St → List Ev → Nat
  | _, [] => 0
  | s, e :: es =>
    (if holderSwitch f s e then 1 else 0) +
      (match step M s e with
       | some s' => holderSwitches M f s' es
       | none => 0)

/-! ### the potential -/

/-- steals the holder may still add in its running load_balance call -/
def slack (M : Nat) (s : St) (k : Nat) : Nat := if 0 < s.lb k then M - s.lb k else 0

/-- 1 if thread `k` runs a fiber, 0 if it is in its maintenance loop / dispatching -/
def cnt (s : St) (k : Nat) : Nat := if s.cur k = none then 0 else 1

/-- potential of a queued fiber on explicit deques: `B` fibers exist, `c = cnt`, `sl = slack` -/
def qpot (f : Nat) (frm to : List Nat) (B c sl : Nat) : Nat :=
  if f ∈ frm then pos f frm + sl else 2 * (B - 1 - c) - pos f to

/-- potential of fiber `f`: nothing if it is gone; `2·#fibers` while it runs; while it is queued,
    in `schedule_from`: its position plus the holder's load_balance slack; in `store_to`:
    `2·(#fibers − 1 − [holder runs a fiber]) − position` -/
def pot (M : Nat) (f : Nat) (s : St) : Nat :=
  match s.loc f with
  | none => 0
  | some k =>
    if s.cur k = some f then 2 * s.busy.length
    else qpot f (s.frm k) (s.to k) s.busy.length (cnt s k) (slack M s k)

theorem pot_none {M f : Nat} {s : St} (h : s.loc f = none) : pot M f s = 0 := by
  simp [pot, h]

theorem pot_cur {M f k : Nat} {s : St} (h : s.loc f = some k) (hc : s.cur k = some f) :
    pot M f s = 2 * s.busy.length := by
  simp [pot, h, hc]

theorem pot_queued {M f k : Nat} {s : St} (h : s.loc f = some k) (hc : s.cur k ≠ some f) :
    pot M f s = qpot f (s.frm k) (s.to k) s.busy.length (cnt s k) (slack M s k) := by
  simp [pot, h, hc]

theorem queued_of_loc {M f k : Nat} {s : St} (hI : Inv M s) (h : s.loc f = some k)
    (hc : s.cur k ≠ some f) : f ∈ s.frm k ∨ f ∈ s.to k := by
  rcases hI.locSome f k h with h | h | h
  · exact Or.inl h
  · exact Or.inr h
  · exact absurd h hc

/-- what is queued on a thread, plus what it runs, exists -/
theorem cap {M : Nat} {s : St} (hI : Inv M s) (k : Nat) :
    (s.frm k).length + (s.to k).length + cnt s k ≤ s.busy.length := by
  have hsub : ∀ x ∈ (s.cur k).toList ++ (s.frm k ++ s.to k), x ∈ s.busy := by
    intro x hx
    rw [hI.busyIff]
    simp at hx
    rcases hx with hx | hx | hx
    · simp [hI.curLoc k x hx]
    · simp [hI.frmLoc k x hx]
    · simp [hI.toLoc k x hx]
  have hnd : ((s.cur k).toList ++ (s.frm k ++ s.to k)).Nodup := by
    cases hc : s.cur k with
    | none => simpa using hI.nodup k
    | some c =>
      have := hI.curNot k c hc
      simp only [Option.toList, List.cons_append, List.nil_append, List.nodup_cons,
        List.mem_append, not_or]
      exact ⟨this, hI.nodup k⟩
  have hlen := length_le_of_nodup_subset hnd hsub
  simp only [List.length_append] at hlen
  have : ((s.cur k).toList).length = cnt s k := by
    simp only [cnt]
    cases s.cur k <;> simp
  omega

/-- `fiber_scheduler_next` + a push of `ys` onto `store_to` + `cnt` going from `c` to `c'`, seen
    from a queued fiber that is not the one popped: it stays queued and its potential drops. -/
theorem qpot_next {frm to frm' to' ys : List Nat} {g f B c c' sl : Nat}
    (hn : next frm to = some (g, frm', to')) (hgf : g ≠ f) (hq : f ∈ frm ∨ f ∈ to)
    (hys : f ∉ ys) (hnd : (frm ++ to).Nodup) (hcap : frm.length + to.length + c ≤ B)
    (hcc : c ≤ c') (h1 : 1 ≤ ys.length + 2 * (c' - c)) :
    qpot f frm' (ys ++ to') B c' 0 + 1 ≤ qpot f frm to B c sl := by
  rcases next_some hn with ⟨hf, ht⟩ | ⟨hf, ht, ht'⟩
  · subst hf ht
    by_cases hf1 : f ∈ frm'
    · simp [qpot, hf1, pos_cons, hgf]
    · have hft : f ∈ to' := by simpa [Ne.symm hgf, hf1] using hq
      have hp := Sched.pos_lt_length hft
      simp only [qpot, hf1, if_false, List.mem_cons, Ne.symm hgf, or_self,
        pos_append_of_not_mem hys]
      simp only [List.length_cons] at hcap
      omega
  · subst hf ht ht'
    have hf1 : f ∈ frm' := by simpa [Ne.symm hgf] using hq
    have hp := Sched.pos_lt_length hf1
    simp only [qpot, hf1, if_true, List.not_mem_nil, if_false, pos_cons, hgf, Nat.add_zero]
    simp only [List.length_nil, List.length_cons] at hcap
    omega

theorem pot_yield {M f k : Nat} {s s' : St} (h : step M s (.yield k) = some s') :
    pot M f s' = pot M f s := by
  obtain ⟨_, _, rfl⟩ := step_yield h
  rfl

theorem slack_upd_zero_le (M : Nat) (s : St) (k i : Nat) (ph : Nat → Phase) :
    slack M { s with phase := ph, lb := upd s.lb k 0 } i ≤ slack M s i := by
  simp only [slack, upd]
  split <;> simp_all

theorem qpot_mono_sl {f : Nat} {frm to : List Nat} {B c sl sl' : Nat} (h : sl' ≤ sl) :
    qpot f frm to B c sl' ≤ qpot f frm to B c sl := by
  simp only [qpot]
  split <;> omega

theorem pot_resumed {M f k : Nat} {s s' : St} (h : step M s (.resumed k) = some s') :
    pot M f s' ≤ pot M f s := by
  rcases step_resumed h with ⟨_, rfl⟩ | ⟨_, _, rfl⟩ | ⟨_, _, _, rfl⟩
  · exact Nat.le_refl _
  · simp only [pot]
    cases hl : s.loc f with
    | none => simp
    | some i =>
      simp only []
      split
      · exact Nat.le_refl _
      · exact qpot_mono_sl (slack_upd_zero_le M s k i (upd s.phase k .running))
  · exact Nat.le_refl _

theorem pot_finish {M f k : Nat} {sv : Bool} {s s' : St} (hI : Inv M s)
    (h : step M s (.finish k sv) = some s') : pot M f s' ≤ pot M f s := by
  obtain ⟨c, hc, hp, rfl⟩ := step_finish h
  have hcb : c ∈ s.busy := by rw [hI.busyIff]; simp [hI.curLoc k c hc]
  have hlen := List.length_erase_of_mem hcb
  have hpos : 0 < s.busy.length := List.length_pos_of_mem hcb
  by_cases hfc : f = c
  · subst hfc
    rw [pot_none (by simp)]
    exact Nat.zero_le _
  · cases hl : s.loc f with
    | none => rw [pot_none (by simp [upd, hfc, hl]), pot_none hl]; exact Nat.le_refl _
    | some i =>
      have hl' : (upd s.loc c none) f = some i := by simp [upd, hfc, hl]
      by_cases hci : s.cur i = some f
      · have hik : i ≠ k := by intro h; subst h; rw [hc] at hci; simp at hci; exact hfc hci.symm
        rw [pot_cur hl' (by simp [upd, hik, hci]), pot_cur hl hci]
        simp only []
        omega
      · rw [pot_queued hl' (by simp only [upd]; split <;> simp_all), pot_queued hl hci]
        simp only [qpot, slack, cnt]
        by_cases hik : i = k
        · subst hik
          simp only [upd_same, hc]
          split
          · exact Nat.le_refl _
          · simp; omega
        · simp only [upd, if_neg hik]
          split
          · exact Nat.le_refl _
          · omega

theorem pot_switch {M f k g : Nat} {s s' : St} (hI : Inv M s)
    (h : step M s (.switch k g) = some s') (hgf : g ≠ f) :
    pot M f s' + (if holderSwitch f s (.switch k g) then 1 else 0) ≤ pot M f s := by
  obtain ⟨hp, _, frm', to', hn, hs'⟩ := step_switch h
  have eloc : s'.loc = s.loc := by rw [hs']
  have ebusy : s'.busy = s.busy := by rw [hs']
  have ecur : s'.cur = upd s.cur k (some g) := by rw [hs']
  have efrm : s'.frm = upd s.frm k frm' := by rw [hs']
  have eto : s'.to = upd s.to k ((s.cur k).toList ++ to') := by rw [hs']
  have elb : s'.lb = upd s.lb k 0 := by rw [hs']
  clear hs'
  cases hl : s.loc f with
  | none => rw [pot_none (eloc ▸ hl)]; simp [holderSwitch, hl]
  | some i =>
    have hl' : s'.loc f = some i := eloc ▸ hl
    by_cases hik : i = k
    · subst hik
      simp only [holderSwitch, hl, decide_true, if_true]
      have hcg : s'.cur i ≠ some f := by simp [ecur, hgf]
      have hcnt' : cnt s' i = 1 := by simp [cnt, ecur]
      rw [pot_queued hl' hcg, hcnt']
      simp only [efrm, eto, elb, ebusy, upd_same, slack, Nat.lt_irrefl, if_false]
      have hcap := cap hI i
      by_cases hci : s.cur i = some f
      · rw [pot_cur hl hci]
        have hnot := hI.curNot i f hci
        -- `f` was running: it is re-queued at the bottom of `store_to`
        have hf' : f ∉ frm' := by
          rcases next_some hn with ⟨hf, ht⟩ | ⟨hf, ht, ht'⟩
          · exact fun hx => hnot.1 (by simp [hf, hx])
          · exact fun hx => hnot.2 (by simp [ht, hx])
        have hc1 : cnt s i = 1 := by simp [cnt, hci]
        simp only [hci, Option.toList, qpot, hf', if_false, List.cons_append, List.nil_append,
          pos_cons, if_true]
        omega
      · rw [pot_queued hl hci]
        have hq := queued_of_loc hI hl hci
        have hys : f ∉ (s.cur i).toList := by
          cases hc : s.cur i with
          | none => simp
          | some x => rw [hc] at hci; simp at hci; simp [Option.toList, Ne.symm hci]
        have hcc : cnt s i ≤ 1 := by simp only [cnt]; split <;> omega
        have h1 : 1 ≤ ((s.cur i).toList).length + 2 * (1 - cnt s i) := by
          simp only [cnt]
          cases s.cur i <;> simp
        exact qpot_next hn hgf hq hys (hI.nodup i) hcap hcc h1
    · have hne : ¬ (s.loc f = some k) := by rw [hl]; simp [hik]
      simp only [holderSwitch, hl, Option.some.injEq, hik, decide_false, Bool.false_eq_true,
        if_false, Nat.add_zero]
      by_cases hci : s.cur i = some f
      · rw [pot_cur hl' (by simp [ecur, upd, hik, hci]), pot_cur hl hci, ebusy]
        exact Nat.le_refl _
      · rw [pot_queued hl' (by simp [ecur, upd, hik, hci]), pot_queued hl hci]
        simp [efrm, eto, elb, ebusy, ecur, upd, hik, slack, cnt]

theorem pot_skip {M f k g : Nat} {s s' : St} (hI : Inv M s)
    (h : step M s (.skip k g) = some s') (hgf : g ≠ f) : pot M f s' ≤ pot M f s := by
  obtain ⟨_, _, frm', to', hn, hs'⟩ := step_skip h
  have eloc : s'.loc = s.loc := by rw [hs']
  have ebusy : s'.busy = s.busy := by rw [hs']
  have ecur : s'.cur = s.cur := by rw [hs']
  have efrm : s'.frm = upd s.frm k frm' := by rw [hs']
  have eto : s'.to = upd s.to k (g :: to') := by rw [hs']
  have elb : s'.lb = upd s.lb k 0 := by rw [hs']
  clear hs'
  cases hl : s.loc f with
  | none => rw [pot_none (eloc ▸ hl)]; exact Nat.zero_le _
  | some i =>
    have hl' : s'.loc f = some i := eloc ▸ hl
    by_cases hci : s.cur i = some f
    · rw [pot_cur hl' (ecur ▸ hci), pot_cur hl hci, ebusy]
      exact Nat.le_refl _
    · rw [pot_queued hl' (ecur ▸ hci), pot_queued hl hci]
      have hcnt : cnt s' i = cnt s i := by simp [cnt, ecur]
      rw [hcnt, ebusy]
      by_cases hik : i = k
      · subst hik
        simp only [efrm, eto, elb, upd_same, slack, Nat.lt_irrefl, if_false]
        have hq := queued_of_loc hI hl hci
        have := qpot_next (ys := [g]) (c' := cnt s i) (sl := if 0 < s.lb i then M - s.lb i else 0)
          hn hgf hq (by simp [Ne.symm hgf]) (hI.nodup i) (cap hI i) (Nat.le_refl _) (by simp)
        simp only [List.cons_append, List.nil_append] at this
        omega
      · simp [efrm, eto, elb, upd, hik, slack]

/-- field-wise effect of an accepted steal -/
theorem step_steal_eff {M : Nat} {s s' : St} {k j f : Nat} {w : Which}
    (h : step M s (.steal k j w f) = some s') :
    k ≠ j ∧ s.phase k ≠ .running ∧ ∃ rest n, src s j w = rest ++ [f] ∧
    lbNext M (s.frm k) (s.lb k) = some n ∧
    s'.cur = s.cur ∧ s'.busy = s.busy ∧ s'.phase = s.phase ∧
    s'.loc = upd s.loc f (some k) ∧ s'.lb = upd s.lb k n ∧
    s'.frm k = f :: s.frm k ∧ s'.to k = s.to k ∧
    (∀ i, i ≠ k → i ≠ j → s'.frm i = s.frm i ∧ s'.to i = s.to i) ∧
    (w = .frm → s'.frm j = rest ∧ s'.to j = s.to j) ∧
    (w = .to → s'.frm j = s.frm j ∧ s'.to j = rest) := by
  obtain ⟨hkj, hp, rest, n, hsrc, hlb, rfl⟩ := step_steal h
  refine ⟨hkj, hp, rest, n, hsrc, hlb, ?_⟩
  have hjk : j ≠ k := Ne.symm hkj
  cases w <;> simp [setSrc, upd, hkj, hjk] <;> grind

theorem pot_steal {M f k j h : Nat} {w : Which} {s s' : St} (hI : Inv M s)
    (hst : step M s (.steal k j w h) = some s') :
    pot M f s' ≤ pot M f s + (if isStealOf f (.steal k j w h) then M - 1 else 0) := by
  obtain ⟨hkj, hp, rest, n, hsrc, hlb, ecur, ebusy, _, eloc, elb, efk, etk, eoth, ewf, ewt⟩ :=
    step_steal_eff hst
  have hhj : s.loc h = some j := by
    cases w with
    | frm => exact hI.frmLoc j h (by simp only [src] at hsrc; simp [hsrc])
    | to => exact hI.toLoc j h (by simp only [src] at hsrc; simp [hsrc])
  have hn := lbNext_some hlb
  by_cases hhf : h = f
  · -- `f` itself is stolen: bottom of the thief's `schedule_from`, position 0
    subst hhf
    have hl' : s'.loc h = some k := by simp [eloc]
    have hck : s'.cur k ≠ some h := by
      rw [ecur]; intro hc
      have := hI.curLoc k h hc
      rw [hhj] at this; simp at this; exact hkj this.symm
    rw [pot_queued hl' hck, efk]
    simp only [isStealOf, decide_true, if_true, qpot, List.mem_cons, true_or, pos_cons, slack, elb,
      upd_same]
    have : 0 < n := by rcases hn with h | h <;> omega
    simp only [this, if_true]
    omega
  · simp only [isStealOf, hhf, decide_false, Bool.false_eq_true, if_false, Nat.add_zero]
    have hfh : f ≠ h := fun e => hhf e.symm
    have hlf : s'.loc f = s.loc f := by simp [eloc, upd, hfh]
    cases hl : s.loc f with
    | none => rw [pot_none (hlf ▸ hl)]; exact Nat.zero_le _
    | some i =>
      have hl' : s'.loc f = some i := hlf ▸ hl
      by_cases hci : s.cur i = some f
      · rw [pot_cur hl' (ecur ▸ hci), pot_cur hl hci, ebusy]
        exact Nat.le_refl _
      · rw [pot_queued hl' (ecur ▸ hci), pot_queued hl hci]
        have hcnt : cnt s' i = cnt s i := by simp [cnt, ecur]
        rw [hcnt, ebusy]
        have hq := queued_of_loc hI hl hci
        by_cases hik : i = k
        · -- the holder itself steals one more
          subst hik
          rw [efk, etk]
          by_cases hfi : f ∈ s.frm i
          · -- `f` is loot of the load_balance call in progress
            rcases hn with ⟨h1, _⟩ | ⟨_, h1, h2, h3⟩
            · simp [h1] at hfi
            · simp only [qpot, List.mem_cons, hfi, or_true, if_true, pos_cons, hhf,
                if_false, slack, elb, upd_same, h1]
              have : 0 < n := by omega
              simp only [this, if_true]
              omega
          · -- `f` waits in `store_to`: the loot will be run first, but it existed before
            simp [qpot, hfi, hfh]
        · have hlbi : s'.lb i = s.lb i := by simp [elb, upd, hik]
          have hsl : slack M s' i = slack M s i := by simp [slack, hlbi]
          rw [hsl]
          by_cases hij : i = j
          · -- stolen from the holder's top
            subst hij
            cases w with
            | frm =>
              simp only [src] at hsrc
              rw [(ewf rfl).1, (ewf rfl).2, hsrc]
              simp only [qpot, List.mem_append, List.mem_singleton, hfh, or_false]
              split
              · rename_i hfr; rw [pos_append_of_mem _ hfr]; exact Nat.le_refl _
              · exact Nat.le_refl _
            | to =>
              simp only [src] at hsrc
              rw [(ewt rfl).1, (ewt rfl).2, hsrc]
              simp only [qpot]
              split
              · exact Nat.le_refl _
              · rename_i hfr
                have hft : f ∈ rest := by
                  rcases hq with h | h
                  · exact absurd h hfr
                  · rw [hsrc] at h; simpa [hfh] using h
                rw [pos_append_of_mem _ hft]
                exact Nat.le_refl _
          · rw [(eoth i hik hij).1, (eoth i hik hij).2]
            exact Nat.le_refl _

/-- a wake-up / creation of ANOTHER fiber raises the potential by at most 2 -/
theorem pot_sched {M f k g : Nat} {s s' : St}
    (h : step M s (.sched k g) = some s') (hgf : g ≠ f) : pot M f s' ≤ pot M f s + 2 := by
  obtain ⟨_, hck, hlg, hs'⟩ := step_sched h
  have eloc : s'.loc = upd s.loc g (some k) := by rw [hs']
  have ebusy : s'.busy = g :: s.busy := by rw [hs']
  have ecur : s'.cur = s.cur := by rw [hs']
  have efrm : s'.frm = s.frm := by rw [hs']
  have eto : s'.to = upd s.to k (g :: s.to k) := by rw [hs']
  have elb : s'.lb = s.lb := by rw [hs']
  clear hs'
  have hfg : f ≠ g := fun e => hgf e.symm
  cases hl : s.loc f with
  | none => rw [pot_none (by simp [eloc, upd, hfg, hl])]; exact Nat.zero_le _
  | some i =>
    have hl' : s'.loc f = some i := by simp [eloc, upd, hfg, hl]
    by_cases hci : s.cur i = some f
    · rw [pot_cur hl' (ecur ▸ hci), pot_cur hl hci, ebusy]
      simp only [List.length_cons]
      omega
    · rw [pot_queued hl' (ecur ▸ hci), pot_queued hl hci]
      simp only [qpot, slack, cnt, ebusy, ecur, efrm, eto, elb, List.length_cons]
      by_cases hik : i = k
      · subst hik
        simp only [upd_same, pos_cons, hgf, if_false]
        split
        · omega
        · omega
      · simp only [upd, if_neg hik]
        split
        · omega
        · omega

/-! ### a ready fiber stays ready, and is never skipped -/

/-- `f`'s context is saved (its state word is not SAVING_STATE_TO_WAIT), or `f` is nowhere -/
def Ready (f : Nat) (s : St) : Prop := s.sav f = false ∨ s.loc f = none

/-- only the end of `f`'s own run makes it SAVING_STATE_TO_WAIT, and then it is nowhere until it
    is woken (`sched _ f`) -/
theorem ready_step {M f : Nat} {s s' : St} {e : Ev} (hI : Inv M s) (h : step M s e = some s')
    (hns : isSchedOf f e = false) (hr : Ready f s) : Ready f s' := by
  cases e with
  | sched k g =>
    obtain ⟨_, _, _, rfl⟩ := step_sched h
    have hgf : f ≠ g := by intro e; simp [isSchedOf, e] at hns
    simpa [Ready, upd, hgf] using hr
  | yield k => obtain ⟨_, _, rfl⟩ := step_yield h; exact hr
  | pop k g => obtain ⟨_, _, rfl⟩ := step_pop h; exact hr
  | skip k g => obtain ⟨_, _, _, _, _, rfl⟩ := step_skip h; exact hr
  | switch k g => obtain ⟨_, _, _, _, _, rfl⟩ := step_switch h; exact hr
  | pushed k w g => obtain ⟨_, rfl⟩ := step_pushed h; exact hr
  | resumed k =>
    rcases step_resumed h with ⟨_, rfl⟩ | ⟨_, _, rfl⟩ | ⟨_, _, _, rfl⟩ <;> exact hr
  | idle k => obtain ⟨_, _, rfl⟩ := step_idle h; exact hr
  | finish k sv =>
    obtain ⟨c, _, _, rfl⟩ := step_finish h
    by_cases hfc : f = c
    · right; simp [hfc]
    · simpa [Ready, upd, hfc] using hr
  | saved k g =>
    obtain ⟨_, rfl⟩ := step_saved h
    rcases hr with hr | hr
    · left; simp only [upd]; split <;> simp_all
    · exact Or.inr hr
  | steal k j w g =>
    obtain ⟨_, _, rest, n, hsrc, _, hs'⟩ := step_steal h
    have esav : s'.sav = s.sav := by rw [hs']; cases w <;> rfl
    have eloc : s'.loc = upd s.loc g (some k) := by rw [hs']
    have hgj : s.loc g = some j := by
      cases w with
      | frm => exact hI.frmLoc j g (by simp only [src] at hsrc; simp [hsrc])
      | to => exact hI.toLoc j g (by simp only [src] at hsrc; simp [hsrc])
    rcases hr with hr | hr
    · exact Or.inl (esav ▸ hr)
    · have hfg : f ≠ g := by intro e; rw [e, hgj] at hr; simp at hr
      right; rw [eloc]; simp [upd, hfg, hr]

/-- a ready fiber is never found in state SAVING_STATE_TO_WAIT by fiber_scheduler_next -/
theorem not_skip_of_ready {M f k : Nat} {s s' : St} (hI : Inv M s) (hr : Ready f s)
    (h : step M s (.skip k f) = some s') : False := by
  obtain ⟨_, hsv, frm', to', hn, _⟩ := step_skip h
  have hq : f ∈ s.frm k ∨ f ∈ s.to k := by
    rcases next_some hn with ⟨hf, _⟩ | ⟨_, ht, _⟩
    · left; simp [hf]
    · right; simp [ht]
  have hl : s.loc f = some k := by
    rcases hq with hq | hq
    · exact hI.frmLoc k f hq
    · exact hI.toLoc k f hq
  rcases hr with hr | hr
  · rw [hr] at hsv; simp at hsv
  · rw [hl] at hr; simp at hr

/-! ### one step, many steps -/

/-- One step, seen from fiber `f`: a context switch on the thread that holds `f` costs one
    unit of potential; only a steal of `f` itself may raise it, by at most `maxSteal - 1`, and
    the creation / wake-up of another fiber, by 2.  (`f` itself is not woken, not switched
    to, and not skipped.) -/
theorem pot_step {M f : Nat} {s s' : St} {e : Ev} (hI : Inv M s) (h : step M s e = some s')
    (hns : isSchedOf f e = false) (hnr : isRunOf f e = false) (hnk : isSkipOf f e = false) :
    pot M f s' + (if holderSwitch f s e then 1 else 0) ≤
      pot M f s + (if isStealOf f e then M - 1 else 0) + (if isSched e then 2 else 0) := by
  cases e with
  | sched k g =>
    have hgf : g ≠ f := by simpa [isSchedOf] using hns
    simpa [holderSwitch, isStealOf, isSched] using pot_sched h hgf
  | yield k => simp [holderSwitch, isStealOf, isSched, pot_yield h]
  | pop k g =>
    obtain ⟨_, _, rfl⟩ := step_pop h
    have e : pot M f { s with hand := upd s.hand k (some g) } = pot M f s := rfl
    simp [holderSwitch, isStealOf, isSched, e]
  | pushed k w g =>
    obtain ⟨_, rfl⟩ := step_pushed h
    have e : pot M f { s with pend := upd s.pend k none } = pot M f s := rfl
    simp [holderSwitch, isStealOf, isSched, e]
  | idle k => obtain ⟨_, _, rfl⟩ := step_idle h; simp [holderSwitch, isStealOf, isSched]
  | saved k g =>
    obtain ⟨_, rfl⟩ := step_saved h
    have e : pot M f { s with sav := upd s.sav g false } = pot M f s := rfl
    simp [holderSwitch, isStealOf, isSched, e]
  | resumed k => simpa [holderSwitch, isStealOf, isSched] using pot_resumed h
  | finish k sv => simpa [holderSwitch, isStealOf, isSched] using pot_finish hI h
  | skip k g =>
    have hgf : g ≠ f := by simpa [isSkipOf] using hnk
    simpa [holderSwitch, isStealOf, isSched] using pot_skip hI h hgf
  | switch k g =>
    have hgf : g ≠ f := by simpa [isRunOf] using hnr
    simpa [isStealOf, isSched] using pot_switch hI h hgf
  | steal k j w g => simpa [holderSwitch, isSched] using pot_steal hI h

theorem inv_runFrom {M : Nat} : ∀ (es : List Ev) (s s' : St), Inv M s →
    (sys M).runFrom s es = some s' → Inv M s' := by
  intro es
  induction es with
  | nil => intro s s' hI h; simp [Sys.runFrom] at h; subst h; exact hI
  | cons e es ih =>
    intro s s' hI h
    simp only [Sys.runFrom] at h
    cases hst : (sys M).step s e with
    | none => simp [hst] at h
    | some s1 =>
      simp [hst] at h
      exact ih s1 s' (inv_step hI hst) h

/-- Along any accepted continuation in which the ready fiber `f` is neither woken (it is not
    parked) nor switched to:
    `#(switches on f's holder) ≤ pot f s − pot f s' + (maxSteal − 1)·#(steals of f) + 2·#(sched)`. -/
theorem pot_run {M f : Nat} : ∀ (es : List Ev) (s s' : St), Inv M s → Ready f s →
    (sys M).runFrom s es = some s' → (∀ e ∈ es, isSchedOf f e = false) →
    (∀ e ∈ es, isRunOf f e = false) →
    pot M f s' + holderSwitches M f s es ≤
      pot M f s + (M - 1) * stealsOf f es + 2 * scheds es := by
  intro es
  induction es with
  | nil =>
    intro s s' _ _ h _ _
    simp [Sys.runFrom] at h; subst h; simp [holderSwitches, stealsOf, scheds]
  | cons e es ih =>
    intro s s' hI hR h hns hnr
    simp only [Sys.runFrom] at h
    cases hst : (sys M).step s e with
    | none => simp [hst] at h
    | some s1 =>
      simp [hst] at h
      have hst' : step M s e = some s1 := hst
      have hnk : isSkipOf f e = false := by
        cases e with
        | skip k g =>
          simp only [isSkipOf, decide_eq_false_iff_not]
          intro hgf
          subst hgf
          exact not_skip_of_ready hI hR hst'
        | _ => rfl
      have h1 := pot_step hI hst' (hns e (by simp)) (hnr e (by simp)) hnk
      have h2 := ih s1 s' (inv_step hI hst') (ready_step hI hst' (hns e (by simp)) hR) h
        (fun e' he' => hns e' (by simp [he'])) (fun e' he' => hnr e' (by simp [he']))
      simp only [holderSwitches, hst', stealsOf, scheds, List.countP_cons] at *
      cases hso : isStealOf f e <;> cases hsc : isSched e <;> simp [hso, hsc] at h1 ⊢
      · omega
      · omega
      · rw [Nat.mul_add]; omega
      · rw [Nat.mul_add]; omega

theorem scheds_eq_zero {es : List Ev} (h : ∀ e ∈ es, isSched e = false) : scheds es = 0 := by
  simp only [scheds, List.countP_eq_zero]
  intro e he; simp [h e he]

theorem isSchedOf_of_isSched {f : Nat} {e : Ev} (h : isSched e = false) : isSchedOf f e = false := by
  cases e <;> simp_all [isSched, isSchedOf]

/-! ### the clauses of the multi-thread statement, one step at a time -/

/-- the kernel thread that performs an event -/
def actor : Ev → Nat
  | .sched k _ => k
  | .yield k => k
  | .pop k _ => k
  | .skip k _ => k
  | .switch k _ => k
  | .pushed k _ _ => k
  | .resumed k => k
  | .idle k => k
  | .finish k _ => k
  | .saved k _ => k
  | .steal k _ _ _ => k

/-- the victim of a steal -/
def victim : Ev → Option Nat
  | .steal _ j _ _ => some j
  | _ => none

/-- An event of thread `j` touches the deques, current fiber and load_balance counter of
    thread `j` only — and of its victim, if it is a steal. -/
theorem frame {M : Nat} {s s' : St} {e : Ev} {k : Nat} (h : step M s e = some s')
    (ha : actor e ≠ k) (hv : victim e ≠ some k) :
    s'.frm k = s.frm k ∧ s'.to k = s.to k ∧ s'.cur k = s.cur k ∧ s'.lb k = s.lb k ∧
    s'.phase k = s.phase k := by
  have hk : ∀ {a : Nat}, actor e = a → k ≠ a := fun h1 h2 => ha (h1.trans h2.symm)
  cases e with
  | sched j f => obtain ⟨_, _, _, rfl⟩ := step_sched h; simp [upd, hk (a := j) rfl]
  | yield j => obtain ⟨_, _, rfl⟩ := step_yield h; simp [upd, hk (a := j) rfl]
  | pop j g => obtain ⟨_, _, rfl⟩ := step_pop h; simp
  | pushed j w g => obtain ⟨_, rfl⟩ := step_pushed h; simp
  | idle j => obtain ⟨_, _, rfl⟩ := step_idle h; simp
  | saved j g => obtain ⟨_, rfl⟩ := step_saved h; simp
  | finish j sv => obtain ⟨_, _, _, rfl⟩ := step_finish h; simp [upd, hk (a := j) rfl]
  | resumed j =>
    rcases step_resumed h with ⟨_, rfl⟩ | ⟨_, _, rfl⟩ | ⟨_, _, _, rfl⟩ <;>
      simp [upd, hk (a := j) rfl]
  | skip j g => obtain ⟨_, _, _, _, _, rfl⟩ := step_skip h; simp [upd, hk (a := j) rfl]
  | switch j g => obtain ⟨_, _, _, _, _, rfl⟩ := step_switch h; simp [upd, hk (a := j) rfl]
  | steal j i w f =>
    obtain ⟨_, _, rest, n, _, _, ecur, _, eph, _, elb, _, _, eoth, _, _⟩ := step_steal_eff h
    have h1 : k ≠ j := hk (a := j) rfl
    have h2 : k ≠ i := fun hki => hv (by simp [victim, hki])
    simp [ecur, eph, elb, upd, h1, eoth k h1 h2]

/-- (a) a switch on the holder to another fiber: `f` stays queued there and its rank drops -/
theorem rank_switch {M : Nat} {s s' : St} {k g f : Nat} (hI : Inv M s) (hq : QueuedOn k f s)
    (h : step M s (.switch k g) = some s') (hgf : g ≠ f) :
    QueuedOn k f s' ∧ rankOn k f s' < rankOn k f s := by
  obtain ⟨_, _, frm', to', hn, rfl⟩ := step_switch h
  have hc : s.cur k ≠ some f := by
    intro hc
    have := hI.curNot k f hc
    rcases hq with h | h
    · exact this.1 h
    · exact this.2 h
  have := rk_next (s.cur k) hn hgf hq hc
  simp only [QueuedOn, rankOn_eq, upd_same]
  exact ⟨this.1, by omega⟩

/-- (a') fiber_scheduler_next skips another fiber (SAVING_STATE_TO_WAIT) on the holder: no
    context switch, `f` stays queued and its rank drops -/
theorem rank_skip {M : Nat} {s s' : St} {k g f : Nat} (hq : QueuedOn k f s)
    (h : step M s (.skip k g) = some s') (hgf : g ≠ f) :
    QueuedOn k f s' ∧ rankOn k f s' < rankOn k f s := by
  obtain ⟨_, _, frm', to', hn, rfl⟩ := step_skip h
  have := rk_next_gen [g] hn hgf hq (by simp [Ne.symm hgf]) (by simp)
  simp only [QueuedOn, rankOn_eq, upd_same]
  have h2 := this.2
  simp only [List.cons_append, List.nil_append] at h2
  exact ⟨this.1, by omega⟩

/-- (d) a steal of another fiber `h ≠ f` from `f`'s holder `k` takes the TOP of a deque, i.e. an
    entry the holder would have run AFTER everything below it: `f` stays queued on `k`, and its
    rank is unchanged — except that it drops by 2 when `f` waits in `store_to` and the loot
    comes out of `schedule_from` (one pop and one re-queued yielder less in front of `f`). -/
theorem rank_steal_other {M : Nat} {s s' : St} {k j h f : Nat} {w : Which} (hI : Inv M s)
    (hq : QueuedOn k f s) (hst : step M s (.steal j k w h) = some s') (hhf : h ≠ f) :
    QueuedOn k f s' ∧
      rankOn k f s' = rankOn k f s - (if w = .frm ∧ f ∈ s.to k then 2 else 0) := by
  obtain ⟨hjk, _, rest, n, hsrc, _, _, _, _, _, _, _, _, _, ewf, ewt⟩ := step_steal_eff hst
  have hnd := hI.nodup k
  have hfh : f ≠ h := fun e => hhf e.symm
  simp only [QueuedOn, rankOn_eq]
  cases w with
  | frm =>
    simp only [src] at hsrc
    rw [(ewf rfl).1, (ewf rfl).2, rk_steal_frm (to := s.to k) hhf, ← hsrc]
    have hiff : f ∈ rest ↔ f ∉ s.to k := by
      unfold QueuedOn at hq
      rw [hsrc] at hnd hq
      constructor
      · intro h1 h2
        exact (List.nodup_append.mp hnd).2.2 f (by simp [h1]) f h2 rfl
      · intro h1
        rcases hq with h2 | h2
        · simpa [hfh] using h2
        · exact absurd h2 h1
    refine ⟨?_, ?_⟩
    · by_cases h1 : f ∈ s.to k
      · exact Or.inr h1
      · exact Or.inl (hiff.mpr h1)
    · by_cases h1 : f ∈ s.to k
      · simp [h1, hiff]
      · simp [h1, hiff]
  | to =>
    simp only [src] at hsrc
    rw [(ewt rfl).1, (ewt rfl).2]
    have hq' : f ∈ s.frm k ∨ f ∈ rest := by
      rcases hq with h1 | h1
      · exact Or.inl h1
      · rw [hsrc] at h1; simp [hfh] at h1; exact Or.inr h1
    rw [hsrc, ← rk_steal_to (h := h) hq']
    simp [hq']

/-- (b) events of OTHER threads that do not steal `f` itself never increase `f`'s rank on its
    holder `k` (and leave it queued there) -/
theorem rank_other_thread {M : Nat} {s s' : St} {e : Ev} {k f : Nat} (hI : Inv M s)
    (hq : QueuedOn k f s) (h : step M s e = some s') (ha : actor e ≠ k)
    (hnf : isStealOf f e = false) :
    QueuedOn k f s' ∧ rankOn k f s' ≤ rankOn k f s := by
  by_cases hv : victim e = some k
  · cases e with
    | steal j i w g =>
      simp [victim] at hv; subst hv
      have hgf : g ≠ f := by simpa [isStealOf] using hnf
      have := rank_steal_other hI hq h hgf
      exact ⟨this.1, by omega⟩
    | _ => simp [victim] at hv
  · obtain ⟨h1, h2, _⟩ := frame h ha hv
    simp only [QueuedOn, rankOn_eq, h1, h2]
    exact ⟨hq, Nat.le_refl _⟩

/-- events of the holder itself other than `skip`, `switch` and `steal` do not move `f` -/
theorem rank_own_other {M : Nat} {s s' : St} {e : Ev} {k f : Nat}
    (hq : QueuedOn k f s) (h : step M s e = some s') (ha : actor e = k)
    (hns : isSched e = false) (hsk : ∀ g, e ≠ .skip k g) (hsw : ∀ g, e ≠ .switch k g)
    (hst : ∀ j w g, e ≠ .steal k j w g) :
    QueuedOn k f s' ∧ rankOn k f s' = rankOn k f s := by
  cases e with
  | sched j g => simp [isSched] at hns
  | yield j => obtain ⟨_, _, rfl⟩ := step_yield h; exact ⟨hq, rfl⟩
  | pop j g => obtain ⟨_, _, rfl⟩ := step_pop h; exact ⟨hq, rfl⟩
  | pushed j w g => obtain ⟨_, rfl⟩ := step_pushed h; exact ⟨hq, rfl⟩
  | idle j => obtain ⟨_, _, rfl⟩ := step_idle h; exact ⟨hq, rfl⟩
  | saved j g => obtain ⟨_, rfl⟩ := step_saved h; exact ⟨hq, rfl⟩
  | finish j sv => obtain ⟨_, _, _, rfl⟩ := step_finish h; exact ⟨hq, rfl⟩
  | resumed j =>
    rcases step_resumed h with ⟨_, rfl⟩ | ⟨_, _, rfl⟩ | ⟨_, _, _, rfl⟩ <;> exact ⟨hq, rfl⟩
  | skip j g => simp [actor] at ha; subst ha; exact absurd rfl (hsk g)
  | switch j g => simp [actor] at ha; subst ha; exact absurd rfl (hsw g)
  | steal j i w g => simp [actor] at ha; subst ha; exact absurd rfl (hst i w g)

/-- (c) a steal of `f`: `f` lands on the bottom of the thief's `schedule_from`, rank 0 -/
theorem rank_stolen {M : Nat} {s s' : St} {k j f : Nat} {w : Which} (hI : Inv M s)
    (hst : step M s (.steal k j w f) = some s') :
    s.loc f = some j ∧ s'.loc f = some k ∧ s'.frm k = f :: s.frm k ∧ QueuedOn k f s' ∧
      rankOn k f s' = 0 ∧ 0 < s'.lb k := by
  obtain ⟨_, _, rest, n, hsrc, hlb, _, _, _, eloc, elb, efk, _, _, _, _⟩ := step_steal_eff hst
  have hhj : s.loc f = some j := by
    cases w with
    | frm => exact hI.frmLoc j f (by simp only [src] at hsrc; simp [hsrc])
    | to => exact hI.toLoc j f (by simp only [src] at hsrc; simp [hsrc])
  refine ⟨hhj, by simp [eloc], efk, Or.inl (by simp [efk]), by simp [rankOn_eq, rk, efk, pos_cons],
    ?_⟩
  rw [elb]; simp
  rcases lbNext_some hlb with h | h <;> omega

/-- (c) the fiber on the bottom of `schedule_from` is the one the next switch goes to -/
theorem switch_bottom {M : Nat} {s s' : St} {k g f : Nat} {r : List Nat}
    (hf : s.frm k = f :: r) (h : step M s (.switch k g) = some s') : g = f := by
  obtain ⟨_, _, frm', to', hn, _⟩ := step_switch h
  rw [hf] at hn
  simp [next] at hn
  exact hn.1.symm

/-- (c) the holder steals once more.  Either `f` is loot of the load_balance call in progress
    (`f` sits in `schedule_from`, fewer than `maxSteal` steals so far): rank + 1.  Or `f` waits in
    `store_to` (fiber_scheduler_next returns NULL as soon as `schedule_from` is exhausted, with
    the fibers it skipped — and whatever was woken since — in `store_to`): rank + 2, the loot
    is popped before the deques are swapped and re-queued in front of `f` if it yields. -/
theorem rank_holder_steals {M : Nat} {s s' : St} {k j h f : Nat} {w : Which} (hI : Inv M s)
    (hq : QueuedOn k f s) (hst : step M s (.steal k j w h) = some s') :
    QueuedOn k f s' ∧
    ((f ∈ s.frm k ∧ 0 < s.lb k ∧ s.lb k < M ∧ s'.lb k = s.lb k + 1 ∧
        rankOn k f s' = rankOn k f s + 1) ∨
     (f ∈ s.to k ∧ rankOn k f s' = rankOn k f s + 2)) := by
  obtain ⟨hkj, _, rest, n, hsrc, hlb, _, _, _, _, elb, efk, etk, _, _, _⟩ := step_steal_eff hst
  have hhj : s.loc h = some j := by
    cases w with
    | frm => exact hI.frmLoc j h (by simp only [src] at hsrc; simp [hsrc])
    | to => exact hI.toLoc j h (by simp only [src] at hsrc; simp [hsrc])
  have hhf : h ≠ f := by
    intro e; subst e
    rcases hq with h1 | h1
    · have := hI.frmLoc k h h1; rw [hhj] at this; simp at this; exact hkj this.symm
    · have := hI.toLoc k h h1; rw [hhj] at this; simp at this; exact hkj this.symm
  have hnd := hI.nodup k
  by_cases hfk : f ∈ s.frm k
  · rcases lbNext_some hlb with ⟨h1, _⟩ | ⟨_, h1, h2, h3⟩
    · simp [h1] at hfk
    · refine ⟨Or.inl (by simp [efk, hfk]), Or.inl ⟨hfk, h1, h2, by simp [elb, h3], ?_⟩⟩
      simp [rankOn_eq, rk, efk, hfk, pos_cons, hhf]
  · have hft : f ∈ s.to k := by
      rcases hq with h1 | h1
      · exact absurd h1 hfk
      · exact h1
    refine ⟨Or.inr (by simp [etk, hft]), Or.inr ⟨hft, ?_⟩⟩
    have hfh : f ≠ h := fun e => hhf e.symm
    simp [rankOn_eq, rk, efk, etk, hfk, hfh]
    omega

/-- inside a load_balance call everything in `schedule_from` is loot of that call: the rank
    of a fiber there is below the number of steals made so far, hence below `maxSteal` -/
theorem rank_lt_lb {M : Nat} {s : St} {k f : Nat} (hI : Inv M s) (hl : 0 < s.lb k)
    (hf : f ∈ s.frm k) : rankOn k f s < s.lb k ∧ s.lb k ≤ max M 1 := by
  have h1 := hI.lbLen k hl
  have h2 := Sched.pos_lt_length hf
  simp only [rankOn_eq, rk, hf, if_true]
  exact ⟨by omega, hI.lbMax k⟩

/-- the potential is bounded by the number of fibers and `maxSteal` -/
theorem pot_le {M : Nat} {s : St} (hI : Inv M s) (f : Nat) :
    pot M f s ≤ 2 * s.busy.length + (M - 1) := by
  cases hl : s.loc f with
  | none => rw [pot_none hl]; exact Nat.zero_le _
  | some k =>
    by_cases hc : s.cur k = some f
    · rw [pot_cur hl hc]; omega
    · rw [pot_queued hl hc]
      have hcap := cap hI k
      simp only [qpot]
      split
      · rename_i hfk
        have hp := Sched.pos_lt_length hfk
        by_cases hlb : 0 < s.lb k
        · have h1 := hI.lbLen k hlb
          have hmax := hI.lbMax k
          simp only [slack, hlb, if_true]
          rw [Nat.max_def] at hmax
          split at hmax <;> omega
        · simp only [slack, hlb, if_false]
          omega
      · omega

/-- while `f` waits in `store_to` of its holder (it was re-queued after a run, woken, or
    skipped) its potential is at most `2·#fibers` -/
theorem pot_le_of_to {M : Nat} {s : St} {k f : Nat} (hI : Inv M s) (hf : f ∈ s.to k) :
    pot M f s ≤ 2 * s.busy.length := by
  have hl := hI.toLoc k f hf
  have hnd := hI.nodup k
  have hfk : f ∉ s.frm k := fun h => (List.nodup_append.mp hnd).2.2 f h f hf rfl
  by_cases hc : s.cur k = some f
  · rw [pot_cur hl hc]; omega
  · rw [pot_queued hl hc]
    simp only [qpot, hfk, if_false]
    omega


/-! ### steal ping-pong: two idle thieves can pass a ready fiber back and forth for ever -/

/-- fiber 0 (thread 0) wakes fiber 5; the idle threads 2 and 1 steal it in turn -/
def ppSetup : List Ev :=
  [.sched 0 5, .steal 2 0 .to 5, .pushed 2 .frm 5, .steal 1 2 .frm 5, .pushed 1 .frm 5]

/-- thread 2 steals fiber 5 from thread 1 before thread 1 has popped it, thread 1 steals it back
    before thread 2 has popped it; meanwhile fiber 0 polls with `fiber_yield` (nothing to run on
    thread 0: the call returns at once) -/
def ppCycle : List Ev :=
  [.steal 2 1 .frm 5, .pushed 2 .frm 5, .yield 0, .resumed 0,
   .steal 1 2 .frm 5, .pushed 1 .frm 5, .yield 0, .resumed 0]

def stealPingpong : Nat → List Ev
  | 0 => []
  | n + 1 => ppCycle ++ stealPingpong n

/-- the states the ping-pong passes through at the start of every cycle -/
structure PP (s : St) : Prop where
  frm0 : s.frm 0 = []
  to0 : s.to 0 = []
  cur0 : s.cur 0 = some 0
  ph0 : s.phase 0 = .running
  lb0 : s.lb 0 = 0
  hand0 : s.hand 0 = none
  pend0 : s.pend 0 = none
  frm1 : s.frm 1 = [5]
  to1 : s.to 1 = []
  ph1 : s.phase 1 = .ending
  hand1 : s.hand 1 = none
  pend1 : s.pend 1 = none
  frm2 : s.frm 2 = []
  to2 : s.to 2 = []
  ph2 : s.phase 2 = .ending
  hand2 : s.hand 2 = none
  pend2 : s.pend 2 = none

/-- `remote_count > local_count` (fiber_scheduler_wsd.c:135) holds at every steal of the run -/
def CountGuard (M : Nat) : St → List Ev → Prop
  | _, [] => True
  | s, e :: es =>
    (match e with
     | .steal k j w _ => (s.frm k).length < (src s j w).length
     | _ => True) ∧
    (match step M s e with
     | some s' => CountGuard M s' es
     | none => True)

theorem pp_setup (M : Nat) : ∃ s, (sys M).run ppSetup = some s ∧ PP s ∧
    CountGuard M init ppSetup := by
  refine ⟨_, rfl, ?_, ?_⟩
  · constructor <;> rfl
  · simp [CountGuard, ppSetup, step, init, src, popTop, lbNext, setSrc, upd]

theorem pp_cycle (M : Nat) {s : St} (h : PP s) :
    ∃ s', (sys M).runFrom s ppCycle = some s' ∧ PP s' ∧ CountGuard M s ppCycle := by
  obtain ⟨a1, a2, a3, a4, a5, a6, a7, a8, a9, a10, a11, a12, a13, a14, a15, a16, a17⟩ := h
  simp only [ppCycle, Sys.runFrom, sys, CountGuard]
  simp [step, src, popTop, lbNext, setSrc, upd, a1, a3, a4, a5, a6, a7, a8, a10, a11,
    a12, a13, a15, a16, a17]
  constructor <;> simp [upd, *]


theorem countGuard_append (M : Nat) : ∀ (a b : List Ev) (s : St),
    CountGuard M s (a ++ b) ↔
      (CountGuard M s a ∧ ∀ s1, (sys M).runFrom s a = some s1 → CountGuard M s1 b) := by
  intro a
  induction a with
  | nil => intro b s; simp [CountGuard, Sys.runFrom]
  | cons e a ih =>
    intro b s
    simp only [List.cons_append, CountGuard, Sys.runFrom, sys]
    cases hst : step M s e with
    | none => simp
    | some s1 =>
      simp only []
      have := ih b s1
      simp only [sys] at this
      rw [this, and_assoc]

theorem pingpong_run (M : Nat) : ∀ (n : Nat) {s : St}, PP s →
    ∃ s', (sys M).runFrom s (stealPingpong n) = some s' ∧ PP s' ∧
      CountGuard M s (stealPingpong n)
  | 0, s, h => ⟨s, rfl, h, trivial⟩
  | n + 1, s, h => by
    obtain ⟨s1, h1, hp1, hg1⟩ := pp_cycle M h
    obtain ⟨s2, h2, hp2, hg2⟩ := pingpong_run M n hp1
    refine ⟨s2, ?_, hp2, ?_⟩
    · simp [stealPingpong, Sys.runFrom_append, h1, h2]
    · simp only [stealPingpong]
      rw [countGuard_append]
      refine ⟨hg1, ?_⟩
      intro s1' hs1'
      rw [h1] at hs1'
      cases hs1'
      exact hg2

def isSwitch : Ev → Bool
  | .switch _ _ => true
  | _ => false

theorem ppCycle_props : (∀ e ∈ ppCycle, isSched e = false ∧ isSwitch e = false) ∧
    stealsOf 5 ppCycle = 2 ∧ ppCycle.count (.yield 0) = 2 := by decide

theorem pingpong_props : ∀ (n : Nat),
    (∀ e ∈ stealPingpong n, isSched e = false ∧ isSwitch e = false) ∧
    stealsOf 5 (stealPingpong n) = 2 * n ∧ (stealPingpong n).count (.yield 0) = 2 * n
  | 0 => by simp [stealPingpong, stealsOf]
  | n + 1 => by
    obtain ⟨h1, h2, h3⟩ := pingpong_props n
    obtain ⟨c1, c2, c3⟩ := ppCycle_props
    refine ⟨?_, ?_, ?_⟩
    · intro e he
      simp only [stealPingpong, List.mem_append] at he
      rcases he with he | he
      · exact c1 e he
      · exact h1 e he
    · simp only [stealsOf, stealPingpong, List.countP_append] at *
      omega
    · simp only [stealPingpong, List.count_append] at *
      omega


/-! ### a fiber whose context is still being saved can be bypassed without bound -/

/-- thread 1 steals fiber 1 and runs it; fiber 1 parks in state SAVING_STATE_TO_WAIT; fiber 0
    wakes it at once — and thread 1 does not get to complete the context switch -/
def svSetup : List Ev :=
  [.sched 0 1, .sched 0 2, .steal 1 0 .to 1, .pushed 1 .frm 1, .pop 1 1, .switch 1 1,
   .finish 1 true, .sched 0 1]

/-- fibers 0 and 2 keep yielding to each other on thread 0; every time fiber_scheduler_next comes
    across fiber 1 it finds it SAVING_STATE_TO_WAIT and skips it -/
def svCycle : List Ev :=
  [.yield 0, .pop 0 1, .skip 0 1, .pushed 0 .to 1, .pop 0 2, .switch 0 2, .pushed 0 .to 0,
   .yield 0, .pop 0 0, .switch 0 0, .pushed 0 .to 2,
   .yield 0, .pop 0 1, .skip 0 1, .pushed 0 .to 1, .resumed 0]

def savingSkipped : Nat → List Ev
  | 0 => []
  | n + 1 => svCycle ++ savingSkipped n

/-- the states the run passes through at the start of every cycle -/
structure SV (s : St) : Prop where
  frm0 : s.frm 0 = []
  to0 : s.to 0 = [1, 2]
  cur0 : s.cur 0 = some 0
  ph0 : s.phase 0 = .running
  hand0 : s.hand 0 = none
  pend0 : s.pend 0 = none
  sav0 : s.sav 0 = false
  sav1 : s.sav 1 = true
  sav2 : s.sav 2 = false
  loc1 : s.loc 1 = some 0

theorem sv_setup (M : Nat) : ∃ s, (sys M).run svSetup = some s ∧ SV s ∧ s.busy.length = 3 := by
  refine ⟨_, rfl, ?_, rfl⟩
  constructor <;> rfl

theorem sv_cycle (M : Nat) {s : St} (h : SV s) :
    ∃ s', (sys M).runFrom s svCycle = some s' ∧ SV s' ∧ s'.busy = s.busy ∧
      holderSwitches M 1 s svCycle = 2 := by
  obtain ⟨a1, a2, a3, a4, a6, a7, a8, a9, a10, a11⟩ := h
  simp only [svCycle, Sys.runFrom, sys, holderSwitches]
  simp [step, next, upd, holderSwitch, a1, a2, a3, a4, a6, a7, a8, a9, a10, a11]
  constructor <;> simp [upd, *]

theorem holderSwitches_append (M f : Nat) : ∀ (a b : List Ev) (s : St),
    holderSwitches M f s (a ++ b) = holderSwitches M f s a +
      (match (sys M).runFrom s a with
       | some s1 => holderSwitches M f s1 b
       | none => 0) := by
  intro a
  induction a with
  | nil => intro b s; simp [holderSwitches, Sys.runFrom]
  | cons e a ih =>
    intro b s
    simp only [List.cons_append, holderSwitches, Sys.runFrom, sys]
    cases hst : step M s e with
    | none => simp
    | some s1 =>
      simp only []
      have := ih b s1
      simp only [sys] at this
      rw [this]
      omega

theorem saving_run (M : Nat) : ∀ (n : Nat) {s : St}, SV s →
    ∃ s', (sys M).runFrom s (savingSkipped n) = some s' ∧ SV s' ∧ s'.busy = s.busy ∧
      holderSwitches M 1 s (savingSkipped n) = 2 * n
  | 0, s, h => ⟨s, rfl, h, rfl, rfl⟩
  | n + 1, s, h => by
    obtain ⟨s1, h1, hp1, hb1, hc1⟩ := sv_cycle M h
    obtain ⟨s2, h2, hp2, hb2, hc2⟩ := saving_run M n hp1
    refine ⟨s2, ?_, hp2, hb2.trans hb1, ?_⟩
    · simp [savingSkipped, Sys.runFrom_append, h1, h2]
    · simp only [savingSkipped]
      rw [holderSwitches_append, h1, hc1]
      simp only [hc2]
      omega

theorem svCycle_props : (∀ e ∈ svCycle, isSched e = false ∧ isRunOf 1 e = false) ∧
    stealsOf 1 svCycle = 0 := by decide

theorem saving_props : ∀ (n : Nat),
    (∀ e ∈ savingSkipped n, isSched e = false ∧ isRunOf 1 e = false) ∧
    stealsOf 1 (savingSkipped n) = 0
  | 0 => by simp [savingSkipped, stealsOf]
  | n + 1 => by
    obtain ⟨h1, h2⟩ := saving_props n
    obtain ⟨c1, c2⟩ := svCycle_props
    refine ⟨?_, ?_⟩
    · intro e he
      simp only [savingSkipped, List.mem_append] at he
      rcases he with he | he
      · exact c1 e he
      · exact h1 e he
    · simp only [stealsOf, savingSkipped, List.countP_append] at *
      omega

end LibfiberVerif.SchedN
