/-
  Proof/Sched.lean — fairness of fiber_yield on one kernel thread (property C10).

  * `rank f s`  : a measure on states in which `f` is queued that every context switch to
                  another fiber strictly decreases (storeTo variant) — bounded bypass.
  * `Wf`        : no fiber is queued twice, the running fiber is not queued (both variants).
  * `credit g f s` : how often `g` can still be switched to before `f` is (≤ 2).
  * `pingpong`  : the starvation trace of the scheduleFrom variant.
-/
import LibfiberVerif.Model.Sched

namespace LibfiberVerif.Sched

/-- `f` is ready: it sits in one of the two run queues of the thread. -/
def Queued (f : Nat) (s : St) : Prop := f ∈ s.frm ∨ f ∈ s.to

instance (f : Nat) (s : St) : Decidable (Queued f s) := by unfold Queued; infer_instance

/-- index of the first occurrence of `f` (= number of entries popped before it) -/
def pos (f : Nat) : List Nat → Nat
  | [] => 0
  | x :: xs => if x = f then 0 else pos f xs + 1

/-- The bypass measure: the number of pops before `f` in `schedule_from`; for a fiber in
    `store_to`, the `|frm|` pops until the swap, the up to `|frm|` re-queued yielders that land
    in front of it, and the entries already in front of it. -/
def rank (f : Nat) (s : St) : Nat :=
  if f ∈ s.frm then pos f s.frm else 2 * s.frm.length + pos f s.to

def isSwitch : Ev → Bool
  | .switch _ => true
  | _ => false

def isSched : Ev → Bool
  | .sched _ => true
  | _ => false

/-- number of context switches in an event list -/
def switches (es : List Ev) : Nat := es.countP isSwitch

/-- number of `sched` events (newly created fibers) in an event list -/
def scheds (es : List Ev) : Nat := es.countP isSched

theorem pos_lt_length {f : Nat} {l : List Nat} (h : f ∈ l) : pos f l < l.length := by
  induction l with
  | nil => simp at h
  | cons x xs ih =>
    simp only [pos]
    split
    · simp
    · rename_i hx
      have : f ∈ xs := by
        cases h with
        | head => exact absurd rfl hx
        | tail _ h => exact h
      have := ih this
      simp; omega

/-- `rank f s < 2·|frm| + |to|` whenever `f` is queued. -/
theorem rank_lt {f : Nat} {s : St} (h : Queued f s) :
    rank f s < 2 * s.frm.length + s.to.length := by
  unfold rank
  split
  · rename_i hf
    have := pos_lt_length hf
    omega
  · rename_i hf
    have hto : f ∈ s.to := by
      cases h with
      | inl h => exact absurd h hf
      | inr h => exact h
    have := pos_lt_length hto
    omega

/-- One step of the `storeTo` scheduler, seen from a queued fiber `f` that is not the one
    switched to: `f` stays queued; a `switch` costs at least one unit of rank, a `sched`
    adds at most one, everything else leaves it alone. -/
theorem rank_step {f : Nat} {s s' : St} {e : Ev} (hq : Queued f s)
    (h : step .storeTo s e = some s') (hne : e ≠ .switch f) :
    Queued f s' ∧
      rank f s' + (if isSwitch e then 1 else 0) ≤ rank f s + (if isSched e then 1 else 0) := by
  obtain ⟨frm, to, cur, phase⟩ := s
  cases e with
  | sched g =>
    simp only [step] at h
    split at h <;> simp at h
    subst h
    simp only [Queued, rank, push, isSwitch, isSched] at *
    by_cases h1 : f ∈ frm
    · simp [h1]
    · have hft : f ∈ to := by simpa [h1] using hq
      simp [h1, hft, pos]; split <;> omega
  | yield g =>
    simp only [step] at h
    split at h <;> simp at h
    subst h
    simpa [Queued, rank, isSwitch, isSched] using hq
  | finish g =>
    simp only [step] at h
    split at h <;> simp at h
    subst h
    simpa [Queued, rank, isSwitch, isSched] using hq
  | resumed g =>
    simp only [step] at h
    split at h <;> try simp at h
    cases phase with
    | running => simp at h; subst h; simpa [Queued, rank, isSwitch, isSched] using hq
    | ending => simp at h
    | yielding =>
      simp only [Queued] at hq
      cases frm with
      | nil =>
        cases to with
        | nil => simp at hq
        | cons t ts => simp [next] at h
      | cons a as => simp [next] at h
  | switch g =>
    have hgf : g ≠ f := fun h => hne (by rw [h])
    simp only [Queued] at hq
    cases phase with
    | running => simp [step] at h
    | yielding =>
      cases frm with
      | nil =>
        cases to with
        | nil => simp at hq
        | cons t ts =>
          simp [step, next, push] at h
          obtain ⟨h1, h⟩ := h
          subst h1 h
          have hft : f ∈ ts := by simpa [Ne.symm hgf] using hq
          simp [Queued, rank, isSwitch, isSched, pos, hft, hgf]
      | cons a as =>
        simp [step, next, push] at h
        obtain ⟨h1, h⟩ := h
        subst h1 h
        simp only [Queued, rank, isSwitch, isSched]
        by_cases h1 : f ∈ as
        · simp [h1, pos, hgf]
        · have hft : f ∈ to := by simpa [Ne.symm hgf, h1] using hq
          simp [h1, hft, pos, Ne.symm hgf]
          split <;> omega
    | ending =>
      cases frm with
      | nil =>
        cases to with
        | nil => simp at hq
        | cons t ts =>
          simp [step, next] at h
          obtain ⟨h1, h⟩ := h
          subst h1 h
          have hft : f ∈ ts := by simpa [Ne.symm hgf] using hq
          simp [Queued, rank, isSwitch, isSched, pos, hft, hgf]
      | cons a as =>
        simp [step, next] at h
        obtain ⟨h1, h⟩ := h
        subst h1 h
        simp only [Queued, rank, isSwitch, isSched]
        by_cases h1 : f ∈ as
        · simp [h1, pos, hgf]
        · have hft : f ∈ to := by simpa [Ne.symm hgf, h1] using hq
          simp [h1, hft, Ne.symm hgf]
          omega

/-- Along any accepted continuation without `switch f`, a queued `f` stays queued and
    `#switches ≤ rank f s − rank f s' + #scheds`. -/
theorem rank_run {f : Nat} : ∀ (es : List Ev) (s s' : St), Queued f s →
    (sys .storeTo).runFrom s es = some s' → (∀ e ∈ es, e ≠ .switch f) →
    Queued f s' ∧ rank f s' + switches es ≤ rank f s + scheds es := by
  intro es
  induction es with
  | nil =>
    intro s s' hq h _
    simp [Sys.runFrom] at h; subst h; simp [switches, scheds, hq]
  | cons e es ih =>
    intro s s' hq h hne
    simp only [Sys.runFrom] at h
    cases hst : (sys .storeTo).step s e with
    | none => simp [hst] at h
    | some s1 =>
      simp [hst] at h
      have h1 := rank_step hq hst (hne e (by simp))
      have h2 := ih s1 s' h1.1 h (fun e' he' => hne e' (by simp [he']))
      refine ⟨h2.1, ?_⟩
      have h3 := h1.2
      have h4 := h2.2
      simp only [switches, scheds, List.countP_cons] at *
      cases hsw : isSwitch e <;> cases hsc : isSched e <;> simp [hsw, hsc] at h3 ⊢ <;> omega

/-! ### well-formedness: nothing is queued twice, the running fiber is not queued -/

structure Wf (s : St) : Prop where
  nodup : (s.frm ++ s.to).Nodup
  cur : s.cur ∉ s.frm ∧ s.cur ∉ s.to

theorem wf_init : Wf init := by
  constructor <;> simp [init]

theorem wf_step (tgt : Target) {s s' : St} {e : Ev} (hw : Wf s) (h : step tgt s e = some s') :
    Wf s' := by
  obtain ⟨frm, to, cur, phase⟩ := s
  obtain ⟨hn, hc1, hc2⟩ := hw
  simp only at hn hc1 hc2
  cases e with
  | sched g =>
    simp only [step] at h
    split at h <;> simp at h
    subst h
    cases tgt <;> constructor <;> simp [push] <;> grind
  | yield g =>
    simp only [step] at h
    split at h <;> simp at h
    subst h; exact ⟨hn, hc1, hc2⟩
  | finish g =>
    simp only [step] at h
    split at h <;> simp at h
    subst h; exact ⟨hn, hc1, hc2⟩
  | resumed g =>
    simp only [step] at h
    split at h <;> try simp at h
    cases phase with
    | running => simp at h; subst h; exact ⟨hn, hc1, hc2⟩
    | ending => simp at h
    | yielding =>
      cases frm with
      | nil =>
        cases to with
        | nil => simp [next] at h; subst h; constructor <;> simp
        | cons t ts => simp [next] at h
      | cons a as => simp [next] at h
  | switch g =>
    cases phase with
    | running => simp [step] at h
    | yielding =>
      cases frm with
      | nil =>
        cases to with
        | nil => simp [step, next] at h
        | cons t ts =>
          simp [step, next] at h
          obtain ⟨h1, h⟩ := h
          subst h1 h
          cases tgt <;> constructor <;> simp [push] <;> grind
      | cons a as =>
        simp [step, next] at h
        obtain ⟨h1, h⟩ := h
        subst h1 h
        cases tgt <;> constructor <;> simp [push] <;> grind
    | ending =>
      cases frm with
      | nil =>
        cases to with
        | nil => simp [step, next] at h
        | cons t ts =>
          simp [step, next] at h
          obtain ⟨h1, h⟩ := h
          subst h1 h
          constructor <;> simp <;> grind
      | cons a as =>
        simp [step, next] at h
        obtain ⟨h1, h⟩ := h
        subst h1 h
        constructor <;> simp <;> grind

theorem wf_of_run (tgt : Target) {es : List Ev} {s : St} (h : (sys tgt).run es = some s) :
    Wf s :=
  Sys.inv_of_run (sys tgt) Wf wf_init (fun _ _ _ hi hs => wf_step tgt hi hs) h

theorem wf_runFrom (tgt : Target) : ∀ (es : List Ev) (s s' : St), Wf s →
    (sys tgt).runFrom s es = some s' → Wf s' := by
  intro es
  induction es with
  | nil => intro s s' hw h; simp [Sys.runFrom] at h; subst h; exact hw
  | cons e es ih =>
    intro s s' hw h
    simp only [Sys.runFrom] at h
    cases hst : (sys tgt).step s e with
    | none => simp [hst] at h
    | some s1 =>
      simp [hst] at h
      exact ih s1 s' (wf_step tgt hw hst) h

/-! ### per-fiber bound: while `f` waits, any other fiber runs at most twice -/

/-- 1 if `g` occurs in `l` before the first `f`, else 0 -/
def bef (g f : Nat) : List Nat → Nat
  | [] => 0
  | x :: xs => if x = f then 0 else if x = g then 1 else bef g f xs

/-- How many more times `g` can be switched to before `f` is:
    `f` in `schedule_from`: once if `g` is in front of it;
    `f` in `store_to`: twice if `g` is still in `schedule_from` (now, and again after it is
    re-queued in front of `f`), once if it is in front of `f` in `store_to` or is the running
    fiber (which will be re-queued in front of `f`). -/
def credit (g f : Nat) (s : St) : Nat :=
  if f ∈ s.frm then bef g f s.frm
  else (if g ∈ s.frm then 2 else 0) + bef g f s.to +
       (if g = s.cur ∧ s.phase ≠ .ending then 1 else 0)

theorem bef_le_one (g f : Nat) (l : List Nat) : bef g f l ≤ 1 := by
  induction l with
  | nil => simp [bef]
  | cons x xs ih =>
    simp only [bef]
    repeat' split
    all_goals omega

theorem bef_of_not_mem {g f : Nat} {l : List Nat} (h : g ∉ l) : bef g f l = 0 := by
  induction l with
  | nil => simp [bef]
  | cons x xs ih =>
    simp at h
    simp only [bef]
    split
    · rfl
    · rw [if_neg (fun hx => h.1 hx.symm)]; exact ih h.2

theorem credit_le_two {g f : Nat} {s : St} (hw : Wf s) : credit g f s ≤ 2 := by
  obtain ⟨frm, to, cur, phase⟩ := s
  obtain ⟨hn, hc1, hc2⟩ := hw
  simp only at hn hc1 hc2
  simp only [credit]
  have hb1 := bef_le_one g f frm
  have hb2 := bef_le_one g f to
  split
  · omega
  · by_cases hg : g ∈ frm
    · have h1 : g ∉ to := by grind
      have h2 : g ≠ cur := by grind
      simp [hg, bef_of_not_mem h1, h2]
    · simp [hg]; split <;> omega

/-- One step seen from a queued `f` and another fiber `g`: a switch to `g` consumes one unit
    of `g`'s credit, nothing else (short of a `sched` or `switch f`) increases it. -/
theorem credit_step {g f : Nat} {s s' : St} {e : Ev} (hw : Wf s) (hq : Queued f s)
    (hgf : g ≠ f) (h : step .storeTo s e = some s') (hne : e ≠ .switch f)
    (hns : isSched e = false) :
    credit g f s' + (if e = .switch g then 1 else 0) ≤ credit g f s := by
  obtain ⟨frm, to, cur, phase⟩ := s
  obtain ⟨hn, hc1, hc2⟩ := hw
  simp only at hn hc1 hc2
  simp only [Queued] at hq
  cases e with
  | sched h' => simp [isSched] at hns
  | yield h' =>
    simp only [step] at h
    split at h <;> simp at h
    subst h
    rename_i hc
    simp [credit, hc.1]
  | finish h' =>
    simp only [step] at h
    split at h <;> simp at h
    subst h
    simp only [credit]
    split
    · simp
    · simp
  | resumed h' =>
    simp only [step] at h
    split at h <;> try simp at h
    cases phase with
    | running => simp at h; subst h; simp
    | ending => simp at h
    | yielding =>
      cases frm with
      | nil =>
        cases to with
        | nil => simp at hq
        | cons t ts => simp [next] at h
      | cons a as => simp [next] at h
  | switch h' =>
    have hhf : h' ≠ f := fun h => hne (by rw [h])
    cases phase with
    | running => simp [step] at h
    | yielding =>
      cases frm with
      | nil =>
        cases to with
        | nil => simp at hq
        | cons t ts =>
          simp [step, next, push] at h
          obtain ⟨h1, h⟩ := h
          subst h1 h
          have hft : f ∈ ts := by simpa [Ne.symm hhf] using hq
          simp [credit, hft, bef, hhf]
          by_cases hg : h' = g
          · subst hg
            have : h' ∉ ts := by grind
            simp [bef_of_not_mem this]
          · simp [hg]
      | cons a as =>
        simp [step, next, push] at h
        obtain ⟨h1, h⟩ := h
        subst h1 h
        simp only [credit]
        by_cases h1 : f ∈ as
        · simp [h1, bef, hhf]
          by_cases hg : h' = g
          · subst hg
            have : h' ∉ as := by grind
            simp [bef_of_not_mem this]
          · simp [hg]
        · have hft : f ∈ to := by simpa [Ne.symm hhf, h1] using hq
          have hcf : cur ≠ f := by grind
          simp [h1, Ne.symm hhf, bef, hcf]
          by_cases hg : h' = g
          · subst hg
            have h2 : h' ∉ as := by grind
            have h3 : h' ∉ to := by grind
            have h4 : cur ≠ h' := by grind
            simp [h2, h4, bef_of_not_mem h3]
          · have hg' : ¬ g = h' := fun h => hg h.symm
            simp [hg, hg']
            by_cases hgc : cur = g
            · subst hgc; simp
            · have hgc' : ¬ g = cur := fun h => hgc h.symm
              simp [hgc, hgc']
    | ending =>
      cases frm with
      | nil =>
        cases to with
        | nil => simp at hq
        | cons t ts =>
          simp [step, next] at h
          obtain ⟨h1, h⟩ := h
          subst h1 h
          have hft : f ∈ ts := by simpa [Ne.symm hhf] using hq
          simp [credit, hft, bef, hhf]
          by_cases hg : h' = g
          · subst hg
            have : h' ∉ ts := by grind
            simp [bef_of_not_mem this]
          · simp [hg]
      | cons a as =>
        simp [step, next] at h
        obtain ⟨h1, h⟩ := h
        subst h1 h
        simp only [credit]
        by_cases h1 : f ∈ as
        · simp [h1, bef, hhf]
          by_cases hg : h' = g
          · subst hg
            have : h' ∉ as := by grind
            simp [bef_of_not_mem this]
          · simp [hg]
        · have hft : f ∈ to := by simpa [Ne.symm hhf, h1] using hq
          simp [h1, Ne.symm hhf]
          by_cases hg : h' = g
          · subst hg
            have h2 : h' ∉ as := by grind
            have h3 : h' ∉ to := by grind
            simp [h2, bef_of_not_mem h3]
          · have hg' : ¬ g = h' := fun h => hg h.symm
            simp [hg, hg']

/-- Along any accepted continuation without `sched` and without `switch f`:
    `#(switch g) ≤ credit g f s`. -/
theorem credit_run {g f : Nat} (hgf : g ≠ f) : ∀ (es : List Ev) (s s' : St), Wf s → Queued f s →
    (sys .storeTo).runFrom s es = some s' → (∀ e ∈ es, e ≠ .switch f) →
    (∀ e ∈ es, isSched e = false) →
    credit g f s' + es.count (.switch g) ≤ credit g f s := by
  intro es
  induction es with
  | nil =>
    intro s s' _ _ h _ _
    simp [Sys.runFrom] at h; subst h; simp
  | cons e es ih =>
    intro s s' hw hq h hne hns
    simp only [Sys.runFrom] at h
    cases hst : (sys .storeTo).step s e with
    | none => simp [hst] at h
    | some s1 =>
      simp [hst] at h
      have hne1 := hne e (by simp)
      have h1 := credit_step hw hq hgf hst hne1 (hns e (by simp))
      have hq1 := (rank_step hq hst hne1).1
      have h2 := ih s1 s' (wf_step _ hw hst) hq1 h (fun e' he' => hne e' (by simp [he']))
        (fun e' he' => hns e' (by simp [he']))
      simp only [List.count_cons]
      by_cases he : e = .switch g
      · subst he; simp at h1 ⊢; omega
      · simp [he] at h1 ⊢; omega

/-! ### `Queued` is stable under everything but `switch f` (both variants) -/

theorem queued_step (tgt : Target) {f : Nat} {s s' : St} {e : Ev} (hq : Queued f s)
    (h : step tgt s e = some s') (hne : e ≠ .switch f) : Queued f s' := by
  cases tgt with
  | storeTo => exact (rank_step hq h hne).1
  | scheduleFrom =>
    obtain ⟨frm, to, cur, phase⟩ := s
    simp only [Queued] at hq
    cases e with
    | sched g =>
      simp only [step] at h
      split at h <;> simp at h
      subst h
      simp only [Queued, push]; grind
    | yield g =>
      simp only [step] at h
      split at h <;> simp at h
      subst h; exact hq
    | finish g =>
      simp only [step] at h
      split at h <;> simp at h
      subst h; exact hq
    | resumed g =>
      simp only [step] at h
      split at h <;> try simp at h
      cases phase with
      | running => simp at h; subst h; exact hq
      | ending => simp at h
      | yielding =>
        cases frm with
        | nil =>
          cases to with
          | nil => simp at hq
          | cons t ts => simp [next] at h
        | cons a as => simp [next] at h
    | switch g =>
      have hgf : g ≠ f := fun h => hne (by rw [h])
      cases phase with
      | running => simp [step] at h
      | yielding =>
        cases frm with
        | nil =>
          cases to with
          | nil => simp at hq
          | cons t ts =>
            simp [step, next, push] at h
            obtain ⟨h1, h⟩ := h
            subst h1 h
            simp only [Queued]; grind
        | cons a as =>
          simp [step, next, push] at h
          obtain ⟨h1, h⟩ := h
          subst h1 h
          simp only [Queued]; grind
      | ending =>
        cases frm with
        | nil =>
          cases to with
          | nil => simp at hq
          | cons t ts =>
            simp [step, next] at h
            obtain ⟨h1, h⟩ := h
            subst h1 h
            simp only [Queued]; grind
        | cons a as =>
          simp [step, next] at h
          obtain ⟨h1, h⟩ := h
          subst h1 h
          simp only [Queued]; grind

theorem queued_run (tgt : Target) {f : Nat} : ∀ (es : List Ev) (s s' : St), Queued f s →
    (sys tgt).runFrom s es = some s' → (∀ e ∈ es, e ≠ .switch f) → Queued f s' := by
  intro es
  induction es with
  | nil => intro s s' hq h _; simp [Sys.runFrom] at h; subst h; exact hq
  | cons e es ih =>
    intro s s' hq h hne
    simp only [Sys.runFrom] at h
    cases hst : (sys tgt).step s e with
    | none => simp [hst] at h
    | some s1 =>
      simp [hst] at h
      exact ih s1 s' (queued_step tgt hq hst (hne e (by simp))) h
        (fun e' he' => hne e' (by simp [he']))

/-! ### the `scheduleFrom` variant: two fibers ping-pong, the others starve -/

/-- main fiber 0 has created fibers 3, 2, 1 (in that order) -/
def ppStart : List Ev := [.sched 3, .sched 2, .sched 1]

def ppState : St := { frm := [1, 2, 3], to := [], cur := 0, phase := .running }

/-- 0 yields to 1, 1 yields back to 0 -/
def ppCycle : List Ev :=
  [.yield 0, .switch 1, .resumed 1, .yield 1, .switch 0, .resumed 0]

def pingpong : Nat → List Ev
  | 0 => []
  | k + 1 => ppCycle ++ pingpong k

theorem ppStart_run : (sys .scheduleFrom).run ppStart = some ppState := by decide

theorem ppCycle_run : (sys .scheduleFrom).runFrom ppState ppCycle = some ppState := by decide

theorem pingpong_run (k : Nat) :
    (sys .scheduleFrom).runFrom ppState (pingpong k) = some ppState := by
  induction k with
  | zero => rfl
  | succ k ih => simp [pingpong, Sys.runFrom_append, ppCycle_run, ih]

theorem pingpong_switches (k : Nat) : switches (pingpong k) = 2 * k := by
  induction k with
  | zero => rfl
  | succ k ih =>
    simp only [switches, pingpong, List.countP_append] at *
    rw [ih]
    have : List.countP isSwitch ppCycle = 2 := by decide
    omega

theorem pingpong_mem (k : Nat) : ∀ e ∈ pingpong k, e ∈ ppCycle := by
  induction k with
  | zero => simp [pingpong]
  | succ k ih =>
    intro e he
    simp only [pingpong, List.mem_append] at he
    cases he with
    | inl h => exact h
    | inr h => exact ih e h

theorem ppCycle_props : ∀ e ∈ ppCycle, isSched e = false ∧ e ≠ .switch 3 := by decide

/-! ### between two consecutive runs of `f` -/

/-- `f` is still in the game: ready, or running and not finished. -/
def Alive (f : Nat) (s : St) : Prop := Queued f s ∨ (s.cur = f ∧ s.phase ≠ .ending)

/-- A switch makes its target the running fiber ... -/
theorem switch_cur {tgt : Target} {g : Nat} {s s' : St} (h : step tgt s (.switch g) = some s') :
    s'.cur = g ∧ s'.phase = .running := by
  obtain ⟨frm, to, cur, phase⟩ := s
  cases phase with
  | running => simp [step] at h
  | yielding =>
    cases frm with
    | nil =>
      cases to with
      | nil => simp [step, next] at h
      | cons t ts =>
        simp [step, next] at h
        obtain ⟨h1, h⟩ := h
        subst h1 h; cases tgt <;> simp [push]
    | cons a as =>
      simp [step, next] at h
      obtain ⟨h1, h⟩ := h
      subst h1 h; cases tgt <;> simp [push]
  | ending =>
    cases frm with
    | nil =>
      cases to with
      | nil => simp [step, next] at h
      | cons t ts =>
        simp [step, next] at h
        obtain ⟨h1, h⟩ := h
        subst h1 h; simp
    | cons a as =>
      simp [step, next] at h
      obtain ⟨h1, h⟩ := h
      subst h1 h; simp

/-- ... and that target was queued. -/
theorem switch_queued {tgt : Target} {g : Nat} {s s' : St}
    (h : step tgt s (.switch g) = some s') : Queued g s := by
  obtain ⟨frm, to, cur, phase⟩ := s
  cases phase with
  | running => simp [step] at h
  | yielding =>
    cases frm with
    | nil =>
      cases to with
      | nil => simp [step, next] at h
      | cons t ts => simp [step, next] at h; simp [Queued, h.1]
    | cons a as => simp [step, next] at h; simp [Queued, h.1]
  | ending =>
    cases frm with
    | nil =>
      cases to with
      | nil => simp [step, next] at h
      | cons t ts => simp [step, next] at h; simp [Queued, h.1]
    | cons a as => simp [step, next] at h; simp [Queued, h.1]

/-- Without `sched`, a fiber that finished (or never existed) does not come back. -/
theorem dead_step {f : Nat} {s s' : St} {e : Ev} (hd : ¬ Alive f s)
    (h : step .storeTo s e = some s') (hns : isSched e = false) : ¬ Alive f s' := by
  obtain ⟨frm, to, cur, phase⟩ := s
  simp only [Alive, Queued] at hd
  cases e with
  | sched g => simp [isSched] at hns
  | yield g =>
    simp only [step] at h
    split at h <;> simp at h
    subst h; simp only [Alive, Queued]; grind
  | finish g =>
    simp only [step] at h
    split at h <;> simp at h
    subst h; simp only [Alive, Queued]; grind
  | resumed g =>
    simp only [step] at h
    split at h <;> try simp at h
    cases phase with
    | running => simp at h; subst h; exact hd
    | ending => simp at h
    | yielding =>
      cases frm with
      | nil =>
        cases to with
        | nil => simp [next] at h; subst h; simp only [Alive, Queued]; grind
        | cons t ts => simp [next] at h
      | cons a as => simp [next] at h
  | switch g =>
    cases phase with
    | running => simp [step] at h
    | yielding =>
      cases frm with
      | nil =>
        cases to with
        | nil => simp [step, next] at h
        | cons t ts =>
          simp [step, next, push] at h
          obtain ⟨h1, h⟩ := h
          subst h1 h; simp only [Alive, Queued]; grind
      | cons a as =>
        simp [step, next, push] at h
        obtain ⟨h1, h⟩ := h
        subst h1 h; simp only [Alive, Queued]; grind
    | ending =>
      cases frm with
      | nil =>
        cases to with
        | nil => simp [step, next] at h
        | cons t ts =>
          simp [step, next] at h
          obtain ⟨h1, h⟩ := h
          subst h1 h; simp only [Alive, Queued]; grind
      | cons a as =>
        simp [step, next] at h
        obtain ⟨h1, h⟩ := h
        subst h1 h; simp only [Alive, Queued]; grind

theorem dead_run {f : Nat} : ∀ (es : List Ev) (s s' : St), ¬ Alive f s →
    (sys .storeTo).runFrom s es = some s' → (∀ e ∈ es, isSched e = false) → ¬ Alive f s' := by
  intro es
  induction es with
  | nil => intro s s' hd h _; simp [Sys.runFrom] at h; subst h; exact hd
  | cons e es ih =>
    intro s s' hd h hns
    simp only [Sys.runFrom] at h
    cases hst : (sys .storeTo).step s e with
    | none => simp [hst] at h
    | some s1 =>
      simp [hst] at h
      exact ih s1 s' (dead_step hd hst (hns e (by simp))) h (fun e' he' => hns e' (by simp [he']))

/-- `credit`, extended to the time `f` itself is running: everybody else may still get 2 turns -/
def credit2 (g f : Nat) (s : St) : Nat := if Queued f s then credit g f s else 2

theorem credit2_step {g f : Nat} {s s' : St} {e : Ev} (hw : Wf s) (ha : Alive f s)
    (ha' : Alive f s') (hgf : g ≠ f) (h : step .storeTo s e = some s') (hne : e ≠ .switch f)
    (hns : isSched e = false) :
    credit2 g f s' + (if e = .switch g then 1 else 0) ≤ credit2 g f s := by
  by_cases hq : Queued f s
  · have hq' := queued_step .storeTo hq h hne
    simp only [credit2, hq, hq', if_true]
    exact credit_step hw hq hgf h hne hns
  · have hcur : s.cur = f ∧ s.phase ≠ .ending := by
      cases ha with
      | inl h => exact absurd h hq
      | inr h => exact h
    have hw' := wf_step _ hw h
    simp only [credit2, hq, if_false]
    by_cases hq' : Queued f s'
    · simp only [hq', if_true]
      by_cases he : e = .switch g
      · subst he
        simp only [if_true]
        have hc := switch_cur h
        -- `g` is now running, `f` was just re-queued in `store_to`
        have hg1 : g ∉ s'.frm := hc.1 ▸ hw'.cur.1
        have hg2 : g ∉ s'.to := hc.1 ▸ hw'.cur.2
        have hb1 := bef_of_not_mem (f := f) hg1
        have hb2 := bef_of_not_mem (f := f) hg2
        simp only [credit, hb1, hb2, hg1, if_false]
        split <;> (try split) <;> omega
      · simp only [he, if_false]
        exact credit_le_two hw'
    · simp only [hq', if_false]
      by_cases he : e = .switch g
      · subst he
        have hc := switch_cur h
        cases ha' with
        | inl h => exact absurd h hq'
        | inr h => exact absurd (hc.1.symm.trans h.1) hgf
      · simp [he]

theorem credit2_run {g f : Nat} (hgf : g ≠ f) : ∀ (es : List Ev) (s s' : St), Wf s →
    Alive f s → (sys .storeTo).runFrom s es = some s' → Alive f s' →
    (∀ e ∈ es, e ≠ .switch f) → (∀ e ∈ es, isSched e = false) →
    credit2 g f s' + es.count (.switch g) ≤ credit2 g f s := by
  intro es
  induction es with
  | nil =>
    intro s s' _ _ h _ _ _
    simp [Sys.runFrom] at h; subst h; simp
  | cons e es ih =>
    intro s s' hw ha h ha' hne hns
    simp only [Sys.runFrom] at h
    cases hst : (sys .storeTo).step s e with
    | none => simp [hst] at h
    | some s1 =>
      simp [hst] at h
      have hns' : ∀ e' ∈ es, isSched e' = false := fun e' he' => hns e' (by simp [he'])
      have ha1 : Alive f s1 := Classical.byContradiction fun hd => dead_run es s1 s' hd h hns' ha'
      have h1 := credit2_step hw ha ha1 hgf hst (hne e (by simp)) (hns e (by simp))
      have h2 := ih s1 s' (wf_step _ hw hst) ha1 h ha' (fun e' he' => hne e' (by simp [he'])) hns'
      simp only [List.count_cons]
      by_cases he : e = .switch g
      · subst he; simp at h1 ⊢; omega
      · simp [he] at h1 ⊢; omega

theorem runFrom_append_some {M : Sys St Ev} {s s' : St} {a b : List Ev}
    (h : M.runFrom s (a ++ b) = some s') :
    ∃ m, M.runFrom s a = some m ∧ M.runFrom m b = some s' := by
  rw [Sys.runFrom_append] at h
  cases hm : M.runFrom s a with
  | none => simp [hm] at h
  | some m => exact ⟨m, rfl, by simpa [hm] using h⟩

end LibfiberVerif.Sched
