/-
  Proof/MultiChanLock.lean — lock discipline of the multi channel model, for BOTH list
  disciplines: a fiber inside the critical section holds the abstract lock, so there is at most
  one, and what it has read from `high`/`low` is still current.  Used by the ring-buffer
  invariant (Proof/MultiChanRing*.lean) and by the two-list invariant (Proof/MultiChanTwo*.lean).
-/
import LibfiberVerif.Proof.MultiChanInv

set_option linter.unusedSimpArgs false
set_option linter.unusedVariables false

namespace LibfiberVerif.MultiChan

structure LInv (s : St) : Prop where
  cs_lock : ∀ f, (s.pc f).inCS = true → s.lock = some f
  handoff_free : ∀ g, s.handoffBy = some g → s.lock = none
  gotHigh_eq : ∀ f o h, s.pc f = .gotHigh o h → h = s.high
  gotLow_eq : ∀ f o h l, s.pc f = .gotLow o h l → h = s.high ∧ l = s.low
  sWrote_eq : ∀ f v h, s.pc f = .sWrote v h → h = s.high ∧ s.high - s.low < s.cap
  rRead_eq : ∀ f l m, s.pc f = .rRead l m → l = s.low ∧ s.high > s.low
  rCleared_eq : ∀ f l m, s.pc f = .rCleared l m → l = s.low ∧ s.high > s.low

theorem linv_init (two : Bool) (cap : Nat) : LInv (init two cap) := by
  constructor <;> simp [init, Pc.inCS]

/-- two fibers inside the critical section are the same fiber -/
theorem cs_unique {s : St} (hi : LInv s) {f g : Nat} (hf : (s.pc f).inCS = true) (hg : (s.pc g).inCS = true) :
    f = g := by
  have a := hi.cs_lock f hf
  have b := hi.cs_lock g hg
  rw [a] at b; exact Option.some.inj b

theorem Inv.toLInv {s : St} (hi : Inv s) : LInv s :=
  ⟨hi.cs_lock, hi.handoff_free, hi.gotHigh_eq, hi.gotLow_eq, hi.sWrote_eq, hi.rRead_eq, hi.rCleared_eq⟩

set_option maxHeartbeats 8000000 in
theorem linv_step (s s' : St) (e : Ev) (hi : LInv s) (hs : step s e = some s') : LInv s' := by
  obtain ⟨h1, h2, h3, h4, h5, h6, h7⟩ := hi
  cases e <;> simp only [step] at hs
  all_goals (repeat' (split at hs))
  all_goals (try simp at hs)
  all_goals (try contradiction)
  all_goals (first | subst hs | (obtain ⟨_, hs⟩ := hs; subst hs))
  all_goals (constructor <;> (intros; (try simp only [upd] at *); first | done | grind [Pc.inCS]))

theorem linv_of_run {two : Bool} {cap : Nat} {es : List Ev} {s : St} (h : (sys two cap).run es = some s) :
    LInv s :=
  Sys.inv_of_run (sys two cap) LInv (linv_init two cap) (fun s e s' hi hs => linv_step s s' e hi hs) h

end LibfiberVerif.MultiChan
