/-
  Proof/JoinL0.lean — preservation of layer 0 (generated layout: one theorem per conjunct of the invariant of Proof/JoinBase.lean,
  each by case analysis on the event and the acting fiber's program counter, then `grind`;
  the hypotheses of each theorem are exactly the conjuncts it depends on)
-/
import LibfiberVerif.Proof.JoinBase

set_option linter.unusedSimpArgs false
set_option linter.unusedVariables false

namespace LibfiberVerif.Join

variable {s s1 : St} {e : Ev}

set_option maxHeartbeats 4000000 in
theorem inv0_dr (h0 : Inv0 s) (hc : stepCore s e = some s1) : ∀ g, s1.det g ≤ 3 := by
  cases h0
  step_cases e with hc
  all_goals (intros; (try simp only [upd_apply, WFJ, DET, NONE, WTJ, untainted] at *); first | grind | grind (splits := 25) | grind (splits := 80) | ((repeat' split) <;> grind (splits := 80)))

set_option maxHeartbeats 4000000 in
theorem inv0_wfj (h0 : Inv0 s) (hc : stepCore s e = some s1) : ∀ g, s1.det g = WFJ → finX (s1.pc g) = true := by
  cases h0
  step_cases e with hc
  all_goals (intros; (try simp only [upd_apply, WFJ, DET, NONE, WTJ, untainted] at *); first | grind | grind (splits := 25) | grind (splits := 80) | ((repeat' split) <;> grind (splits := 80)))

set_option maxHeartbeats 4000000 in
theorem inv0_detx (h0 : Inv0 s) (hc : stepCore s e = some s1) : ∀ g, s1.det g = DET → s1.detX g = true := by
  cases h0
  step_cases e with hc
  all_goals (intros; (try simp only [upd_apply, WFJ, DET, NONE, WTJ, untainted] at *); first | grind | grind (splits := 25) | grind (splits := 80) | ((repeat' split) <;> grind (splits := 80)))

set_option maxHeartbeats 4000000 in
theorem inv0_fret (h0 : Inv0 s) (hc : stepCore s e = some s1) : ∀ g v, s1.pc g = .fRet v → s1.retval g = some v := by
  cases h0
  step_cases e with hc
  all_goals (intros; (try simp only [upd_apply, WFJ, DET, NONE, WTJ, untainted] at *); first | grind | grind (splits := 25) | grind (splits := 80) | ((repeat' split) <;> grind (splits := 80)))

set_option maxHeartbeats 4000000 in
theorem inv0_tl (h0 : Inv0 s) (hc : stepCore s e = some s1) : ∀ a op g, s1.pc a = .loaded op g → op ≠ .join → s1.det g ≠ NONE := by
  cases h0
  step_cases e with hc
  all_goals (intros; (try simp only [upd_apply, WFJ, DET, NONE, WTJ, untainted] at *); first | grind | grind (splits := 25) | grind (splits := 80) | ((repeat' split) <;> grind (splits := 80)))

set_option maxHeartbeats 4000000 in
theorem inv0_cpn (h0 : Inv0 s) (hc : stepCore s e = some s1) : ∀ a g, claimPath (s1.pc a) g = true → s1.det g ≠ NONE := by
  cases h0
  step_cases e with hc
  all_goals (intros; (try simp only [upd_apply, WFJ, DET, NONE, WTJ, untainted] at *); first | grind | grind (splits := 25) | grind (splits := 80) | ((repeat' split) <;> grind (splits := 80)))

set_option maxHeartbeats 4000000 in
theorem inv0_scn (h0 : Inv0 s) (hc : stepCore s e = some s1) : ∀ g, s1.succ g ≠ [] → s1.det g ≠ NONE := by
  cases h0
  step_cases e with hc
  all_goals (intros; (try simp only [upd_apply, WFJ, DET, NONE, WTJ, untainted] at *); first | grind | grind (splits := 25) | grind (splits := 80) | ((repeat' split) <;> grind (splits := 80)))

set_option maxHeartbeats 4000000 in
theorem inv0_fxn (h0 : Inv0 s) (hc : stepCore s e = some s1) : ∀ g, finX (s1.pc g) = true → s1.det g ≠ NONE := by
  cases h0
  step_cases e with hc
  all_goals (intros; (try simp only [upd_apply, WFJ, DET, NONE, WTJ, untainted] at *); first | grind | grind (splits := 25) | grind (splits := 80) | ((repeat' split) <;> grind (splits := 80)))

set_option maxHeartbeats 4000000 in
theorem inv0_dst (h0 : Inv0 s) (hc : stepCore s e = some s1) : ∀ g, s1.destroyed g = true → s1.pc g = .fDone := by
  cases h0
  step_cases e with hc
  all_goals (intros; (try simp only [upd_apply, WFJ, DET, NONE, WTJ, untainted] at *); first | grind | grind (splits := 25) | grind (splits := 80) | ((repeat' split) <;> grind (splits := 80)))

set_option maxHeartbeats 4000000 in
theorem inv0_fj (h0 : Inv0 s) (hc : stepCore s e = some s1) : ∀ p g, joinerPath (s1.pc p) g = true → s1.first g = some p := by
  cases h0
  step_cases e with hc
  all_goals (intros; (try simp only [upd_apply, WFJ, DET, NONE, WTJ, untainted] at *); first | grind | grind (splits := 25) | grind (splits := 80) | ((repeat' split) <;> grind (splits := 80)))

set_option maxHeartbeats 4000000 in
theorem inv0_ff (h0 : Inv0 s) (hc : stepCore s e = some s1) : ∀ g, (parkF (s1.pc g) = true ∨ s1.pc g = .fWoken) → s1.first g = some g := by
  cases h0
  step_cases e with hc
  all_goals (intros; (try simp only [upd_apply, WFJ, DET, NONE, WTJ, untainted] at *); first | grind | grind (splits := 25) | grind (splits := 80) | ((repeat' split) <;> grind (splits := 80)))

set_option maxHeartbeats 4000000 in
theorem inv0_tcl (h0 : Inv0 s) (hc : stepCore s e = some s1) : ∀ b g, takePh (s1.pc b) g = true → (s1.claimed g = true ∨ s1.detX g = true) := by
  cases h0
  step_cases e with hc
  all_goals (intros; (try simp only [upd_apply, WFJ, DET, NONE, WTJ, untainted] at *); first | grind | grind (splits := 25) | grind (splits := 80) | ((repeat' split) <;> grind (splits := 80)))

set_option maxHeartbeats 4000000 in
theorem inv0_fc (h0 : Inv0 s) (hc : stepCore s e = some s1) : ∀ g, holdsFAny (s1.pc g) = true → s1.claimed g = true := by
  cases h0
  step_cases e with hc
  all_goals (intros; (try simp only [upd_apply, WFJ, DET, NONE, WTJ, untainted] at *); first | grind | grind (splits := 25) | grind (splits := 80) | ((repeat' split) <;> grind (splits := 80)))

end LibfiberVerif.Join
