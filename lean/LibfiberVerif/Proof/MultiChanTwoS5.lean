/-
  Proof/MultiChanTwoS5.lean — `MultiChan.Inv2` (two-list discipline) is preserved by the events
  of group S5 (one lemma per event; several modules so that they compile in parallel).
-/
import LibfiberVerif.Proof.MultiChanTwo

set_option linter.unusedSimpArgs false
set_option linter.unusedVariables false

namespace LibfiberVerif.MultiChan

set_option maxHeartbeats 8000000 in
theorem inv2_step_wWaiters (s s' : St) (f w : _) (hl : LInv s) (hr : RInv s) (hi : Inv2 s) (hs : step s (.wWaiters f w) = some s') : Inv2 s' := by
  have hI := hi
  have hlh := hr.lowhigh
  obtain ⟨l1, l2, l3, l4, l5, l6, l7⟩ := hl
  obtain ⟨h1, h2, h3, h4, h5, h6, h7, h8, h9, h10, h11, h12, h13, h14, h15, h16, h17, h18, h19, h20, h21, h22, h23, h24, h25, h26, h27, h28, h29, h30, h31, h32, h33, h34, h35, h36, h37, h38, h39, h40⟩ := hi
  simp only [step, h1] at hs
  repeat' (split at hs)
  all_goals (try simp at hs)
  all_goals (try contradiction)
  all_goals (first | subst hs | (obtain ⟨_, hs⟩ := hs; subst hs))
  all_goals (constructor <;> m2_close)

set_option maxHeartbeats 8000000 in
theorem inv2_step_wSWaiters (s s' : St) (f w : _) (hl : LInv s) (hr : RInv s) (hi : Inv2 s) (hs : step s (.wSWaiters f w) = some s') : Inv2 s' := by
  have hI := hi
  have hlh := hr.lowhigh
  obtain ⟨l1, l2, l3, l4, l5, l6, l7⟩ := hl
  obtain ⟨h1, h2, h3, h4, h5, h6, h7, h8, h9, h10, h11, h12, h13, h14, h15, h16, h17, h18, h19, h20, h21, h22, h23, h24, h25, h26, h27, h28, h29, h30, h31, h32, h33, h34, h35, h36, h37, h38, h39, h40⟩ := hi
  simp only [step, h1] at hs
  repeat' (split at hs)
  all_goals (try simp at hs)
  all_goals (try contradiction)
  all_goals (first | subst hs | (obtain ⟨_, hs⟩ := hs; subst hs))
  all_goals (constructor <;> m2_close)

set_option maxHeartbeats 8000000 in
theorem inv2_step_wScratch (s s' : St) (f g x : Nat) (hl : LInv s) (hr : RInv s) (hi : Inv2 s)
    (hs : step s (.wScratch f g x) = some s') : Inv2 s' := by
  have hI := hi
  have hlh := hr.lowhigh
  obtain ⟨l1, l2, l3, l4, l5, l6, l7⟩ := hl
  obtain ⟨h1, h2, h3, h4, h5, h6, h7, h8, h9, h10, h11, h12, h13, h14, h15, h16, h17, h18, h19, h20,
    h21, h22, h23, h24, h25, h26, h27, h28, h29, h30, h31, h32, h33, h34, h35, h36, h37, h38, h39, h40⟩ := hi
  simp only [step] at hs
  split at hs
  · rename_i o w hpc
    split at hs <;> simp at hs
    rename_i hc
    obtain ⟨hg, hx⟩ := hc
    subst hg hx hs
    have hnot1 : g ∉ s.wl := by
      intro hm
      have := (hI.wl_listed g hm).1
      simp [hpc, Pc.listedOp] at this
    have hnot2 : g ∉ s.swl := by
      intro hm
      obtain ⟨⟨v, hv⟩, _⟩ := hI.swl_listed g hm
      simp [hpc, Pc.listedOp] at hv
    have hch1 := chainW_upd_of_not_mem s.scr g x s.wl hnot1 hI.chain
    have hch2 := chainW_upd_of_not_mem s.scr g x s.swl hnot2 hI.schain
    constructor
    case chain => exact hch1
    case schain => exact hch2
    all_goals m2_close
  · rename_i res w hpc
    split at hs <;> simp at hs
    rename_i hc
    obtain ⟨hg, hx⟩ := hc
    subst hg hx hs
    have hwk := hI.waking_of f g (by simp [hpc, Pc.wakingOf])
    have hnot1 : g ∉ s.wl := (hI.waking_lock g hwk).2.1
    have hnot2 : g ∉ s.swl := (hI.waking_lock g hwk).2.2.1
    have hch1 := chainW_upd_of_not_mem s.scr g 0 s.wl hnot1 hI.chain
    have hch2 := chainW_upd_of_not_mem s.scr g 0 s.swl hnot2 hI.schain
    constructor
    case chain => exact hch1
    case schain => exact hch2
    all_goals m2_close
  · simp at hs

end LibfiberVerif.MultiChan
