/-
  Proof/SpinFifo.lean — FIFO order of the ticket spinlock (property C18):
  the outstanding `lock` tickets form a queue sorted by ghost ticket; the thread whose spin
  loop exits is always its head.
-/
import LibfiberVerif.Proof.Spin

namespace LibfiberVerif.Spin

local macro "M32" : term => `((4294967296 : Nat))

/-- `q` = the waiting `lock` callers (thread, ghost ticket) in the order of their fetch_add -/
structure QInv (s : St) (q : List (Nat × Nat)) : Prop where
  ord : s.order = s.acq ++ q.map Prod.fst
  mem : ∀ t g, (t, g) ∈ q ↔ ∃ my, s.pc t = .spinning my g
  sorted : q.Pairwise (fun a b => a.2 < b.2)

theorem qinv_init (v0 : Nat) : QInv (init v0) [] := by
  constructor <;> simp [init]

/-- a step that neither creates nor removes a spinner keeps the queue -/
theorem qinv_pc_only {s : St} {q : List (Nat × Nat)} (hq : QInv s q) (t : Nat) (p : Pc)
    (s' : St) (ho : s'.order = s.order) (ha : s'.acq = s.acq) (hpc : s'.pc = upd s.pc t p)
    (h1 : ∀ my g, s.pc t ≠ .spinning my g) (h2 : ∀ my g, p ≠ .spinning my g) : QInv s' q := by
  obtain ⟨hord, hmem, hsorted⟩ := hq
  refine ⟨by rw [ho, ha]; exact hord, ?_, hsorted⟩
  intro t' g
  rw [hmem, hpc]
  simp only [upd]
  grind

theorem qinv_step (s s' : St) (e : Ev) (q : List (Nat × Nat)) (hi : Inv s) (hb : Bnd s)
    (hq : QInv s q) (hs : step s e = some s') : ∃ q', QInv s' q' := by
  unfold Bnd at hb
  cases e with
  | faddUsers t old =>
    simp only [step] at hs
    split at hs <;> simp at hs
    next hpc =>
    obtain ⟨h1, hs⟩ := hs
    subst hs
    obtain ⟨hord, hmem, hsorted⟩ := hq
    refine ⟨q ++ [(t, s.gUsers)], ?_, ?_, ?_⟩
    · simp [hord]
    · intro t' g
      simp only [List.mem_append, hmem, upd, List.mem_singleton, Prod.mk.injEq]
      by_cases htt : t' = t
      · subst htt
        simp [hpc]
        exact eq_comm
      · simp [htt]
    · rw [List.pairwise_append]
      refine ⟨hsorted, by simp, ?_⟩
      intro a ha b hb'
      simp at hb'
      subst hb'
      obtain ⟨my, hmy⟩ := (hmem a.1 a.2).1 ha
      exact (hi.spin _ _ _ hmy).2.2
  | ldTicket t x =>
    simp only [step] at hs
    split at hs <;> simp at hs
    · next my g hpc =>
      obtain ⟨h1, hs⟩ := hs
      split at hs <;> simp at hs <;> subst hs
      · next hx =>
        -- the spin loop exits: `t` holds the ticket being served, hence is the head of `q`
        obtain ⟨hord, hmem, hsorted⟩ := hq
        have hsp := hi.spin _ _ _ hpc
        have htk := hi.tk
        have hg : g = s.gTicket := by omega
        have hin : (t, g) ∈ q := (hmem t g).2 ⟨my, hpc⟩
        cases q with
        | nil => simp at hin
        | cons hd rest =>
          obtain ⟨ht, hgd⟩ := hd
          rw [List.pairwise_cons] at hsorted
          have hhd : (ht, hgd) = (t, g) := by
            rcases List.mem_cons.1 hin with h | h
            · exact h.symm
            · have := hsorted.1 _ h
              obtain ⟨my', hmy'⟩ := (hmem ht hgd).1 (by simp)
              have := (hi.spin _ _ _ hmy').2.1
              simp at *; omega
          simp only [Prod.mk.injEq] at hhd
          obtain ⟨rfl, rfl⟩ := hhd
          refine ⟨rest, ?_, ?_, hsorted.2⟩
          · simp [hord]
          · intro t' g'
            constructor
            · intro hm
              have hlt := hsorted.1 _ hm
              obtain ⟨my', hmy'⟩ := (hmem t' g').1 (List.mem_cons_of_mem _ hm)
              have hne : t' ≠ ht := by
                rintro rfl
                rw [hpc] at hmy'
                simp at hmy' hlt
                omega
              exact ⟨my', by simp [upd, hne, hmy']⟩
            · rintro ⟨my', hmy'⟩
              simp only [upd] at hmy'
              split at hmy'
              · simp at hmy'
              · next hne =>
                rcases List.mem_cons.1 ((hmem t' g').2 ⟨my', hmy'⟩) with h | h
                · simp at h; exact absurd h.1 hne
                · exact h
      · exact ⟨q, hq⟩
    · next hpc =>
      obtain ⟨h1, hs⟩ := hs
      exact ⟨q, qinv_pc_only hq t _ s' (by subst hs; rfl) (by subst hs; rfl) (by subst hs; rfl)
        (by simp [hpc]) (by simp)⟩
  | casBlob t ftk fus etk eus dtk dus ok =>
    simp only [step] at hs
    split at hs <;> simp at hs
    next hpc =>
    obtain ⟨_, hs⟩ := hs
    split at hs <;> simp at hs <;>
      exact ⟨q, qinv_pc_only hq t _ s' (by subst hs; rfl) (by subst hs; rfl) (by subst hs; rfl)
        (by simp [hpc]) (by simp)⟩
  | _ =>
    simp only [step] at hs
    split at hs <;> simp at hs
    all_goals first
      | (next hpc =>
          exact ⟨q, qinv_pc_only hq _ _ s' (by subst hs; rfl) (by subst hs; rfl) (by subst hs; rfl)
            (by simp [hpc]) (by simp)⟩)
      | (next hpc =>
          obtain ⟨_, hs⟩ := hs
          exact ⟨q, qinv_pc_only hq _ _ s' (by subst hs; rfl) (by subst hs; rfl) (by subst hs; rfl)
            (by simp [hpc]) (by simp)⟩)

theorem qinv_of_runFrom {v0 : Nat} {es : List Ev} : ∀ {s0 s : St} {q : List (Nat × Nat)},
    Inv s0 → QInv s0 q → BoundedRun s0 es → (sys v0).runFrom s0 es = some s → ∃ q', QInv s q' := by
  induction es with
  | nil => intro s0 s q _ hq _ hr; simp [Sys.runFrom] at hr; subst hr; exact ⟨q, hq⟩
  | cons e es ih =>
    intro s0 s q hi hq hb hr
    obtain ⟨s1, h1, hr'⟩ := runFrom_cons hr
    simp only [BoundedRun, h1] at hb
    obtain ⟨q1, hq1⟩ := qinv_step s0 s1 e q hi hb.1 hq h1
    exact ih (inv_step s0 s1 e hi hb.1 h1) hq1 hb.2 hr'

/-! ### every outstanding ticket is owned by a thread; hence at most as many tickets are
    outstanding as there are threads -/

/-- each ghost ticket in `[gTicket, gUsers)` belongs to a spinning thread, or (the one being
    served) to the holder -/
def Own (s : St) : Prop :=
  ∀ k, s.gTicket ≤ k → k < s.gUsers →
    ∃ t, (∃ my, s.pc t = .spinning my k) ∨ (k = s.gTicket ∧ holder (s.pc t) = true)

theorem own_init (v0 : Nat) : Own (init v0) := by
  intro k h1 h2; simp [init] at h1 h2; omega

theorem own_step (s s' : St) (e : Ev) (hi : Inv s) (hb : Bnd s) (ho : Own s)
    (hs : step s e = some s') : Own s' := by
  obtain ⟨htk, hus, hle, hspin, hinj, hhold, hexcl, hunl⟩ := hi
  unfold Bnd at hb
  unfold Own at ho ⊢
  cases e with
  | faddUsers t old =>
    simp only [step] at hs
    split at hs <;> simp at hs
    next hpc =>
    obtain ⟨h1, hs⟩ := hs; subst hs
    intro k hk1 hk2
    simp only [upd] at *
    by_cases hk : k = s.gUsers
    · exact ⟨t, Or.inl ⟨old, by simp [hk]⟩⟩
    · obtain ⟨t0, h0⟩ := ho k hk1 (by omega)
      exists t0; grind [holder]
  | ldTicket t x =>
    simp only [step] at hs
    split at hs <;> simp at hs
    · next my g hpc =>
      obtain ⟨h1, hs⟩ := hs
      split at hs <;> simp at hs <;> subst hs
      · next hx =>
        have hsp := hspin _ _ _ hpc
        have hg : g = s.gTicket := by omega
        intro k hk1 hk2
        simp only [upd] at *
        by_cases hk : k = s.gTicket
        · exact ⟨t, Or.inr ⟨hk, by simp [holder]⟩⟩
        · obtain ⟨t0, h0⟩ := ho k hk1 hk2
          exists t0; grind [holder]
      · exact ho
    · next hpc =>
      obtain ⟨h1, hs⟩ := hs; subst hs
      intro k hk1 hk2; simp only [upd] at *
      obtain ⟨t0, h0⟩ := ho k hk1 hk2; exists t0; grind [holder]
  | stTicket t x =>
    simp only [step] at hs
    split at hs <;> simp at hs
    next y hpc =>
    obtain ⟨h1, hs⟩ := hs; subst hs
    intro k hk1 hk2; simp only [upd] at *
    obtain ⟨t0, h0⟩ := ho k (by omega) hk2; exists t0; grind [holder]
  | casBlob t ftk fus etk eus dtk dus ok =>
    simp only [step] at hs
    split at hs <;> simp at hs
    next tk us hpc =>
    obtain ⟨⟨h1, h2, h3, h4, h5, h6, h7⟩, hs⟩ := hs
    subst h1 h2 h3 h4 h5 h6
    cases ok with
    | false =>
      simp at hs; subst hs
      intro k hk1 hk2; simp only [upd] at *
      obtain ⟨t0, h0⟩ := ho k hk1 hk2; exists t0; grind [holder]
    | true =>
      simp at hs h7
      have hidle : s.gTicket = s.gUsers := by omega
      subst hs
      intro k hk1 hk2; simp only [upd] at *
      exact ⟨t, Or.inr ⟨by omega, by simp [holder]⟩⟩
  | _ =>
    simp only [step] at hs <;> split at hs <;> simp at hs
    all_goals first
      | (subst hs; intro k hk1 hk2; simp only [upd] at *; obtain ⟨t0, h0⟩ := ho k hk1 hk2
         exists t0; grind [holder])
      | (obtain ⟨h1, hs⟩ := hs; subst hs; intro k hk1 hk2; simp only [upd] at *
         obtain ⟨t0, h0⟩ := ho k hk1 hk2; exists t0; grind [holder])

/-- `Own` in every state of a bounded run -/
theorem own_of_runFrom {v0 : Nat} {es : List Ev} : ∀ {s0 s : St}, Inv s0 → Own s0 →
    BoundedRun s0 es → (sys v0).runFrom s0 es = some s → Own s := by
  induction es with
  | nil => intro s0 s _ ho _ hr; simp [Sys.runFrom] at hr; subst hr; exact ho
  | cons e es ih =>
    intro s0 s hi ho hb hr
    obtain ⟨s1, h1, hr'⟩ := runFrom_cons hr
    simp only [BoundedRun, h1] at hb
    exact ih (inv_step s0 s1 e hi hb.1 h1) (own_step s0 s1 e hi hb.1 ho h1) hb.2 hr'

theorem own_of_run {v0 : Nat} {es : List Ev} {s : St}
    (hr : (sys v0).run es = some s) (hb : BoundedRun (init v0) es) : Own s :=
  own_of_runFrom (inv_init v0) (own_init v0) hb hr

/-- relational pigeonhole: `m` items, each owned by one of `n` owners, no owner owning two -/
theorem pigeon : ∀ (n m : Nat) (R : Nat → Nat → Prop),
    (∀ k, k < m → ∃ t, t < n ∧ R k t) →
    (∀ k1 k2 t, k1 < m → k2 < m → R k1 t → R k2 t → k1 = k2) → m ≤ n := by
  intro n
  induction n with
  | zero =>
    intro m R hown _
    cases m with
    | zero => omega
    | succ m => obtain ⟨t, ht, _⟩ := hown 0 (by omega); omega
  | succ n ih =>
    intro m R hown hinj
    cases m with
    | zero => omega
    | succ m =>
      obtain ⟨t0, ht0, hR0⟩ := hown m (by omega)
      have := ih m (fun k t => R k (if t < t0 then t else t + 1)) (by
        intro k hk
        obtain ⟨t1, ht1, hR1⟩ := hown k (by omega)
        have hne : t1 ≠ t0 := by
          rintro rfl
          have := hinj k m t1 (by omega) (by omega) hR1 hR0
          omega
        by_cases hlt : t1 < t0
        · exact ⟨t1, by omega, by simp [hlt]; exact hR1⟩
        · refine ⟨t1 - 1, by omega, ?_⟩
          have h1 : ¬ (t1 - 1 < t0) := by omega
          have h2 : t1 - 1 + 1 = t1 := by omega
          simp only [h1, if_false, h2]; exact hR1) (by
        intro k1 k2 t hk1 hk2 h1 h2
        exact hinj k1 k2 _ (by omega) (by omega) h1 h2)
      omega

/-- only threads `< n` take part -/
def ThreadsLt (n : Nat) (s : St) : Prop := ∀ t, s.pc t ≠ .idle → t < n

theorem threadsLt_step (n : Nat) (s s' : St) (e : Ev) (ht : ThreadsLt n s) (he : e.tid < n)
    (hs : step s e = some s') : ThreadsLt n s' := by
  unfold ThreadsLt at *
  cases e <;> simp only [step] at hs <;> split at hs <;> simp at hs
  all_goals first
    | (subst hs; intro t' h; simp only [upd, Ev.tid] at *; grind)
    | (obtain ⟨h1, hs⟩ := hs; subst hs; intro t' h; simp only [upd, Ev.tid] at *; grind)
    | (obtain ⟨h1, hs⟩ := hs; split at hs <;> simp at hs <;> subst hs <;> intro t' h <;>
        simp only [upd, Ev.tid] at * <;> grind)

/-- with `n` participating threads at most `n` tickets are outstanding -/
theorem outstanding_le_threads (n : Nat) (s : St) (ho : Own s) (ht : ThreadsLt n s) :
    s.gUsers - s.gTicket ≤ n := by
  apply pigeon n (s.gUsers - s.gTicket)
    (fun j t => (∃ my, s.pc t = .spinning my (s.gTicket + j)) ∨ (j = 0 ∧ holder (s.pc t) = true))
  · intro j hj
    obtain ⟨t, h⟩ := ho (s.gTicket + j) (by omega) (by omega)
    refine ⟨t, ?_, ?_⟩
    · apply ht
      rcases h with ⟨my, h⟩ | ⟨_, h⟩
      · simp [h]
      · intro hidle; simp [hidle, holder] at h
    · rcases h with h | ⟨h1, h2⟩
      · exact Or.inl h
      · exact Or.inr ⟨by omega, h2⟩
  · intro j1 j2 t _ _ h1 h2
    rcases h1 with ⟨my1, h1⟩ | ⟨h1, h1'⟩ <;> rcases h2 with ⟨my2, h2⟩ | ⟨h2, h2'⟩
    · rw [h1] at h2; simp at h2; omega
    · simp [h1, holder] at h2'
    · simp [h2, holder] at h1'
    · omega

/-- The hypothesis of the C18 theorems is implied by "fewer than 2^32 threads ever touch the
    lock": then fewer than 2^32 tickets are outstanding before every event of every run. -/
theorem boundedRun_of_threads_from (n : Nat) (hn : n < M32) (es : List Ev) : ∀ (s0 : St),
    Inv s0 → Own s0 → ThreadsLt n s0 → (∀ e ∈ es, e.tid < n) → BoundedRun s0 es := by
  induction es with
  | nil => intros; trivial
  | cons e es ih =>
    intro s0 hi ho ht hall
    have hb : Bnd s0 := by
      have := outstanding_le_threads n s0 ho ht
      unfold Bnd; omega
    simp only [BoundedRun]
    refine ⟨hb, ?_⟩
    split
    · trivial
    · next s1 h1 =>
      exact ih s1 (inv_step s0 s1 e hi hb h1) (own_step s0 s1 e hi hb ho h1)
        (threadsLt_step n s0 s1 e ht (hall e (by simp)) h1)
        (fun e' he' => hall e' (by simp [he']))

theorem boundedRun_of_threads (v0 n : Nat) (hn : n < M32) (es : List Ev)
    (hall : ∀ e ∈ es, e.tid < n) : BoundedRun (init v0) es :=
  boundedRun_of_threads_from n hn es (init v0) (inv_init v0) (own_init v0)
    (by intro t h; simp [init] at h) hall

/-! ### trylock is wait-free: no loop, never disabled -/

/-- number of own events a thread inside `trylock` still has to perform before it has returned -/
def tryRank : Pc → Nat
  | .tryCalled => 3
  | .tryRead _ _ => 2
  | .tryDone _ => 1
  | _ => 0

/-- a step of another thread never changes my program counter -/
theorem step_other_pc (s s' : St) (e : Ev) (t : Nat) (hs : step s e = some s') (ht : e.tid ≠ t) :
    s'.pc t = s.pc t := by
  cases e <;> simp only [step] at hs <;> split at hs <;> simp at hs
  all_goals first
    | (subst hs; simp only [upd, Ev.tid] at *; grind)
    | (obtain ⟨h1, hs⟩ := hs; subst hs; simp only [upd, Ev.tid] at *; grind)
    | (obtain ⟨h1, hs⟩ := hs; split at hs <;> simp at hs <;> subst hs <;>
        simp only [upd, Ev.tid] at * <;> grind)

/-- the events a thread performs from `call trylock` on: one 8-byte load, one CAS, return -/
def TryShape (t : Nat) : Nat → List Ev → Prop
  | _, [] => True
  | 3, e :: es => (∃ a b, e = .ldBlob t a b) ∧ TryShape t 2 es
  | 2, e :: es => (∃ f1 f2 e1 e2 d1 d2 ok, e = .casBlob t f1 f2 e1 e2 d1 d2 ok) ∧ TryShape t 1 es
  | 1, e :: _ => ∃ r, e = .retTry t r
  | _, _ :: _ => True

/-- an own step inside `trylock` is the next one of load / CAS / return and decreases the rank -/
theorem try_own_step (s s' : St) (e : Ev) (t : Nat) (hs : step s e = some s') (ht : e.tid = t)
    (hk : tryRank (s.pc t) ≠ 0) :
    tryRank (s'.pc t) + 1 = tryRank (s.pc t) ∧
    (tryRank (s.pc t) = 3 → ∃ a b, e = .ldBlob t a b) ∧
    (tryRank (s.pc t) = 2 → ∃ f1 f2 e1 e2 d1 d2 ok, e = .casBlob t f1 f2 e1 e2 d1 d2 ok) ∧
    (tryRank (s.pc t) = 1 → ∃ r, e = .retTry t r) := by
  subst ht
  cases e <;> simp only [step] at hs <;> split at hs <;> simp at hs
  all_goals first
    | (subst hs; simp only [upd, Ev.tid] at *; simp_all [tryRank])
    | (obtain ⟨h1, hs⟩ := hs; subst hs; simp only [upd, Ev.tid] at *; simp_all [tryRank])
    | (obtain ⟨h1, hs⟩ := hs; split at hs <;> simp at hs <;> subst hs <;>
        simp only [upd, Ev.tid] at * <;> simp_all [tryRank])

theorem tryShape_of_runFrom {v0 : Nat} (t : Nat) (es : List Ev) : ∀ (s s' : St),
    tryRank (s.pc t) ≠ 0 → (sys v0).runFrom s es = some s' →
    TryShape t (tryRank (s.pc t)) (es.filter (fun e => e.tid = t)) := by
  induction es with
  | nil => intro s s' _ _; simp [TryShape]
  | cons e es ih =>
    intro s s' hk hr
    obtain ⟨s1, h1, hr'⟩ := runFrom_cons hr
    by_cases ht : e.tid = t
    · simp only [List.filter, ht, decide_true]
      obtain ⟨hdec, h3, h2, h1'⟩ := try_own_step s s1 e t h1 ht hk
      have hcases : tryRank (s.pc t) = 1 ∨ tryRank (s.pc t) = 2 ∨ tryRank (s.pc t) = 3 := by
        cases hpc : s.pc t <;> simp [tryRank, hpc] at hk ⊢
      rcases hcases with hc | hc | hc
      · rw [hc]; exact h1' hc
      · rw [hc]; refine ⟨h2 hc, ?_⟩
        have : tryRank (s1.pc t) = 1 := by omega
        rw [← this]; exact ih s1 s' (by omega) hr'
      · rw [hc]; refine ⟨h3 hc, ?_⟩
        have : tryRank (s1.pc t) = 2 := by omega
        rw [← this]; exact ih s1 s' (by omega) hr'
    · simp only [List.filter, ht, decide_false]
      have := step_other_pc s s1 e t h1 ht
      rw [← this]
      exact ih s1 s' (by rw [this]; exact hk) hr'

/-- whatever the state of the lock and of the other threads, a thread inside `trylock` has an
    enabled step (it never waits for anybody) -/
theorem try_enabled (s : St) (t : Nat) (hk : tryRank (s.pc t) ≠ 0) :
    ∃ e, e.tid = t ∧ (step s e).isSome = true := by
  cases hpc : s.pc t <;> simp [tryRank, hpc] at hk
  · exact ⟨.ldBlob t s.ticket s.users, rfl, by simp [step, hpc]⟩
  · next tk us =>
    refine ⟨.casBlob t s.ticket s.users us us us ((us + 1) % M32)
      (decide (s.ticket = us ∧ s.users = us)), rfl, ?_⟩
    by_cases h : s.ticket = us ∧ s.users = us
    · simp [step, hpc, h]
    · simp [step, hpc, h]
  · next ok =>
    cases ok
    · exact ⟨.retTry t 0, rfl, by simp [step, hpc]⟩
    · exact ⟨.retTry t 1, rfl, by simp [step, hpc]⟩

/-! ### the ghost lists `order` / `acq` expressed on observable events -/

/-- thread of a `fetch_add(users)` event (a ticket taken by `lock`) -/
def faddTid : Ev → Option Nat
  | .faddUsers t _ => some t
  | _ => none

/-- thread of a `ret lock` note -/
def retLockTid : Ev → Option Nat
  | .retLock t => some t
  | _ => none

theorem order_step (s s' : St) (e : Ev) (hs : step s e = some s') :
    s'.order = s.order ++ (faddTid e).toList := by
  cases e <;> simp only [step] at hs <;> split at hs <;> simp at hs
  all_goals first
    | (subst hs; simp [faddTid])
    | (obtain ⟨h1, hs⟩ := hs; subst hs; simp [faddTid])
    | (obtain ⟨h1, hs⟩ := hs; split at hs <;> simp at hs <;> subst hs <;> simp [faddTid])

theorem order_eq_trace {v0 : Nat} {es : List Ev} {s : St} (hr : (sys v0).run es = some s) :
    s.order = es.filterMap faddTid := by
  refine Sys.hist_inv_of_run (sys v0) (fun s es => s.order = es.filterMap faddTid) (by simp [sys, init])
    ?_ hr
  intro s es e s' hI hs
  simp only [List.filterMap_append, ← hI]
  rw [order_step s s' e hs]
  cases h : faddTid e <;> simp [List.filterMap, h]

/-- `acq` = the threads that have returned from `lock` so far, followed by the thread (if any)
    whose spin loop has exited but which has not yet returned -/
def RInv (s : St) (rl : List Nat) : Prop :=
  ∃ l, s.acq = rl ++ l ∧
    ((l = [] ∧ ∀ t, s.pc t ≠ .lockDone) ∨ (∃ t, l = [t] ∧ s.pc t = .lockDone))

theorem rinv_pc_only {s : St} {rl : List Nat} (hr : RInv s rl) (t : Nat) (p : Pc) (s' : St)
    (ha : s'.acq = s.acq) (hpc : s'.pc = upd s.pc t p) (h1 : s.pc t ≠ .lockDone)
    (h2 : p ≠ .lockDone) : RInv s' rl := by
  obtain ⟨l, hl, h⟩ := hr
  refine ⟨l, by rw [ha]; exact hl, ?_⟩
  rw [hpc]
  simp only [upd]
  grind

theorem rinv_step (s s' : St) (e : Ev) (rl : List Nat) (hi : Inv s) (hi' : Inv s')
    (hr : RInv s rl) (hs : step s e = some s') : RInv s' (rl ++ (retLockTid e).toList) := by
  cases e with
  | retLock t =>
    simp only [step] at hs
    split at hs <;> simp at hs
    next hpc =>
    subst hs
    obtain ⟨l, hl, h⟩ := hr
    have hex := hi.excl
    rcases h with ⟨_, h⟩ | ⟨t0, rfl, h0⟩
    · exact absurd hpc (h t)
    · have : t0 = t := hex t0 t (by simp [h0, holder]) (by simp [hpc, holder])
      subst this
      refine ⟨[], by simp [retLockTid, hl], Or.inl ⟨rfl, ?_⟩⟩
      intro t'
      simp only [upd]
      split
      · simp
      · next hne =>
        intro h'
        exact hne (hex t' t0 (by simp [h', holder]) (by simp [hpc, holder]))
  | ldTicket t x =>
    simp only [step] at hs
    split at hs <;> simp at hs
    · next my g hpc =>
      obtain ⟨h1, hs⟩ := hs
      split at hs <;> simp at hs <;> subst hs
      · obtain ⟨l, hl, h⟩ := hr
        have hex := hi'.excl
        simp only [upd] at hex
        rcases h with ⟨rfl, _⟩ | ⟨t0, rfl, h0⟩
        · exact ⟨[t], by simp [retLockTid, hl], Or.inr ⟨t, rfl, by simp [upd]⟩⟩
        · have hne : t0 ≠ t := by rintro rfl; rw [hpc] at h0; simp at h0
          have := hex t0 t (by simp [hne, h0, holder]) (by simp [holder])
          exact absurd this hne
      · simpa [retLockTid] using hr
    · next hpc =>
      obtain ⟨h1, hs⟩ := hs
      simpa [retLockTid] using rinv_pc_only hr t _ s' (by subst hs; rfl) (by subst hs; rfl)
        (by simp [hpc]) (by simp)
  | casBlob t ftk fus etk eus dtk dus ok =>
    simp only [step] at hs
    split at hs <;> simp at hs
    next hpc =>
    obtain ⟨_, hs⟩ := hs
    split at hs <;> simp at hs <;>
      simpa [retLockTid] using rinv_pc_only hr t _ s' (by subst hs; rfl) (by subst hs; rfl)
        (by simp [hpc]) (by simp)
  | _ =>
    simp only [step] at hs
    split at hs <;> simp at hs
    all_goals first
      | (next hpc =>
          simpa [retLockTid] using rinv_pc_only hr _ _ s' (by subst hs; rfl) (by subst hs; rfl)
            (by simp [hpc]) (by simp))
      | (next hpc =>
          obtain ⟨_, hs⟩ := hs
          simpa [retLockTid] using rinv_pc_only hr _ _ s' (by subst hs; rfl) (by subst hs; rfl)
            (by simp [hpc]) (by simp))

theorem rinv_of_runFrom {v0 : Nat} {es : List Ev} : ∀ {s0 s : St} {rl : List Nat},
    Inv s0 → RInv s0 rl → BoundedRun s0 es → (sys v0).runFrom s0 es = some s →
    RInv s (rl ++ es.filterMap retLockTid) := by
  induction es with
  | nil => intro s0 s rl _ hq _ hr; simp [Sys.runFrom] at hr; subst hr; simpa using hq
  | cons e es ih =>
    intro s0 s rl hi hq hb hr
    obtain ⟨s1, h1, hr'⟩ := runFrom_cons hr
    simp only [BoundedRun, h1] at hb
    have hi1 := inv_step s0 s1 e hi hb.1 h1
    have := ih hi1 (rinv_step s0 s1 e rl hi hi1 hq h1) hb.2 hr'
    cases h : retLockTid e <;> simpa [List.filterMap, h] using this

end LibfiberVerif.Spin
