/-
  Proof/MultiChanRing.lean — the ring-buffer invariant of the multi channel model: every
  message is received exactly once, in the order `high` was advanced (hence per sender in
  the order sent), never more than `size` messages are buffered and a slot is only written
  while it holds NULL.  Property C11.
-/
import LibfiberVerif.Proof.MultiChanLock

set_option linter.unusedSimpArgs false

namespace LibfiberVerif.MultiChan

/-- the value with sequence number i (0 if there is none yet) -/
def val (s : St) (i : Nat) : Nat := ((s.sent[i]?).map Prod.snd).getD 0

def Op.pend : Op → List Nat
  | .send v => [v]
  | .recv => []

/-- the message a fiber is in the middle of sending (not yet counted in `sent`) -/
def Pc.pending : Pc → List Nat
  | .lock o => o.pend | .lockWait o => o.pend | .gotHigh o _ => o.pend | .gotLow o _ _ => o.pend
  | .wGot o _ => o.pend | .wLinked o => o.pend | .wListed o => o.pend | .wPending o => o.pend
  | .wAsleep o => o.pend
  | .sWrote v _ => [v]
  | .idle => [] | .rRead _ _ => [] | .rCleared _ _ => []
  | .kTop _ => [] | .kGot _ _ => [] | .kNext _ _ _ => [] | .kUnl _ _ => [] | .kClr _ _ => []
  | .unlock _ => [] | .handing _ => [] | .done _ => []

def sentBy (s : St) (f : Nat) : List Nat := (s.sent.filter (fun p => p.1 = f)).map Prod.snd

theorem mod_ne_of_lt {a b c : Nat} (h1 : a < b) (h2 : b - a < c) : a % c ≠ b % c := by
  intro h
  have h3 := Nat.sub_mod_eq_zero_of_mod_eq h.symm
  rw [Nat.mod_eq_of_lt h2] at h3
  omega

structure RInv (s : St) : Prop where
  len : s.sent.length = s.high
  lowhigh : s.low ≤ s.high ∧ s.high - s.low ≤ s.cap
  recvd_eq : s.recvd = (s.sent.take s.low).map Prod.snd
  slots : ∀ i, s.low ≤ i → i < s.high → (∀ f m, s.pc f ≠ .rCleared i m) → s.buf (i % s.cap) = val s i
  sWrote_slot : ∀ f v h, s.pc f = .sWrote v h → s.buf (h % s.cap) = v
  rRead_val : ∀ f l m, s.pc f = .rRead l m → m = val s l
  rCleared_val : ∀ f l m, s.pc f = .rCleared l m → m = val s l ∧ s.buf (l % s.cap) = 0
  free : ∀ j, j < s.cap → (∀ i, s.low ≤ i → i < s.high → i % s.cap ≠ j) →
    (∀ f v h, s.pc f = .sWrote v h → h % s.cap ≠ j) → s.buf j = 0
  nonzero : ∀ p, p ∈ s.sent → p.2 ≠ 0
  calls_eq : ∀ f, sentBy s f ++ (s.pc f).pending = s.calls f
  pend_nz : ∀ f v, v ∈ (s.pc f).pending → v ≠ 0

theorem rinv_init (two : Bool) (cap : Nat) : RInv (init two cap) := by
  constructor <;> simp [init, val, sentBy, Pc.pending, Op.pend]

end LibfiberVerif.MultiChan
