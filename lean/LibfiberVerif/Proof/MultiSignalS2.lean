/-
  Proof/MultiSignalS2.lean — `MultiSignal.Inv` is preserved by the events of group S2
  (one lemma per event; split over several modules so that they compile in parallel).
-/
import LibfiberVerif.Proof.MultiSignalInv

namespace LibfiberVerif.MultiSignal

set_option maxHeartbeats 4000000 in
theorem inv_step_wData (s s' : St) (f n g : _) (hi : Inv s) (hs : step s (.wData f n g) = some s') : Inv s' := by
  obtain ⟨h1, h2, h3, h4, h5, h6, h7, h8, h9, h10, h11, h12, h13, h14, h15, h16, h17, h18, h19, h20, h21, h22, h23, h24, h25, h26, h27, h28, h29, h30⟩ := hi
  simp only [step] at hs
  repeat' (split at hs)
  all_goals (try simp at hs)
  all_goals (first | subst hs | (obtain ⟨_, hs⟩ := hs; subst hs))
  all_goals (constructor <;> ms_close)

set_option maxHeartbeats 4000000 in
theorem inv_step_ldC (s s' : St) (f c : _) (hi : Inv s) (hs : step s (.ldC f c) = some s') : Inv s' := by
  obtain ⟨h1, h2, h3, h4, h5, h6, h7, h8, h9, h10, h11, h12, h13, h14, h15, h16, h17, h18, h19, h20, h21, h22, h23, h24, h25, h26, h27, h28, h29, h30⟩ := hi
  simp only [step] at hs
  repeat' (split at hs)
  all_goals (try simp at hs)
  all_goals (first | subst hs | (obtain ⟨_, hs⟩ := hs; subst hs))
  all_goals (constructor <;> ms_close)

set_option maxHeartbeats 4000000 in
theorem inv_step_ldH (s s' : St) (f h : _) (hi : Inv s) (hs : step s (.ldH f h) = some s') : Inv s' := by
  obtain ⟨h1, h2, h3, h4, h5, h6, h7, h8, h9, h10, h11, h12, h13, h14, h15, h16, h17, h18, h19, h20, h21, h22, h23, h24, h25, h26, h27, h28, h29, h30⟩ := hi
  simp only [step] at hs
  repeat' (split at hs)
  all_goals (try simp at hs)
  all_goals (first | subst hs | (obtain ⟨_, hs⟩ := hs; subst hs))
  all_goals (constructor <;> ms_close)

set_option maxHeartbeats 4000000 in
theorem inv_step_rNext (s s' : St) (f n h : _) (hi : Inv s) (hs : step s (.rNext f n h) = some s') : Inv s' := by
  obtain ⟨h1, h2, h3, h4, h5, h6, h7, h8, h9, h10, h11, h12, h13, h14, h15, h16, h17, h18, h19, h20, h21, h22, h23, h24, h25, h26, h27, h28, h29, h30⟩ := hi
  simp only [step] at hs
  repeat' (split at hs)
  all_goals (try simp at hs)
  all_goals (first | subst hs | (obtain ⟨_, hs⟩ := hs; subst hs))
  all_goals (constructor <;> ms_close)

set_option maxHeartbeats 4000000 in
theorem inv_step_wStateWaiting (s s' : St) (f : _) (hi : Inv s) (hs : step s (.wStateWaiting f) = some s') : Inv s' := by
  obtain ⟨h1, h2, h3, h4, h5, h6, h7, h8, h9, h10, h11, h12, h13, h14, h15, h16, h17, h18, h19, h20, h21, h22, h23, h24, h25, h26, h27, h28, h29, h30⟩ := hi
  simp only [step] at hs
  repeat' (split at hs)
  all_goals (try simp at hs)
  all_goals (first | subst hs | (obtain ⟨_, hs⟩ := hs; subst hs))
  all_goals (constructor <;> ms_close)

end LibfiberVerif.MultiSignal
