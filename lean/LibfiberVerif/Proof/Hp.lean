/-
  Proof/Hp.lean — helper lemmas and the inductive invariants of the hazard-pointer model
  (property C14).  The property statements themselves are in Props/C14.lean.
-/
import LibfiberVerif.Model.Hp

namespace LibfiberVerif.Hp

/-! ## 1. `binary_search` and the sort -/

def Sorted (l : List Nat) : Prop := l.Pairwise (· ≤ ·)

theorem mem_insertSorted {x y : Nat} {l : List Nat} : y ∈ insertSorted x l ↔ y = x ∨ y ∈ l := by
  induction l with
  | nil => simp [insertSorted]
  | cons a l ih =>
    simp only [insertSorted]
    split
    · simp
    · simp [ih]; grind

theorem mem_isort {y : Nat} {l : List Nat} : y ∈ isort l ↔ y ∈ l := by
  induction l with
  | nil => simp [isort]
  | cons a l ih => simp [isort, mem_insertSorted, ih]

theorem length_insertSorted (x : Nat) (l : List Nat) : (insertSorted x l).length = l.length + 1 := by
  induction l with
  | nil => simp [insertSorted]
  | cons a l ih => simp only [insertSorted]; split <;> simp [ih]

theorem length_isort (l : List Nat) : (isort l).length = l.length := by
  induction l with
  | nil => simp [isort]
  | cons a l ih => simp [isort, length_insertSorted, ih]

theorem sorted_insertSorted {x : Nat} {l : List Nat} (h : Sorted l) : Sorted (insertSorted x l) := by
  induction l with
  | nil => simp [insertSorted, Sorted]
  | cons a l ih =>
    simp only [insertSorted]
    simp only [Sorted, List.pairwise_cons] at h
    split
    · next hxa =>
      simp only [Sorted, List.pairwise_cons]
      refine ⟨?_, h.1, h.2⟩
      intro b hb
      simp at hb
      rcases hb with rfl | hb
      · exact hxa
      · exact Nat.le_trans hxa (h.1 b hb)
    · next hxa =>
      simp only [Sorted, List.pairwise_cons]
      refine ⟨?_, ih h.2⟩
      intro b hb
      rcases mem_insertSorted.mp hb with rfl | hb
      · omega
      · exact h.1 b hb

theorem sorted_isort (l : List Nat) : Sorted (isort l) := by
  induction l with
  | nil => simp [isort, Sorted]
  | cons a l ih => exact sorted_insertSorted ih

theorem getD_eq {l : List Nat} {i : Nat} (h : i < l.length) : l.getD i 0 = l[i] := by
  simp [List.getD_eq_getElem?_getD, h]

theorem sorted_getD {l : List Nat} (h : Sorted l) {i j : Nat} (hij : i ≤ j) (hj : j < l.length) :
    l.getD i 0 ≤ l.getD j 0 := by
  have hi : i < l.length := by omega
  rw [getD_eq hi, getD_eq hj]
  rcases Nat.lt_or_eq_of_le hij with h' | rfl
  · exact (List.pairwise_iff_getElem.mp h) i j hi hj h'
  · exact Nat.le_refl _

/-- The loop of `binary_search`, for every window: if everything left of `start` is smaller and
    everything right of `end_` is larger than the needle, the loop answers membership. -/
theorem bsLoop_iff (hay : List Nat) (needle : Nat) (hs : Sorted hay) (start end_ : Int)
    (h0 : 0 ≤ start) (h1 : end_ < hay.length)
    (hlo : ∀ i : Nat, (i : Int) < start → i < hay.length → hay.getD i 0 < needle)
    (hhi : ∀ i : Nat, end_ < (i : Int) → i < hay.length → needle < hay.getD i 0) :
    bsLoop hay needle start end_ = true ↔ needle ∈ hay := by
  generalize hn : (end_ - start + 1).toNat = n
  induction n using Nat.strongRecOn generalizing start end_ with
  | _ n ih =>
    rw [bsLoop]
    by_cases hle : start ≤ end_
    · rw [if_pos hle]
      have hm : (start + end_).tdiv 2 = (start + end_) / 2 := by rw [tdiv_two]; split <;> omega
      simp only [hm]
      generalize hmid : (start + end_) / 2 = middle
      have h3 : middle.toNat < hay.length := by omega
      by_cases hgt : hay.getD middle.toNat 0 > needle
      · rw [if_pos hgt]
        apply ih _ (by omega) start (middle - 1) h0 (by omega) hlo _ rfl
        intro i hi hil
        by_cases hie : end_ < (i : Int)
        · exact hhi i hie hil
        · have h2 : middle.toNat ≤ i := by omega
          have := sorted_getD hs h2 hil
          omega
      · rw [if_neg hgt]
        by_cases hlt : hay.getD middle.toNat 0 < needle
        · rw [if_pos hlt]
          apply ih _ (by omega) (middle + 1) end_ (by omega) h1 _ hhi rfl
          intro i hi hil
          by_cases his : (i : Int) < start
          · exact hlo i his hil
          · have h2 : i ≤ middle.toNat := by omega
            have := sorted_getD hs h2 h3
            omega
        · rw [if_neg hlt]
          simp only [true_iff]
          have : hay.getD middle.toNat 0 = needle := by omega
          rw [← this, getD_eq h3]
          exact List.getElem_mem h3
    · rw [if_neg hle]
      simp only [Bool.false_eq_true, false_iff]
      intro hmem
      obtain ⟨i, hi, rfl⟩ := List.mem_iff_getElem.mp hmem
      by_cases his : (i : Int) < start
      · have := hlo i his hi
        rw [getD_eq hi] at this; omega
      · have := hhi i (by omega) hi
        rw [getD_eq hi] at this; omega

/-- `binary_search` on a sorted array of any length (0 included) is membership. -/
theorem binarySearch_iff {hay : List Nat} (hs : Sorted hay) (needle : Nat) :
    binarySearch hay needle = true ↔ needle ∈ hay := by
  unfold binarySearch
  split
  · next h => simp [List.eq_nil_of_length_eq_zero h]
  · next h =>
    apply bsLoop_iff hay needle hs 0 _ (by omega) (by omega)
    · intro i hi; omega
    · intro i hi hil; omega

theorem binarySearch_isort (pl : List Nat) (n : Nat) :
    binarySearch (isort pl) n = true ↔ n ∈ pl := by
  rw [binarySearch_iff (sorted_isort pl), mem_isort]

end LibfiberVerif.Hp
