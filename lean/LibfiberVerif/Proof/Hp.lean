/-
  Proof/Hp.lean — helper lemmas and the inductive invariants of the hazard-pointer model
  (property C14).  The property statements themselves are in Props/C14.lean.
-/
import LibfiberVerif.Model.Hp

namespace LibfiberVerif.Hp

/-! ## 1. `binary_search` and the sort -/

def Sorted (l : List Nat) : Prop := l.Pairwise (· ≤ ·)

theorem mem_insertSorted {x y : Nat} {l : List Nat} : y ∈ insertSorted x l ↔ y = x ∨ y ∈ l := by
  induction l with
  | nil => simp [insertSorted]
  | cons a l ih =>
    simp only [insertSorted]
    split
    · simp
    · simp [ih]; grind

theorem mem_isort {y : Nat} {l : List Nat} : y ∈ isort l ↔ y ∈ l := by
  induction l with
  | nil => simp [isort]
  | cons a l ih => simp [isort, mem_insertSorted, ih]

theorem length_insertSorted (x : Nat) (l : List Nat) : (insertSorted x l).length = l.length + 1 := by
  induction l with
  | nil => simp [insertSorted]
  | cons a l ih => simp only [insertSorted]; split <;> simp [ih]

theorem length_isort (l : List Nat) : (isort l).length = l.length := by
  induction l with
  | nil => simp [isort]
  | cons a l ih => simp [isort, length_insertSorted, ih]

theorem sorted_insertSorted {x : Nat} {l : List Nat} (h : Sorted l) : Sorted (insertSorted x l) := by
  induction l with
  | nil => simp [insertSorted, Sorted]
  | cons a l ih =>
    simp only [insertSorted]
    simp only [Sorted, List.pairwise_cons] at h
    split
    · next hxa =>
      simp only [Sorted, List.pairwise_cons]
      refine ⟨?_, h.1, h.2⟩
      intro b hb
      simp at hb
      rcases hb with rfl | hb
      · exact hxa
      · exact Nat.le_trans hxa (h.1 b hb)
    · next hxa =>
      simp only [Sorted, List.pairwise_cons]
      refine ⟨?_, ih h.2⟩
      intro b hb
      rcases mem_insertSorted.mp hb with rfl | hb
      · omega
      · exact h.1 b hb

theorem sorted_isort (l : List Nat) : Sorted (isort l) := by
  induction l with
  | nil => simp [isort, Sorted]
  | cons a l ih => exact sorted_insertSorted ih

theorem getD_eq {l : List Nat} {i : Nat} (h : i < l.length) : l.getD i 0 = l[i] := by
  simp [List.getD_eq_getElem?_getD, h]

theorem sorted_getD {l : List Nat} (h : Sorted l) {i j : Nat} (hij : i ≤ j) (hj : j < l.length) :
    l.getD i 0 ≤ l.getD j 0 := by
  have hi : i < l.length := by omega
  rw [getD_eq hi, getD_eq hj]
  rcases Nat.lt_or_eq_of_le hij with h' | rfl
  · exact (List.pairwise_iff_getElem.mp h) i j hi hj h'
  · exact Nat.le_refl _

/-- the fuel of `bsLoop` is irrelevant once it exceeds the size of the window (no assumption on
    the haystack) -/
theorem bsLoop_fuel (hay : List Nat) (needle : Nat) (f f' : Nat) (start end_ : Int)
    (h : (end_ - start + 1).toNat < f) (h' : (end_ - start + 1).toNat < f') :
    bsLoop hay needle f start end_ = bsLoop hay needle f' start end_ := by
  induction f generalizing f' start end_ with
  | zero => omega
  | succ f ih =>
    cases f' with
    | zero => omega
    | succ f' =>
      simp only [bsLoop]
      by_cases hle : start ≤ end_
      · simp only [hle, if_true]
        have hm : (start + end_).tdiv 2 = (start + end_) / 2 ∨ (start + end_).tdiv 2 = -((-(start + end_)) / 2) := by
          rw [tdiv_two]; split <;> simp
        generalize (start + end_).tdiv 2 = middle at hm
        split
        · exact ih f' start (middle - 1) (by omega) (by omega)
        · split
          · exact ih f' (middle + 1) end_ (by omega) (by omega)
          · rfl
      · simp [hle]

/-- The loop of `binary_search`, for every window: if everything left of `start` is smaller and
    everything right of `end_` is larger than the needle, the loop answers membership. -/
theorem bsLoop_iff (hay : List Nat) (needle : Nat) (hs : Sorted hay) (fuel : Nat) (start end_ : Int)
    (hf : (end_ - start + 1).toNat < fuel)
    (h0 : 0 ≤ start) (h1 : end_ < hay.length)
    (hlo : ∀ i : Nat, (i : Int) < start → i < hay.length → hay.getD i 0 < needle)
    (hhi : ∀ i : Nat, end_ < (i : Int) → i < hay.length → needle < hay.getD i 0) :
    bsLoop hay needle fuel start end_ = true ↔ needle ∈ hay := by
  induction fuel generalizing start end_ with
  | zero => omega
  | succ fuel ih =>
    simp only [bsLoop]
    by_cases hle : start ≤ end_
    · rw [if_pos hle]
      have hm : (start + end_).tdiv 2 = (start + end_) / 2 := by rw [tdiv_two]; split <;> omega
      simp only [hm]
      generalize hmid : (start + end_) / 2 = middle
      have h3 : middle.toNat < hay.length := by omega
      by_cases hgt : hay.getD middle.toNat 0 > needle
      · rw [if_pos hgt]
        apply ih start (middle - 1) (by omega) h0 (by omega) hlo _
        intro i hi hil
        by_cases hie : end_ < (i : Int)
        · exact hhi i hie hil
        · have h2 : middle.toNat ≤ i := by omega
          have := sorted_getD hs h2 hil
          omega
      · rw [if_neg hgt]
        by_cases hlt : hay.getD middle.toNat 0 < needle
        · rw [if_pos hlt]
          apply ih (middle + 1) end_ (by omega) (by omega) h1 _ hhi
          intro i hi hil
          by_cases his : (i : Int) < start
          · exact hlo i his hil
          · have h2 : i ≤ middle.toNat := by omega
            have := sorted_getD hs h2 h3
            omega
        · rw [if_neg hlt]
          simp only [true_iff]
          have : hay.getD middle.toNat 0 = needle := by omega
          rw [← this, getD_eq h3]
          exact List.getElem_mem h3
    · rw [if_neg hle]
      simp only [Bool.false_eq_true, false_iff]
      intro hmem
      obtain ⟨i, hi, rfl⟩ := List.mem_iff_getElem.mp hmem
      by_cases his : (i : Int) < start
      · have := hlo i his hi
        rw [getD_eq hi] at this; omega
      · have := hhi i (by omega) hi
        rw [getD_eq hi] at this; omega

/-- `binary_search` on a sorted array of any length (0 included) is membership. -/
theorem binarySearch_iff {hay : List Nat} (hs : Sorted hay) (needle : Nat) :
    binarySearch hay needle = true ↔ needle ∈ hay := by
  unfold binarySearch
  split
  · next h => simp [List.eq_nil_of_length_eq_zero h]
  · next h =>
    apply bsLoop_iff hay needle hs _ 0 _ (by omega) (by omega) (by omega)
    · intro i hi; omega
    · intro i hi hil; omega

theorem binarySearch_isort (pl : List Nat) (n : Nat) :
    binarySearch (isort pl) n = true ↔ n ∈ pl := by
  rw [binarySearch_iff (sorted_isort pl), mem_isort]

/-! ## 2. list facts -/

/-- pigeonhole: a duplicate-free list whose elements all occur in `m` is no longer than `m` -/
theorem nodup_length_le {l m : List Nat} (hn : l.Nodup) (hs : ∀ x ∈ l, x ∈ m) : l.length ≤ m.length := by
  induction l generalizing m with
  | nil => simp
  | cons a l ih =>
    have ha : a ∈ m := hs a (by simp)
    rw [List.nodup_cons] at hn
    have h1 : l.length ≤ (m.erase a).length := by
      apply ih hn.2
      intro x hx
      have hxa : x ≠ a := by intro h; subst h; exact hn.1 hx
      exact (List.mem_erase_of_ne hxa).mpr (hs x (by simp [hx]))
    rw [List.length_erase_of_mem ha] at h1
    have : 0 < m.length := List.length_pos_of_mem ha
    simp; omega

/-! ## 3. the push-only record list and the thresholds (invariant `Inv1`) -/

/-- records reachable from the record pointer `p` (through the immutable `next` fields) -/
def chain (s : St) (p : Nat) : List Nat := if p = 0 then [] else (p - 1) :: s.older (p - 1)

def ptrOk (s : St) (p : Nat) : Prop := p = 0 ∨ p - 1 ∈ s.recs

/-- the CAS on `*head` has succeeded -/
def Pc.pushed : Pc → Bool
  | .fresh | .joinCalled | .joinHead _ | .joinCount _ _ _ | .joinThr _ => false
  | _ => true

/-- `r` is still to be bumped by a joiner whose program counter is `p` -/
def pend (s : St) (p : Pc) (r : Nat) : Prop :=
  match p with
  | .joinPushed => True
  | .joinBump cur => r ∈ chain s cur
  | .joinBumped cur => r ∈ s.older (cur - 1)
  | _ => False

structure Inv1 (s : St) : Prop where
  hd : s.recs = chain s s.head
  nd : s.recs.Nodup
  old_sub : ∀ t ∈ s.recs, ∀ u ∈ s.older t, u ∈ s.recs
  old_nd : ∀ t ∈ s.recs, (s.older t).Nodup
  nxt : ∀ t ∈ s.recs, chain s (s.next t) = s.older t
  rank1 : ∀ t ∈ s.recs, (s.older t).length < s.recs.length
  rank2 : ∀ t ∈ s.recs, ∀ u ∈ s.older t, (s.older u).length < (s.older t).length
  tri : ∀ a ∈ s.recs, ∀ b ∈ s.recs, a = b ∨ a ∈ s.older b ∨ b ∈ s.older a
  pushed : ∀ t, t ∈ s.recs ↔ (s.pc t).pushed = true
  jhead : ∀ t ch, s.pc t = .joinHead ch → ptrOk s ch
  jcount : ∀ t ch cur cnt, s.pc t = .joinCount ch cur cnt →
    s.next t = ch ∧ ptrOk s ch ∧ ptrOk s cur ∧ cnt + (chain s cur).length = 1 + (chain s ch).length
  jthr : ∀ t ch, s.pc t = .joinThr ch →
    s.next t = ch ∧ ptrOk s ch ∧ s.thr t = 2 * (1 + (chain s ch).length) * s.k
  jbump : ∀ t cur, s.pc t = .joinBump cur → ptrOk s cur ∧ ∀ r ∈ chain s cur, r ∈ s.older t
  jbumped : ∀ t cur, s.pc t = .joinBumped cur →
    cur ≠ 0 ∧ cur - 1 ∈ s.recs ∧ cur - 1 ∈ s.older t ∧ ∀ r ∈ s.older (cur - 1), r ∈ s.older t
  thr_eq : ∀ t ∈ s.recs, s.thr t = 2 * (1 + (s.older t).length + (s.bumpedBy t).length) * s.k
  b1 : ∀ j ∈ s.recs, ∀ r ∈ s.older j, j ∈ s.bumpedBy r ∨ pend s (s.pc j) r
  b2 : ∀ r, ∀ j ∈ s.bumpedBy r, j ∈ s.recs ∧ r ∈ s.older j
  b3 : ∀ r, (s.bumpedBy r).Nodup
  b4 : ∀ j r, pend s (s.pc j) r → j ∉ s.bumpedBy r

theorem joined_pushed {p : Pc} (h : p.joined = true) : p.pushed = true := by
  cases p <;> simp_all [Pc.joined, Pc.pushed]

theorem pend_joined {s : St} {p : Pc} {r : Nat} (h : p.joined = true) : ¬ pend s p r := by
  cases p <;> simp_all [Pc.joined, pend]

/-- what an event outside `create_and_push` may change, as far as `Inv1` is concerned -/
structure Frame1 (s s' : St) : Prop where
  k : s'.k = s.k
  head : s'.head = s.head
  next : s'.next = s.next
  thr : s'.thr = s.thr
  recs : s'.recs = s.recs
  older : s'.older = s.older
  bumpedBy : s'.bumpedBy = s.bumpedBy
  pc : ∀ u, s'.pc u = s.pc u ∨ ((s.pc u).joined = true ∧ (s'.pc u).joined = true)

theorem Frame1.pc_eq {s s' : St} (f : Frame1 s s') {u : Nat} {p : Pc} (h : s'.pc u = p)
    (hp : p.joined = false) : s.pc u = p := by
  rcases f.pc u with h' | ⟨_, h'⟩
  · rw [← h']; exact h
  · rw [h] at h'; rw [hp] at h'; cases h'

theorem Inv1.frame {s s' : St} (h : Inv1 s) (f : Frame1 s s') : Inv1 s' := by
  have hch : ∀ p, chain s' p = chain s p := by intro p; simp [chain, f.older]
  have hok : ∀ p, ptrOk s' p = ptrOk s p := by intro p; simp [ptrOk, f.recs]
  have hpend : ∀ p r, pend s' p r = pend s p r := by
    intro p r; cases p <;> simp [pend, hch, f.older]
  constructor
  · rw [f.recs, hch, f.head]; exact h.hd
  · rw [f.recs]; exact h.nd
  · simpa [f.recs, f.older] using h.old_sub
  · simpa [f.recs, f.older] using h.old_nd
  · simpa [f.recs, f.older, hch, f.next] using h.nxt
  · simpa [f.recs, f.older] using h.rank1
  · simpa [f.recs, f.older] using h.rank2
  · simpa [f.recs, f.older] using h.tri
  · intro t
    rw [f.recs]
    rcases f.pc t with h' | ⟨h1, h2⟩
    · rw [h']; exact h.pushed t
    · rw [h.pushed t, joined_pushed h1, joined_pushed h2]
  · intro t ch hp
    rw [hok]; exact h.jhead t ch (f.pc_eq hp rfl)
  · intro t ch cur cnt hp
    simp only [hok, hch, f.next]; exact h.jcount t ch cur cnt (f.pc_eq hp rfl)
  · intro t ch hp
    simp only [hok, hch, f.next, f.thr, f.k]; exact h.jthr t ch (f.pc_eq hp rfl)
  · intro t cur hp
    simp only [hok, hch, f.older]; exact h.jbump t cur (f.pc_eq hp rfl)
  · intro t cur hp
    simp only [f.recs, f.older]; exact h.jbumped t cur (f.pc_eq hp rfl)
  · simpa [f.recs, f.older, f.thr, f.bumpedBy, f.k] using h.thr_eq
  · intro j hj r hr
    rw [f.recs] at hj; rw [f.older] at hr
    rw [f.bumpedBy, hpend]
    rcases f.pc j with h' | ⟨h1, h2⟩
    · rw [h']; exact h.b1 j hj r hr
    · rcases h.b1 j hj r hr with hb | hb
      · exact Or.inl hb
      · exact absurd hb (pend_joined h1)
  · simpa [f.recs, f.older, f.bumpedBy] using h.b2
  · simpa [f.bumpedBy] using h.b3
  · intro j r hp
    rw [hpend] at hp; rw [f.bumpedBy]
    rcases f.pc j with h' | ⟨h1, h2⟩
    · rw [h'] at hp; exact h.b4 j r hp
    · exact absurd hp (pend_joined h2)

macro "step_cases" h:ident : tactic =>
  `(tactic| ((repeat' (split at $h:ident)) <;>
      (try (simp only [Option.some.injEq, reduceCtorEq] at $h:ident)) <;> (try subst $h:ident)))

macro "frame1_tac" t:term : tactic =>
  `(tactic| (constructor <;> (try (simp [setPc]; done)) <;>
      (intro u; by_cases hu : u = $t <;> simp_all [setPc, upd, Pc.joined])))

@[simp] theorem chain_setPc (s : St) (t : Nat) (p : Pc) (q : Nat) : chain (setPc s t p) q = chain s q := rfl
@[simp] theorem ptrOk_setPc (s : St) (t : Nat) (p : Pc) (q : Nat) : ptrOk (setPc s t p) q = ptrOk s q := rfl
@[simp] theorem pend_setPc (s : St) (t : Nat) (p q : Pc) (r : Nat) : pend (setPc s t p) q r = pend s q r := by
  cases q <;> rfl

/-- a step of thread `t` inside `create_and_push` that only moves its program counter -/
theorem Inv1.setPc {s : St} (h : Inv1 s) (t : Nat) (p' : Pc)
    (hpushed : p'.pushed = (s.pc t).pushed)
    (hjhead : ∀ ch, p' = .joinHead ch → ptrOk s ch)
    (hjcount : ∀ ch cur cnt, p' = .joinCount ch cur cnt →
      s.next t = ch ∧ ptrOk s ch ∧ ptrOk s cur ∧ cnt + (chain s cur).length = 1 + (chain s ch).length)
    (hjthr : ∀ ch, p' = .joinThr ch →
      s.next t = ch ∧ ptrOk s ch ∧ s.thr t = 2 * (1 + (chain s ch).length) * s.k)
    (hjbump : ∀ cur, p' = .joinBump cur → ptrOk s cur ∧ ∀ r ∈ chain s cur, r ∈ s.older t)
    (hjbumped : ∀ cur, p' = .joinBumped cur →
      cur ≠ 0 ∧ cur - 1 ∈ s.recs ∧ cur - 1 ∈ s.older t ∧ ∀ r ∈ s.older (cur - 1), r ∈ s.older t)
    (hb1 : t ∈ s.recs → ∀ r ∈ s.older t, t ∈ s.bumpedBy r ∨ pend s p' r)
    (hb4 : ∀ r, pend s p' r → t ∉ s.bumpedBy r) : Inv1 (Hp.setPc s t p') := by
  have hpc : ∀ u, (Hp.setPc s t p').pc u = if u = t then p' else s.pc u := by
    intro u; simp [Hp.setPc, upd]
  constructor
  · exact h.hd
  · exact h.nd
  · exact h.old_sub
  · exact h.old_nd
  · exact h.nxt
  · exact h.rank1
  · exact h.rank2
  · exact h.tri
  · intro u; rw [hpc]; split
    · next hu => subst hu; rw [hpushed]; exact h.pushed u
    · exact h.pushed u
  · intro u ch; rw [hpc]; split
    · exact hjhead ch
    · exact h.jhead u ch
  · intro u ch cur cnt; rw [hpc]; split
    · next hu => subst hu; exact hjcount ch cur cnt
    · exact h.jcount u ch cur cnt
  · intro u ch; rw [hpc]; split
    · next hu => subst hu; exact hjthr ch
    · exact h.jthr u ch
  · intro u cur; rw [hpc]; split
    · next hu => subst hu; exact hjbump cur
    · exact h.jbump u cur
  · intro u cur; rw [hpc]; split
    · next hu => subst hu; exact hjbumped cur
    · exact h.jbumped u cur
  · exact h.thr_eq
  · intro j hj r hr; rw [hpc, pend_setPc]; split
    · next hu => subst hu; exact hb1 hj r hr
    · exact h.b1 j hj r hr
  · exact h.b2
  · exact h.b3
  · intro j r; rw [hpc, pend_setPc]; split
    · next hu => subst hu; exact hb4 r
    · exact h.b4 j r

theorem Inv1.head_ok {s : St} (h : Inv1 s) : ptrOk s s.head := by
  unfold ptrOk
  by_cases h0 : s.head = 0
  · exact Or.inl h0
  · right; rw [h.hd]; simp [chain, h0]

theorem Inv1.ptrOk_of_chain {s : St} (h : Inv1 s) {v u : Nat} (hu : u ∈ s.recs)
    (hc : chain s v = s.older u) : ptrOk s v := by
  unfold ptrOk
  by_cases h0 : v = 0
  · exact Or.inl h0
  · right
    apply h.old_sub u hu
    rw [← hc]; simp [chain, h0]

theorem Inv1.ptrOk_next {s : St} (h : Inv1 s) {u : Nat} (hu : u ∈ s.recs) : ptrOk s (s.next u) :=
  h.ptrOk_of_chain hu (h.nxt u hu)

theorem Inv1.not_mem_older_self {s : St} (h : Inv1 s) {u : Nat} (hu : u ∈ s.recs) : u ∉ s.older u := by
  intro hm; have := h.rank2 u hu u hm; omega

theorem Inv1.bumpedBy_nil {s : St} (h : Inv1 s) {t : Nat} (ht : t ∉ s.recs) : s.bumpedBy t = [] := by
  apply List.eq_nil_iff_forall_not_mem.mpr
  intro j hj
  have := h.b2 t j hj
  exact ht (h.old_sub j this.1 t this.2)

theorem Inv1.updNext {s : St} (h : Inv1 s) {t : Nat} (v : Nat) (ht : t ∉ s.recs)
    (hp1 : ∀ ch cur cnt, s.pc t ≠ .joinCount ch cur cnt) (hp2 : ∀ ch, s.pc t ≠ .joinThr ch) :
    Inv1 { s with next := upd s.next t v } := by
  constructor
  · exact h.hd
  · exact h.nd
  · exact h.old_sub
  · exact h.old_nd
  · intro u hu
    have : u ≠ t := by intro e; subst e; exact ht hu
    show chain s (upd s.next t v u) = s.older u
    rw [upd_other _ _ _ _ this]; exact h.nxt u hu
  · exact h.rank1
  · exact h.rank2
  · exact h.tri
  · exact h.pushed
  · exact h.jhead
  · intro u ch cur cnt hp
    have : u ≠ t := by intro e; subst e; exact hp1 _ _ _ hp
    show upd s.next t v u = ch ∧ _
    rw [upd_other _ _ _ _ this]; exact h.jcount u ch cur cnt hp
  · intro u ch hp
    have : u ≠ t := by intro e; subst e; exact hp2 _ hp
    show upd s.next t v u = ch ∧ _
    rw [upd_other _ _ _ _ this]; exact h.jthr u ch hp
  · exact h.jbump
  · exact h.jbumped
  · exact h.thr_eq
  · exact h.b1
  · exact h.b2
  · exact h.b3
  · exact h.b4

theorem Inv1.updThr {s : St} (h : Inv1 s) {t : Nat} (v : Nat) (ht : t ∉ s.recs)
    (hp2 : ∀ ch, s.pc t ≠ .joinThr ch) : Inv1 { s with thr := upd s.thr t v } := by
  constructor
  · exact h.hd
  · exact h.nd
  · exact h.old_sub
  · exact h.old_nd
  · exact h.nxt
  · exact h.rank1
  · exact h.rank2
  · exact h.tri
  · exact h.pushed
  · exact h.jhead
  · exact h.jcount
  · intro u ch hp
    have : u ≠ t := by intro e; subst e; exact hp2 _ hp
    show _ ∧ _ ∧ upd s.thr t v u = _
    rw [upd_other _ _ _ _ this]; exact h.jthr u ch hp
  · exact h.jbump
  · exact h.jbumped
  · intro u hu
    have : u ≠ t := by intro e; subst e; exact ht hu
    show upd s.thr t v u = _
    rw [upd_other _ _ _ _ this]; exact h.thr_eq u hu
  · exact h.b1
  · exact h.b2
  · exact h.b3
  · exact h.b4

theorem inv1_init (k : Nat) : Inv1 (init k) := by
  constructor <;> simp [init, chain, ptrOk, pend, Pc.pushed]

/-! ### `Inv1` is preserved by the steps of `create_and_push` -/

theorem inv1_callJoin {s s' : St} {t : Nat} (h : Inv1 s) (hs : stepCallJoin s t = some s') : Inv1 s' := by
  unfold stepCallJoin at hs
  step_cases hs
  next hpc =>
  have ht : t ∉ s.recs := by rw [h.pushed, hpc]; simp [Pc.pushed]
  apply h.setPc <;> simp [hpc, Pc.pushed, pend, ht]

theorem inv1_retJoin {s s' : St} {t : Nat} (h : Inv1 s) (hs : stepRetJoin s t = some s') : Inv1 s' := by
  unfold stepRetJoin at hs
  step_cases hs
  next hpc =>
  apply h.setPc <;> simp [hpc, Pc.pushed, pend]
  intro ht r hr
  have := h.b1 t ht r hr
  simpa [hpc, pend, chain] using this

theorem inv1_ldHead {s s' : St} {t v : Nat} (h : Inv1 s) (hs : stepLdHead s t v = some s') : Inv1 s' := by
  unfold stepLdHead at hs
  step_cases hs
  · next hpc hv =>
    subst hv
    have ht : t ∉ s.recs := by rw [h.pushed, hpc]; simp [Pc.pushed]
    apply h.setPc <;> simp [hpc, Pc.pushed, pend, ht]
    exact h.head_ok
  · next c hpc hv => exact h.frame (by frame1_tac t)

theorem inv1_wrNext {s s' : St} {t r v : Nat} (h : Inv1 s) (hs : stepWrNext s t r v = some s') : Inv1 s' := by
  unfold stepWrNext at hs
  step_cases hs
  next ch hpc hv =>
  obtain ⟨rfl, rfl⟩ := hv
  have ht : r ∉ s.recs := by rw [h.pushed, hpc]; simp [Pc.pushed]
  have h1 := h.updNext (t := r) v ht (by simp [hpc]) (by simp [hpc])
  have hok := h.jhead r v hpc
  have := h1.setPc r (.joinCount v v 1) (by simp [hpc, Pc.pushed]) (by simp) (by
      intro ch cur cnt e; cases e; exact ⟨by simp, hok, hok, rfl⟩) (by simp) (by simp) (by simp)
      (by intro ht'; exact absurd ht' ht) (by simp [pend])
  exact this

theorem inv1_stThr {s s' : St} {t r v : Nat} (h : Inv1 s) (hs : stepStThr s t r v = some s') : Inv1 s' := by
  unfold stepStThr at hs
  step_cases hs
  next ch cur cnt hpc hv =>
  obtain ⟨rfl, rfl, rfl⟩ := hv
  have ht : r ∉ s.recs := by rw [h.pushed, hpc]; simp [Pc.pushed]
  have h1 := h.updThr (t := r) (2 * cnt * s.k) ht (by simp [hpc])
  obtain ⟨hn, hok, _, hcnt⟩ := h.jcount r ch 0 cnt hpc
  have := h1.setPc r (.joinThr ch) (by simp [hpc, Pc.pushed]) (by simp) (by simp) (by
      intro ch' e; cases e
      refine ⟨hn, hok, ?_⟩
      have : cnt = 1 + (chain s ch).length := by simpa [chain] using hcnt
      show upd s.thr r (2 * cnt * s.k) r = _
      rw [upd_same, this]; rfl) (by simp) (by simp) (by intro ht'; exact absurd ht' ht) (by simp [pend])
  exact this

theorem inv1_rdNext {s s' : St} {t r v : Nat} (h : Inv1 s) (hs : stepRdNext s t r v = some s') : Inv1 s' := by
  unfold stepRdNext at hs
  step_cases hs
  · next ch cur cnt hpc hv =>
    obtain ⟨hc0, rfl, rfl⟩ := hv
    obtain ⟨hn, hok, hcur, hcnt⟩ := h.jcount t ch cur cnt hpc
    have hr : cur - 1 ∈ s.recs := by rcases hcur with h0 | h0; exact absurd h0 hc0; exact h0
    have hch := h.nxt _ hr
    have ht : t ∉ s.recs := by rw [h.pushed, hpc]; simp [Pc.pushed]
    apply h.setPc <;> simp [hpc, Pc.pushed, pend, ht]
    refine ⟨hn, hok, h.ptrOk_next hr, ?_⟩
    rw [hch]
    have hl : (chain s cur).length = 1 + (s.older (cur - 1)).length := by simp [chain, hc0]; omega
    omega
  · next hpc hv =>
    obtain ⟨rfl, rfl⟩ := hv
    have hr : r ∈ s.recs := by rw [h.pushed, hpc]; simp [Pc.pushed]
    have hch := h.nxt _ hr
    apply h.setPc <;> simp [hpc, Pc.pushed, pend]
    · exact ⟨h.ptrOk_next hr, by rw [hch]; exact fun r hr => hr⟩
    · intro _ r' hr'; right; rw [hch]; exact hr'
    · intro r' _; exact h.b4 r r' (by simp [hpc, pend])
  · next cur hpc hv =>
    obtain ⟨hc0, rfl, rfl⟩ := hv
    obtain ⟨_, hr, hro, hsub⟩ := h.jbumped t cur hpc
    have hch := h.nxt _ hr
    apply h.setPc <;> simp [hpc, Pc.pushed, pend]
    · exact ⟨h.ptrOk_next hr, by rw [hch]; exact hsub⟩
    · intro ht r' hr'
      have := h.b1 t ht r' hr'
      rw [hch]; simpa [hpc, pend] using this
    · intro r' hr'
      rw [hch] at hr'
      exact h.b4 t r' (by simpa [hpc, pend] using hr')
  · next c h0 cap cur i pl walked hpc hv => exact h.frame (by frame1_tac t)

theorem inv1_faddThr {s s' : St} {t r old op : Nat} (h : Inv1 s)
    (hs : stepFaddThr s t r old op = some s') : Inv1 s' := by
  unfold stepFaddThr at hs
  step_cases hs
  next cur hpc hv =>
  obtain ⟨hc0, rfl, rfl, rfl⟩ := hv
  obtain ⟨hok, hsub⟩ := h.jbump t cur hpc
  have hr0 : cur - 1 ∈ s.recs := by rcases hok with h0 | h0; exact absurd h0 hc0; exact h0
  have hchain : chain s cur = (cur - 1) :: s.older (cur - 1) := by simp [chain, hc0]
  have ht : t ∈ s.recs := by rw [h.pushed, hpc]; simp [Pc.pushed]
  have hnself := h.not_mem_older_self hr0
  have hpc' : ∀ u, upd s.pc t (Pc.joinBumped cur) u = if u = t then Pc.joinBumped cur else s.pc u := by
    intro u; simp [upd]
  constructor
  · exact h.hd
  · exact h.nd
  · exact h.old_sub
  · exact h.old_nd
  · exact h.nxt
  · exact h.rank1
  · exact h.rank2
  · exact h.tri
  · intro u; show _ ↔ (upd s.pc t _ u).pushed = true
    rw [hpc']; split
    · next hu => subst hu; simp [Pc.pushed, ht]
    · exact h.pushed u
  · intro u ch; show upd s.pc t _ u = _ → _
    rw [hpc']; split
    · simp
    · exact h.jhead u ch
  · intro u ch c cnt; show upd s.pc t _ u = _ → _
    rw [hpc']; split
    · simp
    · exact h.jcount u ch c cnt
  · intro u ch; show upd s.pc t _ u = _ → _
    rw [hpc']; split
    · simp
    · intro hp
      have hu : u ∉ s.recs := by rw [h.pushed, hp]; simp [Pc.pushed]
      have : u ≠ cur - 1 := by intro e; rw [e] at hu; exact hu hr0
      show _ ∧ _ ∧ upd s.thr _ _ u = _
      rw [upd_other _ _ _ _ this]; exact h.jthr u ch hp
  · intro u c; show upd s.pc t _ u = _ → _
    rw [hpc']; split
    · simp
    · exact h.jbump u c
  · intro u c; show upd s.pc t _ u = _ → _
    rw [hpc']; split
    · next hu =>
      subst hu; intro e; cases e
      refine ⟨hc0, hr0, hsub _ (by simp [hchain]), ?_⟩
      intro r hr; exact hsub r (by simp [hchain, hr])
    · exact h.jbumped u c
  · intro u hu
    show upd s.thr _ _ u = 2 * (1 + _ + (upd s.bumpedBy _ _ u).length) * s.k
    by_cases e : u = cur - 1
    · subst e; simp only [upd_same, List.length_cons]
      have := h.thr_eq _ hr0
      grind
    · rw [upd_other _ _ _ _ e, upd_other _ _ _ _ e]; exact h.thr_eq u hu
  · intro j hj r hr
    show j ∈ upd s.bumpedBy _ _ r ∨ pend s (upd s.pc t _ j) r
    rw [hpc']
    have hb := h.b1 j hj r hr
    by_cases e : j = t
    · subst e; simp only [if_true, pend]
      rw [hpc] at hb; simp only [pend, hchain, List.mem_cons] at hb
      rcases hb with hb | hb | hb
      · left; by_cases e : r = cur - 1
        · subst e; simp [hb]
        · rw [upd_other _ _ _ _ e]; exact hb
      · subst hb; left; simp
      · right; exact hb
    · simp only [e, if_false]
      rcases hb with hb | hb
      · left; by_cases e : r = cur - 1
        · subst e; simp [hb]
        · rw [upd_other _ _ _ _ e]; exact hb
      · right; exact hb
  · intro r j hj
    change j ∈ upd s.bumpedBy _ _ r at hj
    by_cases e : r = cur - 1
    · subst e; simp only [upd_same, List.mem_cons] at hj
      rcases hj with rfl | hj
      · exact ⟨ht, hsub _ (by simp [hchain])⟩
      · exact h.b2 _ j hj
    · rw [upd_other _ _ _ _ e] at hj; exact h.b2 r j hj
  · intro r
    show (upd s.bumpedBy _ _ r).Nodup
    by_cases e : r = cur - 1
    · subst e; simp only [upd_same, List.nodup_cons]
      exact ⟨h.b4 t _ (by simp [hpc, pend, hchain]), h.b3 _⟩
    · rw [upd_other _ _ _ _ e]; exact h.b3 r
  · intro j r
    show pend s (upd s.pc t _ j) r → j ∉ upd s.bumpedBy _ _ r
    rw [hpc']
    by_cases e : j = t
    · subst e; simp only [if_true, pend]
      intro hr
      have e : r ≠ cur - 1 := by intro e; subst e; exact hnself hr
      rw [upd_other _ _ _ _ e]
      exact h.b4 j r (by simp [hpc, pend, hchain, hr])
    · simp only [e, if_false]
      intro hp
      have := h.b4 j r hp
      by_cases e' : r = cur - 1
      · subst e'; simp [e, this]
      · rw [upd_other _ _ _ _ e']; exact this

theorem inv1_push_aux {s S : St} {t exp : Nat} (h : Inv1 s) (hpc : s.pc t = .joinThr exp)
    (hfe : s.head = exp)
    (hS_head : S.head = t + 1) (hS_recs : S.recs = t :: s.recs)
    (hS_older : ∀ u, S.older u = if u = t then s.recs else s.older u)
    (hS_pc : ∀ u, S.pc u = if u = t then Pc.joinPushed else s.pc u)
    (hS_next : S.next = s.next) (hS_thr : S.thr = s.thr) (hS_k : S.k = s.k)
    (hS_b : S.bumpedBy = s.bumpedBy) : Inv1 S := by
    obtain ⟨hn, _, hthr⟩ := h.jthr t _ hpc
    have ht : t ∉ s.recs := by rw [h.pushed, hpc]; simp [Pc.pushed]
    have hne : ∀ u ∈ s.recs, u ≠ t := by intro u hu e; subst e; exact ht hu
    have hrecs : chain s exp = s.recs := by rw [← hfe]; exact h.hd.symm
    have hold : ∀ u ∈ s.recs, S.older u = s.older u := by
      intro u hu; rw [hS_older, if_neg (hne u hu)]
    have hchain : ∀ p, ptrOk s p → chain S p = chain s p := by
      intro p hp
      unfold chain
      split
      · rfl
      · next h0 =>
        rcases hp with hp | hp
        · exact absurd hp h0
        · rw [hold _ hp]
    have hokm : ∀ p, ptrOk s p → ptrOk S p := by
      intro p hp; unfold ptrOk at *; rw [hS_recs]
      rcases hp with hp | hp
      · exact Or.inl hp
      · exact Or.inr (by simp [hp])
    have hpend : ∀ u, u ≠ t → ∀ r, pend S (s.pc u) r ↔ pend s (s.pc u) r := by
      intro u hu r
      cases hp : s.pc u <;> simp only [pend]
      · next cur => rw [hchain _ (h.jbump u cur hp).1]
      · next cur => rw [hold _ (h.jbumped u cur hp).2.1]
    have hbt : ∀ r, t ∉ s.bumpedBy r := by
      intro r hm; exact ht (h.b2 r t hm).1
    constructor
    · rw [hS_recs, hS_head]; simp [chain, hS_older]
    · rw [hS_recs, List.nodup_cons]; exact ⟨ht, h.nd⟩
    · intro u hu w hw
      rw [hS_recs] at hu ⊢
      rw [hS_older] at hw
      split at hw
      · simp [hw]
      · next e =>
        have hu' : u ∈ s.recs := by simpa [e] using hu
        simp [h.old_sub u hu' w hw]
    · intro u hu
      rw [hS_recs] at hu
      rw [hS_older]; split
      · exact h.nd
      · next e => exact h.old_nd u (by simpa [e] using hu)
    · intro u hu
      rw [hS_recs] at hu; rw [hS_next, hS_older]
      split
      · next e => subst e; rw [hn, hchain _ (h.jthr u _ hpc).2.1, hrecs]
      · next e =>
        have hu' : u ∈ s.recs := by simpa [e] using hu
        rw [hchain _ (h.ptrOk_next hu')]; exact h.nxt u hu'
    · intro u hu
      rw [hS_recs] at hu ⊢; rw [hS_older]; split
      · simp
      · next e =>
        have hu' : u ∈ s.recs := by simpa [e] using hu
        have := h.rank1 u hu'; simp; omega
    · intro u hu w hw
      rw [hS_recs] at hu
      rw [hS_older u] at hw ⊢
      split at hw
      · next e => rw [hold w hw]; simpa [e] using h.rank1 w hw
      · next e =>
        have hu' : u ∈ s.recs := by simpa [e] using hu
        rw [if_neg e, hold w (h.old_sub u hu' w hw)]; exact h.rank2 u hu' w hw
    · intro a ha b hb
      rw [hS_recs] at ha hb
      rw [hS_older a, hS_older b]
      by_cases ea : a = t <;> by_cases eb : b = t
      · left; rw [ea, eb]
      · right; right; simp only [ea, if_true]; simpa [eb] using hb
      · right; left; simp only [eb, if_true]; simpa [ea] using ha
      · simp only [ea, eb, if_false]
        exact h.tri a (by simpa [ea] using ha) b (by simpa [eb] using hb)
    · intro u
      rw [hS_recs, hS_pc]; split
      · next e => simp [e, Pc.pushed]
      · next e => simp [e, h.pushed u]
    · intro u c; rw [hS_pc]; split
      · simp
      · intro hp; exact hokm _ (h.jhead u c hp)
    · intro u c cur cnt; rw [hS_pc]; split
      · simp
      · intro hp
        obtain ⟨a1, a2, a3, a4⟩ := h.jcount u c cur cnt hp
        rw [hS_next, hchain _ a2, hchain _ a3]
        exact ⟨a1, hokm _ a2, hokm _ a3, a4⟩
    · intro u c; rw [hS_pc]; split
      · simp
      · intro hp
        obtain ⟨a1, a2, a3⟩ := h.jthr u c hp
        rw [hS_next, hS_thr, hS_k, hchain _ a2]
        exact ⟨a1, hokm _ a2, a3⟩
    · intro u c; rw [hS_pc]; split
      · simp
      · next e =>
        intro hp
        obtain ⟨a1, a2⟩ := h.jbump u c hp
        rw [hchain _ a1, hS_older, if_neg e]
        exact ⟨hokm _ a1, a2⟩
    · intro u c; rw [hS_pc]; split
      · simp
      · next e =>
        intro hp
        obtain ⟨a1, a2, a3, a4⟩ := h.jbumped u c hp
        rw [hS_recs, hold _ a2, hS_older u, if_neg e]
        exact ⟨a1, by simp [a2], a3, a4⟩
    · intro u hu
      rw [hS_recs] at hu; rw [hS_thr, hS_k, hS_b, hS_older]
      split
      · next e =>
        subst e; rw [hthr, hrecs, h.bumpedBy_nil ht]; simp
      · next e => exact h.thr_eq u (by simpa [e] using hu)
    · intro j hj r hr
      rw [hS_recs] at hj; rw [hS_b, hS_pc]
      rw [hS_older] at hr
      split
      · right; simp [pend]
      · next e =>
        rw [if_neg e] at hr
        rw [hpend j e r]
        exact h.b1 j (by simpa [e] using hj) r hr
    · intro r j hj
      rw [hS_b] at hj
      obtain ⟨a1, a2⟩ := h.b2 r j hj
      rw [hS_recs, hold j a1]; exact ⟨by simp [a1], a2⟩
    · rw [hS_b]; exact h.b3
    · intro j r
      rw [hS_b, hS_pc]; split
      · next e => subst e; intro _; exact hbt r
      · next e => rw [hpend j e r]; exact h.b4 j r

theorem inv1_casHead {s s' : St} {t found exp des : Nat} {ok : Bool} (h : Inv1 s)
    (hs : stepCasHead s t found exp des ok = some s') : Inv1 s' := by
  unfold stepCasHead at hs
  step_cases hs
  · next ch hpc hv hok =>
    obtain ⟨rfl, rfl, rfl, hdec⟩ := hv
    have hfe : s.head = exp := by simpa [hok] using hdec
    apply inv1_push_aux h hpc hfe rfl rfl
    · intro u; simp [upd]
    · intro u; simp [upd]
    all_goals rfl
  · next ch hpc hv hok =>
    obtain ⟨rfl, rfl, rfl, _⟩ := hv
    have ht : t ∉ s.recs := by rw [h.pushed, hpc]; simp [Pc.pushed]
    apply h.setPc <;> simp [hpc, Pc.pushed, pend, ht]
    exact h.head_ok

/-! ### every other event leaves the `Inv1` view unchanged -/

theorem frame1_LdThr {s s' : St} {t r v : Nat} (hs : stepLdThr s t r v = some s') : Frame1 s s' := by
  unfold stepLdThr at hs
  step_cases hs
  all_goals frame1_tac t

theorem frame1_RdRc {s s' : St} {t r v : Nat} (hs : stepRdRc s t r v = some s') : Frame1 s s' := by
  unfold stepRdRc at hs
  step_cases hs
  all_goals frame1_tac t

theorem frame1_WrRc {s s' : St} {t r v : Nat} (hs : stepWrRc s t r v = some s') : Frame1 s s' := by
  unfold stepWrRc at hs
  step_cases hs
  all_goals frame1_tac t

theorem frame1_RdHp {s s' : St} {t r i v : Nat} (hs : stepRdHp s t r i v = some s') : Frame1 s s' := by
  unfold stepRdHp at hs
  step_cases hs
  all_goals frame1_tac t

theorem frame1_WrHp {s s' : St} {t r i v : Nat} (hs : stepWrHp s t r i v = some s') : Frame1 s s' := by
  unfold stepWrHp at hs
  step_cases hs
  all_goals frame1_tac t

theorem frame1_Fence {s s' : St} {t : Nat} (hs : stepFence s t = some s') : Frame1 s s' := by
  unfold stepFence at hs
  step_cases hs
  all_goals frame1_tac t

theorem frame1_LdG {s s' : St} {t g v : Nat} (hs : stepLdG s t g v = some s') : Frame1 s s' := by
  unfold stepLdG at hs
  step_cases hs
  all_goals frame1_tac t

theorem frame1_XchgG {s s' : St} {t g old new : Nat} (hs : stepXchgG s t g old new = some s') : Frame1 s s' := by
  unfold stepXchgG at hs
  step_cases hs
  all_goals frame1_tac t

theorem frame1_CallAcq {s s' : St} {t g sl : Nat} (hs : stepCallAcq s t g sl = some s') : Frame1 s s' := by
  unfold stepCallAcq at hs
  step_cases hs
  all_goals frame1_tac t

theorem frame1_Validated {s s' : St} {t sl n : Nat} (hs : stepValidated s t sl n = some s') : Frame1 s s' := by
  unfold stepValidated at hs
  step_cases hs
  all_goals frame1_tac t

theorem frame1_Use {s s' : St} {t sl n : Nat} (hs : stepUse s t sl n = some s') : Frame1 s s' := by
  unfold stepUse at hs
  step_cases hs
  all_goals frame1_tac t

theorem frame1_RetAcq {s s' : St} {t n : Nat} (hs : stepRetAcq s t n = some s') : Frame1 s s' := by
  unfold stepRetAcq at hs
  step_cases hs
  all_goals frame1_tac t

theorem frame1_CallRel {s s' : St} {t sl : Nat} (hs : stepCallRel s t sl = some s') : Frame1 s s' := by
  unfold stepCallRel at hs
  step_cases hs
  all_goals frame1_tac t

theorem frame1_RetRel {s s' : St} {t : Nat} (hs : stepRetRel s t = some s') : Frame1 s s' := by
  unfold stepRetRel at hs
  step_cases hs
  all_goals frame1_tac t

theorem frame1_CallX {s s' : St} {t g : Nat} (hs : stepCallX s t g = some s') : Frame1 s s' := by
  unfold stepCallX at hs
  step_cases hs
  all_goals frame1_tac t

theorem frame1_Alloc {s s' : St} {t n : Nat} (hs : stepAlloc s t n = some s') : Frame1 s s' := by
  unfold stepAlloc at hs
  step_cases hs
  all_goals frame1_tac t

theorem frame1_CallRetire {s s' : St} {t n : Nat} (hs : stepCallRetire s t n = some s') : Frame1 s s' := by
  unfold stepCallRetire at hs
  step_cases hs
  all_goals frame1_tac t

theorem frame1_RetRetire {s s' : St} {t : Nat} (hs : stepRetRetire s t = some s') : Frame1 s s' := by
  unfold stepRetRetire at hs
  step_cases hs
  all_goals frame1_tac t

theorem frame1_RcNote {s s' : St} {t r v : Nat} (hs : stepRcNote s t r v = some s') : Frame1 s s' := by
  unfold stepRcNote at hs
  step_cases hs
  all_goals frame1_tac t

theorem frame1_RetX {s s' : St} {t : Nat} (hs : stepRetX s t = some s') : Frame1 s s' := by
  unfold stepRetX at hs
  step_cases hs
  all_goals frame1_tac t

theorem frame1_CallScan {s s' : St} {t : Nat} (hs : stepCallScan s t = some s') : Frame1 s s' := by
  unfold stepCallScan at hs
  step_cases hs
  all_goals frame1_tac t

theorem frame1_RetScan {s s' : St} {t : Nat} (hs : stepRetScan s t = some s') : Frame1 s s' := by
  unfold stepRetScan at hs
  step_cases hs
  all_goals frame1_tac t

theorem frame1_Reclaim {s s' : St} {t n : Nat} (hs : stepReclaim s t n = some s') : Frame1 s s' := by
  unfold stepReclaim at hs
  step_cases hs
  all_goals frame1_tac t

theorem inv1_step {s s' : St} {e : Ev} (h : Inv1 s) (hs : step s e = some s') : Inv1 s' := by
  cases e with

  | callJoin t => exact inv1_callJoin h hs

  | retJoin t => exact inv1_retJoin h hs

  | ldHead t v => exact inv1_ldHead h hs

  | casHead t f e d ok => exact inv1_casHead h hs

  | wrNext t r v => exact inv1_wrNext h hs

  | rdNext t r v => exact inv1_rdNext h hs

  | stThr t r v => exact inv1_stThr h hs

  | ldThr t r v => exact h.frame (frame1_LdThr hs)

  | faddThr t r old op => exact inv1_faddThr h hs

  | rdRc t r v => exact h.frame (frame1_RdRc hs)

  | wrRc t r v => exact h.frame (frame1_WrRc hs)

  | rdHp t r i v => exact h.frame (frame1_RdHp hs)

  | wrHp t r i v => exact h.frame (frame1_WrHp hs)

  | fence t => exact h.frame (frame1_Fence hs)

  | ldG t g v => exact h.frame (frame1_LdG hs)

  | xchgG t g old new => exact h.frame (frame1_XchgG hs)

  | callAcq t g sl => exact h.frame (frame1_CallAcq hs)

  | validated t sl n => exact h.frame (frame1_Validated hs)

  | use t sl n => exact h.frame (frame1_Use hs)

  | retAcq t n => exact h.frame (frame1_RetAcq hs)

  | callRel t sl => exact h.frame (frame1_CallRel hs)

  | retRel t => exact h.frame (frame1_RetRel hs)

  | callX t g => exact h.frame (frame1_CallX hs)

  | alloc t n => exact h.frame (frame1_Alloc hs)

  | callRetire t n => exact h.frame (frame1_CallRetire hs)

  | retRetire t => exact h.frame (frame1_RetRetire hs)

  | rcNote t r v => exact h.frame (frame1_RcNote hs)

  | retX t => exact h.frame (frame1_RetX hs)

  | callScan t => exact h.frame (frame1_CallScan hs)

  | retScan t => exact h.frame (frame1_RetScan hs)

  | reclaim t n => exact h.frame (frame1_Reclaim hs)


theorem inv1_of_run {k : Nat} {es : List Ev} {s : St} (h : (sys k).run es = some s) : Inv1 s :=
  Sys.inv_of_run (sys k) Inv1 (inv1_init k) (fun _ _ _ hi hs => inv1_step hi hs) h

/-! ## 4. the client protocol, the retired lists and the coverage of a scan (invariant `Inv2`) -/

/-- the part of the old retired list a scanning thread still has to decide -/
def Pc.todo : Pc → List Nat
  | .scanDecide _ _ todo => todo
  | .scanKeep _ _ n todo _ => n :: todo
  | _ => []

def NSt.live : NSt → Bool
  | .inG | .unl _ | .retired _ => true
  | _ => false

/-- every validated protection of a node of `l` is accounted for by `P` -/
def Covered (s : St) (l : List Nat) (P : Nat → Nat → Nat → Prop) : Prop :=
  ∀ u j n, s.prot u j = n → n ≠ 0 → n ∈ l → P u j n

/-- what must hold of thread `t` at program counter `p` -/
def PcOk (s : St) (t : Nat) : Pc → Prop
  | .xAlloc _ n => n ≠ 0 → s.ns n = .priv t
  | .xDone old => old ≠ 0 → s.ns old = .unl t
  | .acqCalled _ sl => sl < s.k
  | .acqLoaded _ sl q => sl < s.k ∧ q ≠ 0
  | .acqPublished _ sl q => sl < s.k ∧ q ≠ 0 ∧ s.hp t sl = q ∧ s.prot t sl = 0
  | .acqFenced _ sl q => sl < s.k ∧ q ≠ 0 ∧ s.hp t sl = q ∧ s.prot t sl = 0
  | .acqValidated sl q => q ≠ 0 ∧ s.prot t sl = q
  | .acqUse sl q => q ≠ 0 ∧ s.prot t sl = q
  | .relCalled sl => sl < s.k
  | .scanHead _ h => h ≠ 0 ∧ h - 1 ∈ s.recs ∧ Covered s (s.rlist t) (fun u _ _ => u ∈ chain s h)
  | .scanWalk _ _ _ cur i pl _ => ptrOk s cur ∧ i ≤ s.k ∧
      Covered s (s.rlist t) (fun u j n => n ∈ pl ∨ (cur ≠ 0 ∧ (u ∈ s.older (cur - 1) ∨ (u = cur - 1 ∧ i ≤ j))))
  | .scanDecide _ sp todo => Covered s todo (fun _ _ n => binarySearch sp n = true)
  | .scanKeep _ sp _ todo _ => Covered s todo (fun _ _ n => binarySearch sp n = true)
  | _ => True

structure Loc (s : St) (t : Nat) (p : Pc) : Prop where
  pcok : PcOk s t p
  rl : ∀ n ∈ s.rlist t ++ p.todo, n ≠ 0 ∧ s.ns n = .retired t
  rl_nd : (s.rlist t ++ p.todo).Nodup
  prot_ok : ∀ j n, s.prot t j = n → n ≠ 0 →
    s.hp t j = n ∧ j < s.k ∧ p.joined = true ∧ (s.ns n).live = true
  hp0 : p.joined = false → ∀ j, s.hp t j = 0

structure Inv2 (s : St) : Prop where
  g_in : ∀ i, s.g i ≠ 0 → s.ns (s.g i) = .inG
  g_inj : ∀ i j, s.g i = s.g j → s.g i ≠ 0 → i = j
  loc : ∀ t, Loc s t (s.pc t)

theorem inv2_init (k : Nat) : Inv2 (init k) := by
  constructor
  · simp [init]
  · simp [init]
  · intro t; constructor <;> simp [init, PcOk, Pc.todo, Pc.joined]

/-- thread `t` moves to `p'` without touching its retired list or the shape of its todo list -/
theorem Loc.move {s : St} {t : Nat} {p p' : Pc} (h : Loc s t p) (hpc : PcOk s t p')
    (htodo : p'.todo = p.todo) (hj : p.joined = true → p'.joined = true)
    (hj' : p'.joined = false → p.joined = false) : Loc s t p' := by
  constructor
  · exact hpc
  · rw [htodo]; exact h.rl
  · rw [htodo]; exact h.rl_nd
  · intro j n h1 h2
    obtain ⟨a, b, c, d⟩ := h.prot_ok j n h1 h2
    exact ⟨a, b, hj c, d⟩
  · intro h1; exact h.hp0 (hj' h1)

/-- assembling `Inv2` after a step of thread `t` -/
theorem Inv2.mk' {s s' : St} {t : Nat} {p' : Pc} (hpc : s'.pc = upd s.pc t p')
    (hg1 : ∀ i, s'.g i ≠ 0 → s'.ns (s'.g i) = .inG) (hg2 : ∀ i j, s'.g i = s'.g j → s'.g i ≠ 0 → i = j)
    (ht : Loc s' t p') (ho : ∀ u, u ≠ t → Loc s' u (s.pc u)) : Inv2 s' := by
  refine ⟨hg1, hg2, ?_⟩
  intro u
  rw [hpc]
  by_cases e : u = t
  · subst e; rw [upd_same]; exact ht
  · rw [upd_other _ _ _ _ e]; exact ho u e

/-- `Loc` reads only these fields of the state -/
theorem Loc.congr {s s' : St} {t : Nat} {p : Pc} (h : Loc s t p) (e1 : s'.ns = s.ns)
    (e2 : s'.rlist t = s.rlist t) (e3 : s'.prot = s.prot) (e4 : s'.hp t = s.hp t) (e5 : s'.k = s.k)
    (e6 : s'.recs = s.recs) (e7 : s'.older = s.older) : Loc s' t p := by
  have hpc : PcOk s' t p = PcOk s t p := by
    cases p <;> simp [PcOk, Covered, chain, ptrOk, e1, e2, e3, e4, e5, e6, e7]
  constructor
  · rw [hpc]; exact h.pcok
  · rw [e1, e2]; exact h.rl
  · rw [e2]; exact h.rl_nd
  · rw [e1, e3, e4, e5]; exact h.prot_ok
  · rw [e4]; exact h.hp0

/-- a step that only moves the program counter of `t` (and possibly cells `Loc` does not read) -/
theorem Inv2.step_pc {s s' : St} (h : Inv2 s) (t : Nat) (p' : Pc) (hpc : s'.pc = upd s.pc t p')
    (eg : s'.g = s.g) (e1 : s'.ns = s.ns)
    (e2 : s'.rlist = s.rlist) (e3 : s'.prot = s.prot) (e4 : s'.hp = s.hp) (e5 : s'.k = s.k)
    (e6 : s'.recs = s.recs) (e7 : s'.older = s.older) (ht : Loc s t p') : Inv2 s' :=
  Inv2.mk' (s := s) (t := t) (p' := p') hpc (by rw [eg, e1]; exact h.g_in) (by rw [eg]; exact h.g_inj)
    (ht.congr e1 (by rw [e2]) e3 (by rw [e4]) e5 e6 e7)
    (fun u _ => (h.loc u).congr e1 (by rw [e2]) e3 (by rw [e4]) e5 e6 e7)

theorem Inv2.pending_ns {s : St} (h : Inv2 s) {u n : Nat} (hn : n ∈ s.rlist u ++ (s.pc u).todo) :
    s.ns n = .retired u := ((h.loc u).rl n hn).2

theorem Covered.mono_prot {s s' : St} {l : List Nat} {P : Nat → Nat → Nat → Prop}
    (h : Covered s l P) (hp : ∀ u j, s'.prot u j = s.prot u j ∨ s'.prot u j = 0) : Covered s' l P := by
  intro u j n h1 h2 h3
  rcases hp u j with e | e
  · exact h u j n (by rw [← e]; exact h1) h2 h3
  · rw [e] at h1; exact absurd h1.symm h2

theorem upd2_apply (f : Nat → Nat → Nat) (t i v a b : Nat) :
    upd2 f t i v a b = if a = t ∧ b = i then v else f a b := by
  simp only [upd2, upd]
  by_cases h1 : a = t <;> by_cases h2 : b = i <;> simp [h1, h2]

/-- S1: another thread (or the harness ghost) changes the life-cycle state of a node `n` that
    `u` does not own -/
theorem Loc.updNs {s s' : St} {u : Nat} {p : Pc} (h : Loc s u p) (n : Nat) (X : NSt)
    (e1 : s'.ns = upd s.ns n X)
    (e2 : s'.rlist u = s.rlist u) (e3 : s'.prot = s.prot) (e4 : s'.hp u = s.hp u) (e5 : s'.k = s.k)
    (e6 : s'.recs = s.recs) (e7 : s'.older = s.older)
    (hown : s.ns n ≠ .priv u ∧ s.ns n ≠ .unl u ∧ s.ns n ≠ .retired u)
    (hlive : X.live = true ∨ ∀ j, s.prot u j = n → n = 0) : Loc s' u p := by
  have hne : ∀ m Y, s.ns m = Y → (Y = .priv u ∨ Y = .unl u ∨ Y = .retired u) → s'.ns m = Y := by
    intro m Y hm hY
    have : m ≠ n := by
      intro e; subst e; rw [hm] at hown
      rcases hY with e | e | e <;> subst e <;> simp at hown
    rw [e1, upd_other _ _ _ _ this]; exact hm
  constructor
  · have := h.pcok
    cases p <;> simp only [PcOk, Covered, chain, ptrOk, e2, e3, e4, e5, e6, e7] at this ⊢ <;> try exact this
    · next g m => intro h0; exact hne _ _ (this h0) (by simp)
    · next m => intro h0; exact hne _ _ (this h0) (by simp)
  · intro m hm
    rw [e2] at hm
    obtain ⟨a, b⟩ := h.rl m hm
    exact ⟨a, hne _ _ b (by simp)⟩
  · rw [e2]; exact h.rl_nd
  · intro j m h1 h2
    rw [e3] at h1
    obtain ⟨a, b, c, d⟩ := h.prot_ok j m h1 h2
    refine ⟨by rw [e4]; exact a, by rw [e5]; exact b, c, ?_⟩
    rw [e1]
    by_cases e : m = n
    · subst e; rw [upd_same]
      rcases hlive with hl | hl
      · exact hl
      · exact absurd (hl j h1) h2
    · rw [upd_other _ _ _ _ e]; exact d
  · intro hj j; rw [e4]; exact h.hp0 hj j

/-- S1, general form: the life-cycle map changes, but not on nodes owned by `u`, and protected
    nodes stay live -/
theorem Loc.updNsGen {s s' : St} {u : Nat} {p : Pc} (h : Loc s u p)
    (e2 : s'.rlist u = s.rlist u) (e3 : s'.prot = s.prot) (e4 : s'.hp u = s.hp u) (e5 : s'.k = s.k)
    (e6 : s'.recs = s.recs) (e7 : s'.older = s.older)
    (hne : ∀ m Y, s.ns m = Y → (Y = .priv u ∨ Y = .unl u ∨ Y = .retired u) → s'.ns m = Y)
    (hlive : ∀ j m, s.prot u j = m → m ≠ 0 → (s.ns m).live = true → (s'.ns m).live = true) :
    Loc s' u p := by
  constructor
  · have := h.pcok
    cases p <;> simp only [PcOk, Covered, chain, ptrOk, e2, e3, e4, e5, e6, e7] at this ⊢ <;> try exact this
    · next g m => intro h0; exact hne _ _ (this h0) (by simp)
    · next m => intro h0; exact hne _ _ (this h0) (by simp)
  · intro m hm
    rw [e2] at hm
    obtain ⟨a, b⟩ := h.rl m hm
    exact ⟨a, hne _ _ b (by simp)⟩
  · rw [e2]; exact h.rl_nd
  · intro j m h1 h2
    rw [e3] at h1
    obtain ⟨a, b, c, d⟩ := h.prot_ok j m h1 h2
    exact ⟨by rw [e4]; exact a, by rw [e5]; exact b, c, hlive j m h1 h2 d⟩
  · intro hj j; rw [e4]; exact h.hp0 hj j

/-- S2: thread `t ≠ u` overwrites one of its hazard slots; the new validated protection (if
    any) is of a node that is still in a global cell -/
theorem Loc.updProtOther {s s' : St} {u t : Nat} {p : Pc} (h : Loc s u p) (hut : u ≠ t) (sl q v : Nat)
    (e1 : s'.ns = s.ns) (e2 : s'.rlist u = s.rlist u) (e3 : s'.prot = upd2 s.prot t sl q)
    (e4 : s'.hp = upd2 s.hp t sl v) (e5 : s'.k = s.k) (e6 : s'.recs = s.recs) (e7 : s'.older = s.older)
    (hq : q = 0 ∨ s.ns q = .inG) : Loc s' u p := by
  have hprotu : s'.prot u = s.prot u := by rw [e3]; funext j; simp [upd2_apply, hut]
  have hhpu : s'.hp u = s.hp u := by rw [e4]; funext j; simp [upd2_apply, hut]
  have hcov : ∀ (l : List Nat) (P : Nat → Nat → Nat → Prop), (∀ n ∈ l, n ∈ s.rlist u ++ p.todo) →
      Covered s l P → Covered s' l P := by
    intro l P hl hc w j n h1 h2 h3
    by_cases e : w = t ∧ j = sl
    · obtain ⟨rfl, rfl⟩ := e
      rw [e3, upd2_apply] at h1; simp at h1
      subst h1
      rcases hq with hq | hq
      · exact absurd hq h2
      · have := (h.rl _ (hl _ h3)).2
        rw [hq] at this; cases this
    · apply hc w j n _ h2 h3
      rw [e3, upd2_apply, if_neg e] at h1
      exact h1
  constructor
  · have := h.pcok
    cases p <;> simp only [PcOk, chain, ptrOk, e1, e2, hprotu, hhpu, e5, e6, e7] at this ⊢ <;> try exact this
    · next c hh => exact ⟨this.1, this.2.1, hcov _ _ (by intro n hn; simp [hn]) this.2.2⟩
    · next c h0 cap cur i pl w => exact ⟨this.1, this.2.1, hcov _ _ (by intro n hn; simp [hn]) this.2.2⟩
    · next c sp todo => exact hcov _ _ (by intro n hn; simp [Pc.todo, hn]) this
    · next c sp n0 todo v0 => exact hcov _ _ (by intro n hn; simp [Pc.todo, hn]) this
  · rw [e1, e2]; exact h.rl
  · rw [e2]; exact h.rl_nd
  · rw [e1, hprotu, hhpu, e5]; exact h.prot_ok
  · rw [hhpu]; exact h.hp0

/-- S3: a new record `t` is pushed -/
theorem Loc.push {s s' : St} {u t : Nat} {p : Pc} (h : Loc s u p) (ht : t ∉ s.recs)
    (e1 : s'.ns = s.ns) (e2 : s'.rlist u = s.rlist u) (e3 : s'.prot = s.prot)
    (e4 : s'.hp u = s.hp u) (e5 : s'.k = s.k) (e6 : s'.recs = t :: s.recs)
    (e7 : s'.older = upd s.older t s.recs) : Loc s' u p := by
  have hold : ∀ w ∈ s.recs, s'.older w = s.older w := by
    intro w hw
    have : w ≠ t := by intro e; subst e; exact ht hw
    rw [e7, upd_other _ _ _ _ this]
  constructor
  · have := h.pcok
    cases p <;> simp only [PcOk, Covered, e1, e2, e3, e4, e5] at this ⊢ <;> try exact this
    · next c hh =>
      obtain ⟨a, b, c⟩ := this
      refine ⟨a, by rw [e6]; simp [b], ?_⟩
      simp only [chain, a, if_false, hold _ b] at c ⊢; exact c
    · next c h0 cap cur i pl w =>
      obtain ⟨a, b, c⟩ := this
      refine ⟨?_, b, ?_⟩
      · unfold ptrOk at a ⊢; rw [e6]
        rcases a with a | a
        · exact Or.inl a
        · exact Or.inr (by simp [a])
      · intro w j n h1 h2 h3
        rcases c w j n h1 h2 h3 with c | ⟨c0, c⟩
        · exact Or.inl c
        · right; refine ⟨c0, ?_⟩
          have : cur - 1 ∈ s.recs := by
            rcases a with a | a
            · exact absurd a c0
            · exact a
          rw [hold _ this]; exact c
  · rw [e1, e2]; exact h.rl
  · rw [e2]; exact h.rl_nd
  · rw [e1, e3, e4, e5]; exact h.prot_ok
  · rw [e4]; exact h.hp0

/-! ### `Inv2` is preserved: steps that only move a program counter -/

macro "pc_only" h2:ident "," t:term "," hpc:ident "," hl:ident : tactic => `(tactic| (
  have $hl := ($h2).loc $t
  rw [$hpc:ident] at $hl:ident
  refine Inv2.step_pc $h2 $t _ rfl rfl rfl rfl rfl rfl rfl rfl rfl
    (Loc.move $hl ?_ (by simp [Pc.todo]) (by simp [Pc.joined]) (by simp [Pc.joined]))))

theorem Inv2.prot_recs {s : St} (h1 : Inv1 s) (h2 : Inv2 s) {u j n : Nat} (hp : s.prot u j = n)
    (hn : n ≠ 0) : u ∈ s.recs := by
  have := ((h2.loc u).prot_ok j n hp hn).2.2.1
  rw [h1.pushed]; exact joined_pushed this

theorem inv2_callJoin {s s' : St} {t : Nat} (h2 : Inv2 s) (hs : stepCallJoin s t = some s') : Inv2 s' := by
  unfold stepCallJoin at hs
  step_cases hs
  next hpc => pc_only h2, t, hpc, hl; simp [PcOk]

theorem inv2_retJoin {s s' : St} {t : Nat} (h2 : Inv2 s) (hs : stepRetJoin s t = some s') : Inv2 s' := by
  unfold stepRetJoin at hs
  step_cases hs
  next hpc => pc_only h2, t, hpc, hl; simp [PcOk]

theorem inv2_ldHead {s s' : St} {t v : Nat} (h1 : Inv1 s) (h2 : Inv2 s)
    (hs : stepLdHead s t v = some s') : Inv2 s' := by
  unfold stepLdHead at hs
  step_cases hs
  · next hpc hv => pc_only h2, t, hpc, hl; simp [PcOk]
  · next c hpc hv =>
    obtain ⟨rfl, h0⟩ := hv
    pc_only h2, t, hpc, hl
    simp only [PcOk]
    refine ⟨h0, ?_, ?_⟩
    · rcases h1.head_ok with e | e
      · exact absurd e h0
      · exact e
    · intro u j n hp hn _
      rw [← h1.hd]; exact h2.prot_recs h1 hp hn

theorem inv2_wrNext {s s' : St} {t r v : Nat} (h2 : Inv2 s) (hs : stepWrNext s t r v = some s') : Inv2 s' := by
  unfold stepWrNext at hs
  step_cases hs
  next ch hpc hv => pc_only h2, t, hpc, hl; simp [PcOk]

theorem inv2_stThr {s s' : St} {t r v : Nat} (h2 : Inv2 s) (hs : stepStThr s t r v = some s') : Inv2 s' := by
  unfold stepStThr at hs
  step_cases hs
  next ch cur cnt hpc hv => pc_only h2, t, hpc, hl; simp [PcOk]

theorem inv2_faddThr {s s' : St} {t r old op : Nat} (h2 : Inv2 s)
    (hs : stepFaddThr s t r old op = some s') : Inv2 s' := by
  unfold stepFaddThr at hs
  step_cases hs
  next cur hpc hv => pc_only h2, t, hpc, hl; simp [PcOk]

theorem inv2_rdNext {s s' : St} {t r v : Nat} (h1 : Inv1 s) (h2 : Inv2 s)
    (hs : stepRdNext s t r v = some s') : Inv2 s' := by
  unfold stepRdNext at hs
  step_cases hs
  · next ch cur cnt hpc hv => pc_only h2, t, hpc, hl; simp [PcOk]
  · next hpc hv => pc_only h2, t, hpc, hl; simp [PcOk]
  · next cur hpc hv => pc_only h2, t, hpc, hl; simp [PcOk]
  · next c h0 cap cur i pl walked hpc hv =>
    obtain ⟨hc0, rfl, rfl, rfl⟩ := hv
    pc_only h2, t, hpc, hl
    obtain ⟨hok, _, hcov⟩ := hl.pcok
    have hr : cur - 1 ∈ s.recs := by rcases hok with e | e; exact absurd e hc0; exact e
    have hch := h1.nxt _ hr
    simp only [PcOk]
    refine ⟨h1.ptrOk_next hr, Nat.zero_le _, ?_⟩
    intro u j n hp hn hm
    rcases hcov u j n hp hn hm with e | ⟨_, e | ⟨_, e⟩⟩
    · exact Or.inl e
    · right
      rw [← hch] at e
      unfold chain at e
      split at e
      · simp at e
      · next h0 =>
        refine ⟨h0, ?_⟩
        simp only [List.mem_cons] at e
        rcases e with e | e
        · exact Or.inr ⟨e, Nat.zero_le _⟩
        · exact Or.inl e
    · have := ((h2.loc u).prot_ok j n hp hn).2.1
      omega

theorem inv2_ldThr {s s' : St} {t r v : Nat} (h2 : Inv2 s) (hs : stepLdThr s t r v = some s') : Inv2 s' := by
  unfold stepLdThr at hs
  step_cases hs
  · next hpc hv hle => pc_only h2, t, hpc, hl; simp [PcOk]
  · next hpc hv hle => pc_only h2, t, hpc, hl; simp [PcOk]
  · next c h hpc hv =>
    pc_only h2, t, hpc, hl
    obtain ⟨h0, hr, hcov⟩ := hl.pcok
    simp only [PcOk]
    refine ⟨Or.inr hr, Nat.zero_le _, ?_⟩
    intro u j n hp hn hm
    have := hcov u j n hp hn hm
    simp only [chain, h0, if_false, List.mem_cons] at this
    right; refine ⟨h0, ?_⟩
    rcases this with e | e
    · exact Or.inr ⟨e, Nat.zero_le _⟩
    · exact Or.inl e

theorem inv2_rdRc {s s' : St} {t r v : Nat} (h2 : Inv2 s) (hs : stepRdRc s t r v = some s') : Inv2 s' := by
  unfold stepRdRc at hs
  step_cases hs
  · next hpc hv => pc_only h2, t, hpc, hl; simp [PcOk]
  · next c sp n todo hpc hv =>
    pc_only h2, t, hpc, hl
    have := hl.pcok
    simp only [PcOk] at this ⊢
    intro u j m hp hn hm
    exact this u j m hp hn (by simp [hm])

theorem inv2_rdHp {s s' : St} {t r i v : Nat} (h2 : Inv2 s) (hs : stepRdHp s t r i v = some s') : Inv2 s' := by
  unfold stepRdHp at hs
  step_cases hs
  all_goals (
    next c h0 cap cur j pl walked hpc hv _ =>
    obtain ⟨hc0, hjk, rfl, rfl, rfl⟩ := hv
    pc_only h2, t, hpc, hl
    obtain ⟨hok, _, hcov⟩ := hl.pcok
    simp only [PcOk]
    refine ⟨hok, hjk, ?_⟩
    intro u j' n hp hn hm
    rcases hcov u j' n hp hn hm with e | ⟨_, e | ⟨e1, e2⟩⟩
    · left; simp [e]
    · exact Or.inr ⟨hc0, Or.inl e⟩
    · by_cases ej : j' = i
      · subst ej; subst e1
        have := ((h2.loc _).prot_ok _ n hp hn).1
        left; simp_all
      · exact Or.inr ⟨hc0, Or.inr ⟨e1, by omega⟩⟩)

theorem inv2_fence {s s' : St} {t : Nat} (h2 : Inv2 s) (hs : stepFence s t = some s') : Inv2 s' := by
  unfold stepFence at hs
  step_cases hs
  next g sl p hpc => pc_only h2, t, hpc, hl; simpa [PcOk] using hl.pcok

theorem inv2_validated {s s' : St} {t sl n : Nat} (h2 : Inv2 s) (hs : stepValidated s t sl n = some s') : Inv2 s' := by
  unfold stepValidated at hs
  step_cases hs
  next sl' p hpc hv => obtain ⟨rfl, rfl⟩ := hv; pc_only h2, t, hpc, hl; simpa [PcOk] using hl.pcok

theorem inv2_use {s s' : St} {t sl n : Nat} (h2 : Inv2 s) (hs : stepUse s t sl n = some s') : Inv2 s' := by
  unfold stepUse at hs
  step_cases hs
  · next sl' p hpc hv => pc_only h2, t, hpc, hl; simp [PcOk]
  · exact h2

theorem inv2_retAcq {s s' : St} {t n : Nat} (h2 : Inv2 s) (hs : stepRetAcq s t n = some s') : Inv2 s' := by
  unfold stepRetAcq at hs
  step_cases hs
  next p hpc hv => pc_only h2, t, hpc, hl; simp [PcOk]

theorem inv2_callAcq {s s' : St} {t g sl : Nat} (h2 : Inv2 s) (hs : stepCallAcq s t g sl = some s') : Inv2 s' := by
  unfold stepCallAcq at hs
  step_cases hs
  next hpc hv => pc_only h2, t, hpc, hl; simpa [PcOk] using hv

theorem inv2_callRel {s s' : St} {t sl : Nat} (h2 : Inv2 s) (hs : stepCallRel s t sl = some s') : Inv2 s' := by
  unfold stepCallRel at hs
  step_cases hs
  next hpc hv => pc_only h2, t, hpc, hl; simpa [PcOk] using hv

theorem inv2_retRel {s s' : St} {t : Nat} (h2 : Inv2 s) (hs : stepRetRel s t = some s') : Inv2 s' := by
  unfold stepRetRel at hs
  step_cases hs
  next hpc => pc_only h2, t, hpc, hl; simp [PcOk]

theorem inv2_callX {s s' : St} {t g : Nat} (h2 : Inv2 s) (hs : stepCallX s t g = some s') : Inv2 s' := by
  unfold stepCallX at hs
  step_cases hs
  next hpc => pc_only h2, t, hpc, hl; simp [PcOk]

theorem inv2_retRetire {s s' : St} {t : Nat} (h2 : Inv2 s) (hs : stepRetRetire s t = some s') : Inv2 s' := by
  unfold stepRetRetire at hs
  step_cases hs
  · next hpc => pc_only h2, t, hpc, hl; simp [PcOk]
  · next sp hpc => pc_only h2, t, hpc, hl; simp [PcOk]

theorem inv2_rcNote {s s' : St} {t r v : Nat} (h2 : Inv2 s) (hs : stepRcNote s t r v = some s') : Inv2 s' := by
  unfold stepRcNote at hs
  step_cases hs
  · next hpc hv => pc_only h2, t, hpc, hl; simp [PcOk]
  · next hpc hv => pc_only h2, t, hpc, hl; simp [PcOk]

theorem inv2_retX {s s' : St} {t : Nat} (h2 : Inv2 s) (hs : stepRetX s t = some s') : Inv2 s' := by
  unfold stepRetX at hs
  step_cases hs
  · next hpc => pc_only h2, t, hpc, hl; simp [PcOk]
  · next hpc => pc_only h2, t, hpc, hl; simp [PcOk]

theorem inv2_callScan {s s' : St} {t : Nat} (h2 : Inv2 s) (hs : stepCallScan s t = some s') : Inv2 s' := by
  unfold stepCallScan at hs
  step_cases hs
  next hpc => pc_only h2, t, hpc, hl; simp [PcOk]

theorem inv2_retScan {s s' : St} {t : Nat} (h2 : Inv2 s) (hs : stepRetScan s t = some s') : Inv2 s' := by
  unfold stepRetScan at hs
  step_cases hs
  next sp hpc => pc_only h2, t, hpc, hl; simp [PcOk]

/-! ### `Inv2` is preserved: steps that change ghost state or slots -/

theorem inv2_casHead {s s' : St} {t found exp des : Nat} {ok : Bool} (h1 : Inv1 s) (h2 : Inv2 s)
    (hs : stepCasHead s t found exp des ok = some s') : Inv2 s' := by
  unfold stepCasHead at hs
  step_cases hs
  · next ch hpc hv hok =>
    have ht : t ∉ s.recs := by rw [h1.pushed, hpc]; simp [Pc.pushed]
    have hl := h2.loc t
    rw [hpc] at hl
    refine Inv2.mk' (s := s) (t := t) (p' := .joinPushed) rfl h2.g_in h2.g_inj ?_ ?_
    · have := hl.move (p' := .joinPushed) (by simp [PcOk]) (by simp [Pc.todo]) (by simp [Pc.joined])
        (by simp [Pc.joined])
      exact this.push ht rfl rfl rfl rfl rfl rfl rfl
    · intro u _; exact (h2.loc u).push ht rfl rfl rfl rfl rfl rfl rfl
  · next ch hpc hv hok => pc_only h2, t, hpc, hl; simp [PcOk]

theorem inv2_wrRc {s s' : St} {t r v : Nat} (h2 : Inv2 s) (hs : stepWrRc s t r v = some s') : Inv2 s' := by
  unfold stepWrRc at hs
  step_cases hs
  · next v0 hpc hv => pc_only h2, t, hpc, hl; simp [PcOk]
  · next c h0 cap cur i pl walked hpc hv =>
    obtain ⟨rfl, rfl, rfl⟩ := hv
    have hl := h2.loc r
    rw [hpc] at hl
    refine Inv2.mk' (s := s) (t := r) (p' := .scanDecide c (isort pl) (s.rlist r)) rfl h2.g_in h2.g_inj ?_ ?_
    · obtain ⟨_, _, hcov⟩ := hl.pcok
      constructor
      · simp only [PcOk]
        intro u j n hp hn hm
        rcases hcov u j n hp hn hm with e | ⟨e, _⟩
        · exact (binarySearch_isort pl n).mpr e
        · exact absurd rfl e
      · intro n hn
        have : n ∈ s.rlist r ++ (Pc.scanWalk c h0 cap 0 i pl walked).todo := by
          simpa [Pc.todo, upd] using hn
        exact hl.rl n this
      · have := hl.rl_nd
        simpa [Pc.todo, upd] using this
      · exact hl.prot_ok
      · simp [Pc.joined]
    · intro u hu
      exact (h2.loc u).congr rfl (by simp [upd, hu]) rfl rfl rfl rfl rfl
  · next c sp n todo v0 hpc hv =>
    obtain ⟨rfl, rfl⟩ := hv
    have hl := h2.loc r
    rw [hpc] at hl
    refine Inv2.mk' (s := s) (t := r) (p' := .scanDecide c sp todo) rfl h2.g_in h2.g_inj ?_ ?_
    · constructor
      · exact hl.pcok
      · intro m hm
        apply hl.rl m
        simp only [upd_same, Pc.todo, List.mem_append, List.mem_cons] at hm ⊢
        rcases hm with (hm | hm) | hm <;> simp [hm]
      · have := hl.rl_nd
        simp only [upd_same, Pc.todo] at this ⊢
        exact (List.perm_middle.nodup_iff).mp this
      · exact hl.prot_ok
      · simp [Pc.joined]
    · intro u hu
      exact (h2.loc u).congr rfl (by simp [upd, hu]) rfl rfl rfl rfl rfl

theorem inv2_reclaim {s s' : St} {t n : Nat} (h2 : Inv2 s) (hs : stepReclaim s t n = some s') : Inv2 s' := by
  unfold stepReclaim at hs
  step_cases hs
  next c sp m todo hpc hv =>
  obtain ⟨rfl, hbs⟩ := hv
  have hl := h2.loc t
  rw [hpc] at hl
  have hmem : n ∈ s.rlist t ++ (Pc.scanDecide c sp (n :: todo)).todo := by simp [Pc.todo]
  obtain ⟨hn0, hnr⟩ := hl.rl n hmem
  -- the coverage invariant: nobody holds a validated protection of `n`
  have key : ∀ u j, s.prot u j = n → n = 0 := by
    intro u j hp
    have : binarySearch sp n = true := hl.pcok u j n hp hn0 (by simp)
    rw [hbs] at this; cases this
  refine Inv2.mk' (s := s) (t := t) (p' := .scanDecide c sp todo) rfl ?_ h2.g_inj ?_ ?_
  · intro i hi
    have := h2.g_in i hi
    have hne : s.g i ≠ n := by intro e; rw [e, hnr] at this; cases this
    show upd s.ns n .free (s.g i) = _
    rw [upd_other _ _ _ _ hne]; exact this
  · have hnd := hl.rl_nd
    simp only [Pc.todo] at hnd
    have hnd' : (n :: (s.rlist t ++ todo)).Nodup := (List.perm_middle.nodup_iff).mp hnd
    rw [List.nodup_cons] at hnd'
    constructor
    · intro u j m hp hm hmt
      exact hl.pcok u j m hp hm (by simp [hmt])
    · intro m hm
      have hne : m ≠ n := by intro e; subst e; exact hnd'.1 (by simpa [Pc.todo] using hm)
      obtain ⟨a, b⟩ := hl.rl m (by
        simp only [Pc.todo, List.mem_append, List.mem_cons] at hm ⊢
        rcases hm with hm | hm <;> simp [hm])
      refine ⟨a, ?_⟩
      show upd s.ns n .free m = _
      rw [upd_other _ _ _ _ hne]; exact b
    · simpa [Pc.todo] using hnd'.2
    · intro j m hp hm
      obtain ⟨a, b, _, d⟩ := hl.prot_ok j m hp hm
      refine ⟨a, b, by simp [Pc.joined], ?_⟩
      have hne : m ≠ n := by intro e; subst e; exact hm (key t j hp)
      show (upd s.ns n .free m).live = true
      rw [upd_other _ _ _ _ hne]; exact d
    · simp [Pc.joined]
  · intro u hu
    refine (h2.loc u).updNs n .free rfl rfl rfl rfl rfl rfl rfl ?_ ?_
    · rw [hnr]; simp; exact fun e => hu e.symm
    · right; intro j hp; exact key u j hp

theorem inv2_wrHp {s s' : St} {t r i v : Nat} (h2 : Inv2 s) (hs : stepWrHp s t r i v = some s') : Inv2 s' := by
  unfold stepWrHp at hs
  step_cases hs
  · next g sl p hpc hv =>
    obtain ⟨rfl, rfl, rfl⟩ := hv
    have hl := h2.loc r
    rw [hpc] at hl
    refine Inv2.mk' (s := s) (t := r) (p' := .acqPublished g i v) rfl h2.g_in h2.g_inj ?_ ?_
    · obtain ⟨a, b⟩ := hl.pcok
      constructor
      · exact ⟨a, b, by simp [upd2_apply], by simp [upd2_apply]⟩
      · exact hl.rl
      · exact hl.rl_nd
      · intro j n hp hn
        change upd2 s.prot r i 0 r j = n at hp
        rw [upd2_apply] at hp
        split at hp
        · exact absurd hp.symm hn
        · next e =>
          obtain ⟨a', b', c', d'⟩ := hl.prot_ok j n hp hn
          refine ⟨?_, b', by simp [Pc.joined], d'⟩
          show upd2 s.hp r i v r j = n
          rw [upd2_apply, if_neg e]; exact a'
      · simp [Pc.joined]
    · intro u hu
      exact (h2.loc u).updProtOther hu i 0 v rfl rfl rfl rfl rfl rfl rfl (Or.inl rfl)
  · next sl hpc hv =>
    obtain ⟨rfl, rfl, rfl⟩ := hv
    have hl := h2.loc r
    rw [hpc] at hl
    refine Inv2.mk' (s := s) (t := r) (p' := .relDone) rfl h2.g_in h2.g_inj ?_ ?_
    · constructor
      · simp [PcOk]
      · exact hl.rl
      · exact hl.rl_nd
      · intro j n hp hn
        change upd2 s.prot r i 0 r j = n at hp
        rw [upd2_apply] at hp
        split at hp
        · exact absurd hp.symm hn
        · next e =>
          obtain ⟨a', b', c', d'⟩ := hl.prot_ok j n hp hn
          refine ⟨?_, b', by simp [Pc.joined], d'⟩
          show upd2 s.hp r i 0 r j = n
          rw [upd2_apply, if_neg e]; exact a'
      · simp [Pc.joined]
    · intro u hu
      exact (h2.loc u).updProtOther hu i 0 0 rfl rfl rfl rfl rfl rfl rfl (Or.inl rfl)

theorem inv2_ldG {s s' : St} {t g v : Nat} (h2 : Inv2 s) (hs : stepLdG s t g v = some s') : Inv2 s' := by
  unfold stepLdG at hs
  step_cases hs
  · next g' sl hpc hv h0 => pc_only h2, t, hpc, hl; simp [PcOk]
  · next g' sl hpc hv h0 => pc_only h2, t, hpc, hl; simpa [PcOk] using ⟨hl.pcok, h0⟩
  · next g' sl p hpc hv hvp =>
    obtain ⟨rfl, rfl⟩ := hv
    have hl := h2.loc t
    rw [hpc] at hl
    obtain ⟨a, b, c, _⟩ := hl.pcok
    have hin : s.ns p = .inG := by rw [← hvp]; exact h2.g_in g (by rw [hvp]; exact b)
    refine Inv2.mk' (s := s) (t := t) (p' := .acqValidated sl p) rfl h2.g_in h2.g_inj ?_ ?_
    · constructor
      · exact ⟨b, by simp [upd2_apply]⟩
      · exact hl.rl
      · exact hl.rl_nd
      · intro j n hp hn
        change upd2 s.prot t sl p t j = n at hp
        rw [upd2_apply] at hp
        split at hp
        · next e =>
          obtain ⟨_, rfl⟩ := e
          subst hp
          exact ⟨c, a, by simp [Pc.joined], by rw [hin]; rfl⟩
        · obtain ⟨a', b', c', d'⟩ := hl.prot_ok j n hp hn
          exact ⟨a', b', by simp [Pc.joined], d'⟩
      · simp [Pc.joined]
    · intro u hu
      have : s.hp = upd2 s.hp t sl (s.hp t sl) := by
        funext a b; rw [upd2_apply]; split
        · next e => rw [e.1, e.2]
        · rfl
      exact (h2.loc u).updProtOther hu sl p (s.hp t sl) rfl rfl rfl this rfl rfl rfl (Or.inr hin)
  · next g' sl p hpc hv hvp => pc_only h2, t, hpc, hl; simpa [PcOk] using hl.pcok.1

theorem inv2_alloc {s s' : St} {t n : Nat} (h2 : Inv2 s) (hs : stepAlloc s t n = some s') : Inv2 s' := by
  unfold stepAlloc at hs
  step_cases hs
  · next g hpc h0 => pc_only h2, t, hpc, hl; simp [PcOk]
  · next g hpc h0 hfree =>
    have hl := h2.loc t
    rw [hpc] at hl
    have hlive : ∀ u j, s.prot u j = n → n = 0 := by
      intro u j hp
      apply Classical.byContradiction; intro hn
      have := ((h2.loc u).prot_ok j n hp hn).2.2.2
      rw [hfree] at this; cases this
    refine Inv2.mk' (s := s) (t := t) (p' := .xAlloc g n) rfl ?_ h2.g_inj ?_ ?_
    · intro i hi
      have := h2.g_in i hi
      have hne : s.g i ≠ n := by intro e; rw [e, hfree] at this; cases this
      show upd s.ns n _ (s.g i) = _
      rw [upd_other _ _ _ _ hne]; exact this
    · refine Loc.move (p := .xCalled g) (hl.updNs n (.priv t) rfl rfl rfl rfl rfl rfl rfl ?_ ?_) ?_
        (by simp [Pc.todo]) (by simp [Pc.joined]) (by simp [Pc.joined])
      · rw [hfree]; simp
      · right; intro j hp; exact hlive t j hp
      · simp [PcOk]
    · intro u _
      refine (h2.loc u).updNs n (.priv t) rfl rfl rfl rfl rfl rfl rfl ?_ ?_
      · rw [hfree]; simp
      · right; intro j hp; exact hlive u j hp

theorem inv2_callRetire {s s' : St} {t n : Nat} (h2 : Inv2 s) (hs : stepCallRetire s t n = some s') : Inv2 s' := by
  unfold stepCallRetire at hs
  step_cases hs
  next old hpc hv =>
  obtain ⟨rfl, h0⟩ := hv
  have hl := h2.loc t
  rw [hpc] at hl
  have hunl : s.ns n = .unl t := hl.pcok h0
  refine Inv2.mk' (s := s) (t := t) (p' := .freeCalled) rfl ?_ h2.g_inj ?_ ?_
  · intro i hi
    have := h2.g_in i hi
    have hne : s.g i ≠ n := by intro e; rw [e, hunl] at this; cases this
    show upd s.ns n _ (s.g i) = _
    rw [upd_other _ _ _ _ hne]; exact this
  · have hnot : n ∉ s.rlist t := by
      intro hm
      have := (hl.rl n (by simp [hm])).2
      rw [hunl] at this; cases this
    constructor
    · simp [PcOk]
    · intro m hm
      simp only [upd_same, Pc.todo, List.append_nil, List.mem_cons] at hm
      show m ≠ 0 ∧ upd s.ns n _ m = _
      rcases hm with rfl | hm
      · exact ⟨h0, by simp⟩
      · have hne : m ≠ n := by intro e; subst e; exact hnot hm
        rw [upd_other _ _ _ _ hne]
        exact hl.rl m (by simp [hm])
    · have := hl.rl_nd
      simp only [upd_same, Pc.todo, List.append_nil] at this ⊢
      exact List.nodup_cons.mpr ⟨hnot, this⟩
    · intro j m hp hm
      obtain ⟨a, b, _, d⟩ := hl.prot_ok j m hp hm
      refine ⟨a, b, by simp [Pc.joined], ?_⟩
      show (upd s.ns n _ m).live = true
      by_cases e : m = n
      · subst e; simp [NSt.live]
      · rw [upd_other _ _ _ _ e]; exact d
    · simp [Pc.joined]
  · intro u hu
    refine (h2.loc u).updNs n (.retired t) rfl ?_ rfl rfl rfl rfl rfl ?_ ?_
    · show upd s.rlist t _ u = _
      rw [upd_other _ _ _ _ hu]
    · rw [hunl]; simp; exact fun e => hu e.symm
    · left; rfl

theorem inv2_xchgG {s s' : St} {t g old new : Nat} (h2 : Inv2 s)
    (hs : stepXchgG s t g old new = some s') : Inv2 s' := by
  unfold stepXchgG at hs
  split at hs
  case h_2 => simp at hs
  next g' n hpc =>
  split at hs
  case isFalse => simp at hs
  next hv =>
  obtain ⟨rfl, rfl, rfl⟩ := hv
  simp only [Option.some.injEq] at hs
  have hl := h2.loc t
  rw [hpc] at hl
  have hpriv : new ≠ 0 → s.ns new = .priv t := hl.pcok
  have hold : s.g g ≠ 0 → s.ns (s.g g) = .inG := h2.g_in g
  have hno : new ≠ 0 → new ≠ s.g g := by
    intro h0 e
    have a := hpriv h0
    have b := hold (by rw [← e]; exact h0)
    rw [← e, a] at b; cases b
  -- the new life-cycle map
  generalize hN : (if s.g g = 0 then (if new = 0 then s.ns else upd s.ns new NSt.inG)
      else upd (if new = 0 then s.ns else upd s.ns new NSt.inG) (s.g g) (NSt.unl t)) = N at hs
  have hA : ∀ m Y, s.ns m = Y → Y ≠ .priv t → Y ≠ .inG → N m = Y := by
    intro m Y hm h1 h2'
    have hmn : new ≠ 0 → m ≠ new := by intro h0 e; subst e; rw [hpriv h0] at hm; exact h1 hm.symm
    have hmo : s.g g ≠ 0 → m ≠ s.g g := by intro h0 e; rw [e, hold h0] at hm; exact h2' hm.symm
    subst hN
    by_cases e1 : s.g g = 0 <;> by_cases e2 : new = 0 <;> simp only [e1, e2, if_true, if_false]
    · exact hm
    · rw [upd_other _ _ _ _ (hmn e2)]; exact hm
    · rw [upd_other _ _ _ _ (hmo e1)]; exact hm
    · rw [upd_other _ _ _ _ (hmo e1), upd_other _ _ _ _ (hmn e2)]; exact hm
  have hB : new ≠ 0 → N new = .inG := by
    intro h0; subst hN
    by_cases e1 : s.g g = 0 <;> simp only [e1, h0, if_true, if_false]
    · simp
    · rw [upd_other _ _ _ _ (hno h0)]; simp
  have hC : s.g g ≠ 0 → N (s.g g) = .unl t := by
    intro h0; subst hN; simp [h0]
  have hE : ∀ m, s.ns m = .inG → m ≠ s.g g → N m = .inG := by
    intro m hm hne
    have hmn : new ≠ 0 → m ≠ new := by intro h0 e; subst e; rw [hpriv h0] at hm; cases hm
    subst hN
    by_cases e1 : s.g g = 0 <;> by_cases e2 : new = 0 <;> simp only [e1, e2, if_true, if_false]
    · exact hm
    · rw [upd_other _ _ _ _ (hmn e2)]; exact hm
    · rw [upd_other _ _ _ _ hne]; exact hm
    · rw [upd_other _ _ _ _ hne, upd_other _ _ _ _ (hmn e2)]; exact hm
  have hD : ∀ m, (s.ns m).live = true → (N m).live = true := by
    intro m hm
    by_cases e1 : m = s.g g
    · by_cases e0 : s.g g = 0
      · subst hN; simp only [e0, if_true]
        by_cases e2 : new = 0
        · simp only [e2, if_true]; exact hm
        · simp only [e2, if_false]
          have : m ≠ new := by intro e; rw [e, hpriv e2] at hm; cases hm
          rw [upd_other _ _ _ _ this]; exact hm
      · rw [e1, hC e0]; rfl
    · cases hx : s.ns m with
      | free => rw [hx] at hm; cases hm
      | priv w => rw [hx] at hm; cases hm
      | inG => rw [hE m hx e1]; rfl
      | unl w =>
        by_cases ew : w = t
        · subst ew
          have hmn : new ≠ 0 → m ≠ new := by intro h0 e; subst e; rw [hpriv h0] at hx; cases hx
          subst hN
          by_cases e0 : s.g g = 0 <;> by_cases e2 : new = 0 <;> simp only [e0, e2, if_true, if_false]
          · rw [hx]; rfl
          · rw [upd_other _ _ _ _ (hmn e2), hx]; rfl
          · rw [upd_other _ _ _ _ e1, hx]; rfl
          · rw [upd_other _ _ _ _ e1, upd_other _ _ _ _ (hmn e2), hx]; rfl
        · rw [hA m _ hx (by simp) (by simp)]; rfl
      | retired w => rw [hA m _ hx (by simp) (by simp)]; rfl
  subst hs
  refine Inv2.mk' (s := s) (t := t) (p' := .xDone (s.g g)) rfl ?_ ?_ ?_ ?_
  · intro i hi
    change upd s.g g new i ≠ 0 at hi
    show N (upd s.g g new i) = .inG
    by_cases e : i = g
    · subst e; rw [upd_same] at hi ⊢; exact hB hi
    · rw [upd_other _ _ _ _ e] at hi ⊢
      apply hE _ (h2.g_in i hi)
      intro e'; exact e (h2.g_inj i g e' hi)
  · intro i j hij hi
    change upd s.g g new i = upd s.g g new j at hij
    change upd s.g g new i ≠ 0 at hi
    by_cases ei : i = g <;> by_cases ej : j = g
    · rw [ei, ej]
    · subst ei; rw [upd_same] at hij hi; rw [upd_other _ _ _ _ ej] at hij
      have a := hpriv hi
      have b := h2.g_in j (by rw [← hij]; exact hi)
      rw [← hij, a] at b; cases b
    · subst ej; rw [upd_same] at hij; rw [upd_other _ _ _ _ ei] at hij hi
      have a := hpriv (by rw [← hij]; exact hi)
      have b := h2.g_in i hi
      rw [hij, a] at b; cases b
    · rw [upd_other _ _ _ _ ei] at hij hi; rw [upd_other _ _ _ _ ej] at hij
      exact h2.g_inj i j hij hi
  · constructor
    · exact hC
    · intro m hm
      obtain ⟨a, b⟩ := hl.rl m hm
      exact ⟨a, hA m _ b (by simp) (by simp)⟩
    · exact hl.rl_nd
    · intro j m hp hm
      obtain ⟨a, b, _, d⟩ := hl.prot_ok j m hp hm
      exact ⟨a, b, by simp [Pc.joined], hD m d⟩
    · simp [Pc.joined]
  · intro u hu
    refine (h2.loc u).updNsGen rfl rfl rfl rfl rfl rfl ?_ ?_
    · intro m Y hm hY
      apply hA m Y hm
      · rcases hY with e | e | e <;> subst e <;> simp <;> exact hu
      · rcases hY with e | e | e <;> subst e <;> simp
    · intro j m _ _ hlv; exact hD m hlv

theorem inv2_step {s s' : St} {e : Ev} (h1 : Inv1 s) (h2 : Inv2 s) (hs : step s e = some s') : Inv2 s' := by
  cases e with
  | callJoin t => exact inv2_callJoin h2 hs
  | retJoin t => exact inv2_retJoin h2 hs
  | ldHead t v => exact inv2_ldHead h1 h2 hs
  | casHead t f e d ok => exact inv2_casHead h1 h2 hs
  | wrNext t r v => exact inv2_wrNext h2 hs
  | rdNext t r v => exact inv2_rdNext h1 h2 hs
  | stThr t r v => exact inv2_stThr h2 hs
  | ldThr t r v => exact inv2_ldThr h2 hs
  | faddThr t r old op => exact inv2_faddThr h2 hs
  | rdRc t r v => exact inv2_rdRc h2 hs
  | wrRc t r v => exact inv2_wrRc h2 hs
  | rdHp t r i v => exact inv2_rdHp h2 hs
  | wrHp t r i v => exact inv2_wrHp h2 hs
  | fence t => exact inv2_fence h2 hs
  | ldG t g v => exact inv2_ldG h2 hs
  | xchgG t g old new => exact inv2_xchgG h2 hs
  | callAcq t g sl => exact inv2_callAcq h2 hs
  | validated t sl n => exact inv2_validated h2 hs
  | use t sl n => exact inv2_use h2 hs
  | retAcq t n => exact inv2_retAcq h2 hs
  | callRel t sl => exact inv2_callRel h2 hs
  | retRel t => exact inv2_retRel h2 hs
  | callX t g => exact inv2_callX h2 hs
  | alloc t n => exact inv2_alloc h2 hs
  | callRetire t n => exact inv2_callRetire h2 hs
  | retRetire t => exact inv2_retRetire h2 hs
  | rcNote t r v => exact inv2_rcNote h2 hs
  | retX t => exact inv2_retX h2 hs
  | callScan t => exact inv2_callScan h2 hs
  | retScan t => exact inv2_retScan h2 hs
  | reclaim t n => exact inv2_reclaim h2 hs

theorem inv12_of_run {k : Nat} {es : List Ev} {s : St} (h : (sys k).run es = some s) : Inv1 s ∧ Inv2 s :=
  Sys.inv_of_run (sys k) (fun s => Inv1 s ∧ Inv2 s) ⟨inv1_init k, inv2_init k⟩
    (fun _ _ _ hi hs => ⟨inv1_step hi.1 hs, inv2_step hi.1 hi.2 hs⟩) h

/-! ## 5. thresholds versus the number of participating records -/

theorem Inv1.chain_nodup {s : St} (h : Inv1 s) {q : Nat} (hq : ptrOk s q) : (chain s q).Nodup := by
  unfold chain
  split
  · simp
  · next h0 =>
    have hr : q - 1 ∈ s.recs := by rcases hq with e | e; exact absurd e h0; exact e
    exact List.nodup_cons.mpr ⟨h.not_mem_older_self hr, h.old_nd _ hr⟩

theorem Inv1.chain_sub {s : St} (h : Inv1 s) {q : Nat} (hq : ptrOk s q) : ∀ u ∈ chain s q, u ∈ s.recs := by
  unfold chain
  split
  · simp
  · next h0 =>
    have hr : q - 1 ∈ s.recs := by rcases hq with e | e; exact absurd e h0; exact e
    intro u hu
    simp only [List.mem_cons] at hu
    rcases hu with rfl | hu
    · exact hr
    · exact h.old_sub _ hr u hu

/-- every record that has completed `create_and_push` is accounted for in the threshold of every
    record in the list: `thr t ≥ 2·K·|L|` for each duplicate-free list `L` of such records -/
theorem Inv1.thr_ge {s : St} (h : Inv1 s) {t : Nat} (ht : t ∈ s.recs) {L : List Nat} (hL : L.Nodup)
    (hLj : ∀ j ∈ L, j ∈ s.recs ∧ (s.pc j).joined = true) : 2 * L.length * s.k ≤ s.thr t := by
  have hsub : ∀ j ∈ L, j ∈ (t :: s.older t) ++ s.bumpedBy t := by
    intro j hj
    obtain ⟨hjr, hjj⟩ := hLj j hj
    simp only [List.mem_append, List.mem_cons]
    rcases h.tri j hjr t ht with e | e | e
    · exact Or.inl (Or.inl e)
    · exact Or.inl (Or.inr e)
    · right
      rcases h.b1 j hjr t e with hb | hb
      · exact hb
      · exact absurd hb (pend_joined hjj)
  have := nodup_length_le hL hsub
  simp only [List.length_append, List.length_cons] at this
  rw [h.thr_eq t ht]
  apply Nat.mul_le_mul_right
  omega

/-- … and no threshold exceeds `2·K·N` for the `N` records in the list -/
theorem Inv1.thr_le {s : St} (h : Inv1 s) {t : Nat} (ht : t ∈ s.recs) : s.thr t ≤ 2 * s.recs.length * s.k := by
  have hnd : ((t :: s.older t) ++ s.bumpedBy t).Nodup := by
    rw [List.nodup_append]
    refine ⟨List.nodup_cons.mpr ⟨h.not_mem_older_self ht, h.old_nd t ht⟩, h.b3 t, ?_⟩
    intro a ha b hb e
    subst e
    obtain ⟨har, hta⟩ := h.b2 t a hb
    simp only [List.mem_cons] at ha
    rcases ha with rfl | ha
    · exact h.not_mem_older_self har hta
    · have := h.rank2 a har t hta
      have := h.rank2 t ht a ha
      omega
  have hsub : ∀ x ∈ (t :: s.older t) ++ s.bumpedBy t, x ∈ s.recs := by
    intro x hx
    simp only [List.mem_append, List.mem_cons] at hx
    rcases hx with (rfl | hx) | hx
    · exact ht
    · exact h.old_sub t ht x hx
    · exact (h.b2 t x hx).1
  have := nodup_length_le hnd hsub
  simp only [List.length_append, List.length_cons] at this
  rw [h.thr_eq t ht]
  apply Nat.mul_le_mul_right
  omega

/-- when no `create_and_push` is in progress every threshold is exactly `2·N·K` -/
theorem Inv1.thr_exact {s : St} (h : Inv1 s) (hall : ∀ j ∈ s.recs, (s.pc j).joined = true) {t : Nat}
    (ht : t ∈ s.recs) : s.thr t = 2 * s.recs.length * s.k :=
  Nat.le_antisymm (h.thr_le ht) (h.thr_ge ht h.nd (fun j hj => ⟨hj, hall j hj⟩))

end LibfiberVerif.Hp
