/-
  Proof/NodeList.lean — lemmas shared by the three linked-node containers of C20:
  the `Chain` predicate tying an abstract node list to the concrete `next` cells, and the
  counting / prefix consequences of a legal sequential stack / FIFO history.
-/
import LibfiberVerif.Core.Sys
import LibfiberVerif.Model.NodeList

namespace LibfiberVerif.NodeList

/-- `Chain next p l`: following `next` from pointer `p` visits exactly the nodes `l`
    (all non-NULL) and then reaches NULL. -/
def Chain (next : Nat → Nat) : Nat → List Nat → Prop
  | p, [] => p = 0
  | p, n :: l => p = n ∧ n ≠ 0 ∧ Chain next (next n) l

@[simp] theorem chain_nil (next : Nat → Nat) (p : Nat) : Chain next p [] ↔ p = 0 := Iff.rfl

@[simp] theorem chain_cons (next : Nat → Nat) (p n : Nat) (l : List Nat) :
    Chain next p (n :: l) ↔ p = n ∧ n ≠ 0 ∧ Chain next (next n) l := Iff.rfl

theorem chain_zero {next : Nat → Nat} {l : List Nat} (h : Chain next 0 l) : l = [] := by
  cases l with
  | nil => rfl
  | cons n l => simp at h; omega

theorem chain_zero_notin {next : Nat → Nat} {p : Nat} {l : List Nat} (h : Chain next p l) : 0 ∉ l := by
  induction l generalizing p with
  | nil => simp
  | cons n l ih =>
    simp at h
    simp
    exact ⟨fun h0 => h.2.1 h0.symm, ih h.2.2⟩

/-- the abstract list is determined by the concrete cells -/
theorem chain_unique {next : Nat → Nat} {p : Nat} {l l' : List Nat}
    (h : Chain next p l) (h' : Chain next p l') : l = l' := by
  induction l generalizing p l' with
  | nil => simp at h; subst h; exact (chain_zero h').symm
  | cons n l ih =>
    simp at h
    cases l' with
    | nil => simp at h'; omega
    | cons n' l' =>
      simp at h'
      obtain ⟨rfl, _, h3⟩ := h
      obtain ⟨rfl, _, h3'⟩ := h'
      rw [ih h3 h3']

theorem chain_nonzero {next : Nat → Nat} {p : Nat} {l : List Nat} (h : Chain next p l) (hp : p ≠ 0) :
    ∃ l', l = p :: l' ∧ Chain next (next p) l' := by
  cases l with
  | nil => simp at h; omega
  | cons n l => simp at h; obtain ⟨rfl, _, h3⟩ := h; exact ⟨l, rfl, h3⟩

theorem chain_head_mem {next : Nat → Nat} {p : Nat} {l : List Nat} (h : Chain next p l) (hp : p ≠ 0) :
    p ∈ l := by
  obtain ⟨l', rfl, _⟩ := chain_nonzero h hp
  simp

/-- writing the `next` cell of a node outside the list does not disturb the chain -/
theorem chain_upd_notin {next : Nat → Nat} {p m v : Nat} {l : List Nat} (hm : m ∉ l)
    (h : Chain next p l) : Chain (upd next m v) p l := by
  induction l generalizing p with
  | nil => simpa using h
  | cons n l ih =>
    simp at h hm
    simp
    refine ⟨h.1, h.2.1, ?_⟩
    have : upd next m v n = next n := by simp [upd]; intro hh; omega
    rw [this]
    exact ih hm.2 h.2.2

/-- linking a terminated node `n` behind the node `tl` of the list whose `next` is NULL
    (hence the last one) appends it -/
theorem chain_link {next : Nat → Nat} {p tl n : Nat} {l : List Nat}
    (h : Chain next p l) (htl : tl ∈ l) (h0 : next tl = 0) (hn : n ∉ l) (hn0 : n ≠ 0)
    (hnn : next n = 0) : Chain (upd next tl n) p (l ++ [n]) := by
  induction l generalizing p with
  | nil => simp at htl
  | cons a l ih =>
    simp at h hn
    obtain ⟨rfl, ha0, hrest⟩ := h
    by_cases hat : p = tl
    · subst hat
      rw [h0] at hrest
      have := chain_zero hrest
      subst this
      simp [upd, ha0, hn0]
      rw [if_neg hn.1]; exact hnn
    · have htl' : tl ∈ l := by
        simp at htl
        rcases htl with h | h
        · exact absurd h.symm hat
        · exact h
      simp
      refine ⟨ha0, ?_⟩
      have : upd next tl n p = next p := by simp [upd, hat]
      rw [this]
      exact ih hrest htl' hn.2

/-- the node whose `next` is NULL is the last one: everything before it has a successor -/
theorem chain_next_ne_zero_of_cons_cons {next : Nat → Nat} {p a b : Nat} {l : List Nat}
    (h : Chain next p (a :: b :: l)) : next a = b ∧ b ≠ 0 := by
  simp at h
  exact ⟨h.2.2.1, h.2.2.2.1⟩

/-- list reversal step: moving the head of `todo` in front of `done` -/
theorem chain_of_eq {next next' : Nat → Nat} {p : Nat} {l : List Nat}
    (hagree : ∀ n ∈ l, next' n = next n) (h : Chain next p l) : Chain next' p l := by
  induction l generalizing p with
  | nil => simpa using h
  | cons n l ih =>
    simp at h
    simp
    refine ⟨h.1, h.2.1, ?_⟩
    rw [hagree n (by simp)]
    exact ih (fun m hm => hagree m (by simp [hm])) h.2.2

/-! ### sequential stack histories -/

theorem stackReplayFrom_append (st : List (Nat × Nat)) (a b : List StackOp) :
    stackReplayFrom st (a ++ b) = (stackReplayFrom st a).bind (fun st' => stackReplayFrom st' b) := by
  induction a generalizing st with
  | nil => simp [stackReplayFrom]
  | cons o a ih =>
    simp only [List.cons_append, stackReplayFrom]
    cases stackStep st o with
    | none => simp
    | some st' => simp [ih]

theorem stackReplay_snoc (os : List StackOp) (o : StackOp) :
    stackReplay (os ++ [o]) = (stackReplay os).bind (fun st => stackStep st o) := by
  simp only [stackReplay, stackReplayFrom_append]
  cases stackReplayFrom [] os with
  | none => simp
  | some st =>
    simp [stackReplayFrom]
    cases stackStep st o <;> simp

/-- how often node `n` was put in -/
def pushCount (n : Nat) : List StackOp → Nat
  | [] => 0
  | .push m _ :: os => (if m = n then 1 else 0) + pushCount n os
  | _ :: os => pushCount n os

/-- how often node `n` was handed out (by a pop or inside a flush) -/
def takeCount (n : Nat) : List StackOp → Nat
  | [] => 0
  | .pop m _ :: os => (if m = n then 1 else 0) + takeCount n os
  | .flush l :: os => (l.map Prod.fst).count n + takeCount n os
  | _ :: os => takeCount n os

theorem pushCount_append (n : Nat) (a b : List StackOp) :
    pushCount n (a ++ b) = pushCount n a + pushCount n b := by
  induction a with
  | nil => simp [pushCount]
  | cons o a ih => cases o <;> simp [pushCount, ih] <;> omega

theorem takeCount_append (n : Nat) (a b : List StackOp) :
    takeCount n (a ++ b) = takeCount n a + takeCount n b := by
  induction a with
  | nil => simp [takeCount]
  | cons o a ih => cases o <;> simp [takeCount, ih] <;> omega

theorem stackStep_count {st st' : List (Nat × Nat)} {o : StackOp} (n : Nat)
    (h : stackStep st o = some st') :
    pushCount n [o] + (st.map Prod.fst).count n = takeCount n [o] + (st'.map Prod.fst).count n := by
  cases o with
  | push m v =>
    simp [stackStep] at h; subst h
    simp [pushCount, takeCount, List.count_cons]
    split <;> omega
  | pop m v =>
    cases st with
    | nil => simp [stackStep] at h
    | cons x st =>
      obtain ⟨a, b⟩ := x
      simp [stackStep] at h
      obtain ⟨⟨rfl, rfl⟩, rfl⟩ := h
      simp [pushCount, takeCount, List.count_cons]
      split <;> omega
  | popEmpty =>
    cases st with
    | nil => simp [stackStep] at h; subst h; simp [pushCount, takeCount]
    | cons x st => simp [stackStep] at h
  | flush l =>
    simp [stackStep] at h
    obtain ⟨rfl, rfl⟩ := h
    simp [pushCount, takeCount]

/-- in a legal sequential history every node is handed out exactly as often as it was put in,
    except for the copies still inside -/
theorem stackReplayFrom_count {st st' : List (Nat × Nat)} {os : List StackOp} (n : Nat)
    (h : stackReplayFrom st os = some st') :
    pushCount n os + (st.map Prod.fst).count n = takeCount n os + (st'.map Prod.fst).count n := by
  induction os generalizing st with
  | nil => simp [stackReplayFrom] at h; subst h; simp [pushCount, takeCount]
  | cons o os ih =>
    simp only [stackReplayFrom] at h
    cases hs : stackStep st o with
    | none => simp [hs] at h
    | some st1 =>
      simp [hs] at h
      have h1 := stackStep_count n hs
      have h2 := ih h
      have e1 : pushCount n (o :: os) = pushCount n [o] + pushCount n os := by
        rw [← pushCount_append]; rfl
      have e2 : takeCount n (o :: os) = takeCount n [o] + takeCount n os := by
        rw [← takeCount_append]; rfl
      omega

/-! ### sequential FIFO histories -/

theorem fifoReplayFrom_append (q : List Nat) (a b : List FifoOp) :
    fifoReplayFrom q (a ++ b) = (fifoReplayFrom q a).bind (fun q' => fifoReplayFrom q' b) := by
  induction a generalizing q with
  | nil => simp [fifoReplayFrom]
  | cons o a ih =>
    simp only [List.cons_append, fifoReplayFrom]
    cases fifoStep q o with
    | none => simp
    | some q' => simp [ih]

theorem fifoReplay_snoc (os : List FifoOp) (o : FifoOp) :
    fifoReplay (os ++ [o]) = (fifoReplay os).bind (fun q => fifoStep q o) := by
  simp only [fifoReplay, fifoReplayFrom_append]
  cases fifoReplayFrom [] os with
  | none => simp
  | some q =>
    simp [fifoReplayFrom]
    cases fifoStep q o <;> simp

/-- values enqueued, in order -/
def enqs : List FifoOp → List Nat
  | [] => []
  | .enq v :: os => v :: enqs os
  | _ :: os => enqs os

/-- values dequeued, in order -/
def deqs : List FifoOp → List Nat
  | [] => []
  | .deq v :: os => v :: deqs os
  | _ :: os => deqs os

theorem enqs_append (a b : List FifoOp) : enqs (a ++ b) = enqs a ++ enqs b := by
  induction a with
  | nil => simp [enqs]
  | cons o a ih => cases o <;> simp [enqs, ih]

theorem deqs_append (a b : List FifoOp) : deqs (a ++ b) = deqs a ++ deqs b := by
  induction a with
  | nil => simp [deqs]
  | cons o a ih => cases o <;> simp [deqs, ih]

/-- in a legal sequential FIFO history the dequeued values followed by the content are
    exactly the enqueued values: what was taken is a prefix of what was put, in order, each
    once, and nothing else is missing -/
theorem fifoReplayFrom_prefix {q q' : List Nat} {os : List FifoOp}
    (h : fifoReplayFrom q os = some q') : q ++ enqs os = deqs os ++ q' := by
  induction os generalizing q with
  | nil => simp [fifoReplayFrom] at h; subst h; simp [enqs, deqs]
  | cons o os ih =>
    simp only [fifoReplayFrom] at h
    cases hs : fifoStep q o with
    | none => simp [hs] at h
    | some q1 =>
      simp [hs] at h
      have h2 := ih h
      cases o with
      | enq v => simp [fifoStep] at hs; subst hs; simp [enqs, deqs] at *; exact h2
      | deq v =>
        cases q with
        | nil => simp [fifoStep] at hs
        | cons w q =>
          simp [fifoStep] at hs
          obtain ⟨rfl, rfl⟩ := hs
          simp [enqs, deqs] at *; exact h2
      | deqEmpty =>
        cases q with
        | nil => simp [fifoStep] at hs; subst hs; simp [enqs, deqs] at *; exact h2
        | cons w q => simp [fifoStep] at hs

/-! ### take-everything: a flush returns exactly what was pushed since the previous flush -/

/-- the (node, value) pairs pushed by a history, in push order -/
def pushesOf : List StackOp → List (Nat × Nat)
  | [] => []
  | .push n v :: os => (n, v) :: pushesOf os
  | _ :: os => pushesOf os

def isPushOp : StackOp → Bool
  | .push _ _ => true
  | _ => false

theorem replay_pushes {st : List (Nat × Nat)} {mid : List StackOp}
    (hmid : ∀ o ∈ mid, isPushOp o = true) :
    stackReplayFrom st mid = some ((pushesOf mid).reverse ++ st) := by
  induction mid generalizing st with
  | nil => simp [stackReplayFrom, pushesOf]
  | cons o mid ih =>
    have ho := hmid o (by simp)
    cases o <;> simp [isPushOp] at ho
    rename_i n v
    simp only [stackReplayFrom, stackStep, pushesOf]
    rw [ih (fun o' ho' => hmid o' (by simp [ho']))]
    simp

/-- legal history `pre ++ mid ++ [flush l]`, the stack empty after `pre` (nothing yet, or
    `pre` ends with a flush), only pushes in `mid`: then `l` is exactly what `mid` pushed,
    each once, newest first -/
theorem flush_since {pre mid : List StackOp} {l st : List (Nat × Nat)}
    (h : stackReplay (pre ++ mid ++ [.flush l]) = some st)
    (hpre : stackReplay pre = some [])
    (hmid : ∀ o ∈ mid, isPushOp o = true) : l = (pushesOf mid).reverse ∧ st = [] := by
  simp only [stackReplay, stackReplayFrom_append] at h hpre
  rw [hpre] at h
  simp only [Option.bind_some] at h
  rw [replay_pushes hmid] at h
  simp [stackReplayFrom, stackStep] at h
  split at h
  · simp at h
  · rename_i st' heq
    split at heq
    · rename_i hl
      simp at heq h
      exact ⟨hl, by rw [← h, ← heq]⟩
    · simp at heq

theorem replay_flush_empty {pre : List StackOp} {l st : List (Nat × Nat)}
    (h : stackReplay (pre ++ [.flush l]) = some st) : st = [] := by
  rw [stackReplay_snoc] at h
  cases h1 : stackReplay pre with
  | none => simp [h1] at h
  | some st1 =>
    simp [h1, stackStep] at h
    exact h.2

end LibfiberVerif.NodeList
