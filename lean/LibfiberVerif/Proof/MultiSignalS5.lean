/-
  Proof/MultiSignalS5.lean — `MultiSignal.Inv` is preserved by the events of group S5
  (one lemma per event; split over several modules so that they compile in parallel).
-/
import LibfiberVerif.Proof.MultiSignalInv

namespace LibfiberVerif.MultiSignal

set_option maxHeartbeats 8000000 in
theorem inv_step_cas2 (s s' : St) (f ec : Nat) (eh : H) (nc : Nat) (nh : H) (ok : Bool) (hi : Inv s)
    (hs : step s (.cas2 f ec eh nc nh ok) = some s') : Inv s' := by
  have hst := stack_of_head hi
  have hI := hi
  obtain ⟨h1, h2, h3, h4, h5, h6, h7, h8, h9, h10, h11, h12, h13, h14, h15, h16, h17, h18, h19, h20,
    h21, h22, h23, h24, h25, h26, h27, h28, h29, h30⟩ := hi
  obtain ⟨hraised, hnil, hnode⟩ := hst
  by_cases hpre : ok ≠ casOk s ec eh ∨ nc ≠ ec + 1
  · simp only [step, if_pos hpre] at hs; simp at hs
  simp only [step, if_neg hpre] at hs
  simp only [not_or, Decidable.not_not, casOk] at hpre
  obtain ⟨hok, hnc⟩ := hpre
  subst hnc
  split at hs
  · -- wait: consume RAISED
    rename_i n c hpc
    split at hs <;> (try (simp at hs; done))
    rename_i hc
    obtain ⟨hec, heh, hnh⟩ := hc
    subst hec heh hnh
    cases ok with
    | false => simp at hs hok; subst hs; constructor <;> ms_close
    | true =>
      simp at hs hok
      obtain ⟨hcnt, hhead⟩ := hok
      have hempty := hraised hhead
      subst hs
      constructor
      case head_stack => simp [hempty, headOf]
      all_goals ms_close
  · -- wait: push self
    rename_i n c h hpc
    split at hs <;> (try (simp at hs; done))
    rename_i hc
    obtain ⟨hec, heh, hnh⟩ := hc
    subst hec heh hnh
    cases ok with
    | false => simp at hs hok; subst hs; constructor <;> ms_close
    | true =>
      simp at hs hok
      obtain ⟨hcnt, hhead⟩ := hok
      obtain ⟨_, _, hnf, hnext, hnr⟩ := hI.snapW3 f n ec eh hpc
      subst hnf
      have hnot : n ∉ s.stack := by
        intro hm
        have := (hI.listed n hm).1
        simp [Pc.sleepy, hpc] at this
      have hhs : eh = headOf s.stack := by
        rcases hI.head_stack with h' | h'
        · rw [← hhead]; exact h'
        · rw [hhead] at h'; exact absurd h'.2 hnr
      have hnd : s.ndata n = n := hI.wData4 n n ec eh hpc
      have hwk : s.wakes n = s.parks n := by
        rcases hI.counts n with h' | h'
        · exact h'
        · simp [Pc.sleepy, hpc] at h'
      subst hs
      constructor
      case head_stack => simp [headOf]
      case chain => exact ⟨by rw [hnext, hhs], hI.chain⟩
      case nodup => exact List.nodup_cons.2 ⟨hnot, hI.nodup⟩
      all_goals ms_close
  · -- raise: latch / coalesce
    rename_i c h hpc
    split at hs <;> (try (simp at hs; done))
    rename_i hc
    obtain ⟨hstrict, hec, heh, hh, hnh⟩ := hc
    subst hec heh hnh
    cases ok with
    | false => simp at hs hok; subst hs; constructor <;> ms_close
    | true =>
      simp at hs hok
      obtain ⟨hcnt, hhead⟩ := hok
      have hempty : s.stack = [] := by
        rcases hh with h' | h'
        · exact hnil (by rw [hhead, h'])
        · exact hraised (by rw [hhead, h'])
      subst hs
      constructor
      case head_stack => exact Or.inr ⟨hempty, rfl⟩
      all_goals ms_close
  · -- raise: pop the top waiter
    rename_i c n x hpc
    split at hs <;> (try (simp at hs; done))
    rename_i hc
    obtain ⟨hec, heh, hnh⟩ := hc
    subst hec heh hnh
    cases ok with
    | false => simp at hs hok; subst hs; constructor <;> ms_close
    | true =>
      simp at hs hok
      obtain ⟨hcnt, hhead⟩ := hok
      obtain ⟨_, hsnap⟩ := hI.snapR3 f ec n nh hpc
      obtain ⟨_, hx⟩ := hsnap hcnt.symm
      obtain ⟨rest, hstk, hnx, hch, hnr, hnd⟩ := hnode n hhead
      have hl := hI.listed n (by rw [hstk]; simp)
      have hrest : ∀ m, m ∈ rest → m ∈ s.stack := by intro m hm; rw [hstk]; simp [hm]
      subst hs
      constructor
      case head_stack => left; simp [hstk, hx, hnx]
      case chain => simpa [hstk] using hch
      case nodup => simpa [hstk] using hnd
      case listed =>
        intro m hm
        simp only [hstk, List.drop_succ_cons, List.drop_zero] at hm
        have hmn : m ≠ n := fun e => hnr (e ▸ hm)
        have hmf : m ≠ f := by
          intro e; subst e
          have := (hI.listed m (hrest m hm)).1
          simp [Pc.sleepy, hpc] at this
        have := hI.listed m (hrest m hm)
        simp [upd, hmn, hmf]
        exact this
      case waker_sleepy =>
        intro g w hw
        simp only [upd] at hw
        split at hw
        · rename_i hg; subst hg
          simp at hw; subst hw
          have hgf : g ≠ f := by
            intro e; subst e
            simp [Pc.sleepy, hpc] at hl
          simp [upd, hgf, hstk, hnr]
          exact ⟨by simpa [Pc.sleepy] using hl.1, hl.2.1, hl.2.2.2⟩
        · rename_i hg
          have h' := hI.waker_sleepy g w hw
          have hgf : g ≠ f := by
            intro e; subst e
            simp [Pc.sleepy, hpc] at h'
          refine ⟨by simpa [upd, hgf] using h'.1, h'.2.1, ?_, h'.2.2.2⟩
          simp only [hstk, List.drop_succ_cons, List.drop_zero]
          intro hm; exact h'.2.2.1 (hrest g hm)
      case owed =>
        intro g hsl hw
        simp only [upd] at hsl hw ⊢
        by_cases hgf : g = f
        · subst hgf; simp [Pc.sleepy] at hsl
        · simp [hgf] at hsl
          by_cases hgn : g = n
          · right; exact ⟨f, by simp [hgn]⟩
          · rcases hI.owed g hsl hw with h' | ⟨w, h'⟩
            · left
              rw [hstk] at h'
              simp only [List.mem_cons] at h'
              simp only [hstk, List.drop_succ_cons, List.drop_zero]
              rcases h' with h' | h'
              · exact absurd h' hgn
              · exact h'
            · right; exact ⟨w, by simp [hgn, h']⟩
      all_goals ms_close
  · simp at hs

end LibfiberVerif.MultiSignal
