/-
  Proof/HpTso.lean — the inductive invariant of the hazard-pointer handshake on TSO with a real
  `store_load_barrier()` (`Model/HpTso.lean`, `fenced = true`).

  Each thread buffers stores to its own slot only.  The barrier enters in exactly one place:
  at the validating re-load of `G` the reader's buffer is empty, so its slot store IS in memory;
  if the re-load still finds `p` in `G`, `p` has not been unlinked yet, hence every scan for `p`
  starts later and reads the slot from memory after that store.
-/
import LibfiberVerif.Model.HpTso
import LibfiberVerif.Proof.Tso

namespace LibfiberVerif.HpTso
open LibfiberVerif.Tso

theorem cSlot_ne_cG (t : Nat) : cSlot t ≠ cG := by simp [cSlot, cG]
theorem cSlot_inj {t u : Nat} (h : cSlot t = cSlot u) : t = u := by simp [cSlot] at h; exact h

/-- what a thread's program counter promises -/
def pcOk (N : Nat) (m : Mem) (ns : Int → NSt) (t : Nat) : Pc → Prop
  | .idle => True
  | .rdCalled => t < N
  | .rdLoaded p => p ≠ 0 ∧ t < N
  | .rdPublished p => p ≠ 0 ∧ t < N ∧ m.view t (cSlot t) = p
  | .rdFenced p => p ≠ 0 ∧ t < N ∧ m.buf t = [] ∧ m.mem (cSlot t) = p
  /- a validated reader: its slot store is IN MEMORY and the node is not reclaimed -/
  | .using p => p ≠ 0 ∧ t < N ∧ m.buf t = [] ∧ m.mem (cSlot t) = p ∧ ns p ≠ .free
  | .wScan n i _ => n ≠ 0 ∧ ns n = .retired t ∧ i ≤ N

structure Inv (s : St) : Prop where
  fen : s.fenced = true
  /-- a thread buffers stores to its own slot only -/
  cells : ∀ u e, e ∈ s.m.buf u → e.1 = cSlot u
  /-- the nodes in state `inG` are exactly the non-NULL contents of `G` -/
  g_ok : ∀ n, s.ns n = .inG ↔ (n ≠ 0 ∧ s.m.mem cG = n)
  pcs : ∀ t, pcOk s.N s.m s.ns t (s.pc t)
  /-- a scan for `p` that has passed the slot of a validated reader of `p` has found it -/
  scan_ok : ∀ t p w i f, s.pc t = .using p → s.pc w = .wScan p i f → t < i → f = true

theorem inv_init (N : Nat) : Inv (init true N) := by
  constructor <;> simp [init, Mem.init, pcOk]
  intro n h1 h2; exact h1 h2.symm

theorem load_G {s : St} (hI : Inv s) (t : Nat) : s.m.load t cG = s.m.mem cG := by
  rw [load_eq_view, Mem.view, applyAll_of_not_mem]
  intro e he; rw [hI.cells t e he]; exact cSlot_ne_cG t

/-- a step of thread `u` that changes only its own pc, to something that is neither a validated
    reader nor a scan -/
theorem inv_local {s s' : St} (hI : Inv s) (u : Nat)
    (hN : s'.N = s.N) (hf : s'.fenced = s.fenced) (hm : s'.m = s.m) (hns : s'.ns = s.ns)
    (hpc : ∀ w, w ≠ u → s'.pc w = s.pc w)
    (hok : pcOk s.N s.m s.ns u (s'.pc u))
    (hscan : ∀ t p w i f, s'.pc t = .using p → s'.pc w = .wScan p i f → t < i → f = true) :
    Inv s' := by
  constructor
  · rw [hf]; exact hI.fen
  · rw [hm]; exact hI.cells
  · rw [hm, hns]; exact hI.g_ok
  · intro t; rw [hN, hm, hns]
    by_cases ht : t = u
    · subst ht; exact hok
    · rw [hpc t ht]; exact hI.pcs t
  · exact hscan

/-- `scan_ok` survives when thread `u` moves to a pc that is neither `using` nor `wScan` -/
theorem scan_plain {s s' : St} (hI : Inv s) (u : Nat)
    (hpc : ∀ w, w ≠ u → s'.pc w = s.pc w)
    (h1 : ∀ p, s'.pc u ≠ .using p) (h2 : ∀ p i f, s'.pc u ≠ .wScan p i f) :
    ∀ t p w i f, s'.pc t = .using p → s'.pc w = .wScan p i f → t < i → f = true := by
  intro t p w i f ht hw hlt
  have htu : t ≠ u := by intro h; subst h; exact h1 p ht
  have hwu : w ≠ u := by intro h; subst h; exact h2 p i f hw
  rw [hpc t htu] at ht; rw [hpc w hwu] at hw
  exact hI.scan_ok t p w i f ht hw hlt

macro "local_side" : tactic =>
  `(tactic| first | rfl | (intro w hw; simp [upd, hw]; done))

theorem inv_callAcq {s s' : St} {t : Nat} (hI : Inv s)
    (h : step s (.callAcq t) = some s') : Inv s' := by
  simp only [step] at h
  split at h <;> try (simp at h; done)
  split at h <;> simp at h
  subst h
  apply inv_local hI t <;> try local_side
  case hok => simpa [pcOk]
  case hscan => apply scan_plain hI t <;> first | local_side | simp

theorem inv_use {s s' : St} {t : Nat} {p : Int} (hI : Inv s)
    (h : step s (.use t p) = some s') : Inv s' := by
  simp only [step] at h
  split at h <;> try (simp at h; done)
  split at h <;> simp at h
  subst h; exact hI

theorem inv_fence {s s' : St} {t : Nat} (hI : Inv s)
    (h : step s (.fence t) = some s') : Inv s' := by
  simp only [step] at h
  split at h <;> try (simp at h; done)
  next p hpc =>
  split at h <;> simp at h
  subst h
  rename_i hd
  have hE : s.m.buf t = [] := hd hI.fen
  have ho := hI.pcs t; rw [hpc] at ho; simp only [pcOk] at ho
  apply inv_local hI t <;> try local_side
  case hok =>
    simp only [upd_same, pcOk]
    refine ⟨ho.1, ho.2.1, hE, ?_⟩
    rw [← ho.2.2, view_of_drained hE]
  case hscan => apply scan_plain hI t <;> first | local_side | simp

theorem inv_ldG {s s' : St} {t : Nat} {v : Int} (hI : Inv s)
    (h : step s (.ldG t v) = some s') : Inv s' := by
  simp only [step] at h
  split at h
  next hpc =>
    split at h <;> simp at h
    subst h
    have ho := hI.pcs t; rw [hpc] at ho; simp only [pcOk] at ho
    apply inv_local hI t <;> try local_side
    case hok =>
      simp only [upd_same]
      split
      · simp [pcOk]
      · next hv => simp only [pcOk]; exact ⟨hv, ho⟩
    case hscan =>
      apply scan_plain hI t <;> try local_side
      · intro p; simp only [upd_same]; split <;> simp
      · intro p i f; simp only [upd_same]; split <;> simp
  next p hpc =>
    split at h <;> simp at h
    subst h
    rename_i hv
    rw [load_G hI] at hv
    have ho := hI.pcs t; rw [hpc] at ho; simp only [pcOk] at ho
    by_cases hvp : v = p
    · -- validated: `p` is still in `G`, so nobody is scanning for it yet
      have hin : s.ns p = .inG := (hI.g_ok p).mpr ⟨ho.1, by rw [← hv, hvp]⟩
      apply inv_local hI t <;> try local_side
      case hok =>
        simp only [upd_same, hvp, if_true, pcOk]
        exact ⟨ho.1, ho.2.1, ho.2.2.1, ho.2.2.2, by rw [hin]; simp⟩
      case hscan =>
        intro t' p' w i f ht' hw hlt
        simp only [upd, hvp, if_true] at ht' hw
        by_cases hwt : w = t
        · simp [hwt] at hw
        · simp only [hwt, if_false] at hw
          by_cases htt : t' = t
          · simp only [htt, if_true, Pc.using.injEq] at ht'
            subst ht'
            have := (hI.pcs w); rw [hw] at this; simp only [pcOk] at this
            rw [hin] at this; simp at this
          · simp only [htt, if_false] at ht'
            exact hI.scan_ok t' p' w i f ht' hw hlt
    · apply inv_local hI t <;> try local_side
      case hok => simp only [upd_same, hvp, if_false, pcOk]; exact ho.2.1
      case hscan =>
        apply scan_plain hI t <;> try local_side
        · intro p; simp [hvp]
        · intro p i f; simp [hvp]
  next => simp at h

theorem inv_ldSlot {s s' : St} {t : Nat} {i : Nat} {v : Int} (hI : Inv s)
    (h : step s (.ldSlot t i v) = some s') : Inv s' := by
  simp only [step] at h
  split at h <;> try (simp at h; done)
  next old j f hpc =>
  split at h <;> simp at h
  subst h
  rename_i hc
  obtain ⟨hij, hjN, hv⟩ := hc
  subst hij
  have ho := hI.pcs t; rw [hpc] at ho; simp only [pcOk] at ho
  apply inv_local hI t <;> try local_side
  case hok => simp only [upd_same, pcOk]; exact ⟨ho.1, ho.2.1, by omega⟩
  case hscan =>
    intro t' p' w k g ht' hw hlt
    simp only [upd] at ht' hw
    have htt : t' ≠ t := by intro h; simp [h] at ht'
    simp only [htt, if_false] at ht'
    by_cases hwt : w = t
    · simp only [hwt, if_true, Pc.wScan.injEq] at hw
      obtain ⟨hp, hk, hg⟩ := hw
      subst hp; subst hk
      by_cases hlt' : t' < i
      · have := hI.scan_ok t' old t i f ht' hpc hlt'
        rw [← hg, this]; simp
      · have hti : t' = i := by omega
        subst hti
        -- the scan reads the slot of a validated reader: from memory, where its store is
        have hu := hI.pcs t'; rw [ht'] at hu; simp only [pcOk] at hu
        have hmem : s.m.load t (cSlot t') = s.m.mem (cSlot t') := by
          rw [load_eq_view, Mem.view, applyAll_of_not_mem]
          intro e he; rw [hI.cells t e he]
          intro h; exact htt (cSlot_inj h).symm
        rw [← hg, hv, hmem, hu.2.2.2.1]; simp
    · simp only [hwt, if_false] at hw
      exact hI.scan_ok t' p' w k g ht' hw hlt

theorem inv_keep {s s' : St} {t : Nat} {n : Int} (hI : Inv s)
    (h : step s (.keep t n) = some s') : Inv s' := by
  simp only [step] at h
  split at h <;> try (simp at h; done)
  next old j f hpc =>
  split at h <;> simp at h
  subst h
  have ho := hI.pcs t; rw [hpc] at ho; simp only [pcOk] at ho
  apply inv_local hI t <;> try local_side
  case hok => simp only [upd_same, pcOk]; exact ⟨ho.1, ho.2.1, by omega⟩
  case hscan =>
    intro t' p' w k g ht' hw hlt
    simp only [upd] at ht' hw
    have htt : t' ≠ t := by intro h; simp [h] at ht'
    simp only [htt, if_false] at ht'
    by_cases hwt : w = t
    · simp only [hwt, if_true, Pc.wScan.injEq] at hw
      omega
    · simp only [hwt, if_false] at hw
      exact hI.scan_ok t' p' w k g ht' hw hlt

/-! ### stores to the own slot -/

theorem pcOk_store_other {N m ns t u p} {v : Int} (h : pcOk N m ns t p) (htu : t ≠ u) :
    pcOk N (m.store u (cSlot u) v) ns t p := by
  have hb : (m.store u (cSlot u) v).buf t = m.buf t := store_buf_other _ _ _ _ _ htu
  have hv : (m.store u (cSlot u) v).view t = m.view t := by simp [Mem.view, hb, store_mem]
  cases p <;> simp only [pcOk, hb, hv, store_mem] at h ⊢ <;> exact h

/-- thread `u` issues `hp[u] = v` -/
theorem inv_store {s s' : St} (hI : Inv s) (u : Nat) (v : Int)
    (hN : s'.N = s.N) (hf : s'.fenced = s.fenced) (hm : s'.m = s.m.store u (cSlot u) v)
    (hns : s'.ns = s.ns) (hpc : ∀ w, w ≠ u → s'.pc w = s.pc w)
    (hok : pcOk s.N s'.m s.ns u (s'.pc u))
    (h1 : ∀ p, s'.pc u ≠ .using p) (h2 : ∀ p i f, s'.pc u ≠ .wScan p i f) : Inv s' := by
  constructor
  · rw [hf]; exact hI.fen
  · intro w e he
    rw [hm] at he
    by_cases hw : w = u
    · subst hw; rw [store_buf_self] at he
      rcases List.mem_append.mp he with h | h
      · exact hI.cells w e h
      · simp at h; rw [h]
    · rw [store_buf_other _ _ _ _ _ hw] at he; exact hI.cells w e he
  · rw [hm, hns, store_mem]; exact hI.g_ok
  · intro t; rw [hN, hns]
    by_cases ht : t = u
    · subst ht; exact hok
    · rw [hpc t ht, hm]; exact pcOk_store_other (hI.pcs t) ht
  · exact scan_plain hI u hpc h1 h2

theorem inv_stSlot {s s' : St} {t : Nat} {v : Int} (hI : Inv s)
    (h : step s (.stSlot t v) = some s') : Inv s' := by
  simp only [step] at h
  split at h <;> try (simp at h; done)
  next p hpc =>
  split at h <;> simp at h
  subst h
  rename_i hv; subst hv
  have ho := hI.pcs t; rw [hpc] at ho; simp only [pcOk] at ho
  apply inv_store hI t v <;> try local_side
  case hok =>
    simp only [upd_same, pcOk, view_store_self]
    exact ⟨ho.1, ho.2, trivial⟩
  case h1 => simp
  case h2 => simp

theorem inv_release {s s' : St} {t : Nat} (hI : Inv s)
    (h : step s (.release t) = some s') : Inv s' := by
  simp only [step] at h
  split at h <;> try (simp at h; done)
  next p hpc =>
  simp at h
  subst h
  apply inv_store hI t 0 <;> try local_side
  case hok => simp [pcOk]
  case h1 => simp
  case h2 => simp

/-! ### flush -/

theorem pcOk_flush {N m m' ns t u p} (h : pcOk N m ns t p) (hf : m.flush u = some m')
    (hcells : ∀ e, e ∈ m.buf u → e.1 = cSlot u) : pcOk N m' ns t p := by
  obtain ⟨e, rest, hb, hm, hbuf⟩ := flush_some hf
  have hec : e.1 = cSlot u := hcells e (by rw [hb]; exact List.mem_cons_self)
  by_cases htu : t = u
  · subst htu
    have hv := view_flush_self hf
    cases p <;> simp only [pcOk, hv] at h ⊢ <;> first | exact h | (simp [hb] at h)
  · have hbt : m'.buf t = m.buf t := by rw [hbuf]; simp [upd, htu]
    have hne : cSlot t ≠ e.1 := by rw [hec]; intro h; exact htu (cSlot_inj h)
    have hmt : m'.mem (cSlot t) = m.mem (cSlot t) := by rw [hm]; simp [upd, hne]
    have hvt : m'.view t (cSlot t) = m.view t (cSlot t) := by
      simp only [Mem.view, hbt, hm]; exact applyAll_upd_other _ _ _ _ _ hne
    cases p <;> simp only [pcOk, hbt, hmt, hvt] at h ⊢ <;> exact h

theorem inv_flush {s s' : St} {t : Nat} (hI : Inv s)
    (h : step s (.flush t) = some s') : Inv s' := by
  simp only [step] at h
  split at h
  next m' hf =>
    simp at h; subst h
    obtain ⟨e, rest, hb, hm, hbuf⟩ := flush_some hf
    have hec : e.1 = cSlot t := hI.cells t e (by rw [hb]; exact List.mem_cons_self)
    constructor
    · exact hI.fen
    · intro u e' he'
      simp only [hbuf] at he'
      by_cases hu : u = t
      · subst hu; rw [upd_same] at he'
        exact hI.cells u e' (by rw [hb]; exact List.mem_cons_of_mem _ he')
      · rw [upd_other _ _ _ _ hu] at he'; exact hI.cells u e' he'
    · have : m'.mem cG = s.m.mem cG := by
        rw [hm]; simp [upd]; intro h; rw [hec] at h; exact absurd h.symm (cSlot_ne_cG t)
      simp only [this]; exact hI.g_ok
    · intro u; exact pcOk_flush (hI.pcs u) hf (hI.cells t)
    · exact hI.scan_ok
  next => simp at h

/-! ### unlink (`xchg`) and reclaim -/

theorem setNs_apply (f : Int → NSt) (n k : Int) (v : NSt) :
    setNs f n v k = if k = n then v else f k := rfl

theorem ns1_apply (f : Int → NSt) (new k : Int) (v : NSt) :
    (if new = 0 then f else setNs f new v) k = if new ≠ 0 ∧ k = new then v else f k := by
  by_cases h : new = 0 <;> simp [h, setNs]

theorem inv_xchgG {s s' : St} {t : Nat} {old new : Int} (hI : Inv s)
    (h : step s (.xchgG t old new) = some s') : Inv s' := by
  simp only [step] at h
  split at h <;> try (simp at h; done)
  next hpc =>
  split at h
  next hc =>
    obtain ⟨hE, hold, hnew⟩ := hc
    have hnewfree : new ≠ 0 → s.ns new = .free := by
      intro h0; rcases hnew with h | h
      · exact absurd h h0
      · exact h
    have hold_in : old ≠ 0 → s.ns old = .inG := fun h0 => (hI.g_ok old).mpr ⟨h0, hold.symm⟩
    -- what the other threads' promises need of the new life-cycle map
    have pcOk_other : ∀ (ns' : Int → NSt) (u : Nat) (p : Pc),
        (∀ n, s.ns n ≠ .free → ns' n ≠ .free) →
        (∀ n w, s.ns n = .retired w → ns' n = .retired w) →
        pcOk s.N s.m s.ns u p → pcOk s.N (s.m.poke cG new) ns' u p := by
      intro ns' u p hfree hret hp
      have hv : (s.m.poke cG new).view u (cSlot u) = s.m.view u (cSlot u) :=
        view_poke_other _ _ _ _ _ (cSlot_ne_cG u)
      have hmm : (s.m.poke cG new).mem (cSlot u) = s.m.mem (cSlot u) := by
        simp [Mem.poke, upd, cSlot_ne_cG]
      cases p <;> simp only [pcOk, hv, hmm, poke_buf] at hp ⊢ <;> try exact hp
      · exact ⟨hp.1, hp.2.1, hp.2.2.1, hp.2.2.2.1, hfree _ hp.2.2.2.2⟩
      · exact ⟨hp.1, hret _ _ hp.2.1, hp.2.2⟩
    split at h
    next hold0 =>
      simp at h; subst h
      constructor
      · exact hI.fen
      · exact hI.cells
      · intro n
        have hg := hI.g_ok n
        simp only [poke_mem, upd_same, ns1_apply]
        by_cases hnn : new ≠ 0 ∧ n = new
        · obtain ⟨h0, rfl⟩ := hnn; simp [h0]
        · simp only [hnn, if_false]
          constructor
          · intro hin; have := hg.mp hin; omega
          · intro ⟨a, b⟩; exfalso; apply hnn; exact ⟨by omega, b.symm⟩
      · intro u
        refine pcOk_other _ u _ ?_ ?_ (hI.pcs u)
        · intro n hn; simp only [ns1_apply]; split <;> simp [hn]
        · intro n w hn; simp only [ns1_apply]; split
          · next h' => obtain ⟨h0, rfl⟩ := h'; rw [hnewfree h0] at hn; cases hn
          · exact hn
      · exact hI.scan_ok
    next hold0 =>
      simp at h; subst h
      have hoi := hold_in hold0
      have hne : new ≠ old := by
        intro h'; subst h'
        rw [hnewfree hold0] at hoi; cases hoi
      constructor
      · exact hI.fen
      · exact hI.cells
      · intro n
        have hg := hI.g_ok n
        simp only [poke_mem, upd_same, setNs_apply, ns1_apply]
        by_cases hno : n = old
        · subst hno; simp; intro _; exact hne
        · simp only [hno, if_false]
          by_cases hnn : new ≠ 0 ∧ n = new
          · obtain ⟨h0, rfl⟩ := hnn; simp [h0]
          · simp only [hnn, if_false]
            constructor
            · intro hin; have := hg.mp hin; exfalso; apply hno; rw [hold]; exact this.2.symm
            · intro ⟨a, b⟩; exfalso; apply hnn; exact ⟨by omega, b.symm⟩
      · intro u
        by_cases hu : u = t
        · subst hu
          simp only [upd_same, pcOk, setNs_apply, if_true]
          exact ⟨hold0, trivial, Nat.zero_le _⟩
        · simp only [upd, hu, if_false]
          refine pcOk_other _ u _ ?_ ?_ (hI.pcs u)
          · intro n hn; simp only [setNs_apply, ns1_apply]; split
            · simp
            · split <;> simp [hn]
          · intro n w hn; simp only [setNs_apply, ns1_apply]
            have h1 : n ≠ old := by intro h'; subst h'; rw [hoi] at hn; cases hn
            simp only [h1, if_false]
            split
            · next h' => obtain ⟨h0, rfl⟩ := h'; rw [hnewfree h0] at hn; cases hn
            · exact hn
      · intro t' p' w i f ht' hw hlt
        simp only [upd] at ht' hw
        have htt : t' ≠ t := by intro h; simp [h] at ht'
        simp only [htt, if_false] at ht'
        by_cases hwt : w = t
        · simp only [hwt, if_true, Pc.wScan.injEq] at hw
          omega
        · simp only [hwt, if_false] at hw
          exact hI.scan_ok t' p' w i f ht' hw hlt
  next => simp at h

theorem inv_reclaim {s s' : St} {t : Nat} {n : Int} (hI : Inv s)
    (h : step s (.reclaim t n) = some s') : Inv s' := by
  simp only [step] at h
  split at h <;> try (simp at h; done)
  next old j f hpc =>
  split at h <;> simp at h
  subst h
  rename_i hc
  obtain ⟨-, hj, hf⟩ := hc
  subst hj; subst hf
  have ho := hI.pcs t; rw [hpc] at ho; simp only [pcOk] at ho
  constructor
  · exact hI.fen
  · exact hI.cells
  · intro k
    simp only [setNs]
    by_cases hk : k = old
    · subst hk; simp
      intro _ hg
      have := (hI.g_ok k).mpr ⟨ho.1, hg⟩
      rw [ho.2.1] at this; cases this
    · simp only [hk, if_false]; exact hI.g_ok k
  · intro u
    by_cases hu : u = t
    · subst hu; simp [pcOk]
    · simp only [upd, hu, if_false]
      have hp := hI.pcs u
      cases hpu : s.pc u <;> rw [hpu] at hp <;> simp only [pcOk] at hp ⊢ <;> try exact hp
      · next p =>
        -- a validated reader of `old` would have been found by the completed scan
        have hne : p ≠ old := by
          intro h'; subst h'
          have := hI.scan_ok u p t s.N false hpu hpc hp.2.1
          cases this
        simp only [setNs, hne, if_false]; exact hp
      · next k i g =>
        have hne : k ≠ old := by
          intro h'; subst h'
          rw [ho.2.1] at hp; simp at hp; exact hu hp.2.1.symm
        simp only [setNs, hne, if_false]; exact hp
  · intro t' p' w i f ht' hw hlt
    simp only [upd] at ht' hw
    have htt : t' ≠ t := by intro h; simp [h] at ht'
    have hwt : w ≠ t := by intro h; simp [h] at hw
    simp only [htt, hwt, if_false] at ht' hw
    exact hI.scan_ok t' p' w i f ht' hw hlt

theorem inv_step {s s' : St} {e : Ev} (hI : Inv s) (h : step s e = some s') : Inv s' := by
  cases e with
  | callAcq t => exact inv_callAcq hI h
  | ldG t v => exact inv_ldG hI h
  | stSlot t v => exact inv_stSlot hI h
  | fence t => exact inv_fence hI h
  | use t p => exact inv_use hI h
  | release t => exact inv_release hI h
  | xchgG t o n => exact inv_xchgG hI h
  | ldSlot t i v => exact inv_ldSlot hI h
  | reclaim t n => exact inv_reclaim hI h
  | keep t n => exact inv_keep hI h
  | flush t => exact inv_flush hI h

theorem inv_of_run {N : Nat} {es : List Ev} {s : St} (h : (sys true N).run es = some s) : Inv s :=
  Sys.inv_of_run (sys true N) Inv (inv_init N) (fun _ _ _ hI hs => inv_step hI hs) h

end LibfiberVerif.HpTso
