/-
  Proof/MultiChanTwoS4.lean — `MultiChan.Inv2` (two-list discipline) is preserved by the events
  of group S4 (one lemma per event; several modules so that they compile in parallel).
-/
import LibfiberVerif.Proof.MultiChanTwo

set_option linter.unusedSimpArgs false
set_option linter.unusedVariables false

namespace LibfiberVerif.MultiChan

set_option maxHeartbeats 8000000 in
theorem inv2_step_rWaiters (s s' : St) (f w : _) (hl : LInv s) (hr : RInv s) (hi : Inv2 s) (hs : step s (.rWaiters f w) = some s') : Inv2 s' := by
  have hI := hi
  have hlh := hr.lowhigh
  obtain ⟨l1, l2, l3, l4, l5, l6, l7⟩ := hl
  obtain ⟨h1, h2, h3, h4, h5, h6, h7, h8, h9, h10, h11, h12, h13, h14, h15, h16, h17, h18, h19, h20, h21, h22, h23, h24, h25, h26, h27, h28, h29, h30, h31, h32, h33, h34, h35, h36, h37, h38, h39, h40⟩ := hi
  simp only [step, h1] at hs
  repeat' (split at hs)
  all_goals (try simp at hs)
  all_goals (try contradiction)
  all_goals (first | subst hs | (obtain ⟨_, hs⟩ := hs; subst hs))
  all_goals (constructor <;> m2_close)

set_option maxHeartbeats 8000000 in
theorem inv2_step_rSWaiters (s s' : St) (f w : _) (hl : LInv s) (hr : RInv s) (hi : Inv2 s) (hs : step s (.rSWaiters f w) = some s') : Inv2 s' := by
  have hI := hi
  have hlh := hr.lowhigh
  obtain ⟨l1, l2, l3, l4, l5, l6, l7⟩ := hl
  obtain ⟨h1, h2, h3, h4, h5, h6, h7, h8, h9, h10, h11, h12, h13, h14, h15, h16, h17, h18, h19, h20, h21, h22, h23, h24, h25, h26, h27, h28, h29, h30, h31, h32, h33, h34, h35, h36, h37, h38, h39, h40⟩ := hi
  simp only [step, h1] at hs
  repeat' (split at hs)
  all_goals (try simp at hs)
  all_goals (try contradiction)
  all_goals (first | subst hs | (obtain ⟨_, hs⟩ := hs; subst hs))
  all_goals (constructor <;> m2_close)

set_option maxHeartbeats 8000000 in
theorem inv2_step_wStateReady (s s' : St) (f g : _) (hl : LInv s) (hr : RInv s) (hi : Inv2 s) (hs : step s (.wStateReady f g) = some s') : Inv2 s' := by
  have hI := hi
  have hlh := hr.lowhigh
  obtain ⟨l1, l2, l3, l4, l5, l6, l7⟩ := hl
  obtain ⟨h1, h2, h3, h4, h5, h6, h7, h8, h9, h10, h11, h12, h13, h14, h15, h16, h17, h18, h19, h20, h21, h22, h23, h24, h25, h26, h27, h28, h29, h30, h31, h32, h33, h34, h35, h36, h37, h38, h39, h40⟩ := hi
  simp only [step, h1] at hs
  repeat' (split at hs)
  all_goals (try simp at hs)
  all_goals (try contradiction)
  all_goals (first | subst hs | (obtain ⟨_, hs⟩ := hs; subst hs))
  all_goals (constructor <;> m2_close)

end LibfiberVerif.MultiChan
