/-
  Proof/SignalProto.lean — invariants of the fiber_signal_t protocol (`Signal.pstep`), shared by
  the token harness (Proof/Signal.lean) and the channels (Proof/Chan.lean).  Property C11.
-/
import LibfiberVerif.Model.Signal

namespace LibfiberVerif.Signal

/-- f has put itself into the word and has not resumed yet -/
def PPc.sleepy (p : PPc) : Prop := p = .casOk ∨ p = .parking ∨ p = .parked

/-- the raiser is about to wake g -/
def PPc.targets (p : PPc) (g : Nat) : Prop := p = .raiseGot g ∨ p = .raiseCleared g ∨ p = .raiseReady g

/-- inside fiber_signal_wait -/
def PPc.inWait (p : PPc) : Prop :=
  p = .waitCalled ∨ p = .wCleared ∨ p = .casFailed ∨ p = .casOk ∨ p = .parking ∨ p = .parked ∨
  p = .resumed ∨ p = .waitDone

structure PInv (s : PSt) : Prop where
  word_sleepy : ∀ f, s.word = .fiber f →
    (s.pc f).sleepy ∧ s.wakes f + 1 = s.parks f ∧ ∀ g, s.waker f ≠ some g
  waker_target : ∀ f g, s.waker f = some g → (s.pc g).targets f
  target_waker : ∀ f g, (s.pc g).targets f → s.waker f = some g
  waker_sleepy : ∀ f g, s.waker f = some g →
    (s.pc f).sleepy ∧ s.wakes f + 1 = s.parks f ∧ s.word ≠ .fiber f
  owed : ∀ f, (s.pc f).sleepy → s.wakes f + 1 = s.parks f →
    s.word = .fiber f ∨ ∃ g, s.waker f = some g
  counts : ∀ f, s.wakes f = s.parks f ∨ ((s.pc f).sleepy ∧ s.wakes f + 1 = s.parks f)
  woken_parked : ∀ f, (s.pc f).sleepy → s.wakes f = s.parks f → s.pc f = .parked
  marker : ∀ f, s.scratch f = true ↔ s.pc f = .parked
  ready_parked : ∀ r g, s.pc r = .raiseReady g → s.pc g = .parked
  waiter_id : ∀ f, (s.pc f).inWait → s.waiterId = some f
  word_id : ∀ f, s.word = .fiber f → s.waiterId = some f
  waker_id : ∀ f g, s.waker f = some g → s.waiterId = some f

theorem pinv_init : PInv pinit := by
  constructor <;> simp [pinit, PPc.sleepy, PPc.targets, PPc.inWait]

local macro "sig_close" : tactic =>
  `(tactic| (constructor <;> (intros; simp only [upd, PPc.sleepy, PPc.targets, PPc.inWait] at *; grind)))

set_option maxHeartbeats 4000000 in
theorem pinv_step (s s' : PSt) (e : PEv) (hi : PInv s) (hs : pstep s e = some s') : PInv s' := by
  obtain ⟨h1, h2, h3, h4, h5, h6, h7, h8, h9, h10, h11, h12⟩ := hi
  cases e with
  | callWait f =>
    simp only [pstep] at hs
    split at hs <;> simp at hs
    subst hs; sig_close
  | callRaise f =>
    simp only [pstep] at hs
    split at hs <;> simp at hs
    subst hs; sig_close
  | casWaiter f found ok =>
    simp only [pstep] at hs
    split at hs <;> simp at hs
    obtain ⟨⟨hf, hok⟩, hs⟩ := hs
    subst hf
    cases ok with
    | false => simp at hs; subst hs; sig_close
    | true => simp at hs hok; subst hs; sig_close
  | xchg f old =>
    simp only [pstep] at hs
    split at hs <;> simp at hs
    obtain ⟨hf, hs⟩ := hs
    subst hf
    split at hs <;> simp at hs <;> subst hs <;> sig_close
  | rScratch f g ready =>
    simp only [pstep] at hs
    split at hs <;> simp at hs
    obtain ⟨⟨hg, hr⟩, hs⟩ := hs
    subst hg hr
    split at hs <;> simp at hs <;> subst hs
    · sig_close
    · exact ⟨h1, h2, h3, h4, h5, h6, h7, h8, h9, h10, h11, h12⟩
  | _ =>
    simp only [pstep] at hs <;> split at hs <;> simp at hs
    all_goals first
      | (subst hs; sig_close)
      | (obtain ⟨hc, hs⟩ := hs; subst hs; sig_close)

theorem pinv_of_run {es : List PEv} {s : PSt} (h : psys.run es = some s) : PInv s :=
  Sys.inv_of_run psys PInv pinv_init (fun s e s' hi hs => pinv_step s s' e hi hs) h

end LibfiberVerif.Signal
