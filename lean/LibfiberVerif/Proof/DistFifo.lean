/-
  Proof/DistFifo.lean — the inductive invariant of Model/DistFifo.lean (dist_fifo.h) and its
  preservation by every step, for any number of popping threads and nodes.

  ABA argument as an invariant (same shape as Proof/Lifo.lean): the counter only grows, so
  "my loaded counter still equals the counter" means no successful CAS2 since the load;
  then the node read AFTER the counter is still the stub, the stub's `next` — once
  non-NULL — is never rewritten while it is the stub (only the single pusher writes `next`
  cells: of its own node, or of `tail`, whose `next` is NULL), and the `data` of the
  successor is not rewritten while it is linked.  A popper whose counter moved may have read
  anything (its node may have been popped, handed back, terminated and linked again); its
  CAS2 then fails even if the head pointer is the same node again.
-/
import LibfiberVerif.Model.DistFifo
import LibfiberVerif.Proof.NodeList

namespace LibfiberVerif.DistFifo
open NodeList

def isPush : Pc → Bool
  | .pushCalled _ => true
  | .pushReady _ => true
  | .pushGotTail _ _ => true
  | .pushZeroed _ _ => true
  | .pushFenced _ _ => true
  | .pushLinked _ => true
  | .pushDone => true
  | _ => false

/-- the node a thread at this pc privately owns -/
def claim : Pc → Option Nat
  | .pushReady n => some n
  | .pushGotTail n _ => some n
  | .pushZeroed n _ => some n
  | .pushFenced n _ => some n
  | .popWon h _ => some h
  | .popWrote h _ => some h
  | _ => none

/-- the pusher's local copy of `tail` -/
def pushTl : Pc → Option Nat
  | .pushGotTail _ tl => some tl
  | .pushZeroed _ tl => some tl
  | .pushFenced _ tl => some tl
  | _ => none

/-- the new node has been terminated -/
def zeroed : Pc → Option Nat
  | .pushZeroed n _ => some n
  | .pushFenced n _ => some n
  | _ => none

def snapC : Pc → Option Nat
  | .popGotCounter c => some c
  | .popFenced c => some c
  | .popGotNode c _ => some c
  | .popGotNext c _ _ => some c
  | .popGotData c _ _ _ => some c
  | _ => none

def snapH : Pc → Option Nat
  | .popGotNode _ h => some h
  | .popGotNext _ h _ => some h
  | .popGotData _ h _ _ => some h
  | _ => none

def snapX : Pc → Option Nat
  | .popGotNext _ _ x => some x
  | .popGotData _ _ x _ => some x
  | _ => none

structure Inv (s : St) : Prop where
  /-- the cells spell the abstract node list: stub first, following `next`, NULL-terminated -/
  chain : Chain s.next s.head s.chain
  ne : s.chain ≠ []
  nodup : s.chain.Nodup
  /-- a node is linked iff nobody owns it -/
  own : ∀ n, n ∈ s.chain ↔ s.owner n = none
  /-- client obligation carried along: only the distinguished thread is ever inside push -/
  pusherOnly : ∀ t, isPush (s.pc t) = true → t = s.pusher
  claimOk : ∀ t n, claim (s.pc t) = some n → n ≠ 0 ∧ s.owner n = some t
  /-- outside the link→tail-store window `tail` is the last node -/
  tailOk : (∀ t n, s.pc t ≠ .pushLinked n) → s.tail ∈ s.chain ∧ s.next s.tail = 0
  linkedOk : ∀ t n, s.pc t = .pushLinked n → n ∈ s.chain ∧ s.next n = 0
  tlOk : ∀ t tl, pushTl (s.pc t) = some tl → tl = s.tail
  zeroOk : ∀ t n, zeroed (s.pc t) = some n → s.next n = 0
  cLe : ∀ t c, snapC (s.pc t) = some c → c ≤ s.counter
  /-- counter unchanged since the read ⇒ the node read afterwards is still the stub -/
  hOk : ∀ t c h, snapC (s.pc t) = some c → snapH (s.pc t) = some h → s.counter = c → s.head = h
  xNZ : ∀ t x, snapX (s.pc t) = some x → x ≠ 0
  /-- … ⇒ the stub's successor is still the one read -/
  xOk : ∀ t c h x, snapC (s.pc t) = some c → snapH (s.pc t) = some h → snapX (s.pc t) = some x →
    s.counter = c → s.next h = x
  /-- … ⇒ the successor's data is still the one read -/
  dOk : ∀ t c h x d, s.pc t = .popGotData c h x d → s.counter = c → s.data x = d
  /-- the ghost linearisation is a legal sequential FIFO history ending in the current content -/
  lin : fifoReplay s.lin = some (s.chain.tail.map s.data)

theorem inv_init (pusher stub : Nat) (own0 : Nat → Nat) (hstub : stub ≠ 0) :
    Inv (init pusher stub own0) := by
  constructor <;> simp [init, isPush, claim, pushTl, zeroed, snapC, snapH, snapX, fifoReplay,
    fifoReplayFrom, hstub]

theorem map_data_upd {l : List Nat} {data : Nat → Nat} {n v : Nat} (hn : n ∉ l) :
    l.map (upd data n v) = l.map data := by
  apply List.map_congr_left
  intro m hm
  have : m ≠ n := fun h => hn (h ▸ hm)
  simp [upd, this]

theorem nolink_of_upd {pc : Nat → Pc} {t : Nat} {new : Pc}
    (h : ∀ t' n, upd pc t new t' ≠ .pushLinked n) (h0 : ∀ n, pc t ≠ .pushLinked n) :
    ∀ t' n, pc t' ≠ .pushLinked n := by
  intro t' n
  by_cases e : t' = t
  · subst e; exact h0 n
  · have := h t' n; simpa [upd, e] using this

theorem head_mem {s : St} (hI : Inv s) : s.head ∈ s.chain ∧ s.head ≠ 0 := by
  have hc := hI.chain
  have hne := hI.ne
  cases hl : s.chain with
  | nil => exact absurd hl hne
  | cons a l => rw [hl] at hc; simp at hc; simp [hc.1, hc.2.1]

/-- with an unchanged counter the successor a popper read is linked right behind the stub -/
theorem succ_mem {s : St} (hI : Inv s) {h x : Nat} (hh : s.head = h) (hx : s.next h = x) (hx0 : x ≠ 0) :
    ∃ l, s.chain = h :: x :: l ∧ Chain s.next (s.next x) l := by
  have hm := head_mem hI
  obtain ⟨l', hl', hc'⟩ := chain_nonzero hI.chain hm.2
  rw [hh] at hl' hc'
  rw [hx] at hc'
  obtain ⟨l'', hl'', hc''⟩ := chain_nonzero hc' hx0
  exact ⟨l'', by rw [hl', hl''], hc''⟩

set_option hygiene false in
/-- goals of the form `∀ t' …, P (upd s.pc t newpc t') → …`: for `t' = t` evaluate the new pc,
    for the other threads the old invariant field applies verbatim -/
macro "pcframe" : tactic => `(tactic|
  (intro t'; simp only [upd]; split
   · (rename_i e; subst e
      try clear hsucc
      try clear hheadmem
      try clear hpush hclaim htail hlinked htl hzero hcle hhok hxnz hxok hdok
      try clear hlin hown hchain hnodup hne
      simp [isPush, claim, pushTl, zeroed, snapC, snapH, snapX] <;> first | assumption | simp_all)
   · first | exact hpush t' | exact hclaim t' | exact hlinked t' | exact htl t' | exact hzero t'
           | exact hcle t' | exact hhok t' | exact hxnz t' | exact hxok t' | exact hdok t'))

set_option hygiene false in
/-- the `tailOk` field when only `pc t` changed and the old pc was not `pushLinked` -/
macro "tailframe" : tactic => `(tactic|
  (intro hno; exact htail (nolink_of_upd hno (by simp [hpc]))))

set_option hygiene false in
macro "pconly" : tactic => `(tactic|
  (constructor <;> (try assumption) <;> first | tailframe | pcframe))

set_option hygiene false in
macro "inv_setup" : tactic => `(tactic| (
  have hheadmem := head_mem hI
  have hsucc := @succ_mem s hI
  obtain ⟨hchain, hne, hnodup, hown, hpush, hclaim, htail, hlinked, htl, hzero, hcle, hhok, hxnz,
    hxok, hdok, hlin⟩ := hI))

theorem step_callPush (s s' : St) (t v : Nat) (hI : Inv s)
    (h : step s (.callPush t v) = some s') : Inv s' := by
  inv_setup
  simp only [step] at h
  split at h <;> simp at h
  rename_i hc; obtain ⟨hpc, _, rfl⟩ := hc
  subst h
  pconly

theorem step_retPush (s s' : St) (t : Nat) (hI : Inv s)
    (h : step s (.retPush t) = some s') : Inv s' := by
  inv_setup
  simp only [step] at h
  split at h <;> simp at h
  rename_i hpc
  subst h
  pconly

theorem step_callPop (s s' : St) (t : Nat) (hI : Inv s)
    (h : step s (.callPop t) = some s') : Inv s' := by
  inv_setup
  simp only [step] at h
  split at h <;> simp at h
  rename_i hpc
  subst h
  pconly

theorem step_retRetry (s s' : St) (t : Nat) (hI : Inv s)
    (h : step s (.retRetry t) = some s') : Inv s' := by
  inv_setup
  simp only [step] at h
  split at h <;> simp at h
  rename_i hpc
  subst h
  pconly

theorem step_retPop (s s' : St) (t v : Nat) (hI : Inv s)
    (h : step s (.retPop t v) = some s') : Inv s' := by
  inv_setup
  simp only [step] at h
  split at h <;> simp at h
  · rename_i v' hpc; obtain ⟨_, rfl⟩ := h; pconly
  · rename_i hpc; obtain ⟨_, rfl⟩ := h; pconly

theorem step_rdTail (s s' : St) (t x : Nat) (hI : Inv s)
    (h : step s (.rdTail t x) = some s') : Inv s' := by
  inv_setup
  simp only [step] at h
  split at h <;> simp at h
  rename_i n hpc
  obtain ⟨rfl, rfl⟩ := h
  have h1 := hclaim t n (by simp [hpc, claim])
  have h2 := hpush t (by simp [hpc, isPush])
  pconly

theorem step_fence (s s' : St) (t k : Nat) (hI : Inv s)
    (h : step s (.fence t k) = some s') : Inv s' := by
  inv_setup
  simp only [step] at h
  split at h <;> simp at h
  · rename_i n tl hpc
    obtain ⟨rfl, rfl⟩ := h
    have h1 := hclaim t n (by simp [hpc, claim])
    have h2 := hpush t (by simp [hpc, isPush])
    have h3 := htl t tl (by simp [hpc, pushTl])
    have h4 := hzero t n (by simp [hpc, zeroed])
    pconly
  · rename_i c hpc
    obtain ⟨rfl, rfl⟩ := h
    have h1 := hcle t c (by simp [hpc, snapC])
    pconly

theorem step_rdCounter (s s' : St) (t c : Nat) (hI : Inv s)
    (h : step s (.rdCounter t c) = some s') : Inv s' := by
  inv_setup
  simp only [step] at h
  split at h <;> simp at h
  rename_i hpc
  obtain ⟨rfl, rfl⟩ := h
  pconly

theorem step_rdNode (s s' : St) (t hd : Nat) (hI : Inv s)
    (h : step s (.rdNode t hd) = some s') : Inv s' := by
  inv_setup
  simp only [step] at h
  split at h <;> simp at h
  rename_i c hpc
  obtain ⟨rfl, rfl⟩ := h
  have h1 := hcle t c (by simp [hpc, snapC])
  pconly

theorem step_rdNext (s s' : St) (t n x : Nat) (hI : Inv s)
    (h : step s (.rdNext t n x) = some s') : Inv s' := by
  inv_setup
  simp only [step] at h
  split at h <;> simp at h
  rename_i c hd hpc
  obtain ⟨⟨rfl, rfl⟩, h⟩ := h
  have h1 := hcle t c (by simp [hpc, snapC])
  have h2 := hhok t c n (by simp [hpc, snapC]) (by simp [hpc, snapH])
  split at h <;> simp at h <;> subst h
  · pconly
  · pconly

theorem step_rdData (s s' : St) (t n v : Nat) (hI : Inv s)
    (h : step s (.rdData t n v) = some s') : Inv s' := by
  inv_setup
  simp only [step] at h
  split at h <;> simp at h
  · rename_i c hd x hpc
    obtain ⟨⟨rfl, rfl⟩, rfl⟩ := h
    have h1 := hcle t c (by simp [hpc, snapC])
    have h2 := hhok t c hd (by simp [hpc, snapC]) (by simp [hpc, snapH])
    have h3 := hxnz t n (by simp [hpc, snapX])
    have h4 := hxok t c hd n (by simp [hpc, snapC]) (by simp [hpc, snapH]) (by simp [hpc, snapX])
    pconly
  · rename_i hd d hpc
    obtain ⟨⟨rfl, rfl⟩, rfl⟩ := h
    pconly

theorem step_wrTail (s s' : St) (t x : Nat) (hI : Inv s)
    (h : step s (.wrTail t x) = some s') : Inv s' := by
  inv_setup
  simp only [step] at h
  split at h <;> simp at h
  rename_i n hpc
  obtain ⟨rfl, rfl⟩ := h
  have h1 := hlinked t x hpc
  have h2 := hpush t (by simp [hpc, isPush])
  constructor <;> (try assumption)
  · pcframe
  · pcframe
  · intro _; exact h1
  · pcframe
  · -- nobody else holds a local copy of tail: only the pusher is inside push
    intro t' tl; simp only [upd]; split
    · simp [pushTl]
    · rename_i hne; intro hp
      have : isPush (s.pc t') = true := by
        cases hq : s.pc t' <;> simp [hq, pushTl] at hp <;> simp [isPush]
      exact absurd ((hpush t' this).trans h2.symm) hne
  · pcframe
  · pcframe
  · pcframe
  · pcframe
  · pcframe
  · pcframe

theorem step_give (s s' : St) (t n : Nat) (hI : Inv s)
    (h : step s (.give t n) = some s') : Inv s' := by
  inv_setup
  simp only [step] at h
  split at h <;> simp at h
  rename_i hc; obtain ⟨hpc, hown_n⟩ := hc
  subst h
  have hnotin : n ∉ s.chain := by
    intro hm; have := (hown n).1 hm; simp [this] at hown_n
  constructor <;> (try assumption)
  · intro m; show m ∈ s.chain ↔ upd s.owner n (some s.pusher) m = none
    simp only [upd]; split
    · rename_i e; subst e; simp [hnotin]
    · exact hown m
  · intro t' m hcl; show _ ∧ upd s.owner n (some s.pusher) m = some t'
    have hc := hclaim t' m hcl
    have : m ≠ n := by
      intro e; subst e
      rw [hown_n] at hc; simp at hc
      have := hc.2; subst this; simp [hpc, claim] at hcl
    simp [upd, this]; exact hc

theorem step_wrData (s s' : St) (t n v : Nat) (hI : Inv s)
    (h : step s (.wrData t n v) = some s') : Inv s' := by
  inv_setup
  simp only [step] at h
  split at h <;> simp at h
  · -- the pusher fills its own node
    rename_i v' hpc
    obtain ⟨⟨rfl, hn0, hown_n⟩, rfl⟩ := h
    have h2 := hpush t (by simp [hpc, isPush])
    have hnotin : n ∉ s.chain := by
      intro hm; have := (hown n).1 hm; simp [this] at hown_n
    constructor <;> (try assumption)
    · pcframe
    · pcframe
    · tailframe
    · pcframe
    · pcframe
    · pcframe
    · pcframe
    · pcframe
    · pcframe
    · pcframe
    · intro t' c h x d hpc' hcnt
      have hne : t' ≠ t := by intro e; subst e; simp [upd] at hpc'
      simp [upd, hne] at hpc'
      have hd := hdok t' c h x d hpc' hcnt
      have hh := hhok t' c h (by simp [hpc', snapC]) (by simp [hpc', snapH]) hcnt
      have hx := hxok t' c h x (by simp [hpc', snapC]) (by simp [hpc', snapH]) (by simp [hpc', snapX]) hcnt
      have hx0 := hxnz t' x (by simp [hpc', snapX])
      obtain ⟨l, hl, _⟩ := hsucc hh hx hx0
      have : x ≠ n := by intro e; subst e; apply hnotin; rw [hl]; simp
      simp [upd, this]; exact hd
    · show fifoReplay s.lin = some (s.chain.tail.map (upd s.data n v))
      rw [map_data_upd (fun hm => hnotin (List.mem_of_mem_tail hm))]; exact hlin
  · -- a popper copies the data into the node it unlinked
    rename_i hd d hpc
    obtain ⟨⟨rfl, rfl⟩, rfl⟩ := h
    have h1 := hclaim t n (by simp [hpc, claim])
    have hnotin : n ∉ s.chain := by
      intro hm; have := (hown n).1 hm; simp [this] at h1
    constructor <;> (try assumption)
    · pcframe
    · pcframe
    · tailframe
    · pcframe
    · pcframe
    · pcframe
    · pcframe
    · pcframe
    · pcframe
    · pcframe
    · intro t' c h x d hpc' hcnt
      have hne : t' ≠ t := by intro e; subst e; simp [upd] at hpc'
      simp [upd, hne] at hpc'
      have hd := hdok t' c h x d hpc' hcnt
      have hh := hhok t' c h (by simp [hpc', snapC]) (by simp [hpc', snapH]) hcnt
      have hx := hxok t' c h x (by simp [hpc', snapC]) (by simp [hpc', snapH]) (by simp [hpc', snapX]) hcnt
      have hx0 := hxnz t' x (by simp [hpc', snapX])
      obtain ⟨l, hl, _⟩ := hsucc hh hx hx0
      have : x ≠ n := by intro e; subst e; apply hnotin; rw [hl]; simp
      simp [upd, this]; exact hd
    · show fifoReplay s.lin = some (s.chain.tail.map (upd s.data n v))
      rw [map_data_upd (fun hm => hnotin (List.mem_of_mem_tail hm))]; exact hlin

theorem step_wrNext (s s' : St) (t m x : Nat) (hI : Inv s)
    (h : step s (.wrNext t m x) = some s') : Inv s' := by
  inv_setup
  simp only [step] at h
  split at h <;> simp at h
  · -- terminate the new node
    rename_i n tl hpc
    obtain ⟨⟨rfl, rfl⟩, rfl⟩ := h
    have h1 := hclaim t m (by simp [hpc, claim])
    have h2 := hpush t (by simp [hpc, isPush])
    have h3 := htl t tl (by simp [hpc, pushTl])
    have hnotin : m ∉ s.chain := by
      intro hm; have := (hown m).1 hm; simp [this] at h1
    constructor <;> (try assumption)
    · exact chain_upd_notin hnotin hchain
    · pcframe
    · pcframe
    · intro hno
      have := htail (nolink_of_upd hno (by simp [hpc]))
      have hne : s.tail ≠ m := fun e => hnotin (e ▸ this.1)
      exact ⟨this.1, by simp [upd, hne]; exact this.2⟩
    · intro t' n' hpc'
      have hne : t' ≠ t := by intro e; subst e; simp [upd] at hpc'
      simp [upd, hne] at hpc'
      have := hpush t' (by simp [hpc', isPush])
      exact absurd (this.trans h2.symm) hne
    · pcframe
    · intro t' n'; simp only [upd]; split
      · intro hz; simp [zeroed] at hz; subst hz; simp
      · rename_i hne; intro hz
        have : isPush (s.pc t') = true := by
          cases hq : s.pc t' <;> simp [hq, zeroed] at hz <;> simp [isPush]
        exact absurd ((hpush t' this).trans h2.symm) hne
    · pcframe
    · pcframe
    · pcframe
    · intro t' c h x hc hh hx hcnt
      have hne : t' ≠ t := by intro e; subst e; simp [upd, snapC] at hc
      simp [upd, hne] at hc hh hx
      have hxx := hxok t' c h x hc hh hx hcnt
      have hhh := hhok t' c h hc hh hcnt
      have : h ≠ m := by intro e; subst e; apply hnotin; rw [← hhh]; exact hheadmem.1
      simp [upd, this]; exact hxx
    · pcframe
  · -- link it behind tail: the linearisation point of push
    rename_i n tl hpc
    obtain ⟨⟨rfl, rfl⟩, rfl⟩ := h
    have h1 := hclaim t x (by simp [hpc, claim])
    have h2 := hpush t (by simp [hpc, isPush])
    have h3 := htl t m (by simp [hpc, pushTl])
    have h4 := hzero t x (by simp [hpc, zeroed])
    have hnotin : x ∉ s.chain := by
      intro hm; have := (hown x).1 hm; simp [this] at h1
    have hnol : ∀ t' n', s.pc t' ≠ .pushLinked n' := by
      intro t' n' hq
      have := hpush t' (by simp [hq, isPush])
      rw [this, ← h2, hpc] at hq; simp at hq
    have htm := htail hnol
    rw [← h3] at htm
    have hmx : x ≠ m := fun e => hnotin (e ▸ htm.1)
    constructor
    · exact chain_link hchain htm.1 htm.2 hnotin h1.1 h4
    · show s.chain ++ [x] ≠ []; simp
    · show (s.chain ++ [x]).Nodup
      rw [List.nodup_append]; simp [hnodup]; intro a ha e; subst e; exact hnotin ha
    · intro k; show k ∈ s.chain ++ [x] ↔ upd s.owner x none k = none
      simp only [upd]; split
      · rename_i e; subst e; simp
      · rename_i hne; simp [hne, hown k]
    · pcframe
    · intro t' k; simp only [upd]; split
      · simp [claim]
      · rename_i hne; intro hcl
        have hc := hclaim t' k hcl
        have : k ≠ x := by
          intro e; subst e; rw [h1.2] at hc; simp at hc; exact hne hc.2.symm
        simp [this]; exact hc
    · intro hno; have := hno t x; simp [upd] at this
    · intro t' n' hpc'
      by_cases hne : t' = t
      · subst hne; simp [upd] at hpc'; rw [← hpc']
        show x ∈ s.chain ++ [x] ∧ upd s.next m x x = 0
        simp [upd, hmx]; exact h4
      · simp [upd, hne] at hpc'
        exact absurd hpc' (hnol t' n')
    · pcframe
    · intro t' n'; simp only [upd]; split
      · simp [zeroed]
      · rename_i hne; intro hz
        have : isPush (s.pc t') = true := by
          cases hq : s.pc t' <;> simp [hq, zeroed] at hz <;> simp [isPush]
        exact absurd ((hpush t' this).trans h2.symm) hne
    · pcframe
    · pcframe
    · pcframe
    · intro t' c h x' hc hh hx hcnt
      have hne : t' ≠ t := by intro e; subst e; simp [upd, snapC] at hc
      simp [upd, hne] at hc hh hx
      have hxx := hxok t' c h x' hc hh hx hcnt
      have hx0 := hxnz t' x' hx
      have : h ≠ m := by intro e; subst e; rw [htm.2] at hxx; exact hx0 hxx.symm
      simp [upd, this]; exact hxx
    · pcframe
    · show fifoReplay (s.lin ++ [.enq (s.data x)]) = some ((s.chain ++ [x]).tail.map s.data)
      rw [fifoReplay_snoc, hlin]
      cases hl : s.chain with
      | nil => exact absurd hl hne
      | cons a l => simp [fifoStep]

theorem step_cas2 (s s' : St) (t el eh nl nh : Nat) (ok : Bool) (hI : Inv s)
    (h : step s (.cas2 t el eh nl nh ok) = some s') : Inv s' := by
  inv_setup
  simp only [step] at h
  split at h
  · rename_i c hd x d hpc
    split at h
    case isFalse => simp at h
    rename_i hcond
    obtain ⟨rfl, rfl, rfl, rfl, hok⟩ := hcond
    have h1 := hcle t el (by simp [hpc, snapC])
    split at h <;> simp at h <;> subst h
    · -- success: counter unchanged since the read
      rename_i hoktrue
      simp [hoktrue] at hok
      obtain ⟨hc, hh⟩ := hok
      have hx := hxok t el eh nh (by simp [hpc, snapC]) (by simp [hpc, snapH]) (by simp [hpc, snapX]) hc
      have hx0 := hxnz t nh (by simp [hpc, snapX])
      have hd := hdok t el eh nh d hpc hc
      obtain ⟨l, hl, hcl⟩ := hsucc hh hx hx0
      have hnd : (eh ≠ nh ∧ eh ∉ l) ∧ nh ∉ l ∧ l.Nodup := by rw [hl] at hnodup; simpa using hnodup
      have heh0 : eh ≠ 0 := by rw [← hh]; exact hheadmem.2
      have hnotail : ∀ k, k ∈ s.chain → s.next k = 0 → k ∈ s.chain.tail := by
        intro k hk hk0
        rw [hl] at hk ⊢
        simp at hk ⊢
        rcases hk with e | e
        · subst e; rw [hx] at hk0; exact absurd hk0 hx0
        · exact e
      constructor
      · show Chain s.next nh s.chain.tail
        rw [hl]; simp; exact ⟨hx0, hcl⟩
      · show s.chain.tail ≠ []; rw [hl]; simp
      · show s.chain.tail.Nodup; rw [hl]; simp [hnd.2.1, hnd.2.2]
      · intro k; show k ∈ s.chain.tail ↔ upd s.owner eh (some t) k = none
        rw [hl]; simp only [upd, List.tail_cons]; split
        · rename_i e; subst e; simp [hnd.1.1, hnd.1.2]
        · rename_i hne; rw [← hown k, hl]; simp [hne]
      · pcframe
      · intro t' k; simp only [upd]; split
        · rename_i e; subst e; simp [claim]; intro e; subst e; simp [heh0]
        · intro hcl'; have hcm := hclaim t' k hcl'
          have : k ≠ eh := by
            intro e; subst e
            have := (hown k).1 (by rw [hl]; simp)
            rw [this] at hcm; simp at hcm
          simp [this]; exact hcm
      · intro hno
        have := htail (nolink_of_upd hno (by simp [hpc]))
        exact ⟨hnotail _ this.1 this.2, this.2⟩
      · intro t' n'; simp only [upd]; split
        · simp
        · intro hq; have := hlinked t' n' hq
          exact ⟨hnotail _ this.1 this.2, this.2⟩
      · pcframe
      · pcframe
      · intro t' c'; simp only [upd]; split
        · simp [snapC]
        · intro hs; have := hcle t' c' hs; show c' ≤ el + 1; omega
      · intro t' c' h'; simp only [upd]; split
        · simp [snapC]
        · intro hs _ hcnt; have := hcle t' c' hs
          have : el + 1 = c' := hcnt
          omega
      · pcframe
      · intro t' c' h' x'; simp only [upd]; split
        · simp [snapC]
        · intro hs _ _ hcnt; have := hcle t' c' hs
          have : el + 1 = c' := hcnt
          omega
      · intro t' c' h' x' d'; simp only [upd]; split
        · simp
        · intro hq hcnt; have := hcle t' c' (by simp [hq, snapC])
          have : el + 1 = c' := hcnt
          omega
      · show fifoReplay (s.lin ++ [.deq (s.data nh)]) = some (s.chain.tail.tail.map s.data)
        rw [fifoReplay_snoc, hlin, hl]; simp [fifoStep]
    · pconly
  · simp at h

theorem inv_step (s s' : St) (e : Ev) (hI : Inv s) (h : step s e = some s') : Inv s' := by
  cases e with
  | callPush t v => exact step_callPush s s' t v hI h
  | retPush t => exact step_retPush s s' t hI h
  | callPop t => exact step_callPop s s' t hI h
  | retRetry t => exact step_retRetry s s' t hI h
  | retPop t v => exact step_retPop s s' t v hI h
  | rdTail t x => exact step_rdTail s s' t x hI h
  | fence t k => exact step_fence s s' t k hI h
  | rdCounter t c => exact step_rdCounter s s' t c hI h
  | rdNode t hd => exact step_rdNode s s' t hd hI h
  | rdNext t n x => exact step_rdNext s s' t n x hI h
  | rdData t n v => exact step_rdData s s' t n v hI h
  | wrTail t x => exact step_wrTail s s' t x hI h
  | give t n => exact step_give s s' t n hI h
  | wrData t n v => exact step_wrData s s' t n v hI h
  | wrNext t m x => exact step_wrNext s s' t m x hI h
  | cas2 t el eh nl nh ok => exact step_cas2 s s' t el eh nl nh ok hI h

theorem inv_of_run {pusher stub : Nat} {own0 : Nat → Nat} (hstub : stub ≠ 0) {es : List Ev} {s : St}
    (h : (sys pusher stub own0).run es = some s) : Inv s :=
  Sys.inv_of_run (sys pusher stub own0) Inv (inv_init pusher stub own0 hstub)
    (fun s e s' hI hs => inv_step s s' e hI hs) h

/-! ### the counter counts the successful CAS2s -/

def casOk : Ev → Bool
  | .cas2 _ _ _ _ _ true => true
  | _ => false

theorem counter_step {s s' : St} {e : Ev} (h : step s e = some s') :
    s'.counter = s.counter + (if casOk e then 1 else 0) := by
  cases e <;> simp only [step] at h
  case cas2 t el eh nl nh ok =>
    split at h
    · split at h
      · rename_i hc; obtain ⟨rfl, rfl, rfl, rfl, hok⟩ := hc
        split at h <;> simp at h <;> subst h
        · rename_i hoktrue; subst hoktrue; simp at hok; simp [casOk, hok.1]
        · rename_i hokf; simp at hokf; subst hokf; simp [casOk]
      · simp at h
    · simp at h
  all_goals (repeat' split at h) <;> simp at h <;> (try obtain ⟨_, h⟩ := h) <;> (try subst h) <;> simp [casOk]

theorem counter_counts {pusher stub : Nat} {own0 : Nat → Nat} {es : List Ev} {s : St}
    (h : (sys pusher stub own0).run es = some s) : s.counter = (es.filter casOk).length := by
  refine Sys.hist_inv_of_run (sys pusher stub own0) (fun s es => s.counter = (es.filter casOk).length) ?_ ?_ h
  · simp [sys, init]
  · intro s es e s' hI hs
    have := counter_step (s := s) (s' := s') (e := e) hs
    rw [this, hI, List.filter_append, List.length_append]
    cases hc : casOk e <;> simp [List.filter, hc]

/-! ### the snapshot a popper holds is the one of its LAST counter read -/

theorem snapC_step {s s' : St} {e : Ev} {t : Nat} (h : step s e = some s')
    (hne : ∀ c, e ≠ .rdCounter t c) :
    ∀ c, snapC (s'.pc t) = some c → snapC (s.pc t) = some c := by
  intro c0
  cases e <;> simp only [step] at h
  case rdCounter t1 c1 =>
    have ht : t1 ≠ t := by intro e; subst e; exact hne c1 rfl
    (repeat' split at h) <;> simp at h <;> obtain ⟨_, rfl⟩ := h <;> simp [upd, Ne.symm ht]
  case give t1 n1 =>
    (repeat' split at h) <;> simp at h <;> subst h <;> simp
  all_goals
    (repeat' split at h) <;> simp at h <;> (try obtain ⟨_, h⟩ := h) <;> (try subst h) <;>
      simp only [upd] <;> split <;> (try rename_i e; subst e) <;> simp_all [snapC]

theorem snapC_runFrom {pusher stub : Nat} {own0 : Nat → Nat} {post : List Ev} {s s' : St} {t c : Nat}
    (h : (sys pusher stub own0).runFrom s post = some s')
    (hne : ∀ e ∈ post, ∀ c', e ≠ .rdCounter t c')
    (h0 : ∀ c', snapC (s.pc t) = some c' → c' = c) :
    ∀ c', snapC (s'.pc t) = some c' → c' = c := by
  induction post generalizing s with
  | nil => simp [Sys.runFrom] at h; subst h; exact h0
  | cons e post ih =>
    simp only [Sys.runFrom] at h
    cases hs : (sys pusher stub own0).step s e with
    | none => simp [hs] at h
    | some s1 =>
      simp [hs] at h
      apply ih h (fun e' he' => hne e' (by simp [he']))
      intro c' hc'
      exact h0 c' (snapC_step (t := t) hs (hne e (by simp)) c' hc')

/-- `cas2_success_means_unchanged`, trace form: if popper `t`'s CAS2 succeeds, NO successful
    CAS2 happened since `t`'s last counter read, and the compared counter is the one read. -/
theorem cas2_success_unchanged {pusher stub : Nat} {own0 : Nat → Nat} {pre post : List Ev}
    {t c el eh nl nh : Nat} {s s' : St}
    (hrun : (sys pusher stub own0).run (pre ++ [Ev.rdCounter t c] ++ post) = some s)
    (hlast : ∀ e ∈ post, ∀ c', e ≠ Ev.rdCounter t c')
    (hcas : step s (.cas2 t el eh nl nh true) = some s') :
    el = c ∧ s.counter = c ∧ s.head = eh ∧ ∀ e ∈ post, casOk e = false := by
  have hrun' := hrun
  simp only [Sys.run, Sys.runFrom_append] at hrun'
  cases h1 : (sys pusher stub own0).runFrom (sys pusher stub own0).init pre with
  | none => simp [h1] at hrun'
  | some s1 =>
    simp [h1, Sys.runFrom] at hrun'
    cases h2 : (sys pusher stub own0).step s1 (Ev.rdCounter t c) with
    | none => simp [h2] at hrun'
    | some s2 =>
      simp [h2] at hrun'
      have hc1 : c = s1.counter ∧ snapC (s2.pc t) = some c := by
        simp only [sys, step] at h2
        (repeat' split at h2) <;> simp at h2 <;> subst h2 <;> simp_all [upd, snapC]
      have hcnt1 := counter_counts (es := pre) (s := s1) h1
      have hcnt := counter_counts hrun
      have hsnap := snapC_runFrom (c := c) hrun' hlast (by intro c' hc'; rw [hc1.2] at hc'; simpa using hc'.symm)
      have hcas' := hcas
      simp only [step] at hcas'
      have key : el = c ∧ s.counter = el ∧ s.head = eh := by
        split at hcas'
        · rename_i c0 h0 x0 d0 hpc
          have := hsnap c0 (by simp [hpc, snapC])
          split at hcas'
          · rename_i hc; obtain ⟨rfl, rfl, _, _, hok⟩ := hc; simp at hok; exact ⟨this, hok.1, hok.2⟩
          · simp at hcas'
        · simp at hcas'
      obtain ⟨rfl, hk2, hk3⟩ := key
      refine ⟨rfl, hk2, hk3, ?_⟩
      have hlen : (post.filter casOk).length = 0 := by
        have e1 : s.counter = s1.counter := hk2.trans hc1.1
        have e2 : ((pre ++ [Ev.rdCounter t el] ++ post).filter casOk).length
            = (pre.filter casOk).length + (post.filter casOk).length := by
          simp [List.filter_append, casOk]
        omega
      intro e he
      cases hce : casOk e with
      | false => rfl
      | true =>
        have : e ∈ post.filter casOk := List.mem_filter.2 ⟨he, hce⟩
        have := List.length_pos_of_mem this
        omega

/-! ### consequences -/

/-- a successful CAS2 unlinks the node that is the stub AT THE CAS INSTANT, the value it read
    from the successor is the FIRST queued value, the successor becomes the stub, and the
    old stub goes to the popping thread alone -/
theorem pop_cas_success {s s' : St} {t c h x d el eh nl nh : Nat} (hI : Inv s)
    (hpc : s.pc t = .popGotData c h x d) (hcas : step s (.cas2 t el eh nl nh true) = some s') :
    s.counter = c ∧ s.head = h ∧ s.next h = x ∧ s.data x = d ∧ s.chain = h :: s'.chain ∧
      s'.chain.head? = some x ∧ s'.head = x ∧ s'.owner h = some t ∧ s'.lin = s.lin ++ [.deq d] := by
  simp only [step, hpc] at hcas
  split at hcas
  · rename_i hc; obtain ⟨rfl, rfl, rfl, rfl, hok⟩ := hc
    simp at hok hcas; subst hcas
    have hx := hI.xOk t el eh nh (by simp [hpc, snapC]) (by simp [hpc, snapH]) (by simp [hpc, snapX]) hok.1
    have hx0 := hI.xNZ t nh (by simp [hpc, snapX])
    have hd := hI.dOk t el eh nh d hpc hok.1
    obtain ⟨l, hl, _⟩ := succ_mem hI hok.2 hx hx0
    refine ⟨hok.1, hok.2, hx, hd, ?_, ?_, rfl, by simp [upd], by simp [hd]⟩
    · show s.chain = eh :: s.chain.tail
      rw [hl]; rfl
    · show s.chain.tail.head? = some nh
      rw [hl]; rfl
  · simp at hcas

/-- EMPTY is justified WHEN the counter has not moved since the popper read it: then the node
    it read is the stub and the stub has no successor, i.e. the fifo holds no value -/
theorem empty_justified {s s' : St} {t c h : Nat} (hI : Inv s)
    (hpc : s.pc t = .popGotNode c h) (hrd : step s (.rdNext t h 0) = some s') (hcnt : s.counter = c) :
    s.chain = [h] := by
  simp only [step, hpc] at hrd
  split at hrd
  · rename_i hc
    have hh := hI.hOk t c h (by simp [hpc, snapC]) (by simp [hpc, snapH]) hcnt
    have hm := head_mem hI
    obtain ⟨l', hl', hc'⟩ := chain_nonzero hI.chain hm.2
    rw [hh] at hl' hc'
    rw [← hc.2] at hc'
    rw [hl', chain_zero hc']
  · simp at hrd

/-- FIFO bookkeeping: the values dequeued so far (in CAS2 order) followed by the values still
    linked behind the stub are exactly the values enqueued (in link order) -/
theorem fifo_prefix {s : St} (hI : Inv s) :
    enqs s.lin = deqs s.lin ++ s.chain.tail.map s.data := by
  have := fifoReplayFrom_prefix hI.lin
  simpa using this

end LibfiberVerif.DistFifo
