/-
  Proof/JoinL2a.lean — preservation of layer 2 (first half) (generated layout: one theorem per conjunct of the invariant of Proof/JoinBase.lean,
  each by case analysis on the event and the acting fiber's program counter, then `grind`;
  the hypotheses of each theorem are exactly the conjuncts it depends on)
-/
import LibfiberVerif.Proof.JoinBase

set_option linter.unusedSimpArgs false
set_option linter.unusedVariables false

namespace LibfiberVerif.Join

variable {s s1 : St} {e : Ev}

set_option maxHeartbeats 4000000 in
theorem inv2_k3 (k3 : ∀ g a, untainted s g → claimPath (s.pc a) g = true → (s.det g ≠ WFJ ∨ s.finTook g = true)) (cpn : ∀ a g, claimPath (s.pc a) g = true → s.det g ≠ NONE) (dr : ∀ g, s.det g ≤ 3) (wfj : ∀ g, s.det g = WFJ → finX (s.pc g) = true) (hc : stepCore s e = some s1) : ∀ g a, untainted s1 g → claimPath (s1.pc a) g = true → (s1.det g ≠ WFJ ∨ s1.finTook g = true) := by
  step_cases e with hc
  all_goals (intros; (try simp only [upd_apply, WFJ, DET, NONE, WTJ, untainted] at *); first | grind | grind (splits := 25) | grind (splits := 80) | ((repeat' split) <;> grind (splits := 80)))

set_option maxHeartbeats 4000000 in
theorem inv2_k4 (k4 : ∀ g, untainted s g → s.succ g ≠ [] → (s.det g ≠ WFJ ∨ s.finTook g = true)) (k3 : ∀ g a, untainted s g → claimPath (s.pc a) g = true → (s.det g ≠ WFJ ∨ s.finTook g = true)) (scn : ∀ g, s.succ g ≠ [] → s.det g ≠ NONE) (dr : ∀ g, s.det g ≤ 3) (wfj : ∀ g, s.det g = WFJ → finX (s.pc g) = true) (hc : stepCore s e = some s1) : ∀ g, untainted s1 g → s1.succ g ≠ [] → (s1.det g ≠ WFJ ∨ s1.finTook g = true) := by
  step_cases e with hc
  all_goals (intros; (try simp only [upd_apply, WFJ, DET, NONE, WTJ, untainted] at *); first | grind | grind (splits := 25) | grind (splits := 80) | ((repeat' split) <;> grind (splits := 80)))

set_option maxHeartbeats 4000000 in
theorem inv2_k5 (k5 : ∀ g p, untainted s g → joinerPark (s.pc p) g = true → (s.det g = WTJ ∨ (s.det g = WFJ ∧ s.finTook g = true))) (cpn : ∀ a g, claimPath (s.pc a) g = true → s.det g ≠ NONE) (hc : stepCore s e = some s1) : ∀ g p, untainted s1 g → joinerPark (s1.pc p) g = true → (s1.det g = WTJ ∨ (s1.det g = WFJ ∧ s1.finTook g = true)) := by
  step_cases e with hc
  all_goals (intros; (try simp only [upd_apply, WFJ, DET, NONE, WTJ, untainted] at *); first | grind | grind (splits := 25) | grind (splits := 80) | ((repeat' split) <;> grind (splits := 80)))

set_option maxHeartbeats 4000000 in
theorem inv2_uq (uq : ∀ g a a', untainted s g → claimPath (s.pc a) g = true → claimPath (s.pc a') g = true → a = a') (cpn : ∀ a g, claimPath (s.pc a) g = true → s.det g ≠ NONE) (k3 : ∀ g a, untainted s g → claimPath (s.pc a) g = true → (s.det g ≠ WFJ ∨ s.finTook g = true)) (hc : stepCore s e = some s1) : ∀ g a a', untainted s1 g → claimPath (s1.pc a) g = true → claimPath (s1.pc a') g = true → a = a' := by
  step_cases e with hc
  all_goals (intros; (try simp only [upd_apply, WFJ, DET, NONE, WTJ, untainted] at *); first | grind | grind (splits := 25) | grind (splits := 80) | ((repeat' split) <;> grind (splits := 80)))

set_option maxHeartbeats 4000000 in
theorem inv2_sq (sq : ∀ g a, untainted s g → s.succ g ≠ [] → claimPath (s.pc a) g = false) (uq : ∀ g a a', untainted s g → claimPath (s.pc a) g = true → claimPath (s.pc a') g = true → a = a') (scn : ∀ g, s.succ g ≠ [] → s.det g ≠ NONE) (k4 : ∀ g, untainted s g → s.succ g ≠ [] → (s.det g ≠ WFJ ∨ s.finTook g = true)) (hc : stepCore s e = some s1) : ∀ g a, untainted s1 g → s1.succ g ≠ [] → claimPath (s1.pc a) g = false := by
  step_cases e with hc
  all_goals (intros; (try simp only [upd_apply, WFJ, DET, NONE, WTJ, untainted] at *); first | grind | grind (splits := 25) | grind (splits := 80) | ((repeat' split) <;> grind (splits := 80)))

set_option maxHeartbeats 4000000 in
theorem inv2_sl (sl : ∀ g, untainted s g → (s.succ g).length ≤ 1) (sq : ∀ g a, untainted s g → s.succ g ≠ [] → claimPath (s.pc a) g = false) (hc : stepCore s e = some s1) : ∀ g, untainted s1 g → (s1.succ g).length ≤ 1 := by
  step_cases e with hc
  all_goals (intros; (try simp only [upd_apply, WFJ, DET, NONE, WTJ, untainted] at *); first | grind | grind (splits := 25) | grind (splits := 80) | ((repeat' split) <;> grind (splits := 80)))

set_option maxHeartbeats 4000000 in
theorem inv2_cv1 (cv1 : ∀ g p, untainted s g → s.pc p = .jWoken g → s.retval g = some (s.res p)) (gv : ∀ g p, s.pc g = .fGave p → s.retval g = some (s.res p)) (hf : (∀ a p, s.pc a = .fGot p → s.holder p = some a ∧ s.pc p = .jParked a) ∧ (∀ a p v, s.pc a = .fGotRes p v → s.holder p = some a ∧ s.pc p = .jParked a) ∧ (∀ a p, s.pc a = .fGave p → s.holder p = some a ∧ s.pc p = .jParked a)) (hw : ∀ a op g v p, s.pc a = .wake op g v p → s.holder p = some a ∧ parkedIn (s.pc p) p g = true) (uq : ∀ g a a', untainted s g → claimPath (s.pc a) g = true → claimPath (s.pc a') g = true → a = a') (hc : stepCore s e = some s1) : ∀ g p, untainted s1 g → s1.pc p = .jWoken g → s1.retval g = some (s1.res p) := by
  step_cases e with hc
  all_goals (intros; (try simp only [upd_apply, WFJ, DET, NONE, WTJ, untainted] at *); first | grind | grind (splits := 25) | grind (splits := 80) | ((repeat' split) <;> grind (splits := 80)))

set_option maxHeartbeats 4000000 in
theorem inv2_cv2 (cv2 : ∀ g p v, untainted s g → s.pc p = .jGotRes g v → s.retval g = some v) (cv1 : ∀ g p, untainted s g → s.pc p = .jWoken g → s.retval g = some (s.res p)) (hc : stepCore s e = some s1) : ∀ g p v, untainted s1 g → s1.pc p = .jGotRes g v → s1.retval g = some v := by
  step_cases e with hc
  all_goals (intros; (try simp only [upd_apply, WFJ, DET, NONE, WTJ, untainted] at *); first | grind | grind (splits := 25) | grind (splits := 80) | ((repeat' split) <;> grind (splits := 80)))

set_option maxHeartbeats 4000000 in
theorem inv2_cv3 (cv3 : ∀ g a op v, untainted s g → s.pc a = .retn op g true v → op ≠ .detach → s.retval g = some v) (cv2 : ∀ g p v, untainted s g → s.pc p = .jGotRes g v → s.retval g = some v) (cv1 : ∀ g p, untainted s g → s.pc p = .jWoken g → s.retval g = some (s.res p)) (wv : ∀ a op g v p, s.pc a = .wake op g v p → op ≠ .detach → s.retval g = some v) (hc : stepCore s e = some s1) : ∀ g a op v, untainted s1 g → s1.pc a = .retn op g true v → op ≠ .detach → s1.retval g = some v := by
  step_cases e with hc
  all_goals (intros; (try simp only [upd_apply, WFJ, DET, NONE, WTJ, untainted] at *); first | grind | grind (splits := 25) | grind (splits := 80) | ((repeat' split) <;> grind (splits := 80)))

end LibfiberVerif.Join
