/-
  Proof/WsdTso.lean — the inductive invariant of the deque on TSO with the seq_cst store
  (`Model/WsdTso.lean`, `fenced = true`).

  Only the owner stores, so only the owner's buffer is ever non-empty; the thieves read memory,
  i.e. some PARTIAL DRAIN of the owner's buffer.  `ViewOk` is what every partial drain `μ`
  (with `suf` still buffered behind it) satisfies:
    * its `bottom` is at most the ghost end `hb` of the logical contents;
    * for every index in `[top, μ bottom)` the slot already holds the value of that index
      (FIFO: a push's slot write drains before its `bottom` store);
    * every slot write still buffered behind it is for an index `i ≥ μ bottom`, `i ≥ top`,
      `i < wf` (so it cannot clobber a slot a thief is entitled to read).
  The fence enters in exactly one place: at pop_bottom's load of `top` the buffer is empty, so
  memory `bottom` IS the lowered value and the owner's decision (`t < b`: take without CAS) is
  based on a `top` that no thief can move past `b` any more.
-/
import LibfiberVerif.Model.WsdTso
import LibfiberVerif.Proof.Tso
import LibfiberVerif.Proof.Wsd

namespace LibfiberVerif.WsdTso
open LibfiberVerif.Tso
open LibfiberVerif.Wsd (Res seg seg_snoc seg_congr perm_snoc_move)

/-! ### cells -/

theorem cSlot_ne_top (n : Nat) (i : Int) : cSlot n i ≠ cTop := by simp [cSlot, cTop]
theorem cSlot_ne_bot (n : Nat) (i : Int) : cSlot n i ≠ cBot := by simp [cSlot, cBot]; omega
theorem cBot_ne_top : cBot ≠ cTop := by simp [cBot, cTop]

/-- two logical indices less than one array size apart occupy different slots -/
theorem cSlot_inj {n : Nat} {i j : Int} (h : cSlot n i = cSlot n j) (h1 : i ≤ j) (h2 : j - i < n) :
    i = j := by
  have hn : (0 : Int) < n := by omega
  have hn0 : (n : Int) ≠ 0 := by omega
  have hi := Int.emod_nonneg i hn0
  have hj := Int.emod_nonneg j hn0
  have he : i % (n : Int) = j % (n : Int) := by
    simp only [cSlot, pslot] at h; omega
  have hz : (j - i) % (n : Int) = 0 := Int.emod_eq_emod_iff_emod_sub_eq_zero.mp he.symm
  have := Int.emod_eq_of_lt (a := j - i) (b := n) (by omega) h2
  omega

theorem cSlot_ne {n : Nat} {i j : Int} (h1 : i < j) (h2 : j - i < n) : cSlot n i ≠ cSlot n j := by
  intro h; have := cSlot_inj h (by omega) h2; omega

/-! ### the invariant -/

/-- what every partial drain `μ` of the owner's buffer satisfies, `suf` being still buffered -/
def ViewOk (n : Nat) (T H W : Int) (vals : Int → Int) (μ : Nat → Int) (suf : Buf) : Prop :=
  μ cBot ≤ H ∧
  (∀ i, T ≤ i → i < μ cBot → μ (cSlot n i) = vals i) ∧
  (∀ c v, (c, v) ∈ suf → c ≠ cBot →
    ∃ i, T ≤ i ∧ μ cBot ≤ i ∧ i < W ∧ c = cSlot n i ∧ v = vals i)

/-- what the owner's program counter promises -/
def ownerOk (n : Nat) (m : Mem) (H W : Int) (vals : Int → Int) : Pc → Prop
  | .idle | .pushCalled _ | .pushDone | .popCalled => m.view 0 cBot = H ∧ W = H
  | .pushGotB _ b => b = H ∧ m.view 0 cBot = H ∧ W = H
  | .pushPut _ b => b = H ∧ m.view 0 cBot = H ∧ W = H ∧ b + 1 ≤ m.mem cTop + n
  | .pushWritten v b => b = H ∧ m.view 0 cBot = H ∧ W = H + 1 ∧ vals b = v
  | .popGotB b => b + 1 = H ∧ m.view 0 cBot = H ∧ W = H
  | .popStored b => m.view 0 cBot = b ∧ H = b + 1 ∧ W = H
  | .popEmpty t => m.buf 0 = [] ∧ H = t ∧ m.mem cTop = t ∧ m.mem cBot + 1 = H ∧ W = H
  | .popTake b t => m.buf 0 = [] ∧ m.mem cBot = b ∧ t ≤ m.mem cTop ∧ W = H ∧
      ((t < b ∧ H = b ∧ m.mem (cSlot n b) = vals b) ∨ (t = b ∧ H = b + 1))
  | .popRead b t x => m.buf 0 = [] ∧ t = b ∧ m.mem cBot = b ∧ H = b + 1 ∧ W = H ∧ t ≤ m.mem cTop ∧
      (m.mem cTop = t → x = vals b)
  | .popCased t _ => m.buf 0 = [] ∧ m.mem cBot = t ∧ H = t + 1 ∧ m.mem cTop = H ∧ W = H
  | .popDone _ => m.view 0 cBot = H ∧ W = H
  | _ => False

/-- what a thief's program counter promises: if `top` still is what I loaded, then … -/
def thiefOk (n : Nat) (m : Mem) (H : Int) (vals : Int → Int) : Pc → Prop
  | .idle | .stealCalled | .stealDone _ => True
  | .stealGotT t => t ≤ m.mem cTop
  | .stealTake t => t ≤ m.mem cTop ∧
      (m.mem cTop = t → t < H ∧ m.mem (cSlot n t) = vals t ∧ ∀ e ∈ m.buf 0, e.1 ≠ cSlot n t)
  | .stealRead t x => t ≤ m.mem cTop ∧
      (m.mem cTop = t → t < H ∧ x = vals t ∧ ∀ e ∈ m.buf 0, e.1 ≠ cSlot n t)
  | _ => False

/-- the logical contents: the values of indices `[top, hb)` -/
def logical (s : St) : List Int := seg s.vals (s.m.mem cTop) (s.hb - s.m.mem cTop).toNat

structure Inv (s : St) : Prop where
  fen : s.fenced = true
  bufs : ∀ u, u ≠ 0 → s.m.buf u = []
  views : AllViews s.m 0 (ViewOk s.n (s.m.mem cTop) s.hb s.wf s.vals)
  own : ∀ i, s.m.mem cTop ≤ i → i < s.wf → s.m.view 0 (cSlot s.n i) = s.vals i
  tle : s.m.mem cTop ≤ s.hb
  cap : s.wf ≤ s.m.mem cTop + s.n
  owner : ownerOk s.n s.m s.hb s.wf s.vals (s.pc 0)
  thief : ∀ u, u ≠ 0 → thiefOk s.n s.m s.hb s.vals (s.pc u)
  perm : s.pushed.Perm (s.taken ++ logical s)

theorem inv_init (n : Nat) : Inv (init true n) := by
  constructor <;> simp [init, ownerOk, thiefOk, logical, seg, Mem.init, Mem.view, applyAll]
  · refine AllViews.of_drained (P := ViewOk n 0 0 0 fun _ => 0) rfl ?_
    simp [ViewOk]

theorem tid_zero {s : St} (hI : Inv s) {t : Nat} {p : Pc} (hpc : s.pc t = p)
    (hp : ∀ n m H vals, ¬ thiefOk n m H vals p) : t = 0 := by
  apply Classical.byContradiction; intro hne
  have := hI.thief t hne; rw [hpc] at this; exact hp _ _ _ _ this

theorem tid_ne_zero {s : St} (hI : Inv s) {t : Nat} {p : Pc} (hpc : s.pc t = p)
    (hp : ∀ n m H W vals, ¬ ownerOk n m H W vals p) : t ≠ 0 := by
  intro h0; subst h0
  have := hI.owner; rw [hpc] at this; exact hp _ _ _ _ _ this

/-- the owner's buffer holds only `bottom` and slot entries -/
theorem buf_cell_ne_top {s : St} (hI : Inv s) : ∀ e ∈ s.m.buf 0, e.1 ≠ cTop := by
  intro e he
  by_cases hb : e.1 = cBot
  · rw [hb]; exact cBot_ne_top
  · obtain ⟨i, _, _, _, hc, _⟩ := hI.views.now.2.2 e.1 e.2 he hb
    rw [hc]; exact cSlot_ne_top _ _

theorem owner_W {n m H W vals p} (h : ownerOk n m H W vals p) : H ≤ W ∧ W ≤ H + 1 := by
  cases p <;> simp [ownerOk] at h <;> omega

/-- a step that changes only thread `u`'s pc -/
theorem inv_local {s s' : St} (hI : Inv s) (u : Nat)
    (hn : s'.n = s.n) (hf : s'.fenced = s.fenced) (hm : s'.m = s.m) (hH : s'.hb = s.hb)
    (hW : s'.wf = s.wf) (hV : s'.vals = s.vals) (hP : s'.pushed = s.pushed)
    (hK : s'.taken = s.taken)
    (hpc : ∀ w, w ≠ u → s'.pc w = s.pc w)
    (hown : u = 0 → ownerOk s.n s.m s.hb s.wf s.vals (s'.pc 0))
    (hth : u ≠ 0 → thiefOk s.n s.m s.hb s.vals (s'.pc u)) :
    Inv s' := by
  constructor
  · rw [hf]; exact hI.fen
  · rw [hm]; exact hI.bufs
  · rw [hn, hm, hH, hW, hV]; exact hI.views
  · rw [hn, hm, hW, hV]; exact hI.own
  · rw [hm, hH]; exact hI.tle
  · rw [hm, hW, hn]; exact hI.cap
  · rw [hn, hm, hH, hW, hV]
    by_cases h0 : u = 0
    · exact hown h0
    · rw [hpc 0 (Ne.symm h0)]; exact hI.owner
  · intro w hw
    rw [hn, hm, hH, hV]
    by_cases hwu : w = u
    · subst hwu; exact hth hw
    · rw [hpc w hwu]; exact hI.thief w hw
  · have : logical s' = logical s := by simp [logical, hm, hH, hV]
    rw [hP, hK, this]; exact hI.perm

macro "local_side" : tactic =>
  `(tactic| first | rfl | (intro w hw; simp [upd, hw]; done))

/-! ### steps that only move one program counter -/

theorem inv_callPush {s s' : St} {t : Nat} {v : Int} (hI : Inv s)
    (h : step s (.callPush t v) = some s') : Inv s' := by
  simp only [step] at h
  split at h <;> simp at h
  subst h
  rename_i hc
  obtain ⟨ht, hpc⟩ := hc
  subst ht
  have ho := hI.owner; rw [hpc] at ho
  apply inv_local hI 0 <;> try local_side
  · intro _; simpa [ownerOk] using ho
  · intro hh; exact absurd rfl hh

theorem inv_callPop {s s' : St} {t : Nat} (hI : Inv s)
    (h : step s (.callPop t) = some s') : Inv s' := by
  simp only [step] at h
  split at h <;> simp at h
  subst h
  rename_i hc
  obtain ⟨ht, hpc⟩ := hc
  subst ht
  have ho := hI.owner; rw [hpc] at ho
  apply inv_local hI 0 <;> try local_side
  · intro _; simpa [ownerOk] using ho
  · intro hh; exact absurd rfl hh

theorem inv_callSteal {s s' : St} {t : Nat} (hI : Inv s)
    (h : step s (.callSteal t) = some s') : Inv s' := by
  simp only [step] at h
  split at h <;> simp at h
  subst h
  rename_i hc
  obtain ⟨ht, hpc⟩ := hc
  apply inv_local hI t <;> try local_side
  · intro h0; exact absurd h0 ht
  · intro _; simp [thiefOk]

theorem inv_retPush {s s' : St} {t : Nat} (hI : Inv s)
    (h : step s (.retPush t) = some s') : Inv s' := by
  simp only [step] at h
  split at h <;> simp at h
  next hpc =>
    have ht := tid_zero hI hpc (by simp [thiefOk]); subst ht
    have ho := hI.owner; rw [hpc] at ho; simp only [ownerOk] at ho
    subst h
    apply inv_local hI 0 <;> try local_side
    · intro _; simpa [ownerOk] using ho
    · intro hh; exact absurd rfl hh

theorem inv_retPop {s s' : St} {t : Nat} {r : Int} (hI : Inv s)
    (h : step s (.retPop t r) = some s') : Inv s' := by
  simp only [step] at h
  split at h <;> simp at h
  next r' hpc =>
    have ht := tid_zero hI hpc (by simp [thiefOk]); subst ht
    have ho := hI.owner; rw [hpc] at ho; simp only [ownerOk] at ho
    obtain ⟨-, h⟩ := h
    subst h
    apply inv_local hI 0 <;> try local_side
    · intro _; simpa [ownerOk] using ho
    · intro hh; exact absurd rfl hh

theorem inv_retSteal {s s' : St} {t : Nat} {r : Int} (hI : Inv s)
    (h : step s (.retSteal t r) = some s') : Inv s' := by
  simp only [step] at h
  split at h <;> simp at h
  next r' hpc =>
    have ht := tid_ne_zero hI hpc (by simp [ownerOk])
    obtain ⟨-, h⟩ := h
    subst h
    apply inv_local hI t <;> try local_side
    · intro h0; exact absurd h0 ht
    · intro _; simp [thiefOk]

theorem inv_ldBottom {s s' : St} {t : Nat} {x : Int} (hI : Inv s)
    (h : step s (.ldBottom t x) = some s') : Inv s' := by
  simp only [step] at h
  split at h
  next v hpc =>
    have ht := tid_zero hI hpc (by simp [thiefOk]); subst ht
    have ho := hI.owner; rw [hpc] at ho; simp only [ownerOk] at ho
    split at h <;> simp at h
    subst h
    rename_i hx
    rw [load_eq_view] at hx
    apply inv_local hI 0 <;> try local_side
    · intro _; simp [ownerOk]; omega
    · intro hh; exact absurd rfl hh
  next hpc =>
    have ht := tid_zero hI hpc (by simp [thiefOk]); subst ht
    have ho := hI.owner; rw [hpc] at ho; simp only [ownerOk] at ho
    split at h <;> simp at h
    subst h
    rename_i hx
    rw [load_eq_view] at hx
    apply inv_local hI 0 <;> try local_side
    · intro _; simp [ownerOk]; omega
    · intro hh; exact absurd rfl hh
  next tt hpc =>
    have ht := tid_ne_zero hI hpc (by simp [ownerOk])
    have hth := hI.thief t ht; rw [hpc] at hth; simp only [thiefOk] at hth
    split at h
    next hx =>
      rw [load_of_drained (hI.bufs t ht)] at hx
      split at h
      next hle =>
        simp at h; subst h
        apply inv_local hI t <;> try local_side
        · intro h0; exact absurd h0 ht
        · intro _; simp [thiefOk]
      next hgt =>
        simp at h; subst h
        apply inv_local hI t <;> try local_side
        · intro h0; exact absurd h0 ht
        · intro _
          simp only [upd_same, thiefOk]
          refine ⟨hth, ?_⟩
          intro hT
          obtain ⟨v1, v2, v3⟩ := hI.views.now
          have hcap := hI.cap
          refine ⟨by omega, v2 tt (by omega) (by omega), ?_⟩
          intro e he
          by_cases hb : e.1 = cBot
          · rw [hb]; exact (cSlot_ne_bot _ _).symm
          · obtain ⟨i, i1, i2, i3, i4, -⟩ := v3 e.1 e.2 he hb
            rw [i4]
            exact (cSlot_ne (by omega) (by omega)).symm
    next => simp at h
  next => simp at h

theorem inv_rdSlot {s s' : St} {t : Nat} {i : Nat} {x : Int} (hI : Inv s)
    (h : step s (.rdSlot t i x) = some s') : Inv s' := by
  simp only [step] at h
  split at h
  next b tt hpc =>
    have ht := tid_zero hI hpc (by simp [thiefOk]); subst ht
    have ho := hI.owner; rw [hpc] at ho; simp only [ownerOk] at ho
    obtain ⟨hE, hBM, htT, hWH, hcase⟩ := ho
    split at h
    next hc =>
      obtain ⟨-, hx⟩ := hc
      rw [load_of_drained hE] at hx
      split at h
      next hlt =>
        simp at h; subst h
        apply inv_local hI 0 <;> try local_side
        · intro _
          simp only [upd_same, ownerOk]
          rw [view_of_drained hE]
          omega
        · intro hh; exact absurd rfl hh
      next hnlt =>
        simp at h; subst h
        apply inv_local hI 0 <;> try local_side
        · intro _
          simp only [upd_same, ownerOk]
          have hown := hI.own b
          rw [view_of_drained hE] at hown
          refine ⟨hE, by omega, hBM, by omega, hWH, htT, ?_⟩
          intro hT
          rw [hx]; exact hown (by omega) (by omega)
        · intro hh; exact absurd rfl hh
    next => simp at h
  next tt hpc =>
    have ht := tid_ne_zero hI hpc (by simp [ownerOk])
    have hth := hI.thief t ht; rw [hpc] at hth; simp only [thiefOk] at hth
    split at h
    next hc =>
      obtain ⟨-, hx⟩ := hc
      rw [load_of_drained (hI.bufs t ht)] at hx
      simp at h; subst h
      apply inv_local hI t <;> try local_side
      · intro h0; exact absurd h0 ht
      · intro _
        simp only [upd_same, thiefOk]
        refine ⟨hth.1, fun hT => ?_⟩
        obtain ⟨a, b, c⟩ := hth.2 hT
        exact ⟨a, by rw [hx, b], c⟩
    next => simp at h
  next => simp at h

/-! ### flush: an entry of the owner's buffer reaches memory -/

theorem ownerOk_flush {n m m' H W vals p} (h : ownerOk n m H W vals p)
    (hf : m.flush 0 = some m') (hT : m'.mem cTop = m.mem cTop) : ownerOk n m' H W vals p := by
  have hv := view_flush_self hf
  obtain ⟨e, rest, hb, hm, hbuf⟩ := flush_some hf
  cases p <;> simp only [ownerOk] at h ⊢ <;> (try rw [hv]) <;> (try rw [hT]) <;>
    first | exact h | (simp [hb] at h)

theorem thiefOk_flush {n m m' H vals p} (h : thiefOk n m H vals p)
    (hf : m.flush 0 = some m') (hT : m'.mem cTop = m.mem cTop) : thiefOk n m' H vals p := by
  obtain ⟨e, rest, hb, hm, hbuf⟩ := flush_some hf
  have hsub : ∀ e' ∈ m'.buf 0, e' ∈ m.buf 0 := by
    intro e' he'; rw [hbuf, upd_same] at he'; rw [hb]; exact List.mem_cons_of_mem _ he'
  have hmem : ∀ c, e.1 ≠ c → m'.mem c = m.mem c := by
    intro c hc; rw [hm]; simp [upd]; intro h'; exact absurd h'.symm hc
  have hein : e ∈ m.buf 0 := by rw [hb]; exact List.mem_cons_self
  cases p <;> simp only [thiefOk] at h ⊢ <;> (try rw [hT]) <;> try exact h
  · refine ⟨h.1, fun hTt => ?_⟩
    obtain ⟨a, b, c⟩ := h.2 hTt
    exact ⟨a, by rw [hmem _ (c e hein)]; exact b, fun e' he' => c e' (hsub e' he')⟩
  · refine ⟨h.1, fun hTt => ?_⟩
    obtain ⟨a, b, c⟩ := h.2 hTt
    exact ⟨a, b, fun e' he' => c e' (hsub e' he')⟩

theorem inv_flush {s s' : St} {t : Nat} (hI : Inv s)
    (h : step s (.flush t) = some s') : Inv s' := by
  simp only [step] at h
  split at h
  next m' hf =>
    simp at h; subst h
    have ht : t = 0 := by
      apply Classical.byContradiction; intro hne
      obtain ⟨e, rest, hb, -, -⟩ := flush_some hf
      rw [hI.bufs t hne] at hb; cases hb
    subst ht
    obtain ⟨e, rest, hb, hm, hbuf⟩ := flush_some hf
    have hT : m'.mem cTop = s.m.mem cTop := by
      rw [hm]; simp [upd]; intro h'
      exact absurd h'.symm (buf_cell_ne_top hI e (by rw [hb]; exact List.mem_cons_self))
    constructor
    · exact hI.fen
    · intro u hu; simp only [hbuf, upd, hu, if_false]; exact hI.bufs u hu
    · simp only [hT]; exact hI.views.flush hf
    · simp only [hT, view_flush_self hf]; exact hI.own
    · simp only [hT]; exact hI.tle
    · simp only [hT]; exact hI.cap
    · exact ownerOk_flush hI.owner hf hT
    · intro u hu; exact thiefOk_flush (hI.thief u hu) hf hT
    · simp only [logical, hT]; exact hI.perm
  next => simp at h

/-! ### a CAS on `top` succeeds -/

@[simp] theorem poke_top_top (m : Mem) (v : Int) : (m.poke cTop v).mem cTop = v := by simp [Mem.poke]
@[simp] theorem poke_top_bot (m : Mem) (v : Int) : (m.poke cTop v).mem cBot = m.mem cBot := by
  simp [Mem.poke, upd, cBot, cTop]
@[simp] theorem poke_top_slot (m : Mem) (v : Int) (n : Nat) (i : Int) :
    (m.poke cTop v).mem (cSlot n i) = m.mem (cSlot n i) := by
  simp [Mem.poke, upd, cSlot_ne_top]
@[simp] theorem poke_top_view_bot (m : Mem) (v : Int) (t : Nat) :
    (m.poke cTop v).view t cBot = m.view t cBot := view_poke_other _ _ _ _ _ cBot_ne_top
@[simp] theorem poke_top_view_slot (m : Mem) (v : Int) (t n : Nat) (i : Int) :
    (m.poke cTop v).view t (cSlot n i) = m.view t (cSlot n i) :=
  view_poke_other _ _ _ _ _ (cSlot_ne_top _ _)

theorem ownerOk_top_succ {n m H W vals p} (h : ownerOk n m H W vals p) (hlt : m.mem cTop < H) :
    ownerOk n (m.poke cTop (m.mem cTop + 1)) H W vals p := by
  cases p <;> simp only [ownerOk, poke_top_top, poke_top_bot, poke_top_slot, poke_buf,
    poke_top_view_bot] at h ⊢ <;> first | exact h | omega | grind

theorem thiefOk_top_succ {n m H vals p} (h : thiefOk n m H vals p) :
    thiefOk n (m.poke cTop (m.mem cTop + 1)) H vals p := by
  cases p <;> simp only [thiefOk, poke_top_top, poke_top_slot, poke_buf] at h ⊢ <;>
    first | exact h | omega | (exact ⟨by omega, fun h' => by omega⟩)

theorem seg_head (f : Int → Int) (lo hi : Int) (h : lo < hi) :
    seg f lo (hi - lo).toNat = f lo :: seg f (lo + 1) (hi - (lo + 1)).toNat := by
  have : (hi - lo).toNat = (hi - (lo + 1)).toNat + 1 := by omega
  rw [this, seg]

/-- thread `u`'s CAS moves `top` from `T` to `T + 1` and wins the value of index `T` -/
theorem inv_cas {s s' : St} (hI : Inv s) (u : Nat)
    (hn : s'.n = s.n) (hf : s'.fenced = s.fenced)
    (hm : s'.m = s.m.poke cTop (s.m.mem cTop + 1)) (hH : s'.hb = s.hb)
    (hW : s'.wf = s.wf) (hV : s'.vals = s.vals) (hP : s'.pushed = s.pushed)
    (hK : s'.taken = s.taken ++ [s.vals (s.m.mem cTop)])
    (hpc : ∀ w, w ≠ u → s'.pc w = s.pc w)
    (hlt : s.m.mem cTop < s.hb)
    (hfree : ∀ e ∈ s.m.buf 0, e.1 ≠ cSlot s.n (s.m.mem cTop))
    (hown : u = 0 → ownerOk s.n s'.m s.hb s.wf s.vals (s'.pc 0))
    (hth : u ≠ 0 → thiefOk s.n s'.m s.hb s.vals (s'.pc u)) :
    Inv s' := by
  constructor
  · rw [hf]; exact hI.fen
  · rw [hm]; exact hI.bufs
  · rw [hn, hm, hH, hW, hV, poke_top_top]
    refine hI.views.poke ?_
    intro μ μ' suf hsuf hμ ⟨v1, v2, v3⟩
    have hb : μ' cBot = μ cBot := hμ _ cBot_ne_top
    refine ⟨by rw [hb]; exact v1, ?_, ?_⟩
    · intro i h1 h2
      rw [hμ _ (cSlot_ne_top _ _)]
      exact v2 i (by omega) (by rw [← hb]; exact h2)
    · intro c v hcv hc
      obtain ⟨i, i1, i2, i3, i4, i5⟩ := v3 c v hcv hc
      refine ⟨i, ?_, by rw [hb]; exact i2, i3, i4, i5⟩
      have : i ≠ s.m.mem cTop := by
        intro hi; subst hi
        exact hfree (c, v) (hsuf _ hcv) i4
      omega
  · rw [hn, hm, hW, hV, poke_top_top]
    intro i h1 h2
    rw [poke_top_view_slot]; exact hI.own i (by omega) h2
  · rw [hm, hH, poke_top_top]; omega
  · rw [hm, hW, hn, poke_top_top]; have := hI.cap; omega
  · rw [hn, hH, hW, hV]
    by_cases h0 : u = 0
    · exact hown h0
    · rw [hpc 0 (Ne.symm h0), hm]; exact ownerOk_top_succ hI.owner hlt
  · intro w hw
    rw [hn, hH, hV]
    by_cases hwu : w = u
    · subst hwu; exact hth hw
    · rw [hpc w hwu, hm]; exact thiefOk_top_succ (hI.thief w hw)
  · have hp := hI.perm
    simp only [logical] at hp ⊢
    rw [hm, hH, hV, hP, hK, poke_top_top]
    rw [seg_head _ _ _ hlt] at hp
    rw [List.append_assoc]; exact hp

theorem inv_casTop {s s' : St} {t : Nat} {found exp des : Int} {ok : Bool} (hI : Inv s)
    (h : step s (.casTop t found exp des ok) = some s') : Inv s' := by
  simp only [step] at h
  split at h
  next b tt x hpc =>
    have ht := tid_zero hI hpc (by simp [thiefOk]); subst ht
    have ho := hI.owner; rw [hpc] at ho; simp only [ownerOk] at ho
    obtain ⟨hE, htb, hBM, hH, hW, htT, hx⟩ := ho
    split at h
    next hc =>
      obtain ⟨-, hfound, hexp, hdes, hok⟩ := hc
      split at h
      next hwon =>
        simp at h; subst h
        have hT : s.m.mem cTop = tt := by simpa [hfound, hexp, hwon] using hok
        apply inv_cas hI 0 <;> try local_side
        case hm => simp [hdes, hT]
        case hK => simp [hT, hx hT, htb]
        case hlt => omega
        case hfree => simp [hE]
        case hown =>
          intro _
          simp only [upd_same, ownerOk, hdes, poke_top_top, poke_top_bot, poke_buf]
          exact ⟨hE, by omega, by omega, by omega, hW⟩
        case hth => intro hh; exact absurd rfl hh
      next hlost =>
        simp at h; subst h
        have hT : s.m.mem cTop ≠ tt := by
          intro h'; apply hlost; simp [hok, hfound, hexp, h']
        have htle := hI.tle
        apply inv_local hI 0 <;> try local_side
        · intro _
          simp only [upd_same, ownerOk]
          exact ⟨hE, by omega, by omega, by omega, hW⟩
        · intro hh; exact absurd rfl hh
    next => simp at h
  next tt x hpc =>
    have ht := tid_ne_zero hI hpc (by simp [ownerOk])
    have hth := hI.thief t ht; rw [hpc] at hth; simp only [thiefOk] at hth
    split at h
    next hc =>
      obtain ⟨-, hfound, hexp, hdes, hok⟩ := hc
      split at h
      next hwon =>
        simp at h; subst h
        have hT : s.m.mem cTop = tt := by simpa [hfound, hexp, hwon] using hok
        obtain ⟨a, b, c⟩ := hth.2 hT
        apply inv_cas hI t <;> try local_side
        case hm => simp [hdes, hT]
        case hK => simp [hT, b]
        case hlt => omega
        case hfree => rw [hT]; exact c
        case hown => intro h0; exact absurd h0 ht
        case hth => intro _; simp [thiefOk]
      next hlost =>
        simp at h; subst h
        apply inv_local hI t <;> try local_side
        · intro h0; exact absurd h0 ht
        · intro _; simp [thiefOk]
    next => simp at h
  next => simp at h

/-! ### loads of `top` -/

theorem load_top {s : St} (hI : Inv s) (t : Nat) : s.m.load t cTop = s.m.mem cTop := by
  by_cases ht : t = 0
  · subst ht
    rw [load_eq_view, Mem.view, applyAll_of_not_mem _ _ _ (buf_cell_ne_top hI)]
  · exact load_of_drained (hI.bufs t ht) _

theorem thiefOk_hb {n m H H' vals p} (h : thiefOk n m H vals p)
    (hH : m.mem cTop < H → m.mem cTop < H') : thiefOk n m H' vals p := by
  cases p <;> simp only [thiefOk] at h ⊢ <;> try exact h
  · refine ⟨h.1, fun hT => ?_⟩
    obtain ⟨a, b, c⟩ := h.2 hT
    exact ⟨by omega, b, c⟩
  · refine ⟨h.1, fun hT => ?_⟩
    obtain ⟨a, b, c⟩ := h.2 hT
    exact ⟨by omega, b, c⟩

theorem inv_ldTop {s s' : St} {t : Nat} {x : Int} (hI : Inv s)
    (h : step s (.ldTop t x) = some s') : Inv s' := by
  simp only [step] at h
  split at h
  next v b hpc =>
    have ht := tid_zero hI hpc (by simp [thiefOk]); subst ht
    have ho := hI.owner; rw [hpc] at ho; simp only [ownerOk] at ho
    split at h <;> simp at h
    subst h
    rename_i hc
    obtain ⟨hx, hcap⟩ := hc
    rw [load_top hI] at hx
    apply inv_local hI 0 <;> try local_side
    · intro _; simp only [upd_same, ownerOk]; omega
    · intro hh; exact absurd rfl hh
  next b hpc =>
    have ht := tid_zero hI hpc (by simp [thiefOk]); subst ht
    have ho := hI.owner; rw [hpc] at ho; simp only [ownerOk] at ho
    obtain ⟨hB, hH, hW⟩ := ho
    split at h
    next hc =>
      obtain ⟨hx, hfence⟩ := hc
      rw [load_top hI] at hx
      have hE : s.m.buf 0 = [] := hfence hI.fen
      rw [view_of_drained hE] at hB
      have htle := hI.tle
      split at h
      next hlt =>
        simp at h; subst h
        apply inv_local hI 0 <;> try local_side
        · intro _; simp only [upd_same, ownerOk]; exact ⟨hE, by omega, by omega, by omega, hW⟩
        · intro hh; exact absurd rfl hh
      next hnlt =>
        split at h
        next hlt =>
          -- commit: the owner takes element b without a CAS; memory `bottom` is already `b`
          simp at h; subst h
          have hown := hI.own
          rw [view_of_drained hE] at hown
          constructor
          · exact hI.fen
          · exact hI.bufs
          · refine AllViews.of_drained (P := ViewOk s.n (s.m.mem cTop) b b s.vals) hE ?_
            obtain ⟨v1, v2, v3⟩ := hI.views.now
            refine ⟨by simp only; omega, v2, ?_⟩
            intro c v hcv; cases hcv
          · intro i h1 h2; exact hI.own i h1 (by simp only at h2; omega)
          · simp only; omega
          · have := hI.cap; simp only; omega
          · simp only [upd_same, ownerOk]
            refine ⟨hE, hB, by omega, trivial, Or.inl ⟨by omega, trivial, ?_⟩⟩
            exact hown b (by omega) (by omega)
          · intro u hu
            simp only [upd, hu, if_false]
            exact thiefOk_hb (hI.thief u hu) (fun _ => by omega)
          · have hp := hI.perm
            simp only [logical] at hp ⊢
            have hn : (s.hb - s.m.mem cTop).toNat = (b - s.m.mem cTop).toNat + 1 := by omega
            rw [hn, seg_snoc] at hp
            have hb : s.m.mem cTop + ((b - s.m.mem cTop).toNat : Int) = b := by omega
            rw [hb] at hp
            exact hp.trans perm_snoc_move
        next hnlt2 =>
          simp at h; subst h
          apply inv_local hI 0 <;> try local_side
          · intro _; simp only [upd_same, ownerOk]
            exact ⟨hE, hB, by omega, hW, Or.inr ⟨by omega, hH⟩⟩
          · intro hh; exact absurd rfl hh
    next => simp at h
  next hpc =>
    have ht := tid_ne_zero hI hpc (by simp [ownerOk])
    split at h <;> simp at h
    subst h
    rename_i hc
    rw [load_top hI] at hc
    apply inv_local hI t <;> try local_side
    · intro h0; exact absurd h0 ht
    · intro _; simp only [upd_same, thiefOk]; omega
  next => simp at h

/-! ### the owner's stores: they go to the buffer -/

theorem store_view_bot_of_slot (m : Mem) (n : Nat) (i v : Int) :
    (m.store 0 (cSlot n i) v).view 0 cBot = m.view 0 cBot := by
  rw [view_store_self]; simp [upd, (cSlot_ne_bot n i).symm]

theorem thiefOk_store_bot {n m H H' vals p} {x : Int} (h : thiefOk n m H vals p) (hH : H ≤ H') :
    thiefOk n (m.store 0 cBot x) H' vals p := by
  have hmem : ∀ e ∈ (m.store 0 cBot x).buf 0, e ∈ m.buf 0 ∨ e = (cBot, x) := by
    intro e he; rw [store_buf_self] at he; simpa using he
  cases p <;> simp only [thiefOk, store_mem] at h ⊢ <;> try exact h
  · refine ⟨h.1, fun hT => ?_⟩
    obtain ⟨a, b, c⟩ := h.2 hT
    refine ⟨by omega, b, fun e he => ?_⟩
    rcases hmem e he with h1 | h1
    · exact c e h1
    · rw [h1]; exact (cSlot_ne_bot _ _).symm
  · refine ⟨h.1, fun hT => ?_⟩
    obtain ⟨a, b, c⟩ := h.2 hT
    refine ⟨by omega, b, fun e he => ?_⟩
    rcases hmem e he with h1 | h1
    · exact c e h1
    · rw [h1]; exact (cSlot_ne_bot _ _).symm

/-- the owner issues `bottom := x`: `hb` may grow, `wf`, `vals`, `taken` stay -/
theorem inv_stBot {s s' : St} (hI : Inv s) (x : Int)
    (hn : s'.n = s.n) (hf : s'.fenced = s.fenced) (hm : s'.m = s.m.store 0 cBot x)
    (hW : s'.wf = s.wf) (hV : s'.vals = s.vals) (hK : s'.taken = s.taken)
    (hpc : ∀ w, w ≠ 0 → s'.pc w = s.pc w)
    (hHle : s.hb ≤ s'.hb) (hx1 : x ≤ s'.hb) (hx2 : x ≤ s.wf)
    (hown : ownerOk s.n s'.m s'.hb s.wf s.vals (s'.pc 0))
    (hperm : s'.pushed.Perm (s.taken ++ seg s.vals (s.m.mem cTop) (s'.hb - s.m.mem cTop).toNat)) :
    Inv s' := by
  constructor
  · rw [hf]; exact hI.fen
  · intro u hu; rw [hm, store_buf_other _ _ _ _ _ hu]; exact hI.bufs u hu
  · rw [hn, hm, hW, hV, store_mem]
    refine hI.views.store ?_ ?_
    · intro μ suf _ ⟨v1, v2, v3⟩
      refine ⟨by omega, v2, ?_⟩
      intro c v hcv hc
      rcases List.mem_append.mp hcv with h1 | h1
      · exact v3 c v h1 hc
      · simp at h1; exact absurd h1.1 hc
    · refine ⟨by simp [upd]; exact hx1, ?_, by intro c v hcv; cases hcv⟩
      intro i h1 h2
      simp only [upd_same] at h2
      rw [upd_other _ _ _ _ (cSlot_ne_bot _ _)]
      exact hI.own i h1 (by omega)
  · rw [hn, hm, hW, hV, store_mem]
    intro i h1 h2
    rw [view_store_self, upd_other _ _ _ _ (cSlot_ne_bot _ _)]
    exact hI.own i h1 h2
  · rw [hm, store_mem]; have := hI.tle; omega
  · rw [hm, hW, hn, store_mem]; exact hI.cap
  · rw [hn, hW, hV]; exact hown
  · intro u hu
    rw [hn, hm, hV, hpc u hu]
    exact thiefOk_store_bot (hI.thief u hu) hHle
  · simp only [logical]; rw [hm, hV, hK, store_mem]; exact hperm

theorem inv_stBottom {s s' : St} {t : Nat} {x : Int} (hI : Inv s)
    (h : step s (.stBottom t x) = some s') : Inv s' := by
  simp only [step] at h
  split at h
  next v b hpc =>
    have ht := tid_zero hI hpc (by simp [thiefOk]); subst ht
    have ho := hI.owner; rw [hpc] at ho; simp only [ownerOk] at ho
    obtain ⟨hb, hB, hW, hv⟩ := ho
    split at h <;> simp at h
    subst h
    rename_i hx
    apply inv_stBot hI x <;> try local_side
    case hHle => simp only; omega
    case hx1 => simp only; omega
    case hx2 => omega
    case hown =>
      simp only [upd_same, ownerOk, view_store_self]; refine ⟨?_, ?_⟩ <;> first | trivial | omega
    case hperm =>
      have hp := hI.perm
      have htle := hI.tle
      simp only [logical] at hp
      simp only
      have hn : (x - s.m.mem cTop).toNat = (s.hb - s.m.mem cTop).toNat + 1 := by omega
      rw [hn, seg_snoc]
      have hb' : s.m.mem cTop + ((s.hb - s.m.mem cTop).toNat : Int) = b := by omega
      rw [hb', hv, ← List.append_assoc]
      exact List.Perm.append_right _ hp
  next b hpc =>
    have ht := tid_zero hI hpc (by simp [thiefOk]); subst ht
    have ho := hI.owner; rw [hpc] at ho; simp only [ownerOk] at ho
    obtain ⟨hb, hB, hW⟩ := ho
    split at h <;> simp at h
    subst h
    rename_i hx
    apply inv_stBot hI x <;> try local_side
    case hHle => simp only; omega
    case hx1 => simp only; omega
    case hx2 => omega
    case hown => simp only [upd_same, ownerOk, view_store_self]; refine ⟨?_, ?_⟩ <;> first | trivial | omega
    case hperm => exact hI.perm
  next tt hpc =>
    have ht := tid_zero hI hpc (by simp [thiefOk]); subst ht
    have ho := hI.owner; rw [hpc] at ho; simp only [ownerOk] at ho
    obtain ⟨hE, hH, hT, hBM, hW⟩ := ho
    split at h <;> simp at h
    subst h
    rename_i hx
    apply inv_stBot hI x <;> try local_side
    case hHle => simp only; omega
    case hx1 => simp only; omega
    case hx2 => omega
    case hown => simp only [upd_same, ownerOk, view_store_self]; refine ⟨?_, ?_⟩ <;> first | trivial | omega
    case hperm => exact hI.perm
  next tt r hpc =>
    have ht := tid_zero hI hpc (by simp [thiefOk]); subst ht
    have ho := hI.owner; rw [hpc] at ho; simp only [ownerOk] at ho
    obtain ⟨hE, hBM, hH, hT, hW⟩ := ho
    split at h <;> simp at h
    subst h
    rename_i hx
    apply inv_stBot hI x <;> try local_side
    case hHle => simp only; omega
    case hx1 => simp only; omega
    case hx2 => omega
    case hown => simp only [upd_same, ownerOk, view_store_self]; refine ⟨?_, ?_⟩ <;> first | trivial | omega
    case hperm => exact hI.perm
  next => simp at h

theorem thiefOk_wrSlot {n m H vals p} {b v : Int} (h : thiefOk n m H vals p)
    (hbH : b = H) (hcap : b + 1 ≤ m.mem cTop + n) :
    thiefOk n (m.store 0 (cSlot n b) v) H (setVal vals b v) p := by
  have hmem : ∀ e ∈ (m.store 0 (cSlot n b) v).buf 0, e ∈ m.buf 0 ∨ e = (cSlot n b, v) := by
    intro e he; rw [store_buf_self] at he; simpa using he
  cases p <;> simp only [thiefOk, store_mem] at h ⊢ <;> try exact h
  · next t =>
    refine ⟨h.1, fun hT => ?_⟩
    obtain ⟨a, b', c⟩ := h.2 hT
    have hne : t ≠ b := by omega
    refine ⟨a, by simp [setVal, hne, b'], fun e he => ?_⟩
    rcases hmem e he with h1 | h1
    · exact c e h1
    · rw [h1]; exact (cSlot_ne (by omega) (by omega)).symm
  · next t x =>
    refine ⟨h.1, fun hT => ?_⟩
    obtain ⟨a, b', c⟩ := h.2 hT
    have hne : t ≠ b := by omega
    refine ⟨a, by simp [setVal, hne, b'], fun e he => ?_⟩
    rcases hmem e he with h1 | h1
    · exact c e h1
    · rw [h1]; exact (cSlot_ne (by omega) (by omega)).symm

theorem inv_wrSlot {s s' : St} {t : Nat} {i : Nat} {x : Int} (hI : Inv s)
    (h : step s (.wrSlot t i x) = some s') : Inv s' := by
  simp only [step] at h
  split at h
  next v b hpc =>
    have ht := tid_zero hI hpc (by simp [thiefOk]); subst ht
    have ho := hI.owner; rw [hpc] at ho; simp only [ownerOk] at ho
    obtain ⟨hb, hB, hW, hcap⟩ := ho
    split at h <;> simp at h
    subst h
    rename_i hc
    obtain ⟨-, hxv⟩ := hc
    have htle := hI.tle
    constructor
    · exact hI.fen
    · intro u hu; simp only [store_buf_other _ _ _ _ _ hu]; exact hI.bufs u hu
    · simp only [store_mem]
      refine hI.views.store ?_ ?_
      · intro μ suf _ ⟨v1, v2, v3⟩
        refine ⟨v1, ?_, ?_⟩
        · intro i h1 h2
          have : i ≠ b := by omega
          simp [setVal, this]; exact v2 i h1 h2
        · intro c w hcw hc
          rcases List.mem_append.mp hcw with h1 | h1
          · obtain ⟨i, i1, i2, i3, i4, i5⟩ := v3 c w h1 hc
            have : i ≠ b := by omega
            exact ⟨i, i1, i2, by omega, i4, by simp [setVal, this]; exact i5⟩
          · simp at h1
            exact ⟨b, by omega, by omega, by omega, h1.1, by simp [setVal, h1.2]⟩
      · refine ⟨?_, ?_, by intro c v hcv; cases hcv⟩
        · rw [upd_other _ _ _ _ (cSlot_ne_bot _ _).symm]; omega
        · intro i h1 h2
          rw [upd_other _ _ _ _ (cSlot_ne_bot _ _).symm] at h2
          have hne : i ≠ b := by omega
          rw [upd_other _ _ _ _ (cSlot_ne (by omega) (by omega))]
          simp [setVal, hne]
          exact hI.own i h1 (by omega)
    · simp only [store_mem, view_store_self]
      intro i h1 h2
      by_cases hib : i = b
      · subst hib; simp [setVal]
      · rw [upd_other _ _ _ _ (cSlot_ne (by omega) (by omega))]
        simp [setVal, hib]
        exact hI.own i h1 (by omega)
    · exact hI.tle
    · simp only [store_mem]; omega
    · simp only [upd_same, ownerOk, store_view_bot_of_slot]
      exact ⟨hb, hB, by omega, by simp [setVal, hxv]⟩
    · intro u hu
      simp only [upd, hu, if_false]
      exact thiefOk_wrSlot (hI.thief u hu) hb hcap
    · have hp := hI.perm
      simp only [logical] at hp ⊢
      simp only [store_mem]
      rw [seg_congr (g := s.vals)]
      · exact hp
      · intro i h1 h2
        have : i ≠ b := by omega
        simp [setVal, this]
  next => simp at h

theorem inv_step {s s' : St} {e : Ev} (hI : Inv s) (h : step s e = some s') : Inv s' := by
  cases e with
  | callPush t v => exact inv_callPush hI h
  | retPush t => exact inv_retPush hI h
  | callPop t => exact inv_callPop hI h
  | retPop t r => exact inv_retPop hI h
  | callSteal t => exact inv_callSteal hI h
  | retSteal t r => exact inv_retSteal hI h
  | ldBottom t x => exact inv_ldBottom hI h
  | stBottom t x => exact inv_stBottom hI h
  | ldTop t x => exact inv_ldTop hI h
  | casTop t f e d ok => exact inv_casTop hI h
  | rdSlot t i x => exact inv_rdSlot hI h
  | wrSlot t i x => exact inv_wrSlot hI h
  | flush t => exact inv_flush hI h

theorem inv_of_run {n : Nat} {es : List Ev} {s : St} (h : (sys true n).run es = some s) : Inv s :=
  Sys.inv_of_run (sys true n) Inv (inv_init n) (fun _ _ _ hI hs => inv_step hI hs) h

/-! ### accounting: commit points (`taken`) versus API-level returns (`returned`) -/

/-- the value a thread has won but not yet handed back to its caller -/
def holdsPc (vals : Int → Int) : Pc → Option Int
  | .popTake b t => if t < b then some (vals b) else none
  | .popCased _ (.val x) => some x
  | .popDone (.val x) => some x
  | .stealDone (.val x) => some x
  | _ => none

def holds (s : St) (u : Nat) : Option Int := holdsPc s.vals (s.pc u)

structure Acc (s : St) : Prop where
  mem : ∀ u x, (u, x) ∈ s.owed ↔ holds s u = some x
  nodup : s.owed.Nodup
  perm : s.taken.Perm (s.returned ++ s.owed.map Prod.snd)

theorem acc_init (f : Bool) (n : Nat) : Acc (init f n) := by
  constructor <;> simp [init, holds, holdsPc]

theorem acc_of_holds {s s' : St} (hA : Acc s) (hO : s'.owed = s.owed) (hK : s'.taken = s.taken)
    (hR : s'.returned = s.returned) (hold : ∀ u, holds s' u = holds s u) : Acc s' := by
  constructor
  · intro u x; rw [hO, hold]; exact hA.mem u x
  · rw [hO]; exact hA.nodup
  · rw [hK, hR, hO]; exact hA.perm

theorem acc_local {s s' : St} (hA : Acc s) (t : Nat)
    (hV : s'.vals = s.vals) (hO : s'.owed = s.owed) (hK : s'.taken = s.taken)
    (hR : s'.returned = s.returned) (hpc : ∀ w, w ≠ t → s'.pc w = s.pc w)
    (hh : holdsPc s.vals (s'.pc t) = holdsPc s.vals (s.pc t)) : Acc s' := by
  apply acc_of_holds hA hO hK hR
  intro u
  unfold holds
  rw [hV]
  by_cases hu : u = t
  · subst hu; exact hh
  · rw [hpc u hu]

/-- thread `t` wins the value `x` -/
theorem acc_commit {s s' : St} (hA : Acc s) (t : Nat) (x : Int)
    (hV : s'.vals = s.vals) (hO : s'.owed = s.owed ++ [(t, x)])
    (hK : s'.taken = s.taken ++ [x]) (hR : s'.returned = s.returned)
    (hpc : ∀ w, w ≠ t → s'.pc w = s.pc w)
    (hold : holdsPc s.vals (s.pc t) = none)
    (hnew : holdsPc s.vals (s'.pc t) = some x) : Acc s' := by
  have hnot : ∀ y, (t, y) ∉ s.owed := by
    intro y hy
    have := (hA.mem t y).mp hy
    unfold holds at this; rw [hold] at this; cases this
  have hother : ∀ u, u ≠ t → holds s' u = holds s u := by
    intro u hu; unfold holds; rw [hV, hpc u hu]
  have hself : holds s' t = some x := by unfold holds; rw [hV]; exact hnew
  constructor
  · intro u y
    rw [hO, List.mem_append, List.mem_singleton]
    by_cases hu : u = t
    · subst hu
      rw [hself]
      constructor
      · rintro (h | h)
        · exact absurd h (hnot y)
        · cases h; rfl
      · intro h; cases h; right; rfl
    · rw [hother u hu, ← hA.mem u y]
      constructor
      · rintro (h | h)
        · exact h
        · cases h; exact absurd rfl hu
      · intro h; left; exact h
  · rw [hO]
    refine List.nodup_append.mpr ⟨hA.nodup, by simp, ?_⟩
    intro a ha b hb
    rw [List.mem_singleton] at hb; subst hb
    intro hab; subst hab; exact hnot x ha
  · rw [hK, hR, hO, List.map_append, ← List.append_assoc]
    exact List.Perm.append_right _ hA.perm

/-- thread `t` hands back what it holds (or EMPTY / ABORT) -/
theorem acc_ret {s s' : St} (hA : Acc s) (t : Nat) (r : Res)
    (hV : s'.vals = s.vals) (hO : s'.owed = r.settle t s.owed)
    (hK : s'.taken = s.taken) (hR : s'.returned = s.returned ++ r.vals)
    (hpc : ∀ w, w ≠ t → s'.pc w = s.pc w)
    (hold : holdsPc s.vals (s.pc t) = (match r with | .val x => some x | _ => none))
    (hnew : holdsPc s.vals (s'.pc t) = none) : Acc s' := by
  have hother : ∀ u, u ≠ t → holds s' u = holds s u := by
    intro u hu; unfold holds; rw [hV, hpc u hu]
  have hself : holds s' t = none := by unfold holds; rw [hV]; exact hnew
  cases r with
  | empty =>
    simp [Res.settle, Res.vals] at hO hR hold
    exact acc_local hA t hV hO hK hR hpc (by rw [hnew, hold])
  | abort =>
    simp [Res.settle, Res.vals] at hO hR hold
    exact acc_local hA t hV hO hK hR hpc (by rw [hnew, hold])
  | val x =>
    simp only [Res.settle, Res.vals] at hO hR hold
    have hin : (t, x) ∈ s.owed := (hA.mem t x).mpr (by unfold holds; exact hold)
    constructor
    · intro u y
      rw [hO, hA.nodup.mem_erase_iff]
      by_cases hu : u = t
      · subst hu
        rw [hself]
        constructor
        · rintro ⟨hne, hm⟩
          have := (hA.mem u y).mp hm
          unfold holds at this; rw [hold] at this
          cases this; exact absurd rfl hne
        · intro h; cases h
      · rw [hother u hu, ← hA.mem u y]
        constructor
        · rintro ⟨_, hm⟩; exact hm
        · intro hm; refine ⟨?_, hm⟩
          intro h; cases h; exact hu rfl
    · rw [hO]; exact hA.nodup.erase _
    · rw [hK, hR, hO]
      have h1 : s.owed.Perm ((t, x) :: s.owed.erase (t, x)) := List.perm_cons_erase hin
      have h2 := (h1.map Prod.snd)
      simp only [List.map_cons] at h2
      refine hA.perm.trans ?_
      refine (List.Perm.append_left s.returned h2).trans ?_
      simp

set_option linter.unusedVariables false

macro "acc_loc" hA:ident t:ident : tactic =>
  `(tactic| (apply acc_local $hA $t <;>
      first | rfl | (intro w hw; simp [upd, hw]; done) | (simp [upd, holdsPc, *]; done)))

theorem acc_callPush {s s' : St} {t : Nat} {v : Int} (hI : Inv s) (hA : Acc s)
    (h : step s (.callPush t v) = some s') : Acc s' := by
  simp only [step] at h; (repeat' split at h) <;> simp at h
  rename_i hc; obtain ⟨ht, hpc⟩ := hc
  rw [ht] at hpc; subst h; acc_loc hA t

theorem acc_callPop {s s' : St} {t : Nat} (hI : Inv s) (hA : Acc s)
    (h : step s (.callPop t) = some s') : Acc s' := by
  simp only [step] at h; (repeat' split at h) <;> simp at h
  rename_i hc; obtain ⟨ht, hpc⟩ := hc
  rw [ht] at hpc; subst h; acc_loc hA t

theorem acc_callSteal {s s' : St} {t : Nat} (hI : Inv s) (hA : Acc s)
    (h : step s (.callSteal t) = some s') : Acc s' := by
  simp only [step] at h; (repeat' split at h) <;> simp at h <;> subst h <;> acc_loc hA t

theorem acc_retPush {s s' : St} {t : Nat} (hI : Inv s) (hA : Acc s)
    (h : step s (.retPush t) = some s') : Acc s' := by
  simp only [step] at h; (repeat' split at h) <;> simp at h <;> subst h <;> acc_loc hA t

theorem acc_ldBottom {s s' : St} {t : Nat} {x : Int} (hI : Inv s) (hA : Acc s)
    (h : step s (.ldBottom t x) = some s') : Acc s' := by
  simp only [step] at h; (repeat' split at h) <;> simp at h <;> subst h <;> acc_loc hA t

theorem acc_flush {s s' : St} {t : Nat} (hI : Inv s) (hA : Acc s)
    (h : step s (.flush t) = some s') : Acc s' := by
  simp only [step] at h; (repeat' split at h) <;> simp at h
  subst h
  exact acc_of_holds hA rfl rfl rfl (fun _ => rfl)

theorem acc_stBottom {s s' : St} {t : Nat} {x : Int} (hI : Inv s) (hA : Acc s)
    (h : step s (.stBottom t x) = some s') : Acc s' := by
  simp only [step] at h
  split at h
  next => (repeat' split at h) <;> simp at h <;> subst h <;> acc_loc hA t
  next => (repeat' split at h) <;> simp at h <;> subst h <;> acc_loc hA t
  next => (repeat' split at h) <;> simp at h <;> subst h <;> acc_loc hA t
  next tt r hpc =>
    (repeat' split at h) <;> simp at h
    subst h
    cases r <;> acc_loc hA t
  next => simp at h

theorem acc_rdSlot {s s' : St} {t : Nat} {i : Nat} {x : Int} (hI : Inv s) (hA : Acc s)
    (h : step s (.rdSlot t i x) = some s') : Acc s' := by
  simp only [step] at h
  split at h
  next b tt hpc =>
    have ht := tid_zero hI hpc (by simp [thiefOk]); subst ht
    have ho := hI.owner; rw [hpc] at ho; simp only [ownerOk] at ho
    split at h
    next hc =>
      obtain ⟨-, hx⟩ := hc
      rw [load_of_drained ho.1] at hx
      split at h
      next hlt =>
        simp at h; subst h
        apply acc_local hA 0 <;> first | rfl | (intro w hw; simp [upd, hw]; done) | skip
        have : s.m.mem (cSlot s.n b) = s.vals b := by
          rcases ho.2.2.2.2 with h1 | h1
          · exact h1.2.2
          · omega
        simp [upd, holdsPc, hpc, hlt, hx, this]
      next hnlt =>
        simp at h; subst h
        apply acc_local hA 0 <;>
          first | rfl | (intro w hw; simp [upd, hw]; done) | (simp [upd, holdsPc, *]; done)
    next => simp at h
  next => (repeat' split at h) <;> simp at h <;> subst h <;> acc_loc hA t
  next => simp at h

theorem acc_ldTop {s s' : St} {t : Nat} {x : Int} (hI : Inv s) (hA : Acc s)
    (h : step s (.ldTop t x) = some s') : Acc s' := by
  simp only [step] at h
  split at h
  next => (repeat' split at h) <;> simp at h <;> subst h <;> acc_loc hA t
  next b hpc =>
    split at h
    next hc =>
      split at h
      next hlt => simp at h; subst h; acc_loc hA t
      next hnlt =>
        split at h
        next hlt =>
          simp at h; subst h
          apply acc_commit hA t (s.vals b) <;> first | rfl | (intro w hw; simp [upd, hw]; done) | skip
          · simp [hpc, holdsPc]
          · simp [upd, holdsPc, hlt]
        next hnlt2 =>
          simp at h; subst h
          apply acc_local hA t <;> first | rfl | (intro w hw; simp [upd, hw]; done) | skip
          simp [upd, holdsPc, hpc]; omega
    next => simp at h
  next => (repeat' split at h) <;> simp at h <;> subst h <;> acc_loc hA t
  next => simp at h

theorem acc_casTop {s s' : St} {t : Nat} {found exp des : Int} {ok : Bool} (hI : Inv s) (hA : Acc s)
    (h : step s (.casTop t found exp des ok) = some s') : Acc s' := by
  simp only [step] at h
  split at h
  next b tt x hpc =>
    split at h
    next hc =>
      split at h
      next hwon =>
        simp at h; subst h
        apply acc_commit hA t x <;> first | rfl | (intro w hw; simp [upd, hw]; done) | skip
        · simp [hpc, holdsPc]
        · simp [upd, holdsPc]
      next hlost => simp at h; subst h; acc_loc hA t
    next => simp at h
  next tt x hpc =>
    split at h
    next hc =>
      split at h
      next hwon =>
        simp at h; subst h
        apply acc_commit hA t x <;> first | rfl | (intro w hw; simp [upd, hw]; done) | skip
        · simp [hpc, holdsPc]
        · simp [upd, holdsPc]
      next hlost => simp at h; subst h; acc_loc hA t
    next => simp at h
  next => simp at h

theorem acc_retPop {s s' : St} {t : Nat} {r : Int} (hI : Inv s) (hA : Acc s)
    (h : step s (.retPop t r) = some s') : Acc s' := by
  simp only [step] at h
  split at h
  next r' hpc =>
    split at h <;> simp at h
    subst h
    apply acc_ret hA t r' <;> first | rfl | (intro w hw; simp [upd, hw]; done) | skip
    · cases r' <;> simp [hpc, holdsPc]
    · simp [upd, holdsPc]
  next => simp at h

theorem acc_retSteal {s s' : St} {t : Nat} {r : Int} (hI : Inv s) (hA : Acc s)
    (h : step s (.retSteal t r) = some s') : Acc s' := by
  simp only [step] at h
  split at h
  next r' hpc =>
    split at h <;> simp at h
    subst h
    apply acc_ret hA t r' <;> first | rfl | (intro w hw; simp [upd, hw]; done) | skip
    · cases r' <;> simp [hpc, holdsPc]
    · simp [upd, holdsPc]
  next => simp at h

theorem acc_wrSlot {s s' : St} {t : Nat} {i : Nat} {x : Int} (hI : Inv s) (hA : Acc s)
    (h : step s (.wrSlot t i x) = some s') : Acc s' := by
  -- slot writes happen only while the owner is inside push_bottom: nobody holds a value
  -- whose identity depends on `vals`
  have thief_indep : ∀ u, u ≠ 0 → ∀ vl, holdsPc vl (s.pc u) = holdsPc s.vals (s.pc u) := by
    intro u hu vl
    have := hI.thief u hu
    cases hp : s.pc u <;> simp [hp, thiefOk] at this <;> (first | rfl | (rename_i r; cases r <;> rfl))
  simp only [step] at h
  split at h
  next v b hpc =>
    have ht := tid_zero hI hpc (by simp [thiefOk]); subst ht
    (repeat' split at h) <;> simp at h
    subst h
    apply acc_of_holds hA (by rfl) (by rfl) (by rfl)
    intro u
    by_cases hu : u = 0
    · subst hu; simp [holds, upd, hpc, holdsPc]
    · simp only [holds, upd, hu, if_false]; exact thief_indep u hu _
  next => simp at h

theorem acc_step {s s' : St} {e : Ev} (hI : Inv s) (hA : Acc s) (h : step s e = some s') :
    Acc s' := by
  cases e with
  | callPush t v => exact acc_callPush hI hA h
  | callPop t => exact acc_callPop hI hA h
  | callSteal t => exact acc_callSteal hI hA h
  | retPush t => exact acc_retPush hI hA h
  | ldBottom t x => exact acc_ldBottom hI hA h
  | flush t => exact acc_flush hI hA h
  | stBottom t x => exact acc_stBottom hI hA h
  | rdSlot t i x => exact acc_rdSlot hI hA h
  | ldTop t x => exact acc_ldTop hI hA h
  | casTop t found exp des ok => exact acc_casTop hI hA h
  | retPop t r => exact acc_retPop hI hA h
  | retSteal t r => exact acc_retSteal hI hA h
  | wrSlot t i x => exact acc_wrSlot hI hA h

theorem inv_acc_of_run {n : Nat} {es : List Ev} {s : St} (h : (sys true n).run es = some s) :
    Inv s ∧ Acc s :=
  Sys.inv_of_run (sys true n) (fun s => Inv s ∧ Acc s) ⟨inv_init n, acc_init true n⟩
    (fun _ _ _ hIA hs => ⟨inv_step hIA.1 hs, acc_step hIA.1 hIA.2 hs⟩) h

end LibfiberVerif.WsdTso
