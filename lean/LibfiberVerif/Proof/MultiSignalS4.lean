/-
  Proof/MultiSignalS4.lean — `MultiSignal.Inv` is preserved by the events of group S4
  (one lemma per event; split over several modules so that they compile in parallel).
-/
import LibfiberVerif.Proof.MultiSignalInv

namespace LibfiberVerif.MultiSignal

set_option maxHeartbeats 4000000 in
theorem inv_step_callTake (s s' : St) (f : _) (hi : Inv s) (hs : step s (.callTake f) = some s') : Inv s' := by
  obtain ⟨h1, h2, h3, h4, h5, h6, h7, h8, h9, h10, h11, h12, h13, h14, h15, h16, h17, h18, h19, h20, h21, h22, h23, h24, h25, h26, h27, h28, h29, h30⟩ := hi
  simp only [step] at hs
  repeat' (split at hs)
  all_goals (try simp at hs)
  all_goals (first | subst hs | (obtain ⟨_, hs⟩ := hs; subst hs))
  all_goals (constructor <;> ms_close)

set_option maxHeartbeats 4000000 in
theorem inv_step_took (s s' : St) (f : _) (hi : Inv s) (hs : step s (.took f) = some s') : Inv s' := by
  obtain ⟨h1, h2, h3, h4, h5, h6, h7, h8, h9, h10, h11, h12, h13, h14, h15, h16, h17, h18, h19, h20, h21, h22, h23, h24, h25, h26, h27, h28, h29, h30⟩ := hi
  simp only [step] at hs
  repeat' (split at hs)
  all_goals (try simp at hs)
  all_goals (first | subst hs | (obtain ⟨_, hs⟩ := hs; subst hs))
  all_goals (constructor <;> ms_close)

set_option maxHeartbeats 4000000 in
theorem inv_step_retTake (s s' : St) (f : _) (hi : Inv s) (hs : step s (.retTake f) = some s') : Inv s' := by
  obtain ⟨h1, h2, h3, h4, h5, h6, h7, h8, h9, h10, h11, h12, h13, h14, h15, h16, h17, h18, h19, h20, h21, h22, h23, h24, h25, h26, h27, h28, h29, h30⟩ := hi
  simp only [step] at hs
  repeat' (split at hs)
  all_goals (try simp at hs)
  all_goals (first | subst hs | (obtain ⟨_, hs⟩ := hs; subst hs))
  all_goals (constructor <;> ms_close)

set_option maxHeartbeats 4000000 in
theorem inv_step_callPublish (s s' : St) (f : _) (hi : Inv s) (hs : step s (.callPublish f) = some s') : Inv s' := by
  obtain ⟨h1, h2, h3, h4, h5, h6, h7, h8, h9, h10, h11, h12, h13, h14, h15, h16, h17, h18, h19, h20, h21, h22, h23, h24, h25, h26, h27, h28, h29, h30⟩ := hi
  simp only [step] at hs
  repeat' (split at hs)
  all_goals (try simp at hs)
  all_goals (first | subst hs | (obtain ⟨_, hs⟩ := hs; subst hs))
  all_goals (constructor <;> ms_close)

set_option maxHeartbeats 4000000 in
theorem inv_step_ldTokens (s s' : St) (f v : _) (hi : Inv s) (hs : step s (.ldTokens f v) = some s') : Inv s' := by
  obtain ⟨h1, h2, h3, h4, h5, h6, h7, h8, h9, h10, h11, h12, h13, h14, h15, h16, h17, h18, h19, h20, h21, h22, h23, h24, h25, h26, h27, h28, h29, h30⟩ := hi
  simp only [step] at hs
  repeat' (split at hs)
  all_goals (try simp at hs)
  all_goals (first | subst hs | (obtain ⟨_, hs⟩ := hs; subst hs))
  all_goals (constructor <;> ms_close)

set_option maxHeartbeats 4000000 in
theorem inv_step_casTokens (s s' : St) (f a b c ok : _) (hi : Inv s) (hs : step s (.casTokens f a b c ok) = some s') : Inv s' := by
  obtain ⟨h1, h2, h3, h4, h5, h6, h7, h8, h9, h10, h11, h12, h13, h14, h15, h16, h17, h18, h19, h20, h21, h22, h23, h24, h25, h26, h27, h28, h29, h30⟩ := hi
  simp only [step] at hs
  repeat' (split at hs)
  all_goals (try simp at hs)
  all_goals (first | subst hs | (obtain ⟨_, hs⟩ := hs; subst hs))
  all_goals (constructor <;> ms_close)

set_option maxHeartbeats 4000000 in
theorem inv_step_faddTokens (s s' : St) (f old : _) (hi : Inv s) (hs : step s (.faddTokens f old) = some s') : Inv s' := by
  obtain ⟨h1, h2, h3, h4, h5, h6, h7, h8, h9, h10, h11, h12, h13, h14, h15, h16, h17, h18, h19, h20, h21, h22, h23, h24, h25, h26, h27, h28, h29, h30⟩ := hi
  simp only [step] at hs
  repeat' (split at hs)
  all_goals (try simp at hs)
  all_goals (first | subst hs | (obtain ⟨_, hs⟩ := hs; subst hs))
  all_goals (constructor <;> ms_close)

set_option maxHeartbeats 4000000 in
theorem inv_step_peekHead (s s' : St) (f h : _) (hi : Inv s) (hs : step s (.peekHead f h) = some s') : Inv s' := by
  obtain ⟨h1, h2, h3, h4, h5, h6, h7, h8, h9, h10, h11, h12, h13, h14, h15, h16, h17, h18, h19, h20, h21, h22, h23, h24, h25, h26, h27, h28, h29, h30⟩ := hi
  simp only [step] at hs
  repeat' (split at hs)
  all_goals (try simp at hs)
  all_goals (first | subst hs | (obtain ⟨_, hs⟩ := hs; subst hs))
  all_goals (constructor <;> ms_close)

set_option maxHeartbeats 4000000 in
theorem inv_step_wNext (s s' : St) (f n : Nat) (h : H) (hi : Inv s)
    (hs : step s (.wNext f n h) = some s') : Inv s' := by
  have hst := stack_of_head hi
  have hI := hi
  obtain ⟨h1, h2, h3, h4, h5, h6, h7, h8, h9, h10, h11, h12, h13, h14, h15, h16, h17, h18, h19, h20,
    h21, h22, h23, h24, h25, h26, h27, h28, h29, h30⟩ := hi
  simp only [step] at hs
  split at hs <;> simp at hs
  rename_i m c h' hpc
  obtain ⟨⟨hn, hh, hr⟩, hs⟩ := hs
  subst hn hh hs
  have hnf : n = f := (hI.snapW2 f n c h hpc).2.2
  subst hnf
  have hnot : n ∉ s.stack := by
    intro hm
    have := (hI.listed n hm).1
    simp [Pc.sleepy, hpc] at this
  have hchain := chain_upd_of_not_mem s.next n h s.stack hnot hI.chain
  have hnode : ∀ m, s.head = .node m → m ∈ s.stack := by
    intro m hm
    obtain ⟨rest, hr, _⟩ := hst.2.2 m hm
    rw [hr]; simp
  constructor
  case chain => exact hchain
  all_goals ms_close

end LibfiberVerif.MultiSignal
