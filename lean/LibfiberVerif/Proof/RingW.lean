/-
  Proof/RingW.lean — the 64-bit machine `Model/RingW.lean` refines the unbounded model
  `Model/Ring.lean`, step by step (property C16, wrap-around of `high` / `low` modulo 2^64).

  `Rel c w u` relates a state `w` of the 64-bit machine started at `base = c` to a state `u` of
  the unbounded model started at 0:
      w.high = (c + u.high) mod 2^64,   w.low = (c + u.low) mod 2^64,
      slot `(c + i) mod 2^k` of `w`  =  slot `i mod 2^k` of `u`        (claim index `i`),
      every program counter of `w` is the program counter of `u` with its counter components
      wrapped the same way; wrapper frames and all ghost fields are equal.
  `sim_step`: every step of the 64-bit machine from a related state is matched by the step of
  the unbounded model on the un-wrapped event, provided
      (Fresh)   since the stepping thread's call began fewer than 2^63 pushes and fewer than 2^63
                pops have taken effect, and
      (NoWrap)  for the code as it is (`fx = false`): `c mod 2^64 + (pushes so far) < 2^64`.
  The comparisons of the C code and what they need (H, L = unbounded values of the two locals):
      trypush  `high - low < size`              difference;  right iff  H - L < 2^64
      CAS                                       equality;    right iff  fewer than 2^64 pushes
                                                             (pops) since the value was read
      push     `high - low >= size`             difference;  right iff  L - H ≤ 2^64 - size
      size     `(int64_t)(high - low) >= 0`     sign of the difference; right iff L - H ≤ 2^63
      trypop   `high > low`, pop `high <= low`  VALUES: right only while both counters are on
                                                the same side of 2^64 (NoWrap); with the sign
                                                of the difference (`fx = true`): L - H ≤ 2^63.
-/
import LibfiberVerif.Proof.Ring
import LibfiberVerif.Model.RingW

namespace LibfiberVerif.RingW
open Ring (Pc Ev Wrap idx)

/-! ### arithmetic -/

/-- the 64-bit pattern of the unbounded counter value `x` when the counters started at `c` -/
def wr (c x : Nat) : Nat := (c + x) % M

theorem two_pow_dvd_M {k : Nat} (hk : k ≤ 64) : 2 ^ k ∣ M := by
  have : M = 2 ^ 64 := by decide
  rw [this]; exact Nat.pow_dvd_pow 2 hk

/-- the slot of a 64-bit counter value: capacity `2^k` divides `2^64` -/
theorem idx_wr {k : Nat} (hk : k ≤ 64) (c x : Nat) : idx (2 ^ k) (wr c x) = (c + x) % 2 ^ k := by
  rw [Ring.idx_two_pow, wr, Nat.mod_mod_of_dvd _ (two_pow_dvd_M hk)]

theorem add_mod_inj {c i j S : Nat} : (c + i) % S = (c + j) % S ↔ i % S = j % S := by
  constructor
  · intro h
    have key : ∀ a b : Nat, a ≤ b → (c + a) % S = (c + b) % S → a % S = b % S := by
      intro a b hab h
      have h0 : ((c + b) - (c + a)) % S = 0 := Nat.sub_mod_eq_zero_of_mod_eq h.symm
      have e : (c + b) - (c + a) = b - a := by omega
      rw [e] at h0
      obtain ⟨q, hq⟩ := Nat.dvd_of_mod_eq_zero h0
      have : b = a + S * q := by omega
      rw [this, Nat.add_mul_mod_self_left]
    rcases Nat.le_total i j with hij | hij
    · exact key i j hij h
    · exact (key j i hij h.symm).symm
  · intro h
    rw [Nat.add_mod c i, Nat.add_mod c j, h]

theorem pow_le_31 {k : Nat} (hk : k ≤ 31) : 2 ^ k ≤ 2147483648 := by
  have : (2147483648 : Nat) = 2 ^ 31 := by decide
  rw [this]; exact Nat.pow_le_pow_right (by decide) hk

/-! ### wrapping program counters and events -/

def wrapPc (c : Nat) : Pc → Pc
  | .idle => .idle
  | .pushCalled v => .pushCalled v
  | .pushGotLow v l => .pushGotLow v (wr c l)
  | .pushGotHigh v l h => .pushGotHigh v (wr c l) (wr c h)
  | .pushReadSlot v l h x => .pushReadSlot v (wr c l) (wr c h) x
  | .pushClaimed v h => .pushClaimed v (wr c h)
  | .pushDone r => .pushDone r
  | .popCalled => .popCalled
  | .popGotHigh h => .popGotHigh (wr c h)
  | .popGotLow h l => .popGotLow (wr c h) (wr c l)
  | .popReadSlot h l x => .popReadSlot (wr c h) (wr c l) x
  | .popClaimed l x => .popClaimed (wr c l) x
  | .popDone x => .popDone x
  | .bpushGotHigh v h => .bpushGotHigh v (wr c h)
  | .bpushFull v => .bpushFull v
  | .bpopGotHigh h => .bpopGotHigh (wr c h)
  | .bpopEmpty => .bpopEmpty
  | .sizeCalled => .sizeCalled
  | .sizeGotHigh h g => .sizeGotHigh (wr c h) (wr c g)
  | .sizeGotBoth h l g h2 => .sizeGotBoth (wr c h) (wr c l) (wr c g) (wr c h2)

/-- the event of the 64-bit machine that corresponds to an event of the unbounded model:
    counter values are wrapped, slot `i` becomes slot `(c + i) mod S`; thread, operation,
    pushed / popped / returned values and the CAS outcome are the same -/
def wrapEv (c S : Nat) : Ev → Ev
  | .ldLow t x => .ldLow t (wr c x)
  | .ldHigh t x => .ldHigh t (wr c x)
  | .wLdLow t x => .wLdLow t (wr c x)
  | .wLdHigh t x => .wLdHigh t (wr c x)
  | .rdBuf t i x => .rdBuf t ((c + i) % S) x
  | .wrBuf t i x => .wrBuf t ((c + i) % S) x
  | .casHigh t f e d ok => .casHigh t (wr c f) (wr c e) (wr c d) ok
  | .casLow t f e d ok => .casLow t (wr c f) (wr c e) (wr c d) ok
  | e => e

theorem wrapPc_pushing (c : Nat) (p : Pc) : (wrapPc c p).pushing = p.pushing := by
  cases p <;> rfl

theorem wrapPc_popping (c : Nat) (p : Pc) : (wrapPc c p).popping = p.popping := by
  cases p <;> rfl

theorem wrapPc_idle {c : Nat} {p : Pc} : wrapPc c p = .idle ↔ p = .idle := by
  cases p <;> simp [wrapPc]

/-! ### the simulation relation -/

/-- what the simulation needs to know about the counter values held by a thread, beyond
    `Ring.PcOk`: `P0` / `O0` = number of pushes / pops when the thread's call began -/
def LocOk (P0 O0 S high low : Nat) : Pc → Prop
  | .pushGotLow _ l => O0 ≤ l
  | .pushGotHigh _ l h => O0 ≤ l ∧ l ≤ h
  | .pushReadSlot _ l h _ => O0 ≤ l ∧ l ≤ h
  | .popGotHigh h => P0 ≤ h ∧ h ≤ low + S
  | .popGotLow h l => P0 ≤ h ∧ h ≤ l + S
  | .popReadSlot h l _ => P0 ≤ h ∧ h ≤ l + S
  | .bpushGotHigh _ h => P0 ≤ h ∧ h ≤ low + S ∧ h ≤ high
  | .bpopGotHigh h => P0 ≤ h ∧ h ≤ low + S ∧ h ≤ high
  | .sizeGotHigh h _ => P0 ≤ h
  | .sizeGotBoth h _ _ _ => P0 ≤ h
  | _ => True

theorem LocOk.mono {P0 O0 S high low high' low' : Nat} {p : Pc} (h : LocOk P0 O0 S high low p)
    (hh : high ≤ high') (hl : low ≤ low') : LocOk P0 O0 S high' low' p := by
  cases p <;> simp only [LocOk] at h ⊢ <;> omega

structure Rel (c : Nat) (w : St) (u : Ring.St) : Prop where
  size : w.size = u.size
  high : w.high = wr c u.high
  low : w.low = wr c u.low
  buf : ∀ i, w.buf ((c + i) % u.size) = u.buf (i % u.size)
  pc : ∀ t, w.pc t = wrapPc c (u.pc t)
  wrap : w.wrap = u.wrap
  pushed : w.pushed = u.pushed
  popped : w.popped = u.popped
  arg : w.arg = u.arg
  active : w.active = u.active
  wit : w.wit = u.wit
  snap : ∀ t, w.lo0 t ≤ w.hi0 t ∧ w.hi0 t ≤ u.high ∧ w.lo0 t ≤ u.low
  loc : ∀ t, LocOk (w.hi0 t) (w.lo0 t) u.size u.high u.low (u.pc t)

/-- (Fresh) no call in progress has been overlapped by 2^63 or more successful pushes, nor by
    2^63 or more successful pops -/
def Fresh (w : St) : Prop :=
  ∀ t, w.pc t ≠ .idle → w.pushed.length < w.hi0 t + H63 ∧ w.popped.length < w.lo0 t + H63

/-- (NoWrap) the code as it is needs `high` not to have crossed 2^64 yet -/
def NoWrap (fx : Bool) (c : Nat) (w : St) : Prop := fx = false → c % M + w.pushed.length < M

theorem rel_init (c size : Nat) : Rel c (init size c) (Ring.init size) := by
  constructor <;> simp [init, Ring.init, wr, wrapPc, LocOk]

/-- a step that only moves thread `t`'s program counter -/
theorem Rel.setPc {c : Nat} {w : St} {u : Ring.St} (hR : Rel c w u) (t : Nat) (p q : Pc)
    (hq : q = wrapPc c p) (hl : LocOk (w.hi0 t) (w.lo0 t) u.size u.high u.low p) :
    Rel c { w with pc := upd w.pc t q } { u with pc := upd u.pc t p } := by
  subst hq
  refine { hR with pc := ?_, loc := ?_ }
  · intro t'
    by_cases e : t' = t
    · subst e; simp
    · simp [upd_other _ _ _ _ e, hR.pc t']
  · intro t'
    by_cases e : t' = t
    · subst e; simpa using hl
    · simpa [upd_other _ _ _ _ e] using hR.loc t'

/-- a `call` event: `p` is `pushCalled v`, `popCalled` or `sizeCalled` -/
theorem Rel.call {c N : Nat} {w : St} {u : Ring.St} (hR : Rel c w u) (hI : Ring.Inv N u)
    (t : Nat) (p q : Pc) (hq : q = wrapPc c p)
    (hl : ∀ P0 O0, LocOk P0 O0 u.size u.high u.low p) (a a' : Nat → Nat) (ha : a = a')
    (wp wp' : Nat → Wrap) (hw : wp = wp') :
    Rel c { called w t q with arg := a, wrap := wp }
      { u with pc := upd u.pc t p, arg := a', wrap := wp', active := t :: u.active,
               wit := upd u.wit t false } := by
  subst hq ha hw
  have hlen : w.pushed.length = u.high := by rw [hR.pushed, hI.data.len_pushed]
  have hlen' : w.popped.length = u.low := by rw [hR.popped, hI.popped_len]
  refine { hR with pc := ?_, loc := ?_, wrap := rfl, arg := rfl, active := ?_, wit := ?_, snap := ?_ }
  · intro t'
    by_cases e : t' = t
    · subst e; simp [called]
    · simp [called, upd_other _ _ _ _ e, hR.pc t']
  · simp [called, hR.active]
  · simp [called, hR.wit]
  · intro t'
    by_cases e : t' = t
    · subst e; simp only [called, upd_same, hlen, hlen']; have := hI.data.low_le; omega
    · simpa [called, upd_other _ _ _ _ e] using hR.snap t'
  · intro t'
    by_cases e : t' = t
    · subst e; simpa [called] using hl _ _
    · simpa [called, upd_other _ _ _ _ e] using hR.loc t'

/-- a `ret` event -/
theorem Rel.ret {c : Nat} {w : St} {u : Ring.St} (hR : Rel c w u) (t : Nat)
    (wp wp' : Nat → Wrap) (hw : wp = wp') :
    Rel c { returned w t with wrap := wp }
      { u with pc := upd u.pc t .idle, wrap := wp',
               active := u.active.filter (fun x => x != t) } := by
  subst hw
  refine { hR with pc := ?_, loc := ?_, wrap := rfl, active := ?_ }
  · intro t'
    by_cases e : t' = t
    · subst e; simp [returned, wrapPc]
    · simp [returned, upd_other _ _ _ _ e, hR.pc t']
  · simp [returned, hR.active]
  · intro t'
    by_cases e : t' = t
    · subst e; simp [LocOk]
    · simpa [returned, upd_other _ _ _ _ e] using hR.loc t'

/-- a successful CAS on `high` -/
theorem Rel.casHigh {c : Nat} {w : St} {u : Ring.St} (hR : Rel c w u) (t v h des : Nat)
    (hh : u.high = h) (hd : des = wr c (h + 1)) :
    Rel c { w with high := des, pushed := w.pushed ++ [v], pc := upd w.pc t (.pushClaimed v (wr c h)) }
      { u with high := h + 1, pushed := u.pushed ++ [v], pc := upd u.pc t (.pushClaimed v h) } := by
  subst hd
  refine { hR with high := rfl, pc := ?_, loc := ?_, pushed := ?_, snap := ?_ }
  · intro t'
    by_cases e : t' = t
    · subst e; simp [wrapPc]
    · simp [upd_other _ _ _ _ e, hR.pc t']
  · simp [hR.pushed]
  · intro t'; have := hR.snap t'; simp only; omega
  · intro t'
    by_cases e : t' = t
    · subst e; simp [LocOk]
    · simp only [upd_other _ _ _ _ e]; exact (hR.loc t').mono (by omega) (Nat.le_refl _)

/-- a successful CAS on `low` -/
theorem Rel.casLow {c : Nat} {w : St} {u : Ring.St} (hR : Rel c w u) (t x l des : Nat)
    (hh : u.low = l) (hd : des = wr c (l + 1)) :
    Rel c { w with low := des, popped := w.popped ++ [x], pc := upd w.pc t (.popClaimed (wr c l) x) }
      { u with low := l + 1, popped := u.popped ++ [x], pc := upd u.pc t (.popClaimed l x) } := by
  subst hd
  refine { hR with low := rfl, pc := ?_, loc := ?_, popped := ?_, snap := ?_ }
  · intro t'
    by_cases e : t' = t
    · subst e; simp [wrapPc]
    · simp [upd_other _ _ _ _ e, hR.pc t']
  · simp [hR.popped]
  · intro t'; have := hR.snap t'; simp only; omega
  · intro t'
    by_cases e : t' = t
    · subst e; simp [LocOk]
    · simp only [upd_other _ _ _ _ e]; exact (hR.loc t').mono (Nat.le_refl _) (by omega)

/-- a slot write (by a pusher: `wr' = upd u.written h true`, or by a popper: the clear) -/
theorem Rel.wrBuf {c : Nat} {w : St} {u : Ring.St} (hR : Rel c w u) (t j x : Nat) (p : Pc)
    (hp : ∀ P0 O0, LocOk P0 O0 u.size u.high u.low p) (wr' cl' : Nat → Bool) :
    Rel c { w with buf := upd w.buf ((c + j) % u.size) x, pc := upd w.pc t (wrapPc c p) }
      { u with buf := upd u.buf (j % u.size) x, written := wr', cleared := cl',
               pc := upd u.pc t p } := by
  refine { hR with buf := ?_, pc := ?_, loc := ?_ }
  · intro i
    show upd w.buf ((c + j) % u.size) x ((c + i) % u.size) = upd u.buf (j % u.size) x (i % u.size)
    by_cases e : i % u.size = j % u.size
    · rw [e, add_mod_inj.mpr e]; simp
    · rw [upd_other _ _ _ _ e, upd_other _ _ _ _ (fun h => e (add_mod_inj.mp h))]; exact hR.buf i
  · intro t'
    by_cases e : t' = t
    · subst e; simp
    · simp [upd_other _ _ _ _ e, hR.pc t']
  · intro t'
    by_cases e : t' = t
    · subst e; simpa using hp _ _
    · simpa [upd_other _ _ _ _ e] using hR.loc t'

/-- numeric facts available at every step of thread `t` (inside a call) -/
structure Facts (k c : Nat) (w : St) (u : Ring.St) (t : Nat) : Prop where
  sz : u.size = 2 ^ k
  szle : 2 ^ k ≤ 2147483648
  szpos : 0 < 2 ^ k
  low_le : u.low ≤ u.high
  high_le : u.high ≤ u.low + 2 ^ k
  s1 : w.lo0 t ≤ w.hi0 t
  s2 : w.hi0 t ≤ u.high
  s3 : w.lo0 t ≤ u.low
  f1 : u.high < w.hi0 t + 9223372036854775808
  f2 : u.low < w.lo0 t + 9223372036854775808

theorem facts {k c : Nat} {w : St} {u : Ring.St} (hk : k ≤ 31) (hR : Rel c w u)
    (hI : Ring.Inv (2 ^ k) u) (hF : Fresh w) (t : Nat) (hpc : u.pc t ≠ .idle) :
    Facts k c w u t := by
  have hne : w.pc t ≠ .idle := by rw [hR.pc t]; exact fun h => hpc (wrapPc_idle.mp h)
  obtain ⟨f1, f2⟩ := hF t hne
  rw [hR.pushed, hI.data.len_pushed] at f1
  rw [hR.popped, hI.popped_len] at f2
  obtain ⟨s1, s2, s3⟩ := hR.snap t
  exact ⟨hI.data.size_eq, pow_le_31 hk, Nat.pow_pos (by decide), hI.data.low_le, hI.data.high_le,
    s1, s2, s3, f1, f2⟩

/-! ### the comparisons of the C code on wrapped values -/

theorem wsub_wr_le {c h l : Nat} (hle : l ≤ h) (hlt : h - l < 18446744073709551616) :
    wsub (wr c h) (wr c l) = h - l := by
  simp only [wsub, wr, M] at *; omega

theorem wsub_wr_gt {c h l : Nat} (hlt : h < l) (hb : l - h < 18446744073709551616) :
    wsub (wr c h) (wr c l) = M - (l - h) := by
  simp only [wsub, wr, M] at *; omega

theorem wadd1_wr (c h : Nat) : wadd1 (wr c h) = wr c (h + 1) := by
  simp only [wadd1, wr, M]; omega

theorem wr_inj {c a b : Nat} (h : a ≤ b) (hb : b - a < 18446744073709551616) : wr c b = wr c a ↔ b = a := by
  simp only [wr, M] at *; omega

/-- `high > low` of trypop / pop: as it is (values) while nothing has wrapped; as the sign of
    the difference whenever `l - h ≤ 2^63` -/
theorem gt_wr {fx : Bool} {c h l S : Nat} (hS : S ≤ 2147483648) (h1 : h ≤ l + S)
    (h2 : l ≤ h + 9223372036854775808)
    (hN : fx = false → c % 18446744073709551616 + h < 18446744073709551616 ∧
      c % 18446744073709551616 + l < 18446744073709551616) :
    gt fx (wr c h) (wr c l) = decide (l < h) := by
  rw [Bool.eq_iff_iff]
  cases fx with
  | true =>
    simp only [gt, spos, ite_true, Bool.and_eq_true, decide_eq_true_eq]
    by_cases hle : l ≤ h
    · rw [wsub_wr_le (c := c) hle (by omega)]
      simp only [H63] at *; omega
    · rw [wsub_wr_gt (c := c) (h := h) (l := l) (by omega) (by omega)]
      simp only [H63, M] at *; omega
  | false =>
    obtain ⟨a, b⟩ := hN rfl
    simp only [gt, Bool.false_eq_true, ite_false, decide_eq_true_eq]
    simp only [wr, M] at *
    have e1 : (c + h) % 18446744073709551616 = c % 18446744073709551616 + h := by omega
    have e2 : (c + l) % 18446744073709551616 = c % 18446744073709551616 + l := by omega
    omega

/-- `(int64_t)(high - low) >= 0 ? high - low : 0` is truncated subtraction when `l - h ≤ 2^63` -/
theorem sclamp_wr {c h l S : Nat} (hS : S ≤ 2147483648) (h1 : h ≤ l + S)
    (h2 : l ≤ h + 9223372036854775808) :
    sclamp (wsub (wr c h) (wr c l)) = h - l := by
  by_cases hle : l ≤ h
  · rw [wsub_wr_le hle (by omega)]; simp only [sclamp, H63]; split <;> omega
  · rw [wsub_wr_gt (by omega) (by omega)]
    simp only [sclamp, H63, M] at *; split <;> omega

/-! ### one step of the 64-bit machine is one step of the unbounded model -/

/-- the unbounded model takes the un-wrapped event `e'` and the results are related again -/
def SimGoal (c k : Nat) (u : Ring.St) (e : Ev) (w' : St) : Prop :=
  ∃ e' u', Ring.core u e' = some u' ∧ wrapEv c (2 ^ k) e' = e ∧ Rel c w' u'

section sim
variable {fx : Bool} {k c : Nat} {w w' : St} {u : Ring.St}

/-- eliminate the program counters of `u` at which the 64-bit machine cannot take the event -/
syntax "pc_cases " ident ident ident ident ident : tactic
macro_rules
  | `(tactic| pc_cases $hR $hs $t $hp $hu) =>
    `(tactic| (
      have $hp:ident := Rel.pc $hR $t
      simp only [core] at $hs:ident
      cases $hu:ident : Ring.St.pc _ $t <;> rw [$hu:ident] at $hp:ident <;>
        simp only [wrapPc] at $hp:ident <;> simp only [$hp:ident] at $hs:ident <;>
        try contradiction))

theorem sim_ldLow {t x : Nat} (hR : Rel c w u)
    (hs : core fx w (.ldLow t x) = some w') : SimGoal c k u (.ldLow t x) w' := by
  pc_cases hR hs t hp hu
  case pushCalled v =>
    split at hs <;> simp at hs
    subst hs
    rename_i hx
    refine ⟨.ldLow t u.low, { u with pc := upd u.pc t (.pushGotLow v u.low) }, ?_, ?_, ?_⟩
    · simp [Ring.core, hu]
    · simp [wrapEv, hx, hR.low]
    · exact hR.setPc t _ _ (by simp [wrapPc, hx, hR.low]) (by simp only [LocOk]; exact (hR.snap t).2.2)
  case popGotHigh h =>
    split at hs <;> simp at hs
    subst hs
    rename_i hx
    refine ⟨.ldLow t u.low, { u with pc := upd u.pc t (.popGotLow h u.low) }, ?_, ?_, ?_⟩
    · simp [Ring.core, hu]
    · simp [wrapEv, hx, hR.low]
    · refine hR.setPc t _ _ (by simp [wrapPc, hx, hR.low]) ?_
      have := hR.loc t; rw [hu] at this; simpa only [LocOk] using this

theorem sim_ldHigh {t x : Nat} (hR : Rel c w u) (hI : Ring.Inv (2 ^ k) u)
    (hs : core fx w (.ldHigh t x) = some w') : SimGoal c k u (.ldHigh t x) w' := by
  pc_cases hR hs t hp hu
  case pushGotLow v l =>
    split at hs <;> simp at hs
    subst hs
    rename_i hx
    refine ⟨.ldHigh t u.high, { u with pc := upd u.pc t (.pushGotHigh v l u.high) }, ?_, ?_, ?_⟩
    · simp [Ring.core, hu]
    · simp [wrapEv, hx, hR.high]
    · refine hR.setPc t _ _ (by simp [wrapPc, hx, hR.high]) ?_
      have h1 := hR.loc t; rw [hu] at h1
      have h2 := hI.pcok t; rw [hu] at h2
      have := hI.data.low_le
      simp only [LocOk, Ring.PcOk] at *; omega
  case popCalled =>
    split at hs <;> simp at hs
    subst hs
    rename_i hx
    refine ⟨.ldHigh t u.high, { u with pc := upd u.pc t (.popGotHigh u.high) }, ?_, ?_, ?_⟩
    · simp [Ring.core, hu]
    · simp [wrapEv, hx, hR.high]
    · refine hR.setPc t _ _ (by simp [wrapPc, hx, hR.high]) ?_
      have := hI.data.high_le; have := hI.data.size_eq; have := hR.snap t
      simp only [LocOk]; omega

theorem sim_rdBuf {t i x : Nat} (hk : k ≤ 31) (hR : Rel c w u) (hI : Ring.Inv (2 ^ k) u)
    (hs : core fx w (.rdBuf t i x) = some w') : SimGoal c k u (.rdBuf t i x) w' := by
  have hsz : u.size = 2 ^ k := hI.data.size_eq
  pc_cases hR hs t hp hu
  case pushGotHigh v l h =>
    split at hs <;> simp at hs
    subst hs
    rename_i hx
    obtain ⟨hi, hx⟩ := hx
    have hi' : i = (c + h) % 2 ^ k := by rw [hi, hR.size, hsz, idx_wr (by omega)]
    have hb := hR.buf h; rw [hsz] at hb
    subst hi'
    refine ⟨.rdBuf t (idx u.size h) x, { u with pc := upd u.pc t (.pushReadSlot v l h x) }, ?_, ?_, ?_⟩
    · simp [Ring.core, hu, hsz, Ring.idx_two_pow, ← hb, hx]
    · simp [wrapEv, hsz, Ring.idx_two_pow]
    · refine hR.setPc t _ _ (by simp [wrapPc]) ?_
      have h1 := hR.loc t; rw [hu] at h1; simpa only [LocOk] using h1
  case popGotLow h l =>
    split at hs <;> simp at hs
    subst hs
    rename_i hx
    obtain ⟨hi, hx⟩ := hx
    have hi' : i = (c + l) % 2 ^ k := by rw [hi, hR.size, hsz, idx_wr (by omega)]
    have hb := hR.buf l; rw [hsz] at hb
    subst hi'
    refine ⟨.rdBuf t (idx u.size l) x, { u with pc := upd u.pc t (.popReadSlot h l x) }, ?_, ?_, ?_⟩
    · simp [Ring.core, hu, hsz, Ring.idx_two_pow, ← hb, hx]
    · simp [wrapEv, hsz, Ring.idx_two_pow]
    · refine hR.setPc t _ _ (by simp [wrapPc]) ?_
      have h1 := hR.loc t; rw [hu] at h1; simpa only [LocOk] using h1

/-- trypush's `high - low < size` on the wrapped locals is the unbounded comparison -/
theorem push_cmp {t v l h x : Nat} (hk : k ≤ 31) (hR : Rel c w u) (hI : Ring.Inv (2 ^ k) u)
    (hF : Fresh w) (hu : u.pc t = .pushReadSlot v l h x) :
    wsub (wr c h) (wr c l) = h - l ∧ l ≤ h ∧ h ≤ u.high ∧ u.high - h < 18446744073709551616 := by
  have F := facts (c := c) hk hR hI hF t (by rw [hu]; simp)
  have h1 := hR.loc t; rw [hu] at h1
  have h2 := hI.pcok t; rw [hu] at h2
  simp only [LocOk, Ring.PcOk] at h1 h2
  obtain ⟨_, _, p3, p4, _⟩ := h2
  have := F.szle; have := F.high_le; have := F.f2; have := F.s3; have := F.low_le
  refine ⟨wsub_wr_le h1.2 (by omega), h1.2, p4, by omega⟩

theorem sim_casHigh {t found exp des : Nat} {ok : Bool} (hk : k ≤ 31) (hR : Rel c w u)
    (hI : Ring.Inv (2 ^ k) u) (hF : Fresh w)
    (hs : core fx w (.casHigh t found exp des ok) = some w') :
    SimGoal c k u (.casHigh t found exp des ok) w' := by
  pc_cases hR hs t hp hu
  case pushReadSlot v l h x =>
    obtain ⟨e1, hlh, p4, hst⟩ := push_cmp hk hR hI hF hu
    split at hs <;> try contradiction
    rename_i hg
    obtain ⟨hx0, hlt, hf, he, hd, hok⟩ := hg
    rw [e1, hR.size] at hlt
    have hokU : ok = decide (u.high = h) := by
      rw [hok, hf, he, hR.high]; exact decide_eq_decide.mpr (wr_inj p4 hst)
    subst hf he hd
    refine ⟨.casHigh t u.high h (h + 1) ok, ?_⟩
    split at hs
    · rename_i hok1
      cases hs
      have hh : u.high = h := by rw [hok1] at hokU; simpa using hokU.symm
      refine ⟨{ u with high := h + 1, pushed := u.pushed ++ [v], pc := upd u.pc t (.pushClaimed v h) }, ?_, ?_, ?_⟩
      · simp only [Ring.core, hu]
        rw [if_pos ⟨hx0, hlt, trivial, trivial, trivial, hokU⟩, if_pos hok1]
      · simp [wrapEv, hR.high, wadd1_wr]
      · exact hR.casHigh t v h _ hh (wadd1_wr c h)
    · rename_i hok0
      cases hs
      refine ⟨{ u with pc := upd u.pc t (.pushDone 0) }, ?_, ?_, ?_⟩
      · simp only [Ring.core, hu]
        rw [if_pos ⟨hx0, hlt, trivial, trivial, trivial, hokU⟩, if_neg hok0]
      · simp [wrapEv, hR.high, wadd1_wr]
      · exact hR.setPc t _ _ (by simp [wrapPc]) (by simp [LocOk])

theorem sim_wrBuf {t i x : Nat} (hk : k ≤ 31) (hR : Rel c w u) (hI : Ring.Inv (2 ^ k) u)
    (hs : core fx w (.wrBuf t i x) = some w') : SimGoal c k u (.wrBuf t i x) w' := by
  have hsz : u.size = 2 ^ k := hI.data.size_eq
  pc_cases hR hs t hp hu
  case pushClaimed v h =>
    split at hs <;> simp at hs
    subst hs
    rename_i hx
    obtain ⟨hi, hx⟩ := hx
    have hi' : i = (c + h) % u.size := by rw [hi, hR.size, hsz, idx_wr (by omega)]
    subst hi' hx
    refine ⟨.wrBuf t (idx u.size h) x, { u with buf := upd u.buf (idx u.size h) x, written := upd u.written h true, pc := upd u.pc t (.pushDone 1) }, ?_, ?_, ?_⟩
    · simp [Ring.core, hu]
    · simp [wrapEv, hsz, Ring.idx_two_pow]
    · have := hR.wrBuf t h x (.pushDone 1) (by simp [LocOk]) (upd u.written h true) u.cleared
      rw [hsz, Ring.idx_two_pow]; rw [hsz] at this; exact this
  case popClaimed l v =>
    split at hs <;> simp at hs
    subst hs
    rename_i hx
    obtain ⟨hi, hx⟩ := hx
    have hi' : i = (c + l) % u.size := by rw [hi, hR.size, hsz, idx_wr (by omega)]
    subst hi' hx
    refine ⟨.wrBuf t (idx u.size l) 0, { u with buf := upd u.buf (idx u.size l) 0, cleared := upd u.cleared l true, pc := upd u.pc t (.popDone v) }, ?_, ?_, ?_⟩
    · simp [Ring.core, hu]
    · simp [wrapEv, hsz, Ring.idx_two_pow]
    · have := hR.wrBuf t l 0 (.popDone v) (by simp [LocOk]) u.written (upd u.cleared l true)
      rw [hsz, Ring.idx_two_pow]; rw [hsz] at this; exact this

theorem sim_retPush {t r : Nat} (hk : k ≤ 31) (hR : Rel c w u) (hI : Ring.Inv (2 ^ k) u)
    (hF : Fresh w) (hs : core fx w (.retPush t r) = some w') :
    SimGoal c k u (.retPush t r) w' := by
  pc_cases hR hs t hp hu
  case pushDone r' =>
    split at hs <;> simp at hs
    subst hs
    rename_i hg
    refine ⟨.retPush t r, { u with pc := upd u.pc t .idle, active := u.active.filter (fun x => x != t) }, ?_, rfl, ?_⟩
    · simp only [Ring.core, hu]; rw [if_pos ⟨hg.1, by rw [← hR.wrap]; exact hg.2⟩]
    · exact hR.ret t w.wrap u.wrap hR.wrap
  case pushReadSlot v l h x =>
    obtain ⟨e1, -, -, -⟩ := push_cmp hk hR hI hF hu
    split at hs <;> simp at hs
    subst hs
    rename_i hg
    rw [e1, hR.size] at hg
    refine ⟨.retPush t r, { u with pc := upd u.pc t .idle, active := u.active.filter (fun x => x != t) }, ?_, rfl, ?_⟩
    · simp only [Ring.core, hu]; rw [if_pos ⟨hg.1, hg.2.1, by rw [← hR.wrap]; exact hg.2.2⟩]
    · exact hR.ret t w.wrap u.wrap hR.wrap

/-- trypop's / pop's "`high` is ahead of `low`" on wrapped locals is the unbounded `l < h` -/
theorem pop_cmp {t h l : Nat} (hk : k ≤ 31) (hR : Rel c w u) (hI : Ring.Inv (2 ^ k) u)
    (hF : Fresh w) (hN : NoWrap fx c w) (hpc : u.pc t ≠ .idle)
    (h1 : w.hi0 t ≤ h) (h2 : h ≤ l + 2 ^ k) (h3 : h ≤ u.high) (h4 : l ≤ u.low) :
    gt fx (wr c h) (wr c l) = decide (l < h) := by
  have F := facts (c := c) hk hR hI hF t hpc
  have := F.szle; have := F.high_le; have := F.f2; have := F.s3; have := F.low_le; have := F.s1
  refine gt_wr F.szle h2 (by omega) ?_
  intro hfx
  have := hN hfx
  rw [hR.pushed, hI.data.len_pushed] at this
  simp only [M] at this
  omega

theorem sim_casLow {t found exp des : Nat} {ok : Bool} (hk : k ≤ 31) (hR : Rel c w u)
    (hI : Ring.Inv (2 ^ k) u) (hF : Fresh w) (hN : NoWrap fx c w)
    (hs : core fx w (.casLow t found exp des ok) = some w') :
    SimGoal c k u (.casLow t found exp des ok) w' := by
  pc_cases hR hs t hp hu
  case popReadSlot h l x =>
    have F := facts (c := c) hk hR hI hF t (by rw [hu]; simp)
    have h1 := hR.loc t; rw [hu] at h1
    have h2 := hI.pcok t; rw [hu] at h2
    simp only [LocOk, Ring.PcOk] at h1 h2
    obtain ⟨p1, p2, _⟩ := h2
    have hsz := F.sz
    rw [hsz] at h1
    have e1 := pop_cmp hk hR hI hF hN (t := t) (by rw [hu]; simp) h1.1 h1.2 p1 p2
    split at hs <;> try contradiction
    rename_i hg
    obtain ⟨hx0, hlt, hf, he, hd, hok⟩ := hg
    rw [e1] at hlt
    have hlt' : l < h := by simpa using hlt
    have hst : u.low - l < 18446744073709551616 := by
      have := F.szle; have := F.f2; have := F.s1; omega
    have hokU : ok = decide (u.low = l) := by
      rw [hok, hf, he, hR.low]; exact decide_eq_decide.mpr (wr_inj p2 hst)
    subst hf he hd
    refine ⟨.casLow t u.low l (l + 1) ok, ?_⟩
    split at hs
    · rename_i hok1
      cases hs
      have hh : u.low = l := by rw [hok1] at hokU; simpa using hokU.symm
      refine ⟨{ u with low := l + 1, popped := u.popped ++ [x], pc := upd u.pc t (.popClaimed l x) }, ?_, ?_, ?_⟩
      · simp only [Ring.core, hu]
        rw [if_pos ⟨hx0, hlt', trivial, trivial, trivial, hokU⟩, if_pos hok1]
      · simp [wrapEv, hR.low, wadd1_wr]
      · exact hR.casLow t x l _ hh (wadd1_wr c l)
    · rename_i hok0
      cases hs
      refine ⟨{ u with pc := upd u.pc t (.popDone 0) }, ?_, ?_, ?_⟩
      · simp only [Ring.core, hu]
        rw [if_pos ⟨hx0, hlt', trivial, trivial, trivial, hokU⟩, if_neg hok0]
      · simp [wrapEv, hR.low, wadd1_wr]
      · exact hR.setPc t _ _ (by simp [wrapPc]) (by simp [LocOk])

theorem sim_retPop {t x : Nat} (hk : k ≤ 31) (hR : Rel c w u) (hI : Ring.Inv (2 ^ k) u)
    (hF : Fresh w) (hN : NoWrap fx c w) (hs : core fx w (.retPop t x) = some w') :
    SimGoal c k u (.retPop t x) w' := by
  pc_cases hR hs t hp hu
  case popDone x' =>
    split at hs <;> simp at hs
    subst hs
    rename_i hg
    refine ⟨.retPop t x, { u with pc := upd u.pc t .idle, active := u.active.filter (fun x => x != t) }, ?_, rfl, ?_⟩
    · simp only [Ring.core, hu]; rw [if_pos ⟨hg.1, by rw [← hR.wrap]; exact hg.2⟩]
    · exact hR.ret t w.wrap u.wrap hR.wrap
  case popReadSlot h l y =>
    have F := facts (c := c) hk hR hI hF t (by rw [hu]; simp)
    have h1 := hR.loc t; rw [hu] at h1
    have h2 := hI.pcok t; rw [hu] at h2
    simp only [LocOk, Ring.PcOk] at h1 h2
    obtain ⟨p1, p2, _⟩ := h2
    rw [F.sz] at h1
    have e1 := pop_cmp hk hR hI hF hN (t := t) (by rw [hu]; simp) h1.1 h1.2 p1 p2
    split at hs <;> simp at hs
    subst hs
    rename_i hg
    rw [e1] at hg
    refine ⟨.retPop t x, { u with pc := upd u.pc t .idle, active := u.active.filter (fun x => x != t) }, ?_, rfl, ?_⟩
    · simp only [Ring.core, hu]
      rw [if_pos ⟨by simpa using hg.1, hg.2.1, by rw [← hR.wrap]; exact hg.2.2⟩]
    · exact hR.ret t w.wrap u.wrap hR.wrap

theorem sim_calls {e : Ev} (hR : Rel c w u) (hI : Ring.Inv (2 ^ k) u)
    (he : ∃ t v, e = .callPush t v ∨ e = .callPop t ∨ e = .callBPush t v ∨ e = .callBPop t ∨
      e = .callSize t)
    (hs : core fx w e = some w') : SimGoal c k u e w' := by
  obtain ⟨t, v, he⟩ := he
  have hidle : w.pc t = .idle ↔ u.pc t = .idle := by rw [hR.pc t]; exact wrapPc_idle
  rcases he with rfl | rfl | rfl | rfl | rfl <;> simp only [core] at hs <;>
    (split at hs <;> simp at hs) <;> subst hs <;> rename_i hg
  · refine ⟨.callPush t v, { u with pc := upd u.pc t (.pushCalled v), arg := upd u.arg t v, active := t :: u.active, wit := upd u.wit t false }, ?_, rfl, ?_⟩
    · simp only [Ring.core]; rw [if_pos ⟨hidle.mp hg.1, hg.2⟩]
    · exact hR.call hI t (.pushCalled v) _ rfl (by simp [LocOk]) _ _ (by rw [hR.arg]) _ _ hR.wrap
  · refine ⟨.callPop t, { u with pc := upd u.pc t .popCalled, active := t :: u.active, wit := upd u.wit t false }, ?_, rfl, ?_⟩
    · simp only [Ring.core]; rw [if_pos (hidle.mp hg)]
    · exact hR.call hI t .popCalled _ rfl (by simp [LocOk]) _ _ hR.arg _ _ hR.wrap
  · refine ⟨.callBPush t v, { u with pc := upd u.pc t (.pushCalled v), wrap := upd u.wrap t (.push v), active := t :: u.active, wit := upd u.wit t false }, ?_, rfl, ?_⟩
    · simp only [Ring.core]; rw [if_pos ⟨hidle.mp hg.1, hg.2⟩]
    · exact hR.call hI t (.pushCalled v) _ rfl (by simp [LocOk]) _ _ hR.arg _ _ (by rw [hR.wrap])
  · refine ⟨.callBPop t, { u with pc := upd u.pc t .popCalled, wrap := upd u.wrap t .pop, active := t :: u.active, wit := upd u.wit t false }, ?_, rfl, ?_⟩
    · simp only [Ring.core]; rw [if_pos (hidle.mp hg)]
    · exact hR.call hI t .popCalled _ rfl (by simp [LocOk]) _ _ hR.arg _ _ (by rw [hR.wrap])
  · refine ⟨.callSize t, { u with pc := upd u.pc t .sizeCalled, active := t :: u.active, wit := upd u.wit t false }, ?_, rfl, ?_⟩
    · simp only [Ring.core]; rw [if_pos (hidle.mp hg)]
    · exact hR.call hI t .sizeCalled _ rfl (by simp [LocOk]) _ _ hR.arg _ _ hR.wrap

theorem pushFailed_eq (t : Nat) (hk : k ≤ 31) (hR : Rel c w u) (hI : Ring.Inv (2 ^ k) u)
    (hF : Fresh w) : pushFailed w t = Ring.pushFailed u t := by
  unfold pushFailed Ring.pushFailed
  rw [hR.pc t]
  cases hu : u.pc t <;> simp only [wrapPc]
  case pushReadSlot v l h x =>
    obtain ⟨e1, -, -, -⟩ := push_cmp hk hR hI hF hu
    rw [e1, hR.size]

theorem popFailed_eq (t : Nat) (hk : k ≤ 31) (hR : Rel c w u) (hI : Ring.Inv (2 ^ k) u)
    (hF : Fresh w) (hN : NoWrap fx c w) : popFailed fx w t = Ring.popFailed u t := by
  unfold popFailed Ring.popFailed
  rw [hR.pc t]
  cases hu : u.pc t <;> simp only [wrapPc]
  case popReadSlot h l y =>
    have F := facts (c := c) hk hR hI hF t (by rw [hu]; simp)
    have h1 := hR.loc t; rw [hu] at h1
    have h2 := hI.pcok t; rw [hu] at h2
    simp only [LocOk, Ring.PcOk] at h1 h2
    obtain ⟨p1, p2, _⟩ := h2
    rw [F.sz] at h1
    rw [pop_cmp hk hR hI hF hN (t := t) (by rw [hu]; simp) h1.1 h1.2 p1 p2]

theorem sim_wLdHigh {t x : Nat} (hk : k ≤ 31) (hR : Rel c w u) (hI : Ring.Inv (2 ^ k) u)
    (hF : Fresh w) (hN : NoWrap fx c w) (hs : core fx w (.wLdHigh t x) = some w') :
    SimGoal c k u (.wLdHigh t x) w' := by
  simp only [core] at hs
  rw [pushFailed_eq t hk hR hI hF, popFailed_eq t hk hR hI hF hN] at hs
  have hd := hI.data
  have hsn := hR.snap t
  have hwr' : w.wrap t = u.wrap t := by rw [hR.wrap]
  cases hwr : u.wrap t <;> rw [hwr] at hwr' <;> simp only [hwr'] at hs <;>
    (split at hs <;> simp at hs) <;> subst hs <;> rename_i hg
  case no =>
    have hu : u.pc t = .sizeCalled := by
      have := hg.1; rw [hR.pc t] at this
      cases hu : u.pc t <;> rw [hu] at this <;> simp [wrapPc] at this
    refine ⟨.wLdHigh t u.high, { u with pc := upd u.pc t (.sizeGotHigh u.high u.low) }, ?_, ?_, ?_⟩
    · simp only [Ring.core, hwr]; rw [if_pos ⟨hu, trivial⟩]
    · simp [wrapEv, hg.2, hR.high]
    · exact hR.setPc t _ _ (by simp [wrapPc, hg.2, hR.high, hR.low]) (by simp only [LocOk]; omega)
  case push v =>
    refine ⟨.wLdHigh t u.high, { u with pc := upd u.pc t (.bpushGotHigh v u.high) }, ?_, ?_, ?_⟩
    · simp only [Ring.core, hwr]; rw [if_pos ⟨hg.1, trivial⟩]
    · simp [wrapEv, hg.2, hR.high]
    · refine hR.setPc t _ _ (by simp [wrapPc, hg.2, hR.high]) ?_
      have := hd.high_le; have := hd.size_eq; simp only [LocOk]; omega
  case pop =>
    refine ⟨.wLdHigh t u.high, { u with pc := upd u.pc t (.bpopGotHigh u.high) }, ?_, ?_, ?_⟩
    · simp only [Ring.core, hwr]; rw [if_pos ⟨hg.1, trivial⟩]
    · simp [wrapEv, hg.2, hR.high]
    · refine hR.setPc t _ _ (by simp [wrapPc, hg.2, hR.high]) ?_
      have := hd.high_le; have := hd.size_eq; simp only [LocOk]; omega

theorem sim_wLdLow {t x : Nat} (hk : k ≤ 31) (hR : Rel c w u) (hI : Ring.Inv (2 ^ k) u)
    (hF : Fresh w) (hN : NoWrap fx c w) (hs : core fx w (.wLdLow t x) = some w') :
    SimGoal c k u (.wLdLow t x) w' := by
  pc_cases hR hs t hp hu
  case bpushGotHigh v h =>
    have F := facts (c := c) hk hR hI hF t (by rw [hu]; simp)
    have h1 := hR.loc t; rw [hu] at h1; simp only [LocOk] at h1
    have := F.szle; have := F.f2; have := F.s1; have := F.sz
    split at hs <;> try contradiction
    rename_i hx
    subst hx
    have hcmp : w.size ≤ wsub (wr c h) w.low ↔ (u.size ≤ h - u.low ∨ h < u.low) := by
      rw [hR.low, hR.size]
      by_cases hle : u.low ≤ h
      · rw [wsub_wr_le hle (by omega)]; omega
      · rw [wsub_wr_gt (by omega) (by omega)]; simp only [M]; omega
    refine ⟨.wLdLow t u.low, ?_⟩
    split at hs
    · rename_i hc
      cases hs
      refine ⟨{ u with pc := upd u.pc t (.bpushFull v) }, ?_, ?_, ?_⟩
      · simp only [Ring.core, hu]; rw [if_pos trivial, if_pos (hcmp.mp hc)]
      · simp [wrapEv, hR.low]
      · exact hR.setPc t _ _ (by simp [wrapPc]) (by simp [LocOk])
    · rename_i hc
      cases hs
      refine ⟨{ u with pc := upd u.pc t (.pushCalled v) }, ?_, ?_, ?_⟩
      · simp only [Ring.core, hu]; rw [if_pos trivial, if_neg (fun h => hc (hcmp.mpr h))]
      · simp [wrapEv, hR.low]
      · exact hR.setPc t _ _ (by simp [wrapPc]) (by simp [LocOk])
  case bpopGotHigh h =>
    have F := facts (c := c) hk hR hI hF t (by rw [hu]; simp)
    have h1 := hR.loc t; rw [hu] at h1; simp only [LocOk] at h1
    rw [F.sz] at h1
    split at hs <;> try contradiction
    rename_i hx
    subst hx
    have e1 := pop_cmp hk hR hI hF hN (t := t) (l := u.low) (by rw [hu]; simp) h1.1 h1.2.1 h1.2.2
      (Nat.le_refl _)
    rw [← hR.low] at e1
    rw [e1] at hs
    refine ⟨.wLdLow t u.low, ?_⟩
    split at hs
    · rename_i hc
      cases hs
      refine ⟨{ u with pc := upd u.pc t .bpopEmpty }, ?_, ?_, ?_⟩
      · simp only [Ring.core, hu]; rw [if_pos trivial, if_pos (by simpa using hc)]
      · simp [wrapEv, hR.low]
      · exact hR.setPc t _ _ (by simp [wrapPc]) (by simp [LocOk])
    · rename_i hc
      cases hs
      refine ⟨{ u with pc := upd u.pc t .popCalled }, ?_, ?_, ?_⟩
      · simp only [Ring.core, hu]; rw [if_pos trivial, if_neg (by simpa using hc)]
      · simp [wrapEv, hR.low]
      · exact hR.setPc t _ _ (by simp [wrapPc]) (by simp [LocOk])
  case sizeGotHigh h g =>
    split at hs <;> simp at hs
    subst hs
    rename_i hx
    refine ⟨.wLdLow t u.low, { u with pc := upd u.pc t (.sizeGotBoth h u.low g u.high) }, ?_, ?_, ?_⟩
    · simp [Ring.core, hu]
    · simp [wrapEv, hx, hR.low]
    · refine hR.setPc t _ _ (by simp [wrapPc, hx, hR.low, hR.high]) ?_
      have h1 := hR.loc t; rw [hu] at h1; simpa only [LocOk] using h1

theorem sim_relax {t : Nat} (hR : Rel c w u) (hs : core fx w (.relax t) = some w') :
    SimGoal c k u (.relax t) w' := by
  pc_cases hR hs t hp hu
  case bpushFull v =>
    cases hs
    refine ⟨.relax t, { u with pc := upd u.pc t (.pushCalled v) }, ?_, rfl, ?_⟩
    · simp [Ring.core, hu]
    · exact hR.setPc t _ _ (by simp [wrapPc]) (by simp [LocOk])
  case bpopEmpty =>
    cases hs
    refine ⟨.relax t, { u with pc := upd u.pc t .popCalled }, ?_, rfl, ?_⟩
    · simp [Ring.core, hu]
    · exact hR.setPc t _ _ (by simp [wrapPc]) (by simp [LocOk])

theorem sim_retB {e : Ev} (hR : Rel c w u)
    (he : ∃ t r, e = .retBPush t r ∨ e = .retBPop t r)
    (hs : core fx w e = some w') : SimGoal c k u e w' := by
  obtain ⟨t, r, he⟩ := he
  rcases he with rfl | rfl
  · pc_cases hR hs t hp hu
    case pushDone r' =>
      split at hs <;> simp at hs
      subst hs
      rename_i hg
      refine ⟨.retBPush t r, { u with pc := upd u.pc t .idle, wrap := upd u.wrap t .no, active := u.active.filter (fun x => x != t) }, ?_, rfl, ?_⟩
      · simp only [Ring.core, hu]; rw [if_pos ⟨hg.1, hg.2.1, by rw [← hR.wrap]; exact hg.2.2⟩]
      · exact hR.ret t _ _ (by rw [hR.wrap])
  · pc_cases hR hs t hp hu
    case popDone x' =>
      split at hs <;> simp at hs
      subst hs
      rename_i hg
      refine ⟨.retBPop t r, { u with pc := upd u.pc t .idle, wrap := upd u.wrap t .no, active := u.active.filter (fun x => x != t) }, ?_, rfl, ?_⟩
      · simp only [Ring.core, hu]; rw [if_pos ⟨hg.1, hg.2.1, by rw [← hR.wrap]; exact hg.2.2⟩]
      · exact hR.ret t _ _ (by rw [hR.wrap])

theorem sim_retSize {t n : Nat} (hk : k ≤ 31) (hR : Rel c w u) (hI : Ring.Inv (2 ^ k) u)
    (hF : Fresh w) (hs : core fx w (.retSize t n) = some w') :
    SimGoal c k u (.retSize t n) w' := by
  pc_cases hR hs t hp hu
  case sizeGotBoth h l g h2 =>
    have F := facts (c := c) hk hR hI hF t (by rw [hu]; simp)
    have h1 := hR.loc t; rw [hu] at h1
    have q := hI.pcok t; rw [hu] at q
    simp only [LocOk, Ring.PcOk] at h1 q
    have := F.szle; have := F.f2; have := F.s1
    have e1 : sclamp (wsub (wr c h) (wr c l)) = h - l :=
      sclamp_wr (S := 2 ^ k) F.szle (by omega) (by omega)
    split at hs <;> simp at hs
    subst hs
    rename_i hn
    rw [e1] at hn
    refine ⟨.retSize t n, { u with pc := upd u.pc t .idle, active := u.active.filter (fun x => x != t) }, ?_, rfl, ?_⟩
    · simp only [Ring.core, hu]; rw [if_pos hn]
    · exact hR.ret t w.wrap u.wrap hR.wrap

theorem sim_core {e : Ev} (hk : k ≤ 31) (hR : Rel c w u) (hI : Ring.Inv (2 ^ k) u)
    (hF : Fresh w) (hN : NoWrap fx c w) (hs : core fx w e = some w') : SimGoal c k u e w' := by
  cases e with
  | callPush t v => exact sim_calls hR hI ⟨t, v, Or.inl rfl⟩ hs
  | callPop t => exact sim_calls hR hI ⟨t, 0, Or.inr (Or.inl rfl)⟩ hs
  | callBPush t v => exact sim_calls hR hI ⟨t, v, Or.inr (Or.inr (Or.inl rfl))⟩ hs
  | callBPop t => exact sim_calls hR hI ⟨t, 0, Or.inr (Or.inr (Or.inr (Or.inl rfl)))⟩ hs
  | callSize t => exact sim_calls hR hI ⟨t, 0, Or.inr (Or.inr (Or.inr (Or.inr rfl)))⟩ hs
  | retPush t r => exact sim_retPush hk hR hI hF hs
  | retPop t x => exact sim_retPop hk hR hI hF hN hs
  | ldLow t x => exact sim_ldLow hR hs
  | ldHigh t x => exact sim_ldHigh hR hI hs
  | rdBuf t i x => exact sim_rdBuf hk hR hI hs
  | wrBuf t i x => exact sim_wrBuf hk hR hI hs
  | casHigh t f e d ok => exact sim_casHigh hk hR hI hF hs
  | casLow t f e d ok => exact sim_casLow hk hR hI hF hN hs
  | retBPush t r => exact sim_retB hR ⟨t, r, Or.inl rfl⟩ hs
  | retBPop t x => exact sim_retB hR ⟨t, x, Or.inr rfl⟩ hs
  | retSize t n => exact sim_retSize hk hR hI hF hs
  | wLdHigh t x => exact sim_wLdHigh hk hR hI hF hN hs
  | wLdLow t x => exact sim_wLdLow hk hR hI hF hN hs
  | relax t => exact sim_relax hR hs

/-- "another thread is inside a call, or the buffer is full / empty" is the same predicate on
    both sides: full / empty by the 64-bit difference is full / empty -/
theorem justNow_eq (hk : k ≤ 31) (hR : Rel c w u) (hI : Ring.Inv (2 ^ k) u) (t : Nat) :
    justNow w t = Ring.justNow u t := by
  have h1 := hI.data.low_le
  have h2 := hI.data.high_le
  have h3 := pow_le_31 hk
  unfold justNow Ring.justNow
  rw [hR.active, hR.pc t, wrapPc_pushing, wrapPc_popping, hR.size, hR.high, hR.low,
    wsub_wr_le h1 (by omega)]
  congr 2
  refine decide_eq_decide.mpr ?_
  rw [wr_inj h1 (by omega)]; omega

theorem Rel.observe (hk : k ≤ 31) (hR : Rel c w u) (hI : Ring.Inv (2 ^ k) u) :
    Rel c (observe w) (Ring.observe u) := by
  refine { hR with wit := ?_ }
  funext t
  show (w.wit t || justNow w t) = (u.wit t || Ring.justNow u t)
  rw [hR.wit, justNow_eq hk hR hI t]

/-- **Step simulation.**  From related states, a step of the 64-bit machine on event `e` is a
    step of the unbounded model on an event `e'` with `wrapEv c (2^k) e' = e`, and the results
    are related. -/
theorem sim_step {e : Ev} (hk : k ≤ 31) (hR : Rel c w u) (hI : Ring.Inv (2 ^ k) u)
    (hF : Fresh w) (hN : NoWrap fx c w) (hs : step fx w e = some w') :
    ∃ e' u', Ring.step u e' = some u' ∧ wrapEv c (2 ^ k) e' = e ∧ Rel c w' u' := by
  simp only [step, Option.map_eq_some_iff] at hs
  obtain ⟨w1, h1, rfl⟩ := hs
  obtain ⟨e', u1, hc, he, hR1⟩ := sim_core hk hR hI hF hN h1
  refine ⟨e', Ring.observe u1, ?_, he, hR1.observe hk (Ring.inv_core (Ring.idx_two_pow k) hI hc)⟩
  simp [Ring.step, hc]

end sim

/-! ### runs -/

/-- the two hypotheses of the simulation, for one state -/
def Good (fx : Bool) (c : Nat) (w : St) : Prop := Fresh w ∧ NoWrap fx c w

/-- every state the run `es` goes through (the last one included) is `Good` -/
def AllGood (fx : Bool) (k c : Nat) (es : List Ev) : Prop :=
  ∀ es1 es2 w1, es = es1 ++ es2 → (sys fx (2 ^ k) c).run es1 = some w1 → Good fx c w1

theorem run_snoc {σ ε : Type} (S : Sys σ ε) {es : List ε} {s s' : σ} {e : ε}
    (h : S.run es = some s) (hs : S.step s e = some s') : S.run (es ++ [e]) = some s' := by
  simp only [Sys.run] at h ⊢
  simp [Sys.runFrom_append, h, Sys.runFrom, hs]

/-- what `refines` delivers for a run `es` of the 64-bit machine ending in `w` -/
def Refined (fx : Bool) (k c : Nat) (es : List Ev) (w : St) : Prop :=
  ∃ esU u, es = esU.map (wrapEv c (2 ^ k)) ∧ (Ring.sys (2 ^ k)).run esU = some u ∧ Rel c w u ∧
    ∀ es1 es2 u1, esU = es1 ++ es2 → (Ring.sys (2 ^ k)).run es1 = some u1 →
      ∃ w1, (sys fx (2 ^ k) c).run (es1.map (wrapEv c (2 ^ k))) = some w1 ∧ Rel c w1 u1

/-- **Refinement.**  Every run of the 64-bit machine (capacity `2^k`, `k ≤ 31`, counters
    starting at ANY `c`) all of whose states are `Good` is, event by event, the image under
    `wrapEv` of a run of the unbounded model `Ring.sys (2^k)` (counters starting at 0), the two
    final states are related by `Rel c`, and so are the states after every common prefix. -/
theorem refines {fx : Bool} {k c : Nat} (hk : k ≤ 31) {es : List Ev} {w : St}
    (h : (sys fx (2 ^ k) c).run es = some w) (hg : AllGood fx k c es) : Refined fx k c es w := by
  have key := Sys.hist_inv_of_run (sys fx (2 ^ k) c)
    (fun w es => (sys fx (2 ^ k) c).run es = some w ∧ (AllGood fx k c es → Refined fx k c es w))
    ?_ ?_ h
  · exact key.2 hg
  · refine ⟨rfl, fun _ => ⟨[], Ring.init (2 ^ k), rfl, rfl, rel_init c (2 ^ k), ?_⟩⟩
    intro es1 es2 u1 h1 h2
    have : es1 = [] := by
      cases es1 with
      | nil => rfl
      | cons a l => simp at h1
    subst this
    simp only [Sys.run, Sys.runFrom, Option.some.injEq] at h2
    subst h2
    exact ⟨init (2 ^ k) c, rfl, rel_init c (2 ^ k)⟩
  · intro w es e w' ⟨hrun, ih⟩ hs
    have hrun' := run_snoc _ hrun hs
    refine ⟨hrun', fun hg' => ?_⟩
    have hgw : Good fx c w := hg' es [e] w rfl hrun
    have hges : AllGood fx k c es := by
      intro es1 es2 w1 h1 h2
      exact hg' es1 (es2 ++ [e]) w1 (by rw [h1, List.append_assoc]) h2
    obtain ⟨esU, u, hmap, hrunU, hR, hpre⟩ := ih hges
    have hI := (Ring.inv_of_run hrunU).1
    obtain ⟨e', u', hsU, he, hR'⟩ := sim_step (fx := fx) hk hR hI hgw.1 hgw.2 hs
    have hrunU' := run_snoc _ hrunU hsU
    refine ⟨esU ++ [e'], u', by simp [hmap, he], hrunU', hR', ?_⟩
    intro es1 es2 u1 h1 h2
    rcases List.eq_nil_or_concat es2 with rfl | ⟨L, b, rfl⟩
    · rw [List.append_nil] at h1
      subst h1
      rw [hrunU'] at h2
      cases h2
      refine ⟨w', ?_, hR'⟩
      rw [List.map_append, ← hmap]; simpa [he] using hrun'
    · rw [List.concat_eq_append, ← List.append_assoc] at h1
      obtain ⟨h3, -⟩ := List.append_inj' h1 rfl
      exact hpre es1 L u1 h3 h2

/-! ### simple facts about single steps of the 64-bit machine -/

/-- `pushed` and `popped` only grow -/
theorem core_mono {fx : Bool} {w w' : St} {e : Ev} (hs : core fx w e = some w') :
    w.pushed.length ≤ w'.pushed.length ∧ w.popped.length ≤ w'.popped.length := by
  cases e <;> simp only [core, called, returned] at hs <;> (repeat' split at hs) <;>
    (try contradiction) <;> cases hs <;> simp

theorem step_mono {fx : Bool} {w w' : St} {e : Ev} (hs : step fx w e = some w') :
    w.pushed.length ≤ w'.pushed.length ∧ w.popped.length ≤ w'.popped.length := by
  simp only [step, Option.map_eq_some_iff] at hs
  obtain ⟨w1, h1, rfl⟩ := hs
  exact core_mono (w' := w1) h1

theorem runFrom_mono {fx : Bool} {size c : Nat} {es : List Ev} {w w' : St}
    (h : (sys fx size c).runFrom w es = some w') :
    w.pushed.length ≤ w'.pushed.length ∧ w.popped.length ≤ w'.popped.length := by
  induction es generalizing w with
  | nil => simp only [Sys.runFrom, Option.some.injEq] at h; subst h; exact ⟨Nat.le_refl _, Nat.le_refl _⟩
  | cons e es ih =>
    simp only [Sys.runFrom] at h
    cases hst : (sys fx size c).step w e with
    | none => simp [hst] at h
    | some w1 =>
      simp only [hst] at h
      have h1 := step_mono (fx := fx) hst
      have h2 := ih h
      omega

/-- a run with fewer than 2^63 successful pushes in total (and, for the code as it is, one that
    does not take `high` across 2^64) satisfies the hypotheses of `refines` -/
theorem allGood_of_few {fx : Bool} {k c : Nat} {es : List Ev} {w : St}
    (h : (sys fx (2 ^ k) c).run es = some w)
    (h1 : w.pushed.length < H63) (h2 : w.popped.length < H63)
    (h3 : fx = false → c % M + w.pushed.length < M) : AllGood fx k c es := by
  intro es1 es2 w1 he hr
  subst he
  simp only [Sys.run, Sys.runFrom_append] at h hr
  rw [hr] at h
  have hm := runFrom_mono (fx := fx) (size := 2 ^ k) (c := c) (es := es2) (w := w1) (by simpa using h)
  refine ⟨fun t _ => ⟨by omega, by omega⟩, fun hfx => ?_⟩
  have := h3 hfx; omega

/-- an event of thread `e.tid` does not touch another thread's program counter -/
theorem core_pc_other {fx : Bool} {w w' : St} {e : Ev} (hs : core fx w e = some w') (t : Nat)
    (ht : t ≠ e.tid) : w'.pc t = w.pc t := by
  cases e <;> simp only [Ring.Ev.tid] at ht <;> simp only [core, called, returned] at hs <;>
    (repeat' split at hs) <;> (try contradiction) <;> cases hs <;> simp [upd_other _ _ _ _ ht]

theorem step_pc_other {fx : Bool} {w w' : St} {e : Ev} (hs : step fx w e = some w') (t : Nat)
    (ht : t ≠ e.tid) : w'.pc t = w.pc t := by
  simp only [step, Option.map_eq_some_iff] at hs
  obtain ⟨w1, h1, rfl⟩ := hs
  exact core_pc_other (w' := w1) h1 t ht

theorem runFrom_pc_idle {fx : Bool} {size c : Nat} {es : List Ev} {t0 : Nat} {w w' : St}
    (hes : ∀ e ∈ es, e.tid = t0) (h : (sys fx size c).runFrom w es = some w') (t : Nat)
    (ht : t ≠ t0) : w'.pc t = w.pc t := by
  induction es generalizing w with
  | nil => simp only [Sys.runFrom, Option.some.injEq] at h; subst h; rfl
  | cons e es ih =>
    simp only [Sys.runFrom] at h
    cases hst : (sys fx size c).step w e with
    | none => simp [hst] at h
    | some w1 =>
      simp only [hst] at h
      have he : e.tid = t0 := hes e (by simp)
      rw [ih (fun e' he' => hes e' (by simp [he'])) h,
        step_pc_other (fx := fx) hst t (by rw [he]; exact ht)]

/-- threads that never act stay idle -/
theorem run_pc_idle {fx : Bool} {size c : Nat} {es : List Ev} {t0 : Nat} {w : St}
    (hes : ∀ e ∈ es, e.tid = t0) (h : (sys fx size c).run es = some w) (t : Nat) (ht : t ≠ t0) :
    w.pc t = .idle := by
  rw [runFrom_pc_idle hes h t ht]; rfl

/-- `wrapEv` keeps the operation, the thread, every value pushed / read from a slot / returned
    and every CAS outcome; only counter values and the slot index are translated -/
def eraseEv : Ev → Ev
  | .ldLow t _ => .ldLow t 0
  | .ldHigh t _ => .ldHigh t 0
  | .wLdLow t _ => .wLdLow t 0
  | .wLdHigh t _ => .wLdHigh t 0
  | .rdBuf t _ x => .rdBuf t 0 x
  | .wrBuf t _ x => .wrBuf t 0 x
  | .casHigh t _ _ _ ok => .casHigh t 0 0 0 ok
  | .casLow t _ _ _ ok => .casLow t 0 0 0 ok
  | e => e

theorem eraseEv_wrapEv (c S : Nat) (e : Ev) : eraseEv (wrapEv c S e) = eraseEv e := by
  cases e <;> rfl

theorem boundaryOf_wrapEv (c S : Nat) (e : Ev) (t : Nat) :
    (wrapEv c S e).boundaryOf t = e.boundaryOf t := by
  cases e <;> rfl

theorem tid_wrapEv (c S : Nat) (e : Ev) : (wrapEv c S e).tid = e.tid := by
  cases e <;> rfl

/-! ### finding F-C16: the code as it is, after `high` has crossed 2^64

`Dead S w`: `high` has wrapped (it is below the capacity `S`), `low` has not (it is within `S`
of 2^64), and every counter value held by a thread was read in that situation.  From then on
`high > low` is false for every trypop: `low` never moves again. -/

def DeadPc (S : Nat) : Pc → Prop
  | .pushGotLow _ l => M - S ≤ l ∧ l < M
  | .pushGotHigh _ l h => M - S ≤ l ∧ l < M ∧ h < S
  | .pushReadSlot _ l h _ => M - S ≤ l ∧ l < M ∧ h < S
  | .popGotHigh h => h < S
  | .popGotLow h l => h < S ∧ M - S ≤ l
  | .popReadSlot h l _ => h < S ∧ M - S ≤ l
  | .popClaimed _ _ => False
  | _ => True

structure DeadD (S size high low : Nat) (pc : Nat → Pc) : Prop where
  size : size = S
  high : high < S
  low1 : M - S ≤ low
  low2 : low < M
  pcs : ∀ t, DeadPc S (pc t)

abbrev Dead (S : Nat) (w : St) : Prop := DeadD S w.size w.high w.low w.pc

theorem DeadD.setPc {S size high low : Nat} {pc : Nat → Pc} (h : DeadD S size high low pc)
    (t : Nat) (p : Pc) (hp : DeadPc S p) : DeadD S size high low (upd pc t p) := by
  refine { h with pcs := ?_ }
  intro t'
  by_cases e : t' = t
  · subst e; simpa using hp
  · simpa [upd_other _ _ _ _ e] using h.pcs t'

theorem dead_of_quiescent {w : St} (hq : ∀ t, w.pc t = .idle) (h1 : w.high < w.size)
    (h2 : M - w.size ≤ w.low) (h3 : w.low < M) : Dead w.size w :=
  ⟨rfl, h1, h2, h3, fun t => by rw [hq t]; trivial⟩

/-- the code as it is (`fx = false`) in a `Dead` state: still `Dead`, `low` and `popped` unchanged -/
theorem dead_core {S : Nat} {w w' : St} {e : Ev} (hS : S ≤ 2147483648) (hD : Dead S w)
    (hs : core false w e = some w') : Dead S w' ∧ w'.low = w.low ∧ w'.popped = w.popped := by
  have hpcs := hD.pcs
  have h1 := hD.high; have h2 := hD.low1; have h3 := hD.low2; have h4 := hD.size
  cases e with
  | casHigh t found exp des ok =>
    simp only [core] at hs
    have hp := hpcs t
    split at hs <;> try contradiction
    rename_i v l h x heq
    rw [heq] at hp; simp only [DeadPc, M] at hp
    split at hs <;> try contradiction
    rename_i hg
    obtain ⟨-, hlt, hf, he, hd, hok⟩ := hg
    split at hs
    · rename_i hok1
      cases hs
      rw [hok1] at hok
      have hfe : found = exp := by simpa using hok.symm
      have hh : h = w.high := by rw [← he, ← hfe, hf]
      refine ⟨⟨h4, ?_, h2, h3, (hD.setPc t _ (by trivial)).pcs⟩, rfl, rfl⟩
      show des < S
      rw [hd]
      simp only [wsub, wadd1, M] at *
      omega
    · cases hs
      exact ⟨hD.setPc t _ (by trivial), rfl, rfl⟩
  | casLow t found exp des ok =>
    simp only [core] at hs
    have hp := hpcs t
    split at hs <;> try contradiction
    rename_i h l x heq
    rw [heq] at hp; simp only [DeadPc, M] at hp
    split at hs <;> try contradiction
    rename_i hg
    exfalso
    have := hg.2.1
    simp only [gt, Bool.false_eq_true, ite_false, decide_eq_true_eq] at this
    simp only [M] at *
    omega
  | wrBuf t i x =>
    simp only [core] at hs
    have hp := hpcs t
    split at hs <;> try contradiction
    · split at hs <;> try contradiction
      cases hs
      exact ⟨hD.setPc t _ (by trivial), rfl, rfl⟩
    · rename_i l v heq
      rw [heq] at hp; exact hp.elim
  | ldLow t x =>
    simp only [core] at hs
    have hp := hpcs t
    split at hs <;> try contradiction
    · split at hs <;> try contradiction
      rename_i hx; cases hs
      exact ⟨hD.setPc t _ (by simp only [DeadPc]; omega), rfl, rfl⟩
    · rename_i h heq
      rw [heq] at hp; simp only [DeadPc] at hp
      split at hs <;> try contradiction
      rename_i hx; cases hs
      exact ⟨hD.setPc t _ (by simp only [DeadPc]; omega), rfl, rfl⟩
  | ldHigh t x =>
    simp only [core] at hs
    have hp := hpcs t
    split at hs <;> try contradiction
    · rename_i v l heq
      rw [heq] at hp; simp only [DeadPc] at hp
      split at hs <;> try contradiction
      rename_i hx; cases hs
      exact ⟨hD.setPc t _ (by simp only [DeadPc]; omega), rfl, rfl⟩
    · split at hs <;> try contradiction
      rename_i hx; cases hs
      exact ⟨hD.setPc t _ (by simp only [DeadPc]; omega), rfl, rfl⟩
  | rdBuf t i x =>
    simp only [core] at hs
    have hp := hpcs t
    split at hs <;> try contradiction
    · rename_i v l h heq
      rw [heq] at hp; simp only [DeadPc] at hp
      split at hs <;> try contradiction
      cases hs
      exact ⟨hD.setPc t _ (by simp only [DeadPc]; omega), rfl, rfl⟩
    · rename_i h l heq
      rw [heq] at hp; simp only [DeadPc] at hp
      split at hs <;> try contradiction
      cases hs
      exact ⟨hD.setPc t _ (by simp only [DeadPc]; omega), rfl, rfl⟩
  | callPush t v | callPop t | callBPush t v | callBPop t | callSize t =>
    simp only [core, called] at hs
    split at hs <;> try contradiction
    cases hs
    exact ⟨hD.setPc t _ (by trivial), rfl, rfl⟩
  | retPush t r | retPop t r | retBPush t r | retBPop t r | retSize t r | relax t =>
    simp only [core, returned] at hs
    (repeat' split at hs) <;> (try contradiction) <;> cases hs <;>
      exact ⟨hD.setPc t _ (by trivial), rfl, rfl⟩
  | wLdHigh t x | wLdLow t x =>
    simp only [core] at hs
    (repeat' split at hs) <;> (try contradiction) <;> cases hs <;>
      exact ⟨hD.setPc t _ (by trivial), rfl, rfl⟩

theorem dead_step {S : Nat} {w w' : St} {e : Ev} (hS : S ≤ 2147483648) (hD : Dead S w)
    (hs : step false w e = some w') : Dead S w' ∧ w'.low = w.low ∧ w'.popped = w.popped := by
  simp only [step, Option.map_eq_some_iff] at hs
  obtain ⟨w1, h1, rfl⟩ := hs
  exact dead_core (w' := w1) hS hD h1

theorem dead_runFrom {S size c : Nat} {es : List Ev} {w w' : St} (hS : S ≤ 2147483648)
    (hD : Dead S w) (h : (sys false size c).runFrom w es = some w') :
    Dead S w' ∧ w'.low = w.low ∧ w'.popped = w.popped := by
  induction es generalizing w with
  | nil => simp only [Sys.runFrom, Option.some.injEq] at h; subst h; exact ⟨hD, rfl, rfl⟩
  | cons e es ih =>
    simp only [Sys.runFrom] at h
    cases hst : (sys false size c).step w e with
    | none => simp [hst] at h
    | some w1 =>
      simp only [hst] at h
      obtain ⟨d1, l1, p1⟩ := dead_step hS hD hst
      obtain ⟨d2, l2, p2⟩ := ih d1 h
      exact ⟨d2, by rw [l2, l1], by rw [p2, p1]⟩

end LibfiberVerif.RingW
