/-
  Proof/ChanBoundedStep.lean — `Chan.BInv` (bounded channel ring) is preserved by every event.
-/
import LibfiberVerif.Proof.ChanBounded

set_option linter.unusedSimpArgs false
set_option linter.unusedVariables false

namespace LibfiberVerif.Chan

macro "cb_close" : tactic =>
  `(tactic| (intros; (try simp only [upd, qval, qown, sentBy] at *); first | done | grind [Pc.pending, Pc.isRecv]))

/-- the receiver is the only fiber in a receive pc -/
theorem brecv_unique {s : St} (hb : BInv s) {f g : Nat} (hf : (s.pc f).isRecv = true) (hg : (s.pc g).isRecv = true) :
    f = g := by
  have a := hb.recv_id f hf
  have b := hb.recv_id g hg
  rw [a] at b; exact Option.some.inj b

/-- frame: a step that only moves fiber f from pc `a` to pc `b`, where neither is one of the pcs
    the invariant speaks about except through the listed obligations -/
theorem binv_frame (s : St) (p' : Signal.PSt) (f : Nat) (X : Pc) (hb : BInv s)
    (hpend : X.pending = (s.pc f).pending)
    (hrecv : X.isRecv = true → s.receiver = some f)
    (hclaimed_old : ∀ v h, s.pc f ≠ .sClaimed v h)
    (hcleared_old : ∀ l m, s.pc f ≠ .rCleared l m)
    (hX : (∀ v h, X ≠ .sClaimed v h) ∧ (∀ l m, X ≠ .rCleared l m) ∧ (∀ h l x, X ≠ .rRdBuf h l x))
    (hX1 : ∀ v l, X = .sLdLow v l → l ≤ s.low)
    (hX2 : ∀ v l h, X = .sLdHigh v l h → l ≤ s.low ∧ h ≤ s.high)
    (hX3 : ∀ v l h x, X = .sRdBuf v l h x → l ≤ s.low ∧ h ≤ s.high)
    (hX4 : ∀ h, X = .rLdHigh h → h ≤ s.high)
    (hX5 : ∀ h l, X = .rLdLow h l → h ≤ s.high ∧ l = s.low) :
    BInv { s with p := p', pc := upd s.pc f X } := by
  have hB := hb
  obtain ⟨b1, b2, b3, b4, b5, b6, b7, b8, b9, b10, b11, b12, b13, b14, b15, b16, b17⟩ := hb
  obtain ⟨hXa, hXb, hXc⟩ := hX
  constructor
  case len => exact b1
  case lowhigh => exact b2
  case vnz => exact b3
  case recvd_eq => exact b4
  case calls_eq =>
    intro g
    have := b5 g
    simp only [upd]
    split
    · rename_i hg; subst hg; rw [hpend]; exact this
    · exact this
  case pend_nz =>
    intro g v hv
    simp only [upd] at hv
    split at hv
    · rename_i hg; subst hg; rw [hpend] at hv; exact b6 g v hv
    · exact b6 g v hv
  case recv_id =>
    intro g hg
    simp only [upd] at hg
    split at hg
    · rename_i hgf; subst hgf; exact hrecv hg
    · exact b7 g hg
  case claimed =>
    intro g v h hg
    simp only [upd] at hg
    split at hg
    · exact absurd hg (hXa v h)
    · exact b8 g v h hg
  case slots =>
    intro i h1 h2 h3
    have h3' : ∀ g m, s.pc g ≠ .rCleared i m := by
      intro g m hg
      by_cases hgf : g = f
      · subst hgf; exact hcleared_old i m hg
      · have := h3 g m; simp only [upd, hgf, if_false] at this; exact this hg
    rcases b9 i h1 h2 h3' with h | ⟨h, hc⟩
    · exact Or.inl h
    · refine Or.inr ⟨h, ?_⟩
      show upd s.pc f X (qown s i) = _
      simp only [upd]
      split
      · rename_i he; rw [he] at hc; exact absurd hc (hclaimed_old _ _)
      · exact hc
  case free => exact b10
  case sLdLow_le =>
    intro g v l hg; simp only [upd] at hg; split at hg
    · exact hX1 v l hg
    · exact b11 g v l hg
  case sLdHigh_le =>
    intro g v l h hg; simp only [upd] at hg; split at hg
    · exact hX2 v l h hg
    · exact b12 g v l h hg
  case sRdBuf_le =>
    intro g v l h x hg; simp only [upd] at hg; split at hg
    · exact hX3 v l h x hg
    · exact b13 g v l h x hg
  case rLdHigh_le =>
    intro g h hg; simp only [upd] at hg; split at hg
    · exact hX4 h hg
    · exact b14 g h hg
  case rLdLow_eq =>
    intro g h l hg; simp only [upd] at hg; split at hg
    · exact hX5 h l hg
    · exact b15 g h l hg
  case rRdBuf_eq =>
    intro g h l x hg; simp only [upd] at hg; split at hg
    · exact absurd hg (hXc h l x)
    · obtain ⟨a, b, c, d, e, k⟩ := b16 g h l x hg
      refine ⟨a, b, c, d, e, ?_⟩
      intro g' v hg'; simp only [upd] at hg'; split at hg'
      · exact hXa v s.low hg'
      · exact k g' v hg'
  case rCleared_eq =>
    intro g l m hg; simp only [upd] at hg; split at hg
    · exact absurd hg (hXb l m)
    · obtain ⟨a, b, c, d, k⟩ := b17 g l m hg
      refine ⟨a, b, c, d, ?_⟩
      intro g' v hg'; simp only [upd] at hg'; split at hg'
      · exact hXa v s.low hg'
      · exact k g' v hg'

theorem qown_lt (s : St) (i : Nat) (h : i < s.sent.length) : qown s i = (s.sent[i]).1 := by
  simp [qown, List.getElem?_eq_getElem h]

/-- receiver reads a non-NULL slot at `low`: it is the message with sequence number `low` -/
theorem binv_rRead (s : St) (f h l x : Nat) (hb : BInv s) (hpc : s.pc f = .rLdLow h l)
    (hx : x = s.buf (l % s.cap)) (hne : x ≠ 0) (hgt : h > l) :
    BInv { s with pc := upd s.pc f (.rRdBuf h l x) } := by
  have hB := hb
  obtain ⟨b1, b2, b3, b4, b5, b6, b7, b8, b9, b10, b11, b12, b13, b14, b15, b16, b17⟩ := hb
  obtain ⟨hh, hl⟩ := b15 f h l hpc
  subst hl
  have huniq : ∀ g, (s.pc g).isRecv = true → g = f := fun g hg =>
    (brecv_unique hB (by simp [hpc, Pc.isRecv]) hg).symm
  have hlt : s.low < s.high := by omega
  have hnocl : ∀ g m, s.pc g ≠ .rCleared s.low m := by
    intro g m hg
    have := huniq g (by simp [hg, Pc.isRecv]); subst this; rw [hpc] at hg; simp at hg
  have hslot := b9 s.low (Nat.le_refl _) hlt hnocl
  have hval : x = qval s s.low := by
    rcases hslot with h' | ⟨h', _⟩
    · rw [hx]; exact h'
    · rw [hx] at hne; exact absurd h' hne
  have hnoclaim : ∀ g v, s.pc g ≠ .sClaimed v s.low := by
    intro g v hg
    have := (b8 g v s.low hg).2.2.2.2
    rw [hx] at hne; exact hne this
  constructor
  case len => exact b1
  case lowhigh => exact b2
  case vnz => exact b3
  case recvd_eq => exact b4
  case free => exact b10
  case calls_eq =>
    intro g; have := b5 g; simp only [upd]; split
    · rename_i hg; subst hg; simpa [hpc, Pc.pending, sentBy] using this
    · exact this
  case pend_nz =>
    intro g v hv; simp only [upd] at hv; split at hv
    · simp [Pc.pending] at hv
    · exact b6 g v hv
  case recv_id =>
    intro g hg; simp only [upd] at hg; split at hg
    · rename_i hgf; subst hgf; exact b7 g (by simp [hpc, Pc.isRecv])
    · exact b7 g hg
  case claimed =>
    intro g v h' hg; simp only [upd] at hg; split at hg
    · simp at hg
    · exact b8 g v h' hg
  case slots =>
    intro i h1 h2 h3
    have h3' : ∀ g m, s.pc g ≠ .rCleared i m := by
      intro g m hg
      have := huniq g (by simp [hg, Pc.isRecv]); subst this; rw [hpc] at hg; simp at hg
    rcases b9 i h1 h2 h3' with h' | ⟨h', hc⟩
    · exact Or.inl h'
    · refine Or.inr ⟨h', ?_⟩
      show upd s.pc f _ (qown s i) = _
      simp only [upd]; split
      · rename_i he; rw [he, hpc] at hc; simp at hc
      · exact hc
  case sLdLow_le =>
    intro g v l hg; simp only [upd] at hg; split at hg
    · simp at hg
    · exact b11 g v l hg
  case sLdHigh_le =>
    intro g v l h' hg; simp only [upd] at hg; split at hg
    · simp at hg
    · exact b12 g v l h' hg
  case sRdBuf_le =>
    intro g v l h' x' hg; simp only [upd] at hg; split at hg
    · simp at hg
    · exact b13 g v l h' x' hg
  case rLdHigh_le =>
    intro g h' hg; simp only [upd] at hg; split at hg
    · simp at hg
    · exact b14 g h' hg
  case rLdLow_eq =>
    intro g h' l hg; simp only [upd] at hg; split at hg
    · simp at hg
    · exact b15 g h' l hg
  case rRdBuf_eq =>
    intro g h' l x' hg; simp only [upd] at hg; split at hg
    · simp at hg; obtain ⟨rfl, rfl, rfl⟩ := hg
      refine ⟨rfl, hlt, hval, hx.symm, hne, ?_⟩
      intro g' v hg'; simp only [upd] at hg'; split at hg'
      · simp at hg'
      · exact hnoclaim g' v hg'
    · have := huniq g (by simp [hg, Pc.isRecv]); contradiction
  case rCleared_eq =>
    intro g l m hg; simp only [upd] at hg; split at hg
    · simp at hg
    · have := huniq g (by simp [hg, Pc.isRecv]); contradiction

/-- receiver clears the slot it read -/
theorem binv_rClear (s : St) (f h l x : Nat) (hb : BInv s) (hpc : s.pc f = .rRdBuf h l x) :
    BInv { s with buf := upd s.buf (l % s.cap) 0, pc := upd s.pc f (.rCleared l x) } := by
  have hB := hb
  obtain ⟨b1, b2, b3, b4, b5, b6, b7, b8, b9, b10, b11, b12, b13, b14, b15, b16, b17⟩ := hb
  obtain ⟨hl, hlt, hval, hbuf, hne, hnoclaim⟩ := b16 f h l x hpc
  subst hl
  have huniq : ∀ g, (s.pc g).isRecv = true → g = f := fun g hg =>
    (brecv_unique hB (by simp [hpc, Pc.isRecv]) hg).symm
  have hother : ∀ i, s.low ≤ i → i < s.high → i ≠ s.low → i % s.cap ≠ s.low % s.cap := by
    intro i h1 h2 h3
    exact (mod_ne_of_lt (by omega) (by omega)).symm
  constructor
  case len => exact b1
  case lowhigh => exact b2
  case vnz => exact b3
  case recvd_eq => exact b4
  case calls_eq =>
    intro g; have := b5 g; simp only [upd]; split
    · rename_i hg; subst hg; simpa [hpc, Pc.pending, sentBy] using this
    · exact this
  case pend_nz =>
    intro g v hv; simp only [upd] at hv; split at hv
    · simp [Pc.pending] at hv
    · exact b6 g v hv
  case recv_id =>
    intro g hg; simp only [upd] at hg; split at hg
    · rename_i hgf; subst hgf; exact b7 g (by simp [hpc, Pc.isRecv])
    · exact b7 g hg
  case claimed =>
    intro g v h' hg; simp only [upd] at hg; split at hg
    · simp at hg
    · rename_i hgf
      obtain ⟨a, b, c, d, e⟩ := b8 g v h' hg
      refine ⟨a, b, c, d, ?_⟩
      show upd s.buf _ 0 _ = 0
      simp only [upd]; split
      · rfl
      · exact e
  case slots =>
    intro i h1 h2 h3
    have hil : i ≠ s.low := by
      intro e; subst e; exact h3 f x (by simp [upd])
    have h3' : ∀ g m, s.pc g ≠ .rCleared i m := by
      intro g m hg
      have := huniq g (by simp [hg, Pc.isRecv]); subst this; rw [hpc] at hg; simp at hg
    have hne' := hother i h1 h2 hil
    rcases b9 i h1 h2 h3' with h' | ⟨h', hc⟩
    · left; show upd s.buf _ 0 _ = _; rw [upd_other _ _ _ _ hne']; exact h'
    · right
      refine ⟨by show upd s.buf _ 0 _ = _; rw [upd_other _ _ _ _ hne']; exact h', ?_⟩
      show upd s.pc f _ (qown s i) = _
      simp only [upd]; split
      · rename_i he; rw [he, hpc] at hc; simp at hc
      · exact hc
  case free =>
    intro j hj hfree
    show upd s.buf _ 0 j = 0
    simp only [upd]; split
    · rfl
    · exact b10 j hj hfree
  case sLdLow_le =>
    intro g v l hg; simp only [upd] at hg; split at hg
    · simp at hg
    · exact b11 g v l hg
  case sLdHigh_le =>
    intro g v l h' hg; simp only [upd] at hg; split at hg
    · simp at hg
    · exact b12 g v l h' hg
  case sRdBuf_le =>
    intro g v l h' x' hg; simp only [upd] at hg; split at hg
    · simp at hg
    · exact b13 g v l h' x' hg
  case rLdHigh_le =>
    intro g h' hg; simp only [upd] at hg; split at hg
    · simp at hg
    · exact b14 g h' hg
  case rLdLow_eq =>
    intro g h' l hg; simp only [upd] at hg; split at hg
    · simp at hg
    · exact b15 g h' l hg
  case rRdBuf_eq =>
    intro g h' l x' hg; simp only [upd] at hg; split at hg
    · simp at hg
    · have := huniq g (by simp [hg, Pc.isRecv]); contradiction
  case rCleared_eq =>
    intro g l m hg; simp only [upd] at hg; split at hg
    · simp at hg; obtain ⟨rfl, rfl⟩ := hg
      refine ⟨rfl, hlt, hval, by simp [upd], ?_⟩
      intro g' v hg'; simp only [upd] at hg'; split at hg'
      · simp at hg'
      · exact hnoclaim g' v hg'
    · have := huniq g (by simp [hg, Pc.isRecv]); contradiction

/-- receiver publishes the new `low` -/
theorem binv_stLow (s : St) (f l m : Nat) (hb : BInv s) (hpc : s.pc f = .rCleared l m) :
    BInv { s with low := l + 1, recvd := s.recvd ++ [m], pc := upd s.pc f (.rDone m) } := by
  have hB := hb
  obtain ⟨b1, b2, b3, b4, b5, b6, b7, b8, b9, b10, b11, b12, b13, b14, b15, b16, b17⟩ := hb
  obtain ⟨hl, hlt, hval, hbuf, hnoclaim⟩ := b17 f l m hpc
  subst hl
  have huniq : ∀ g, (s.pc g).isRecv = true → g = f := fun g hg =>
    (brecv_unique hB (by simp [hpc, Pc.isRecv]) hg).symm
  have hlen : s.low < s.sent.length := by rw [b1]; exact hlt
  constructor
  case len => exact b1
  case lowhigh => simp only; omega
  case vnz => exact b3
  case recvd_eq =>
    simp only
    rw [b4, List.take_succ, hval]
    simp [qval, List.getElem?_map, List.getElem?_eq_getElem hlen]
  case calls_eq =>
    intro g; have := b5 g; simp only [upd]; split
    · rename_i hg; subst hg; simpa [hpc, Pc.pending, sentBy] using this
    · exact this
  case pend_nz =>
    intro g v hv; simp only [upd] at hv; split at hv
    · simp [Pc.pending] at hv
    · exact b6 g v hv
  case recv_id =>
    intro g hg; simp only [upd] at hg; split at hg
    · rename_i hgf; subst hgf; exact b7 g (by simp [hpc, Pc.isRecv])
    · exact b7 g hg
  case claimed =>
    intro g v h' hg; simp only [upd] at hg; split at hg
    · simp at hg
    · obtain ⟨a, b, c, d, e⟩ := b8 g v h' hg
      have : h' ≠ s.low := by intro e'; subst e'; exact hnoclaim g v hg
      exact ⟨by simp only; omega, b, c, d, e⟩
  case slots =>
    intro i h1 h2 h3
    simp only at h1 h2
    have h3' : ∀ g m', s.pc g ≠ .rCleared i m' := by
      intro g m' hg
      have := huniq g (by simp [hg, Pc.isRecv]); subst this; rw [hpc] at hg; simp at hg; omega
    rcases b9 i (by omega) h2 h3' with h' | ⟨h', hc⟩
    · exact Or.inl h'
    · refine Or.inr ⟨h', ?_⟩
      show upd s.pc f _ (qown s i) = _
      simp only [upd]; split
      · rename_i he; rw [he, hpc] at hc; simp at hc
      · exact hc
  case free =>
    intro j hj hfree
    simp only at hfree
    by_cases hjl : s.low % s.cap = j
    · rw [← hjl]; exact hbuf
    · apply b10 j hj
      intro i h1 h2
      by_cases hil : i = s.low
      · subst hil; exact hjl
      · exact hfree i (by omega) h2
  case sLdLow_le =>
    intro g v l hg; simp only [upd] at hg; split at hg
    · simp at hg
    · have := b11 g v l hg; simp only; omega
  case sLdHigh_le =>
    intro g v l h' hg; simp only [upd] at hg; split at hg
    · simp at hg
    · have := b12 g v l h' hg; exact ⟨by simp only; omega, this.2⟩
  case sRdBuf_le =>
    intro g v l h' x' hg; simp only [upd] at hg; split at hg
    · simp at hg
    · have := b13 g v l h' x' hg; exact ⟨by simp only; omega, this.2⟩
  case rLdHigh_le =>
    intro g h' hg; simp only [upd] at hg; split at hg
    · simp at hg
    · exact b14 g h' hg
  case rLdLow_eq =>
    intro g h' l hg; simp only [upd] at hg; split at hg
    · simp at hg
    · have := huniq g (by simp [hg, Pc.isRecv]); contradiction
  case rRdBuf_eq =>
    intro g h' l x' hg; simp only [upd] at hg; split at hg
    · simp at hg
    · have := huniq g (by simp [hg, Pc.isRecv]); contradiction
  case rCleared_eq =>
    intro g l m' hg; simp only [upd] at hg; split at hg
    · simp at hg
    · have := huniq g (by simp [hg, Pc.isRecv]); contradiction

/-- the claimer writes its message into its slot -/
theorem binv_sWrite (s : St) (f v h : Nat) (hb : BInv s) (hpc : s.pc f = .sClaimed v h) :
    BInv { s with buf := upd s.buf (h % s.cap) v, pc := upd s.pc f (.sPublished v) } := by
  have hB := hb
  obtain ⟨b1, b2, b3, b4, b5, b6, b7, b8, b9, b10, b11, b12, b13, b14, b15, b16, b17⟩ := hb
  obtain ⟨hlo, hhi, hown, hval, hbuf⟩ := b8 f v h hpc
  have hother : ∀ i, s.low ≤ i → i < s.high → i ≠ h → i % s.cap ≠ h % s.cap := by
    intro i h1 h2 h3
    rcases Nat.lt_or_gt_of_ne h3 with h4 | h4
    · exact mod_ne_of_lt h4 (by omega)
    · exact (mod_ne_of_lt h4 (by omega)).symm
  have hnotlow : ∀ g h' l x, s.pc g = .rRdBuf h' l x → h ≠ s.low := by
    intro g h' l x hg e
    subst e
    exact (b16 g h' l x hg).2.2.2.2.2 f v hpc
  have hnotlow2 : ∀ g l m, s.pc g = .rCleared l m → h ≠ s.low := by
    intro g l m hg e
    subst e
    exact (b17 g l m hg).2.2.2.2 f v hpc
  constructor
  case len => exact b1
  case lowhigh => exact b2
  case vnz => exact b3
  case recvd_eq => exact b4
  case calls_eq =>
    intro g; have := b5 g; simp only [upd]; split
    · rename_i hg; subst hg; simpa [hpc, Pc.pending, sentBy] using this
    · exact this
  case pend_nz =>
    intro g v' hv; simp only [upd] at hv; split at hv
    · simp [Pc.pending] at hv
    · exact b6 g v' hv
  case recv_id =>
    intro g hg; simp only [upd] at hg; split at hg
    · simp [Pc.isRecv] at hg
    · exact b7 g hg
  case claimed =>
    intro g v' h' hg; simp only [upd] at hg; split at hg
    · simp at hg
    · rename_i hgf
      obtain ⟨a, b, c, d, e⟩ := b8 g v' h' hg
      have hne : h' ≠ h := by
        intro e'; subst e'; rw [hown] at c; exact hgf c.symm
      refine ⟨a, b, c, d, ?_⟩
      show upd s.buf _ v _ = 0
      rw [upd_other _ _ _ _ (hother h' a b hne)]; exact e
  case slots =>
    intro i h1 h2 h3
    have h3' : ∀ g m, s.pc g ≠ .rCleared i m := by
      intro g m hg
      have := h3 g m; simp only [upd] at this; split at this
      · rename_i hgf; subst hgf; rw [hpc] at hg; simp at hg
      · exact this hg
    by_cases hih : i = h
    · subst hih
      left; show upd s.buf (i % s.cap) v (i % s.cap) = qval s i; rw [hval]; simp [upd]
    · have hne' := hother i h1 h2 hih
      rcases b9 i h1 h2 h3' with h' | ⟨h', hc⟩
      · left; show upd s.buf _ v _ = _; rw [upd_other _ _ _ _ hne']; exact h'
      · right
        refine ⟨by show upd s.buf _ v _ = _; rw [upd_other _ _ _ _ hne']; exact h', ?_⟩
        show upd s.pc f _ (qown s i) = _
        simp only [upd]; split
        · rename_i he; rw [he, hpc] at hc; simp at hc; exact absurd hc.2.symm hih
        · exact hc
  case free =>
    intro j hj hfree
    have hjn : h % s.cap ≠ j := hfree h hlo hhi
    show upd s.buf _ v j = 0
    rw [upd_other _ _ _ _ (fun e => hjn e.symm)]; exact b10 j hj hfree
  case sLdLow_le =>
    intro g v' l hg; simp only [upd] at hg; split at hg
    · simp at hg
    · exact b11 g v' l hg
  case sLdHigh_le =>
    intro g v' l h' hg; simp only [upd] at hg; split at hg
    · simp at hg
    · exact b12 g v' l h' hg
  case sRdBuf_le =>
    intro g v' l h' x' hg; simp only [upd] at hg; split at hg
    · simp at hg
    · exact b13 g v' l h' x' hg
  case rLdHigh_le =>
    intro g h' hg; simp only [upd] at hg; split at hg
    · simp at hg
    · exact b14 g h' hg
  case rLdLow_eq =>
    intro g h' l hg; simp only [upd] at hg; split at hg
    · simp at hg
    · exact b15 g h' l hg
  case rRdBuf_eq =>
    intro g h' l x' hg; simp only [upd] at hg; split at hg
    · simp at hg
    · obtain ⟨a, b, c, d, e, k⟩ := b16 g h' l x' hg
      have hne := hnotlow g h' l x' hg
      refine ⟨a, b, c, ?_, e, ?_⟩
      · show upd s.buf _ v _ = _
        rw [upd_other _ _ _ _ (hother s.low (Nat.le_refl _) b (fun e' => hne e'.symm))]; exact d
      · intro g' v' hg'; simp only [upd] at hg'; split at hg'
        · simp at hg'
        · exact k g' v' hg'
  case rCleared_eq =>
    intro g l m hg; simp only [upd] at hg; split at hg
    · simp at hg
    · obtain ⟨a, b, c, d, k⟩ := b17 g l m hg
      have hne := hnotlow2 g l m hg
      refine ⟨a, b, c, ?_, ?_⟩
      · show upd s.buf _ v _ = _
        rw [upd_other _ _ _ _ (hother s.low (Nat.le_refl _) b (fun e' => hne e'.symm))]; exact d
      · intro g' v' hg'; simp only [upd] at hg'; split at hg'
        · simp at hg'
        · exact k g' v' hg'

theorem lown_append_lt (l : List (Nat × Nat)) (p : Nat × Nat) (i : Nat) (h : i < l.length) :
    ((((l ++ [p])[i]?).map Prod.fst).getD 0) = (((l[i]?).map Prod.fst).getD 0) := by
  simp [List.getElem?_append_left h]

/-- a sender claims sequence number `high` -/
theorem binv_claim (s : St) (f v l x : Nat) (hb : BInv s) (hpc : s.pc f = .sRdBuf v l s.high x)
    (hlt : s.high - l < s.cap) :
    BInv { s with high := s.high + 1, sent := s.sent ++ [(f, v)], pc := upd s.pc f (.sClaimed v s.high) } := by
  have hB := hb
  obtain ⟨b1, b2, b3, b4, b5, b6, b7, b8, b9, b10, b11, b12, b13, b14, b15, b16, b17⟩ := hb
  obtain ⟨hl, _⟩ := b13 f v l s.high x hpc
  have hroom : s.high - s.low < s.cap := by omega
  have hvnz : v ≠ 0 := b6 f v (by simp [hpc, Pc.pending])
  have hqv : ∀ i, i < s.high → lval (s.sent ++ [(f, v)]) i = qval s i := fun i hi =>
    lval_append_lt _ _ i (by omega)
  have hqo : ∀ i, i < s.high →
      ((((s.sent ++ [(f, v)])[i]?).map Prod.fst).getD 0) = qown s i := fun i hi =>
    lown_append_lt _ _ i (by omega)
  have hfree : s.buf (s.high % s.cap) = 0 := by
    apply b10 _ (Nat.mod_lt _ (by omega))
    intro i h1 h2
    exact mod_ne_of_lt h2 (by omega)
  constructor
  case len => simp [b1]
  case lowhigh => simp only; omega
  case vnz =>
    intro p hp
    simp only [List.mem_append, List.mem_singleton] at hp
    rcases hp with hp | hp
    · exact b3 p hp
    · subst hp; exact hvnz
  case recvd_eq =>
    simp only [List.map_append]
    rw [List.take_append_of_le_length (by simp; omega)]; exact b4
  case calls_eq =>
    intro g
    simp only [sentBy, List.filter_append, List.map_append, upd]
    by_cases hgf : g = f
    · subst hgf
      have := b5 g
      simp only [sentBy, hpc, Pc.pending] at this
      simp [Pc.pending, List.filter, this]
    · have := b5 g
      simp only [sentBy] at this
      have hfg : ¬ f = g := fun e => hgf e.symm
      simp [hgf, hfg, List.filter, this]
  case pend_nz =>
    intro g v' hv; simp only [upd] at hv; split at hv
    · simp [Pc.pending] at hv
    · exact b6 g v' hv
  case recv_id =>
    intro g hg; simp only [upd] at hg; split at hg
    · simp [Pc.isRecv] at hg
    · exact b7 g hg
  case claimed =>
    intro g v' h' hg; simp only [upd] at hg; split at hg
    · rename_i hgf
      simp at hg; obtain ⟨hv, hh⟩ := hg
      rw [hgf, ← hv, ← hh]
      refine ⟨b2.1, by simp only; omega, ?_, ?_, hfree⟩
      · show ((((s.sent ++ [(f, v)])[s.high]?).map Prod.fst).getD 0) = f
        rw [← b1]; simp
      · show lval (s.sent ++ [(f, v)]) s.high = v
        rw [← b1]; exact lval_append_len _ _
    · obtain ⟨a, b, c, d, e⟩ := b8 g v' h' hg
      refine ⟨a, by simp only; omega, ?_, ?_, e⟩
      · show ((((s.sent ++ [(f, v)])[h']?).map Prod.fst).getD 0) = g
        rw [hqo h' b]; exact c
      · show lval (s.sent ++ [(f, v)]) h' = v'
        rw [hqv h' b]; exact d
  case slots =>
    intro i h1 h2 h3
    simp only at h1 h2
    have h3' : ∀ g m, s.pc g ≠ .rCleared i m := by
      intro g m hg
      have := h3 g m; simp only [upd] at this; split at this
      · rename_i hgf; subst hgf; rw [hpc] at hg; simp at hg
      · exact this hg
    by_cases hih : i = s.high
    · subst hih
      right
      refine ⟨hfree, ?_⟩
      show upd s.pc f _ ((((s.sent ++ [(f, v)])[s.high]?).map Prod.fst).getD 0) =
        .sClaimed (lval (s.sent ++ [(f, v)]) s.high) s.high
      have e1 : ((((s.sent ++ [(f, v)])[s.high]?).map Prod.fst).getD 0) = f := by rw [← b1]; simp
      have e2 : lval (s.sent ++ [(f, v)]) s.high = v := by rw [← b1]; exact lval_append_len _ _
      rw [e1, e2]; simp [upd]
    · have hi : i < s.high := by omega
      rcases b9 i h1 hi h3' with h' | ⟨h', hc⟩
      · left
        show s.buf (i % s.cap) = lval (s.sent ++ [(f, v)]) i
        rw [hqv i hi]; exact h'
      · right
        refine ⟨h', ?_⟩
        show upd s.pc f _ ((((s.sent ++ [(f, v)])[i]?).map Prod.fst).getD 0) =
          .sClaimed (lval (s.sent ++ [(f, v)]) i) i
        rw [hqo i hi, hqv i hi]
        simp only [upd]; split
        · rename_i he; rw [he, hpc] at hc; simp at hc
        · exact hc
  case free =>
    intro j hj hfr
    simp only at hfr
    exact b10 j hj (fun i h1 h2 => hfr i h1 (by omega))
  case sLdLow_le =>
    intro g v' l' hg; simp only [upd] at hg; split at hg
    · simp at hg
    · exact b11 g v' l' hg
  case sLdHigh_le =>
    intro g v' l' h' hg; simp only [upd] at hg; split at hg
    · simp at hg
    · have := b12 g v' l' h' hg; exact ⟨this.1, by simp only; omega⟩
  case sRdBuf_le =>
    intro g v' l' h' x' hg; simp only [upd] at hg; split at hg
    · simp at hg
    · have := b13 g v' l' h' x' hg; exact ⟨this.1, by simp only; omega⟩
  case rLdHigh_le =>
    intro g h' hg; simp only [upd] at hg; split at hg
    · simp at hg
    · have := b14 g h' hg; simp only; omega
  case rLdLow_eq =>
    intro g h' l' hg; simp only [upd] at hg; split at hg
    · simp at hg
    · have := b15 g h' l' hg; exact ⟨by simp only; omega, this.2⟩
  case rRdBuf_eq =>
    intro g h' l' x' hg; simp only [upd] at hg; split at hg
    · simp at hg
    · obtain ⟨a, b, c, d, e, k⟩ := b16 g h' l' x' hg
      refine ⟨a, by simp only; omega, ?_, d, e, ?_⟩
      · show x' = lval (s.sent ++ [(f, v)]) s.low
        rw [hqv s.low b]; exact c
      · intro g' v' hg'; simp only [upd] at hg'; split at hg'
        · simp at hg'; omega
        · exact k g' v' hg'
  case rCleared_eq =>
    intro g l' m hg; simp only [upd] at hg; split at hg
    · simp at hg
    · obtain ⟨a, b, c, d, k⟩ := b17 g l' m hg
      refine ⟨a, by simp only; omega, ?_, d, ?_⟩
      · show m = lval (s.sent ++ [(f, v)]) s.low
        rw [hqv s.low b]; exact c
      · intro g' v' hg'; simp only [upd] at hg'; split at hg'
        · simp at hg'; omega
        · exact k g' v' hg'

theorem upd_upd {α : Type} (g : Nat → α) (i : Nat) (a b : α) : upd (upd g i a) i b = upd g i b := by
  funext j; simp only [upd]; split <;> rfl

/-- the invariant does not mention the control / ghost fields of the try_receive extension -/
theorem binv_ghost (s : St) (a b : Bool) (c : Nat) (hb : BInv s) :
    BInv { s with tryMode := a, emptySeen := b, tryEmpty := c } := by
  obtain ⟨b1, b2, b3, b4, b5, b6, b7, b8, b9, b10, b11, b12, b13, b14, b15, b16, b17⟩ := hb
  exact ⟨b1, b2, b3, b4, b5, b6, b7, b8, b9, b10, b11, b12, b13, b14, b15, b16, b17⟩

/-- send's publishing write on a spinning channel: the sender is done with the channel -/
theorem binv_sWrite_spin (s : St) (f v h : Nat) (hb : BInv s) (hpc : s.pc f = .sClaimed v h) :
    BInv { s with buf := upd s.buf (h % s.cap) v, pc := upd s.pc f (.sRaised v false) } := by
  have h1 := binv_sWrite s f v h hb hpc
  have h2 := binv_frame _ s.p f (.sRaised v false) h1 (by simp [Pc.pending]) (by simp [Pc.isRecv])
    (by simp) (by simp) ⟨by simp, by simp, by simp⟩ (by simp) (by simp) (by simp) (by simp) (by simp)
  simpa [upd_upd] using h2

theorem binv_step_ldLow (s s' : St) (f l : Nat) (hk : s.kind = .bounded) (hb : BInv s)
    (hs : step s (.ldLow f l) = some s') : BInv s' := by
  simp only [step] at hs
  split at hs
  · simp at hs
  rename_i hc
  simp only [not_or, Decidable.not_not] at hc
  obtain ⟨_, hl⟩ := hc
  subst hl
  split at hs
  · rename_i v hpc
    simp at hs; subst hs
    exact binv_frame s s.p f _ hb (by simp [hpc, Pc.pending]) (by simp [Pc.isRecv]) (by simp [hpc]) (by simp [hpc])
      ⟨by simp, by simp, by simp⟩ (by intro v l h; simp at h; omega) (by simp) (by simp) (by simp) (by simp)
  · rename_i v l' h x hpc
    split at hs <;> simp at hs
    subst hs
    exact binv_frame s s.p f _ hb (by simp [hpc, Pc.pending]) (by simp [Pc.isRecv]) (by simp [hpc]) (by simp [hpc])
      ⟨by simp, by simp, by simp⟩ (by intro v l h; simp at h; omega) (by simp) (by simp) (by simp) (by simp)
  · rename_i h hpc
    simp at hs; subst hs
    have := hb.rLdHigh_le f h hpc
    exact binv_frame s s.p f _ hb (by simp [hpc, Pc.pending]) (fun _ => hb.recv_id f (by simp [hpc, Pc.isRecv]))
      (by simp [hpc]) (by simp [hpc])
      ⟨by simp, by simp, by simp⟩ (by simp) (by simp) (by simp) (by simp)
      (by intro h' l' e; simp at e; obtain ⟨rfl, rfl⟩ := e; exact ⟨this, rfl⟩)
  · simp at hs

theorem binv_step_ldHigh (s s' : St) (f h : Nat) (hk : s.kind = .bounded) (hb : BInv s)
    (hs : step s (.ldHigh f h) = some s') : BInv s' := by
  simp only [step] at hs
  split at hs
  · simp at hs
  rename_i hc
  simp only [not_or, Decidable.not_not] at hc
  obtain ⟨_, hh⟩ := hc
  subst hh
  split at hs
  · rename_i v l hpc
    simp at hs; subst hs
    have := hb.sLdLow_le f v l hpc
    exact binv_frame s s.p f _ hb (by simp [hpc, Pc.pending]) (by simp [Pc.isRecv]) (by simp [hpc]) (by simp [hpc])
      ⟨by simp, by simp, by simp⟩ (by simp)
      (by intro v' l' h' e; simp at e; obtain ⟨_, rfl, rfl⟩ := e; exact ⟨this, Nat.le_refl _⟩)
      (by simp) (by simp) (by simp)
  · rename_i hpc
    simp at hs; subst hs
    exact binv_ghost _ s.tryMode (decide (s.high = s.low)) s.tryEmpty
      (binv_frame s s.p f _ hb (by simp [hpc, Pc.pending]) (fun _ => hb.recv_id f (by simp [hpc, Pc.isRecv]))
      (by simp [hpc]) (by simp [hpc])
      ⟨by simp, by simp, by simp⟩ (by simp) (by simp) (by simp)
      (by intro h' e; simp at e; omega) (by simp))
  · simp at hs

theorem binv_step_rBuf (s s' : St) (f i x : Nat) (hk : s.kind = .bounded) (hb : BInv s)
    (hs : step s (.rBuf f i x) = some s') : BInv s' := by
  simp only [step] at hs
  split at hs
  · simp at hs
  rename_i hc
  simp only [not_or, Decidable.not_not] at hc
  obtain ⟨_, hx⟩ := hc
  split at hs
  · rename_i v l h hpc
    split at hs <;> simp at hs
    subst hs
    have := hb.sLdHigh_le f v l h hpc
    exact binv_frame s s.p f _ hb (by simp [hpc, Pc.pending]) (by simp [Pc.isRecv]) (by simp [hpc]) (by simp [hpc])
      ⟨by simp, by simp, by simp⟩ (by simp) (by simp)
      (by intro v' l' h' x' e; simp at e; obtain ⟨_, rfl, rfl, _⟩ := e; exact this)
      (by simp) (by simp)
  · rename_i h l hpc
    split at hs
    · rename_i hi
      split at hs
      · rename_i hc2
        simp at hs; subst hs
        subst hi
        exact binv_rRead s f h l x hb hpc hx hc2.1 hc2.2
      · simp only [emptyPc] at hs
        split at hs
        · simp at hs; subst hs
          exact binv_frame s s.p f .tEmpty hb (by simp [hpc, Pc.pending]) (fun _ => hb.recv_id f (by simp [hpc, Pc.isRecv]))
            (by simp [hpc]) (by simp [hpc])
            ⟨by simp, by simp, by simp⟩ (by simp) (by simp) (by simp) (by simp) (by simp)
        · split at hs
          · simp at hs; subst hs
            exact binv_frame s s.p f .rTop hb (by simp [hpc, Pc.pending]) (fun _ => hb.recv_id f (by simp [hpc, Pc.isRecv]))
              (by simp [hpc]) (by simp [hpc])
              ⟨by simp, by simp, by simp⟩ (by simp) (by simp) (by simp) (by simp) (by simp)
          · simp at hs; subst hs
            exact binv_frame s s.p f .rEmpty hb (by simp [hpc, Pc.pending]) (fun _ => hb.recv_id f (by simp [hpc, Pc.isRecv]))
              (by simp [hpc]) (by simp [hpc])
              ⟨by simp, by simp, by simp⟩ (by simp) (by simp) (by simp) (by simp) (by simp)
    · simp at hs
  · simp at hs

theorem binv_step_casHigh (s s' : St) (f a b c : Nat) (ok : Bool) (hk : s.kind = .bounded) (hb : BInv s)
    (hs : step s (.casHigh f a b c ok) = some s') : BInv s' := by
  simp only [step] at hs
  split at hs
  · simp at hs
  split at hs
  · rename_i v l h x hpc
    split at hs
    · rename_i hc
      obtain ⟨hx, hlt, hb', hc', ha, hok⟩ := hc
      split at hs
      · rename_i hokt
        simp at hs; subst hs
        have hfe := hok hokt
        have hh : h = s.high := by omega
        subst hh
        exact binv_claim s f v l x hb hpc hlt
      · simp at hs; subst hs
        exact binv_frame s s.p f _ hb (by simp [hpc, Pc.pending]) (by simp [Pc.isRecv]) (by simp [hpc]) (by simp [hpc])
          ⟨by simp, by simp, by simp⟩ (by simp) (by simp) (by simp) (by simp) (by simp)
    · simp at hs
  · simp at hs

theorem binv_step_wBuf (s s' : St) (f i x : Nat) (hk : s.kind = .bounded) (hb : BInv s)
    (hs : step s (.wBuf f i x) = some s') : BInv s' := by
  simp only [step] at hs
  split at hs
  · simp at hs
  split at hs
  · rename_i v h hpc
    split at hs <;> simp at hs
    rename_i hc
    obtain ⟨hi, hx⟩ := hc
    subst hi hx hs
    simp only [pubPc]
    split
    · exact binv_sWrite_spin s f x h hb hpc
    · exact binv_sWrite s f x h hb hpc
  · rename_i h l m hpc
    split at hs <;> simp at hs
    rename_i hc
    obtain ⟨hi, hx⟩ := hc
    subst hi hx hs
    exact binv_rClear s f h l m hb hpc
  · simp at hs

theorem binv_step_stLow (s s' : St) (f l : Nat) (hk : s.kind = .bounded) (hb : BInv s)
    (hs : step s (.stLow f l) = some s') : BInv s' := by
  simp only [step] at hs
  split at hs
  · simp at hs
  split at hs
  · rename_i l' m hpc
    split at hs <;> simp at hs
    rename_i hl
    subst hl hs
    exact binv_stLow s f l' m hb hpc
  · simp at hs

set_option maxHeartbeats 4000000 in
theorem binv_step_callSend (s s' : St) (f v : _) (hk : s.kind = .bounded) (hb : BInv s) (hs : step s (.callSend f v) = some s') : BInv s' := by
  have hB := hb
  obtain ⟨b1, b2, b3, b4, b5, b6, b7, b8, b9, b10, b11, b12, b13, b14, b15, b16, b17⟩ := hb
  simp only [step, emptyPc, pubPc, hk] at hs
  repeat' (split at hs)
  all_goals (try simp at hs)
  all_goals (try contradiction)
  all_goals (first | subst hs | (obtain ⟨_, hs⟩ := hs; subst hs))
  all_goals (constructor <;> cb_close)

set_option maxHeartbeats 4000000 in
theorem binv_step_woke (s s' : St) (f r : _) (hk : s.kind = .bounded) (hb : BInv s) (hs : step s (.woke f r) = some s') : BInv s' := by
  have hB := hb
  obtain ⟨b1, b2, b3, b4, b5, b6, b7, b8, b9, b10, b11, b12, b13, b14, b15, b16, b17⟩ := hb
  simp only [step, emptyPc, pubPc, hk] at hs
  repeat' (split at hs)
  all_goals (try simp at hs)
  all_goals (try contradiction)
  all_goals (first | subst hs | (obtain ⟨_, hs⟩ := hs; subst hs))
  all_goals (constructor <;> cb_close)

set_option maxHeartbeats 4000000 in
theorem binv_step_retSend (s s' : St) (f : _) (hk : s.kind = .bounded) (hb : BInv s) (hs : step s (.retSend f) = some s') : BInv s' := by
  have hB := hb
  obtain ⟨b1, b2, b3, b4, b5, b6, b7, b8, b9, b10, b11, b12, b13, b14, b15, b16, b17⟩ := hb
  simp only [step, emptyPc, pubPc, hk] at hs
  repeat' (split at hs)
  all_goals (try simp at hs)
  all_goals (try contradiction)
  all_goals (first | subst hs | (obtain ⟨_, hs⟩ := hs; subst hs))
  all_goals (constructor <;> cb_close)

set_option maxHeartbeats 4000000 in
theorem binv_step_callRecv (s s' : St) (f : _) (hk : s.kind = .bounded) (hb : BInv s) (hs : step s (.callRecv f) = some s') : BInv s' := by
  have hB := hb
  obtain ⟨b1, b2, b3, b4, b5, b6, b7, b8, b9, b10, b11, b12, b13, b14, b15, b16, b17⟩ := hb
  simp only [step, emptyPc, pubPc, hk] at hs
  repeat' (split at hs)
  all_goals (try simp at hs)
  all_goals (try contradiction)
  all_goals (first | subst hs | (obtain ⟨_, hs⟩ := hs; subst hs))
  all_goals (constructor <;> cb_close)

set_option maxHeartbeats 4000000 in
theorem binv_step_callTry (s s' : St) (f : _) (hk : s.kind = .bounded) (hb : BInv s) (hs : step s (.callTry f) = some s') : BInv s' := by
  have hB := hb
  obtain ⟨b1, b2, b3, b4, b5, b6, b7, b8, b9, b10, b11, b12, b13, b14, b15, b16, b17⟩ := hb
  simp only [step, emptyPc, pubPc, hk] at hs
  repeat' (split at hs)
  all_goals (try simp at hs)
  all_goals (try contradiction)
  all_goals (first | subst hs | (obtain ⟨_, hs⟩ := hs; subst hs))
  all_goals (constructor <;> cb_close)

set_option maxHeartbeats 4000000 in
theorem binv_step_retRecv (s s' : St) (f v : _) (hk : s.kind = .bounded) (hb : BInv s) (hs : step s (.retRecv f v) = some s') : BInv s' := by
  have hB := hb
  obtain ⟨b1, b2, b3, b4, b5, b6, b7, b8, b9, b10, b11, b12, b13, b14, b15, b16, b17⟩ := hb
  simp only [step, emptyPc, pubPc, hk] at hs
  repeat' (split at hs)
  all_goals (try simp at hs)
  all_goals (try contradiction)
  all_goals (first | subst hs | (obtain ⟨_, hs⟩ := hs; subst hs))
  all_goals (constructor <;> cb_close)

set_option maxHeartbeats 4000000 in
theorem binv_step_wNext (s s' : St) (f n x : _) (hk : s.kind = .bounded) (hb : BInv s) (hs : step s (.wNext f n x) = some s') : BInv s' := by
  have hB := hb
  obtain ⟨b1, b2, b3, b4, b5, b6, b7, b8, b9, b10, b11, b12, b13, b14, b15, b16, b17⟩ := hb
  simp only [step, emptyPc, pubPc, hk] at hs
  repeat' (split at hs)
  all_goals (try simp at hs)
  all_goals (try contradiction)
  all_goals (first | subst hs | (obtain ⟨_, hs⟩ := hs; subst hs))
  all_goals (constructor <;> cb_close)

set_option maxHeartbeats 4000000 in
theorem binv_step_xchgTail (s s' : St) (f o n : _) (hk : s.kind = .bounded) (hb : BInv s) (hs : step s (.xchgTail f o n) = some s') : BInv s' := by
  have hB := hb
  obtain ⟨b1, b2, b3, b4, b5, b6, b7, b8, b9, b10, b11, b12, b13, b14, b15, b16, b17⟩ := hb
  simp only [step, emptyPc, pubPc, hk] at hs
  repeat' (split at hs)
  all_goals (try simp at hs)
  all_goals (try contradiction)
  all_goals (first | subst hs | (obtain ⟨_, hs⟩ := hs; subst hs))
  all_goals (constructor <;> cb_close)

set_option maxHeartbeats 4000000 in
theorem binv_step_ldTail (s s' : St) (f t : _) (hk : s.kind = .bounded) (hb : BInv s) (hs : step s (.ldTail f t) = some s') : BInv s' := by
  have hB := hb
  obtain ⟨b1, b2, b3, b4, b5, b6, b7, b8, b9, b10, b11, b12, b13, b14, b15, b16, b17⟩ := hb
  simp only [step, emptyPc, pubPc, hk] at hs
  repeat' (split at hs)
  all_goals (try simp at hs)
  all_goals (try contradiction)
  all_goals (first | subst hs | (obtain ⟨_, hs⟩ := hs; subst hs))
  all_goals (constructor <;> cb_close)

set_option maxHeartbeats 4000000 in
theorem binv_step_stTail (s s' : St) (f n : _) (hk : s.kind = .bounded) (hb : BInv s) (hs : step s (.stTail f n) = some s') : BInv s' := by
  have hB := hb
  obtain ⟨b1, b2, b3, b4, b5, b6, b7, b8, b9, b10, b11, b12, b13, b14, b15, b16, b17⟩ := hb
  simp only [step, emptyPc, pubPc, hk] at hs
  repeat' (split at hs)
  all_goals (try simp at hs)
  all_goals (try contradiction)
  all_goals (first | subst hs | (obtain ⟨_, hs⟩ := hs; subst hs))
  all_goals (constructor <;> cb_close)

set_option maxHeartbeats 4000000 in
theorem binv_step_rHead (s s' : St) (f h : _) (hk : s.kind = .bounded) (hb : BInv s) (hs : step s (.rHead f h) = some s') : BInv s' := by
  have hB := hb
  obtain ⟨b1, b2, b3, b4, b5, b6, b7, b8, b9, b10, b11, b12, b13, b14, b15, b16, b17⟩ := hb
  simp only [step, emptyPc, pubPc, hk] at hs
  repeat' (split at hs)
  all_goals (try simp at hs)
  all_goals (try contradiction)
  all_goals (first | subst hs | (obtain ⟨_, hs⟩ := hs; subst hs))
  all_goals (constructor <;> cb_close)

set_option maxHeartbeats 4000000 in
theorem binv_step_wHead (s s' : St) (f x : _) (hk : s.kind = .bounded) (hb : BInv s) (hs : step s (.wHead f x) = some s') : BInv s' := by
  have hB := hb
  obtain ⟨b1, b2, b3, b4, b5, b6, b7, b8, b9, b10, b11, b12, b13, b14, b15, b16, b17⟩ := hb
  simp only [step, emptyPc, pubPc, hk] at hs
  repeat' (split at hs)
  all_goals (try simp at hs)
  all_goals (try contradiction)
  all_goals (first | subst hs | (obtain ⟨_, hs⟩ := hs; subst hs))
  all_goals (constructor <;> cb_close)

set_option maxHeartbeats 4000000 in
theorem binv_step_rNext (s s' : St) (f n x : _) (hk : s.kind = .bounded) (hb : BInv s) (hs : step s (.rNext f n x) = some s') : BInv s' := by
  have hB := hb
  obtain ⟨b1, b2, b3, b4, b5, b6, b7, b8, b9, b10, b11, b12, b13, b14, b15, b16, b17⟩ := hb
  simp only [step, emptyPc, pubPc, hk] at hs
  repeat' (split at hs)
  all_goals (try simp at hs)
  all_goals (try contradiction)
  all_goals (first | subst hs | (obtain ⟨_, hs⟩ := hs; subst hs))
  all_goals (constructor <;> cb_close)

set_option maxHeartbeats 4000000 in
theorem binv_step_rData (s s' : St) (f n d : _) (hk : s.kind = .bounded) (hb : BInv s) (hs : step s (.rData f n d) = some s') : BInv s' := by
  have hB := hb
  obtain ⟨b1, b2, b3, b4, b5, b6, b7, b8, b9, b10, b11, b12, b13, b14, b15, b16, b17⟩ := hb
  simp only [step, emptyPc, pubPc, hk] at hs
  repeat' (split at hs)
  all_goals (try simp at hs)
  all_goals (try contradiction)
  all_goals (first | subst hs | (obtain ⟨_, hs⟩ := hs; subst hs))
  all_goals (constructor <;> cb_close)

set_option maxHeartbeats 4000000 in
theorem binv_step_wData (s s' : St) (f n d : _) (hk : s.kind = .bounded) (hb : BInv s) (hs : step s (.wData f n d) = some s') : BInv s' := by
  have hB := hb
  obtain ⟨b1, b2, b3, b4, b5, b6, b7, b8, b9, b10, b11, b12, b13, b14, b15, b16, b17⟩ := hb
  simp only [step, emptyPc, pubPc, hk] at hs
  repeat' (split at hs)
  all_goals (try simp at hs)
  all_goals (try contradiction)
  all_goals (first | subst hs | (obtain ⟨_, hs⟩ := hs; subst hs))
  all_goals (constructor <;> cb_close)

theorem binv_p (s : St) (p' : Signal.PSt) (hb : BInv s) : BInv { s with p := p' } := by
  obtain ⟨b1, b2, b3, b4, b5, b6, b7, b8, b9, b10, b11, b12, b13, b14, b15, b16, b17⟩ := hb
  exact ⟨b1, b2, b3, b4, b5, b6, b7, b8, b9, b10, b11, b12, b13, b14, b15, b16, b17⟩

theorem binv_step_p (s s' : St) (pe : Signal.PEv) (hb : BInv s) (hs : step s (.p pe) = some s') : BInv s' := by
  rcases proto_shape s s' pe hs with ⟨p', rfl⟩ | ⟨p', X, rfl, ht⟩
  · exact binv_p s p' hb
  · have hpend := ht.pending
    have hrecv := ht.isRecv
    refine binv_frame s p' _ X hb (by rw [hpend.1, hpend.2])
      (fun h => hb.recv_id _ (by rw [hrecv]; exact h)) ?_ ?_ ⟨?_, ?_, ?_⟩ ?_ ?_ ?_ ?_ ?_
    all_goals (generalize s.pc (Chan.pactor pe) = a at ht; cases ht <;> simp)

theorem binv_step (s s' : St) (e : Ev) (hk : s.kind = .bounded) (hb : BInv s) (hs : step s e = some s') :
    BInv s' := by
  cases e with
  | p pe => exact binv_step_p s s' pe hb hs
  | callSend f v => exact binv_step_callSend s s' f v hk hb hs
  | woke f r => exact binv_step_woke s s' f r hk hb hs
  | retSend f => exact binv_step_retSend s s' f hk hb hs
  | callRecv f => exact binv_step_callRecv s s' f hk hb hs
  | callTry f => exact binv_step_callTry s s' f hk hb hs
  | retRecv f v => exact binv_step_retRecv s s' f v hk hb hs
  | ldLow f l => exact binv_step_ldLow s s' f l hk hb hs
  | ldHigh f h => exact binv_step_ldHigh s s' f h hk hb hs
  | rBuf f i x => exact binv_step_rBuf s s' f i x hk hb hs
  | casHigh f a b c ok => exact binv_step_casHigh s s' f a b c ok hk hb hs
  | wBuf f i x => exact binv_step_wBuf s s' f i x hk hb hs
  | stLow f l => exact binv_step_stLow s s' f l hk hb hs
  | wNext f n x => exact binv_step_wNext s s' f n x hk hb hs
  | xchgTail f o n => exact binv_step_xchgTail s s' f o n hk hb hs
  | ldTail f t => exact binv_step_ldTail s s' f t hk hb hs
  | stTail f n => exact binv_step_stTail s s' f n hk hb hs
  | rHead f h => exact binv_step_rHead s s' f h hk hb hs
  | wHead f x => exact binv_step_wHead s s' f x hk hb hs
  | rNext f n x => exact binv_step_rNext s s' f n x hk hb hs
  | rData f n d => exact binv_step_rData s s' f n d hk hb hs
  | wData f n d => exact binv_step_wData s s' f n d hk hb hs

theorem binv_of_run {spin : Bool} {cap : Nat} {es : List Ev} {s : St}
    (h : (sysM spin .bounded cap).run es = some s) : BInv s := by
  have : s.kind = .bounded ∧ BInv s :=
    Sys.inv_of_run (sysM spin .bounded cap) (fun s => s.kind = .bounded ∧ BInv s) ⟨rfl, binv_initM spin cap⟩
      (fun s e s' hi hs => ⟨(kind_step s s' e hs).1.trans hi.1, binv_step s s' e hi.1 hi.2 hs⟩) h
  exact this.2

end LibfiberVerif.Chan
