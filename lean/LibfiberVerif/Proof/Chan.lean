/-
  Proof/Chan.lean — the signal protocol embedded in the channel model keeps its invariant
  (`Signal.PInv`): everything proved about fiber_signal_t (single wake-up, wake after the
  hand-shake marker) holds verbatim for the ready_signal of a channel.  Property C11.
-/
import LibfiberVerif.Model.Chan
import LibfiberVerif.Proof.SignalProto

namespace LibfiberVerif.Chan

open Signal (PSt PEv PPc pstep PInv pinv_step)

/-- a (possibly empty) sequence of protocol steps -/
inductive PSteps : PSt → PSt → Prop
  | refl (p : PSt) : PSteps p p
  | step {p q r : PSt} (e : PEv) : pstep p e = some q → PSteps q r → PSteps p r

theorem PSteps.pinv {p q : PSt} (h : PSteps p q) (hi : PInv p) : PInv q := by
  induction h with
  | refl => exact hi
  | step e he _ ih => exact ih (pinv_step _ _ e hi he)

theorem PSteps.one {p q : PSt} (e : PEv) (h : pstep p e = some q) : PSteps p q :=
  .step e h (.refl q)

theorem PSteps.trans {p q r : PSt} (h1 : PSteps p q) (h2 : PSteps q r) : PSteps p r := by
  induction h1 with
  | refl => exact h2
  | step e he _ ih => exact .step e he (ih h2)

theorem psteps_of_embedded (s s' : St) (e : PEv) (hs : pEmbedded s e = some s') : PSteps s.p s'.p := by
  simp only [pEmbedded] at hs
  split at hs
  · -- rEmpty: callWait ; e
    cases h1 : pstep s.p (.callWait (pactor e)) with
    | none => simp [h1] at hs
    | some p1 =>
      cases h2 : pstep p1 e with
      | none => simp [h1, h2] at hs
      | some p2 =>
        simp [h1, h2] at hs; subst hs
        exact .step _ h1 (.one _ h2)
  · -- rWaiting: e [; retWait]
    cases h2 : pstep s.p e with
    | none => simp [h2] at hs
    | some p2 =>
      simp only [h2, Option.bind_eq_bind, Option.bind_some] at hs
      split at hs
      · cases h3 : pstep p2 (.retWait (pactor e)) with
        | none => simp [h3] at hs
        | some p3 =>
          simp [h3] at hs; subst hs
          exact .step _ h2 (.one _ h3)
      · simp at hs; subst hs; exact .one _ h2
  · -- sPublished: callRaise ; e [; retRaise]
    cases h1 : pstep s.p (.callRaise (pactor e)) with
    | none => simp [h1] at hs
    | some p1 =>
      cases h2 : pstep p1 e with
      | none => simp [h1, h2] at hs
      | some p2 =>
        simp only [h1, h2, Option.bind_eq_bind, Option.bind_some] at hs
        split at hs
        · rename_i r hr
          cases h3 : pstep p2 (.retRaise (pactor e) r) with
          | none => simp [h3] at hs
          | some p3 =>
            simp [h3] at hs; subst hs
            exact .step _ h1 (.step _ h2 (.one _ h3))
        · simp at hs; subst hs
          exact .step _ h1 (.one _ h2)
  · -- sRaising: e [; retRaise]
    cases h2 : pstep s.p e with
    | none => simp [h2] at hs
    | some p2 =>
      simp only [h2, Option.bind_eq_bind, Option.bind_some] at hs
      split at hs
      · rename_i r hr
        cases h3 : pstep p2 (.retRaise (pactor e) r) with
        | none => simp [h3] at hs
        | some p3 =>
          simp [h3] at hs; subst hs
          exact .step _ h2 (.one _ h3)
      · simp at hs; subst hs; exact .one _ h2
  · simp at hs

/-- every channel step moves the embedded signal by protocol steps only -/
theorem psteps_of_step (s s' : St) (e : Ev) (hs : step s e = some s') : PSteps s.p s'.p := by
  cases e with
  | p pe =>
    cases pe with
    | setWait g f =>
      simp only [step, Option.map_eq_some_iff] at hs
      obtain ⟨p', hp, rfl⟩ := hs
      exact .one _ hp
    | callWait f => simp [step] at hs
    | retWait f => simp [step] at hs
    | callRaise f => simp [step] at hs
    | retRaise f r => simp [step] at hs
    | clrScratch f => exact psteps_of_embedded s s' _ (by simpa [step] using hs)
    | casWaiter f w ok => exact psteps_of_embedded s s' _ (by simpa [step] using hs)
    | wStateWaiting f => exact psteps_of_embedded s s' _ (by simpa [step] using hs)
    | stNone f => exact psteps_of_embedded s s' _ (by simpa [step] using hs)
    | xchg f old => exact psteps_of_embedded s s' _ (by simpa [step] using hs)
    | rScratch f g r => exact psteps_of_embedded s s' _ (by simpa [step] using hs)
    | wStateReady f g => exact psteps_of_embedded s s' _ (by simpa [step] using hs)
  | _ =>
    simp only [step] at hs
    all_goals (repeat' (split at hs))
    all_goals (try simp at hs)
    all_goals (first | (subst hs; exact .refl _) | (obtain ⟨_, hs⟩ := hs; subst hs; exact .refl _))

theorem pinv_of_run {spin : Bool} {k : Kind} {cap : Nat} {es : List Ev} {s : St}
    (h : (sysM spin k cap).run es = some s) : PInv s.p :=
  Sys.inv_of_run (sysM spin k cap) (fun s => PInv s.p) Signal.pinv_init
    (fun s e s' hi hs => (psteps_of_step s s' e hs).pinv hi) h

/-! ### shape of an embedded protocol step: only the signal and the actor's pc change -/

/-- the channel-level pc transitions a protocol event can cause -/
inductive PcTrans : Pc → Pc → Prop
  | wait : PcTrans .rEmpty .rWaiting
  | waiting : PcTrans .rWaiting .rWaiting
  | waited : PcTrans .rWaiting .rTop
  | raise (v : Nat) : PcTrans (.sPublished v) (.sRaising v)
  | raise1 (v : Nat) (r : Bool) : PcTrans (.sPublished v) (.sRaised v r)
  | raising (v : Nat) : PcTrans (.sRaising v) (.sRaising v)
  | raised (v : Nat) (r : Bool) : PcTrans (.sRaising v) (.sRaised v r)

theorem embedded_shape (s s' : St) (e : PEv) (hs : pEmbedded s e = some s') :
    ∃ p' X, s' = { s with p := p', pc := upd s.pc (pactor e) X } ∧ PcTrans (s.pc (pactor e)) X := by
  simp only [pEmbedded] at hs
  split at hs
  · rename_i hpc
    cases h1 : pstep s.p (.callWait (pactor e)) with
    | none => simp [h1] at hs
    | some p1 =>
      cases h2 : pstep p1 e with
      | none => simp [h1, h2] at hs
      | some p2 =>
        simp [h1, h2] at hs; subst hs
        exact ⟨p2, .rWaiting, rfl, by rw [hpc]; exact .wait⟩
  · rename_i hpc
    cases h2 : pstep s.p e with
    | none => simp [h2] at hs
    | some p2 =>
      simp only [h2, Option.bind_eq_bind, Option.bind_some] at hs
      split at hs
      · cases h3 : pstep p2 (.retWait (pactor e)) with
        | none => simp [h3] at hs
        | some p3 =>
          simp [h3] at hs; subst hs
          exact ⟨p3, .rTop, rfl, by rw [hpc]; exact .waited⟩
      · simp at hs; subst hs
        refine ⟨p2, .rWaiting, ?_, by rw [hpc]; exact .waiting⟩
        have : upd s.pc (pactor e) .rWaiting = s.pc := by
          funext j; simp only [upd]; split
          · rename_i hj; rw [hj, hpc]
          · rfl
        rw [this]
  · rename_i v hpc
    cases h1 : pstep s.p (.callRaise (pactor e)) with
    | none => simp [h1] at hs
    | some p1 =>
      cases h2 : pstep p1 e with
      | none => simp [h1, h2] at hs
      | some p2 =>
        simp only [h1, h2, Option.bind_eq_bind, Option.bind_some] at hs
        split at hs
        · rename_i r hr
          cases h3 : pstep p2 (.retRaise (pactor e) r) with
          | none => simp [h3] at hs
          | some p3 =>
            simp [h3] at hs; subst hs
            exact ⟨p3, .sRaised v r, rfl, by rw [hpc]; exact .raise1 v r⟩
        · simp at hs; subst hs
          exact ⟨p2, .sRaising v, rfl, by rw [hpc]; exact .raise v⟩
  · rename_i v hpc
    cases h2 : pstep s.p e with
    | none => simp [h2] at hs
    | some p2 =>
      simp only [h2, Option.bind_eq_bind, Option.bind_some] at hs
      split at hs
      · rename_i r hr
        cases h3 : pstep p2 (.retRaise (pactor e) r) with
        | none => simp [h3] at hs
        | some p3 =>
          simp [h3] at hs; subst hs
          exact ⟨p3, .sRaised v r, rfl, by rw [hpc]; exact .raised v r⟩
      · simp at hs; subst hs
        refine ⟨p2, .sRaising v, ?_, by rw [hpc]; exact .raising v⟩
        have : upd s.pc (pactor e) (.sRaising v) = s.pc := by
          funext j; simp only [upd]; split
          · rename_i hj; rw [hj, hpc]
          · rfl
        rw [this]
  · simp at hs


/-- the four ways a protocol event is embedded in a channel operation, with the protocol
    steps it stands for spelled out -/
theorem embedded_cases (s s' : St) (e : PEv) (hs : pEmbedded s e = some s') :
    (s.pc (pactor e) = .rEmpty ∧ ∃ p1 p2, pstep s.p (.callWait (pactor e)) = some p1 ∧ pstep p1 e = some p2 ∧
        s' = { s with p := p2, pc := upd s.pc (pactor e) .rWaiting }) ∨
    (s.pc (pactor e) = .rWaiting ∧ ∃ p2, pstep s.p e = some p2 ∧
        ((p2.pc (pactor e) = .waitDone ∧ ∃ p3, pstep p2 (.retWait (pactor e)) = some p3 ∧
            s' = { s with p := p3, pc := upd s.pc (pactor e) .rTop }) ∨
         (p2.pc (pactor e) ≠ .waitDone ∧ s' = { s with p := p2 }))) ∨
    (∃ v, s.pc (pactor e) = .sPublished v ∧ ∃ p1 p2, pstep s.p (.callRaise (pactor e)) = some p1 ∧
        pstep p1 e = some p2 ∧
        ((∃ r p3, p2.pc (pactor e) = .raiseDone r ∧ pstep p2 (.retRaise (pactor e) r) = some p3 ∧
            s' = { s with p := p3, pc := upd s.pc (pactor e) (.sRaised v r) }) ∨
         ((∀ r, p2.pc (pactor e) ≠ .raiseDone r) ∧
            s' = { s with p := p2, pc := upd s.pc (pactor e) (.sRaising v) }))) ∨
    (∃ v, s.pc (pactor e) = .sRaising v ∧ ∃ p2, pstep s.p e = some p2 ∧
        ((∃ r p3, p2.pc (pactor e) = .raiseDone r ∧ pstep p2 (.retRaise (pactor e) r) = some p3 ∧
            s' = { s with p := p3, pc := upd s.pc (pactor e) (.sRaised v r) }) ∨
         ((∀ r, p2.pc (pactor e) ≠ .raiseDone r) ∧ s' = { s with p := p2 }))) := by
  simp only [pEmbedded] at hs
  split at hs
  · rename_i hpc
    cases h1 : pstep s.p (.callWait (pactor e)) with
    | none => simp [h1] at hs
    | some p1 =>
      cases h2 : pstep p1 e with
      | none => simp [h1, h2] at hs
      | some p2 =>
        simp [h1, h2] at hs; subst hs
        exact Or.inl ⟨hpc, p1, p2, rfl, h2, rfl⟩
  · rename_i hpc
    cases h2 : pstep s.p e with
    | none => simp [h2] at hs
    | some p2 =>
      simp only [h2, Option.bind_eq_bind, Option.bind_some] at hs
      split at hs
      · rename_i hd
        cases h3 : pstep p2 (.retWait (pactor e)) with
        | none => simp [h3] at hs
        | some p3 =>
          simp [h3] at hs; subst hs
          exact Or.inr (Or.inl ⟨hpc, p2, rfl, Or.inl ⟨hd, p3, h3, rfl⟩⟩)
      · rename_i hd
        simp at hs; subst hs
        exact Or.inr (Or.inl ⟨hpc, p2, rfl, Or.inr ⟨hd, rfl⟩⟩)
  · rename_i v hpc
    cases h1 : pstep s.p (.callRaise (pactor e)) with
    | none => simp [h1] at hs
    | some p1 =>
      cases h2 : pstep p1 e with
      | none => simp [h1, h2] at hs
      | some p2 =>
        simp only [h1, h2, Option.bind_eq_bind, Option.bind_some] at hs
        split at hs
        · rename_i r hr
          cases h3 : pstep p2 (.retRaise (pactor e) r) with
          | none => simp [h3] at hs
          | some p3 =>
            simp [h3] at hs; subst hs
            exact Or.inr (Or.inr (Or.inl ⟨v, hpc, p1, p2, rfl, h2, Or.inl ⟨r, p3, hr, h3, rfl⟩⟩))
        · rename_i hnr
          simp at hs; subst hs
          exact Or.inr (Or.inr (Or.inl ⟨v, hpc, p1, p2, rfl, h2, Or.inr ⟨fun r hr => hnr r hr, rfl⟩⟩))
  · rename_i v hpc
    cases h2 : pstep s.p e with
    | none => simp [h2] at hs
    | some p2 =>
      simp only [h2, Option.bind_eq_bind, Option.bind_some] at hs
      split at hs
      · rename_i r hr
        cases h3 : pstep p2 (.retRaise (pactor e) r) with
        | none => simp [h3] at hs
        | some p3 =>
          simp [h3] at hs; subst hs
          exact Or.inr (Or.inr (Or.inr ⟨v, hpc, p2, rfl, Or.inl ⟨r, p3, hr, h3, rfl⟩⟩))
      · rename_i hnr
        simp at hs; subst hs
        exact Or.inr (Or.inr (Or.inr ⟨v, hpc, p2, rfl, Or.inr ⟨fun r hr => hnr r hr, rfl⟩⟩))
  · simp at hs

/-- every protocol event of the channel model: only `p` and (possibly) the actor's pc change,
    along an allowed transition -/
theorem proto_shape (s s' : St) (pe : PEv) (hs : step s (.p pe) = some s') :
    (∃ p', s' = { s with p := p' }) ∨
    (∃ p' X, s' = { s with p := p', pc := upd s.pc (pactor pe) X } ∧ PcTrans (s.pc (pactor pe)) X) := by
  cases pe with
  | setWait g f =>
    simp only [step, Option.map_eq_some_iff] at hs
    obtain ⟨p', _, rfl⟩ := hs
    exact Or.inl ⟨p', rfl⟩
  | callWait f => simp [step] at hs
  | retWait f => simp [step] at hs
  | callRaise f => simp [step] at hs
  | retRaise f r => simp [step] at hs
  | clrScratch f => exact Or.inr (embedded_shape s s' _ (by simpa [step] using hs))
  | casWaiter f w ok => exact Or.inr (embedded_shape s s' _ (by simpa [step] using hs))
  | wStateWaiting f => exact Or.inr (embedded_shape s s' _ (by simpa [step] using hs))
  | stNone f => exact Or.inr (embedded_shape s s' _ (by simpa [step] using hs))
  | xchg f old => exact Or.inr (embedded_shape s s' _ (by simpa [step] using hs))
  | rScratch f g r => exact Or.inr (embedded_shape s s' _ (by simpa [step] using hs))
  | wStateReady f g => exact Or.inr (embedded_shape s s' _ (by simpa [step] using hs))

end LibfiberVerif.Chan
