/-
  Proof/MultiChanTwoStep.lean — the two-list invariant along every run, and the FULL
  `no_lost_wake` for the two-list discipline (Props/C11.lean).
-/
import LibfiberVerif.Proof.MultiChanTwoS1
import LibfiberVerif.Proof.MultiChanTwoS2
import LibfiberVerif.Proof.MultiChanTwoS3
import LibfiberVerif.Proof.MultiChanTwoS4
import LibfiberVerif.Proof.MultiChanTwoS5
import LibfiberVerif.Proof.MultiChan

set_option linter.unusedSimpArgs false
set_option linter.unusedVariables false

namespace LibfiberVerif.MultiChan

theorem inv2_step (s s' : St) (e : Ev) (hl : LInv s) (hr : RInv s) (hi : Inv2 s) (hs : step s e = some s') :
    Inv2 s' := by
  cases e with
  | callSend f v => exact inv2_step_callSend s s' f v hl hr hi hs
  | retSend f => exact inv2_step_retSend s s' f hl hr hi hs
  | callRecv f => exact inv2_step_callRecv s s' f hl hr hi hs
  | retRecv f v => exact inv2_step_retRecv s s' f v hl hr hi hs
  | fsub f old => exact inv2_step_fsub s s' f old hl hr hi hs
  | fadd f old => exact inv2_step_fadd s s' f old hl hr hi hs
  | handoff f g => exact inv2_step_handoff s s' f g hl hr hi hs
  | rHigh f h => exact inv2_step_rHigh s s' f h hl hr hi hs
  | rLow f l => exact inv2_step_rLow s s' f l hl hr hi hs
  | wHigh f h => exact inv2_step_wHigh s s' f h hl hr hi hs
  | wLow f l => exact inv2_step_wLow s s' f l hl hr hi hs
  | rBuf f i x => exact inv2_step_rBuf s s' f i x hl hr hi hs
  | wBuf f i x => exact inv2_step_wBuf s s' f i x hl hr hi hs
  | rWaiters f w => exact inv2_step_rWaiters s s' f w hl hr hi hs
  | wWaiters f w => exact inv2_step_wWaiters s s' f w hl hr hi hs
  | rScratch f g x => exact inv2_step_rScratch s s' f g x hl hr hi hs
  | wScratch f g x => exact inv2_step_wScratch s s' f g x hl hr hi hs
  | wStateWaiting f => exact inv2_step_wStateWaiting s s' f hl hr hi hs
  | wStateReady f g => exact inv2_step_wStateReady s s' f g hl hr hi hs
  | rSWaiters f w => exact inv2_step_rSWaiters s s' f w hl hr hi hs
  | wSWaiters f w => exact inv2_step_wSWaiters s s' f w hl hr hi hs

theorem inv2_of_run {cap : Nat} {es : List Ev} {s : St} (h : (sys true cap).run es = some s) : Inv2 s := by
  have : LInv s ∧ RInv s ∧ Inv2 s :=
    Sys.inv_of_run (sys true cap) (fun s => LInv s ∧ RInv s ∧ Inv2 s)
      ⟨linv_init true cap, rinv_init true cap, inv2_init cap⟩
      (fun s e s' hi hs => ⟨linv_step s s' e hi.1 hs, rinv_step s s' e hi.1 hi.2.1 hs,
        inv2_step s s' e hi.1 hi.2.1 hi.2.2 hs⟩) h
  exact this.2.2

/-- `no_lost_wake`, full statement, for the two-list discipline: in a quiescent state no
    sleeper could proceed. -/
theorem not_stranded_two {s : St} (hi : Inv2 s) (hq : quiescent s = true) (f : Nat) :
    stranded s f = false := by
  cases hst : stranded s f with
  | false => rfl
  | true =>
    exfalso
    simp only [stranded, Bool.and_eq_true] at hst
    obtain ⟨hsl, hcan⟩ := hst
    obtain ⟨⟨o, ho⟩, hw⟩ := (sleeping_iff s f).1 hsl
    obtain ⟨hall, hlock, _⟩ := (quiescent_iff s).1 hq
    -- nobody is awake, no wake-up is owed
    have hpw : s.pw = false := by
      cases hp : s.pw with
      | false => rfl
      | true => obtain ⟨g, hg, _⟩ := hi.pw_lock hp; rw [hlock] at hg; simp at hg
    have hnoR : s.awR = [] := by
      apply List.eq_nil_iff_forall_not_mem.2
      intro g hg
      have hgaw := (hi.awR_iff g).1 hg
      have hne : s.pc g ≠ .idle := by intro e; simp [e, Pc.awakeR] at hgaw
      rcases hall g (hi.fibers_all g hne) with h | h
      · exact hne h
      · obtain ⟨⟨o', ho'⟩, hw'⟩ := (sleeping_iff s g).1 h
        simp [ho', hw', Pc.awakeR] at hgaw
    have hnoS : s.awS = [] := by
      apply List.eq_nil_iff_forall_not_mem.2
      intro g hg
      have hgaw := (hi.awS_iff g).1 hg
      have hne : s.pc g ≠ .idle := by intro e; simp [e, Pc.awakeS] at hgaw
      rcases hall g (hi.fibers_all g hne) with h | h
      · exact hne h
      · obtain ⟨⟨o', ho'⟩, hw'⟩ := (sleeping_iff s g).1 h
        simp [ho', hw', Pc.awakeS] at hgaw
    have hnowk : ∀ w, s.waking ≠ some w := by
      intro w hwk
      obtain ⟨⟨g, hg, _⟩, _⟩ := hi.waking_lock w hwk
      rw [hlock] at hg; simp at hg
    cases o with
    | recv =>
      simp only [ho, Pc.asleepOp, empty, Bool.not_eq_true', decide_eq_false_iff_not, Nat.not_le] at hcan
      have hmem : f ∈ s.wl := by
        rcases hi.asleep_r f ho hw with h | h
        · exact h
        · exact absurd h (hnowk f)
      have hne : s.wl ≠ [] := by intro e; rw [e] at hmem; simp at hmem
      have := hi.actR hne
      simp [hnoR, hpw, b2n] at this
      omega
    | send v =>
      simp only [ho, Pc.asleepOp, full, Bool.not_eq_true', decide_eq_false_iff_not, Nat.not_le, ge_iff_le] at hcan
      have hmem : f ∈ s.swl := by
        rcases hi.asleep_s f v ho hw with h | h
        · exact h
        · exact absurd h (hnowk f)
      have hne : s.swl ≠ [] := by intro e; rw [e] at hmem; simp at hmem
      have := hi.actS hne
      simp [hnoS, hpw, b2n] at this
      omega

end LibfiberVerif.MultiChan
