/-
  Proof/MultiSignalS3.lean — `MultiSignal.Inv` is preserved by the events of group S3
  (one lemma per event; split over several modules so that they compile in parallel).
-/
import LibfiberVerif.Proof.MultiSignalInv

namespace LibfiberVerif.MultiSignal

set_option maxHeartbeats 4000000 in
theorem inv_step_setWait (s s' : St) (g f : _) (hi : Inv s) (hs : step s (.setWait g f) = some s') : Inv s' := by
  obtain ⟨h1, h2, h3, h4, h5, h6, h7, h8, h9, h10, h11, h12, h13, h14, h15, h16, h17, h18, h19, h20, h21, h22, h23, h24, h25, h26, h27, h28, h29, h30⟩ := hi
  simp only [step] at hs
  repeat' (split at hs)
  all_goals (try simp at hs)
  all_goals (first | subst hs | (obtain ⟨_, hs⟩ := hs; subst hs))
  all_goals (constructor <;> ms_close)

set_option maxHeartbeats 4000000 in
theorem inv_step_rData (s s' : St) (f n g : _) (hi : Inv s) (hs : step s (.rData f n g) = some s') : Inv s' := by
  obtain ⟨h1, h2, h3, h4, h5, h6, h7, h8, h9, h10, h11, h12, h13, h14, h15, h16, h17, h18, h19, h20, h21, h22, h23, h24, h25, h26, h27, h28, h29, h30⟩ := hi
  simp only [step] at hs
  repeat' (split at hs)
  all_goals (try simp at hs)
  all_goals (first | subst hs | (obtain ⟨_, hs⟩ := hs; subst hs))
  all_goals (constructor <;> ms_close)

set_option maxHeartbeats 4000000 in
theorem inv_step_wNode (s s' : St) (f g n : _) (hi : Inv s) (hs : step s (.wNode f g n) = some s') : Inv s' := by
  obtain ⟨h1, h2, h3, h4, h5, h6, h7, h8, h9, h10, h11, h12, h13, h14, h15, h16, h17, h18, h19, h20, h21, h22, h23, h24, h25, h26, h27, h28, h29, h30⟩ := hi
  simp only [step] at hs
  repeat' (split at hs)
  all_goals (try simp at hs)
  all_goals (first | subst hs | (obtain ⟨_, hs⟩ := hs; subst hs))
  all_goals (constructor <;> ms_close)

set_option maxHeartbeats 4000000 in
theorem inv_step_rScratch (s s' : St) (f g ready : _) (hi : Inv s) (hs : step s (.rScratch f g ready) = some s') : Inv s' := by
  obtain ⟨h1, h2, h3, h4, h5, h6, h7, h8, h9, h10, h11, h12, h13, h14, h15, h16, h17, h18, h19, h20, h21, h22, h23, h24, h25, h26, h27, h28, h29, h30⟩ := hi
  simp only [step] at hs
  repeat' (split at hs)
  all_goals (try simp at hs)
  all_goals (first | subst hs | (obtain ⟨_, hs⟩ := hs; subst hs))
  all_goals (constructor <;> ms_close)

set_option maxHeartbeats 4000000 in
theorem inv_step_wStateReady (s s' : St) (f g : _) (hi : Inv s) (hs : step s (.wStateReady f g) = some s') : Inv s' := by
  obtain ⟨h1, h2, h3, h4, h5, h6, h7, h8, h9, h10, h11, h12, h13, h14, h15, h16, h17, h18, h19, h20, h21, h22, h23, h24, h25, h26, h27, h28, h29, h30⟩ := hi
  simp only [step] at hs
  repeat' (split at hs)
  all_goals (try simp at hs)
  all_goals (first | subst hs | (obtain ⟨_, hs⟩ := hs; subst hs))
  all_goals (constructor <;> ms_close)

end LibfiberVerif.MultiSignal
