/-
  Proof/ChanBWake.lean — "a receiver blocked on an empty bounded channel is always resumed by a
  later send".  The sender claims a slot, writes the message and only then raises; the receiver
  reads `high`, `low` and the slot, and sleeps only through fiber_signal_wait, whose CAS fails
  if a raise came in meanwhile.  Property C11.
-/
import LibfiberVerif.Proof.ChanBoundedStep
import LibfiberVerif.Proof.ChanWake

set_option linter.unusedSimpArgs false
set_option linter.unusedVariables false

namespace LibfiberVerif.Chan

open Signal (PSt PEv PPc pstep PInv)

/-- the message with sequence number `low` is in its slot -/
def bavail (s : St) : Prop := s.buf (s.low % s.cap) ≠ 0

/-- g has claimed a slot and not yet exchanged RAISED into the signal word -/
def Pc.isInflightB : Pc → Bool
  | .sClaimed _ _ => true | .sPublished _ => true
  | .idle => false | .sTop _ => false | .sLdLow _ _ => false | .sLdHigh _ _ _ => false | .sRdBuf _ _ _ _ => false
  | .qCalled _ => false | .qData _ => false | .qCleared _ => false | .qLdTail _ _ => false
  | .qSwapped _ _ _ => false | .sRaising _ => false | .sRaised _ _ => false | .sDone => false
  | .rTop => false | .rLdHigh _ => false | .rLdLow _ _ => false | .rRdBuf _ _ _ => false | .rCleared _ _ => false
  | .rGotHead _ => false | .rGotNext _ _ => false | .rMoved _ _ => false | .rGotData _ _ => false
  | .rWrote _ _ => false | .rEmpty => false | .rWaiting => false | .rDone _ => false | .tEmpty => false

def binFlight (s : St) (g : Nat) : Prop := (s.pc g).isInflightB = true

structure BWInv (s : St) : Prop where
  pinv : PInv s.p
  idle_link : ∀ f, s.pc f ≠ .rWaiting → (∀ v, s.pc f ≠ .sRaising v) → s.p.pc f = .idle
  wait_link : ∀ f, s.pc f = .rWaiting → (s.p.pc f).inWait ∧ s.p.pc f ≠ .waitDone
  raise_link : ∀ f v, s.pc f = .sRaising v → (s.p.pc f).isTarget = true
  waiter_recv : ∀ w, s.p.waiterId = some w → s.receiver = some w
  stale1 : (∀ g, ¬ binFlight s g) → ∀ w h, s.pc w = .rLdHigh h → s.high > h → s.p.word = .raised
  stale2 : (∀ g, ¬ binFlight s g) → ∀ w h l, s.pc w = .rLdLow h l → s.high > h → s.p.word = .raised
  cov_pre : bavail s → (∀ g, ¬ binFlight s g) → ∀ w, committed s w → s.p.word = .raised
  cov_word : bavail s → (∀ g, ¬ binFlight s g) → ∀ w, s.p.word ≠ .fiber w

theorem bwinv_init (cap : Nat) : BWInv (init .bounded cap) := by
  constructor
  · exact Signal.pinv_init
  all_goals simp [init, initM, Signal.pinit, bavail, PPc.inWait, committed, binFlight, Pc.isInflightB]

/-- a written slot at `low` means `low` has been claimed -/
theorem bavail_lt {s : St} (hb : BInv s) (hcap : 0 < s.cap) (ha : bavail s) : s.low < s.high := by
  by_cases h : s.low < s.high
  · exact h
  · exfalso
    apply ha
    apply hb.free _ (Nat.mod_lt _ hcap)
    intro i h1 h2
    omega

end LibfiberVerif.Chan
