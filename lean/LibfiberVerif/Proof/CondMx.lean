/-
  Proof/CondMx.lean — what the condition-variable proofs (C05) need from the mutex model.

  Layout:
   1. what C05 needs from the mutex model (`Mutex.step`), proved here from the model alone:
      frame lemmas and the small invariant `MI` (whoever is between acquire and release is the
      ghost owner; a waker before its pop sees a free mutex; at most one such waker).
   2. shape lemmas: what `stepI`, `stepM`, `toUnlockI`, `finishOne`, `retireD` can change.
   3. the invariants, one structure per concern, each with its preservation theorem.
-/
import LibfiberVerif.Model.Cond

namespace LibfiberVerif.Cond

/-! ### 1. the mutex model -/

def mxActor : Mutex.Ev → Nat
  | .callLock f | .retLock f | .callTry f | .retTry f _ | .callUnlock f | .retUnlock f
  | .csEnter f | .csExit f _ | .fsub f _ | .fadd f _ | .casCounter f _ _ | .wState f _ _
  | .rState f _ _ | .rNode f _ _ | .wNode f _ _ | .wData f _ _ | .rData f _ _ | .wNext f _ _
  | .xchgTail f _ _ | .rHead f _ | .rNext f _ _ | .wHead f _ => f

/-- a mutex step changes only the acting fiber's pc -/
theorem mx_pc_other {x x' : Mutex.St} {e : Mutex.Ev} (h : Mutex.step x e = some x')
    {b : Nat} (hb : b ≠ mxActor e) : x'.pc b = x.pc b := by
  cases e <;> simp only [Mutex.step, mxActor] at h hb <;> (repeat' split at h) <;>
    simp at h <;> (try subst h) <;> simp [upd, hb]

def isHolder : Mutex.Pc → Bool
  | .acquired | .held | .tryDone true | .unlockCalled => true
  | _ => false

def isWaker : Mutex.Pc → Bool
  | .wakeLoop | .popGotHead _ | .popGotNext _ _ => true
  | _ => false

/-- the part of the mutex invariant C05 relies on -/
structure MI (x : Mutex.St) : Prop where
  le1 : x.counter ≤ 1
  own_le : x.owner ≠ none → x.counter ≤ 0
  holder : ∀ f, isHolder (x.pc f) = true → x.owner = some f
  waker : ∀ f, isWaker (x.pc f) = true → x.owner = none ∧ x.counter ≤ 0
  waker1 : ∀ f g, isWaker (x.pc f) = true → isWaker (x.pc g) = true → f = g

theorem MI.init (stub : Nat) (nodeOf : Nat → Nat) : MI (Mutex.init stub nodeOf) := by
  constructor <;> simp [Mutex.init, isHolder, isWaker]

theorem MI.sync {s : St} {x : Mutex.St} (h : MI x) : MI (syncIn s x) := by
  obtain ⟨a, b, c, d, e⟩ := h
  exact ⟨a, b, c, d, e⟩

theorem MI.frame {x x' : Mutex.St} (hi : MI x) (hc : x'.counter = x.counter)
    (ho : x'.owner = x.owner) (hh : ∀ f, isHolder (x'.pc f) = isHolder (x.pc f))
    (hw : ∀ f, isWaker (x'.pc f) = isWaker (x.pc f)) : MI x' := by
  obtain ⟨a1, a2, a3, a4, a5⟩ := hi
  constructor <;> simp only [hc, ho, hh, hw] <;> assumption

/-- a step that moves `a` between two pcs of the same class and touches neither counter nor owner -/
theorem MI.move {x : Mutex.St} (hi : MI x) {x' : Mutex.St} {a : Nat} {p : Mutex.Pc}
    (hpc : x'.pc = upd x.pc a p) (hc : x'.counter = x.counter) (ho : x'.owner = x.owner)
    (hh : isHolder p = isHolder (x.pc a)) (hw : isWaker p = isWaker (x.pc a)) : MI x' := by
  apply hi.frame hc ho <;> intro f <;> simp only [hpc, upd] <;> split <;> simp_all

theorem MI.step {x x' : Mutex.St} {e : Mutex.Ev} (hi : MI x) (h : Mutex.step x e = some x') :
    MI x' := by
  cases e <;> simp only [Mutex.step] at h <;> (repeat' split at h) <;> simp at h <;>
    (try subst h)
  all_goals first
    | (refine hi.move (hpc := rfl) (hc := rfl) (ho := rfl) ?_ ?_ <;> simp_all [isHolder, isWaker]; done)
    | exact hi.frame rfl rfl (fun _ => rfl) (fun _ => rfl)
    | skip
  all_goals
    obtain ⟨a1, a2, a3, a4, a5⟩ := hi
    constructor <;> (intros; simp only [upd] at *; grind [isHolder, isWaker])

/-- only `retLock` / `retTry` make a fiber `held` -/
theorem mx_held_new {x x' : Mutex.St} {e : Mutex.Ev} (h : Mutex.step x e = some x') {a : Nat}
    (ha : x'.pc a = .held) : x.pc a = .held ∨ e = .retLock a ∨ e = .retTry a true := by
  by_cases hb : a = mxActor e
  · cases e <;> simp only [Mutex.step, mxActor] at h hb <;> (repeat' split at h) <;> simp at h <;>
      (try subst h) <;> subst hb <;> simp_all [upd]
  · rw [mx_pc_other h hb] at ha; exact Or.inl ha

theorem mx_retLock {x x' : Mutex.St} {a : Nat} (h : Mutex.step x (.retLock a) = some x') :
    x'.pc a = .held ∧ (x.pc a = .acquired ∨ x.pc a = .parked ∧ x.owner = some a) ∧
      x'.owner = x.owner := by
  simp only [Mutex.step] at h; (repeat' split at h) <;> simp at h <;> subst h <;> simp_all [upd]

theorem mx_callUnlock {x x' : Mutex.St} {a : Nat} (h : Mutex.step x (.callUnlock a) = some x') :
    x.pc a = .held ∧ x.owner = some a ∧ x'.pc a = .unlockCalled ∧ x'.owner = x.owner := by
  simp only [Mutex.step] at h; (repeat' split at h) <;> simp at h <;> subst h <;> simp_all [upd]

theorem mx_fadd {x x' : Mutex.St} {a : Nat} {old : Int} (h : Mutex.step x (.fadd a old) = some x') :
    x.pc a = .unlockCalled ∧ (x'.pc a = .unlockDone ∨ x'.pc a = .wakeLoop) := by
  simp only [Mutex.step] at h; (repeat' split at h) <;> simp at h <;> subst h <;> simp_all [upd]

theorem mx_retUnlock {x x' : Mutex.St} {a : Nat} (h : Mutex.step x (.retUnlock a) = some x') :
    x.pc a = .unlockDone ∧ x'.pc a = .idle := by
  simp only [Mutex.step] at h; (repeat' split at h) <;> simp at h <;> subst h <;> simp_all [upd]

theorem A_inj {f g : Nat} (h : A f = A g) : f = g := by simp only [A] at h; omega
theorem A_ne_D (f w : Nat) : A f ≠ D w := by simp only [A, D]; omega
theorem D_inj {f g : Nat} (h : D f = D g) : f = g := by simp only [D] at h; omega

/-! ### 2. shape lemmas -/

theorem stepI_shape {s s' : St} {e : Mutex.Ev} (h : stepI s e = some s') :
    ∃ x, Mutex.step (syncIn s s.i) e = some x ∧
      s' = { s with i := x, fnode := x.fnode, ndata := x.ndata } := by
  simp only [stepI] at h; split at h <;> simp at h
  exact ⟨_, by assumption, h.symm⟩

theorem stepM_shape {s s' : St} {e : Mutex.Ev} (h : stepM s e = some s') :
    ∃ x, Mutex.step (syncIn s s.m) e = some x ∧
      s' = { s with m := x, fnode := x.fnode, ndata := x.ndata } := by
  simp only [stepM] at h; split at h <;> simp at h
  exact ⟨_, by assumption, h.symm⟩

theorem toUnlockI_shape {s s' : St} {f : Nat} {bc : Bool} (h : toUnlockI s f bc = some s') :
    ∃ x, Mutex.step (syncIn s s.i) (.callUnlock (A f)) = some x ∧
      s' = { s with i := x, fnode := x.fnode, ndata := x.ndata, pc := upd s.pc f (.unlockI bc) } := by
  simp only [toUnlockI, Option.map_eq_some_iff] at h
  obtain ⟨s1, h1, rfl⟩ := h
  obtain ⟨x, hx, rfl⟩ := stepI_shape h1
  exact ⟨x, hx, rfl⟩

end LibfiberVerif.Cond
