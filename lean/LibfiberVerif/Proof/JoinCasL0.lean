/-
  Proof/JoinCasL0.lean — preservation of layer 0 (candidate fix; generated layout: one theorem per conjunct of the invariant of
  Proof/JoinCasBase.lean, by case analysis on the event and the acting fiber's program counter,
  then `grind`; the hypotheses of each theorem are exactly the conjuncts it depends on)
-/
import LibfiberVerif.Proof.JoinCasBase

set_option linter.unusedSimpArgs false
set_option linter.unusedVariables false

namespace LibfiberVerif.JoinCas
open LibfiberVerif.Join (Op NONE WFJ WTJ DET READY WAITING DONE)

variable {s s1 : St} {e : Ev}

set_option maxHeartbeats 4000000 in
theorem inv0_dr (h0 : Inv0 s) (hc : stepCore s e = some s1) : ∀ g, s1.det g ≤ 3 := by
  cases h0
  step_cases e with hc
  all_goals (intros; (try simp only [upd_apply, WFJ, DET, NONE, WTJ] at *); first | grind | grind (splits := 25) | grind (splits := 80) | ((repeat' split) <;> grind (splits := 80)))

set_option maxHeartbeats 4000000 in
theorem inv0_wfj (wfj : ∀ g, s.det g = WFJ → parkF (s.pc g) = true) (k3 : ∀ g a, claimPath (s.pc a) g = true → s.det g ≠ WFJ) (hw : ∀ a op g v p, s.pc a = .wake op g v p → s.holder p = some a ∧ parkedIn (s.pc p) p g = true) (cxj : ∀ a g x, s.pc a = .jCas g x → x ≠ WTJ ∧ x ≠ DET) (cxd : ∀ a g x, s.pc a = .dCas g x → x ≠ WTJ ∧ x ≠ DET) (cxf : ∀ a x, s.pc a = .fCas x → x ≠ DET) (dr : ∀ g, s.det g ≤ 3) (hc : stepCore s e = some s1) : ∀ g, s1.det g = WFJ → parkF (s1.pc g) = true := by
  step_cases e with hc
  all_goals (intros; (try simp only [upd_apply, WFJ, DET, NONE, WTJ] at *); first | grind | grind (splits := 25) | grind (splits := 80) | ((repeat' split) <;> grind (splits := 80)))

set_option maxHeartbeats 4000000 in
theorem inv0_detx (h0 : Inv0 s) (hc : stepCore s e = some s1) : ∀ g, s1.det g = DET → (s1.detX g = true ∨ s1.claimed g = true) := by
  cases h0
  step_cases e with hc
  all_goals (intros; (try simp only [upd_apply, WFJ, DET, NONE, WTJ] at *); first | grind | grind (splits := 25) | grind (splits := 80) | ((repeat' split) <;> grind (splits := 80)))

set_option maxHeartbeats 4000000 in
theorem inv0_fret (h0 : Inv0 s) (hc : stepCore s e = some s1) : ∀ g v, s1.pc g = .fRet v → s1.retval g = some v := by
  cases h0
  step_cases e with hc
  all_goals (intros; (try simp only [upd_apply, WFJ, DET, NONE, WTJ] at *); first | grind | grind (splits := 25) | grind (splits := 80) | ((repeat' split) <;> grind (splits := 80)))

set_option maxHeartbeats 4000000 in
theorem inv0_cxj (h0 : Inv0 s) (hc : stepCore s e = some s1) : ∀ a g x, s1.pc a = .jCas g x → x ≠ WTJ ∧ x ≠ DET := by
  cases h0
  step_cases e with hc
  all_goals (intros; (try simp only [upd_apply, WFJ, DET, NONE, WTJ] at *); first | grind | grind (splits := 25) | grind (splits := 80) | ((repeat' split) <;> grind (splits := 80)))

set_option maxHeartbeats 4000000 in
theorem inv0_cxd (h0 : Inv0 s) (hc : stepCore s e = some s1) : ∀ a g x, s1.pc a = .dCas g x → x ≠ WTJ ∧ x ≠ DET := by
  cases h0
  step_cases e with hc
  all_goals (intros; (try simp only [upd_apply, WFJ, DET, NONE, WTJ] at *); first | grind | grind (splits := 25) | grind (splits := 80) | ((repeat' split) <;> grind (splits := 80)))

set_option maxHeartbeats 4000000 in
theorem inv0_cxf (h0 : Inv0 s) (hc : stepCore s e = some s1) : ∀ a x, s1.pc a = .fCas x → x ≠ DET := by
  cases h0
  step_cases e with hc
  all_goals (intros; (try simp only [upd_apply, WFJ, DET, NONE, WTJ] at *); first | grind | grind (splits := 25) | grind (splits := 80) | ((repeat' split) <;> grind (splits := 80)))

set_option maxHeartbeats 4000000 in
theorem inv0_cpn (h0 : Inv0 s) (hc : stepCore s e = some s1) : ∀ a g, claimPath (s1.pc a) g = true → s1.det g ≠ NONE := by
  cases h0
  step_cases e with hc
  all_goals (intros; (try simp only [upd_apply, WFJ, DET, NONE, WTJ] at *); first | grind | grind (splits := 25) | grind (splits := 80) | ((repeat' split) <;> grind (splits := 80)))

set_option maxHeartbeats 4000000 in
theorem inv0_scn (h0 : Inv0 s) (hc : stepCore s e = some s1) : ∀ g, s1.succ g ≠ [] → s1.det g ≠ NONE := by
  cases h0
  step_cases e with hc
  all_goals (intros; (try simp only [upd_apply, WFJ, DET, NONE, WTJ] at *); first | grind | grind (splits := 25) | grind (splits := 80) | ((repeat' split) <;> grind (splits := 80)))

set_option maxHeartbeats 4000000 in
theorem inv0_fxn (h0 : Inv0 s) (hc : stepCore s e = some s1) : ∀ g, finX (s1.pc g) = true → s1.det g ≠ NONE := by
  cases h0
  step_cases e with hc
  all_goals (intros; (try simp only [upd_apply, WFJ, DET, NONE, WTJ] at *); first | grind | grind (splits := 25) | grind (splits := 80) | ((repeat' split) <;> grind (splits := 80)))

set_option maxHeartbeats 4000000 in
theorem inv0_dst (h0 : Inv0 s) (hc : stepCore s e = some s1) : ∀ g, s1.destroyed g = true → s1.pc g = .fDone := by
  cases h0
  step_cases e with hc
  all_goals (intros; (try simp only [upd_apply, WFJ, DET, NONE, WTJ] at *); first | grind | grind (splits := 25) | grind (splits := 80) | ((repeat' split) <;> grind (splits := 80)))

set_option maxHeartbeats 4000000 in
theorem inv0_fj (h0 : Inv0 s) (hc : stepCore s e = some s1) : ∀ p g, joinerPath (s1.pc p) g = true → s1.first g = some p := by
  cases h0
  step_cases e with hc
  all_goals (intros; (try simp only [upd_apply, WFJ, DET, NONE, WTJ] at *); first | grind | grind (splits := 25) | grind (splits := 80) | ((repeat' split) <;> grind (splits := 80)))

set_option maxHeartbeats 4000000 in
theorem inv0_ff (h0 : Inv0 s) (hc : stepCore s e = some s1) : ∀ g, (parkF (s1.pc g) = true ∨ s1.pc g = .fWoken) → s1.first g = some g := by
  cases h0
  step_cases e with hc
  all_goals (intros; (try simp only [upd_apply, WFJ, DET, NONE, WTJ] at *); first | grind | grind (splits := 25) | grind (splits := 80) | ((repeat' split) <;> grind (splits := 80)))

set_option maxHeartbeats 4000000 in
theorem inv0_tcl (h0 : Inv0 s) (hc : stepCore s e = some s1) : ∀ b g, takePh (s1.pc b) g = true → (s1.claimed g = true ∨ s1.detX g = true) := by
  cases h0
  step_cases e with hc
  all_goals (intros; (try simp only [upd_apply, WFJ, DET, NONE, WTJ] at *); first | grind | grind (splits := 25) | grind (splits := 80) | ((repeat' split) <;> grind (splits := 80)))

set_option maxHeartbeats 4000000 in
theorem inv0_fc (h0 : Inv0 s) (hc : stepCore s e = some s1) : ∀ g, holdsFAny (s1.pc g) = true → s1.claimed g = true := by
  cases h0
  step_cases e with hc
  all_goals (intros; (try simp only [upd_apply, WFJ, DET, NONE, WTJ] at *); first | grind | grind (splits := 25) | grind (splits := 80) | ((repeat' split) <;> grind (splits := 80)))

end LibfiberVerif.JoinCas
