/-
  Proof/WsdTsoGrow.lean — the inductive invariant of the GROWING deque on TSO
  (`Model/WsdTsoGrow.lean`, `fenced = true`, `ordered = true`).

  As in `Proof/WsdTso.lean` only the owner stores, so the thieves read some PARTIAL DRAIN of the
  owner's buffer.  With growth a thief performs THREE loads from three different drains
  (`bottom`, later `underlying_array`, later the slot), so the slot fact has to be stated for
  PAIRS of drains (`AllViews2`): once some drain `μ` shows `bottom > i`, every LATER drain `μ'`
  holds the value of index `i` in the slot of the generation `μ'` itself publishes —
      * the element store of index `i` precedes its `bottom` store (as before), and
      * the copy stores into generation `g + 1` precede the pointer store that makes `g + 1`
        visible  (FIFO; this is where `ordered = true` is used: `stArrEarly` is refused) —
  and no store still buffered behind `μ'` hits that slot (`Stable`).  Superseded generations
  are never written again: every buffered slot store is for a generation at least as new as
  the pointer visible in the drain in front of it (`ViewOk`, last clause).
-/
import LibfiberVerif.Model.WsdTsoGrow
import LibfiberVerif.Proof.Tso
import LibfiberVerif.Proof.Wsd

namespace LibfiberVerif.WsdTsoGrow
open LibfiberVerif.Tso
open LibfiberVerif.Wsd (Res seg seg_snoc seg_congr perm_snoc_move)

/-! ### cells -/

theorem size_pos (k0 g : Nat) : 0 < size k0 g := Nat.two_pow_pos _

theorem size_succ (k0 g : Nat) : size k0 (g + 1) = 2 * size k0 g := by
  simp only [size, ← Nat.add_assoc, Nat.pow_succ]; omega

theorem size_mono (k0 : Nat) {g g' : Nat} (h : g ≤ g') : size k0 g ≤ size k0 g' :=
  Nat.pow_le_pow_right (by omega) (by omega)

theorem pslot_lt (k0 g : Nat) (i : Int) : pslot k0 g i < size k0 g := by
  have hp := size_pos k0 g
  have h1 := Int.emod_nonneg i (b := (size k0 g : Int)) (by omega)
  have h2 := Int.emod_lt_of_pos i (b := (size k0 g : Int)) (by omega)
  simp only [pslot]; omega

theorem cSlot_ne_top (k0 g : Nat) (i : Int) : cSlot k0 g i ≠ cTop := by simp [cSlot, cTop]
theorem cSlot_ne_bot (k0 g : Nat) (i : Int) : cSlot k0 g i ≠ cBot := by simp [cSlot, cBot]; omega
theorem cSlot_ne_arr (k0 g : Nat) (i : Int) : cSlot k0 g i ≠ cArr := by simp [cSlot, cArr]; omega
theorem cBot_ne_top : cBot ≠ cTop := by simp [cBot, cTop]
theorem cArr_ne_top : cArr ≠ cTop := by simp [cArr, cTop]
theorem cArr_ne_bot : cArr ≠ cBot := by simp [cArr, cBot]

/-- different generations are different regions of memory -/
theorem cSlot_gen_ne (k0 : Nat) {g g' : Nat} (h : g ≠ g') (i j : Int) :
    cSlot k0 g i ≠ cSlot k0 g' j := by
  have key : ∀ a b : Nat, a < b → ∀ i j, cSlot k0 a i ≠ cSlot k0 b j := by
    intro a b hab i j
    have h1 := pslot_lt k0 a i
    have h2 : size k0 (a + 1) ≤ size k0 b := size_mono k0 hab
    rw [size_succ] at h2
    simp only [cSlot]; omega
  rcases Nat.lt_or_gt_of_ne h with h | h
  · exact key g g' h i j
  · exact (key g' g h j i).symm

/-- two logical indices less than one array size apart occupy different slots -/
theorem cSlot_inj {k0 g : Nat} {i j : Int} (h : cSlot k0 g i = cSlot k0 g j) (h1 : i ≤ j)
    (h2 : j - i < size k0 g) : i = j := by
  have hp := size_pos k0 g
  have hn0 : (size k0 g : Int) ≠ 0 := by omega
  have hi := Int.emod_nonneg i hn0
  have hj := Int.emod_nonneg j hn0
  have he : i % (size k0 g : Int) = j % (size k0 g : Int) := by
    simp only [cSlot, pslot] at h; omega
  have hz : (j - i) % (size k0 g : Int) = 0 := Int.emod_eq_emod_iff_emod_sub_eq_zero.mp he.symm
  have := Int.emod_eq_of_lt (a := j - i) (b := size k0 g) (by omega) h2
  omega

theorem cSlot_ne {k0 g : Nat} {i j : Int} (h1 : i < j) (h2 : j - i < size k0 g) :
    cSlot k0 g i ≠ cSlot k0 g j := by
  intro h; have := cSlot_inj h (by omega) h2; omega

/-! ### `AllViews2`: a predicate on every PAIR (earlier drain, later drain) -/

/-- `P μ μ' suf`: `μ` is memory after a prefix `pre` of `t`'s buffer has drained, `μ'` after
    `pre ++ mid`, and `suf` is what is still buffered behind `μ'` -/
def AllViews2 (m : Mem) (t : Nat) (P : (Nat → Int) → (Nat → Int) → Buf → Prop) : Prop :=
  ∀ pre mid suf, m.buf t = pre ++ (mid ++ suf) →
    P (applyAll m.mem pre) (applyAll (applyAll m.mem pre) mid) suf

theorem AllViews2.flush {m m' : Mem} {t : Nat} {P} (h : AllViews2 m t P)
    (hf : m.flush t = some m') : AllViews2 m' t P := by
  obtain ⟨e, rest, hb, hm, hbuf⟩ := flush_some hf
  intro pre mid suf hps
  rw [hbuf, upd_same] at hps
  have := h (e :: pre) mid suf (by rw [hb, hps]; rfl)
  rw [applyAll_cons] at this
  rw [hm]; exact this

theorem AllViews2.store {m : Mem} {t c : Nat} {v : Int}
    {P Q : (Nat → Int) → (Nat → Int) → Buf → Prop} (h : AllViews2 m t P)
    (hold : ∀ pre mid suf, m.buf t = pre ++ (mid ++ suf) →
      P (applyAll m.mem pre) (applyAll (applyAll m.mem pre) mid) suf →
      Q (applyAll m.mem pre) (applyAll (applyAll m.mem pre) mid) (suf ++ [(c, v)]))
    (hmid : ∀ pre suf, m.buf t = pre ++ suf → P (applyAll m.mem pre) (m.view t) [] →
      Q (applyAll m.mem pre) (upd (m.view t) c v) [])
    (hnew : Q (upd (m.view t) c v) (upd (m.view t) c v) []) :
    AllViews2 (m.store t c v) t Q := by
  intro pre mid suf hps
  rw [store_buf_self] at hps
  rw [store_mem]
  rcases append_snoc_split hps with ⟨x, hx, hb⟩ | ⟨h1, rfl⟩
  · rcases append_snoc_split hx.symm with ⟨suf', rfl, hx'⟩ | ⟨rfl, rfl⟩
    · subst hx'
      exact hold pre mid suf' hb (h pre mid suf' hb)
    · have hv : applyAll (applyAll m.mem pre) x = m.view t := by
        rw [← applyAll_append, ← hb]; rfl
      rw [applyAll_snoc, hv]
      have := h pre x [] (by simpa using hb)
      rw [hv] at this
      exact hmid pre x hb this
  · obtain ⟨rfl, rfl⟩ := List.append_eq_nil_iff.mp h1
    rw [applyAll_snoc]; exact hnew

theorem AllViews2.poke {m : Mem} {t c0 : Nat} {v : Int}
    {P Q : (Nat → Int) → (Nat → Int) → Buf → Prop} (h : AllViews2 m t P)
    (hPQ : ∀ μ ν μ' ν' suf, (∀ c, c ≠ c0 → ν c = μ c) → (∀ c, c ≠ c0 → ν' c = μ' c) →
      P μ μ' suf → Q ν ν' suf) :
    AllViews2 (m.poke c0 v) t Q := by
  intro pre mid suf hb
  rw [poke_buf] at hb
  rw [poke_mem]
  refine hPQ _ _ _ _ _ (fun c hc => applyAll_upd_other _ _ _ _ _ hc) ?_ (h pre mid suf hb)
  intro c hc
  rw [← applyAll_append, ← applyAll_append]
  exact applyAll_upd_other _ _ _ _ _ hc

theorem AllViews2.of_drained {m : Mem} {t : Nat} {P} (hb : m.buf t = []) (h : P m.mem m.mem []) :
    AllViews2 m t P := by
  intro pre mid suf hps
  rw [hb] at hps
  obtain ⟨h1, h2⟩ := List.append_eq_nil_iff.mp hps.symm
  obtain ⟨h3, h4⟩ := List.append_eq_nil_iff.mp h2
  subst h1; subst h3; subst h4; exact h

/-- the diagonal: a single drain -/
theorem AllViews2.diag {m : Mem} {t : Nat} {P} (h : AllViews2 m t P) :
    AllViews m t (fun μ suf => P μ μ suf) := by
  intro pre suf hb
  exact h pre [] suf (by simpa using hb)

/-- from memory as it is now to every later drain -/
theorem AllViews2.from_now {m : Mem} {t : Nat} {P} (h : AllViews2 m t P) :
    AllViews m t (fun μ suf => P m.mem μ suf) := by
  intro pre suf hb
  exact h [] pre suf (by simpa using hb)

theorem AllViews.and {m : Mem} {t : Nat} {P Q : (Nat → Int) → Buf → Prop}
    (h1 : AllViews m t P) (h2 : AllViews m t Q) : AllViews m t (fun μ suf => P μ suf ∧ Q μ suf) :=
  fun pre suf hb => ⟨h1 pre suf hb, h2 pre suf hb⟩

/-! ### the invariant -/

/-- index `i` is settled in the drain `μ` (with `suf` still buffered behind it): the slot of `i`
    in the generation `μ` publishes holds the value of `i`, and nothing buffered will hit it -/
def Stable (k0 : Nat) (vals : Int → Int) (i : Int) (μ : Nat → Int) (suf : Buf) : Prop :=
  μ (cSlot k0 (μ cArr).toNat i) = vals i ∧ ∀ e ∈ suf, e.1 ≠ cSlot k0 (μ cArr).toNat i

/-- every index an earlier drain `μ` shows below its `bottom` is settled in every later drain -/
def SlotsOk (k0 : Nat) (T : Int) (vals : Int → Int) (μ μ' : Nat → Int) (suf : Buf) : Prop :=
  ∀ i, T ≤ i → i < μ cBot → Stable k0 vals i μ' suf

/-- what every partial drain `μ` of the owner's buffer satisfies, `suf` being still buffered -/
def ViewOk (k0 G : Nat) (H : Int) (μ : Nat → Int) (suf : Buf) : Prop :=
  0 ≤ μ cArr ∧ μ cArr ≤ G ∧ μ cBot ≤ H ∧
  ∀ c v, (c, v) ∈ suf → c = cBot ∨ (c = cArr ∧ μ cArr < v ∧ v ≤ G) ∨
    ∃ g i, c = cSlot k0 g i ∧ μ cArr ≤ g

/-- what the owner's program counter promises -/
def ownerOk (k0 : Nat) (m : Mem) (G : Nat) (H W : Int) (vals : Int → Int) : Pc → Prop
  | .idle | .pushCalled _ | .pushDone | .popCalled => m.view 0 cBot = H ∧ W = H
  | .pushGotB _ b => b = H ∧ m.view 0 cBot = H ∧ W = H
  | .pushGotT _ b t => b = H ∧ m.view 0 cBot = H ∧ W = H ∧ t ≤ m.mem cTop
  | .pushCopy _ b t g i => b = H ∧ m.view 0 cBot = H ∧ W = H ∧ t ≤ m.mem cTop ∧ g = G ∧
      t ≤ i ∧ i < b ∧ (∀ j, m.mem cTop ≤ j → j < i → m.view 0 (cSlot k0 (g + 1) j) = vals j)
  | .pushCopyW _ b t g i x => b = H ∧ m.view 0 cBot = H ∧ W = H ∧ t ≤ m.mem cTop ∧ g = G ∧
      t ≤ i ∧ i < b ∧ (∀ j, m.mem cTop ≤ j → j < i → m.view 0 (cSlot k0 (g + 1) j) = vals j) ∧
      (m.mem cTop ≤ i → x = vals i)
  | .pushPublish _ b _ g => b = H ∧ m.view 0 cBot = H ∧ W = H ∧ g = G ∧
      (∀ j, m.mem cTop ≤ j → j < b → m.view 0 (cSlot k0 (g + 1) j) = vals j)
  | .pushPut _ b g => b = H ∧ m.view 0 cBot = H ∧ W = H ∧ g = G ∧ b + 1 ≤ m.mem cTop + size k0 g
  | .pushWritten v b => b = H ∧ m.view 0 cBot = H ∧ W = H + 1 ∧ vals b = v
  | .popGotB b => b + 1 = H ∧ m.view 0 cBot = H ∧ W = H
  | .popGotArr b g => b + 1 = H ∧ m.view 0 cBot = H ∧ W = H ∧ g = G
  | .popStored b g => m.view 0 cBot = b ∧ H = b + 1 ∧ W = H ∧ g = G
  | .popEmpty t => m.buf 0 = [] ∧ H = t ∧ m.mem cTop = t ∧ m.mem cBot + 1 = H ∧ W = H
  | .popTake b g t => m.buf 0 = [] ∧ m.mem cBot = b ∧ t ≤ m.mem cTop ∧ W = H ∧ g = G ∧
      ((t < b ∧ H = b ∧ m.mem (cSlot k0 g b) = vals b) ∨ (t = b ∧ H = b + 1))
  | .popRead b t x => m.buf 0 = [] ∧ t = b ∧ m.mem cBot = b ∧ H = b + 1 ∧ W = H ∧ t ≤ m.mem cTop ∧
      (m.mem cTop = t → x = vals b)
  | .popCased t _ => m.buf 0 = [] ∧ m.mem cBot = t ∧ H = t + 1 ∧ m.mem cTop = H ∧ W = H
  | .popDone _ => m.view 0 cBot = H ∧ W = H
  | _ => False

/-- what a thief's program counter promises: if `top` still is what I loaded, then … -/
def thiefOk (k0 : Nat) (m : Mem) (G : Nat) (H : Int) (vals : Int → Int) : Pc → Prop
  | .idle | .stealCalled | .stealDone _ => True
  | .stealGotT t => t ≤ m.mem cTop
  | .stealGotB t b => t ≤ m.mem cTop ∧
      (m.mem cTop = t → t < b → t < H ∧ AllViews m 0 (Stable k0 vals t))
  | .stealGotArr t g => t ≤ m.mem cTop ∧ g ≤ G ∧
      (m.mem cTop = t → t < H ∧ AllViews m 0 (fun μ _ => μ (cSlot k0 g t) = vals t))
  | .stealRead t _ x => t ≤ m.mem cTop ∧ (m.mem cTop = t → t < H ∧ x = vals t)
  | _ => False

/-- the logical contents: the values of indices `[top, hb)` -/
def logical (s : St) : List Int := seg s.vals (s.m.mem cTop) (s.hb - s.m.mem cTop).toNat

structure Inv (s : St) : Prop where
  fen : s.fenced = true
  ord : s.ordered = true
  bufs : ∀ u, u ≠ 0 → s.m.buf u = []
  views : AllViews s.m 0 (ViewOk s.k0 s.gen s.hb)
  slots : AllViews2 s.m 0 (SlotsOk s.k0 (s.m.mem cTop) s.vals)
  arrOwn : s.m.view 0 cArr = s.gen
  own : ∀ i, s.m.mem cTop ≤ i → i < s.wf → s.m.view 0 (cSlot s.k0 s.gen i) = s.vals i
  tle : s.m.mem cTop ≤ s.hb
  cap : s.wf ≤ s.m.mem cTop + size s.k0 s.gen
  owner : ownerOk s.k0 s.m s.gen s.hb s.wf s.vals (s.pc 0)
  thief : ∀ u, u ≠ 0 → thiefOk s.k0 s.m s.gen s.hb s.vals (s.pc u)
  perm : s.pushed.Perm (s.taken ++ logical s)

theorem inv_init (k0 : Nat) : Inv (init true true k0) := by
  constructor <;> simp [init, ownerOk, thiefOk, logical, seg, Mem.init, Mem.view, applyAll]
  · refine AllViews.of_drained (P := ViewOk k0 0 0) rfl ?_
    simp [ViewOk]
  · refine AllViews2.of_drained (P := SlotsOk k0 0 fun _ => 0) rfl ?_
    intro i h1 h2; simp at h2; omega

theorem tid_zero {s : St} (hI : Inv s) {t : Nat} {p : Pc} (hpc : s.pc t = p)
    (hp : ∀ k0 m G H vals, ¬ thiefOk k0 m G H vals p) : t = 0 := by
  apply Classical.byContradiction; intro hne
  have := hI.thief t hne; rw [hpc] at this; exact hp _ _ _ _ _ this

theorem tid_ne_zero {s : St} (hI : Inv s) {t : Nat} {p : Pc} (hpc : s.pc t = p)
    (hp : ∀ k0 m G H W vals, ¬ ownerOk k0 m G H W vals p) : t ≠ 0 := by
  intro h0; subst h0
  have := hI.owner; rw [hpc] at this; exact hp _ _ _ _ _ _ this

/-- the owner's buffer holds only `bottom`, `underlying_array` and slot entries -/
theorem buf_cell_ne_top {s : St} (hI : Inv s) : ∀ e ∈ s.m.buf 0, e.1 ≠ cTop := by
  intro e he
  rcases hI.views.now.2.2.2 e.1 e.2 he with h | ⟨h, -⟩ | ⟨g, i, h, -⟩
  · rw [h]; exact cBot_ne_top
  · rw [h]; exact cArr_ne_top
  · rw [h]; exact cSlot_ne_top _ _ _

theorem owner_W {k0 m G H W vals p} (h : ownerOk k0 m G H W vals p) : H ≤ W ∧ W ≤ H + 1 := by
  cases p <;> simp [ownerOk] at h <;> omega

/-- a step that changes only thread `u`'s pc -/
theorem inv_local {s s' : St} (hI : Inv s) (u : Nat)
    (hn : s'.k0 = s.k0) (hf : s'.fenced = s.fenced) (ho : s'.ordered = s.ordered)
    (hm : s'.m = s.m) (hG : s'.gen = s.gen) (hH : s'.hb = s.hb)
    (hW : s'.wf = s.wf) (hV : s'.vals = s.vals) (hP : s'.pushed = s.pushed)
    (hK : s'.taken = s.taken)
    (hpc : ∀ w, w ≠ u → s'.pc w = s.pc w)
    (hown : u = 0 → ownerOk s.k0 s.m s.gen s.hb s.wf s.vals (s'.pc 0))
    (hth : u ≠ 0 → thiefOk s.k0 s.m s.gen s.hb s.vals (s'.pc u)) :
    Inv s' := by
  constructor
  · rw [hf]; exact hI.fen
  · rw [ho]; exact hI.ord
  · rw [hm]; exact hI.bufs
  · rw [hn, hm, hG, hH]; exact hI.views
  · rw [hn, hm, hV]; exact hI.slots
  · rw [hm, hG]; exact hI.arrOwn
  · rw [hn, hm, hG, hW, hV]; exact hI.own
  · rw [hm, hH]; exact hI.tle
  · rw [hm, hW, hn, hG]; exact hI.cap
  · rw [hn, hm, hG, hH, hW, hV]
    by_cases h0 : u = 0
    · exact hown h0
    · rw [hpc 0 (Ne.symm h0)]; exact hI.owner
  · intro w hw
    rw [hn, hm, hG, hH, hV]
    by_cases hwu : w = u
    · subst hwu; exact hth hw
    · rw [hpc w hwu]; exact hI.thief w hw
  · have : logical s' = logical s := by simp [logical, hm, hH, hV]
    rw [hP, hK, this]; exact hI.perm

macro "local_side" : tactic =>
  `(tactic| first | rfl | (intro w hw; simp [upd, hw]; done))

/-! ### steps that only move one program counter -/

theorem inv_callPush {s s' : St} {t : Nat} {v : Int} (hI : Inv s)
    (h : step s (.callPush t v) = some s') : Inv s' := by
  simp only [step] at h
  split at h <;> simp at h
  subst h
  rename_i hc
  obtain ⟨ht, hpc⟩ := hc
  subst ht
  have ho := hI.owner; rw [hpc] at ho
  apply inv_local hI 0 <;> try local_side
  · intro _; simpa [ownerOk] using ho
  · intro hh; exact absurd rfl hh

theorem inv_callPop {s s' : St} {t : Nat} (hI : Inv s)
    (h : step s (.callPop t) = some s') : Inv s' := by
  simp only [step] at h
  split at h <;> simp at h
  subst h
  rename_i hc
  obtain ⟨ht, hpc⟩ := hc
  subst ht
  have ho := hI.owner; rw [hpc] at ho
  apply inv_local hI 0 <;> try local_side
  · intro _; simpa [ownerOk] using ho
  · intro hh; exact absurd rfl hh

theorem inv_callSteal {s s' : St} {t : Nat} (hI : Inv s)
    (h : step s (.callSteal t) = some s') : Inv s' := by
  simp only [step] at h
  split at h <;> simp at h
  subst h
  rename_i hc
  obtain ⟨ht, hpc⟩ := hc
  apply inv_local hI t <;> try local_side
  · intro h0; exact absurd h0 ht
  · intro _; simp [thiefOk]

theorem inv_retPush {s s' : St} {t : Nat} (hI : Inv s)
    (h : step s (.retPush t) = some s') : Inv s' := by
  simp only [step] at h
  split at h <;> simp at h
  next hpc =>
    have ht := tid_zero hI hpc (by simp [thiefOk]); subst ht
    have ho := hI.owner; rw [hpc] at ho; simp only [ownerOk] at ho
    subst h
    apply inv_local hI 0 <;> try local_side
    · intro _; simpa [ownerOk] using ho
    · intro hh; exact absurd rfl hh

theorem inv_retPop {s s' : St} {t : Nat} {r : Int} (hI : Inv s)
    (h : step s (.retPop t r) = some s') : Inv s' := by
  simp only [step] at h
  split at h <;> simp at h
  next r' hpc =>
    have ht := tid_zero hI hpc (by simp [thiefOk]); subst ht
    have ho := hI.owner; rw [hpc] at ho; simp only [ownerOk] at ho
    obtain ⟨-, h⟩ := h
    subst h
    apply inv_local hI 0 <;> try local_side
    · intro _; simpa [ownerOk] using ho
    · intro hh; exact absurd rfl hh

theorem inv_retSteal {s s' : St} {t : Nat} {r : Int} (hI : Inv s)
    (h : step s (.retSteal t r) = some s') : Inv s' := by
  simp only [step] at h
  split at h <;> simp at h
  next r' hpc =>
    have ht := tid_ne_zero hI hpc (by simp [ownerOk])
    obtain ⟨-, h⟩ := h
    subst h
    apply inv_local hI t <;> try local_side
    · intro h0; exact absurd h0 ht
    · intro _; simp [thiefOk]

/-- loads of `top` and of the owner's own cells -/
theorem load_top {s : St} (hI : Inv s) (t : Nat) : s.m.load t cTop = s.m.mem cTop := by
  by_cases ht : t = 0
  · subst ht
    rw [load_eq_view, Mem.view, applyAll_of_not_mem _ _ _ (buf_cell_ne_top hI)]
  · exact load_of_drained (hI.bufs t ht) _

theorem inv_ldBottom {s s' : St} {t : Nat} {x : Int} (hI : Inv s)
    (h : step s (.ldBottom t x) = some s') : Inv s' := by
  simp only [step] at h
  split at h
  next v hpc =>
    have ht := tid_zero hI hpc (by simp [thiefOk]); subst ht
    have ho := hI.owner; rw [hpc] at ho; simp only [ownerOk] at ho
    split at h <;> simp at h
    subst h
    rename_i hx
    rw [load_eq_view] at hx
    apply inv_local hI 0 <;> try local_side
    · intro _; simp [ownerOk]; omega
    · intro hh; exact absurd rfl hh
  next hpc =>
    have ht := tid_zero hI hpc (by simp [thiefOk]); subst ht
    have ho := hI.owner; rw [hpc] at ho; simp only [ownerOk] at ho
    split at h <;> simp at h
    subst h
    rename_i hx
    rw [load_eq_view] at hx
    apply inv_local hI 0 <;> try local_side
    · intro _; simp [ownerOk]; omega
    · intro hh; exact absurd rfl hh
  next tt hpc =>
    have ht := tid_ne_zero hI hpc (by simp [ownerOk])
    have hth := hI.thief t ht; rw [hpc] at hth; simp only [thiefOk] at hth
    split at h <;> simp at h
    subst h
    rename_i hx
    rw [load_of_drained (hI.bufs t ht)] at hx
    apply inv_local hI t <;> try local_side
    · intro h0; exact absurd h0 ht
    · intro _
      simp only [upd_same, thiefOk]
      refine ⟨hth, fun hT hlt => ?_⟩
      have hv := hI.views.now
      refine ⟨by have := hv.2.2.1; omega, ?_⟩
      refine hI.slots.from_now.mono ?_
      intro μ suf _ hS
      exact hS tt (by omega) (by omega)
  next => simp at h

theorem inv_ldArr {s s' : St} {t : Nat} {g : Nat} (hI : Inv s)
    (h : step s (.ldArr t g) = some s') : Inv s' := by
  simp only [step] at h
  split at h
  next v b tt hpc =>
    have ht := tid_zero hI hpc (by simp [thiefOk]); subst ht
    have ho := hI.owner; rw [hpc] at ho; simp only [ownerOk] at ho
    obtain ⟨hb, hB, hW, htT⟩ := ho
    split at h
    next hx =>
      rw [load_eq_view, hI.arrOwn] at hx
      have hg : g = s.gen := by omega
      split at h
      next hgrow =>
        split at h
        next hlt =>
          simp at h; subst h
          apply inv_local hI 0 <;> try local_side
          · intro _; simp only [upd_same, ownerOk]
            refine ⟨hb, hB, hW, htT, hg, by omega, hlt, ?_⟩
            intro j h1 h2; omega
          · intro hh; exact absurd rfl hh
        next hnlt =>
          simp at h; subst h
          apply inv_local hI 0 <;> try local_side
          · intro _; simp only [upd_same, ownerOk]
            refine ⟨hb, hB, hW, hg, ?_⟩
            intro j h1 h2; omega
          · intro hh; exact absurd rfl hh
      next hnogrow =>
        simp at h; subst h
        apply inv_local hI 0 <;> try local_side
        · intro _; simp only [upd_same, ownerOk]
          refine ⟨hb, hB, hW, hg, ?_⟩
          omega
        · intro hh; exact absurd rfl hh
    next => simp at h
  next b hpc =>
    have ht := tid_zero hI hpc (by simp [thiefOk]); subst ht
    have ho := hI.owner; rw [hpc] at ho; simp only [ownerOk] at ho
    split at h <;> simp at h
    subst h
    rename_i hx
    rw [load_eq_view, hI.arrOwn] at hx
    have hg : g = s.gen := by omega
    apply inv_local hI 0 <;> try local_side
    · intro _; simp only [upd_same, ownerOk]; exact ⟨ho.1, ho.2.1, ho.2.2, hg⟩
    · intro hh; exact absurd rfl hh
  next tt b hpc =>
    have ht := tid_ne_zero hI hpc (by simp [ownerOk])
    have hth := hI.thief t ht; rw [hpc] at hth; simp only [thiefOk] at hth
    split at h
    next hx =>
      rw [load_of_drained (hI.bufs t ht)] at hx
      split at h
      next hle =>
        simp at h; subst h
        apply inv_local hI t <;> try local_side
        · intro h0; exact absurd h0 ht
        · intro _; simp [thiefOk]
      next hgt =>
        simp at h; subst h
        have hv := hI.views.now
        have hgn : (s.m.mem cArr).toNat = g := by omega
        apply inv_local hI t <;> try local_side
        · intro h0; exact absurd h0 ht
        · intro _
          simp only [upd_same, thiefOk]
          refine ⟨hth.1, by have := hv.2.1; omega, fun hT => ?_⟩
          obtain ⟨hH, hS⟩ := hth.2 hT (by omega)
          refine ⟨hH, ?_⟩
          obtain ⟨hS1, hS2⟩ := hS.now
          rw [hgn] at hS1 hS2
          intro pre suf hps
          rw [applyAll_of_not_mem]
          · exact hS1
          · intro e he; exact hS2 e (by rw [hps]; exact List.mem_append_left _ he)
    next => simp at h
  next => simp at h

theorem inv_rdSlot {s s' : St} {t : Nat} {g i : Nat} {x : Int} (hI : Inv s)
    (h : step s (.rdSlot t g i x) = some s') : Inv s' := by
  simp only [step] at h
  split at h
  next v b tt g' j hpc =>
    have ht := tid_zero hI hpc (by simp [thiefOk]); subst ht
    have ho := hI.owner; rw [hpc] at ho; simp only [ownerOk] at ho
    obtain ⟨hb, hB, hW, htT, hg, h1, h2, hcopy⟩ := ho
    split at h <;> simp at h
    subst h
    rename_i hc
    obtain ⟨hgg, -, hx⟩ := hc
    rw [load_eq_view] at hx
    apply inv_local hI 0 <;> try local_side
    · intro _; simp only [upd_same, ownerOk]
      refine ⟨hb, hB, hW, htT, hg, h1, h2, hcopy, fun hT => ?_⟩
      rw [hx, hgg, hg]; exact hI.own j hT (by omega)
    · intro hh; exact absurd rfl hh
  next b g' tt hpc =>
    have ht := tid_zero hI hpc (by simp [thiefOk]); subst ht
    have ho := hI.owner; rw [hpc] at ho; simp only [ownerOk] at ho
    obtain ⟨hE, hBM, htT, hWH, hg, hcase⟩ := ho
    split at h
    next hc =>
      obtain ⟨hgg, -, hx⟩ := hc
      rw [load_of_drained hE] at hx
      split at h
      next hlt =>
        simp at h; subst h
        apply inv_local hI 0 <;> try local_side
        · intro _
          simp only [upd_same, ownerOk]
          rw [view_of_drained hE]
          omega
        · intro hh; exact absurd rfl hh
      next hnlt =>
        simp at h; subst h
        apply inv_local hI 0 <;> try local_side
        · intro _
          simp only [upd_same, ownerOk]
          have hown := hI.own b
          rw [view_of_drained hE] at hown
          refine ⟨hE, by omega, hBM, by omega, hWH, htT, ?_⟩
          intro hT
          rw [hx, hgg, hg]; exact hown (by omega) (by omega)
        · intro hh; exact absurd rfl hh
    next => simp at h
  next tt g' hpc =>
    have ht := tid_ne_zero hI hpc (by simp [ownerOk])
    have hth := hI.thief t ht; rw [hpc] at hth; simp only [thiefOk] at hth
    split at h
    next hc =>
      obtain ⟨hgg, -, hx⟩ := hc
      rw [load_of_drained (hI.bufs t ht)] at hx
      simp at h; subst h
      apply inv_local hI t <;> try local_side
      · intro h0; exact absurd h0 ht
      · intro _
        simp only [upd_same, thiefOk]
        refine ⟨hth.1, fun hT => ?_⟩
        obtain ⟨a, b⟩ := hth.2.2 hT
        exact ⟨a, by rw [hx, hgg]; exact b.now⟩
    next => simp at h
  next => simp at h

/-! ### flush: an entry of the owner's buffer reaches memory -/

theorem ownerOk_flush {k0 m m' G H W vals p} (h : ownerOk k0 m G H W vals p)
    (hf : m.flush 0 = some m') (hT : m'.mem cTop = m.mem cTop) : ownerOk k0 m' G H W vals p := by
  have hv := view_flush_self hf
  obtain ⟨e, rest, hb, hm, hbuf⟩ := flush_some hf
  cases p <;> simp only [ownerOk] at h ⊢ <;> (try rw [hv]) <;> (try rw [hT]) <;>
    first | exact h | (simp [hb] at h)

theorem thiefOk_flush {k0 m m' G H vals p} (h : thiefOk k0 m G H vals p)
    (hf : m.flush 0 = some m') (hT : m'.mem cTop = m.mem cTop) : thiefOk k0 m' G H vals p := by
  cases p <;> simp only [thiefOk] at h ⊢ <;> (try rw [hT]) <;> try exact h
  · refine ⟨h.1, fun hTt hlt => ?_⟩
    obtain ⟨a, b⟩ := h.2 hTt hlt
    exact ⟨a, b.flush hf⟩
  · refine ⟨h.1, h.2.1, fun hTt => ?_⟩
    obtain ⟨a, b⟩ := h.2.2 hTt
    exact ⟨a, b.flush hf⟩

theorem inv_flush {s s' : St} {t : Nat} (hI : Inv s)
    (h : step s (.flush t) = some s') : Inv s' := by
  simp only [step] at h
  split at h
  next m' hf =>
    simp at h; subst h
    have ht : t = 0 := by
      apply Classical.byContradiction; intro hne
      obtain ⟨e, rest, hb, -, -⟩ := flush_some hf
      rw [hI.bufs t hne] at hb; cases hb
    subst ht
    obtain ⟨e, rest, hb, hm, hbuf⟩ := flush_some hf
    have hT : m'.mem cTop = s.m.mem cTop := by
      rw [hm]; simp [upd]; intro h'
      exact absurd h'.symm (buf_cell_ne_top hI e (by rw [hb]; exact List.mem_cons_self))
    constructor
    · exact hI.fen
    · exact hI.ord
    · intro u hu; simp only [hbuf, upd, hu, if_false]; exact hI.bufs u hu
    · exact hI.views.flush hf
    · simp only [hT]; exact hI.slots.flush hf
    · simp only [view_flush_self hf]; exact hI.arrOwn
    · simp only [hT, view_flush_self hf]; exact hI.own
    · simp only [hT]; exact hI.tle
    · simp only [hT]; exact hI.cap
    · exact ownerOk_flush hI.owner hf hT
    · intro u hu; exact thiefOk_flush (hI.thief u hu) hf hT
    · simp only [logical, hT]; exact hI.perm
  next => simp at h

/-! ### a CAS on `top` succeeds -/

@[simp] theorem poke_top_top (m : Mem) (v : Int) : (m.poke cTop v).mem cTop = v := by simp [Mem.poke]
@[simp] theorem poke_top_bot (m : Mem) (v : Int) : (m.poke cTop v).mem cBot = m.mem cBot := by
  simp [Mem.poke, upd, cBot, cTop]
@[simp] theorem poke_top_slot (m : Mem) (v : Int) (k0 g : Nat) (i : Int) :
    (m.poke cTop v).mem (cSlot k0 g i) = m.mem (cSlot k0 g i) := by
  simp [Mem.poke, upd, cSlot_ne_top]
@[simp] theorem poke_top_view_bot (m : Mem) (v : Int) (t : Nat) :
    (m.poke cTop v).view t cBot = m.view t cBot := view_poke_other _ _ _ _ _ cBot_ne_top
@[simp] theorem poke_top_view_arr (m : Mem) (v : Int) (t : Nat) :
    (m.poke cTop v).view t cArr = m.view t cArr := view_poke_other _ _ _ _ _ cArr_ne_top
@[simp] theorem poke_top_view_slot (m : Mem) (v : Int) (t k0 g : Nat) (i : Int) :
    (m.poke cTop v).view t (cSlot k0 g i) = m.view t (cSlot k0 g i) :=
  view_poke_other _ _ _ _ _ (cSlot_ne_top _ _ _)

theorem ownerOk_top_succ {k0 m G H W vals p} (h : ownerOk k0 m G H W vals p)
    (hlt : m.mem cTop < H) : ownerOk k0 (m.poke cTop (m.mem cTop + 1)) G H W vals p := by
  cases p <;> simp only [ownerOk, poke_top_top, poke_top_bot, poke_top_slot, poke_buf,
    poke_top_view_bot, poke_top_view_slot] at h ⊢ <;> first | exact h | omega | skip
  · obtain ⟨a, b, c, d, e, f, g, hh⟩ := h
    exact ⟨a, b, c, by omega, e, f, g, fun j h1 h2 => hh j (by omega) h2⟩
  · obtain ⟨a, b, c, d, e, f, g, hh, hx⟩ := h
    exact ⟨a, b, c, by omega, e, f, g, fun j h1 h2 => hh j (by omega) h2, fun h1 => hx (by omega)⟩
  · obtain ⟨a, b, c, d, hh⟩ := h
    exact ⟨a, b, c, d, fun j h1 h2 => hh j (by omega) h2⟩
  · obtain ⟨a, b, c, d, e, f⟩ := h
    refine ⟨a, b, by omega, d, e, ?_⟩
    rcases f with f | f
    · exact Or.inl f
    · exact Or.inr f
  · obtain ⟨a, b, c, d, e, f, g⟩ := h
    exact ⟨a, b, c, d, e, by omega, fun h' => by omega⟩

theorem thiefOk_top_succ {k0 m G H vals p} (h : thiefOk k0 m G H vals p) :
    thiefOk k0 (m.poke cTop (m.mem cTop + 1)) G H vals p := by
  cases p <;> simp only [thiefOk, poke_top_top] at h ⊢ <;>
    first | exact h | omega | (exact ⟨by omega, fun h' => by omega⟩) |
      (exact ⟨by omega, h.2.1, fun h' => by omega⟩)

theorem seg_head (f : Int → Int) (lo hi : Int) (h : lo < hi) :
    seg f lo (hi - lo).toNat = f lo :: seg f (lo + 1) (hi - (lo + 1)).toNat := by
  have : (hi - lo).toNat = (hi - (lo + 1)).toNat + 1 := by omega
  rw [this, seg]

/-- thread `u`'s CAS moves `top` from `T` to `T + 1` and wins the value of index `T` -/
theorem inv_cas {s s' : St} (hI : Inv s) (u : Nat)
    (hn : s'.k0 = s.k0) (hf : s'.fenced = s.fenced) (ho : s'.ordered = s.ordered)
    (hm : s'.m = s.m.poke cTop (s.m.mem cTop + 1)) (hG : s'.gen = s.gen) (hH : s'.hb = s.hb)
    (hW : s'.wf = s.wf) (hV : s'.vals = s.vals) (hP : s'.pushed = s.pushed)
    (hK : s'.taken = s.taken ++ [s.vals (s.m.mem cTop)])
    (hpc : ∀ w, w ≠ u → s'.pc w = s.pc w)
    (hlt : s.m.mem cTop < s.hb)
    (hown : u = 0 → ownerOk s.k0 s'.m s.gen s.hb s.wf s.vals (s'.pc 0))
    (hth : u ≠ 0 → thiefOk s.k0 s'.m s.gen s.hb s.vals (s'.pc u)) :
    Inv s' := by
  constructor
  · rw [hf]; exact hI.fen
  · rw [ho]; exact hI.ord
  · rw [hm]; exact hI.bufs
  · rw [hn, hm, hG, hH]
    refine hI.views.poke ?_
    intro μ μ' suf hsuf hμ ⟨v0, v1, v2, v3⟩
    have hb : μ' cBot = μ cBot := hμ _ cBot_ne_top
    have ha : μ' cArr = μ cArr := hμ _ cArr_ne_top
    refine ⟨by rw [ha]; exact v0, by rw [ha]; exact v1, by rw [hb]; exact v2, ?_⟩
    rw [ha]; exact v3
  · rw [hn, hm, hV, poke_top_top]
    refine hI.slots.poke ?_
    intro μ ν μ' ν' suf h1 h2 hS i hi1 hi2
    rw [h1 _ cBot_ne_top] at hi2
    obtain ⟨a, b⟩ := hS i (by omega) hi2
    have ha : ν' cArr = μ' cArr := h2 _ cArr_ne_top
    refine ⟨?_, ?_⟩
    · rw [ha, h2 _ (cSlot_ne_top _ _ _)]; exact a
    · rw [ha]; exact b
  · rw [hm, hG, poke_top_view_arr]; exact hI.arrOwn
  · rw [hn, hm, hG, hW, hV, poke_top_top]
    intro i h1 h2
    rw [poke_top_view_slot]; exact hI.own i (by omega) h2
  · rw [hm, hH, poke_top_top]; omega
  · rw [hm, hW, hn, hG, poke_top_top]; have := hI.cap; omega
  · rw [hn, hG, hH, hW, hV]
    by_cases h0 : u = 0
    · exact hown h0
    · rw [hpc 0 (Ne.symm h0), hm]; exact ownerOk_top_succ hI.owner hlt
  · intro w hw
    rw [hn, hG, hH, hV]
    by_cases hwu : w = u
    · subst hwu; exact hth hw
    · rw [hpc w hwu, hm]; exact thiefOk_top_succ (hI.thief w hw)
  · have hp := hI.perm
    simp only [logical] at hp ⊢
    rw [hm, hH, hV, hP, hK, poke_top_top]
    rw [seg_head _ _ _ hlt] at hp
    rw [List.append_assoc]; exact hp

theorem inv_casTop {s s' : St} {t : Nat} {found exp des : Int} {ok : Bool} (hI : Inv s)
    (h : step s (.casTop t found exp des ok) = some s') : Inv s' := by
  simp only [step] at h
  split at h
  next b tt x hpc =>
    have ht := tid_zero hI hpc (by simp [thiefOk]); subst ht
    have ho := hI.owner; rw [hpc] at ho; simp only [ownerOk] at ho
    obtain ⟨hE, htb, hBM, hH, hW, htT, hx⟩ := ho
    split at h
    next hc =>
      obtain ⟨-, hfound, hexp, hdes, hok⟩ := hc
      split at h
      next hwon =>
        simp at h; subst h
        have hT : s.m.mem cTop = tt := by simpa [hfound, hexp, hwon] using hok
        apply inv_cas hI 0 <;> try local_side
        case hm => simp [hdes, hT]
        case hK => simp [hT, hx hT, htb]
        case hlt => omega
        case hown =>
          intro _
          simp only [upd_same, ownerOk, hdes, poke_top_top, poke_top_bot, poke_buf]
          exact ⟨hE, by omega, by omega, by omega, hW⟩
        case hth => intro hh; exact absurd rfl hh
      next hlost =>
        simp at h; subst h
        have hT : s.m.mem cTop ≠ tt := by
          intro h'; apply hlost; simp [hok, hfound, hexp, h']
        have htle := hI.tle
        apply inv_local hI 0 <;> try local_side
        · intro _
          simp only [upd_same, ownerOk]
          exact ⟨hE, by omega, by omega, by omega, hW⟩
        · intro hh; exact absurd rfl hh
    next => simp at h
  next tt g x hpc =>
    have ht := tid_ne_zero hI hpc (by simp [ownerOk])
    have hth := hI.thief t ht; rw [hpc] at hth; simp only [thiefOk] at hth
    split at h
    next hc =>
      obtain ⟨-, hfound, hexp, hdes, hok⟩ := hc
      split at h
      next hwon =>
        simp at h; subst h
        have hT : s.m.mem cTop = tt := by simpa [hfound, hexp, hwon] using hok
        obtain ⟨a, b⟩ := hth.2 hT
        apply inv_cas hI t <;> try local_side
        case hm => simp [hdes, hT]
        case hK => simp [hT, b]
        case hlt => omega
        case hown => intro h0; exact absurd h0 ht
        case hth => intro _; simp [thiefOk]
      next hlost =>
        simp at h; subst h
        apply inv_local hI t <;> try local_side
        · intro h0; exact absurd h0 ht
        · intro _; simp [thiefOk]
    next => simp at h
  next => simp at h

/-! ### loads of `top` -/

theorem thiefOk_hb {k0 m G H H' vals p} (h : thiefOk k0 m G H vals p)
    (hH : m.mem cTop < H → m.mem cTop < H') : thiefOk k0 m G H' vals p := by
  cases p <;> simp only [thiefOk] at h ⊢ <;> try exact h
  · refine ⟨h.1, fun hT hlt => ?_⟩
    obtain ⟨a, b⟩ := h.2 hT hlt
    exact ⟨by omega, b⟩
  · refine ⟨h.1, h.2.1, fun hT => ?_⟩
    obtain ⟨a, b⟩ := h.2.2 hT
    exact ⟨by omega, b⟩
  · refine ⟨h.1, fun hT => ?_⟩
    obtain ⟨a, b⟩ := h.2 hT
    exact ⟨by omega, b⟩

theorem inv_ldTop {s s' : St} {t : Nat} {x : Int} (hI : Inv s)
    (h : step s (.ldTop t x) = some s') : Inv s' := by
  simp only [step] at h
  split at h
  next v b hpc =>
    have ht := tid_zero hI hpc (by simp [thiefOk]); subst ht
    have ho := hI.owner; rw [hpc] at ho; simp only [ownerOk] at ho
    split at h <;> simp at h
    subst h
    rename_i hx
    rw [load_top hI] at hx
    apply inv_local hI 0 <;> try local_side
    · intro _; simp only [upd_same, ownerOk]; omega
    · intro hh; exact absurd rfl hh
  next b g hpc =>
    have ht := tid_zero hI hpc (by simp [thiefOk]); subst ht
    have ho := hI.owner; rw [hpc] at ho; simp only [ownerOk] at ho
    obtain ⟨hB, hH, hW, hg⟩ := ho
    split at h
    next hc =>
      obtain ⟨hx, hfence⟩ := hc
      rw [load_top hI] at hx
      have hE : s.m.buf 0 = [] := hfence hI.fen
      rw [view_of_drained hE] at hB
      have htle := hI.tle
      split at h
      next hlt =>
        simp at h; subst h
        apply inv_local hI 0 <;> try local_side
        · intro _; simp only [upd_same, ownerOk]; exact ⟨hE, by omega, by omega, by omega, hW⟩
        · intro hh; exact absurd rfl hh
      next hnlt =>
        split at h
        next hlt =>
          -- commit: the owner takes element b without a CAS; memory `bottom` is already `b`
          simp at h; subst h
          have hown := hI.own
          rw [view_of_drained hE] at hown
          constructor
          · exact hI.fen
          · exact hI.ord
          · exact hI.bufs
          · refine AllViews.of_drained (P := ViewOk s.k0 s.gen b) hE ?_
            obtain ⟨v0, v1, v2, v3⟩ := hI.views.now
            refine ⟨v0, v1, by simp only; omega, ?_⟩
            intro c v hcv; cases hcv
          · refine AllViews2.of_drained (P := SlotsOk s.k0 (s.m.mem cTop) s.vals) hE ?_
            have := hI.slots [] [] [] (by simp [hE])
            simpa [applyAll] using this
          · exact hI.arrOwn
          · intro i h1 h2; exact hI.own i h1 (by simp only at h2; omega)
          · simp only; omega
          · have := hI.cap; simp only; omega
          · simp only [upd_same, ownerOk]
            refine ⟨hE, hB, by omega, trivial, hg, Or.inl ⟨by omega, trivial, ?_⟩⟩
            rw [hg]; exact hown b (by omega) (by omega)
          · intro u hu
            simp only [upd, hu, if_false]
            exact thiefOk_hb (hI.thief u hu) (fun _ => by omega)
          · have hp := hI.perm
            simp only [logical] at hp ⊢
            have hn : (s.hb - s.m.mem cTop).toNat = (b - s.m.mem cTop).toNat + 1 := by omega
            rw [hn, seg_snoc] at hp
            have hb : s.m.mem cTop + ((b - s.m.mem cTop).toNat : Int) = b := by omega
            rw [hb] at hp
            exact hp.trans perm_snoc_move
        next hnlt2 =>
          simp at h; subst h
          apply inv_local hI 0 <;> try local_side
          · intro _; simp only [upd_same, ownerOk]
            exact ⟨hE, hB, by omega, hW, hg, Or.inr ⟨by omega, hH⟩⟩
          · intro hh; exact absurd rfl hh
    next => simp at h
  next hpc =>
    have ht := tid_ne_zero hI hpc (by simp [ownerOk])
    split at h <;> simp at h
    subst h
    rename_i hc
    rw [load_top hI] at hc
    apply inv_local hI t <;> try local_side
    · intro h0; exact absurd h0 ht
    · intro _; simp only [upd_same, thiefOk]; omega
  next => simp at h

/-! ### the owner's stores: they go to the buffer -/

theorem Stable.snoc {k0 vals i μ suf} {c : Nat} {v : Int} (h : Stable k0 vals i μ suf)
    (hc : c ≠ cSlot k0 (μ cArr).toNat i) : Stable k0 vals i μ (suf ++ [(c, v)]) := by
  refine ⟨h.1, fun e he => ?_⟩
  rcases List.mem_append.mp he with h1 | h1
  · exact h.2 e h1
  · simp at h1; rw [h1]; exact hc

/-- a store to a cell that is neither the pointer nor the slot of `i` -/
theorem Stable.updOther {k0 vals i μ} {c : Nat} {v : Int} (h : Stable k0 vals i μ [])
    (hc : c ≠ cArr) (hs : c ≠ cSlot k0 (μ cArr).toNat i) : Stable k0 vals i (upd μ c v) [] := by
  have ha : (upd μ c v) cArr = μ cArr := upd_other _ _ _ _ (Ne.symm hc)
  refine ⟨?_, by intro e he; cases he⟩
  rw [ha, upd_other _ _ _ _ (Ne.symm hs)]; exact h.1

theorem Stable.congr {k0 vals vals' i μ suf} (h : Stable k0 vals i μ suf) (hv : vals' i = vals i) :
    Stable k0 vals' i μ suf := ⟨by rw [hv]; exact h.1, h.2⟩

theorem thiefOk_store_bot {k0 m G H H' vals p} {x : Int} (h : thiefOk k0 m G H vals p)
    (hH : H ≤ H') : thiefOk k0 (m.store 0 cBot x) G H' vals p := by
  cases p <;> simp only [thiefOk, store_mem] at h ⊢ <;> try exact h
  · refine ⟨h.1, fun hT hlt => ?_⟩
    obtain ⟨a, b⟩ := h.2 hT hlt
    refine ⟨by omega, b.store ?_ ?_⟩
    · intro μ suf _ hS; exact hS.snoc (cSlot_ne_bot _ _ _).symm
    · exact b.own.updOther cArr_ne_bot.symm (cSlot_ne_bot _ _ _).symm
  · refine ⟨h.1, h.2.1, fun hT => ?_⟩
    obtain ⟨a, b⟩ := h.2.2 hT
    refine ⟨by omega, b.store ?_ ?_⟩
    · intro μ suf _ hS; exact hS
    · rw [upd_other _ _ _ _ (cSlot_ne_bot _ _ _)]; exact b.own
  · refine ⟨h.1, fun hT => ?_⟩
    obtain ⟨a, b⟩ := h.2 hT
    exact ⟨by omega, b⟩

/-- the owner issues `bottom := x`: `hb` may grow, `wf`, `vals`, `taken` stay -/
theorem inv_stBot {s s' : St} (hI : Inv s) (x : Int)
    (hn : s'.k0 = s.k0) (hf : s'.fenced = s.fenced) (ho : s'.ordered = s.ordered)
    (hm : s'.m = s.m.store 0 cBot x) (hG : s'.gen = s.gen)
    (hW : s'.wf = s.wf) (hV : s'.vals = s.vals) (hK : s'.taken = s.taken)
    (hpc : ∀ w, w ≠ 0 → s'.pc w = s.pc w)
    (hHle : s.hb ≤ s'.hb) (hx1 : x ≤ s'.hb) (hx2 : x ≤ s.wf)
    (hown : ownerOk s.k0 s'.m s.gen s'.hb s.wf s.vals (s'.pc 0))
    (hperm : s'.pushed.Perm (s.taken ++ seg s.vals (s.m.mem cTop) (s'.hb - s.m.mem cTop).toNat)) :
    Inv s' := by
  have harr : s.m.view 0 cArr = s.gen := hI.arrOwn
  constructor
  · rw [hf]; exact hI.fen
  · rw [ho]; exact hI.ord
  · intro u hu; rw [hm, store_buf_other _ _ _ _ _ hu]; exact hI.bufs u hu
  · rw [hn, hm, hG]
    refine hI.views.store ?_ ?_
    · intro μ suf _ ⟨v0, v1, v2, v3⟩
      refine ⟨v0, v1, by omega, ?_⟩
      intro c v hcv
      rcases List.mem_append.mp hcv with h1 | h1
      · exact v3 c v h1
      · simp at h1; exact Or.inl h1.1
    · refine ⟨?_, ?_, by simp [upd]; exact hx1, by intro c v hcv; cases hcv⟩
      · rw [upd_other _ _ _ _ cArr_ne_bot, harr]; omega
      · rw [upd_other _ _ _ _ cArr_ne_bot, harr]; omega
  · rw [hn, hm, hV, store_mem]
    refine hI.slots.store ?_ ?_ ?_
    · intro pre mid suf _ hS i h1 h2
      exact (hS i h1 h2).snoc (cSlot_ne_bot _ _ _).symm
    · intro pre suf _ hS i h1 h2
      exact (hS i h1 h2).updOther cArr_ne_bot.symm (cSlot_ne_bot _ _ _).symm
    · intro i h1 h2
      simp only [upd_same] at h2
      refine ⟨?_, by intro e he; cases he⟩
      rw [upd_other _ _ _ _ cArr_ne_bot, harr, Int.toNat_natCast,
        upd_other _ _ _ _ (cSlot_ne_bot _ _ _)]
      exact hI.own i h1 (by omega)
  · rw [hm, hG, view_store_self, upd_other _ _ _ _ cArr_ne_bot]; exact harr
  · rw [hn, hm, hG, hW, hV, store_mem]
    intro i h1 h2
    rw [view_store_self, upd_other _ _ _ _ (cSlot_ne_bot _ _ _)]
    exact hI.own i h1 h2
  · rw [hm, store_mem]; have := hI.tle; omega
  · rw [hm, hW, hn, hG, store_mem]; exact hI.cap
  · rw [hn, hG, hW, hV]; exact hown
  · intro u hu
    rw [hn, hm, hG, hV, hpc u hu]
    exact thiefOk_store_bot (hI.thief u hu) hHle
  · simp only [logical]; rw [hm, hV, hK, store_mem]; exact hperm

theorem inv_stBottom {s s' : St} {t : Nat} {x : Int} (hI : Inv s)
    (h : step s (.stBottom t x) = some s') : Inv s' := by
  simp only [step] at h
  split at h
  next v b hpc =>
    have ht := tid_zero hI hpc (by simp [thiefOk]); subst ht
    have ho := hI.owner; rw [hpc] at ho; simp only [ownerOk] at ho
    obtain ⟨hb, hB, hW, hv⟩ := ho
    split at h <;> simp at h
    subst h
    rename_i hx
    apply inv_stBot hI x <;> try local_side
    case hHle => simp only; omega
    case hx1 => simp only; omega
    case hx2 => omega
    case hown =>
      simp only [upd_same, ownerOk, view_store_self]; refine ⟨?_, ?_⟩ <;> first | trivial | omega
    case hperm =>
      have hp := hI.perm
      have htle := hI.tle
      simp only [logical] at hp
      simp only
      have hn : (x - s.m.mem cTop).toNat = (s.hb - s.m.mem cTop).toNat + 1 := by omega
      rw [hn, seg_snoc]
      have hb' : s.m.mem cTop + ((s.hb - s.m.mem cTop).toNat : Int) = b := by omega
      rw [hb', hv, ← List.append_assoc]
      exact List.Perm.append_right _ hp
  next b g hpc =>
    have ht := tid_zero hI hpc (by simp [thiefOk]); subst ht
    have ho := hI.owner; rw [hpc] at ho; simp only [ownerOk] at ho
    obtain ⟨hb, hB, hW, hg⟩ := ho
    split at h <;> simp at h
    subst h
    rename_i hx
    apply inv_stBot hI x <;> try local_side
    case hHle => simp only; omega
    case hx1 => simp only; omega
    case hx2 => omega
    case hown =>
      simp only [upd_same, ownerOk, view_store_self]
      exact ⟨by first | exact hx | omega, by omega, hW, hg⟩
    case hperm => exact hI.perm
  next tt hpc =>
    have ht := tid_zero hI hpc (by simp [thiefOk]); subst ht
    have ho := hI.owner; rw [hpc] at ho; simp only [ownerOk] at ho
    obtain ⟨hE, hH, hT, hBM, hW⟩ := ho
    split at h <;> simp at h
    subst h
    rename_i hx
    apply inv_stBot hI x <;> try local_side
    case hHle => simp only; omega
    case hx1 => simp only; omega
    case hx2 => omega
    case hown => simp only [upd_same, ownerOk, view_store_self]; refine ⟨?_, ?_⟩ <;> first | trivial | omega
    case hperm => exact hI.perm
  next tt r hpc =>
    have ht := tid_zero hI hpc (by simp [thiefOk]); subst ht
    have ho := hI.owner; rw [hpc] at ho; simp only [ownerOk] at ho
    obtain ⟨hE, hBM, hH, hT, hW⟩ := ho
    split at h <;> simp at h
    subst h
    rename_i hx
    apply inv_stBot hI x <;> try local_side
    case hHle => simp only; omega
    case hx1 => simp only; omega
    case hx2 => omega
    case hown => simp only [upd_same, ownerOk, view_store_self]; refine ⟨?_, ?_⟩ <;> first | trivial | omega
    case hperm => exact hI.perm
  next => simp at h

/-! ### the element store `a[b & mask] = p` -/

/-- the slot of the index being pushed is not the slot of any live index, in any generation up
    to the current one -/
theorem put_cell_ne {k0 G g : Nat} {i b T : Int} (hg : g ≤ G) (hT : T ≤ i) (hi : i < b)
    (hcap : b + 1 ≤ T + size k0 G) : cSlot k0 G b ≠ cSlot k0 g i := by
  by_cases h : g = G
  · subst h; exact (cSlot_ne hi (by omega)).symm
  · exact cSlot_gen_ne k0 (Ne.symm h) _ _

theorem thiefOk_put {k0 m G H vals p} {b v : Int} (h : thiefOk k0 m G H vals p)
    (hv : AllViews m 0 (ViewOk k0 G H)) (harr : m.view 0 cArr = G)
    (hbH : b = H) (hcap : b + 1 ≤ m.mem cTop + size k0 G) :
    thiefOk k0 (m.store 0 (cSlot k0 G b) v) G H (setVal vals b v) p := by
  cases p <;> simp only [thiefOk, store_mem] at h ⊢ <;> try exact h
  · next t b' =>
    refine ⟨h.1, fun hT hlt => ?_⟩
    obtain ⟨a, S⟩ := h.2 hT hlt
    have hne : t ≠ b := by omega
    refine ⟨a, (AllViews.and S hv).store ?_ ?_⟩
    · intro μ suf _ ⟨hS, v0, v1, _, _⟩
      refine (hS.congr (by simp [setVal, hne])).snoc ?_
      exact put_cell_ne (by omega) (by omega) (by omega) hcap
    · refine (S.own.congr (by simp [setVal, hne])).updOther (cSlot_ne_arr _ _ _) ?_
      rw [harr, Int.toNat_natCast]
      exact put_cell_ne (Nat.le_refl _) (by omega) (by omega) hcap
  · next t g =>
    refine ⟨h.1, h.2.1, fun hT => ?_⟩
    obtain ⟨a, S⟩ := h.2.2 hT
    have hne : t ≠ b := by omega
    refine ⟨a, S.store ?_ ?_⟩
    · intro μ suf _ hS; simp [setVal, hne]; exact hS
    · rw [upd_other _ _ _ _ (put_cell_ne h.2.1 (by omega) (by omega) hcap).symm]
      simp [setVal, hne]; exact S.own
  · next t g x =>
    refine ⟨h.1, fun hT => ?_⟩
    obtain ⟨a, b'⟩ := h.2 hT
    have hne : t ≠ b := by omega
    exact ⟨a, by simp [setVal, hne, b']⟩

theorem inv_wrPut {s s' : St} {v b : Int} {g : Nat} (hI : Inv s) (hpc0 : s.pc 0 = .pushPut v b g)
    (hs : s' = { s with m := s.m.store 0 (cSlot s.k0 g b) v, vals := setVal s.vals b v,
                        wf := b + 1, pc := upd s.pc 0 (.pushWritten v b) }) : Inv s' := by
  have ho := hI.owner; rw [hpc0] at ho; simp only [ownerOk] at ho
  obtain ⟨hb, hB, hW, hg, hcap⟩ := ho
  subst hg
  have harr := hI.arrOwn
  have htle := hI.tle
  subst hs
  constructor
  · exact hI.fen
  · exact hI.ord
  · intro u hu; simp only [store_buf_other _ _ _ _ _ hu]; exact hI.bufs u hu
  · show AllViews _ 0 (ViewOk s.k0 s.gen s.hb)
    refine hI.views.store ?_ ?_
    · intro μ suf _ ⟨v0, v1, v2, v3⟩
      refine ⟨v0, v1, v2, ?_⟩
      intro c w hcw
      rcases List.mem_append.mp hcw with h1 | h1
      · exact v3 c w h1
      · simp at h1; exact Or.inr (Or.inr ⟨s.gen, b, h1.1, v1⟩)
    · refine ⟨?_, ?_, ?_, by intro c v hcv; cases hcv⟩
      · rw [upd_other _ _ _ _ (cSlot_ne_arr _ _ _).symm, harr]; omega
      · rw [upd_other _ _ _ _ (cSlot_ne_arr _ _ _).symm, harr]; omega
      · rw [upd_other _ _ _ _ (cSlot_ne_bot _ _ _).symm]; omega
  · simp only [store_mem]
    refine hI.slots.store ?_ ?_ ?_
    · intro pre mid suf hps hS i h1 h2
      have hv1 := hI.views pre (mid ++ suf) hps
      have hv2 := hI.views (pre ++ mid) suf (by rw [hps, List.append_assoc])
      rw [applyAll_append] at hv2
      have hne : i ≠ b := by have := hv1.2.2.1; omega
      refine ((hS i h1 h2).congr (by simp [setVal, hne])).snoc ?_
      exact put_cell_ne (by have := hv2.2.1; have := hv2.1; omega) h1 (by have := hv1.2.2.1; omega) hcap
    · intro pre suf hps hS i h1 h2
      have hv1 := hI.views pre suf hps
      have hne : i ≠ b := by have := hv1.2.2.1; omega
      refine ((hS i h1 h2).congr (by simp [setVal, hne])).updOther (cSlot_ne_arr _ _ _) ?_
      rw [harr, Int.toNat_natCast]
      exact put_cell_ne (Nat.le_refl _) h1 (by have := hv1.2.2.1; omega) hcap
    · intro i h1 h2
      rw [upd_other _ _ _ _ (cSlot_ne_bot _ _ _).symm] at h2
      have hne : i ≠ b := by omega
      refine ⟨?_, by intro e he; cases he⟩
      rw [upd_other _ _ _ _ (cSlot_ne_arr _ _ _).symm, harr, Int.toNat_natCast,
        upd_other _ _ _ _ (put_cell_ne (Nat.le_refl _) h1 (by omega) hcap).symm]
      simp [setVal, hne]
      exact hI.own i h1 (by omega)
  · simp only [view_store_self, upd_other _ _ _ _ (cSlot_ne_arr _ _ _).symm]; exact harr
  · simp only [store_mem, view_store_self]
    intro i h1 h2
    by_cases hib : i = b
    · subst hib; simp [setVal]
    · rw [upd_other _ _ _ _ (put_cell_ne (Nat.le_refl _) h1 (by omega) hcap).symm]
      simp [setVal, hib]
      exact hI.own i h1 (by omega)
  · exact hI.tle
  · simp only [store_mem]; omega
  · simp only [upd_same, ownerOk, view_store_self, upd_other _ _ _ _ (cSlot_ne_bot _ _ _).symm]
    exact ⟨hb, hB, by omega, by simp [setVal]⟩
  · intro u hu
    simp only [upd, hu, if_false]
    exact thiefOk_put (hI.thief u hu) hI.views harr hb hcap
  · have hp := hI.perm
    simp only [logical] at hp ⊢
    simp only [store_mem]
    rw [seg_congr (g := s.vals)]
    · exact hp
    · intro i h1 h2
      have : i ≠ b := by omega
      simp [setVal, this]

/-! ### the copy stores `na[i & nmask] = a[i & mask]` -/

theorem thiefOk_copy {k0 m G H vals p} {j x : Int} (h : thiefOk k0 m G H vals p)
    (hv : AllViews m 0 (ViewOk k0 G H)) (harr : m.view 0 cArr = G) :
    thiefOk k0 (m.store 0 (cSlot k0 (G + 1) j) x) G H vals p := by
  cases p <;> simp only [thiefOk, store_mem] at h ⊢ <;> try exact h
  · next t b' =>
    refine ⟨h.1, fun hT hlt => ?_⟩
    obtain ⟨a, S⟩ := h.2 hT hlt
    refine ⟨a, (AllViews.and S hv).store ?_ ?_⟩
    · intro μ suf _ ⟨hS, v0, v1, _, _⟩
      exact hS.snoc (cSlot_gen_ne k0 (by omega) _ _)
    · refine S.own.updOther (cSlot_ne_arr _ _ _) ?_
      rw [harr, Int.toNat_natCast]
      exact cSlot_gen_ne k0 (by omega) _ _
  · next t g =>
    refine ⟨h.1, h.2.1, fun hT => ?_⟩
    obtain ⟨a, S⟩ := h.2.2 hT
    refine ⟨a, S.store ?_ ?_⟩
    · intro μ suf _ hS; exact hS
    · rw [upd_other _ _ _ _ (cSlot_gen_ne k0 (by have := h.2.1; omega) _ _)]
      exact S.own

/-- a copy store; the owner's next pc is left to the caller -/
theorem inv_wrCopy {s s' : St} {j x : Int} (hI : Inv s) (p' : Pc)
    (hs : s' = { s with m := s.m.store 0 (cSlot s.k0 (s.gen + 1) j) x, pc := upd s.pc 0 p' })
    (hBH : s.m.view 0 cBot = s.hb) (hWH : s.wf = s.hb)
    (hown : ownerOk s.k0 (s.m.store 0 (cSlot s.k0 (s.gen + 1) j) x) s.gen s.hb s.wf s.vals p') :
    Inv s' := by
  have harr := hI.arrOwn
  have htle := hI.tle
  subst hs
  constructor
  · exact hI.fen
  · exact hI.ord
  · intro u hu; simp only [store_buf_other _ _ _ _ _ hu]; exact hI.bufs u hu
  · show AllViews _ 0 (ViewOk s.k0 s.gen s.hb)
    refine hI.views.store ?_ ?_
    · intro μ suf _ ⟨v0, v1, v2, v3⟩
      refine ⟨v0, v1, v2, ?_⟩
      intro c w hcw
      rcases List.mem_append.mp hcw with h1 | h1
      · exact v3 c w h1
      · simp at h1; exact Or.inr (Or.inr ⟨s.gen + 1, j, h1.1, by omega⟩)
    · refine ⟨?_, ?_, ?_, by intro c v hcv; cases hcv⟩
      · rw [upd_other _ _ _ _ (cSlot_ne_arr _ _ _).symm, harr]; omega
      · rw [upd_other _ _ _ _ (cSlot_ne_arr _ _ _).symm, harr]; omega
      · rw [upd_other _ _ _ _ (cSlot_ne_bot _ _ _).symm]; omega
  · show AllViews2 _ 0 (SlotsOk s.k0 (s.m.mem cTop) s.vals)
    refine hI.slots.store ?_ ?_ ?_
    · intro pre mid suf hps hS i h1 h2
      have hv2 := hI.views (pre ++ mid) suf (by rw [hps, List.append_assoc])
      rw [applyAll_append] at hv2
      exact (hS i h1 h2).snoc (cSlot_gen_ne s.k0 (g := s.gen + 1) (by have := hv2.2.1; have := hv2.1; omega) _ _)
    · intro pre suf hps hS i h1 h2
      refine (hS i h1 h2).updOther (cSlot_ne_arr _ _ _) ?_
      rw [harr, Int.toNat_natCast]
      exact cSlot_gen_ne _ (by omega) _ _
    · intro i h1 h2
      rw [upd_other _ _ _ _ (cSlot_ne_bot _ _ _).symm] at h2
      refine ⟨?_, by intro e he; cases he⟩
      rw [upd_other _ _ _ _ (cSlot_ne_arr _ _ _).symm, harr, Int.toNat_natCast,
        upd_other _ _ _ _ (cSlot_gen_ne _ (by omega) _ _)]
      exact hI.own i h1 (by omega)
  · simp only [view_store_self, upd_other _ _ _ _ (cSlot_ne_arr _ _ _).symm]; exact harr
  · simp only [store_mem, view_store_self]
    intro i h1 h2
    rw [upd_other _ _ _ _ (cSlot_gen_ne _ (by omega) _ _)]
    exact hI.own i h1 h2
  · exact hI.tle
  · exact hI.cap
  · simp only [upd_same]; exact hown
  · intro u hu
    simp only [upd, hu, if_false]
    exact thiefOk_copy (hI.thief u hu) hI.views harr
  · exact hI.perm

/-! ### the pointer store `d->underlying_array = na` -/

theorem thiefOk_arr {k0 m G H vals p} (h : thiefOk k0 m G H vals p)
    (hcopy : ∀ j, m.mem cTop ≤ j → j < H → m.view 0 (cSlot k0 (G + 1) j) = vals j) :
    thiefOk k0 (m.store 0 cArr ((G + 1 : Nat) : Int)) (G + 1) H vals p := by
  cases p <;> simp only [thiefOk, store_mem] at h ⊢ <;> try exact h
  · next t b' =>
    refine ⟨h.1, fun hT hlt => ?_⟩
    obtain ⟨a, S⟩ := h.2 hT hlt
    refine ⟨a, S.store ?_ ?_⟩
    · intro μ suf _ hS
      exact hS.snoc (cSlot_ne_arr _ _ _).symm
    · refine ⟨?_, by intro e he; cases he⟩
      rw [upd_same, Int.toNat_natCast, upd_other _ _ _ _ (cSlot_ne_arr _ _ _)]
      exact hcopy t (by omega) a
  · next t g =>
    refine ⟨h.1, by have := h.2.1; omega, fun hT => ?_⟩
    obtain ⟨a, S⟩ := h.2.2 hT
    refine ⟨a, S.store ?_ ?_⟩
    · intro μ suf _ hS; exact hS
    · rw [upd_other _ _ _ _ (cSlot_ne_arr _ _ _)]
      exact S.own

theorem inv_stArrGo {s s' : St} {v b tt : Int} {g : Nat} (hI : Inv s)
    (hpc0 : s.pc 0 = .pushPublish v b tt g)
    (hs : s' = { s with m := s.m.store 0 cArr ((g + 1 : Nat) : Int), gen := g + 1,
                        grown := s.grown + 1, pc := upd s.pc 0 (.pushPut v b (g + 1)) }) :
    Inv s' := by
  have ho := hI.owner; rw [hpc0] at ho; simp only [ownerOk] at ho
  obtain ⟨hb, hB, hW, hg, hcopy⟩ := ho
  subst hg
  have harr := hI.arrOwn
  have htle := hI.tle
  have hcap := hI.cap
  have hsz := size_succ s.k0 s.gen
  have hsp := size_pos s.k0 s.gen
  subst hs
  constructor
  · exact hI.fen
  · exact hI.ord
  · intro u hu; simp only [store_buf_other _ _ _ _ _ hu]; exact hI.bufs u hu
  · show AllViews _ 0 (ViewOk s.k0 (s.gen + 1) s.hb)
    refine hI.views.store ?_ ?_
    · intro μ suf _ ⟨v0, v1, v2, v3⟩
      refine ⟨v0, by omega, v2, ?_⟩
      intro c w hcw
      rcases List.mem_append.mp hcw with h1 | h1
      · rcases v3 c w h1 with h2 | ⟨h2, h3, h4⟩ | h2
        · exact Or.inl h2
        · exact Or.inr (Or.inl ⟨h2, h3, by omega⟩)
        · exact Or.inr (Or.inr h2)
      · simp at h1; exact Or.inr (Or.inl ⟨h1.1, by omega, by omega⟩)
    · refine ⟨?_, ?_, ?_, by intro c v hcv; cases hcv⟩
      · rw [upd_same]; omega
      · rw [upd_same]; omega
      · rw [upd_other _ _ _ _ cArr_ne_bot.symm]; omega
  · show AllViews2 _ 0 (SlotsOk s.k0 (s.m.mem cTop) s.vals)
    refine hI.slots.store ?_ ?_ ?_
    · intro pre mid suf hps hS i h1 h2
      exact (hS i h1 h2).snoc (cSlot_ne_arr _ _ _).symm
    · intro pre suf hps hS i h1 h2
      have hv1 := hI.views pre suf hps
      refine ⟨?_, by intro e he; cases he⟩
      rw [upd_same, Int.toNat_natCast, upd_other _ _ _ _ (cSlot_ne_arr _ _ _)]
      exact hcopy i h1 (by have := hv1.2.2.1; omega)
    · intro i h1 h2
      rw [upd_other _ _ _ _ cArr_ne_bot.symm] at h2
      refine ⟨?_, by intro e he; cases he⟩
      rw [upd_same, Int.toNat_natCast, upd_other _ _ _ _ (cSlot_ne_arr _ _ _)]
      exact hcopy i h1 (by omega)
  · simp only [view_store_self, upd_same]
  · simp only [store_mem, view_store_self]
    intro i h1 h2
    rw [upd_other _ _ _ _ (cSlot_ne_arr _ _ _)]
    exact hcopy i h1 (by omega)
  · exact hI.tle
  · simp only [store_mem]; omega
  · simp only [upd_same, ownerOk, view_store_self, upd_other _ _ _ _ cArr_ne_bot.symm, store_mem]
    exact ⟨hb, hB, hW, trivial, by omega⟩
  · intro u hu
    simp only [upd, hu, if_false]
    exact thiefOk_arr (hI.thief u hu) (fun j h1 h2 => hcopy j h1 (by omega))
  · exact hI.perm

theorem inv_wrSlot {s s' : St} {t : Nat} {g i : Nat} {x : Int} (hI : Inv s)
    (h : step s (.wrSlot t g i x) = some s') : Inv s' := by
  simp only [step] at h
  split at h
  next v b tt g' j y hpc =>
    have ht := tid_zero hI hpc (by simp [thiefOk]); subst ht
    have ho := hI.owner; rw [hpc] at ho; simp only [ownerOk] at ho
    obtain ⟨hb, hB, hW, htT, hg, h1, h2, hcopy, hy⟩ := ho
    have hcap := hI.cap
    have hsz : size s.k0 s.gen ≤ size s.k0 (s.gen + 1) := size_mono s.k0 (Nat.le_succ s.gen)
    split at h
    next hc =>
      obtain ⟨hgg, -, hxy⟩ := hc
      subst hg; subst hgg; subst hxy
      -- what the owner sees in the new generation after this store
      have hpromise : ∀ j', s.m.mem cTop ≤ j' → j' < j + 1 →
          (s.m.store 0 (cSlot s.k0 (s.gen + 1) j) x).view 0 (cSlot s.k0 (s.gen + 1) j') = s.vals j' := by
        intro j' h3 h4
        rw [view_store_self]
        by_cases hjj : j' = j
        · subst hjj; rw [upd_same]; exact hy h3
        · rw [upd_other _ _ _ _ (cSlot_ne (by omega) (by omega))]
          exact hcopy j' h3 (by omega)
      have hbot : (s.m.store 0 (cSlot s.k0 (s.gen + 1) j) x).view 0 cBot = s.hb := by
        rw [view_store_self, upd_other _ _ _ _ (cSlot_ne_bot _ _ _).symm]; exact hB
      split at h
      next hmore =>
        simp at h; subst h
        refine inv_wrCopy hI (.pushCopy v b tt s.gen (j + 1)) rfl hB hW ?_
        simp only [ownerOk, store_mem]
        exact ⟨hb, hbot, hW, htT, trivial, by omega, hmore, hpromise⟩
      next hlast =>
        simp at h; subst h
        refine inv_wrCopy hI (.pushPublish v b tt s.gen) rfl hB hW ?_
        simp only [ownerOk, store_mem]
        exact ⟨hb, hbot, hW, trivial, fun j' h3 h4 => hpromise j' h3 (by omega)⟩
    next => simp at h
  next v b g' hpc =>
    have ht := tid_zero hI hpc (by simp [thiefOk]); subst ht
    split at h <;> simp at h
    rename_i hc
    obtain ⟨hgg, -, hxv⟩ := hc
    subst hgg; subst hxv
    exact inv_wrPut hI hpc h.symm
  next => simp at h

theorem inv_stArr {s s' : St} {t : Nat} {g : Nat} (hI : Inv s)
    (h : step s (.stArr t g) = some s') : Inv s' := by
  simp only [step] at h
  split at h
  next v b tt g' hpc =>
    have ht := tid_zero hI hpc (by simp [thiefOk]); subst ht
    split at h <;> simp at h
    rename_i hgg
    subst hgg
    exact inv_stArrGo hI hpc h.symm
  next => simp at h

/-- on TSO the reordered pointer store does not exist -/
theorem inv_stArrEarly {s s' : St} {t : Nat} {g : Nat} (hI : Inv s)
    (h : step s (.stArrEarly t g) = some s') : Inv s' := by
  simp only [step] at h
  split at h
  next v b tt g' hpc =>
    split at h <;> simp at h
    rename_i hc
    have := hI.ord; rw [hc.1] at this; cases this
  next => simp at h

theorem inv_step {s s' : St} {e : Ev} (hI : Inv s) (h : step s e = some s') : Inv s' := by
  cases e with
  | callPush t v => exact inv_callPush hI h
  | retPush t => exact inv_retPush hI h
  | callPop t => exact inv_callPop hI h
  | retPop t r => exact inv_retPop hI h
  | callSteal t => exact inv_callSteal hI h
  | retSteal t r => exact inv_retSteal hI h
  | ldBottom t x => exact inv_ldBottom hI h
  | stBottom t x => exact inv_stBottom hI h
  | ldTop t x => exact inv_ldTop hI h
  | casTop t f e d ok => exact inv_casTop hI h
  | ldArr t g => exact inv_ldArr hI h
  | stArr t g => exact inv_stArr hI h
  | stArrEarly t g => exact inv_stArrEarly hI h
  | rdSlot t g i x => exact inv_rdSlot hI h
  | wrSlot t g i x => exact inv_wrSlot hI h
  | flush t => exact inv_flush hI h

theorem inv_of_run {k0 : Nat} {es : List Ev} {s : St} (h : (tso k0).run es = some s) : Inv s :=
  Sys.inv_of_run (sys true true k0) Inv (inv_init k0) (fun _ _ _ hI hs => inv_step hI hs) h

/-! ### accounting: commit points (`taken`) versus API-level returns (`returned`) -/

/-- the value a thread has won but not yet handed back to its caller -/
def holdsPc (vals : Int → Int) : Pc → Option Int
  | .popTake b _ t => if t < b then some (vals b) else none
  | .popCased _ (.val x) => some x
  | .popDone (.val x) => some x
  | .stealDone (.val x) => some x
  | _ => none

def holds (s : St) (u : Nat) : Option Int := holdsPc s.vals (s.pc u)

structure Acc (s : St) : Prop where
  mem : ∀ u x, (u, x) ∈ s.owed ↔ holds s u = some x
  nodup : s.owed.Nodup
  perm : s.taken.Perm (s.returned ++ s.owed.map Prod.snd)

theorem acc_init (f o : Bool) (n : Nat) : Acc (init f o n) := by
  constructor <;> simp [init, holds, holdsPc]

theorem acc_of_holds {s s' : St} (hA : Acc s) (hO : s'.owed = s.owed) (hK : s'.taken = s.taken)
    (hR : s'.returned = s.returned) (hold : ∀ u, holds s' u = holds s u) : Acc s' := by
  constructor
  · intro u x; rw [hO, hold]; exact hA.mem u x
  · rw [hO]; exact hA.nodup
  · rw [hK, hR, hO]; exact hA.perm

theorem acc_local {s s' : St} (hA : Acc s) (t : Nat)
    (hV : s'.vals = s.vals) (hO : s'.owed = s.owed) (hK : s'.taken = s.taken)
    (hR : s'.returned = s.returned) (hpc : ∀ w, w ≠ t → s'.pc w = s.pc w)
    (hh : holdsPc s.vals (s'.pc t) = holdsPc s.vals (s.pc t)) : Acc s' := by
  apply acc_of_holds hA hO hK hR
  intro u
  unfold holds
  rw [hV]
  by_cases hu : u = t
  · subst hu; exact hh
  · rw [hpc u hu]

/-- thread `t` wins the value `x` -/
theorem acc_commit {s s' : St} (hA : Acc s) (t : Nat) (x : Int)
    (hV : s'.vals = s.vals) (hO : s'.owed = s.owed ++ [(t, x)])
    (hK : s'.taken = s.taken ++ [x]) (hR : s'.returned = s.returned)
    (hpc : ∀ w, w ≠ t → s'.pc w = s.pc w)
    (hold : holdsPc s.vals (s.pc t) = none)
    (hnew : holdsPc s.vals (s'.pc t) = some x) : Acc s' := by
  have hnot : ∀ y, (t, y) ∉ s.owed := by
    intro y hy
    have := (hA.mem t y).mp hy
    unfold holds at this; rw [hold] at this; cases this
  have hother : ∀ u, u ≠ t → holds s' u = holds s u := by
    intro u hu; unfold holds; rw [hV, hpc u hu]
  have hself : holds s' t = some x := by unfold holds; rw [hV]; exact hnew
  constructor
  · intro u y
    rw [hO, List.mem_append, List.mem_singleton]
    by_cases hu : u = t
    · subst hu
      rw [hself]
      constructor
      · rintro (h | h)
        · exact absurd h (hnot y)
        · cases h; rfl
      · intro h; cases h; right; rfl
    · rw [hother u hu, ← hA.mem u y]
      constructor
      · rintro (h | h)
        · exact h
        · cases h; exact absurd rfl hu
      · intro h; left; exact h
  · rw [hO]
    refine List.nodup_append.mpr ⟨hA.nodup, by simp, ?_⟩
    intro a ha b hb
    rw [List.mem_singleton] at hb; subst hb
    intro hab; subst hab; exact hnot x ha
  · rw [hK, hR, hO, List.map_append, ← List.append_assoc]
    exact List.Perm.append_right _ hA.perm

/-- thread `t` hands back what it holds (or EMPTY / ABORT) -/
theorem acc_ret {s s' : St} (hA : Acc s) (t : Nat) (r : Res)
    (hV : s'.vals = s.vals) (hO : s'.owed = r.settle t s.owed)
    (hK : s'.taken = s.taken) (hR : s'.returned = s.returned ++ r.vals)
    (hpc : ∀ w, w ≠ t → s'.pc w = s.pc w)
    (hold : holdsPc s.vals (s.pc t) = (match r with | .val x => some x | _ => none))
    (hnew : holdsPc s.vals (s'.pc t) = none) : Acc s' := by
  have hother : ∀ u, u ≠ t → holds s' u = holds s u := by
    intro u hu; unfold holds; rw [hV, hpc u hu]
  have hself : holds s' t = none := by unfold holds; rw [hV]; exact hnew
  cases r with
  | empty =>
    simp [Res.settle, Res.vals] at hO hR hold
    exact acc_local hA t hV hO hK hR hpc (by rw [hnew, hold])
  | abort =>
    simp [Res.settle, Res.vals] at hO hR hold
    exact acc_local hA t hV hO hK hR hpc (by rw [hnew, hold])
  | val x =>
    simp only [Res.settle, Res.vals] at hO hR hold
    have hin : (t, x) ∈ s.owed := (hA.mem t x).mpr (by unfold holds; exact hold)
    constructor
    · intro u y
      rw [hO, hA.nodup.mem_erase_iff]
      by_cases hu : u = t
      · subst hu
        rw [hself]
        constructor
        · rintro ⟨hne, hm⟩
          have := (hA.mem u y).mp hm
          unfold holds at this; rw [hold] at this
          cases this; exact absurd rfl hne
        · intro h; cases h
      · rw [hother u hu, ← hA.mem u y]
        constructor
        · rintro ⟨_, hm⟩; exact hm
        · intro hm; refine ⟨?_, hm⟩
          intro h; cases h; exact hu rfl
    · rw [hO]; exact hA.nodup.erase _
    · rw [hK, hR, hO]
      have h1 : s.owed.Perm ((t, x) :: s.owed.erase (t, x)) := List.perm_cons_erase hin
      have h2 := (h1.map Prod.snd)
      simp only [List.map_cons] at h2
      refine hA.perm.trans ?_
      refine (List.Perm.append_left s.returned h2).trans ?_
      simp

set_option linter.unusedVariables false

macro "acc_loc" hA:ident t:ident : tactic =>
  `(tactic| (apply acc_local $hA $t <;>
      first | rfl | (intro w hw; simp [upd, hw]; done) | (simp [upd, holdsPc, *]; done)))

theorem acc_callPush {s s' : St} {t : Nat} {v : Int} (hI : Inv s) (hA : Acc s)
    (h : step s (.callPush t v) = some s') : Acc s' := by
  simp only [step] at h; (repeat' split at h) <;> simp at h
  rename_i hc; obtain ⟨ht, hpc⟩ := hc
  rw [ht] at hpc; subst h; acc_loc hA t

theorem acc_callPop {s s' : St} {t : Nat} (hI : Inv s) (hA : Acc s)
    (h : step s (.callPop t) = some s') : Acc s' := by
  simp only [step] at h; (repeat' split at h) <;> simp at h
  rename_i hc; obtain ⟨ht, hpc⟩ := hc
  rw [ht] at hpc; subst h; acc_loc hA t

theorem acc_callSteal {s s' : St} {t : Nat} (hI : Inv s) (hA : Acc s)
    (h : step s (.callSteal t) = some s') : Acc s' := by
  simp only [step] at h; (repeat' split at h) <;> simp at h <;> subst h <;> acc_loc hA t

theorem acc_retPush {s s' : St} {t : Nat} (hI : Inv s) (hA : Acc s)
    (h : step s (.retPush t) = some s') : Acc s' := by
  simp only [step] at h; (repeat' split at h) <;> simp at h <;> subst h <;> acc_loc hA t

theorem acc_ldBottom {s s' : St} {t : Nat} {x : Int} (hI : Inv s) (hA : Acc s)
    (h : step s (.ldBottom t x) = some s') : Acc s' := by
  simp only [step] at h; (repeat' split at h) <;> simp at h <;> subst h <;> acc_loc hA t

theorem acc_ldArr {s s' : St} {t : Nat} {g : Nat} (hI : Inv s) (hA : Acc s)
    (h : step s (.ldArr t g) = some s') : Acc s' := by
  simp only [step] at h; (repeat' split at h) <;> simp at h <;> subst h <;> acc_loc hA t

theorem acc_stArr {s s' : St} {t : Nat} {g : Nat} (hI : Inv s) (hA : Acc s)
    (h : step s (.stArr t g) = some s') : Acc s' := by
  simp only [step] at h; (repeat' split at h) <;> simp at h <;> subst h <;> acc_loc hA t

theorem acc_stArrEarly {s s' : St} {t : Nat} {g : Nat} (hI : Inv s) (hA : Acc s)
    (h : step s (.stArrEarly t g) = some s') : Acc s' := by
  simp only [step] at h; (repeat' split at h) <;> simp at h <;> subst h <;> acc_loc hA t

theorem acc_flush {s s' : St} {t : Nat} (hI : Inv s) (hA : Acc s)
    (h : step s (.flush t) = some s') : Acc s' := by
  simp only [step] at h; (repeat' split at h) <;> simp at h
  subst h
  exact acc_of_holds hA rfl rfl rfl (fun _ => rfl)

theorem acc_stBottom {s s' : St} {t : Nat} {x : Int} (hI : Inv s) (hA : Acc s)
    (h : step s (.stBottom t x) = some s') : Acc s' := by
  simp only [step] at h
  split at h
  next => (repeat' split at h) <;> simp at h <;> subst h <;> acc_loc hA t
  next => (repeat' split at h) <;> simp at h <;> subst h <;> acc_loc hA t
  next => (repeat' split at h) <;> simp at h <;> subst h <;> acc_loc hA t
  next tt r hpc =>
    (repeat' split at h) <;> simp at h
    subst h
    cases r <;> acc_loc hA t
  next => simp at h

theorem acc_rdSlot {s s' : St} {t : Nat} {g i : Nat} {x : Int} (hI : Inv s) (hA : Acc s)
    (h : step s (.rdSlot t g i x) = some s') : Acc s' := by
  simp only [step] at h
  split at h
  next => (repeat' split at h) <;> simp at h <;> subst h <;> acc_loc hA t
  next b g' tt hpc =>
    have ht := tid_zero hI hpc (by simp [thiefOk]); subst ht
    have ho := hI.owner; rw [hpc] at ho; simp only [ownerOk] at ho
    split at h
    next hc =>
      obtain ⟨hgg, -, hx⟩ := hc
      rw [load_of_drained ho.1] at hx
      split at h
      next hlt =>
        simp at h; subst h
        apply acc_local hA 0 <;> first | rfl | (intro w hw; simp [upd, hw]; done) | skip
        have : s.m.mem (cSlot s.k0 g' b) = s.vals b := by
          rcases ho.2.2.2.2.2 with h1 | h1
          · exact h1.2.2
          · omega
        simp [upd, holdsPc, hpc, hlt, hx, hgg, this]
      next hnlt =>
        simp at h; subst h
        apply acc_local hA 0 <;>
          first | rfl | (intro w hw; simp [upd, hw]; done) | (simp [upd, holdsPc, *]; done)
    next => simp at h
  next => (repeat' split at h) <;> simp at h <;> subst h <;> acc_loc hA t
  next => simp at h

theorem acc_ldTop {s s' : St} {t : Nat} {x : Int} (hI : Inv s) (hA : Acc s)
    (h : step s (.ldTop t x) = some s') : Acc s' := by
  simp only [step] at h
  split at h
  next => (repeat' split at h) <;> simp at h <;> subst h <;> acc_loc hA t
  next b g hpc =>
    split at h
    next hc =>
      split at h
      next hlt => simp at h; subst h; acc_loc hA t
      next hnlt =>
        split at h
        next hlt =>
          simp at h; subst h
          apply acc_commit hA t (s.vals b) <;> first | rfl | (intro w hw; simp [upd, hw]; done) | skip
          · simp [hpc, holdsPc]
          · simp [upd, holdsPc, hlt]
        next hnlt2 =>
          simp at h; subst h
          apply acc_local hA t <;> first | rfl | (intro w hw; simp [upd, hw]; done) | skip
          simp [upd, holdsPc, hpc]; omega
    next => simp at h
  next => (repeat' split at h) <;> simp at h <;> subst h <;> acc_loc hA t
  next => simp at h

theorem acc_casTop {s s' : St} {t : Nat} {found exp des : Int} {ok : Bool} (hI : Inv s) (hA : Acc s)
    (h : step s (.casTop t found exp des ok) = some s') : Acc s' := by
  simp only [step] at h
  split at h
  next b tt x hpc =>
    split at h
    next hc =>
      split at h
      next hwon =>
        simp at h; subst h
        apply acc_commit hA t x <;> first | rfl | (intro w hw; simp [upd, hw]; done) | skip
        · simp [hpc, holdsPc]
        · simp [upd, holdsPc]
      next hlost => simp at h; subst h; acc_loc hA t
    next => simp at h
  next tt g x hpc =>
    split at h
    next hc =>
      split at h
      next hwon =>
        simp at h; subst h
        apply acc_commit hA t x <;> first | rfl | (intro w hw; simp [upd, hw]; done) | skip
        · simp [hpc, holdsPc]
        · simp [upd, holdsPc]
      next hlost => simp at h; subst h; acc_loc hA t
    next => simp at h
  next => simp at h

theorem acc_retPop {s s' : St} {t : Nat} {r : Int} (hI : Inv s) (hA : Acc s)
    (h : step s (.retPop t r) = some s') : Acc s' := by
  simp only [step] at h
  split at h
  next r' hpc =>
    split at h <;> simp at h
    subst h
    apply acc_ret hA t r' <;> first | rfl | (intro w hw; simp [upd, hw]; done) | skip
    · cases r' <;> simp [hpc, holdsPc]
    · simp [upd, holdsPc]
  next => simp at h

theorem acc_retSteal {s s' : St} {t : Nat} {r : Int} (hI : Inv s) (hA : Acc s)
    (h : step s (.retSteal t r) = some s') : Acc s' := by
  simp only [step] at h
  split at h
  next r' hpc =>
    split at h <;> simp at h
    subst h
    apply acc_ret hA t r' <;> first | rfl | (intro w hw; simp [upd, hw]; done) | skip
    · cases r' <;> simp [hpc, holdsPc]
    · simp [upd, holdsPc]
  next => simp at h

theorem acc_wrSlot {s s' : St} {t : Nat} {g i : Nat} {x : Int} (hI : Inv s) (hA : Acc s)
    (h : step s (.wrSlot t g i x) = some s') : Acc s' := by
  -- slot writes happen only while the owner is inside push_bottom: nobody holds a value
  -- whose identity depends on `vals`
  have thief_indep : ∀ u, u ≠ 0 → ∀ vl, holdsPc vl (s.pc u) = holdsPc s.vals (s.pc u) := by
    intro u hu vl
    have := hI.thief u hu
    cases hp : s.pc u <;> simp [hp, thiefOk] at this <;> (first | rfl | (rename_i r; cases r <;> rfl))
  simp only [step] at h
  split at h
  next => (repeat' split at h) <;> simp at h <;> subst h <;> acc_loc hA t
  next v b g' hpc =>
    have ht := tid_zero hI hpc (by simp [thiefOk]); subst ht
    (repeat' split at h) <;> simp at h
    subst h
    apply acc_of_holds hA (by rfl) (by rfl) (by rfl)
    intro u
    by_cases hu : u = 0
    · subst hu; simp [holds, upd, hpc, holdsPc]
    · simp only [holds, upd, hu, if_false]; exact thief_indep u hu _
  next => simp at h

theorem acc_step {s s' : St} {e : Ev} (hI : Inv s) (hA : Acc s) (h : step s e = some s') :
    Acc s' := by
  cases e with
  | callPush t v => exact acc_callPush hI hA h
  | callPop t => exact acc_callPop hI hA h
  | callSteal t => exact acc_callSteal hI hA h
  | retPush t => exact acc_retPush hI hA h
  | ldBottom t x => exact acc_ldBottom hI hA h
  | ldArr t g => exact acc_ldArr hI hA h
  | stArr t g => exact acc_stArr hI hA h
  | stArrEarly t g => exact acc_stArrEarly hI hA h
  | flush t => exact acc_flush hI hA h
  | stBottom t x => exact acc_stBottom hI hA h
  | rdSlot t g i x => exact acc_rdSlot hI hA h
  | ldTop t x => exact acc_ldTop hI hA h
  | casTop t found exp des ok => exact acc_casTop hI hA h
  | retPop t r => exact acc_retPop hI hA h
  | retSteal t r => exact acc_retSteal hI hA h
  | wrSlot t g i x => exact acc_wrSlot hI hA h

theorem inv_acc_of_run {k0 : Nat} {es : List Ev} {s : St} (h : (tso k0).run es = some s) :
    Inv s ∧ Acc s :=
  Sys.inv_of_run (sys true true k0) (fun s => Inv s ∧ Acc s) ⟨inv_init k0, acc_init true true k0⟩
    (fun _ _ _ hIA hs => ⟨inv_step hIA.1 hs, acc_step hIA.1 hIA.2 hs⟩) h

end LibfiberVerif.WsdTsoGrow
