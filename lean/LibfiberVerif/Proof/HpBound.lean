/-
  Proof/HpBound.lean — the quantitative invariant of the hazard-pointer model (property C14):
  `plist` never overflows, `retired_count` mirrors the retired list, after a scan
  `2·retired_count ≤ retire_threshold`, and outside `hazard_pointer_free`/scan
  `retired_count < retire_threshold`.
-/
import LibfiberVerif.Proof.Hp

namespace LibfiberVerif.Hp

/-- not inside the counting part of `hazard_pointer_free` / an in-`free` scan / the decide
    phase of a scan -/
def Pc.quiet : Pc → Bool
  | .freeInc | .scanStart true | .scanHead true _ | .scanWalk true _ _ _ _ _ _
  | .scanDecide _ _ _ | .scanKeep _ _ _ _ _ => false
  | _ => true

/-- program counters at which nothing special holds -/
def Pc.plain : Pc → Bool
  | .freeCalled | .freeRc _ | .freeInc | .scanStart true | .scanHead true _ | .scanWalk _ _ _ _ _ _ _
  | .scanDecide _ _ _ | .scanKeep _ _ _ _ _ => false
  | _ => true

/-- `retired_count` versus the retired list -/
def RcOk (s : St) (t : Nat) : Pc → Prop
  | .freeCalled => s.rc t + 1 = (s.rlist t).length
  | .freeRc v => v = s.rc t ∧ s.rc t + 1 = (s.rlist t).length
  | .scanKeep _ _ _ _ v => v = s.rc t ∧ s.rc t = (s.rlist t).length
  | _ => s.rc t = (s.rlist t).length

/-- how many of the records in `l` have completed `create_and_push` -/
def jcount (s : St) (l : List Nat) : Nat := l.countP (fun u => (s.pc u).joined)

def ScanOk (s : St) (t : Nat) : Pc → Prop
  | .scanWalk _ h cap cur i pl walked =>
      h ≠ 0 ∧ h - 1 ∈ s.recs ∧ ptrOk s cur ∧ walked.reverse ++ chain s cur = chain s h ∧
      s.k * (chain s h).length ≤ cap ∧ pl.length ≤ s.k * walked.length + i ∧ (cur = 0 → i = 0) ∧
      pl.length ≤ s.k * jcount s walked + (if cur ≠ 0 ∧ (s.pc (cur - 1)).joined = true then i else 0)
  | .scanDecide _ sp _ => Sorted sp ∧ (∀ n ∈ s.rlist t, n ∈ sp) ∧ 2 * sp.length ≤ s.thr t
  | .scanKeep _ sp n _ _ =>
      Sorted sp ∧ (∀ n ∈ s.rlist t, n ∈ sp) ∧ 2 * sp.length ≤ s.thr t ∧ binarySearch sp n = true
  | _ => True

structure Loc3 (s : St) (t : Nat) (p : Pc) : Prop where
  rcok : RcOk s t p
  bound : p.quiet = true → p.joined = true → s.rc t < s.thr t
  scan : ScanOk s t p
  fresh : p.joined = false → s.rlist t = []

structure Inv3 (s : St) : Prop where
  loc : ∀ t, Loc3 s t (s.pc t)
  kpos : 0 < s.k

theorem inv3_init (k : Nat) (hk : 0 < k) : Inv3 (init k) := by
  refine ⟨?_, hk⟩
  intro t; constructor <;> simp [init, RcOk, ScanOk, Pc.joined]

/-- what a step of thread `t` may do to the things `Loc3` of another thread reads -/
structure Frame3 (s s' : St) (t : Nat) : Prop where
  k : s'.k = s.k
  rc : ∀ u, u ≠ t → s'.rc u = s.rc u
  rlist : ∀ u, u ≠ t → s'.rlist u = s.rlist u
  thr : ∀ u, u ≠ t → s.thr u ≤ s'.thr u
  chain : ∀ q, ptrOk s q → chain s' q = chain s q
  recs : ∀ w ∈ s.recs, w ∈ s'.recs
  joined : ∀ w, (s.pc w).joined = true → (s'.pc w).joined = true

theorem Frame3.ptrOk {s s' : St} {t : Nat} (f : Frame3 s s' t) {q : Nat} (h : ptrOk s q) : ptrOk s' q := by
  rcases h with h | h
  · exact Or.inl h
  · exact Or.inr (f.recs _ h)

theorem Frame3.jcount {s s' : St} {t : Nat} (f : Frame3 s s' t) (l : List Nat) : jcount s l ≤ jcount s' l := by
  unfold Hp.jcount
  apply List.countP_mono_left
  intro x _ hx; exact f.joined x hx

theorem Loc3.stable {s s' : St} {t u : Nat} {p : Pc} (h : Loc3 s u p) (f : Frame3 s s' t) (hu : u ≠ t) :
    Loc3 s' u p := by
  have e1 := f.rc u hu
  have e2 := f.rlist u hu
  have e3 := f.thr u hu
  constructor
  · have := h.rcok
    cases p <;> simp only [RcOk, e1, e2] at this ⊢ <;> exact this
  · intro a b; have := h.bound a b; omega
  · have := h.scan
    cases p <;> simp only [ScanOk, e2] at this ⊢
    · next c hh cap cur i pl walked =>
      obtain ⟨a1, a2, a3, a4, a5, a6, a7, a8⟩ := this
      have hh' : Hp.ptrOk s hh := Or.inr a2
      refine ⟨a1, f.recs _ a2, f.ptrOk a3, ?_, ?_, ?_, a7, ?_⟩
      · rw [f.chain _ a3, f.chain _ hh']; exact a4
      · rw [f.chain _ hh', f.k]; exact a5
      · rw [f.k]; exact a6
      · rw [f.k]
        have hj := f.jcount walked
        have : s.k * Hp.jcount s walked ≤ s.k * Hp.jcount s' walked := Nat.mul_le_mul_left _ hj
        split
        · split at a8 <;> omega
        · next hn =>
          split at a8
          · next hy => exact absurd ⟨hy.1, f.joined _ hy.2⟩ hn
          · omega
    · exact ⟨this.1, this.2.1, by omega⟩
    · exact ⟨this.1, this.2.1, by omega, this.2.2.2⟩
  · rw [e2]; exact h.fresh

/-- assembling `Inv3` after a step of thread `t` -/
theorem Inv3.mk' {s s' : St} {t : Nat} {p' : Pc} (h3 : Inv3 s) (hpc : s'.pc = upd s.pc t p')
    (f : Frame3 s s' t) (ht : Loc3 s' t p') : Inv3 s' := by
  refine ⟨?_, by rw [f.k]; exact h3.kpos⟩
  intro u
  rw [hpc]
  by_cases e : u = t
  · subst e; rw [upd_same]; exact ht
  · rw [upd_other _ _ _ _ e]; exact (h3.loc u).stable f e

theorem RcOk_plain {s : St} {t : Nat} {p : Pc} (hp : p.plain = true) :
    RcOk s t p = (s.rc t = (s.rlist t).length) := by
  cases p <;> simp_all [Pc.plain, RcOk]

theorem ScanOk_plain {s : St} {t : Nat} {p : Pc} (hp : p.plain = true) : ScanOk s t p = True := by
  cases p <;> simp_all [Pc.plain, ScanOk]

theorem quiet_plain {p : Pc} (hp : p.plain = true) : p.quiet = true := by
  cases p <;> simp_all [Pc.plain, Pc.quiet]
  next c => cases c <;> simp_all
  next c h => cases c <;> simp_all

/-- a step between plain program counters that leaves the thread's own counters alone -/
theorem Loc3.simple {s s' : St} {t : Nat} {p p' : Pc} (h : Loc3 s t p) (hp : p.plain = true)
    (hp' : p'.plain = true) (e1 : s'.rc t = s.rc t) (e2 : s'.rlist t = s.rlist t)
    (e3 : p'.joined = true → s.thr t ≤ s'.thr t) (hj : p'.joined = p.joined) : Loc3 s' t p' := by
  constructor
  · rw [RcOk_plain hp', e1, e2]; have := h.rcok; rw [RcOk_plain hp] at this; exact this
  · intro _ b; have := h.bound (quiet_plain hp) (by rw [← hj]; exact b); have := e3 b; omega
  · rw [ScanOk_plain hp']; trivial
  · intro b; rw [e2]; exact h.fresh (by rw [← hj]; exact b)


/-! ### every step satisfies `Frame3` -/

macro "frame3_tac" t:term : tactic =>
  `(tactic| (refine ⟨rfl, ?_, ?_, ?_, fun q _ => rfl, fun w hw => hw, ?_⟩ <;> intro u hu <;>
      first
      | (simp [setPc, upd, hu]; done)
      | (simp only [upd]; split <;> omega)
      | (by_cases e : u = $t <;> simp_all [setPc, upd, Pc.joined])))

theorem frame3_CallJoin {s s' : St} {t : Nat} (hs : stepCallJoin s t = some s') : Frame3 s s' t := by
  unfold stepCallJoin at hs
  step_cases hs
  all_goals frame3_tac t

theorem frame3_RetJoin {s s' : St} {t : Nat} (hs : stepRetJoin s t = some s') : Frame3 s s' t := by
  unfold stepRetJoin at hs
  step_cases hs
  all_goals frame3_tac t

theorem frame3_LdHead {s s' : St} {t v : Nat} (hs : stepLdHead s t v = some s') : Frame3 s s' t := by
  unfold stepLdHead at hs
  step_cases hs
  all_goals frame3_tac t

theorem frame3_WrNext {s s' : St} {t r v : Nat} (hs : stepWrNext s t r v = some s') : Frame3 s s' t := by
  unfold stepWrNext at hs
  step_cases hs
  all_goals frame3_tac t

theorem frame3_RdNext {s s' : St} {t r v : Nat} (hs : stepRdNext s t r v = some s') : Frame3 s s' t := by
  unfold stepRdNext at hs
  step_cases hs
  all_goals frame3_tac t

theorem frame3_StThr {s s' : St} {t r v : Nat} (hs : stepStThr s t r v = some s') : Frame3 s s' t := by
  unfold stepStThr at hs
  step_cases hs
  all_goals frame3_tac t

theorem frame3_LdThr {s s' : St} {t r v : Nat} (hs : stepLdThr s t r v = some s') : Frame3 s s' t := by
  unfold stepLdThr at hs
  step_cases hs
  all_goals frame3_tac t

theorem frame3_FaddThr {s s' : St} {t r old op : Nat} (hs : stepFaddThr s t r old op = some s') : Frame3 s s' t := by
  unfold stepFaddThr at hs
  step_cases hs
  next cur hpc hv =>
  refine ⟨rfl, fun u hu => rfl, fun u hu => rfl, ?_, fun q _ => rfl, fun w hw => hw, ?_⟩
  · intro u hu
    show s.thr u ≤ upd s.thr r _ u
    by_cases e : u = r
    · subst e; rw [upd_same]; omega
    · rw [upd_other _ _ _ _ e]; exact Nat.le_refl _
  · intro w hw; by_cases e : w = t <;> simp_all [upd, Pc.joined]

theorem frame3_RdRc {s s' : St} {t r v : Nat} (hs : stepRdRc s t r v = some s') : Frame3 s s' t := by
  unfold stepRdRc at hs
  step_cases hs
  all_goals frame3_tac t

theorem frame3_WrRc {s s' : St} {t r v : Nat} (hs : stepWrRc s t r v = some s') : Frame3 s s' t := by
  unfold stepWrRc at hs
  step_cases hs
  all_goals frame3_tac t

theorem frame3_RdHp {s s' : St} {t r i v : Nat} (hs : stepRdHp s t r i v = some s') : Frame3 s s' t := by
  unfold stepRdHp at hs
  step_cases hs
  all_goals frame3_tac t

theorem frame3_WrHp {s s' : St} {t r i v : Nat} (hs : stepWrHp s t r i v = some s') : Frame3 s s' t := by
  unfold stepWrHp at hs
  step_cases hs
  all_goals frame3_tac t

theorem frame3_Fence {s s' : St} {t : Nat} (hs : stepFence s t = some s') : Frame3 s s' t := by
  unfold stepFence at hs
  step_cases hs
  all_goals frame3_tac t

theorem frame3_LdG {s s' : St} {t g v : Nat} (hs : stepLdG s t g v = some s') : Frame3 s s' t := by
  unfold stepLdG at hs
  step_cases hs
  all_goals frame3_tac t

theorem frame3_XchgG {s s' : St} {t g old new : Nat} (hs : stepXchgG s t g old new = some s') : Frame3 s s' t := by
  unfold stepXchgG at hs
  step_cases hs
  all_goals frame3_tac t

theorem frame3_CallAcq {s s' : St} {t g sl : Nat} (hs : stepCallAcq s t g sl = some s') : Frame3 s s' t := by
  unfold stepCallAcq at hs
  step_cases hs
  all_goals frame3_tac t

theorem frame3_Validated {s s' : St} {t sl n : Nat} (hs : stepValidated s t sl n = some s') : Frame3 s s' t := by
  unfold stepValidated at hs
  step_cases hs
  all_goals frame3_tac t

theorem frame3_Use {s s' : St} {t sl n : Nat} (hs : stepUse s t sl n = some s') : Frame3 s s' t := by
  unfold stepUse at hs
  step_cases hs
  all_goals frame3_tac t

theorem frame3_RetAcq {s s' : St} {t n : Nat} (hs : stepRetAcq s t n = some s') : Frame3 s s' t := by
  unfold stepRetAcq at hs
  step_cases hs
  all_goals frame3_tac t

theorem frame3_CallRel {s s' : St} {t sl : Nat} (hs : stepCallRel s t sl = some s') : Frame3 s s' t := by
  unfold stepCallRel at hs
  step_cases hs
  all_goals frame3_tac t

theorem frame3_RetRel {s s' : St} {t : Nat} (hs : stepRetRel s t = some s') : Frame3 s s' t := by
  unfold stepRetRel at hs
  step_cases hs
  all_goals frame3_tac t

theorem frame3_CallX {s s' : St} {t g : Nat} (hs : stepCallX s t g = some s') : Frame3 s s' t := by
  unfold stepCallX at hs
  step_cases hs
  all_goals frame3_tac t

theorem frame3_Alloc {s s' : St} {t n : Nat} (hs : stepAlloc s t n = some s') : Frame3 s s' t := by
  unfold stepAlloc at hs
  step_cases hs
  all_goals frame3_tac t

theorem frame3_CallRetire {s s' : St} {t n : Nat} (hs : stepCallRetire s t n = some s') : Frame3 s s' t := by
  unfold stepCallRetire at hs
  step_cases hs
  all_goals frame3_tac t

theorem frame3_RetRetire {s s' : St} {t : Nat} (hs : stepRetRetire s t = some s') : Frame3 s s' t := by
  unfold stepRetRetire at hs
  step_cases hs
  all_goals frame3_tac t

theorem frame3_RcNote {s s' : St} {t r v : Nat} (hs : stepRcNote s t r v = some s') : Frame3 s s' t := by
  unfold stepRcNote at hs
  step_cases hs
  all_goals frame3_tac t

theorem frame3_RetX {s s' : St} {t : Nat} (hs : stepRetX s t = some s') : Frame3 s s' t := by
  unfold stepRetX at hs
  step_cases hs
  all_goals frame3_tac t

theorem frame3_CallScan {s s' : St} {t : Nat} (hs : stepCallScan s t = some s') : Frame3 s s' t := by
  unfold stepCallScan at hs
  step_cases hs
  all_goals frame3_tac t

theorem frame3_RetScan {s s' : St} {t : Nat} (hs : stepRetScan s t = some s') : Frame3 s s' t := by
  unfold stepRetScan at hs
  step_cases hs
  all_goals frame3_tac t

theorem frame3_Reclaim {s s' : St} {t n : Nat} (hs : stepReclaim s t n = some s') : Frame3 s s' t := by
  unfold stepReclaim at hs
  step_cases hs
  all_goals frame3_tac t

theorem frame3_CasHead {s s' : St} {t f e d : Nat} {ok : Bool} (h1 : Inv1 s)
    (hs : stepCasHead s t f e d ok = some s') : Frame3 s s' t := by
  unfold stepCasHead at hs
  step_cases hs
  · next ch hpc hv hok =>
    have ht : t ∉ s.recs := by rw [h1.pushed, hpc]; simp [Pc.pushed]
    constructor
    · rfl
    · intro u hu; rfl
    · intro u hu; rfl
    · intro u hu; exact Nat.le_refl _
    · intro q hq
      unfold chain
      split
      · rfl
      · next h0 =>
        have hr : q - 1 ∈ s.recs := by rcases hq with e | e; exact absurd e h0; exact e
        have : q - 1 ≠ t := by intro e; rw [e] at hr; exact ht hr
        show _ :: upd s.older t s.recs (q - 1) = _
        rw [upd_other _ _ _ _ this]
    · intro w hw; show w ∈ t :: s.recs; simp [hw]
    · intro w hw; by_cases e : w = t <;> simp_all [upd, Pc.joined]
  · frame3_tac t


/-! ### `Inv3` is preserved -/

macro "simple3" h3:ident "," t:term "," fr:ident "," hpc:ident : tactic => `(tactic| (
  have hl := ($h3).loc $t
  rw [$hpc:ident] at hl
  exact Inv3.mk' $h3 rfl $fr (hl.simple (by simp [Pc.plain]) (by simp [Pc.plain]) rfl rfl
       (fun _ => Nat.le_refl _) (by simp [Pc.joined]))))

macro "simple3nj" h3:ident "," t:term "," fr:ident "," hpc:ident : tactic => `(tactic| (
  have hl := ($h3).loc $t
  rw [$hpc:ident] at hl
  exact Inv3.mk' $h3 rfl $fr (hl.simple (by simp [Pc.plain]) (by simp [Pc.plain]) rfl rfl
       (by simp [Pc.joined]) (by simp [Pc.joined]))))

theorem inv3_callJoin {s s' : St} {t : Nat} (h3 : Inv3 s) (hs : stepCallJoin s t = some s') : Inv3 s' := by
  have fr := frame3_CallJoin hs
  unfold stepCallJoin at hs
  step_cases hs
  next hpc => simple3 h3, t, fr, hpc

theorem inv3_wrNext {s s' : St} {t r v : Nat} (h3 : Inv3 s) (hs : stepWrNext s t r v = some s') : Inv3 s' := by
  have fr := frame3_WrNext hs
  unfold stepWrNext at hs
  step_cases hs
  next ch hpc hv => simple3 h3, t, fr, hpc

theorem inv3_stThr {s s' : St} {t r v : Nat} (h3 : Inv3 s) (hs : stepStThr s t r v = some s') : Inv3 s' := by
  have fr := frame3_StThr hs
  unfold stepStThr at hs
  step_cases hs
  next ch cur cnt hpc hv => simple3nj h3, t, fr, hpc

theorem inv3_faddThr {s s' : St} {t r old op : Nat} (h3 : Inv3 s)
    (hs : stepFaddThr s t r old op = some s') : Inv3 s' := by
  have fr := frame3_FaddThr hs
  unfold stepFaddThr at hs
  step_cases hs
  next cur hpc hv => simple3nj h3, t, fr, hpc

theorem inv3_casHead {s s' : St} {t f e d : Nat} {ok : Bool} (h1 : Inv1 s) (h3 : Inv3 s)
    (hs : stepCasHead s t f e d ok = some s') : Inv3 s' := by
  have fr := frame3_CasHead h1 hs
  unfold stepCasHead at hs
  step_cases hs
  · next ch hpc hv hok => simple3 h3, t, fr, hpc
  · next ch hpc hv hok => simple3 h3, t, fr, hpc

theorem inv3_fence {s s' : St} {t : Nat} (h3 : Inv3 s) (hs : stepFence s t = some s') : Inv3 s' := by
  have fr := frame3_Fence hs
  unfold stepFence at hs
  step_cases hs
  next g sl p hpc => simple3 h3, t, fr, hpc

theorem inv3_ldG {s s' : St} {t g v : Nat} (h3 : Inv3 s) (hs : stepLdG s t g v = some s') : Inv3 s' := by
  have fr := frame3_LdG hs
  unfold stepLdG at hs
  step_cases hs
  · next g' sl hpc hv h0 => simple3 h3, t, fr, hpc
  · next g' sl hpc hv h0 => simple3 h3, t, fr, hpc
  · next g' sl p hpc hv hvp => simple3 h3, t, fr, hpc
  · next g' sl p hpc hv hvp => simple3 h3, t, fr, hpc

theorem inv3_validated {s s' : St} {t sl n : Nat} (h3 : Inv3 s) (hs : stepValidated s t sl n = some s') : Inv3 s' := by
  have fr := frame3_Validated hs
  unfold stepValidated at hs
  step_cases hs
  next sl' p hpc hv => simple3 h3, t, fr, hpc

theorem inv3_use {s s' : St} {t sl n : Nat} (h3 : Inv3 s) (hs : stepUse s t sl n = some s') : Inv3 s' := by
  have fr := frame3_Use hs
  unfold stepUse at hs
  step_cases hs
  · next sl' p hpc hv => simple3 h3, t, fr, hpc
  · exact h3

theorem inv3_retAcq {s s' : St} {t n : Nat} (h3 : Inv3 s) (hs : stepRetAcq s t n = some s') : Inv3 s' := by
  have fr := frame3_RetAcq hs
  unfold stepRetAcq at hs
  step_cases hs
  next p hpc hv => simple3 h3, t, fr, hpc

theorem inv3_callAcq {s s' : St} {t g sl : Nat} (h3 : Inv3 s) (hs : stepCallAcq s t g sl = some s') : Inv3 s' := by
  have fr := frame3_CallAcq hs
  unfold stepCallAcq at hs
  step_cases hs
  next hpc hv => simple3 h3, t, fr, hpc

theorem inv3_callRel {s s' : St} {t sl : Nat} (h3 : Inv3 s) (hs : stepCallRel s t sl = some s') : Inv3 s' := by
  have fr := frame3_CallRel hs
  unfold stepCallRel at hs
  step_cases hs
  next hpc hv => simple3 h3, t, fr, hpc

theorem inv3_retRel {s s' : St} {t : Nat} (h3 : Inv3 s) (hs : stepRetRel s t = some s') : Inv3 s' := by
  have fr := frame3_RetRel hs
  unfold stepRetRel at hs
  step_cases hs
  next hpc => simple3 h3, t, fr, hpc

theorem inv3_wrHp {s s' : St} {t r i v : Nat} (h3 : Inv3 s) (hs : stepWrHp s t r i v = some s') : Inv3 s' := by
  have fr := frame3_WrHp hs
  unfold stepWrHp at hs
  step_cases hs
  · next g sl p hpc hv => simple3 h3, t, fr, hpc
  · next sl hpc hv => simple3 h3, t, fr, hpc

theorem inv3_callX {s s' : St} {t g : Nat} (h3 : Inv3 s) (hs : stepCallX s t g = some s') : Inv3 s' := by
  have fr := frame3_CallX hs
  unfold stepCallX at hs
  step_cases hs
  next hpc => simple3 h3, t, fr, hpc

theorem inv3_alloc {s s' : St} {t n : Nat} (h3 : Inv3 s) (hs : stepAlloc s t n = some s') : Inv3 s' := by
  have fr := frame3_Alloc hs
  unfold stepAlloc at hs
  step_cases hs
  · next g hpc h0 => simple3 h3, t, fr, hpc
  · next g hpc h0 hfree => simple3 h3, t, fr, hpc

theorem inv3_xchgG {s s' : St} {t g old new : Nat} (h3 : Inv3 s)
    (hs : stepXchgG s t g old new = some s') : Inv3 s' := by
  have fr := frame3_XchgG hs
  unfold stepXchgG at hs
  split at hs
  case h_2 => simp at hs
  next g' n hpc =>
  split at hs
  case isFalse => simp at hs
  simp only [Option.some.injEq] at hs
  subst hs
  simple3 h3, t, fr, hpc

theorem inv3_rcNote {s s' : St} {t r v : Nat} (h3 : Inv3 s) (hs : stepRcNote s t r v = some s') : Inv3 s' := by
  have fr := frame3_RcNote hs
  unfold stepRcNote at hs
  step_cases hs
  · next hpc hv => simple3 h3, t, fr, hpc
  · next hpc hv => simple3 h3, t, fr, hpc

theorem inv3_retX {s s' : St} {t : Nat} (h3 : Inv3 s) (hs : stepRetX s t = some s') : Inv3 s' := by
  have fr := frame3_RetX hs
  unfold stepRetX at hs
  step_cases hs
  · next hpc => simple3 h3, t, fr, hpc
  · next hpc => simple3 h3, t, fr, hpc

theorem inv3_callScan {s s' : St} {t : Nat} (h3 : Inv3 s) (hs : stepCallScan s t = some s') : Inv3 s' := by
  have fr := frame3_CallScan hs
  unfold stepCallScan at hs
  step_cases hs
  next hpc => simple3 h3, t, fr, hpc

theorem Inv1.thr_pos {s : St} (h1 : Inv1 s) (hk : 0 < s.k) {t : Nat} (ht : t ∈ s.recs) : 0 < s.thr t := by
  rw [h1.thr_eq t ht]
  apply Nat.mul_pos _ hk
  omega

theorem Inv2.pcok_at {s : St} (h2 : Inv2 s) {t : Nat} {p : Pc} (hpc : s.pc t = p) : PcOk s t p := by
  have := (h2.loc t).pcok; rw [hpc] at this; exact this

theorem Inv2.loc_at {s : St} (h2 : Inv2 s) {t : Nat} {p : Pc} (hpc : s.pc t = p) : Loc s t p := by
  have := h2.loc t; rw [hpc] at this; exact this

theorem joined_recs {s : St} (h1 : Inv1 s) {t : Nat} (hj : (s.pc t).joined = true) : t ∈ s.recs := by
  rw [h1.pushed]; exact joined_pushed hj

theorem inv3_retJoin {s s' : St} {t : Nat} (h1 : Inv1 s) (h3 : Inv3 s)
    (hs : stepRetJoin s t = some s') : Inv3 s' := by
  have fr := frame3_RetJoin hs
  unfold stepRetJoin at hs
  step_cases hs
  next hpc =>
  have hl := h3.loc t
  rw [hpc] at hl
  have ht : t ∈ s.recs := by rw [h1.pushed, hpc]; simp [Pc.pushed]
  refine Inv3.mk' h3 rfl fr ⟨?_, ?_, ?_, ?_⟩
  · exact hl.rcok
  · intro _ _
    have h0 : s.rlist t = [] := hl.fresh (by simp [Pc.joined])
    have hrc : s.rc t = (s.rlist t).length := hl.rcok
    have := h1.thr_pos h3.kpos ht
    show s.rc t < s.thr t
    rw [hrc, h0]; exact this
  · trivial
  · simp [Pc.joined]

theorem inv3_ldHead {s s' : St} {t v : Nat} (h3 : Inv3 s) (hs : stepLdHead s t v = some s') : Inv3 s' := by
  have fr := frame3_LdHead hs
  unfold stepLdHead at hs
  step_cases hs
  · next hpc hv => simple3 h3, t, fr, hpc
  · next c hpc hv =>
    have hl := h3.loc t
    rw [hpc] at hl
    refine Inv3.mk' h3 rfl fr ⟨hl.rcok, ?_, trivial, by simp [Pc.joined]⟩
    intro a b
    apply hl.bound _ (by simp [Pc.joined])
    cases c <;> simp_all [Pc.quiet]

theorem inv3_callRetire {s s' : St} {t n : Nat} (h3 : Inv3 s) (hs : stepCallRetire s t n = some s') : Inv3 s' := by
  have fr := frame3_CallRetire hs
  unfold stepCallRetire at hs
  step_cases hs
  next old hpc hv =>
  have hl := h3.loc t
  rw [hpc] at hl
  refine Inv3.mk' h3 rfl fr ⟨?_, ?_, trivial, by simp [Pc.joined]⟩
  · have : s.rc t = (s.rlist t).length := hl.rcok
    simp [RcOk, this]
  · intro _ _; exact hl.bound (by simp [Pc.quiet]) (by simp [Pc.joined])

theorem inv3_rdRc {s s' : St} {t r v : Nat} (h3 : Inv3 s) (hs : stepRdRc s t r v = some s') : Inv3 s' := by
  have fr := frame3_RdRc hs
  unfold stepRdRc at hs
  step_cases hs
  · next hpc hv =>
    obtain ⟨rfl, rfl⟩ := hv
    have hl := h3.loc r
    rw [hpc] at hl
    refine Inv3.mk' h3 rfl fr ⟨?_, ?_, trivial, by simp [Pc.joined]⟩
    · exact ⟨rfl, hl.rcok⟩
    · intro _ _; exact hl.bound (by simp [Pc.quiet]) (by simp [Pc.joined])
  · next c sp n todo hpc hv =>
    obtain ⟨hbs, rfl, rfl⟩ := hv
    have hl := h3.loc r
    rw [hpc] at hl
    refine Inv3.mk' h3 rfl fr ⟨?_, by simp [Pc.quiet], ?_, by simp [Pc.joined]⟩
    · exact ⟨rfl, hl.rcok⟩
    · obtain ⟨a, b, c⟩ := hl.scan
      exact ⟨a, b, c, hbs⟩

theorem inv3_reclaim {s s' : St} {t n : Nat} (h3 : Inv3 s) (hs : stepReclaim s t n = some s') : Inv3 s' := by
  have fr := frame3_Reclaim hs
  unfold stepReclaim at hs
  step_cases hs
  next c sp m todo hpc hv =>
  have hl := h3.loc t
  rw [hpc] at hl
  exact Inv3.mk' h3 rfl fr ⟨hl.rcok, by simp [Pc.quiet], hl.scan, by simp [Pc.joined]⟩

theorem inv3_ldThr {s s' : St} {t r v : Nat} (h1 : Inv1 s) (h2 : Inv2 s) (h3 : Inv3 s)
    (hs : stepLdThr s t r v = some s') : Inv3 s' := by
  have fr := frame3_LdThr hs
  unfold stepLdThr at hs
  step_cases hs
  · next hpc hv hle =>
    have hl := h3.loc t
    rw [hpc] at hl
    exact Inv3.mk' h3 rfl fr ⟨hl.rcok, by simp [Pc.quiet], trivial, by simp [Pc.joined]⟩
  · next hpc hv hle =>
    obtain ⟨rfl, rfl⟩ := hv
    have hl := h3.loc r
    rw [hpc] at hl
    refine Inv3.mk' h3 rfl fr ⟨hl.rcok, ?_, trivial, by simp [Pc.joined]⟩
    intro _ _; show s.rc r < s.thr r; omega
  · next c h hpc hv =>
    obtain ⟨rfl, rfl⟩ := hv
    have hl := h3.loc t
    rw [hpc] at hl
    obtain ⟨h0, hr, _⟩ := h2.pcok_at hpc
    refine Inv3.mk' h3 rfl fr ⟨hl.rcok, ?_, ?_, by simp [Pc.joined]⟩
    · intro a b
      apply hl.bound _ (by simp [Pc.joined])
      cases c <;> simp_all [Pc.quiet]
    · have hthr := h1.thr_eq _ hr
      have hlen : (chain s h).length = 1 + (s.older (h - 1)).length := by simp [chain, h0]; omega
      refine ⟨h0, hr, Or.inr hr, by simp, ?_, by simp, by simp, by simp⟩
      show s.k * (chain s h).length ≤ s.thr (h - 1) / 2
      rw [Nat.le_div_iff_mul_le (by omega), hthr, hlen]
      have : s.k * (1 + (s.older (h - 1)).length) * 2
          ≤ 2 * (1 + (s.older (h - 1)).length + (s.bumpedBy (h - 1)).length) * s.k := by
        generalize (s.older (h - 1)).length = a
        generalize (s.bumpedBy (h - 1)).length = b
        have e1 : s.k * (1 + a) * 2 = 2 * (s.k * (1 + a)) := Nat.mul_comm _ _
        have e2 : 2 * (1 + a + b) * s.k = 2 * (s.k * (1 + a)) + 2 * (s.k * b) := by
          rw [Nat.mul_assoc, Nat.mul_comm (1 + a + b) s.k, Nat.mul_add s.k, Nat.mul_add 2]
        omega
      exact this

theorem ScanOk_walk_congr {s s' : St} {t : Nat} {c : Bool} {h cap cur i : Nat} {pl walked : List Nat}
    (hk : s'.k = s.k) (hrecs : s'.recs = s.recs) (hold : s'.older = s.older)
    (hj : ∀ w, (s'.pc w).joined = (s.pc w).joined) :
    ScanOk s' t (.scanWalk c h cap cur i pl walked) = ScanOk s t (.scanWalk c h cap cur i pl walked) := by
  simp only [ScanOk, chain, ptrOk, jcount, hk, hrecs, hold, hj]

theorem joined_setPc {s : St} {t : Nat} {p p' : Pc} (hpc : s.pc t = p) (hj : p'.joined = p.joined) :
    ∀ w, ((setPc s t p').pc w).joined = (s.pc w).joined := by
  intro w
  by_cases e : w = t
  · subst e; simp [setPc, hpc, hj]
  · simp [setPc, upd, e]

theorem inv3_rdNext {s s' : St} {t r v : Nat} (h1 : Inv1 s) (h3 : Inv3 s)
    (hs : stepRdNext s t r v = some s') : Inv3 s' := by
  have fr := frame3_RdNext hs
  unfold stepRdNext at hs
  step_cases hs
  · next ch cur cnt hpc hv => simple3 h3, t, fr, hpc
  · next hpc hv => simple3 h3, t, fr, hpc
  · next cur hpc hv => simple3 h3, t, fr, hpc
  · next c h cap cur i pl walked hpc hv =>
    obtain ⟨hc0, rfl, rfl, rfl⟩ := hv
    have hl := h3.loc t
    rw [hpc] at hl
    refine Inv3.mk' h3 rfl fr ⟨hl.rcok, ?_, ?_, by simp [Pc.joined]⟩
    · intro a b
      apply hl.bound _ (by simp [Pc.joined])
      cases c <;> simp_all [Pc.quiet]
    · have hj := joined_setPc (p' := .scanWalk c h cap (s.next (cur - 1)) 0 pl ((cur - 1) :: walked)) hpc rfl
      rw [ScanOk_walk_congr (s := s) (s' := setPc s t _) rfl rfl rfl hj]
      obtain ⟨a1, a2, a3, a4, a5, a6, a7, a8⟩ := hl.scan
      have hr : cur - 1 ∈ s.recs := by rcases a3 with e | e; exact absurd e hc0; exact e
      have hch := h1.nxt _ hr
      have hcur : chain s cur = (cur - 1) :: s.older (cur - 1) := by simp [chain, hc0]
      refine ⟨a1, a2, h1.ptrOk_next hr, ?_, a5, ?_, by simp, ?_⟩
      · show ((cur - 1) :: walked).reverse ++ chain s (s.next (cur - 1)) = chain s h
        rw [hch, ← a4, hcur]; simp
      · show pl.length ≤ s.k * ((cur - 1) :: walked).length + 0
        simp only [List.length_cons, Nat.mul_succ]; omega
      · show pl.length ≤ s.k * jcount s ((cur - 1) :: walked) + _
        have hj : jcount s ((cur - 1) :: walked)
            = jcount s walked + (if (s.pc (cur - 1)).joined = true then 1 else 0) := by
          simp [jcount, List.countP_cons]
        rw [hj]
        simp only [hc0, ne_eq, not_false_eq_true, true_and] at a8
        have hz : (if s.next (cur - 1) ≠ 0 ∧ (s.pc (s.next (cur - 1) - 1)).joined = true then 0 else 0) = 0 := by
          split <;> rfl
        rw [hz]
        split at a8
        · next hjn => simp only [hjn, if_true, Nat.mul_add, Nat.mul_one]; omega
        · next hjn =>
          have : (s.pc (cur - 1)).joined = false := by simpa using hjn
          simp only [this, Bool.false_eq_true, if_false, Nat.add_zero]; omega

theorem inv3_rdHp {s s' : St} {t r i v : Nat} (h2 : Inv2 s) (h3 : Inv3 s)
    (hs : stepRdHp s t r i v = some s') : Inv3 s' := by
  have fr := frame3_RdHp hs
  unfold stepRdHp at hs
  split at hs
  case h_2 => simp at hs
  next c h cap cur j pl walked hpc =>
  split at hs
  case isFalse => simp at hs
  next hv =>
  obtain ⟨hc0, hjk, rfl, rfl, rfl⟩ := hv
  simp only [Option.some.injEq] at hs
  subst hs
  have hl := h3.loc t
  rw [hpc] at hl
  refine Inv3.mk' h3 rfl fr ⟨hl.rcok, ?_, ?_, by simp [Pc.joined]⟩
  · intro a b
    apply hl.bound _ (by simp [Pc.joined])
    cases c <;> simp_all [Pc.quiet]
  · have hj := joined_setPc (p' := .scanWalk c h cap cur (i + 1)
      (if s.hp (cur - 1) i = 0 then pl else pl ++ [s.hp (cur - 1) i]) walked) hpc rfl
    rw [ScanOk_walk_congr (s := s) (s' := setPc s t _) rfl rfl rfl hj]
    obtain ⟨a1, a2, a3, a4, a5, a6, a7, a8⟩ := hl.scan
    have hlen : (if s.hp (cur - 1) i = 0 then pl else pl ++ [s.hp (cur - 1) i]).length ≤ pl.length + 1 := by
      split <;> simp
    refine ⟨a1, a2, a3, a4, a5, by omega, fun e => absurd e hc0, ?_⟩
    simp only [hc0, ne_eq, not_false_eq_true, true_and] at a8 ⊢
    by_cases hv0 : s.hp (cur - 1) i = 0
    · simp only [hv0, if_true]
      split
      · split at a8 <;> omega
      · next hn => simp only [hn] at a8; simpa using a8
    · have hjn : (s.pc (cur - 1)).joined = true := by
        cases hq : (s.pc (cur - 1)).joined
        · exact absurd ((h2.loc (cur - 1)).hp0 hq i) hv0
        · rfl
      simp only [hjn, if_true] at a8 ⊢
      simp only [hv0, if_false, List.length_append, List.length_cons, List.length_nil]
      omega

theorem rc_le_sp {s : St} {t : Nat} {sp : List Nat} (h2 : Inv2 s)
    (hsub : ∀ n ∈ s.rlist t, n ∈ sp) : (s.rlist t).length ≤ sp.length := by
  apply nodup_length_le _ hsub
  have := (h2.loc t).rl_nd
  exact (List.nodup_append.mp this).1

theorem inv3_wrRc {s s' : St} {t r v : Nat} (h1 : Inv1 s) (h3 : Inv3 s)
    (hs : stepWrRc s t r v = some s') : Inv3 s' := by
  have fr := frame3_WrRc hs
  unfold stepWrRc at hs
  step_cases hs
  · next v0 hpc hv =>
    obtain ⟨rfl, rfl⟩ := hv
    have hl := h3.loc r
    rw [hpc] at hl
    refine Inv3.mk' h3 rfl fr ⟨?_, by simp [Pc.quiet], trivial, by simp [Pc.joined]⟩
    obtain ⟨a, b⟩ := hl.rcok
    show upd s.rc r (v0 + 1) r = _
    rw [upd_same, a]; exact b
  · next c h cap cur i pl walked hpc hv =>
    obtain ⟨rfl, rfl, rfl⟩ := hv
    have hl := h3.loc r
    rw [hpc] at hl
    have hrr : r ∈ s.recs := joined_recs h1 (by rw [hpc]; rfl)
    refine Inv3.mk' h3 rfl fr ⟨?_, by simp [Pc.quiet], ?_, by simp [Pc.joined]⟩
    · show upd s.rc r 0 r = (upd s.rlist r [] r).length
      simp
    · obtain ⟨a1, a2, a3, a4, a5, a6, a7, a8⟩ := hl.scan
      refine ⟨sorted_isort pl, by simp [upd], ?_⟩
      show 2 * (isort pl).length ≤ s.thr r
      rw [length_isort]
      simp only [ne_eq, not_true_eq_false, false_and, if_false, Nat.add_zero] at a8
      -- the records walked that have joined: a duplicate-free list, all accounted for in `thr r`
      have hw : walked.reverse = chain s h := by simpa [chain] using a4
      have hnd : walked.Nodup := by
        have := h1.chain_nodup (Or.inr a2 : ptrOk s h)
        rw [← hw] at this; exact (List.reverse_perm walked).nodup_iff.mp this
      have hsub : ∀ u ∈ walked, u ∈ s.recs := by
        intro u hu
        apply h1.chain_sub (Or.inr a2 : ptrOk s h)
        rw [← hw]; simp [hu]
      have hge := h1.thr_ge hrr (L := walked.filter (fun u => (s.pc u).joined))
        (List.Nodup.sublist List.filter_sublist hnd)
        (by intro j hj; rw [List.mem_filter] at hj; exact ⟨hsub j hj.1, hj.2⟩)
      have hcnt : jcount s walked = (walked.filter (fun u => (s.pc u).joined)).length := by
        simp [jcount, List.countP_eq_length_filter]
      rw [← hcnt] at hge
      have : 2 * (s.k * jcount s walked) = 2 * jcount s walked * s.k := by
        rw [Nat.mul_comm s.k, Nat.mul_assoc]
      omega
  · next c sp n todo v0 hpc hv =>
    obtain ⟨rfl, rfl⟩ := hv
    have hl := h3.loc r
    rw [hpc] at hl
    refine Inv3.mk' h3 rfl fr ⟨?_, by simp [Pc.quiet], ?_, by simp [Pc.joined]⟩
    · obtain ⟨a, b⟩ := hl.rcok
      show upd s.rc r (v0 + 1) r = (upd s.rlist r (n :: s.rlist r) r).length
      simp [a, b]
    · obtain ⟨a, b, c', d⟩ := hl.scan
      refine ⟨a, ?_, c'⟩
      intro m hm
      change m ∈ upd s.rlist r (n :: s.rlist r) r at hm
      rw [upd_same, List.mem_cons] at hm
      rcases hm with rfl | hm
      · exact (binarySearch_iff a m).mp d
      · exact b m hm

/-- the end of a scan: `retired_count ≤ |plist|` and `2·|plist| ≤ retire_threshold` -/
theorem scan_end_bound {s : St} {t : Nat} {c : Bool} {sp : List Nat} (h1 : Inv1 s) (h2 : Inv2 s)
    (h3 : Inv3 s) (hpc : s.pc t = .scanDecide c sp []) :
    s.rc t ≤ sp.length ∧ 2 * sp.length ≤ s.thr t ∧ s.rc t < s.thr t := by
  have hl := h3.loc t
  rw [hpc] at hl
  obtain ⟨_, b, c'⟩ := hl.scan
  have hrc : s.rc t = (s.rlist t).length := hl.rcok
  have hle := rc_le_sp h2 b
  have hpos := h1.thr_pos h3.kpos (joined_recs h1 (by rw [hpc]; rfl))
  refine ⟨by omega, c', by omega⟩

theorem inv3_retRetire {s s' : St} {t : Nat} (h1 : Inv1 s) (h2 : Inv2 s) (h3 : Inv3 s)
    (hs : stepRetRetire s t = some s') : Inv3 s' := by
  have fr := frame3_RetRetire hs
  unfold stepRetRetire at hs
  step_cases hs
  · next hpc => simple3 h3, t, fr, hpc
  · next sp hpc =>
    have hl := h3.loc t
    rw [hpc] at hl
    refine Inv3.mk' h3 rfl fr ⟨hl.rcok, ?_, trivial, by simp [Pc.joined]⟩
    intro _ _; exact (scan_end_bound h1 h2 h3 hpc).2.2

theorem inv3_retScan {s s' : St} {t : Nat} (h1 : Inv1 s) (h2 : Inv2 s) (h3 : Inv3 s)
    (hs : stepRetScan s t = some s') : Inv3 s' := by
  have fr := frame3_RetScan hs
  unfold stepRetScan at hs
  step_cases hs
  next sp hpc =>
  have hl := h3.loc t
  rw [hpc] at hl
  refine Inv3.mk' h3 rfl fr ⟨hl.rcok, ?_, trivial, by simp [Pc.joined]⟩
  intro _ _; exact (scan_end_bound h1 h2 h3 hpc).2.2

theorem inv3_step {s s' : St} {e : Ev} (h1 : Inv1 s) (h2 : Inv2 s) (h3 : Inv3 s)
    (hs : step s e = some s') : Inv3 s' := by
  cases e with
  | callJoin t => exact inv3_callJoin h3 hs
  | retJoin t => exact inv3_retJoin h1 h3 hs
  | ldHead t v => exact inv3_ldHead h3 hs
  | casHead t f e d ok => exact inv3_casHead h1 h3 hs
  | wrNext t r v => exact inv3_wrNext h3 hs
  | rdNext t r v => exact inv3_rdNext h1 h3 hs
  | stThr t r v => exact inv3_stThr h3 hs
  | ldThr t r v => exact inv3_ldThr h1 h2 h3 hs
  | faddThr t r old op => exact inv3_faddThr h3 hs
  | rdRc t r v => exact inv3_rdRc h3 hs
  | wrRc t r v => exact inv3_wrRc h1 h3 hs
  | rdHp t r i v => exact inv3_rdHp h2 h3 hs
  | wrHp t r i v => exact inv3_wrHp h3 hs
  | fence t => exact inv3_fence h3 hs
  | ldG t g v => exact inv3_ldG h3 hs
  | xchgG t g old new => exact inv3_xchgG h3 hs
  | callAcq t g sl => exact inv3_callAcq h3 hs
  | validated t sl n => exact inv3_validated h3 hs
  | use t sl n => exact inv3_use h3 hs
  | retAcq t n => exact inv3_retAcq h3 hs
  | callRel t sl => exact inv3_callRel h3 hs
  | retRel t => exact inv3_retRel h3 hs
  | callX t g => exact inv3_callX h3 hs
  | alloc t n => exact inv3_alloc h3 hs
  | callRetire t n => exact inv3_callRetire h3 hs
  | retRetire t => exact inv3_retRetire h1 h2 h3 hs
  | rcNote t r v => exact inv3_rcNote h3 hs
  | retX t => exact inv3_retX h3 hs
  | callScan t => exact inv3_callScan h3 hs
  | retScan t => exact inv3_retScan h1 h2 h3 hs
  | reclaim t n => exact inv3_reclaim h3 hs

/-- all three invariants hold in every state reached by an accepted trace -/
theorem inv_of_run {k : Nat} (hk : 0 < k) {es : List Ev} {s : St} (h : (sys k).run es = some s) :
    Inv1 s ∧ Inv2 s ∧ Inv3 s :=
  Sys.inv_of_run (sys k) (fun s => Inv1 s ∧ Inv2 s ∧ Inv3 s) ⟨inv1_init k, inv2_init k, inv3_init k hk⟩
    (fun _ _ _ hi hs => ⟨inv1_step hi.1 hs, inv2_step hi.1 hi.2.1 hs, inv3_step hi.1 hi.2.1 hi.2.2 hs⟩) h

/-- how a step can change a validated protection -/
theorem prot_step {s s' : St} {e : Ev} (hs : step s e = some s') (u j : Nat) :
    s'.prot u j = s.prot u j ∨
    (∃ v, e = .wrHp u u j v ∧ s'.prot u j = 0) ∨
    (∃ g, e = .ldG u g (s'.prot u j) ∧ s.g g = s'.prot u j ∧ (∃ g', s.pc u = .acqFenced g' j (s'.prot u j))) := by
  cases e <;> simp only [step] at hs
  case wrHp t r i v =>
    unfold stepWrHp at hs
    step_cases hs
    all_goals (
      rename_i hv
      obtain ⟨rfl, rfl, rfl⟩ := hv
      show upd2 s.prot r i 0 u j = _ ∨ _
      rw [upd2_apply]
      split
      · next h => obtain ⟨rfl, rfl⟩ := h; right; left; exact ⟨_, rfl, by simp [upd2_apply]⟩
      · left; rfl)
  case ldG t g v =>
    unfold stepLdG at hs
    step_cases hs
    · left; rfl
    · left; rfl
    · next g' sl p hpc hv hvp =>
      obtain ⟨rfl, rfl⟩ := hv
      show upd2 s.prot t sl p u j = _ ∨ _
      rw [upd2_apply]
      split
      · next h =>
        obtain ⟨rfl, rfl⟩ := h; right; right
        refine ⟨g, ?_, ?_, g, ?_⟩ <;> simp [upd2_apply, hvp, hpc]
      · left; rfl
    · left; rfl
  all_goals (
    left
    first
    | (unfold stepCallJoin at hs; step_cases hs; all_goals rfl)
    | (unfold stepRetJoin at hs; step_cases hs; all_goals rfl)
    | (unfold stepLdHead at hs; step_cases hs; all_goals rfl)
    | (unfold stepCasHead at hs; step_cases hs; all_goals rfl)
    | (unfold stepWrNext at hs; step_cases hs; all_goals rfl)
    | (unfold stepRdNext at hs; step_cases hs; all_goals rfl)
    | (unfold stepStThr at hs; step_cases hs; all_goals rfl)
    | (unfold stepLdThr at hs; step_cases hs; all_goals rfl)
    | (unfold stepFaddThr at hs; step_cases hs; all_goals rfl)
    | (unfold stepRdRc at hs; step_cases hs; all_goals rfl)
    | (unfold stepWrRc at hs; step_cases hs; all_goals rfl)
    | (unfold stepRdHp at hs; step_cases hs; all_goals rfl)
    | (unfold stepFence at hs; step_cases hs; all_goals rfl)
    | (unfold stepXchgG at hs; step_cases hs; all_goals rfl)
    | (unfold stepCallAcq at hs; step_cases hs; all_goals rfl)
    | (unfold stepValidated at hs; step_cases hs; all_goals rfl)
    | (unfold stepUse at hs; step_cases hs; all_goals rfl)
    | (unfold stepRetAcq at hs; step_cases hs; all_goals rfl)
    | (unfold stepCallRel at hs; step_cases hs; all_goals rfl)
    | (unfold stepRetRel at hs; step_cases hs; all_goals rfl)
    | (unfold stepCallX at hs; step_cases hs; all_goals rfl)
    | (unfold stepAlloc at hs; step_cases hs; all_goals rfl)
    | (unfold stepCallRetire at hs; step_cases hs; all_goals rfl)
    | (unfold stepRetRetire at hs; step_cases hs; all_goals rfl)
    | (unfold stepRcNote at hs; step_cases hs; all_goals rfl)
    | (unfold stepRetX at hs; step_cases hs; all_goals rfl)
    | (unfold stepCallScan at hs; step_cases hs; all_goals rfl)
    | (unfold stepRetScan at hs; step_cases hs; all_goals rfl)
    | (unfold stepReclaim at hs; step_cases hs; all_goals rfl))

/-- every step of thread `e.tid` satisfies `Frame3`; in particular the list reachable from a record
    pointer never changes (`next` of a pushed record is immutable) and the list only grows -/
theorem frame3_step {s s' : St} {e : Ev} (h1 : Inv1 s) (hs : step s e = some s') : Frame3 s s' e.tid := by
  cases e with
  | casHead t f e d ok => exact frame3_CasHead h1 hs
  | callJoin t => exact frame3_CallJoin hs
  | retJoin t => exact frame3_RetJoin hs
  | ldHead t v => exact frame3_LdHead hs
  | wrNext t r v => exact frame3_WrNext hs
  | rdNext t r v => exact frame3_RdNext hs
  | stThr t r v => exact frame3_StThr hs
  | ldThr t r v => exact frame3_LdThr hs
  | faddThr t r old op => exact frame3_FaddThr hs
  | rdRc t r v => exact frame3_RdRc hs
  | wrRc t r v => exact frame3_WrRc hs
  | rdHp t r i v => exact frame3_RdHp hs
  | wrHp t r i v => exact frame3_WrHp hs
  | fence t => exact frame3_Fence hs
  | ldG t g v => exact frame3_LdG hs
  | xchgG t g old new => exact frame3_XchgG hs
  | callAcq t g sl => exact frame3_CallAcq hs
  | validated t sl n => exact frame3_Validated hs
  | use t sl n => exact frame3_Use hs
  | retAcq t n => exact frame3_RetAcq hs
  | callRel t sl => exact frame3_CallRel hs
  | retRel t => exact frame3_RetRel hs
  | callX t g => exact frame3_CallX hs
  | alloc t n => exact frame3_Alloc hs
  | callRetire t n => exact frame3_CallRetire hs
  | retRetire t => exact frame3_RetRetire hs
  | rcNote t r v => exact frame3_RcNote hs
  | retX t => exact frame3_RetX hs
  | callScan t => exact frame3_CallScan hs
  | retScan t => exact frame3_RetScan hs
  | reclaim t n => exact frame3_Reclaim hs

end LibfiberVerif.Hp
