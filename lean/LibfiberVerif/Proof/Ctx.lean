/-
  Proof/Ctx.lean — lemmas about the GENERATED x86-64 context switch (property C19).

  `swap` = the instruction list of `Gen.CtxAsm.swapInstrs` run on the machine model of
  `Model/Ctx.lean`, entered with the operand bindings `Gen.CtxAsm.swapInputs`.
  Everything here is ∀ register contents, ∀ memory, modular 64-bit address arithmetic.
-/
import LibfiberVerif.Core.Sys
import LibfiberVerif.Gen.CtxAsm

namespace LibfiberVerif.Ctx
open LibfiberVerif.Gen.CtxAsm

/-- `fiber_context_swap(from, to)` as extracted from the source -/
def swap (lbl : Nat → W) (fromSlot toSlot : W) (m : Machine) : Machine :=
  swapWith swapInstrs swapInputs lbl fromSlot toSlot m

/-- `fiber_context_init`'s stack-pointer statements as extracted from the source -/
def freshInit (stack size fn param : W) (mem : W → W) : InitSt :=
  initRun initOps stack size fn param mem

/-! ## 64-bit helper lemmas -/

theorem setR_apply (f : Reg → W) (r x : Reg) (v : W) :
    setR f r v x = if x = r then v else f x := rfl

theorem setM_apply (m : W → W) (a v x : W) : setM m a v x = if x = a then v else m x := rfl

theorem sub_sub_lit (a : W) (x y : Nat) :
    a - BitVec.ofNat 64 x - BitVec.ofNat 64 y = a - BitVec.ofNat 64 (x + y) := by
  bv_omega

private theorem maskBits : ∀ i, i < 64 → (~~~15#64 : W).getLsbD i = decide (4 ≤ i) := by decide

theorem andNot15 (x : W) : x &&& ~~~15#64 = (x >>> 4) <<< 4 := by
  apply BitVec.eq_of_getLsbD_eq
  intro i hi
  rw [BitVec.getLsbD_and, maskBits i hi]
  simp only [BitVec.getLsbD_shiftLeft, BitVec.getLsbD_ushiftRight]
  by_cases h : i < 4
  · simp [h]
  · have : 4 + (i - 4) = i := by omega
    simp [h, this, hi]
    intro; omega

/-- `x & ~0x0f` rounds down to a multiple of 16 -/
theorem andNot15_toNat (x : W) : (x &&& ~~~15#64).toNat = x.toNat - x.toNat % 16 := by
  rw [andNot15]
  simp [BitVec.toNat_shiftLeft, BitVec.toNat_ushiftRight, Nat.shiftLeft_eq,
    Nat.shiftRight_eq_div_pow]
  omega

/-! ## What one `swap` does, in closed form -/

/-- the callee-saved part of a context: what the ABI obliges a function to preserve,
    plus the stack pointer and the address execution continues at -/
structure Saved where
  rbx : W
  rbp : W
  r12 : W
  r13 : W
  r14 : W
  r15 : W
  rsp : W
  rip : W

/-- the callee-saved view of a running machine that is about to resume at `rip` -/
def savedOf (reg : Reg → W) (rip : W) : Saved :=
  { rbx := reg .rbx, rbp := reg .rbp, r12 := reg .r12, r13 := reg .r13, r14 := reg .r14,
    r15 := reg .r15, rsp := reg .rsp, rip := rip }

/-- memory holds a suspended frame for `sv` at stack-pointer value `sp` -/
def FrameAt (mem : W → W) (sp : W) (sv : Saved) : Prop :=
  mem sp = sv.r15 ∧ mem (sp + 8) = sv.r14 ∧ mem (sp + 16) = sv.r13 ∧ mem (sp + 24) = sv.r12 ∧
  mem (sp + 32) = sv.rbx ∧ mem (sp + 40) = sv.rbp ∧ mem (sp + 48) = sv.rip ∧ sp + 56 = sv.rsp

/-- the cells a suspended frame at `sp` occupies -/
def frameCells (sp : W) : List W := [sp, sp + 8, sp + 16, sp + 24, sp + 32, sp + 40, sp + 48]

/-- the cells below `rsp` that the save half of a swap pushes to -/
def pushCells (rsp : W) : List W :=
  [rsp - 8, rsp - 16, rsp - 24, rsp - 32, rsp - 40, rsp - 48, rsp - 56]

theorem frameCells_of_pushed (rsp : W) : frameCells (rsp - 56) = (pushCells rsp).reverse := by
  simp only [frameCells, pushCells, List.reverse_cons, List.reverse_nil, List.nil_append,
    List.cons_append, List.cons.injEq, and_true]
  refine ⟨?_, ?_, ?_, ?_, ?_, ?_, ?_⟩ <;> bv_omega

/-- memory after the save half: seven pushes below `rsp`, then the slot -/
def savedMem (lbl : Nat → W) (reg : Reg → W) (mem : W → W) (fromSlot : W) : W → W :=
  let sp := reg .rsp
  setM (setM (setM (setM (setM (setM (setM (setM mem
    (sp - 8) (lbl 0)) (sp - 16) (reg .rbp)) (sp - 24) (reg .rbx)) (sp - 32) (reg .r12))
    (sp - 40) (reg .r13)) (sp - 48) (reg .r14)) (sp - 56) (reg .r15)) fromSlot (sp - 56)

local macro "swap_simp" : tactic =>
  `(tactic| simp [swap, swapWith, swapInstrs, swapInputs, enter, run, exec, evalSp, slotOf,
      List.foldl, setR_apply, sub_sub_lit, BitVec.add_assoc, savedMem])

theorem swap_mem (lbl : Nat → W) (fs tslot : W) (m : Machine) :
    (swap lbl fs tslot m).mem = savedMem lbl m.reg m.mem fs := by swap_simp

theorem swap_rip (lbl : Nat → W) (fs tslot : W) (m : Machine) :
    (swap lbl fs tslot m).rip = .atAddr (m.mem (m.mem tslot + 48)) := by swap_simp

theorem swap_rsp (lbl : Nat → W) (fs tslot : W) (m : Machine) :
    (swap lbl fs tslot m).reg .rsp = m.mem tslot + 56 := by swap_simp

theorem swap_r15 (lbl : Nat → W) (fs tslot : W) (m : Machine) :
    (swap lbl fs tslot m).reg .r15 = savedMem lbl m.reg m.mem fs (m.mem tslot) := by swap_simp
theorem swap_r14 (lbl : Nat → W) (fs tslot : W) (m : Machine) :
    (swap lbl fs tslot m).reg .r14 = savedMem lbl m.reg m.mem fs (m.mem tslot + 8) := by swap_simp
theorem swap_r13 (lbl : Nat → W) (fs tslot : W) (m : Machine) :
    (swap lbl fs tslot m).reg .r13 = savedMem lbl m.reg m.mem fs (m.mem tslot + 16) := by swap_simp
theorem swap_r12 (lbl : Nat → W) (fs tslot : W) (m : Machine) :
    (swap lbl fs tslot m).reg .r12 = savedMem lbl m.reg m.mem fs (m.mem tslot + 24) := by swap_simp
theorem swap_rbx (lbl : Nat → W) (fs tslot : W) (m : Machine) :
    (swap lbl fs tslot m).reg .rbx = savedMem lbl m.reg m.mem fs (m.mem tslot + 32) := by swap_simp
theorem swap_rbp (lbl : Nat → W) (fs tslot : W) (m : Machine) :
    (swap lbl fs tslot m).reg .rbp = savedMem lbl m.reg m.mem fs (m.mem tslot + 40) := by swap_simp
theorem swap_rdi (lbl : Nat → W) (fs tslot : W) (m : Machine) :
    (swap lbl fs tslot m).reg .rdi = savedMem lbl m.reg m.mem fs (m.mem tslot + 64) := by swap_simp

/-- cells outside the push area and the slot are untouched -/
theorem savedMem_other (lbl : Nat → W) (reg : Reg → W) (mem : W → W) (fs a : W)
    (hp : a ∉ pushCells (reg .rsp)) (hs : a ≠ fs) : savedMem lbl reg mem fs a = mem a := by
  simp [pushCells] at hp
  obtain ⟨h1, h2, h3, h4, h5, h6, h7⟩ := hp
  simp [savedMem, setM_apply, *]

theorem sub_lit_inj (a x y : W) : (a - x = a - y) = (x = y) := by
  apply propext; constructor <;> intro h <;> bv_omega
theorem add_lit_inj (a x y : W) : (a + x = a + y) = (x = y) := by
  apply propext; constructor <;> intro h <;> bv_omega
theorem sub_add_lit (a : W) (x y : Nat) (h : y ≤ x) (_hx : x < 2 ^ 64) :
    a - BitVec.ofNat 64 x + BitVec.ofNat 64 y = a - BitVec.ofNat 64 (x - y) := by
  bv_omega

/-- `swap_saves_frame`: after `swap` the outgoing context's slot points at a frame holding
    exactly its callee-saved registers, its stack pointer and the resume address `lbl 0`
    (provided its `ctx_stack_pointer` field is not inside the seven cells being pushed). -/
theorem swap_saves_frame' (lbl : Nat → W) (fs tslot : W) (m : Machine)
    (hclear : fs ∉ pushCells (m.reg .rsp)) :
    (swap lbl fs tslot m).mem fs = m.reg .rsp - 56 ∧
    FrameAt (swap lbl fs tslot m).mem (m.reg .rsp - 56) (savedOf m.reg (lbl 0)) := by
  simp [pushCells] at hclear
  obtain ⟨h1, h2, h3, h4, h5, h6, h7⟩ := hclear
  have e1 : m.reg .rsp - 56#64 + 8#64 = m.reg .rsp - 48#64 := by bv_omega
  have e2 : m.reg .rsp - 56#64 + 16#64 = m.reg .rsp - 40#64 := by bv_omega
  have e3 : m.reg .rsp - 56#64 + 24#64 = m.reg .rsp - 32#64 := by bv_omega
  have e4 : m.reg .rsp - 56#64 + 32#64 = m.reg .rsp - 24#64 := by bv_omega
  have e5 : m.reg .rsp - 56#64 + 40#64 = m.reg .rsp - 16#64 := by bv_omega
  have e6 : m.reg .rsp - 56#64 + 48#64 = m.reg .rsp - 8#64 := by bv_omega
  have e7 : m.reg .rsp - 56#64 + 56#64 = m.reg .rsp := by bv_omega
  rw [swap_mem]
  simp [FrameAt, savedOf, savedMem, setM_apply, e1, e2, e3, e4, e5, e6, e7,
    Ne.symm h1, Ne.symm h2, Ne.symm h3, Ne.symm h4, Ne.symm h5, Ne.symm h6, Ne.symm h7]


/-- `swap_restores`: if the incoming context's slot points at a frame for `sv` that does not
    overlap the outgoing context's push area and slot, the machine continues with exactly
    `sv`'s callee-saved registers, stack pointer and instruction pointer. -/
theorem swap_restores' (lbl : Nat → W) (fs tslot : W) (m : Machine) (sv : Saved)
    (hf : FrameAt m.mem (m.mem tslot) sv)
    (hd : ∀ a ∈ frameCells (m.mem tslot), a ∉ pushCells (m.reg .rsp) ∧ a ≠ fs) :
    savedOf (swap lbl fs tslot m).reg sv.rip = sv ∧
    (swap lbl fs tslot m).rip = .atAddr sv.rip := by
  obtain ⟨f15, f14, f13, f12, fbx, fbp, fip, fsp⟩ := hf
  have d := fun a h => hd a h
  simp only [frameCells, List.mem_cons, List.not_mem_nil, or_false, forall_eq_or_imp,
    forall_eq] at d
  obtain ⟨d0, d1, d2, d3, d4, d5, _⟩ := d
  refine ⟨?_, ?_⟩
  · cases sv
    simp only [savedOf, swap_rbx, swap_rbp, swap_r12, swap_r13, swap_r14, swap_r15, swap_rsp,
      savedMem_other _ _ _ _ _ d0.1 d0.2, savedMem_other _ _ _ _ _ d1.1 d1.2,
      savedMem_other _ _ _ _ _ d2.1 d2.2, savedMem_other _ _ _ _ _ d3.1 d3.2,
      savedMem_other _ _ _ _ _ d4.1 d4.2, savedMem_other _ _ _ _ _ d5.1 d5.2]
    simp_all
  · rw [swap_rip, fip]

/-- only the outgoing context's push cells and its slot are written -/
theorem swap_writes_only' (lbl : Nat → W) (fs tslot : W) (m : Machine) (a : W)
    (hp : a ∉ pushCells (m.reg .rsp)) (hs : a ≠ fs) :
    (swap lbl fs tslot m).mem a = m.mem a := by
  rw [swap_mem, savedMem_other _ _ _ _ _ hp hs]

/-! ## The fresh frame of `fiber_context_init` -/

/-- 16-byte aligned top of the fresh frame: `((stack + size) - 8) & ~0x0f` -/
def freshTop (stack size : W) : W := (stack + size - 8) &&& ~~~15#64

local macro "init_simp" : tactic =>
  `(tactic| simp [freshInit, initRun, initOps, initStep, initVal, List.foldl, sub_sub_lit,
      freshTop])

theorem freshInit_sp (stack size fn param : W) (mem : W → W) :
    (freshInit stack size fn param mem).sp = freshTop stack size - 80 := by init_simp

theorem freshInit_writes (stack size fn param : W) (mem : W → W) :
    (freshInit stack size fn param mem).writes =
      let A := freshTop stack size
      [A - 80, A - 72, A - 64, A - 56, A - 48, A - 40, A - 32, A - 24, A - 16] := by init_simp

theorem freshInit_mem (stack size fn param : W) (mem : W → W) :
    (freshInit stack size fn param mem).mem =
      let A := freshTop stack size
      setM (setM (setM (setM (setM (setM (setM (setM (setM mem
        (A - 16) param) (A - 24) 0) (A - 32) fn) (A - 40) 0) (A - 48) 0) (A - 56) 0)
        (A - 64) 0) (A - 72) 0) (A - 80) 0 := by init_simp

theorem freshTop_aligned (stack size : W) : (freshTop stack size).toNat % 16 = 0 := by
  rw [freshTop, andNot15_toNat]; omega

/-- the saved state a fresh context starts from -/
def freshSaved (sp fn : W) : Saved :=
  { rbx := 0, rbp := 0, r12 := 0, r13 := 0, r14 := 0, r15 := 0, rsp := sp + 56, rip := fn }

theorem fresh_frame' (stack size fn param : W) (mem : W → W) :
    let s := freshInit stack size fn param mem
    FrameAt s.mem s.sp (freshSaved s.sp fn) ∧ s.mem (s.sp + 56) = 0 ∧ s.mem (s.sp + 64) = param ∧
    s.sp.toNat % 16 = 0 ∧ (s.sp + 56).toNat % 16 = 8 := by
  have hA := freshTop_aligned stack size
  simp only [freshInit_sp, freshInit_mem]
  generalize freshTop stack size = A at *
  have e1 : A - 80#64 + 8#64 = A - 72#64 := by bv_omega
  have e2 : A - 80#64 + 16#64 = A - 64#64 := by bv_omega
  have e3 : A - 80#64 + 24#64 = A - 56#64 := by bv_omega
  have e4 : A - 80#64 + 32#64 = A - 48#64 := by bv_omega
  have e5 : A - 80#64 + 40#64 = A - 40#64 := by bv_omega
  have e6 : A - 80#64 + 48#64 = A - 32#64 := by bv_omega
  have e7 : A - 80#64 + 56#64 = A - 24#64 := by bv_omega
  have e8 : A - 80#64 + 64#64 = A - 16#64 := by bv_omega
  refine ⟨?_, ?_, ?_, ?_, ?_⟩
  · simp [FrameAt, freshSaved, setM_apply, e1, e2, e3, e4, e5, e6, e7]
  · simp [setM_apply, e7]
  · simp [setM_apply, e8]
  · bv_omega
  · bv_omega


/-- smallest stack size (bytes) for which the fresh frame fits for EVERY stack base:
    9 stored cells + the filler cell + up to 15 bytes lost to alignment + the `- 1` slot
    = 72 + 8 + 15 + 8. -/
def minBytes : Nat := 103
/-- the same for a 16-byte aligned base (what malloc / mmap return) -/
def minBytesAligned : Nat := 88

private theorem freshTop_toNat (stack size : W) (hwrap : stack.toNat + size.toNat ≤ 2 ^ 64)
    (h8 : 8 ≤ size.toNat) :
    (freshTop stack size).toNat =
      (stack.toNat + size.toNat - 8) - (stack.toNat + size.toNat - 8) % 16 := by
  have hT : (stack + size - 8).toNat = stack.toNat + size.toNat - 8 := by bv_omega
  rw [freshTop, andNot15_toNat, hT]

theorem fresh_in_bounds' (stack size fn param : W) (mem : W → W)
    (hwrap : stack.toNat + size.toNat ≤ 2 ^ 64) (hmin : minBytes ≤ size.toNat) :
    ∀ a ∈ (freshInit stack size fn param mem).writes,
      stack.toNat ≤ a.toNat ∧ a.toNat + 8 ≤ stack.toNat + size.toNat := by
  unfold minBytes at hmin
  have hA := freshTop_toNat stack size hwrap (by omega)
  rw [freshInit_writes]
  generalize freshTop stack size = A at *
  intro a ha
  simp at ha
  rcases ha with rfl | rfl | rfl | rfl | rfl | rfl | rfl | rfl | rfl <;> bv_omega

theorem fresh_in_bounds_aligned' (stack size fn param : W) (mem : W → W)
    (hwrap : stack.toNat + size.toNat ≤ 2 ^ 64) (hal : stack.toNat % 16 = 0)
    (hmin : minBytesAligned ≤ size.toNat) :
    ∀ a ∈ (freshInit stack size fn param mem).writes,
      stack.toNat ≤ a.toNat ∧ a.toNat + 8 ≤ stack.toNat + size.toNat := by
  unfold minBytesAligned at hmin
  have hA := freshTop_toNat stack size hwrap (by omega)
  rw [freshInit_writes]
  generalize freshTop stack size = A at *
  intro a ha
  simp at ha
  rcases ha with rfl | rfl | rfl | rfl | rfl | rfl | rfl | rfl | rfl <;> bv_omega


/-! ## Any number of contexts on any number of kernel threads, arbitrary switch sequences -/

/-- where each context's `ctx_stack_pointer` field lives and which cells belong to it
    (its stack and that field).  `owns` is an arbitrary predicate: any sizes, any placement. -/
structure Layout where
  slot : Nat → W
  owns : Nat → W → Prop

/-- contexts own their slot; no cell belongs to two contexts -/
structure Layout.Ok (L : Layout) : Prop where
  slot_owned : ∀ c, L.owns c (L.slot c)
  disjoint : ∀ c d a, L.owns c a → L.owns d a → c = d

/-- ghost snapshot taken when a context is switched out (or created) -/
structure Snap where
  /-- callee-saved registers, stack pointer, resume address -/
  regs : Saved
  /-- all of memory at that instant (compared on the context's own cells) -/
  mem : W → W
  /-- `some param` for a context that has not run yet -/
  arg : Option W

/-- kernel threads `t : Nat` with their own register files, one shared memory,
    contexts `c : Nat`; `saved` is ghost state -/
structure World where
  reg : Nat → Reg → W
  rip : Nat → Rip
  mem : W → W
  running : Nat → Nat
  saved : Nat → Option Snap

inductive Step
  /-- kernel thread `t` calls `fiber_context_swap(running t, to)` -/
  | swap (t to : Nat)
  /-- the fiber running on `t` computes: arbitrary new registers / pc, arbitrary stores
      to its own cells -/
  | compute (t : Nat) (reg : Reg → W) (rip : Rip) (writes : List (W × W))
  /-- `fiber_context_init(c, size, fn, param)` with the stack allocated at `stack` -/
  | create (c : Nat) (stack size fn param : W)
  /-- `fiber_context_destroy(c)` -/
  | destroy (c : Nat)

def applyWrites (mem : W → W) : List (W × W) → (W → W)
  | [] => mem
  | (a, v) :: ws => applyWrites (setM mem a v) ws

def machineOf (w : World) (t : Nat) : Machine := { reg := w.reg t, mem := w.mem, rip := w.rip t }

def next (L : Layout) (lbl : Nat → W) (w : World) : Step → World
  | .swap t to =>
      let frm := w.running t
      let m' := swap lbl (L.slot frm) (L.slot to) (machineOf w t)
      { reg := upd w.reg t m'.reg, rip := upd w.rip t m'.rip, mem := m'.mem,
        running := upd w.running t to,
        saved := upd (upd w.saved to none) frm
          (some { regs := savedOf (w.reg t) (lbl 0), mem := m'.mem, arg := none }) }
  | .compute t reg rip ws =>
      { w with reg := upd w.reg t reg, rip := upd w.rip t rip, mem := applyWrites w.mem ws }
  | .create c stack size fn param =>
      let s := freshInit stack size fn param w.mem
      let mem' := setM s.mem (L.slot c) s.sp
      { w with mem := mem',
               saved := upd w.saved c
                 (some { regs := freshSaved s.sp fn, mem := mem', arg := some param }) }
  | .destroy c => { w with saved := upd w.saved c none }

/-- what the CALLER must guarantee (client obligations; C01 is about the runtime meeting
    them): switch only to a suspended context, with room for the 56-byte frame on the own
    stack; compute only on the own cells; initialise only an unused context on cells that
    belong to it; destroy only a suspended context. -/
def Guard (L : Layout) (w : World) : Step → Prop
  | .swap t to =>
      (∃ sn, w.saved to = some sn) ∧
      ∀ a ∈ pushCells (w.reg t .rsp), L.owns (w.running t) a ∧ a ≠ L.slot (w.running t)
  | .compute t _ _ ws => ∀ aw ∈ ws, L.owns (w.running t) aw.1
  | .create c stack size fn param =>
      w.saved c = none ∧ (∀ t, w.running t ≠ c) ∧
      ∀ a ∈ (freshInit stack size fn param w.mem).writes, L.owns c a ∧ a ≠ L.slot c
  | .destroy c => ∃ sn, w.saved c = some sn

def runSteps (L : Layout) (lbl : Nat → W) (w : World) : List Step → World
  | [] => w
  | e :: es => runSteps L lbl (next L lbl w e) es

def Valid (L : Layout) (lbl : Nat → W) (w : World) : List Step → Prop
  | [] => True
  | e :: es => Guard L w e ∧ Valid L lbl (next L lbl w e) es

/-- a snapshot is a well-formed suspended context `c` -/
structure SnapOk (L : Layout) (c : Nat) (sn : Snap) : Prop where
  frame : FrameAt sn.mem (sn.mem (L.slot c)) sn.regs
  cells : ∀ a ∈ frameCells (sn.mem (L.slot c)), L.owns c a
  arg : ∀ p, sn.arg = some p →
    L.owns c (sn.mem (L.slot c) + 64) ∧ sn.mem (sn.mem (L.slot c) + 64) = p

structure WInv (L : Layout) (w : World) : Prop where
  inj : ∀ t t', w.running t = w.running t' → t = t'
  susp : ∀ c sn, w.saved c = some sn → ∀ t, w.running t ≠ c
  ok : ∀ c sn, w.saved c = some sn → SnapOk L c sn
  agree : ∀ c sn, w.saved c = some sn → ∀ a, L.owns c a → w.mem a = sn.mem a

theorem applyWrites_other (mem : W → W) (ws : List (W × W)) (a : W)
    (h : ∀ aw ∈ ws, aw.1 ≠ a) : applyWrites mem ws a = mem a := by
  induction ws generalizing mem with
  | nil => rfl
  | cons x xs ih =>
    obtain ⟨b, v⟩ := x
    simp only [applyWrites]
    rw [ih]
    · have : b ≠ a := h (b, v) (by simp)
      simp [setM_apply, Ne.symm this]
    · intro aw haw; exact h aw (by simp [haw])

end LibfiberVerif.Ctx
