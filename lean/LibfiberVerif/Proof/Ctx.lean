/-
  Proof/Ctx.lean — lemmas about the GENERATED x86-64 context switch (property C19).

  `swap` = the instruction list of `Gen.CtxAsm.swapInstrs` run on the machine model of
  `Model/Ctx.lean`, entered with the operand bindings `Gen.CtxAsm.swapInputs`.
  Everything here is ∀ register contents, ∀ memory, modular 64-bit address arithmetic.
-/
import LibfiberVerif.Core.Sys
import LibfiberVerif.Gen.CtxAsm

namespace LibfiberVerif.Ctx
open LibfiberVerif.Gen.CtxAsm

/-- `fiber_context_swap(from, to)` as extracted from the source -/
def swap (lbl : Nat → W) (fromSlot toSlot : W) (m : Machine) : Machine :=
  swapWith swapInstrs swapInputs lbl fromSlot toSlot m

/-- `fiber_context_init`'s stack-pointer statements as extracted from the source -/
def freshInit (stack size fn param : W) (mem : W → W) : InitSt :=
  initRun initOps stack size fn param mem

/-! ## 64-bit helper lemmas -/

theorem setR_apply (f : Reg → W) (r x : Reg) (v : W) :
    setR f r v x = if x = r then v else f x := rfl

theorem setM_apply (m : W → W) (a v x : W) : setM m a v x = if x = a then v else m x := rfl

theorem sub_sub_lit (a : W) (x y : Nat) :
    a - BitVec.ofNat 64 x - BitVec.ofNat 64 y = a - BitVec.ofNat 64 (x + y) := by
  bv_omega

private theorem maskBits : ∀ i, i < 64 → (~~~15#64 : W).getLsbD i = decide (4 ≤ i) := by decide

theorem andNot15 (x : W) : x &&& ~~~15#64 = (x >>> 4) <<< 4 := by
  apply BitVec.eq_of_getLsbD_eq
  intro i hi
  rw [BitVec.getLsbD_and, maskBits i hi]
  simp only [BitVec.getLsbD_shiftLeft, BitVec.getLsbD_ushiftRight]
  by_cases h : i < 4
  · simp [h]
  · have : 4 + (i - 4) = i := by omega
    simp [h, this, hi]
    intro; omega

/-- `x & ~0x0f` rounds down to a multiple of 16 -/
theorem andNot15_toNat (x : W) : (x &&& ~~~15#64).toNat = x.toNat - x.toNat % 16 := by
  rw [andNot15]
  simp [BitVec.toNat_shiftLeft, BitVec.toNat_ushiftRight, Nat.shiftLeft_eq,
    Nat.shiftRight_eq_div_pow]
  omega

/-! ## What one `swap` does, in closed form -/

/-- the callee-saved part of a context: what the ABI obliges a function to preserve,
    plus the stack pointer and the address execution continues at -/
structure Saved where
  rbx : W
  rbp : W
  r12 : W
  r13 : W
  r14 : W
  r15 : W
  rsp : W
  rip : W

/-- the callee-saved view of a running machine that is about to resume at `rip` -/
def savedOf (reg : Reg → W) (rip : W) : Saved :=
  { rbx := reg .rbx, rbp := reg .rbp, r12 := reg .r12, r13 := reg .r13, r14 := reg .r14,
    r15 := reg .r15, rsp := reg .rsp, rip := rip }

/-- memory holds a suspended frame for `sv` at stack-pointer value `sp` -/
def FrameAt (mem : W → W) (sp : W) (sv : Saved) : Prop :=
  mem sp = sv.r15 ∧ mem (sp + 8) = sv.r14 ∧ mem (sp + 16) = sv.r13 ∧ mem (sp + 24) = sv.r12 ∧
  mem (sp + 32) = sv.rbx ∧ mem (sp + 40) = sv.rbp ∧ mem (sp + 48) = sv.rip ∧ sp + 56 = sv.rsp

/-- the cells a suspended frame at `sp` occupies -/
def frameCells (sp : W) : List W := [sp, sp + 8, sp + 16, sp + 24, sp + 32, sp + 40, sp + 48]

/-- the cells below `rsp` that the save half of a swap pushes to -/
def pushCells (rsp : W) : List W :=
  [rsp - 8, rsp - 16, rsp - 24, rsp - 32, rsp - 40, rsp - 48, rsp - 56]

theorem frameCells_of_pushed (rsp : W) : frameCells (rsp - 56) = (pushCells rsp).reverse := by
  simp only [frameCells, pushCells, List.reverse_cons, List.reverse_nil, List.nil_append,
    List.cons_append, List.cons.injEq, and_true]
  refine ⟨?_, ?_, ?_, ?_, ?_, ?_, ?_⟩ <;> bv_omega

/-- memory after the save half: seven pushes below `rsp`, then the slot -/
def savedMem (lbl : Nat → W) (reg : Reg → W) (mem : W → W) (fromSlot : W) : W → W :=
  let sp := reg .rsp
  setM (setM (setM (setM (setM (setM (setM (setM mem
    (sp - 8) (lbl 0)) (sp - 16) (reg .rbp)) (sp - 24) (reg .rbx)) (sp - 32) (reg .r12))
    (sp - 40) (reg .r13)) (sp - 48) (reg .r14)) (sp - 56) (reg .r15)) fromSlot (sp - 56)

local macro "swap_simp" : tactic =>
  `(tactic| simp [swap, swapWith, swapInstrs, swapInputs, enter, run, exec, evalSp, slotOf,
      List.foldl, setR_apply, sub_sub_lit, BitVec.add_assoc, savedMem])

theorem swap_mem (lbl : Nat → W) (fs tslot : W) (m : Machine) :
    (swap lbl fs tslot m).mem = savedMem lbl m.reg m.mem fs := by swap_simp

theorem swap_rip (lbl : Nat → W) (fs tslot : W) (m : Machine) :
    (swap lbl fs tslot m).rip = .atAddr (m.mem (m.mem tslot + 48)) := by swap_simp

theorem swap_rsp (lbl : Nat → W) (fs tslot : W) (m : Machine) :
    (swap lbl fs tslot m).reg .rsp = m.mem tslot + 56 := by swap_simp

theorem swap_r15 (lbl : Nat → W) (fs tslot : W) (m : Machine) :
    (swap lbl fs tslot m).reg .r15 = savedMem lbl m.reg m.mem fs (m.mem tslot) := by swap_simp
theorem swap_r14 (lbl : Nat → W) (fs tslot : W) (m : Machine) :
    (swap lbl fs tslot m).reg .r14 = savedMem lbl m.reg m.mem fs (m.mem tslot + 8) := by swap_simp
theorem swap_r13 (lbl : Nat → W) (fs tslot : W) (m : Machine) :
    (swap lbl fs tslot m).reg .r13 = savedMem lbl m.reg m.mem fs (m.mem tslot + 16) := by swap_simp
theorem swap_r12 (lbl : Nat → W) (fs tslot : W) (m : Machine) :
    (swap lbl fs tslot m).reg .r12 = savedMem lbl m.reg m.mem fs (m.mem tslot + 24) := by swap_simp
theorem swap_rbx (lbl : Nat → W) (fs tslot : W) (m : Machine) :
    (swap lbl fs tslot m).reg .rbx = savedMem lbl m.reg m.mem fs (m.mem tslot + 32) := by swap_simp
theorem swap_rbp (lbl : Nat → W) (fs tslot : W) (m : Machine) :
    (swap lbl fs tslot m).reg .rbp = savedMem lbl m.reg m.mem fs (m.mem tslot + 40) := by swap_simp
theorem swap_rdi (lbl : Nat → W) (fs tslot : W) (m : Machine) :
    (swap lbl fs tslot m).reg .rdi = savedMem lbl m.reg m.mem fs (m.mem tslot + 64) := by swap_simp

/-- cells outside the push area and the slot are untouched -/
theorem savedMem_other (lbl : Nat → W) (reg : Reg → W) (mem : W → W) (fs a : W)
    (hp : a ∉ pushCells (reg .rsp)) (hs : a ≠ fs) : savedMem lbl reg mem fs a = mem a := by
  simp [pushCells] at hp
  obtain ⟨h1, h2, h3, h4, h5, h6, h7⟩ := hp
  simp [savedMem, setM_apply, *]

theorem sub_lit_inj (a x y : W) : (a - x = a - y) = (x = y) := by
  apply propext; constructor <;> intro h <;> bv_omega
theorem add_lit_inj (a x y : W) : (a + x = a + y) = (x = y) := by
  apply propext; constructor <;> intro h <;> bv_omega
theorem sub_add_lit (a : W) (x y : Nat) (h : y ≤ x) (_hx : x < 2 ^ 64) :
    a - BitVec.ofNat 64 x + BitVec.ofNat 64 y = a - BitVec.ofNat 64 (x - y) := by
  bv_omega

/-- `swap_saves_frame`: after `swap` the outgoing context's slot points at a frame holding
    exactly its callee-saved registers, its stack pointer and the resume address `lbl 0`
    (provided its `ctx_stack_pointer` field is not inside the seven cells being pushed). -/
theorem swap_saves_frame' (lbl : Nat → W) (fs tslot : W) (m : Machine)
    (hclear : fs ∉ pushCells (m.reg .rsp)) :
    (swap lbl fs tslot m).mem fs = m.reg .rsp - 56 ∧
    FrameAt (swap lbl fs tslot m).mem (m.reg .rsp - 56) (savedOf m.reg (lbl 0)) := by
  simp [pushCells] at hclear
  obtain ⟨h1, h2, h3, h4, h5, h6, h7⟩ := hclear
  have e1 : m.reg .rsp - 56#64 + 8#64 = m.reg .rsp - 48#64 := by bv_omega
  have e2 : m.reg .rsp - 56#64 + 16#64 = m.reg .rsp - 40#64 := by bv_omega
  have e3 : m.reg .rsp - 56#64 + 24#64 = m.reg .rsp - 32#64 := by bv_omega
  have e4 : m.reg .rsp - 56#64 + 32#64 = m.reg .rsp - 24#64 := by bv_omega
  have e5 : m.reg .rsp - 56#64 + 40#64 = m.reg .rsp - 16#64 := by bv_omega
  have e6 : m.reg .rsp - 56#64 + 48#64 = m.reg .rsp - 8#64 := by bv_omega
  have e7 : m.reg .rsp - 56#64 + 56#64 = m.reg .rsp := by bv_omega
  rw [swap_mem]
  simp [FrameAt, savedOf, savedMem, setM_apply, e1, e2, e3, e4, e5, e6, e7,
    Ne.symm h1, Ne.symm h2, Ne.symm h3, Ne.symm h4, Ne.symm h5, Ne.symm h6, Ne.symm h7]


/-- `swap_restores`: if the incoming context's slot points at a frame for `sv` that does not
    overlap the outgoing context's push area and slot, the machine continues with exactly
    `sv`'s callee-saved registers, stack pointer and instruction pointer. -/
theorem swap_restores' (lbl : Nat → W) (fs tslot : W) (m : Machine) (sv : Saved)
    (hf : FrameAt m.mem (m.mem tslot) sv)
    (hd : ∀ a ∈ frameCells (m.mem tslot), a ∉ pushCells (m.reg .rsp) ∧ a ≠ fs) :
    savedOf (swap lbl fs tslot m).reg sv.rip = sv ∧
    (swap lbl fs tslot m).rip = .atAddr sv.rip := by
  obtain ⟨f15, f14, f13, f12, fbx, fbp, fip, fsp⟩ := hf
  have d := fun a h => hd a h
  simp only [frameCells, List.mem_cons, List.not_mem_nil, or_false, forall_eq_or_imp,
    forall_eq] at d
  obtain ⟨d0, d1, d2, d3, d4, d5, _⟩ := d
  refine ⟨?_, ?_⟩
  · cases sv
    simp only [savedOf, swap_rbx, swap_rbp, swap_r12, swap_r13, swap_r14, swap_r15, swap_rsp,
      savedMem_other _ _ _ _ _ d0.1 d0.2, savedMem_other _ _ _ _ _ d1.1 d1.2,
      savedMem_other _ _ _ _ _ d2.1 d2.2, savedMem_other _ _ _ _ _ d3.1 d3.2,
      savedMem_other _ _ _ _ _ d4.1 d4.2, savedMem_other _ _ _ _ _ d5.1 d5.2]
    simp_all
  · rw [swap_rip, fip]

/-- only the outgoing context's push cells and its slot are written -/
theorem swap_writes_only' (lbl : Nat → W) (fs tslot : W) (m : Machine) (a : W)
    (hp : a ∉ pushCells (m.reg .rsp)) (hs : a ≠ fs) :
    (swap lbl fs tslot m).mem a = m.mem a := by
  rw [swap_mem, savedMem_other _ _ _ _ _ hp hs]

/-! ## The fresh frame of `fiber_context_init` -/

/-- 16-byte aligned top of the fresh frame: `((stack + size) - 8) & ~0x0f` -/
def freshTop (stack size : W) : W := (stack + size - 8) &&& ~~~15#64

local macro "init_simp" : tactic =>
  `(tactic| simp [freshInit, initRun, initOps, initStep, initVal, List.foldl, sub_sub_lit,
      freshTop])

theorem freshInit_sp (stack size fn param : W) (mem : W → W) :
    (freshInit stack size fn param mem).sp = freshTop stack size - 80 := by init_simp

theorem freshInit_writes (stack size fn param : W) (mem : W → W) :
    (freshInit stack size fn param mem).writes =
      let A := freshTop stack size
      [A - 80, A - 72, A - 64, A - 56, A - 48, A - 40, A - 32, A - 24, A - 16] := by init_simp

theorem freshInit_mem (stack size fn param : W) (mem : W → W) :
    (freshInit stack size fn param mem).mem =
      let A := freshTop stack size
      setM (setM (setM (setM (setM (setM (setM (setM (setM mem
        (A - 16) param) (A - 24) 0) (A - 32) fn) (A - 40) 0) (A - 48) 0) (A - 56) 0)
        (A - 64) 0) (A - 72) 0) (A - 80) 0 := by init_simp

theorem freshTop_aligned (stack size : W) : (freshTop stack size).toNat % 16 = 0 := by
  rw [freshTop, andNot15_toNat]; omega

/-- the saved state a fresh context starts from -/
def freshSaved (sp fn : W) : Saved :=
  { rbx := 0, rbp := 0, r12 := 0, r13 := 0, r14 := 0, r15 := 0, rsp := sp + 56, rip := fn }

theorem fresh_frame' (stack size fn param : W) (mem : W → W) :
    let s := freshInit stack size fn param mem
    FrameAt s.mem s.sp (freshSaved s.sp fn) ∧ s.mem (s.sp + 56) = 0 ∧ s.mem (s.sp + 64) = param ∧
    s.sp.toNat % 16 = 0 ∧ (s.sp + 56).toNat % 16 = 8 := by
  have hA := freshTop_aligned stack size
  simp only [freshInit_sp, freshInit_mem]
  generalize freshTop stack size = A at *
  have e1 : A - 80#64 + 8#64 = A - 72#64 := by bv_omega
  have e2 : A - 80#64 + 16#64 = A - 64#64 := by bv_omega
  have e3 : A - 80#64 + 24#64 = A - 56#64 := by bv_omega
  have e4 : A - 80#64 + 32#64 = A - 48#64 := by bv_omega
  have e5 : A - 80#64 + 40#64 = A - 40#64 := by bv_omega
  have e6 : A - 80#64 + 48#64 = A - 32#64 := by bv_omega
  have e7 : A - 80#64 + 56#64 = A - 24#64 := by bv_omega
  have e8 : A - 80#64 + 64#64 = A - 16#64 := by bv_omega
  refine ⟨?_, ?_, ?_, ?_, ?_⟩
  · simp [FrameAt, freshSaved, setM_apply, e1, e2, e3, e4, e5, e6, e7]
  · simp [setM_apply, e7]
  · simp [setM_apply, e8]
  · bv_omega
  · bv_omega


/-- smallest stack size (bytes) for which the fresh frame fits for EVERY stack base:
    9 stored cells + the filler cell + up to 15 bytes lost to alignment + the `- 1` slot
    = 72 + 8 + 15 + 8. -/
def minBytes : Nat := 103
/-- the same for a 16-byte aligned base (what malloc / mmap return) -/
def minBytesAligned : Nat := 88

private theorem freshTop_toNat (stack size : W) (hwrap : stack.toNat + size.toNat ≤ 2 ^ 64)
    (h8 : 8 ≤ size.toNat) :
    (freshTop stack size).toNat =
      (stack.toNat + size.toNat - 8) - (stack.toNat + size.toNat - 8) % 16 := by
  have hT : (stack + size - 8).toNat = stack.toNat + size.toNat - 8 := by bv_omega
  rw [freshTop, andNot15_toNat, hT]

theorem fresh_in_bounds' (stack size fn param : W) (mem : W → W)
    (hwrap : stack.toNat + size.toNat ≤ 2 ^ 64) (hmin : minBytes ≤ size.toNat) :
    ∀ a ∈ (freshInit stack size fn param mem).writes,
      stack.toNat ≤ a.toNat ∧ a.toNat + 8 ≤ stack.toNat + size.toNat := by
  unfold minBytes at hmin
  have hA := freshTop_toNat stack size hwrap (by omega)
  rw [freshInit_writes]
  generalize freshTop stack size = A at *
  intro a ha
  simp at ha
  rcases ha with rfl | rfl | rfl | rfl | rfl | rfl | rfl | rfl | rfl <;> bv_omega

theorem fresh_in_bounds_aligned' (stack size fn param : W) (mem : W → W)
    (hwrap : stack.toNat + size.toNat ≤ 2 ^ 64) (hal : stack.toNat % 16 = 0)
    (hmin : minBytesAligned ≤ size.toNat) :
    ∀ a ∈ (freshInit stack size fn param mem).writes,
      stack.toNat ≤ a.toNat ∧ a.toNat + 8 ≤ stack.toNat + size.toNat := by
  unfold minBytesAligned at hmin
  have hA := freshTop_toNat stack size hwrap (by omega)
  rw [freshInit_writes]
  generalize freshTop stack size = A at *
  intro a ha
  simp at ha
  rcases ha with rfl | rfl | rfl | rfl | rfl | rfl | rfl | rfl | rfl <;> bv_omega


theorem freshInit_mem_other (stack size fn param : W) (mem : W → W) (a : W)
    (h : a ∉ (freshInit stack size fn param mem).writes) :
    (freshInit stack size fn param mem).mem a = mem a := by
  rw [freshInit_writes] at h
  rw [freshInit_mem]
  simp at h
  simp [setM_apply, h]

/-- every cell of the fresh frame (7 register cells, dummy return address, param) is one of
    the cells `fiber_context_init` stored to -/
theorem fresh_cells_written (stack size fn param : W) (mem : W → W) :
    let s := freshInit stack size fn param mem
    ∀ a ∈ frameCells s.sp ++ [s.sp + 56, s.sp + 64], a ∈ s.writes := by
  simp only [freshInit_sp, freshInit_writes, frameCells]
  generalize freshTop stack size = A
  have e1 : A - 80#64 + 8#64 = A - 72#64 := by bv_omega
  have e2 : A - 80#64 + 16#64 = A - 64#64 := by bv_omega
  have e3 : A - 80#64 + 24#64 = A - 56#64 := by bv_omega
  have e4 : A - 80#64 + 32#64 = A - 48#64 := by bv_omega
  have e5 : A - 80#64 + 40#64 = A - 40#64 := by bv_omega
  have e6 : A - 80#64 + 48#64 = A - 32#64 := by bv_omega
  have e7 : A - 80#64 + 56#64 = A - 24#64 := by bv_omega
  have e8 : A - 80#64 + 64#64 = A - 16#64 := by bv_omega
  intro a ha
  simp [e1, e2, e3, e4, e5, e6, e7, e8] at ha ⊢
  omega

theorem FrameAt_congr (mem mem' : W → W) (sp : W) (sv : Saved)
    (h : ∀ a ∈ frameCells sp, mem a = mem' a) (hf : FrameAt mem' sp sv) : FrameAt mem sp sv := by
  simp only [frameCells, List.mem_cons, List.not_mem_nil, or_false, forall_eq_or_imp,
    forall_eq] at h
  obtain ⟨h0, h1, h2, h3, h4, h5, h6⟩ := h
  unfold FrameAt at *
  rw [h0, h1, h2, h3, h4, h5, h6]; exact hf

/-! ## Any number of contexts on any number of kernel threads, arbitrary switch sequences -/

/-- which ids are kernel threads / contexts, where each context's `ctx_stack_pointer` field
    lives and which cells belong to it (its stack and that field).  `owns`, `ctx`, `thr` are
    arbitrary predicates: any number of contexts and threads, any sizes, any placement. -/
structure Layout where
  thr : Nat → Prop
  ctx : Nat → Prop
  slot : Nat → W
  owns : Nat → W → Prop

/-- contexts own their slot; no cell belongs to two contexts -/
structure Layout.Ok (L : Layout) : Prop where
  slot_owned : ∀ c, L.ctx c → L.owns c (L.slot c)
  disjoint : ∀ c d a, L.ctx c → L.ctx d → L.owns c a → L.owns d a → c = d

/-- ghost snapshot taken when a context is switched out (or created) -/
structure Snap where
  /-- callee-saved registers, stack pointer, resume address -/
  regs : Saved
  /-- all of memory at that instant (compared on the context's own cells) -/
  mem : W → W
  /-- `some param` for a context that has not run yet -/
  arg : Option W

/-- kernel threads `t` with their own register files, one shared memory, contexts `c`;
    `saved` is ghost state -/
structure World where
  reg : Nat → Reg → W
  rip : Nat → Rip
  mem : W → W
  running : Nat → Nat
  saved : Nat → Option Snap

inductive Step
  /-- kernel thread `t` calls `fiber_context_swap(running t, to)` -/
  | swap (t to : Nat)
  /-- the fiber running on `t` computes: arbitrary new registers / pc, arbitrary stores
      to its own cells -/
  | compute (t : Nat) (reg : Reg → W) (rip : Rip) (writes : List (W × W))
  /-- `fiber_context_init(c, size, fn, param)` with the stack allocated at `stack` -/
  | create (c : Nat) (stack size fn param : W)
  /-- `fiber_context_destroy(c)` -/
  | destroy (c : Nat)

def applyWrites (mem : W → W) : List (W × W) → (W → W)
  | [] => mem
  | (a, v) :: ws => applyWrites (setM mem a v) ws

def machineOf (w : World) (t : Nat) : Machine := { reg := w.reg t, mem := w.mem, rip := w.rip t }

def next (L : Layout) (lbl : Nat → W) (w : World) : Step → World
  | .swap t to =>
      let frm := w.running t
      let m' := swap lbl (L.slot frm) (L.slot to) (machineOf w t)
      { reg := upd w.reg t m'.reg, rip := upd w.rip t m'.rip, mem := m'.mem,
        running := upd w.running t to,
        saved := upd (upd w.saved to none) frm
          (some { regs := savedOf (w.reg t) (lbl 0), mem := m'.mem, arg := none }) }
  | .compute t reg rip ws =>
      { w with reg := upd w.reg t reg, rip := upd w.rip t rip, mem := applyWrites w.mem ws }
  | .create c stack size fn param =>
      let s := freshInit stack size fn param w.mem
      let mem' := setM s.mem (L.slot c) s.sp
      { w with mem := mem',
               saved := upd w.saved c
                 (some { regs := freshSaved s.sp fn, mem := mem', arg := some param }) }
  | .destroy c => { w with saved := upd w.saved c none }

/-- what the CALLER must guarantee (client obligations; C01 is about the runtime meeting
    them): switch only to a suspended context, with room for the 56-byte frame on the own
    stack; compute only on the own cells; initialise only an unused context on cells that
    belong to it; destroy only a suspended context. -/
def Guard (L : Layout) (w : World) : Step → Prop
  | .swap t to =>
      L.thr t ∧ (∃ sn, w.saved to = some sn) ∧
      ∀ a ∈ pushCells (w.reg t .rsp), L.owns (w.running t) a ∧ a ≠ L.slot (w.running t)
  | .compute t _ _ ws => L.thr t ∧ ∀ aw ∈ ws, L.owns (w.running t) aw.1
  | .create c stack size fn param =>
      L.ctx c ∧ w.saved c = none ∧ (∀ t, L.thr t → w.running t ≠ c) ∧
      ∀ a ∈ (freshInit stack size fn param w.mem).writes, L.owns c a ∧ a ≠ L.slot c
  | .destroy c => ∃ sn, w.saved c = some sn

def runSteps (L : Layout) (lbl : Nat → W) (w : World) : List Step → World
  | [] => w
  | e :: es => runSteps L lbl (next L lbl w e) es

def Valid (L : Layout) (lbl : Nat → W) (w : World) : List Step → Prop
  | [] => True
  | e :: es => Guard L w e ∧ Valid L lbl (next L lbl w e) es

/-- a snapshot is a well-formed suspended context `c` -/
structure SnapOk (L : Layout) (c : Nat) (sn : Snap) : Prop where
  frame : FrameAt sn.mem (sn.mem (L.slot c)) sn.regs
  cells : ∀ a ∈ frameCells (sn.mem (L.slot c)), L.owns c a
  arg : ∀ p, sn.arg = some p →
    L.owns c (sn.mem (L.slot c) + 64) ∧ sn.mem (sn.mem (L.slot c) + 64) = p

structure WInv (L : Layout) (w : World) : Prop where
  inj : ∀ t t', L.thr t → L.thr t' → w.running t = w.running t' → t = t'
  rctx : ∀ t, L.thr t → L.ctx (w.running t)
  sctx : ∀ c sn, w.saved c = some sn → L.ctx c
  susp : ∀ c sn, w.saved c = some sn → ∀ t, L.thr t → w.running t ≠ c
  ok : ∀ c sn, w.saved c = some sn → SnapOk L c sn
  agree : ∀ c sn, w.saved c = some sn → ∀ a, L.owns c a → w.mem a = sn.mem a

theorem applyWrites_other (mem : W → W) (ws : List (W × W)) (a : W)
    (h : ∀ aw ∈ ws, aw.1 ≠ a) : applyWrites mem ws a = mem a := by
  induction ws generalizing mem with
  | nil => rfl
  | cons x xs ih =>
    obtain ⟨b, v⟩ := x
    simp only [applyWrites]
    rw [ih]
    · have : b ≠ a := h (b, v) (by simp)
      simp [setM_apply, Ne.symm this]
    · intro aw haw; exact h aw (by simp [haw])

theorem inv_compute (L : Layout) (hL : L.Ok) (lbl : Nat → W) (w : World) (hi : WInv L w)
    (t : Nat) (reg : Reg → W) (rip : Rip) (ws : List (W × W))
    (hg : Guard L w (.compute t reg rip ws)) : WInv L (next L lbl w (.compute t reg rip ws)) := by
  obtain ⟨hinj, hrctx, hsctx, hsusp, hok, hag⟩ := hi
  obtain ⟨ht, hg⟩ := hg
  refine ⟨hinj, hrctx, hsctx, hsusp, hok, ?_⟩
  intro c sn hs a ha
  simp only [next]
  rw [applyWrites_other]
  · exact hag c sn hs a ha
  · intro aw haw heq
    have := hL.disjoint _ _ _ (hrctx t ht) (hsctx c sn hs) (hg aw haw) (heq ▸ ha)
    exact hsusp c sn hs t ht this

theorem inv_destroy (L : Layout) (lbl : Nat → W) (w : World) (hi : WInv L w)
    (c : Nat) : WInv L (next L lbl w (.destroy c)) := by
  obtain ⟨hinj, hrctx, hsctx, hsusp, hok, hag⟩ := hi
  refine ⟨hinj, hrctx, ?_, ?_, ?_, ?_⟩ <;> (intro d sn hs; simp only [next, upd] at hs; split at hs)
  all_goals first | (simp at hs; done) | skip
  · exact hsctx d sn hs
  · exact hsusp d sn hs
  · exact hok d sn hs
  · exact hag d sn hs

theorem inv_create (L : Layout) (hL : L.Ok) (lbl : Nat → W) (w : World) (hi : WInv L w)
    (c : Nat) (stack size fn param : W)
    (hg : Guard L w (.create c stack size fn param)) :
    WInv L (next L lbl w (.create c stack size fn param)) := by
  obtain ⟨hinj, hrctx, hsctx, hsusp, hok, hag⟩ := hi
  obtain ⟨hc, hnone, hnr, hown⟩ := hg
  have hfr := fresh_frame' stack size fn param w.mem
  have hcw := fresh_cells_written stack size fn param w.mem
  have hoth := freshInit_mem_other stack size fn param w.mem
  simp only [next]
  generalize freshInit stack size fn param w.mem = s at *
  obtain ⟨hF, _, hP, _, _⟩ := hfr
  -- cells of the new frame are owned by c and differ from its slot
  have hcell : ∀ a ∈ frameCells s.sp ++ [s.sp + 56, s.sp + 64], L.owns c a ∧ a ≠ L.slot c :=
    fun a ha => hown a (hcw a ha)
  have hm' : ∀ a ∈ frameCells s.sp ++ [s.sp + 56, s.sp + 64],
      setM s.mem (L.slot c) s.sp a = s.mem a := fun a ha => by
    simp [setM_apply, (hcell a ha).2]
  refine ⟨hinj, hrctx, ?_, ?_, ?_, ?_⟩
  · intro d sn hs
    by_cases hd : d = c
    · subst hd; exact hc
    · simp only [upd, hd, if_false] at hs; exact hsctx d sn hs
  · intro d sn hs
    by_cases hd : d = c
    · subst hd; exact hnr
    · simp only [upd, hd, if_false] at hs; exact hsusp d sn hs
  · intro d sn hs
    by_cases hd : d = c
    · subst hd
      simp only [upd, if_true, Option.some.injEq] at hs
      subst hs
      refine ⟨?_, ?_, ?_⟩
      · simp only [setM_same]
        simp only [FrameAt, frameCells, List.cons_append, List.nil_append, List.mem_cons,
          List.not_mem_nil, or_false, forall_eq_or_imp, forall_eq] at hF hm' ⊢
        obtain ⟨m0, m1, m2, m3, m4, m5, m6, _, _⟩ := hm'
        rw [m0, m1, m2, m3, m4, m5, m6]
        exact hF
      · simp only [setM_same]
        intro a ha
        exact (hcell a (by simp [ha])).1
      · intro p hp
        simp only [Option.some.injEq] at hp
        subst hp
        simp only [setM_same]
        refine ⟨(hcell _ (by simp)).1, ?_⟩
        rw [hm' _ (by simp)]; exact hP
    · simp only [upd, hd, if_false] at hs; exact hok d sn hs
  · intro d sn hs a ha
    by_cases hd : d = c
    · subst hd
      simp only [upd, if_true, Option.some.injEq] at hs
      subst hs; rfl
    · simp only [upd, hd, if_false] at hs
      have hdc := hsctx d sn hs
      have hne : a ≠ L.slot c :=
        fun h => hd (hL.disjoint _ _ _ hdc hc ha (h ▸ hL.slot_owned c hc))
      have hnw : a ∉ s.writes := fun h => hd (hL.disjoint _ _ _ hdc hc ha (hown a h).1)
      simp only [setM_apply, hne, if_false]
      rw [hoth a hnw]
      exact hag d sn hs a ha

theorem inv_swap (L : Layout) (hL : L.Ok) (lbl : Nat → W) (w : World) (hi : WInv L w)
    (t to : Nat) (hg : Guard L w (.swap t to)) : WInv L (next L lbl w (.swap t to)) := by
  obtain ⟨hinj, hrctx, hsctx, hsusp, hok, hag⟩ := hi
  obtain ⟨ht, ⟨sn0, hs0⟩, hroom⟩ := hg
  have hne : w.running t ≠ to := hsusp to sn0 hs0 t ht
  have hfc : L.ctx (w.running t) := hrctx t ht
  have hclear : L.slot (w.running t) ∉ pushCells ((machineOf w t).reg .rsp) :=
    fun h => (hroom _ h).2 rfl
  -- cells of other contexts are untouched
  have hkeep : ∀ d, L.ctx d → d ≠ w.running t → ∀ a, L.owns d a →
      (swap lbl (L.slot (w.running t)) (L.slot to) (machineOf w t)).mem a = w.mem a := by
    intro d hdc hd a ha
    apply swap_writes_only'
    · intro h; exact hd (hL.disjoint _ _ _ hdc hfc ha (hroom a h).1)
    · intro h; exact hd (hL.disjoint _ _ _ hdc hfc ha (h ▸ hL.slot_owned _ hfc))
  have hsf := swap_saves_frame' lbl (L.slot (w.running t)) (L.slot to) (machineOf w t) hclear
  simp only [next]
  generalize hm' : swap lbl (L.slot (w.running t)) (L.slot to) (machineOf w t) = m' at *
  refine ⟨?_, ?_, ?_, ?_, ?_, ?_⟩
  · intro t1 t2 ht1 ht2 h
    simp only [upd] at h
    by_cases h1 : t1 = t <;> by_cases h2 : t2 = t <;> simp only [h1, h2, if_true, if_false] at h
    · rw [h1, h2]
    · exact absurd h.symm (hsusp to sn0 hs0 t2 ht2)
    · exact absurd h (hsusp to sn0 hs0 t1 ht1)
    · exact hinj _ _ ht1 ht2 h
  · intro t1 ht1
    simp only [upd]
    by_cases h1 : t1 = t
    · simp only [h1, if_true]; exact hsctx to sn0 hs0
    · simp only [h1, if_false]; exact hrctx t1 ht1
  · intro d sn hs
    simp only [upd] at hs
    by_cases hd : d = w.running t
    · rw [hd]; exact hfc
    · simp only [hd, if_false] at hs
      by_cases hd2 : d = to
      · simp [hd2] at hs
      · simp only [hd2, if_false] at hs; exact hsctx d sn hs
  · intro d sn hs t1 ht1
    simp only [upd] at hs ⊢
    by_cases hd : d = w.running t
    · subst hd
      by_cases h1 : t1 = t
      · simp only [h1, if_true]; exact fun h => hne h.symm
      · simp only [h1, if_false]; exact fun h => h1 (hinj _ _ ht1 ht h)
    · simp only [hd, if_false] at hs
      by_cases hd2 : d = to
      · simp [hd2] at hs
      · simp only [hd2, if_false] at hs
        by_cases h1 : t1 = t
        · simp only [h1, if_true]; exact fun h => hd2 h.symm
        · simp only [h1, if_false]; exact hsusp d sn hs t1 ht1
  · intro d sn hs
    simp only [upd] at hs
    by_cases hd : d = w.running t
    · subst hd
      simp only [if_true, Option.some.injEq] at hs
      subst hs
      refine ⟨?_, ?_, ?_⟩
      · simp only [hsf.1]; exact hsf.2
      · simp only [hsf.1]
        intro a ha
        rw [frameCells_of_pushed] at ha
        exact (hroom a (List.mem_reverse.mp ha)).1
      · intro p hp; simp at hp
    · simp only [hd, if_false] at hs
      by_cases hd2 : d = to
      · simp [hd2] at hs
      · simp only [hd2, if_false] at hs; exact hok d sn hs
  · intro d sn hs a ha
    simp only [upd] at hs
    by_cases hd : d = w.running t
    · subst hd
      simp only [if_true, Option.some.injEq] at hs
      subst hs; rfl
    · simp only [hd, if_false] at hs
      by_cases hd2 : d = to
      · simp [hd2] at hs
      · simp only [hd2, if_false] at hs
        show m'.mem a = sn.mem a
        rw [hkeep d (hsctx d sn hs) hd a ha]; exact hag d sn hs a ha

theorem inv_step (L : Layout) (hL : L.Ok) (lbl : Nat → W) (w : World) (hi : WInv L w)
    (e : Step) (hg : Guard L w e) : WInv L (next L lbl w e) := by
  cases e with
  | swap t to => exact inv_swap L hL lbl w hi t to hg
  | compute t reg rip ws => exact inv_compute L hL lbl w hi t reg rip ws hg
  | create c stack size fn param => exact inv_create L hL lbl w hi c stack size fn param hg
  | destroy c => exact inv_destroy L lbl w hi c

theorem inv_run (L : Layout) (hL : L.Ok) (lbl : Nat → W) (w : World) (hi : WInv L w)
    (es : List Step) (hv : Valid L lbl w es) : WInv L (runSteps L lbl w es) := by
  induction es generalizing w with
  | nil => exact hi
  | cons e es ih => exact ih _ (inv_step L hL lbl w hi e hv.1) hv.2

/-- what the resumed context sees -/
theorem resume_exact' (L : Layout) (hL : L.Ok) (lbl : Nat → W) (w : World) (hi : WInv L w)
    (t to : Nat) (sn : Snap) (hs : w.saved to = some sn) (hg : Guard L w (.swap t to)) :
    let w' := next L lbl w (.swap t to)
    w'.running t = to ∧
    savedOf (w'.reg t) sn.regs.rip = sn.regs ∧
    w'.rip t = .atAddr sn.regs.rip ∧
    (∀ a, L.owns to a → w'.mem a = sn.mem a) ∧
    (∀ p, sn.arg = some p → w'.reg t .rdi = p) := by
  obtain ⟨hinj, hrctx, hsctx, hsusp, hok, hag⟩ := hi
  obtain ⟨ht, _, hroom⟩ := hg
  have hne : to ≠ w.running t := fun h => hsusp to sn hs t ht h.symm
  have hfc : L.ctx (w.running t) := hrctx t ht
  have htc : L.ctx to := hsctx to sn hs
  obtain ⟨hfr, hcells, harg⟩ := hok to sn hs
  have hslot : w.mem (L.slot to) = sn.mem (L.slot to) := hag to sn hs _ (hL.slot_owned to htc)
  have hnp : ∀ a, L.owns to a →
      a ∉ pushCells ((machineOf w t).reg .rsp) ∧ a ≠ L.slot (w.running t) := by
    intro a ha
    refine ⟨fun h => hne (hL.disjoint _ _ _ htc hfc ha (hroom a h).1), ?_⟩
    intro h; exact hne (hL.disjoint _ _ _ htc hfc ha (h ▸ hL.slot_owned _ hfc))
  have hF : FrameAt (machineOf w t).mem ((machineOf w t).mem (L.slot to)) sn.regs := by
    show FrameAt w.mem (w.mem (L.slot to)) sn.regs
    rw [hslot]
    exact FrameAt_congr _ _ _ _ (fun a ha => hag to sn hs a (hcells a ha)) hfr
  have hd : ∀ a ∈ frameCells ((machineOf w t).mem (L.slot to)),
      a ∉ pushCells ((machineOf w t).reg .rsp) ∧ a ≠ L.slot (w.running t) := by
    intro a ha
    have ha' : a ∈ frameCells (sn.mem (L.slot to)) := by
      have : (machineOf w t).mem (L.slot to) = sn.mem (L.slot to) := hslot
      rw [this] at ha; exact ha
    exact hnp a (hcells a ha')
  have hres := swap_restores' lbl (L.slot (w.running t)) (L.slot to) (machineOf w t) sn.regs hF hd
  simp only [next, upd_same]
  refine ⟨trivial, hres.1, hres.2, ?_, ?_⟩
  · intro a ha
    rw [swap_writes_only' _ _ _ _ _ (hnp a ha).1 (hnp a ha).2]
    exact hag to sn hs a ha
  · intro p hp
    obtain ⟨ho, hv⟩ := harg p hp
    rw [swap_rdi]
    have h64 : (machineOf w t).mem (L.slot to) + 64 = sn.mem (L.slot to) + 64 := by
      show w.mem (L.slot to) + 64 = _
      rw [hslot]
    rw [h64, savedMem_other _ _ _ _ _ (hnp _ ho).1 (hnp _ ho).2]
    show w.mem _ = p
    rw [hag to sn hs _ ho]; exact hv

/-- steps that end the suspension of context `c` -/
def Step.touches (c : Nat) : Step → Prop
  | .swap _ to => to = c
  | .compute _ _ _ _ => False
  | .create d _ _ _ _ => d = c
  | .destroy d => d = c

/-- a suspended context's snapshot stays what it is until someone resumes / destroys it -/
theorem saved_stable (L : Layout) (lbl : Nat → W) (w : World) (hi : WInv L w) (c : Nat)
    (sn : Snap) (hs : w.saved c = some sn) (es : List Step) (hv : Valid L lbl w es)
    (hL : L.Ok) (hnt : ∀ e ∈ es, ¬ e.touches c) : (runSteps L lbl w es).saved c = some sn := by
  induction es generalizing w with
  | nil => exact hs
  | cons e es ih =>
    have he : ¬ e.touches c := hnt e (by simp)
    refine ih _ (inv_step L hL lbl w hi e hv.1) ?_ hv.2 (fun e' h' => hnt e' (by simp [h']))
    cases e with
    | swap t to =>
      have hne : c ≠ w.running t := fun h => hi.susp c sn hs t hv.1.1 h.symm
      have hto : c ≠ to := fun h => he h.symm
      simp [next, upd, hne, hto, hs]
    | compute t reg rip ws => exact hs
    | create d stack size fn param =>
      have : c ≠ d := fun h => he h.symm
      simp [next, upd, this, hs]
    | destroy d =>
      have : c ≠ d := fun h => he h.symm
      simp [next, upd, this, hs]

end LibfiberVerif.Ctx
