/-
  Proof/JoinCasBase.lean — invariants of the CANDIDATE FIX of the join / tryjoin / detach /
  completion protocol (Model/JoinCas.lean, docs/fix-C04.diff), property C04.

  Same structure as Proof/JoinBase.lean, but nothing is conditional any more: with every
  transition of detach_state a compare-and-swap there is no window to exclude.
    Inv0  simple facts about detach_state and the ghost fields
    Inv1  the mailbox discipline (a parked fiber is in its mailbox or in the hands of exactly
          one holder) and the values that travel
    Inv2  the protocol proper
    Inv3  no post-swap access to a destroyed fiber
-/
import LibfiberVerif.Model.JoinCas

set_option linter.unusedSimpArgs false
set_option linter.unusedVariables false

namespace LibfiberVerif.JoinCas
open LibfiberVerif.Join (Op NONE WFJ WTJ DET READY WAITING DONE)

/-! ### predicates on program counters -/

@[simp, grind] def finX : Pc → Bool
  | .fPark0 | .fParking | .fParked | .fWoken | .fTake | .fGot _ | .fGotRes _ _ | .fGave _ | .fMark | .fDone => true
  | _ => false

@[simp, grind] def stored : Pc → Bool
  | .fStored | .fCas _ => true
  | .fPark0 | .fParking | .fParked | .fWoken | .fTake | .fGot _ | .fGotRes _ _ | .fGave _ | .fMark | .fDone => true
  | _ => false

@[simp, grind] def parkF : Pc → Bool
  | .fPark0 | .fParking | .fParked => true
  | _ => false

@[simp, grind] def joinerPark (c : Pc) (g : Nat) : Bool :=
  match c with
  | .jPark0 t | .jParking t | .jParked t => t == g
  | _ => false

@[simp, grind] def joinerPath (c : Pc) (g : Nat) : Bool :=
  match c with
  | .jPark0 t | .jParking t | .jParked t | .jWoken t | .jGotRes t _ => t == g
  | _ => false

@[simp, grind] def takePh (c : Pc) (g : Nat) : Bool :=
  match c with
  | .take0 _ t | .take _ t _ | .wake _ t _ _ => t == g
  | _ => false

@[simp, grind] def claimPath (c : Pc) (g : Nat) : Bool :=
  match c with
  | .jPark0 t | .jParking t | .jParked t | .jWoken t | .jGotRes t _ => t == g
  | .take0 _ t | .take _ t _ | .wake _ t _ _ => t == g
  | .retn op t ok _ => t == g && ok && op != .detach
  | _ => false

/-- the claim has been made: the state is DETACHED for good -/
@[simp, grind] def postClaim (c : Pc) (g : Nat) : Bool :=
  match c with
  | .take0 _ t | .take _ t _ | .wake _ t _ _ | .jWoken t | .jGotRes t _ => t == g
  | .retn op t ok _ => t == g && ok && op != .detach
  | _ => false

@[simp, grind] def detTake (c : Pc) (g : Nat) : Bool :=
  match c with
  | .take .detach t _ | .wake .detach t _ _ => t == g
  | _ => false

@[simp, grind] def holds (c : Pc) (p : Nat) : Bool :=
  match c with
  | .wake _ _ _ q | .fGot q | .fGotRes q _ | .fGave q => q == p
  | _ => false

@[simp, grind] def holdsFAny : Pc → Bool
  | .fTake | .fGot _ | .fGotRes _ _ | .fGave _ => true
  | _ => false

@[simp, grind] def parkedIn (c : Pc) (q g : Nat) : Bool :=
  match c with
  | .jParked t => t == g
  | .fParked => q == g
  | _ => false

@[simp, grind] def delivering (c : Pc) (p : Nat) : Bool :=
  match c with
  | .fTake => true
  | .fGot q | .fGotRes q _ | .fGave q => q == p
  | _ => false

@[grind →] theorem jpk_jp {c g} (h : joinerPark c g = true) : joinerPath c g = true := by
  cases c <;> simp_all
@[grind →] theorem jp_cp {c g} (h : joinerPath c g = true) : claimPath c g = true := by
  cases c <;> simp_all
@[grind →] theorem tp_cp {c g} (h : takePh c g = true) : claimPath c g = true := by
  cases c <;> simp_all
@[grind →] theorem parkedIn_inj {c q g g'} (h : parkedIn c q g = true) (h' : parkedIn c q g' = true) : g = g' := by
  cases c <;> simp_all
@[grind →] theorem parkedIn_inv {c q g} (h : parkedIn c q g = true) : c = .jParked g ∨ (c = .fParked ∧ q = g) := by
  cases c <;> simp_all
@[grind →] theorem holds_inv {c p} (h : holds c p = true) :
    (∃ op g v, c = .wake op g v p) ∨ c = .fGot p ∨ (∃ v, c = .fGotRes p v) ∨ c = .fGave p := by
  cases c <;> simp_all
@[grind →] theorem detTake_inv {c g} (h : detTake c g = true) :
    (∃ v, c = .take .detach g v) ∨ (∃ v p, c = .wake .detach g v p) := by
  cases c with
  | take op t v => cases op <;> simp_all
  | wake op t v p => cases op <;> simp_all
  | _ => simp_all
@[grind →] theorem fx_st {c} (h : finX c = true) : stored c = true := by
  cases c <;> simp_all
@[grind →] theorem pf_fx {c} (h : parkF c = true) : finX c = true := by
  cases c <;> simp_all

/-! ### from `step` to `stepCore` -/

theorem step_some {s : St} {e : Ev} {s' : St} (h : step s e = some s') :
    ∃ s1, stepCore s e = some s1 ∧
      s' = { s1 with late := if e.counted ∧ s1.destroyed e.cellOf then upd s1.late e.cellOf (s1.late e.cellOf + 1) else s1.late } := by
  unfold step at h
  cases hc : stepCore s e with
  | none => simp [hc] at h
  | some s1 => simp [hc] at h; exact ⟨s1, rfl, h.symm⟩

/-- case analysis on the event and on the acting fiber's program counter; leaves one goal per
    accepted branch of `stepCore`, with the successor state substituted -/
syntax "step_cases " ident " with " ident : tactic
macro_rules
  | `(tactic| step_cases $e with $hc) => `(tactic| (
      cases $e:ident <;> simp only [stepCore, joinCas, detCas, finCas] at $hc:ident
      all_goals (repeat' split at $hc:ident)
      all_goals (try (simp at $hc:ident))
      all_goals (try subst $hc:ident)))

/-! ### the invariant (statements; proofs in JoinCasL0 / L1 / L2a / L2b) -/

structure Inv0 (s : St) : Prop where
  dr : ∀ g, s.det g ≤ 3
  wfj : ∀ g, s.det g = WFJ → parkF (s.pc g) = true
  detx : ∀ g, s.det g = DET → (s.detX g = true ∨ s.claimed g = true)
  fret : ∀ g v, s.pc g = .fRet v → s.retval g = some v
  cxj : ∀ a g x, s.pc a = .jCas g x → x ≠ WTJ ∧ x ≠ DET
  cxd : ∀ a g x, s.pc a = .dCas g x → x ≠ WTJ ∧ x ≠ DET
  cxf : ∀ a x, s.pc a = .fCas x → x ≠ DET
  cpn : ∀ a g, claimPath (s.pc a) g = true → s.det g ≠ NONE
  scn : ∀ g, s.succ g ≠ [] → s.det g ≠ NONE
  fxn : ∀ g, finX (s.pc g) = true → s.det g ≠ NONE
  dst : ∀ g, s.destroyed g = true → s.pc g = .fDone
  fj : ∀ p g, joinerPath (s.pc p) g = true → s.first g = some p
  ff : ∀ g, (parkF (s.pc g) = true ∨ s.pc g = .fWoken) → s.first g = some g
  tcl : ∀ b g, takePh (s.pc b) g = true → (s.claimed g = true ∨ s.detX g = true)
  fc : ∀ g, holdsFAny (s.pc g) = true → s.claimed g = true

structure Inv1 (s : St) : Prop where
  mb : ∀ g, s.ji g ≠ 0 → parkedIn (s.pc (s.ji g)) (s.ji g) g = true ∧ s.holder (s.ji g) = none
  hw : ∀ a op g v p, s.pc a = .wake op g v p → s.holder p = some a ∧ parkedIn (s.pc p) p g = true
  hf : (∀ a p, s.pc a = .fGot p → s.holder p = some a ∧ s.pc p = .jParked a) ∧ (∀ a p v, s.pc a = .fGotRes p v → s.holder p = some a ∧ s.pc p = .jParked a) ∧ (∀ a p, s.pc a = .fGave p → s.holder p = some a ∧ s.pc p = .jParked a)
  hh : ∀ p, s.holder p = none ∨ ∃ a, s.holder p = some a ∧ holds (s.pc a) p = true
  st : ∀ g, stored (s.pc g) = true → s.retval g = some (s.res g)
  t0 : ∀ a op g, s.pc a = .take0 op g → finX (s.pc g) = true
  tv : ∀ a op g v, s.pc a = .take op g v → op ≠ .detach → s.retval g = some v
  wv : ∀ a op g v p, s.pc a = .wake op g v p → op ≠ .detach → s.retval g = some v
  gr : ∀ g p v, s.pc g = .fGotRes p v → s.retval g = some v
  gv : ∀ g p, s.pc g = .fGave p → s.retval g = some (s.res p)
  dj : ∀ g, (s.pc g = .fWoken ∨ s.pc g = .fMark ∨ s.pc g = .fDone) → (s.claimed g = true ∨ s.detX g = true)

structure Inv2 (s : St) : Prop where
  k3 : ∀ g a, claimPath (s.pc a) g = true → s.det g ≠ WFJ
  k6 : ∀ g a, postClaim (s.pc a) g = true → s.det g = DET
  k7 : ∀ g, holdsFAny (s.pc g) = true → s.det g = DET
  k4 : ∀ g, s.succ g ≠ [] → s.det g = DET
  k5 : ∀ g p, joinerPark (s.pc p) g = true → ((s.det g = WTJ ∧ finX (s.pc g) = false) ∨ (s.det g = DET ∧ finX (s.pc g) = true))
  wtj : ∀ g, s.det g = WTJ → finX (s.pc g) = false
  uq : ∀ g a a', claimPath (s.pc a) g = true → claimPath (s.pc a') g = true → a = a'
  sq : ∀ g a, s.succ g ≠ [] → claimPath (s.pc a) g = false
  sl : ∀ g, (s.succ g).length ≤ 1
  cv1 : ∀ g p, s.pc p = .jWoken g → s.retval g = some (s.res p)
  cv2 : ∀ g p v, s.pc p = .jGotRes g v → s.retval g = some v
  cv3 : ∀ g a op v, s.pc a = .retn op g true v → op ≠ .detach → s.retval g = some v
  sv : ∀ g v, v ∈ s.succ g → s.retval g = some v
  c1 : ∀ g b, takePh (s.pc b) g = true → parkF (s.pc g) = true
  c9 : ∀ g, s.det g = WTJ → (s.first g ≠ none ∧ ∀ p, s.first g = some p → joinerPark (s.pc p) g = true)
  ii : ∀ g, s.pc g = .fTake → (s.first g ≠ none ∧ ∀ p, s.first g = some p → joinerPark (s.pc p) g = true)
  iii : ∀ g p, joinerPark (s.pc p) g = true → finX (s.pc g) = true → delivering (s.pc g) p = true
  iv : ∀ g, parkF (s.pc g) = true → s.det g ≠ WFJ → (s.taker g ≠ none ∧ ∀ b, s.taker g = some b → takePh (s.pc b) g = true)
  t4 : ∀ g, s.detX g = true → s.det g = DET
  dx1 : ∀ g, s.detX g = true → s.succ g = []
  dx2 : ∀ g a, s.detX g = true → claimPath (s.pc a) g = true → detTake (s.pc a) g = true

end LibfiberVerif.JoinCas
