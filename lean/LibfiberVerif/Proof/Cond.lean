/-
  Proof/Cond.lean — preservation of `Cond.Inv` by every step of the condition-variable model
  (property C05), and the facts `Props/C05.lean` is assembled from.
-/
import LibfiberVerif.Proof.CondInv

namespace LibfiberVerif.Cond

local macro "inv_frame" hi:ident : tactic =>
  `(tactic| (refine ⟨?_, ?_, ?_, ?_, ?_, ?_, ?_, ?_, ?_, ?_, ?_, ?_, ?_⟩ <;>
      first | exact ($hi).mi | exact ($hi).mim | exact ($hi).holdI | exact ($hi).cnt
            | exact ($hi).missPc | exact ($hi).missEx | exact ($hi).pops | exact ($hi).hdLe
            | exact ($hi).owedPc | exact ($hi).owedEx | exact ($hi).ordReg | exact ($hi).dh
            | exact ($hi).loc | skip))

local macro "side" : tactic =>
  `(tactic| first
      | (simp_all [needsI, prePop, Loc]; done)
      | (simp_all [needsI, prePop, Loc]; omega))

/-- fields the invariant does not read may change freely -/
theorem Inv.congr {s s' : St} (hi : Inv s) (hm : s'.m = s.m) (hI : s'.i = s.i)
    (h1 : s'.count = s.count) (h2 : s'.miss = s.miss) (h3 : s'.nreg = s.nreg)
    (h4 : s'.nclaim = s.nclaim) (h5 : s'.hd = s.hd) (h6 : s'.owed = s.owed)
    (h7 : s'.order = s.order) (h8 : s'.pc = s.pc) (h9 : s'.gh = s.gh) : Inv s' := by
  obtain ⟨a1, a2, a3, a4, a5, a6, a7, a8, a9, a10, a11, a12, a13⟩ := hi
  refine ⟨?_, ?_, ?_, ?_, ?_, ?_, ?_, ?_, ?_, ?_, ?_, ?_, ?_⟩ <;>
    simp only [hm, hI, h1, h2, h3, h4, h5, h6, h7, h8, h9] <;> assumption

theorem ctx_i {s : St} {f : Nat} (h : ctxOf s f = .i) : needsI (s.pc f) = false := by
  simp only [ctxOf] at h
  split at h
  · cases h
  · split at h <;> simp_all [needsI]

theorem retireD_shape {s s' : St} {g w : Nat} (h : retireD s g w = some s') :
    (∃ x o, Mutex.step (syncIn s s.m) (.retUnlock (D w)) = some x ∧
        s' = { s with m := x, fnode := x.fnode, ndata := x.ndata, onBehalf := o }) ∨
    (s.m.pc (D w) ≠ .unlockDone ∧ ∃ o, s' = { s with onBehalf := o }) := by
  simp only [retireD] at h
  split at h
  · simp only [Option.map_eq_some_iff] at h
    obtain ⟨s1, h1, rfl⟩ := h
    obtain ⟨x, hx, rfl⟩ := stepM_shape h1
    exact Or.inl ⟨x, _, hx, rfl⟩
  · next hne => simp at h; subst h; exact Or.inr ⟨hne, _, rfl⟩

theorem Inv.retireD {s s' : St} (hi : Inv s) {g w : Nat} (h : retireD s g w = some s') :
    Inv s' ∧ s'.gh = s.gh ∧ (s.m.pc (D w) ≠ .held → s'.m.pc (D w) ≠ .held) := by
  rcases retireD_shape h with ⟨x, o, hx, rfl⟩ | ⟨_, o, rfl⟩
  · refine ⟨(hi.of_stepM hx (fun w => ⟨by simp, by simp⟩)).congr rfl rfl rfl rfl rfl rfl rfl rfl rfl rfl rfl,
      rfl, fun _ => ?_⟩
    show x.pc (D w) ≠ .held
    rw [(mx_retUnlock hx).2]; simp
  · exact ⟨hi.congr rfl rfl rfl rfl rfl rfl rfl rfl rfl rfl rfl, rfl, fun h => h⟩

theorem Inv.dispatch {s s' : St} (hi : Inv s) {e : Ev} (h : dispatch s e = some s') : Inv s' := by
  simp only [Cond.dispatch] at h
  split at h
  · split at h
    · exact hi.stepC h
    · cases h
  · next hc =>
    split at h
    · simp only [Option.bind_eq_some_iff] at h
      obtain ⟨me, hme, h⟩ := h
      obtain ⟨x, hx, rfl⟩ := stepI_shape h
      exact hi.of_stepI hx (toMx_props hme).1 (ctx_i hc)
    · cases h
  · split at h
    · simp only [Option.bind_eq_some_iff] at h
      obtain ⟨me, hme, h⟩ := h
      obtain ⟨x, hx, rfl⟩ := stepM_shape h
      have hp := toMx_props hme
      exact hi.of_stepM hx (fun w => ⟨hp.2.1 _, hp.2.2 _ _⟩)
    · cases h
  · split at h
    · simp only [Option.bind_eq_some_iff] at h
      obtain ⟨s1, ⟨me, hme, h1⟩, h⟩ := h
      obtain ⟨x, hx, rfl⟩ := stepM_shape h1
      have hp := toMx_props hme
      exact ((hi.of_stepM hx (fun w => ⟨hp.2.1 _, hp.2.2 _ _⟩)).retireD h).1
    · cases h
  · cases h

/-- `Inv.move` with both mutexes, the queue and the global counters untouched -/
theorem Inv.gmove {s s' : St} (hi : Inv s) {f : Nat} {p' : Pc} {g' : G}
    (hm : s'.m = s.m) (hI : s'.i = s.i) (h1 : s'.count = s.count) (h2 : s'.miss = s.miss)
    (h3 : s'.nreg = s.nreg) (h4 : s'.nclaim = s.nclaim) (h5 : s'.hd = s.hd) (h6 : s'.owed = s.owed)
    (h7 : s'.order = s.order) (hpc : s'.pc = upd s.pc f p') (hgh : s'.gh = upd s.gh f g')
    (hHold : needsI p' = true → s.i.pc (A f) = .held)
    (hMissPc : p' = .sigMiss → s.miss = 1)
    (hMissEx : s.miss ≠ 0 → s.pc f = .sigMiss → p' = .sigMiss)
    (hOwedPc : ∀ bc k w, p' = .wake bc k w → s.owed = k ∧ (prePop w = true → 1 ≤ k))
    (hOwedEx : s.owed ≠ 0 → (∃ bc k w, s.pc f = .wake bc k w) → ∃ bc k w, p' = .wake bc k w)
    (hLoc : Loc p' g')
    (hnC : (s.gh f).nC ≤ g'.nC) (hU : g'.nU = (s.gh f).nU) (hL : (s.gh f).nL ≤ g'.nL) : Inv s' :=
  hi.move (hm ▸ hi.mim) (fun w hw => Or.inl (hm ▸ hw)) (hI ▸ hi.mi) (fun g _ => by rw [hI])
    (by rw [h1, h2, h3, h4]; exact hi.cnt) h2 h4 h5 h6 (fun n g hg => Or.inl (h7 ▸ hg))
    (by rw [h7]; exact Nat.le_refl _) hpc hgh (by rw [hI]; exact hHold) hMissPc hMissEx hOwedPc
    hOwedEx hLoc hnC hU hL

theorem Inv.noteM {s s' : St} (hi : Inv s) {me : Mutex.Ev} {f : Nat} (ha : mxActor me = A f)
    (h : stepM s me = some s') : Inv s' := by
  obtain ⟨x, hx, rfl⟩ := stepM_shape h
  exact hi.of_stepM_A hx ha

theorem Inv.callSig {s s' : St} (hi : Inv s) {f : Nat} {hh bc : Bool}
    (h : callSig s f hh bc = some s') : Inv s' := by
  have key : s.pc f = .idle ∧ ∃ s1, stepI s (.callLock (A f)) = some s1 ∧
      s' = { s1 with pc := upd s1.pc f (.lockI bc),
                     gh := upd s1.gh f { s1.gh f with holds := hh, claimed := 0, popped := 0 } } := by
    simp only [Cond.callSig] at h
    by_cases hc : s.pc f = .idle ∧ s.onBehalf f = none ∧
      (if hh = true then s.m.pc (A f) = .held ∧ s.m.owner = some (A f) else s.m.pc (A f) = .idle)
    · rw [if_pos hc] at h
      simp only [Option.map_eq_some_iff] at h
      obtain ⟨s1, h1, rfl⟩ := h
      exact ⟨hc.1, s1, h1, rfl⟩
    · rw [if_neg hc] at h; cases h
  obtain ⟨hc, s1, h1, rfl⟩ := key
  · have hc : s.pc f = .idle ∧ True := ⟨hc, trivial⟩
    obtain ⟨x, hx, rfl⟩ := stepI_shape h1
    have hi1 := hi.of_stepI (f := f) hx rfl (by rw [hc.1]; rfl)
    obtain ⟨a1, a2, a3, a4⟩ := hi1.at f (p := .idle) hc.1
    refine hi1.gmove (f := f) rfl rfl rfl rfl rfl rfl rfl rfl rfl rfl rfl ?_ ?_ ?_ ?_ ?_ ?_ ?_ ?_ ?_
    all_goals side

theorem Inv.retSig {s s' : St} (hi : Inv s) {f : Nat} {bc : Bool}
    (h : retSig s f bc = some s') : Inv s' := by
  simp only [Cond.retSig] at h
  split at h
  · next hc =>
    simp only [Option.map_eq_some_iff] at h
    obtain ⟨s1, h1, rfl⟩ := h
    obtain ⟨x, hx, rfl⟩ := stepI_shape h1
    have hi1 := hi.of_stepI (f := f) hx rfl (by rw [hc.1]; rfl)
    obtain ⟨a1, a2, a3, a4⟩ := hi1.at f (p := .unlockI bc) hc.1
    refine hi1.pcmove (f := f) rfl rfl rfl rfl rfl rfl rfl rfl rfl rfl rfl ?_ ?_ ?_ ?_ ?_ ?_
    all_goals side
  · cases h

/-- what holds at the instant a signaller is granted I -/
theorem Inv.granted {s : St} (hi : Inv s) {f : Nat} {bc : Bool} {x : Mutex.St}
    (hpc : s.pc f = .lockI bc) (hx : Mutex.step (syncIn s s.i) (.retLock (A f)) = some x) :
    MI x ∧ x.pc (A f) = .held ∧ (∀ g, needsI (s.pc g) = false) ∧ s.miss = 0 ∧ s.owed = 0 ∧
      (s.gh f).claimed = 0 ∧ (s.gh f).popped = 0 := by
  have hal := hi.claim_alone hx (by rw [hpc]; rfl)
  refine ⟨hi.mi.sync.step hx, (mx_retLock hx).1, hal, ?_, ?_, ?_⟩
  · apply Classical.byContradiction; intro h
    obtain ⟨g, hg⟩ := hi.missEx h
    have := hal g; rw [hg] at this; cases this
  · apply Classical.byContradiction; intro h
    obtain ⟨g, _, _, _, hg⟩ := hi.owedEx h
    have := hal g; rw [hg] at this; cases this
  · have := hi.loc f; rw [hpc] at this; simp only [Loc] at this; exact this.1

theorem hal_hold {pc : Nat → Pc} (hal : ∀ g, needsI (pc g) = false) {Q : Nat → Prop} :
    ∀ g, needsI (pc g) = true → Q g := fun g h => by rw [hal g] at h; cases h
theorem hal_miss {pc : Nat → Pc} (hal : ∀ g, needsI (pc g) = false) {Q : Prop} :
    ∀ g, pc g = Pc.sigMiss → Q := fun g h => by have := hal g; rw [h] at this; cases this
theorem hal_wake {pc : Nat → Pc} (hal : ∀ g, needsI (pc g) = false) {Q : Bool → Nat → WPc → Prop} :
    ∀ g bc k w, pc g = Pc.wake bc k w → Q bc k w :=
  fun g bc k w h => by have := hal g; rw [h] at this; cases this

theorem Inv.fsubCount {s s' : St} (hi : Inv s) {f : Nat} {old : Int}
    (h : step s (.fsubCount f old) = some s') : Inv s' := by
  simp only [step] at h
  split at h
  · next hc =>
    obtain ⟨hpc, hold, _⟩ := hc
    simp only [Option.bind_eq_some_iff] at h
    obtain ⟨s1, h1, h⟩ := h
    obtain ⟨x, hx, rfl⟩ := stepI_shape h1
    obtain ⟨hmx, hheld, hal, hmiss, howed, hcl, hpo⟩ := hi.granted hpc hx
    have hloc := hi.loc f; rw [hpc] at hloc; simp only [Loc] at hloc
    have hcnt := hi.cnt; have hpops := hi.pops
    split at h
    · next hge =>
      simp at h; subst h
      refine ⟨hmx, hi.mim, ?_, ?_, ?_, ?_, ?_, hi.hdLe, ?_, ?_, ?_, ?_, ?_⟩
      · exact upd_forall (P := fun g p => needsI p = true → x.pc (A g) = .held) (hal_hold hal)
          (fun _ => hheld)
      · show old - 1 + s.miss = (s.nreg : Int) - ((s.nclaim + 1 : Nat) : Int)
        push_cast; omega
      · exact upd_forall (P := fun _ p => p = Pc.sigMiss → s.miss = 1) (hal_miss hal) (by simp)
      · intro h; exact absurd hmiss h
      · show s.hd + 1 = s.nclaim + 1; omega
      · exact upd_forall (P := fun _ p => ∀ bc k w, p = Pc.wake bc k w → 1 = k ∧ (prePop w = true → 1 ≤ k))
          (hal_wake hal) (by intro bc k w h; simp at h; omega)
      · intro _; exact ⟨f, _, _, _, upd_same _ _ _⟩
      · intro n g hg; have := hi.ordReg n g hg
        simp only [upd]; split
        · next h => subst h; exact this
        · exact this
      · intro w hw; have := hi.dh w hw
        simp only [upd]; split
        · next h => subst h; exact this
        · exact this
      · refine loc_upd hi.loc ?_
        simp only [Loc]; simp_all
    · next hlt =>
      simp at h; subst h
      refine ⟨hmx, hi.mim, ?_, ?_, ?_, ?_, hi.pops, hi.hdLe, ?_, ?_, hi.ordReg, hi.dh, ?_⟩
      · exact upd_forall (P := fun g p => needsI p = true → x.pc (A g) = .held) (hal_hold hal)
          (fun _ => hheld)
      · show old - 1 + 1 = (s.nreg : Int) - (s.nclaim : Int)
        omega
      · exact upd_forall (P := fun _ p => p = Pc.sigMiss → (1 : Int) = 1) (fun _ _ => rfl) (fun _ => rfl)
      · intro _; exact ⟨f, upd_same _ _ _⟩
      · exact upd_forall (P := fun _ p => ∀ bc k w, p = Pc.wake bc k w → s.owed = k ∧ (prePop w = true → 1 ≤ k))
          (hal_wake hal) (by simp)
      · intro h; exact absurd howed h
      · refine loc_upd_pc hi.loc ?_
        simp only [Loc]; simp_all
  · cases h

theorem Inv.xchgCount {s s' : St} (hi : Inv s) {f : Nat} {old : Int}
    (h : step s (.xchgCount f old) = some s') : Inv s' := by
  simp only [step] at h
  split at h
  · next hc =>
    obtain ⟨hpc, hold, hnn, _⟩ := hc
    simp only [Option.bind_eq_some_iff] at h
    obtain ⟨s1, h1, h⟩ := h
    obtain ⟨x, hx, rfl⟩ := stepI_shape h1
    obtain ⟨hmx, hheld, hal, hmiss, howed, hcl, hpo⟩ := hi.granted hpc hx
    have hloc := hi.loc f; rw [hpc] at hloc; simp only [Loc] at hloc
    have hcnt := hi.cnt; have hpops := hi.pops
    have hk : ((old.toNat : Nat) : Int) = old := Int.toNat_of_nonneg hnn
    simp only [] at h
    split at h
    · next hz =>
      -- nobody waiting: release I at once
      obtain ⟨y, hy, rfl⟩ := toUnlockI_shape h
      have hmy : MI y := hmx.sync.step hy
      have hyo : ∀ g, g ≠ f → y.pc (A g) = x.pc (A g) := fun g hg =>
        mx_pc_other hy (by simp only [mxActor]; intro h; exact hg (A_inj h))
      refine ⟨hmy, hi.mim, ?_, ?_, ?_, ?_, ?_, hi.hdLe, ?_, ?_, ?_, ?_, ?_⟩
      · exact upd_forall (P := fun g p => needsI p = true → y.pc (A g) = .held) (hal_hold hal)
          (by simp [needsI])
      · show (0 : Int) + s.miss = (s.nreg : Int) - ((s.nclaim + old.toNat : Nat) : Int)
        push_cast; omega
      · exact upd_forall (P := fun _ p => p = Pc.sigMiss → s.miss = 1) (hal_miss hal) (by simp)
      · intro h; exact absurd hmiss h
      · show s.hd + old.toNat = s.nclaim + old.toNat; omega
      · exact upd_forall (P := fun _ p => ∀ bc k w, p = Pc.wake bc k w → old.toNat = k ∧ (prePop w = true → 1 ≤ k))
          (hal_wake hal) (by simp)
      · intro h; exact absurd hz h
      · intro n g hg; have := hi.ordReg n g hg
        simp only [upd]; split
        · next h => subst h; exact this
        · exact this
      · intro w hw; have := hi.dh w hw
        simp only [upd]; split
        · next h => subst h; exact this
        · exact this
      · refine loc_upd hi.loc ?_
        simp only [Loc]; simp_all
    · next hnz =>
      simp at h; subst h
      refine ⟨hmx, hi.mim, ?_, ?_, ?_, ?_, ?_, hi.hdLe, ?_, ?_, ?_, ?_, ?_⟩
      · exact upd_forall (P := fun g p => needsI p = true → x.pc (A g) = .held) (hal_hold hal)
          (fun _ => hheld)
      · show (0 : Int) + s.miss = (s.nreg : Int) - ((s.nclaim + old.toNat : Nat) : Int)
        push_cast; omega
      · exact upd_forall (P := fun _ p => p = Pc.sigMiss → s.miss = 1) (hal_miss hal) (by simp)
      · intro h; exact absurd hmiss h
      · show s.hd + old.toNat = s.nclaim + old.toNat; omega
      · exact upd_forall (P := fun _ p => ∀ bc k w, p = Pc.wake bc k w → old.toNat = k ∧ (prePop w = true → 1 ≤ k))
          (hal_wake hal) (by intro bc k w h; simp at h; obtain ⟨_, rfl, _⟩ := h; exact ⟨rfl, fun _ => by omega⟩)
      · intro _; exact ⟨f, _, _, _, upd_same _ _ _⟩
      · intro n g hg; have := hi.ordReg n g hg
        simp only [upd]; split
        · next h => subst h; exact this
        · exact this
      · intro w hw; have := hi.dh w hw
        simp only [upd]; split
        · next h => subst h; exact this
        · exact this
      · refine loc_upd hi.loc ?_
        simp only [Loc]; simp_all
  · cases h

theorem Inv.faddCount {s s' : St} (hi : Inv s) {t f : Nat} {old : Int}
    (h : step s (.faddCount t f old) = some s') : Inv s' := by
  simp only [step] at h
  split at h
  · next hpc =>
    -- registration
    split at h
    · next hc =>
      simp at h; subst h
      obtain ⟨a1, a2, a3, a4⟩ := hi.at f hpc
      have hcnt := hi.cnt
      refine hi.move (f := f) hi.mim (fun w hw => Or.inl hw) hi.mi (fun _ _ => rfl) ?_ rfl rfl rfl
        rfl (fun n g hg => Or.inl hg) (Nat.le_refl _) rfl rfl ?_ ?_ ?_ ?_ ?_ ?_ ?_ ?_ ?_
      · show old + 1 + s.miss = ((s.nreg + 1 : Nat) : Int) - s.nclaim
        push_cast; omega
      all_goals side
    · cases h
  · split at h
    · next hpc =>
      -- a signal that found nobody puts the count back
      split at h
      · next hc =>
        obtain ⟨x, hx, rfl⟩ := toUnlockI_shape h
        obtain ⟨a1, a2, a3, a4⟩ := hi.at f hpc
        have hm1 : s.miss = 1 := a2 rfl
        have hcnt := hi.cnt
        have huniq : ∀ g, needsI (s.pc g) = true → g = f :=
          fun g hg => hi.unique hg (by rw [hpc]; rfl)
        refine ⟨hi.mi.sync.step hx, hi.mim, ?_, ?_, ?_, ?_, hi.pops, hi.hdLe, ?_, ?_, hi.ordReg, hi.dh, ?_⟩
        · intro g; simp only [upd]; split
          · simp [needsI]
          · next hg =>
            intro hn
            show x.pc (A g) = .held
            rw [mx_pc_other hx (by simp only [mxActor]; intro h; exact hg (A_inj h))]
            exact hi.holdI g hn
        · show old + 1 + 0 = (s.nreg : Int) - s.nclaim
          omega
        · intro g; simp only [upd]; split
          · simp
          · next hg => intro hs; exact absurd (huniq g (by rw [hs]; rfl)) hg
        · intro h; exact absurd rfl h
        · exact upd_forall (P := fun _ p => ∀ bc k w, p = Pc.wake bc k w → s.owed = k ∧ (prePop w = true → 1 ≤ k))
            hi.owedPc (by simp)
        · intro h
          exact upd_exists (P := fun p => ∃ bc k w, p = Pc.wake bc k w) (hi.owedEx h)
            (by rw [hpc]; simp)
        · refine loc_upd_pc hi.loc ?_
          simp only [Loc] at a4 ⊢; simp_all
      · cases h
    · cases h

theorem Inv.callWait {s s' : St} (hi : Inv s) {f : Nat}
    (h : step s (.callWait f) = some s') : Inv s' := by
  simp only [step] at h
  split at h
  · next hc =>
    simp at h; subst h
    obtain ⟨a1, a2, a3, a4⟩ := hi.at f hc.1
    refine hi.pcmove (f := f) rfl rfl rfl rfl rfl rfl rfl rfl rfl rfl rfl ?_ ?_ ?_ ?_ ?_ ?_
    all_goals side
  · cases h

theorem Inv.retWait {s s' : St} (hi : Inv s) {f : Nat}
    (h : step s (.retWait f) = some s') : Inv s' := by
  simp only [step] at h
  split at h
  · next hpc =>
    simp only [Option.map_eq_some_iff] at h
    obtain ⟨s1, h1, rfl⟩ := h
    obtain ⟨x, hx, rfl⟩ := stepM_shape h1
    have hi1 := hi.of_stepM_A (f := f) hx rfl
    obtain ⟨a1, a2, a3, a4⟩ := hi1.at f (p := .relock) hpc
    refine hi1.gmove (f := f) rfl rfl rfl rfl rfl rfl rfl rfl rfl rfl rfl ?_ ?_ ?_ ?_ ?_ ?_ ?_ ?_ ?_
    all_goals side
  · cases h

theorem Inv.fsub {s s' : St} (hi : Inv s) {q : Q} {f : Nat} {old : Int}
    (h : step s (.fsub q f old) = some s') : Inv s' := by
  simp only [step] at h
  split at h
  · split at h
    · cases h
    · split at h
      · next hpc =>
        simp only [Option.map_eq_some_iff, Option.bind_eq_some_iff] at h
        obtain ⟨s2, ⟨s1, h1, h2⟩, rfl⟩ := h
        obtain ⟨x, hx, rfl⟩ := stepM_shape h1
        have hi1 := hi.of_stepM_A (f := f) hx rfl
        obtain ⟨y, hy, rfl⟩ := stepM_shape h2
        have hi2 := hi1.of_stepM_A (f := f) hy rfl
        obtain ⟨a1, a2, a3, a4⟩ := hi2.at f (p := .woken) hpc
        refine hi2.pcmove (f := f) rfl rfl rfl rfl rfl rfl rfl rfl rfl rfl rfl ?_ ?_ ?_ ?_ ?_ ?_
        all_goals side
      · split at h
        · exact hi.noteM (f := f) rfl h
        · cases h
  · exact hi.dispatch h

/-- the deferred unlock of M has been performed on behalf of `w` -/
theorem Inv.bumpU {s : St} (hi : Inv s) {w : Nat} (h1 : s.m.pc (D w) ≠ .held)
    (h2 : (s.gh w).nU < (s.gh w).nL) (d : Nat → Option Nat) :
    Inv { s with deferred := d, gh := upd s.gh w { s.gh w with nU := (s.gh w).nU + 1 } } := by
  inv_frame hi
  · intro n g hg; have := hi.ordReg n g hg
    simp only [upd]; split
    · next h => subst h; exact this
    · exact this
  · intro w' hw'; have := hi.dh w' hw'
    simp only [upd]; split
    · next h => subst h; exact absurd hw' h1
    · exact this
  · intro g; simp only [upd]; split
    · next h =>
      subst h; have := hi.loc g
      simp only [Loc] at this ⊢
      refine ⟨this.1, this.2.1, this.2.2.1, ?_⟩
      show (s.gh g).nU + 1 ≤ (s.gh g).nL
      omega
    · exact hi.loc g

theorem Inv.fadd {s s' : St} (hi : Inv s) {q : Q} {t g : Nat} {old : Int}
    (h : step s (.fadd q t g old) = some s') : Inv s' := by
  simp only [step] at h
  split at h
  · split at h
    · cases h
    · split at h
      · exact hi.noteM (f := g) rfl h
      · split at h
        · next w hw =>
          split at h
          · next hheld =>
            simp only [Option.map_eq_some_iff, Option.bind_eq_some_iff] at h
            obtain ⟨s3, ⟨s2, ⟨s1, h1, h2⟩, h3⟩, rfl⟩ := h
            have hlt := hi.dh w hheld
            obtain ⟨x, hx, rfl⟩ := stepM_shape h1
            have hi1 := hi.of_stepM hx (fun w => ⟨by simp, by simp⟩)
            obtain ⟨y, hy, rfl⟩ := stepM_shape h2
            have hi2 := hi1.of_stepM hy (fun w => ⟨by simp, by simp⟩)
            have hy' : y.pc (D w) ≠ .held := by
              rcases (mx_fadd hy).2 with h | h <;> rw [h] <;> simp
            obtain ⟨hi3, hgh, hnh⟩ := hi2.retireD h3
            have := hi3.bumpU (w := w) (hnh hy') (by rw [hgh]; exact hlt)
              (upd s3.deferred t none)
            exact this
          · cases h
        · cases h
  · exact hi.dispatch h

/-- every step of the model preserves the invariant -/
theorem Inv.step {s s' : St} {e : Ev} (hi : Inv s) (h : step s e = some s') : Inv s' := by
  cases e with
  | callLock f => simp only [Cond.step] at h; split at h; exact hi.noteM (f := f) rfl h; cases h
  | retLock f => simp only [Cond.step] at h; split at h; exact hi.noteM (f := f) rfl h; cases h
  | callUnlock f => simp only [Cond.step] at h; split at h; exact hi.noteM (f := f) rfl h; cases h
  | retUnlock f => simp only [Cond.step] at h; split at h; exact hi.noteM (f := f) rfl h; cases h
  | csEnter f => simp only [Cond.step] at h; split at h; exact hi.noteM (f := f) rfl h; cases h
  | csExit f v => simp only [Cond.step] at h; split at h; exact hi.noteM (f := f) rfl h; cases h
  | callWait f => exact hi.callWait h
  | retWait f => exact hi.retWait h
  | callSignal f hh => exact hi.callSig (by simpa only [Cond.step] using h)
  | retSignal f => exact hi.retSig (by simpa only [Cond.step] using h)
  | callBroadcast f hh => exact hi.callSig (by simpa only [Cond.step] using h)
  | retBroadcast f => exact hi.retSig (by simpa only [Cond.step] using h)
  | fsubCount f old => exact hi.fsubCount h
  | faddCount t f old => exact hi.faddCount h
  | xchgCount f old => exact hi.xchgCount h
  | fsub q f old => exact hi.fsub h
  | fadd q t g old => exact hi.fadd h
  | xchgTail q f o n => exact hi.dispatch (by simpa only [Cond.step] using h)
  | rHead q f n => exact hi.dispatch (by simpa only [Cond.step] using h)
  | wHead q f n => exact hi.dispatch (by simpa only [Cond.step] using h)
  | wState f g v => exact hi.dispatch (by simpa only [Cond.step] using h)
  | rState f g v => exact hi.dispatch (by simpa only [Cond.step] using h)
  | rNode f g n => exact hi.dispatch (by simpa only [Cond.step] using h)
  | wNode f g n => exact hi.dispatch (by simpa only [Cond.step] using h)
  | wData f n g => exact hi.dispatch (by simpa only [Cond.step] using h)
  | rData f n g => exact hi.dispatch (by simpa only [Cond.step] using h)
  | wNext f n x => exact hi.dispatch (by simpa only [Cond.step] using h)
  | rNext f n x => exact hi.dispatch (by simpa only [Cond.step] using h)

theorem inv_of_run {es : List Ev} {s : St} (h : sys.run es = some s) : Inv s :=
  Sys.inv_of_run sys Inv Inv.init (fun _ _ _ hi hs => Inv.step hi hs) h

/-! ### what individual events require and do (read off `step`) -/

theorem fsubCount_effect {s s' : St} {f : Nat} {old : Int}
    (h : step s (.fsubCount f old) = some s') :
    s.pc f = .lockI false ∧ old = s.count ∧
      (s'.gh f).claimed = (if old ≥ 1 then 1 else (s.gh f).claimed) ∧
      (s'.gh f).popped = (s.gh f).popped ∧
      s'.pc f = (if old ≥ 1 then .wake false 1 .top else .sigMiss) := by
  simp only [step] at h
  split at h
  · next hc =>
    simp only [Option.bind_eq_some_iff] at h
    obtain ⟨s1, h1, h⟩ := h
    obtain ⟨x, hx, rfl⟩ := stepI_shape h1
    refine ⟨hc.1, hc.2.1, ?_⟩
    split at h
    · next hge => simp at h; subst h; simp [hge]
    · next hlt => simp at h; subst h; simp [hlt]
  · cases h

theorem xchgCount_effect {s s' : St} {f : Nat} {old : Int}
    (h : step s (.xchgCount f old) = some s') :
    s.pc f = .lockI true ∧ old = s.count ∧ 0 ≤ old ∧
      (s'.gh f).claimed = old.toNat ∧ (s'.gh f).popped = (s.gh f).popped ∧
      s'.pc f = (if old.toNat = 0 then .unlockI true else .wake true old.toNat .top) := by
  simp only [step] at h
  split at h
  · next hc =>
    simp only [Option.bind_eq_some_iff] at h
    obtain ⟨s1, h1, h⟩ := h
    obtain ⟨x, hx, rfl⟩ := stepI_shape h1
    refine ⟨hc.1, hc.2.1, hc.2.2.1, ?_⟩
    simp only [] at h
    split at h
    · next hz =>
      obtain ⟨y, hy, rfl⟩ := toUnlockI_shape h
      simp [hz]
    · next hnz => simp at h; subst h; simp [hnz]
  · cases h

theorem retSig_pre {s s' : St} {f : Nat} {bc : Bool} (h : retSig s f bc = some s') :
    s.pc f = .unlockI bc := by
  simp only [retSig] at h
  split at h
  · next hc => exact hc.1
  · cases h

theorem retWait_effect {s s' : St} {f : Nat} (h : step s (.retWait f) = some s') :
    s.pc f = .relock ∧ s'.m.pc (A f) = .held ∧ s'.m.owner = s.m.owner ∧
      (s.m.pc (A f) = .acquired ∨ s.m.pc (A f) = .parked ∧ s.m.owner = some (A f)) ∧
      (s'.gh f).nR = (s.gh f).nR + 1 := by
  simp only [step] at h
  split at h
  · next hpc =>
    simp only [Option.map_eq_some_iff] at h
    obtain ⟨s1, h1, rfl⟩ := h
    obtain ⟨x, hx, rfl⟩ := stepM_shape h1
    have := mx_retLock hx
    exact ⟨hpc, this.1, this.2.2, this.2.1, by simp⟩
  · cases h

theorem ctx_c_of_tagC {s s' : St} {e : Ev} (h : dispatch s e = some s') (ht : tagOf e = some .C) :
    stepC s (actorOf e) e = some s' := by
  simp only [Cond.dispatch] at h
  split at h
  · split at h
    · exact h
    · cases h
  all_goals (try (split at h <;> simp_all))
  all_goals (try cases h)

/-- a pop of the cond's waiter queue: who may do it and what it does -/
theorem popC_effect {s s' : St} {f x : Nat} (h : step s (.wHead .C f x) = some s') :
    ∃ bc k hh n g, s.pc f = .wake bc k (.gotNext hh x) ∧ s.order[s.hd]? = some (n, g) ∧
      s.pc g = .parked ∧ s'.hd = s.hd + 1 ∧ s'.pc g = .woken ∧ s'.order = s.order ∧
      (s'.gh f).popped = (s.gh f).popped + 1 ∧ (s'.gh f).claimed = (s.gh f).claimed := by
  simp only [step] at h
  have h := ctx_c_of_tagC h rfl
  simp only [actorOf, Cond.stepC] at h
  split at h
  · next bc k hh x' hpc =>
    split at h
    · next hc =>
      split at h
      · next n g hord =>
        by_cases hg : s.pc g = .parked ∧ g ≠ f
        · simp [hg.1, hg.2] at h; subst h
          refine ⟨bc, k, hh, n, g, ?_, hord, hg.1, rfl, ?_, rfl, ?_, ?_⟩
          · rw [hpc, hc.2]
          · simp [upd, hg.2]
          · simp [upd]
          · simp [upd]
        · simp [hg] at h
      · cases h
    · cases h
  · cases h

/-- `fetch_add(M.counter)`: either the harness-level unlock by M's holder, or the deferred unlock
    on behalf of the waiter `w` registered on that kernel thread, whose link is done -/
theorem faddM_pre {s s' : St} {t g : Nat} {old : Int} (h : step s (.fadd .M t g old) = some s') :
    (s.pc g = .idle ∧ s.m.pc (A g) = .unlockCalled) ∨
    (∃ w, s.deferred t = some w ∧ s.m.pc (D w) = .held ∧ s.m.owner = some (D w) ∧
      s'.deferred t = none) := by
  simp only [step] at h
  split at h
  · split at h
    · cases h
    · split at h
      · next hc => exact Or.inl hc
      · split at h
        · next w hw =>
          split at h
          · next hheld =>
            simp only [Option.map_eq_some_iff, Option.bind_eq_some_iff] at h
            obtain ⟨s3, ⟨s2, ⟨s1, h1, h2⟩, h3⟩, rfl⟩ := h
            obtain ⟨x, hx, rfl⟩ := stepM_shape h1
            exact Or.inr ⟨w, hw, hheld, (mx_callUnlock hx).2.1, by simp⟩
          · cases h
        · cases h
  · next hq => exact absurd trivial hq

end LibfiberVerif.Cond
