/-
  Proof/JoinCasL2b.lean — preservation of layer 2 (second half) (candidate fix; generated layout: one theorem per conjunct of the invariant of
  Proof/JoinCasBase.lean, by case analysis on the event and the acting fiber's program counter,
  then `grind`; the hypotheses of each theorem are exactly the conjuncts it depends on)
-/
import LibfiberVerif.Proof.JoinCasBase

set_option linter.unusedSimpArgs false
set_option linter.unusedVariables false

namespace LibfiberVerif.JoinCas
open LibfiberVerif.Join (Op NONE WFJ WTJ DET READY WAITING DONE)

variable {s s1 : St} {e : Ev}

set_option maxHeartbeats 4000000 in
theorem inv2_cv2 (cv2 : ∀ g p v, s.pc p = .jGotRes g v → s.retval g = some v) (cv1 : ∀ g p, s.pc p = .jWoken g → s.retval g = some (s.res p)) (hc : stepCore s e = some s1) : ∀ g p v, s1.pc p = .jGotRes g v → s1.retval g = some v := by
  step_cases e with hc
  all_goals (intros; (try simp only [upd_apply, WFJ, DET, NONE, WTJ] at *); first | grind | grind (splits := 25) | grind (splits := 80) | ((repeat' split) <;> grind (splits := 80)))

set_option maxHeartbeats 4000000 in
theorem inv2_cv3 (cv3 : ∀ g a op v, s.pc a = .retn op g true v → op ≠ .detach → s.retval g = some v) (cv2 : ∀ g p v, s.pc p = .jGotRes g v → s.retval g = some v) (wv : ∀ a op g v p, s.pc a = .wake op g v p → op ≠ .detach → s.retval g = some v) (hc : stepCore s e = some s1) : ∀ g a op v, s1.pc a = .retn op g true v → op ≠ .detach → s1.retval g = some v := by
  step_cases e with hc
  all_goals (intros; (try simp only [upd_apply, WFJ, DET, NONE, WTJ] at *); first | grind | grind (splits := 25) | grind (splits := 80) | ((repeat' split) <;> grind (splits := 80)))

set_option maxHeartbeats 4000000 in
theorem inv2_sv (sv : ∀ g v, v ∈ s.succ g → s.retval g = some v) (cv3 : ∀ g a op v, s.pc a = .retn op g true v → op ≠ .detach → s.retval g = some v) (hc : stepCore s e = some s1) : ∀ g v, v ∈ s1.succ g → s1.retval g = some v := by
  step_cases e with hc
  all_goals (intros; (try simp only [upd_apply, WFJ, DET, NONE, WTJ] at *); first | grind | grind (splits := 25) | grind (splits := 80) | ((repeat' split) <;> grind (splits := 80)))

set_option maxHeartbeats 4000000 in
theorem inv2_c1 (c1 : ∀ g b, takePh (s.pc b) g = true → parkF (s.pc g) = true) (wfj : ∀ g, s.det g = WFJ → parkF (s.pc g) = true) (uq : ∀ g a a', claimPath (s.pc a) g = true → claimPath (s.pc a') g = true → a = a') (hw : ∀ a op g v p, s.pc a = .wake op g v p → s.holder p = some a ∧ parkedIn (s.pc p) p g = true) (cxj : ∀ a g x, s.pc a = .jCas g x → x ≠ WTJ ∧ x ≠ DET) (cxd : ∀ a g x, s.pc a = .dCas g x → x ≠ WTJ ∧ x ≠ DET) (cxf : ∀ a x, s.pc a = .fCas x → x ≠ DET) (dr : ∀ g, s.det g ≤ 3) (hc : stepCore s e = some s1) : ∀ g b, takePh (s1.pc b) g = true → parkF (s1.pc g) = true := by
  step_cases e with hc
  all_goals (intros; (try simp only [upd_apply, WFJ, DET, NONE, WTJ] at *); first | grind | grind (splits := 25) | grind (splits := 80) | ((repeat' split) <;> grind (splits := 80)))

set_option maxHeartbeats 4000000 in
theorem inv2_c9 (c9 : ∀ g, s.det g = WTJ → (s.first g ≠ none ∧ ∀ p, s.first g = some p → joinerPark (s.pc p) g = true)) (fj : ∀ p g, joinerPath (s.pc p) g = true → s.first g = some p) (wfj : ∀ g, s.det g = WFJ → parkF (s.pc g) = true) (uq : ∀ g a a', claimPath (s.pc a) g = true → claimPath (s.pc a') g = true → a = a') (hw : ∀ a op g v p, s.pc a = .wake op g v p → s.holder p = some a ∧ parkedIn (s.pc p) p g = true) (hf : (∀ a p, s.pc a = .fGot p → s.holder p = some a ∧ s.pc p = .jParked a) ∧ (∀ a p v, s.pc a = .fGotRes p v → s.holder p = some a ∧ s.pc p = .jParked a) ∧ (∀ a p, s.pc a = .fGave p → s.holder p = some a ∧ s.pc p = .jParked a)) (cpn : ∀ a g, claimPath (s.pc a) g = true → s.det g ≠ NONE) (wtj : ∀ g, s.det g = WTJ → finX (s.pc g) = false) (k5 : ∀ g p, joinerPark (s.pc p) g = true → ((s.det g = WTJ ∧ finX (s.pc g) = false) ∨ (s.det g = DET ∧ finX (s.pc g) = true))) (cxj : ∀ a g x, s.pc a = .jCas g x → x ≠ WTJ ∧ x ≠ DET) (cxd : ∀ a g x, s.pc a = .dCas g x → x ≠ WTJ ∧ x ≠ DET) (cxf : ∀ a x, s.pc a = .fCas x → x ≠ DET) (dr : ∀ g, s.det g ≤ 3) (hc : stepCore s e = some s1) : ∀ g, s1.det g = WTJ → (s1.first g ≠ none ∧ ∀ p, s1.first g = some p → joinerPark (s1.pc p) g = true) := by
  step_cases e with hc
  all_goals (intros; (try simp only [upd_apply, WFJ, DET, NONE, WTJ] at *); first | grind | grind (splits := 25) | grind (splits := 80) | ((repeat' split) <;> grind (splits := 80)))

set_option maxHeartbeats 4000000 in
theorem inv2_ii (ii : ∀ g, s.pc g = .fTake → (s.first g ≠ none ∧ ∀ p, s.first g = some p → joinerPark (s.pc p) g = true)) (c9 : ∀ g, s.det g = WTJ → (s.first g ≠ none ∧ ∀ p, s.first g = some p → joinerPark (s.pc p) g = true)) (uq : ∀ g a a', claimPath (s.pc a) g = true → claimPath (s.pc a') g = true → a = a') (hw : ∀ a op g v p, s.pc a = .wake op g v p → s.holder p = some a ∧ parkedIn (s.pc p) p g = true) (hf : (∀ a p, s.pc a = .fGot p → s.holder p = some a ∧ s.pc p = .jParked a) ∧ (∀ a p v, s.pc a = .fGotRes p v → s.holder p = some a ∧ s.pc p = .jParked a) ∧ (∀ a p, s.pc a = .fGave p → s.holder p = some a ∧ s.pc p = .jParked a)) (wfj : ∀ g, s.det g = WFJ → parkF (s.pc g) = true) (cxj : ∀ a g x, s.pc a = .jCas g x → x ≠ WTJ ∧ x ≠ DET) (cxd : ∀ a g x, s.pc a = .dCas g x → x ≠ WTJ ∧ x ≠ DET) (cxf : ∀ a x, s.pc a = .fCas x → x ≠ DET) (dr : ∀ g, s.det g ≤ 3) (hc : stepCore s e = some s1) : ∀ g, s1.pc g = .fTake → (s1.first g ≠ none ∧ ∀ p, s1.first g = some p → joinerPark (s1.pc p) g = true) := by
  step_cases e with hc
  all_goals (intros; (try simp only [upd_apply, WFJ, DET, NONE, WTJ] at *); first | grind | grind (splits := 25) | grind (splits := 80) | ((repeat' split) <;> grind (splits := 80)))

set_option maxHeartbeats 4000000 in
theorem inv2_iii (iii : ∀ g p, joinerPark (s.pc p) g = true → finX (s.pc g) = true → delivering (s.pc g) p = true) (k5 : ∀ g p, joinerPark (s.pc p) g = true → ((s.det g = WTJ ∧ finX (s.pc g) = false) ∨ (s.det g = DET ∧ finX (s.pc g) = true))) (cpn : ∀ a g, claimPath (s.pc a) g = true → s.det g ≠ NONE) (fxn : ∀ g, finX (s.pc g) = true → s.det g ≠ NONE) (wfj : ∀ g, s.det g = WFJ → parkF (s.pc g) = true) (mb : ∀ g, s.ji g ≠ 0 → parkedIn (s.pc (s.ji g)) (s.ji g) g = true ∧ s.holder (s.ji g) = none) (uq : ∀ g a a', claimPath (s.pc a) g = true → claimPath (s.pc a') g = true → a = a') (hf : (∀ a p, s.pc a = .fGot p → s.holder p = some a ∧ s.pc p = .jParked a) ∧ (∀ a p v, s.pc a = .fGotRes p v → s.holder p = some a ∧ s.pc p = .jParked a) ∧ (∀ a p, s.pc a = .fGave p → s.holder p = some a ∧ s.pc p = .jParked a)) (cxj : ∀ a g x, s.pc a = .jCas g x → x ≠ WTJ ∧ x ≠ DET) (cxd : ∀ a g x, s.pc a = .dCas g x → x ≠ WTJ ∧ x ≠ DET) (cxf : ∀ a x, s.pc a = .fCas x → x ≠ DET) (dr : ∀ g, s.det g ≤ 3) (hc : stepCore s e = some s1) : ∀ g p, joinerPark (s1.pc p) g = true → finX (s1.pc g) = true → delivering (s1.pc g) p = true := by
  step_cases e with hc
  all_goals (intros; (try simp only [upd_apply, WFJ, DET, NONE, WTJ] at *); first | grind | grind (splits := 25) | grind (splits := 80) | ((repeat' split) <;> grind (splits := 80)))

set_option maxHeartbeats 4000000 in
theorem inv2_iv (iv : ∀ g, parkF (s.pc g) = true → s.det g ≠ WFJ → (s.taker g ≠ none ∧ ∀ b, s.taker g = some b → takePh (s.pc b) g = true)) (hw : ∀ a op g v p, s.pc a = .wake op g v p → s.holder p = some a ∧ parkedIn (s.pc p) p g = true) (uq : ∀ g a a', claimPath (s.pc a) g = true → claimPath (s.pc a') g = true → a = a') (wfj : ∀ g, s.det g = WFJ → parkF (s.pc g) = true) (c1 : ∀ g b, takePh (s.pc b) g = true → parkF (s.pc g) = true) (cxj : ∀ a g x, s.pc a = .jCas g x → x ≠ WTJ ∧ x ≠ DET) (cxd : ∀ a g x, s.pc a = .dCas g x → x ≠ WTJ ∧ x ≠ DET) (cxf : ∀ a x, s.pc a = .fCas x → x ≠ DET) (dr : ∀ g, s.det g ≤ 3) (hc : stepCore s e = some s1) : ∀ g, parkF (s1.pc g) = true → s1.det g ≠ WFJ → (s1.taker g ≠ none ∧ ∀ b, s1.taker g = some b → takePh (s1.pc b) g = true) := by
  step_cases e with hc
  all_goals (intros; (try simp only [upd_apply, WFJ, DET, NONE, WTJ] at *); first | grind | grind (splits := 25) | grind (splits := 80) | ((repeat' split) <;> grind (splits := 80)))

set_option maxHeartbeats 4000000 in
theorem inv2_t4 (t4 : ∀ g, s.detX g = true → s.det g = DET) (cxj : ∀ a g x, s.pc a = .jCas g x → x ≠ WTJ ∧ x ≠ DET) (cxd : ∀ a g x, s.pc a = .dCas g x → x ≠ WTJ ∧ x ≠ DET) (cxf : ∀ a x, s.pc a = .fCas x → x ≠ DET) (dr : ∀ g, s.det g ≤ 3) (hc : stepCore s e = some s1) : ∀ g, s1.detX g = true → s1.det g = DET := by
  step_cases e with hc
  all_goals (intros; (try simp only [upd_apply, WFJ, DET, NONE, WTJ] at *); first | grind | grind (splits := 25) | grind (splits := 80) | ((repeat' split) <;> grind (splits := 80)))

set_option maxHeartbeats 4000000 in
theorem inv2_dx1 (dx1 : ∀ g, s.detX g = true → s.succ g = []) (dx2 : ∀ g a, s.detX g = true → claimPath (s.pc a) g = true → detTake (s.pc a) g = true) (scn : ∀ g, s.succ g ≠ [] → s.det g ≠ NONE) (k4 : ∀ g, s.succ g ≠ [] → s.det g = DET) (t4 : ∀ g, s.detX g = true → s.det g = DET) (detx : ∀ g, s.det g = DET → (s.detX g = true ∨ s.claimed g = true)) (cxj : ∀ a g x, s.pc a = .jCas g x → x ≠ WTJ ∧ x ≠ DET) (cxd : ∀ a g x, s.pc a = .dCas g x → x ≠ WTJ ∧ x ≠ DET) (cxf : ∀ a x, s.pc a = .fCas x → x ≠ DET) (dr : ∀ g, s.det g ≤ 3) (hc : stepCore s e = some s1) : ∀ g, s1.detX g = true → s1.succ g = [] := by
  step_cases e with hc
  all_goals (intros; (try simp only [upd_apply, WFJ, DET, NONE, WTJ] at *); first | grind | grind (splits := 25) | grind (splits := 80) | ((repeat' split) <;> grind (splits := 80)))

set_option maxHeartbeats 4000000 in
theorem inv2_dx2 (dx2 : ∀ g a, s.detX g = true → claimPath (s.pc a) g = true → detTake (s.pc a) g = true) (cpn : ∀ a g, claimPath (s.pc a) g = true → s.det g ≠ NONE) (k3 : ∀ g a, claimPath (s.pc a) g = true → s.det g ≠ WFJ) (t4 : ∀ g, s.detX g = true → s.det g = DET) (detx : ∀ g, s.det g = DET → (s.detX g = true ∨ s.claimed g = true)) (cxj : ∀ a g x, s.pc a = .jCas g x → x ≠ WTJ ∧ x ≠ DET) (cxd : ∀ a g x, s.pc a = .dCas g x → x ≠ WTJ ∧ x ≠ DET) (cxf : ∀ a x, s.pc a = .fCas x → x ≠ DET) (dr : ∀ g, s.det g ≤ 3) (hc : stepCore s e = some s1) : ∀ g a, s1.detX g = true → claimPath (s1.pc a) g = true → detTake (s1.pc a) g = true := by
  step_cases e with hc
  all_goals (intros; (try simp only [upd_apply, WFJ, DET, NONE, WTJ] at *); first | grind | grind (splits := 25) | grind (splits := 80) | ((repeat' split) <;> grind (splits := 80)))

end LibfiberVerif.JoinCas
