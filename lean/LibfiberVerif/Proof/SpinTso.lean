/-
  Proof/SpinTso.lean — invariant of the ticket spinlock on x86-TSO (`Model/SpinTso.lean`).

  The shape of the argument:
    * a holder's buffer contains data stores only, and `gIssued = ticket` (every unlock store
      issued so far has drained);
    * a non-holder's non-empty buffer is `[data stores …, tk gIssued]` and
      `gIssued = ticket + 1`: it is THE pending release;
    * hence a spinner (ticket `my ≥ gIssued`) that reads `my` from MEMORY proves
      `gIssued = ticket`: no release is pending, every buffer of a non-holder is empty — the
      ticket store is the last entry of the releasing buffer, FIFO draining put the data
      stores into memory before it;
    * `owner` = the thread of the most recent plain store is the only thread whose buffer can
      be non-empty, and the data cell seen through ITS buffer is `lastWrite`.
-/
import LibfiberVerif.Model.SpinTso

namespace LibfiberVerif.SpinTso

/-! ### buffer lemmas -/

@[simp] theorem allDat_snoc_dat (b : Buf) (v : Int) : allDat (b ++ [.dat v]) = allDat b := by
  induction b with
  | nil => rfl
  | cons e r ih => cases e <;> simp [allDat, ih]

theorem rel_snoc (b : Buf) (g : Nat) (h : allDat b = true) : rel g (b ++ [.tk g]) = true := by
  induction b with
  | nil => simp [rel]
  | cons e r ih => cases e <;> simp_all [allDat, rel]

theorem rel_tk_cons {g x : Nat} {r : Buf} (h : rel g (.tk x :: r) = true) : x = g ∧ r = [] := by
  simpa [rel] using h

theorem rel_ne_nil {g : Nat} {b : Buf} (h : rel g b = true) : b ≠ [] := by
  cases b <;> simp_all [rel]

theorem rel_hasTk {g : Nat} {b : Buf} (h : rel g b = true) : hasTk b = true := by
  induction b with
  | nil => simp [rel] at h
  | cons e r ih => cases e <;> simp_all [rel, hasTk]

theorem allDat_not_hasTk {b : Buf} (h : allDat b = true) : hasTk b = false := by
  induction b with
  | nil => rfl
  | cons e r ih => cases e <;> simp_all [allDat, hasTk]

theorem rdT_allDat (b : Buf) (d : Nat) (h : allDat b = true) : rdT b d = d := by
  induction b generalizing d with
  | nil => rfl
  | cons e r ih => cases e <;> simp_all [allDat, rdT]

@[simp] theorem rdD_snoc_dat (b : Buf) (v d : Int) : rdD (b ++ [.dat v]) d = v := by
  induction b generalizing d with
  | nil => rfl
  | cons e r ih => cases e <;> simp [rdD, ih]

@[simp] theorem rdD_snoc_tk (b : Buf) (x : Nat) (d : Int) : rdD (b ++ [.tk x]) d = rdD b d := by
  induction b generalizing d with
  | nil => rfl
  | cons e r ih => cases e <;> simp [rdD, ih]

/-- the release shape says where the buffer ends: `[data …, tk g]` -/
theorem rel_iff (g : Nat) (b : Buf) :
    rel g b = true ↔ ∃ ds : List Int, b = ds.map Entry.dat ++ [.tk g] := by
  induction b with
  | nil => simp [rel]
  | cons e r ih =>
    cases e with
    | tk x =>
      constructor
      · intro h
        obtain ⟨rfl, rfl⟩ := rel_tk_cons h
        exact ⟨[], rfl⟩
      · rintro ⟨ds, h⟩
        cases ds with
        | nil => simp at h; simp [rel, h]
        | cons d ds => simp at h
    | dat v =>
      simp only [rel, ih]
      constructor
      · rintro ⟨ds, rfl⟩; exact ⟨v :: ds, rfl⟩
      · rintro ⟨ds, h⟩
        cases ds with
        | nil => simp at h
        | cons d ds => simp at h; exact ⟨ds, h.2⟩

/-! ### the invariant -/

structure Inv (s : St) : Prop where
  fifo : s.fifoBuf = true
  le1 : s.ticket ≤ s.gIssued
  le2 : s.gIssued ≤ s.users
  le3 : s.gIssued ≤ s.ticket + 1
  spin : ∀ t my, s.pc t = .spinning my → s.gIssued ≤ my ∧ my < s.users ∧ s.buf t = []
  inj : ∀ t1 t2 my, s.pc t1 = .spinning my → s.pc t2 = .spinning my → t1 = t2
  hold : ∀ t, holder (s.pc t) = true →
    s.gIssued < s.users ∧ s.gIssued = s.ticket ∧ allDat (s.buf t) = true
  holdsp : ∀ t t' my, holder (s.pc t) = true → s.pc t' = .spinning my → my ≠ s.gIssued
  excl : ∀ t1 t2, holder (s.pc t1) = true → holder (s.pc t2) = true → t1 = t2
  unl : ∀ t x, s.pc t = .unlockRead x → x = s.ticket
  nh : ∀ t, holder (s.pc t) = false → s.buf t ≠ [] →
    rel s.gIssued (s.buf t) = true ∧ s.gIssued = s.ticket + 1
  own : ∀ t, s.buf t ≠ [] → t = s.owner
  pend : s.gIssued ≠ s.ticket → rel s.gIssued (s.buf s.owner) = true
  lw : rdD (s.buf s.owner) s.data = s.lastWrite

/-- While `t` holds the lock every other buffer is empty. -/
theorem Inv.others_empty {s : St} (hi : Inv s) (t t' : Nat) (ht : holder (s.pc t) = true)
    (hne : t' ≠ t) : s.buf t' = [] := by
  cases hb : s.buf t' with
  | nil => rfl
  | cons e r =>
    have hne' : s.buf t' ≠ [] := by simp [hb]
    cases hh : holder (s.pc t') with
    | true => exact absurd (hi.excl t' t hh ht) hne
    | false =>
      have h1 := (hi.nh t' hh hne').2
      have h2 := (hi.hold t ht).2.1
      omega

/-- The holder's view of the data cell (own buffer, else memory) is the last value written. -/
theorem Inv.holder_view {s : St} (hi : Inv s) (t : Nat) (ht : holder (s.pc t) = true) :
    rdD (s.buf t) s.data = s.lastWrite := by
  by_cases ho : t = s.owner
  · rw [ho]; exact hi.lw
  · have h1 : s.buf t = [] := by
      cases hb : s.buf t with
      | nil => rfl
      | cons e r => exact absurd (hi.own t (by simp [hb])) ho
    have h2 : s.buf s.owner = [] := hi.others_empty t s.owner ht (fun h => ho h.symm)
    have h3 := hi.lw
    rw [h2] at h3
    rw [h1]; exact h3

theorem inv_init (v0 : Nat) : Inv (init true v0) := by
  constructor <;> simp [init, holder, rdD]

/-- close an `Inv s'` goal once `s'` is an explicit record -/
local macro "tso_grind" : tactic =>
  `(tactic| grind [holder, allDat, rel, rdD, rdT, rel_snoc, rel_ne_nil, rdT_allDat,
      allDat_snoc_dat, rdD_snoc_dat, rdD_snoc_tk])

local macro "tso_close" : tactic =>
  `(tactic| (constructor <;> (intros; simp only [upd] at *; tso_grind)))

theorem inv_callLock (s s' : St) (t : Nat) (hi : Inv s)
    (hs : step s (.callLock t) = some s') : Inv s' := by
  obtain ⟨hfifo, hle1, hle2, hle3, hspin, hinj, hhold, hholdsp, hexcl, hunl, hnh, hown, hpend,
    hlw⟩ := hi
  simp only [step] at hs <;> split at hs <;> simp at hs
  all_goals first
    | (subst hs; tso_close)
    | (obtain ⟨h1, hs⟩ := hs; subst hs; tso_close)

theorem inv_faddUsers (s s' : St) (t : Nat) (old : Nat) (hi : Inv s)
    (hs : step s (.faddUsers t old) = some s') : Inv s' := by
  obtain ⟨hfifo, hle1, hle2, hle3, hspin, hinj, hhold, hholdsp, hexcl, hunl, hnh, hown, hpend,
    hlw⟩ := hi
  simp only [step] at hs <;> split at hs <;> simp at hs
  all_goals first
    | (subst hs; tso_close)
    | (obtain ⟨h1, hs⟩ := hs; subst hs; tso_close)

theorem inv_retLock (s s' : St) (t : Nat) (hi : Inv s)
    (hs : step s (.retLock t) = some s') : Inv s' := by
  obtain ⟨hfifo, hle1, hle2, hle3, hspin, hinj, hhold, hholdsp, hexcl, hunl, hnh, hown, hpend,
    hlw⟩ := hi
  simp only [step] at hs <;> split at hs <;> simp at hs
  all_goals first
    | (subst hs; tso_close)
    | (obtain ⟨h1, hs⟩ := hs; subst hs; tso_close)

theorem inv_csEnter (s s' : St) (t : Nat) (hi : Inv s)
    (hs : step s (.csEnter t) = some s') : Inv s' := by
  obtain ⟨hfifo, hle1, hle2, hle3, hspin, hinj, hhold, hholdsp, hexcl, hunl, hnh, hown, hpend,
    hlw⟩ := hi
  simp only [step] at hs <;> split at hs <;> simp at hs
  all_goals first
    | (subst hs; tso_close)
    | (obtain ⟨h1, hs⟩ := hs; subst hs; tso_close)

theorem inv_csExit (s s' : St) (t : Nat) (hi : Inv s)
    (hs : step s (.csExit t) = some s') : Inv s' := by
  obtain ⟨hfifo, hle1, hle2, hle3, hspin, hinj, hhold, hholdsp, hexcl, hunl, hnh, hown, hpend,
    hlw⟩ := hi
  simp only [step] at hs <;> split at hs <;> simp at hs
  all_goals first
    | (subst hs; tso_close)
    | (obtain ⟨h1, hs⟩ := hs; subst hs; tso_close)

theorem inv_csWrite (s s' : St) (t : Nat) (v : Int) (hi : Inv s)
    (hs : step s (.csWrite t v) = some s') : Inv s' := by
  obtain ⟨hfifo, hle1, hle2, hle3, hspin, hinj, hhold, hholdsp, hexcl, hunl, hnh, hown, hpend,
    hlw⟩ := hi
  simp only [step] at hs <;> split at hs <;> simp at hs
  all_goals first
    | (subst hs; tso_close)
    | (obtain ⟨h1, hs⟩ := hs; subst hs; tso_close)

theorem inv_callUnlock (s s' : St) (t : Nat) (hi : Inv s)
    (hs : step s (.callUnlock t) = some s') : Inv s' := by
  obtain ⟨hfifo, hle1, hle2, hle3, hspin, hinj, hhold, hholdsp, hexcl, hunl, hnh, hown, hpend,
    hlw⟩ := hi
  simp only [step] at hs <;> split at hs <;> simp at hs
  all_goals first
    | (subst hs; tso_close)
    | (obtain ⟨h1, hs⟩ := hs; subst hs; tso_close)

theorem inv_stTicket (s s' : St) (t : Nat) (x : Nat) (hi : Inv s)
    (hs : step s (.stTicket t x) = some s') : Inv s' := by
  have hview := hi.holder_view t
  obtain ⟨hfifo, hle1, hle2, hle3, hspin, hinj, hhold, hholdsp, hexcl, hunl, hnh, hown, hpend,
    hlw⟩ := hi
  simp only [step] at hs <;> split at hs <;> simp at hs
  all_goals first
    | (subst hs; tso_close)
    | (obtain ⟨h1, hs⟩ := hs; subst hs; tso_close)

theorem inv_retUnlock (s s' : St) (t : Nat) (hi : Inv s)
    (hs : step s (.retUnlock t) = some s') : Inv s' := by
  obtain ⟨hfifo, hle1, hle2, hle3, hspin, hinj, hhold, hholdsp, hexcl, hunl, hnh, hown, hpend,
    hlw⟩ := hi
  simp only [step] at hs <;> split at hs <;> simp at hs
  all_goals first
    | (subst hs; tso_close)
    | (obtain ⟨h1, hs⟩ := hs; subst hs; tso_close)

theorem inv_callTry (s s' : St) (t : Nat) (hi : Inv s)
    (hs : step s (.callTry t) = some s') : Inv s' := by
  obtain ⟨hfifo, hle1, hle2, hle3, hspin, hinj, hhold, hholdsp, hexcl, hunl, hnh, hown, hpend,
    hlw⟩ := hi
  simp only [step] at hs <;> split at hs <;> simp at hs
  all_goals first
    | (subst hs; tso_close)
    | (obtain ⟨h1, hs⟩ := hs; subst hs; tso_close)

theorem inv_ldBlob (s s' : St) (t : Nat) (tk : Nat) (us : Nat) (hi : Inv s)
    (hs : step s (.ldBlob t tk us) = some s') : Inv s' := by
  obtain ⟨hfifo, hle1, hle2, hle3, hspin, hinj, hhold, hholdsp, hexcl, hunl, hnh, hown, hpend,
    hlw⟩ := hi
  simp only [step] at hs <;> split at hs <;> simp at hs
  all_goals first
    | (subst hs; tso_close)
    | (obtain ⟨h1, hs⟩ := hs; subst hs; tso_close)

theorem inv_retTry (s s' : St) (t : Nat) (r : Nat) (hi : Inv s)
    (hs : step s (.retTry t r) = some s') : Inv s' := by
  obtain ⟨hfifo, hle1, hle2, hle3, hspin, hinj, hhold, hholdsp, hexcl, hunl, hnh, hown, hpend,
    hlw⟩ := hi
  simp only [step] at hs <;> split at hs <;> simp at hs
  all_goals first
    | (subst hs; tso_close)
    | (obtain ⟨h1, hs⟩ := hs; subst hs; tso_close)

theorem inv_casBlob (s s' : St) (t ftk fus etk eus dtk dus : Nat) (ok : Bool) (hi : Inv s)
    (hs : step s (.casBlob t ftk fus etk eus dtk dus ok) = some s') : Inv s' := by
  obtain ⟨hfifo, hle1, hle2, hle3, hspin, hinj, hhold, hholdsp, hexcl, hunl, hnh, hown, hpend,
    hlw⟩ := hi
  simp only [step] at hs
  split at hs <;> simp at hs
  obtain ⟨⟨h0, h1, h2, h3, h4, h5, h6, h7⟩, hs⟩ := hs
  subst h1 h2 h3 h4 h5 h6
  cases ok with
  | false => simp at hs; subst hs; tso_close
  | true =>
    simp at hs h7
    subst hs; tso_close

theorem inv_ldTicket (s s' : St) (t x : Nat) (hi : Inv s)
    (hs : step s (.ldTicket t x) = some s') : Inv s' := by
  have hi0 := hi
  obtain ⟨hfifo, hle1, hle2, hle3, hspin, hinj, hhold, hholdsp, hexcl, hunl, hnh, hown, hpend,
    hlw⟩ := hi
  simp only [step] at hs
  split at hs <;> simp at hs
  · obtain ⟨h1, hs⟩ := hs
    split at hs <;> simp at hs <;> subst hs
    · tso_close
    · exact hi0
  · obtain ⟨h1, hs⟩ := hs; subst hs; tso_close

theorem inv_flush (s s' : St) (t : Nat) (hi : Inv s)
    (hs : step s (.flush t) = some s') : Inv s' := by
  obtain ⟨hfifo, hle1, hle2, hle3, hspin, hinj, hhold, hholdsp, hexcl, hunl, hnh, hown, hpend,
    hlw⟩ := hi
  simp only [step] at hs
  split at hs <;> simp at hs <;> subst hs <;> tso_close

theorem inv_step (s s' : St) (e : Ev) (hi : Inv s) (hs : step s e = some s') : Inv s' := by
  cases e with
  | callLock t => exact inv_callLock s s' t hi hs
  | faddUsers t old => exact inv_faddUsers s s' t old hi hs
  | retLock t => exact inv_retLock s s' t hi hs
  | csEnter t => exact inv_csEnter s s' t hi hs
  | csExit t => exact inv_csExit s s' t hi hs
  | csWrite t v => exact inv_csWrite s s' t v hi hs
  | callUnlock t => exact inv_callUnlock s s' t hi hs
  | stTicket t x => exact inv_stTicket s s' t x hi hs
  | retUnlock t => exact inv_retUnlock s s' t hi hs
  | callTry t => exact inv_callTry s s' t hi hs
  | ldBlob t tk us => exact inv_ldBlob s s' t tk us hi hs
  | retTry t r => exact inv_retTry s s' t r hi hs
  | casBlob t ftk fus etk eus dtk dus ok => exact inv_casBlob s s' t ftk fus etk eus dtk dus ok hi hs
  | ldTicket t x => exact inv_ldTicket s s' t x hi hs
  | flush t => exact inv_flush s s' t hi hs
  | flushAny t i => simp [step, hi.fifo] at hs
  | csRead t v =>
    simp only [step] at hs
    split at hs <;> simp at hs
    subst hs; exact hi

theorem inv_of_run {v0 : Nat} {es : List Ev} {s : St} (hr : (sys true v0).run es = some s) :
    Inv s :=
  Sys.inv_of_run (sys true v0) Inv (inv_init v0) (fun s e s' hi hs => inv_step s s' e hi hs) hr

/-! ### consequences used by `Props/TsoSpin.lean` -/

/-- With every issued unlock store drained, a non-holder's buffer is empty. -/
theorem Inv.empty_of_not_holder {s : St} (hi : Inv s) (heq : s.gIssued = s.ticket) (t : Nat)
    (hh : holder (s.pc t) = false) : s.buf t = [] := by
  cases hb : s.buf t with
  | nil => rfl
  | cons e r =>
    have := (hi.nh t hh (by simp [hb])).2
    omega

/-- A buffer with a pending unlock store belongs to a non-holder. -/
theorem Inv.not_holder_of_hasTk {s : St} (hi : Inv s) (t : Nat) (h : hasTk (s.buf t) = true) :
    holder (s.pc t) = false := by
  cases hh : holder (s.pc t) with
  | false => rfl
  | true =>
    have := allDat_not_hasTk (hi.hold t hh).2.2
    rw [h] at this; cases this

theorem Inv.pending_release {s : St} (hi : Inv s) (t : Nat) (h : hasTk (s.buf t) = true) :
    rel s.gIssued (s.buf t) = true ∧ s.gIssued = s.ticket + 1 ∧ ∀ t', holder (s.pc t') = false := by
  have hnh := hi.not_holder_of_hasTk t h
  have hne : s.buf t ≠ [] := by
    intro h0; rw [h0] at h; simp [hasTk] at h
  obtain ⟨h1, h2⟩ := hi.nh t hnh hne
  refine ⟨h1, h2, ?_⟩
  intro t'
  cases hh : holder (s.pc t') with
  | false => rfl
  | true => have := (hi.hold t' hh).2.1; omega

/-- A successful `trylock` CAS: the lock is idle in memory AND in every store buffer. -/
theorem Inv.cas_success {s s' : St} (hi : Inv s) {t ftk fus etk eus dtk dus : Nat}
    (hs : step s (.casBlob t ftk fus etk eus dtk dus true) = some s') :
    s.ticket = s.users ∧ s.gIssued = s.ticket ∧ (∀ t', holder (s.pc t') = false) ∧
      (∀ t' my, s.pc t' ≠ .spinning my) ∧ ∀ t', s.buf t' = [] := by
  simp only [step] at hs
  split at hs <;> simp at hs
  obtain ⟨⟨h0, h1, h2, h3, h4, h5, h6, h7, h8⟩, _⟩ := hs
  have hle1 := hi.le1
  have hle2 := hi.le2
  have hidle : s.ticket = s.users := by omega
  have hiss : s.gIssued = s.ticket := by omega
  have hno : ∀ t', holder (s.pc t') = false := by
    intro t'
    cases hh : holder (s.pc t') with
    | false => rfl
    | true => have := (hi.hold t' hh).1; omega
  refine ⟨hidle, hiss, hno, ?_, fun t' => hi.empty_of_not_holder hiss t' (hno t')⟩
  intro t' my hsp
  have := hi.spin _ _ hsp
  omega

/-- The spin loop of `lock` exits: the thread read its ticket from MEMORY, every unlock store
    issued so far has drained, nobody holds the lock, every store buffer is empty. -/
theorem Inv.lock_exit {s s' : St} (hi : Inv s) {t x my : Nat} (hpc : s.pc t = .spinning my)
    (hs : step s (.ldTicket t x) = some s') (hacq : s'.pc t = .lockDone) :
    x = my ∧ s.ticket = my ∧ s.gIssued = my ∧ (∀ t', holder (s.pc t') = false) ∧
      ∀ t', s.buf t' = [] := by
  obtain ⟨hsp1, hsp2, hsp3⟩ := hi.spin _ _ hpc
  have hle1 := hi.le1
  simp only [step, hpc, hsp3, rdT] at hs
  split at hs
  · next hx =>
    split at hs
    · next hmy =>
      have hiss : s.gIssued = my := by omega
      have hno : ∀ t', holder (s.pc t') = false := by
        intro t'
        cases hh : holder (s.pc t') with
        | false => rfl
        | true => exact absurd hiss.symm (hi.holdsp t' t my hh hpc)
      exact ⟨hmy, by omega, hiss, hno,
        fun t' => hi.empty_of_not_holder (by omega) t' (hno t')⟩
    · simp at hs; subst hs; rw [hpc] at hacq; simp at hacq
  · simp at hs


theorem upd_upd_same {α : Type} (f : Nat → α) (i : Nat) (a b : α) :
    upd (upd f i a) i b = upd f i b := by
  funext j; simp only [upd]; split <;> rfl

/-- `casBlob` never looks at the ticket half that `ldBlob` stored in the pc. -/
theorem cas_ignores_ticket_half (s : St) (t tk tk' us ftk fus etk eus dtk dus : Nat) (ok : Bool) :
    step { s with pc := upd s.pc t (.tryRead tk us) } (.casBlob t ftk fus etk eus dtk dus ok) =
    step { s with pc := upd s.pc t (.tryRead tk' us) } (.casBlob t ftk fus etk eus dtk dus ok) := by
  simp only [step, upd_same, upd_upd_same]

/-! ### FIFO: the waiting `lock` callers form a queue sorted by ticket -/

/-- `q` = the waiting `lock` callers (thread, ticket) in the order of their fetch_add -/
structure QInv (s : St) (q : List (Nat × Nat)) : Prop where
  ord : s.order = s.acq ++ q.map Prod.fst
  mem : ∀ t g, (t, g) ∈ q ↔ s.pc t = .spinning g
  sorted : q.Pairwise (fun a b => a.2 < b.2)

theorem qinv_init (v0 : Nat) : QInv (init true v0) [] := by
  constructor <;> simp [init]

/-- a step that neither creates nor removes a spinner keeps the queue -/
theorem qinv_pc_only {s : St} {q : List (Nat × Nat)} (hq : QInv s q) (t : Nat) (p : Pc)
    (s' : St) (ho : s'.order = s.order) (ha : s'.acq = s.acq) (hpc : s'.pc = upd s.pc t p)
    (h1 : ∀ my, s.pc t ≠ .spinning my) (h2 : ∀ my, p ≠ .spinning my) : QInv s' q := by
  obtain ⟨hord, hmem, hsorted⟩ := hq
  refine ⟨by rw [ho, ha]; exact hord, ?_, hsorted⟩
  intro t' g
  rw [hmem, hpc]
  simp only [upd]
  grind

/-- a step that leaves pcs and the two ghost lists alone keeps the queue -/
theorem qinv_same {s : St} {q : List (Nat × Nat)} (hq : QInv s q)
    (s' : St) (ho : s'.order = s.order) (ha : s'.acq = s.acq) (hpc : s'.pc = s.pc) :
    QInv s' q := by
  obtain ⟨hord, hmem, hsorted⟩ := hq
  exact ⟨by rw [ho, ha]; exact hord, by rw [hpc]; exact hmem, hsorted⟩

theorem qinv_step (s s' : St) (e : Ev) (q : List (Nat × Nat)) (hi : Inv s)
    (hq : QInv s q) (hs : step s e = some s') : ∃ q', QInv s' q' := by
  cases e with
  | faddUsers t old =>
    simp only [step] at hs
    split at hs <;> simp at hs
    next hpc =>
    obtain ⟨⟨_, h1⟩, hs⟩ := hs
    subst hs
    obtain ⟨hord, hmem, hsorted⟩ := hq
    refine ⟨q ++ [(t, old)], ?_, ?_, ?_⟩
    · simp [hord]
    · intro t' g
      simp only [List.mem_append, hmem, upd, List.mem_singleton, Prod.mk.injEq]
      by_cases htt : t' = t
      · subst htt
        simp [hpc]
        exact eq_comm
      · simp [htt]
    · rw [List.pairwise_append]
      refine ⟨hsorted, by simp, ?_⟩
      intro a ha b hb'
      simp at hb'
      subst hb'
      have hmy := (hmem a.1 a.2).1 ha
      have := (hi.spin _ _ hmy).2.1
      simp; omega
  | ldTicket t x =>
    simp only [step] at hs
    split at hs <;> simp at hs
    · next my hpc =>
      obtain ⟨h1, hs⟩ := hs
      split at hs <;> simp at hs <;> subst hs
      · next hx =>
        -- the spin loop exits: `t` has the ticket being served, hence is the head of `q`
        obtain ⟨hord, hmem, hsorted⟩ := hq
        obtain ⟨hsp1, hsp2, hsp3⟩ := hi.spin _ _ hpc
        have hle1 := hi.le1
        rw [hsp3] at h1
        simp only [rdT] at h1
        have hg : my = s.gIssued := by omega
        have hin : (t, my) ∈ q := (hmem t my).2 hpc
        cases q with
        | nil => simp at hin
        | cons hd rest =>
          obtain ⟨ht, hgd⟩ := hd
          rw [List.pairwise_cons] at hsorted
          have hhd : (ht, hgd) = (t, my) := by
            rcases List.mem_cons.1 hin with h | h
            · exact h.symm
            · have := hsorted.1 _ h
              have hmy' := (hmem ht hgd).1 (by simp)
              have := (hi.spin _ _ hmy').1
              simp at *; omega
          simp only [Prod.mk.injEq] at hhd
          obtain ⟨rfl, rfl⟩ := hhd
          refine ⟨rest, ?_, ?_, hsorted.2⟩
          · simp [hord]
          · intro t' g'
            constructor
            · intro hm
              have hlt := hsorted.1 _ hm
              have hmy' := (hmem t' g').1 (List.mem_cons_of_mem _ hm)
              have hne : t' ≠ ht := by
                rintro rfl
                rw [hpc] at hmy'
                simp at hmy' hlt
                omega
              simp [upd, hne, hmy']
            · intro hmy'
              simp only [upd] at hmy'
              split at hmy'
              · simp at hmy'
              · next hne =>
                rcases List.mem_cons.1 ((hmem t' g').2 hmy') with h | h
                · simp at h; exact absurd h.1 hne
                · exact h
      · exact ⟨q, hq⟩
    · next hpc =>
      obtain ⟨h1, hs⟩ := hs
      exact ⟨q, qinv_pc_only hq t _ s' (by subst hs; rfl) (by subst hs; rfl) (by subst hs; rfl)
        (by simp [hpc]) (by simp)⟩
  | casBlob t ftk fus etk eus dtk dus ok =>
    simp only [step] at hs
    split at hs <;> simp at hs
    next hpc =>
    obtain ⟨_, hs⟩ := hs
    split at hs <;> simp at hs <;>
      exact ⟨q, qinv_pc_only hq t _ s' (by subst hs; rfl) (by subst hs; rfl) (by subst hs; rfl)
        (by simp [hpc]) (by simp)⟩
  | flush t =>
    simp only [step] at hs
    split at hs <;> simp at hs <;>
      exact ⟨q, qinv_same hq s' (by subst hs; rfl) (by subst hs; rfl) (by subst hs; rfl)⟩
  | flushAny t i => simp [step, hi.fifo] at hs
  | csWrite t v =>
    simp only [step] at hs
    split at hs <;> simp at hs
    exact ⟨q, qinv_same hq s' (by subst hs; rfl) (by subst hs; rfl) (by subst hs; rfl)⟩
  | csRead t v =>
    simp only [step] at hs
    split at hs <;> simp at hs
    subst hs; exact ⟨q, hq⟩
  | _ =>
    simp only [step] at hs
    split at hs <;> simp at hs
    all_goals first
      | (next hpc =>
          exact ⟨q, qinv_pc_only hq _ _ s' (by subst hs; rfl) (by subst hs; rfl) (by subst hs; rfl)
            (by simp [hpc]) (by simp)⟩)
      | (next hpc =>
          obtain ⟨_, hs⟩ := hs
          exact ⟨q, qinv_pc_only hq _ _ s' (by subst hs; rfl) (by subst hs; rfl) (by subst hs; rfl)
            (by simp [hpc]) (by simp)⟩)

theorem qinv_of_run {v0 : Nat} {es : List Ev} {s : St} (hr : (sys true v0).run es = some s) :
    ∃ q, QInv s q := by
  have h := Sys.inv_of_run (sys true v0) (fun s => Inv s ∧ ∃ q, QInv s q)
    ⟨inv_init v0, [], qinv_init v0⟩
    (fun s e s' hI hs => by
      obtain ⟨hi, q, hq⟩ := hI
      exact ⟨inv_step s s' e hi hs, qinv_step s s' e q hi hq hs⟩) hr
  exact h.2

end LibfiberVerif.SpinTso
