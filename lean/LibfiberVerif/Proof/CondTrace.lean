/-
  Proof/CondTrace.lean — trace-level facts about the signaller's ghost counters (property C05):
  `claimed f` changes only at f's own call / claim events, `popped f` is reset at f's call and
  otherwise counts exactly f's pops of `cond->waiters`.  Used to state "a signal pops exactly
  one waiter between its fetch_sub and its return" over event lists.
-/
import LibfiberVerif.Proof.CondAtomic

namespace LibfiberVerif.Cond

/-- events that start a signal/broadcast call of `f` or make its claim -/
def isSigStart (f : Nat) : Ev → Bool
  | .callSignal g _ | .callBroadcast g _ | .fsubCount g _ | .xchgCount g _ => g = f
  | _ => false

/-- a pop of `cond->waiters` (`head := next`) by `f` -/
def isPopBy (f : Nat) : Ev → Bool
  | .wHead .C g _ => g = f
  | _ => false

/-- a pop of `cond->waiters` by whoever -/
def isPopEv : Ev → Bool
  | .wHead .C _ _ => true
  | _ => false

theorem isPopBy_eq (f : Nat) (e : Ev) : isPopBy f e = (isPopEv e && decide (actorOf e = f)) := by
  cases e <;> first | rfl | skip
  next q g n => cases q <;> rfl

def popsBy (f : Nat) (es : List Ev) : Nat := (es.filter (isPopBy f)).length

/-- the signaller-side counters of `f` agree in `s` and `s'` -/
def SameSig (f : Nat) (s s' : St) : Prop :=
  (s'.gh f).claimed = (s.gh f).claimed ∧ (s'.gh f).popped = (s.gh f).popped

theorem SameSig.rfl' {f : Nat} {s : St} : SameSig f s s := ⟨rfl, rfl⟩

theorem sameSig_of_gh {f : Nat} {s s' : St} (h : s'.gh = s.gh) : SameSig f s s' := by
  simp only [SameSig, h]; exact ⟨trivial, trivial⟩

theorem sameSig_upd {f g : Nat} {s s' : St} {g' : G} (h : s'.gh = upd s.gh g g')
    (hc : g'.claimed = (s.gh g).claimed) (hp : g'.popped = (s.gh g).popped) : SameSig f s s' := by
  simp only [SameSig, h, upd]; split
  · next hfg => subst hfg; exact ⟨hc, hp⟩
  · exact ⟨rfl, rfl⟩

theorem sameSig_upd_ne {f g : Nat} {s s' : St} {g' : G} (h : s'.gh = upd s.gh g g') (hne : g ≠ f) :
    SameSig f s s' := by
  simp only [SameSig, h, upd]; split
  · next hfg => exact absurd hfg.symm hne
  · exact ⟨rfl, rfl⟩

theorem finishOne_gh {s s' : St} {f : Nat} {bc : Bool} {k : Nat} (h : finishOne s f bc k = some s') :
    s'.gh = s.gh := by
  simp only [Cond.finishOne] at h
  split at h
  · obtain ⟨x, hx, rfl⟩ := toUnlockI_shape h; rfl
  · simp at h; subst h; rfl

theorem retireD_gh {s s' : St} {g w : Nat} (h : retireD s g w = some s') : s'.gh = s.gh := by
  rcases retireD_shape h with ⟨x, o, hx, rfl⟩ | ⟨_, o, rfl⟩ <;> rfl

/-- the cond's own queue steps: only the pop touches the signaller counters, of the popper -/
theorem stepC_sig {s s' : St} {a : Nat} {e : Ev} (h : stepC s a e = some s') (f : Nat) :
    (s'.gh f).claimed = (s.gh f).claimed ∧
    (s'.gh f).popped = (s.gh f).popped + (if isPopEv e = true ∧ a = f then 1 else 0) := by
  cases e <;> simp only [Cond.stepC] at h <;> (repeat' split at h) <;> (try simp at h) <;> (try subst h)
  all_goals first
    | (exact ⟨rfl, by simp [isPopEv]⟩)
    | (have := finishOne_gh h; rw [this]; exact ⟨rfl, by simp [isPopEv]⟩)
    | skip
  -- xchgTail
  · have := sameSig_upd (f := f) (s := s) (g := a)
      (s' := { s with gh := upd s.gh a { s.gh a with nE := (s.gh a).nE + 1 } }) rfl rfl rfl
    simpa [isPopEv, SameSig] using this
  -- the pop
  · rename_i hq _ _ gp hord hg
    obtain ⟨rfl, -⟩ := hq
    simp only [upd, isPopEv]
    split
    · next h => subst h; simp
    · next hne =>
      have : ¬ a = f := fun h => hne h.symm
      simp only [this, and_false, if_false]
      split
      · next h => subst h; exact ⟨rfl, rfl⟩
      · exact ⟨rfl, rfl⟩
  -- the link
  · have := sameSig_upd (f := f) (s := s) (g := a)
      (s' := { s with gh := upd s.gh a { s.gh a with nL := (s.gh a).nL + 1 } }) rfl rfl rfl
    simpa [isPopEv, SameSig] using this

theorem dispatch_sig {s s' : St} {e : Ev} (h : dispatch s e = some s') (f : Nat) :
    (s'.gh f).claimed = (s.gh f).claimed ∧
    (s'.gh f).popped = (s.gh f).popped + (if isPopBy f e = true then 1 else 0) := by
  simp only [Cond.dispatch] at h
  split at h
  · split at h
    · have := stepC_sig h f
      refine ⟨this.1, ?_⟩
      rw [this.2, isPopBy_eq]
      simp
    · cases h
  · next hc =>
    split at h
    · next ht =>
      simp only [Option.bind_eq_some_iff] at h
      obtain ⟨me, hme, h⟩ := h
      obtain ⟨x, hx, rfl⟩ := stepI_shape h
      have : isPopBy f e = false := by
        cases e <;> simp [isPopBy, tagOf] at ht ⊢
        next q g n => cases q <;> simp_all
      simp [this]
    · cases h
  · split at h
    · next ht =>
      simp only [Option.bind_eq_some_iff] at h
      obtain ⟨me, hme, h⟩ := h
      obtain ⟨x, hx, rfl⟩ := stepM_shape h
      have : isPopBy f e = false := by
        cases e <;> simp [isPopBy, tagOf] at ht ⊢
        next q g n => cases q <;> simp_all
      simp [this]
    · cases h
  · split at h
    · next ht =>
      simp only [Option.bind_eq_some_iff] at h
      obtain ⟨s1, ⟨me, hme, h1⟩, h⟩ := h
      obtain ⟨x, hx, rfl⟩ := stepM_shape h1
      have hg := retireD_gh h
      have : isPopBy f e = false := by
        cases e <;> simp [isPopBy, tagOf] at ht ⊢
        next q g n => cases q <;> simp_all
      simp only [hg, this]; simp
    · cases h
  · cases h

/-- every step: `claimed f` is stable and `popped f` counts f's pops, except at f's own
    call / claim events -/
theorem step_sig {s s' : St} {e : Ev} (h : step s e = some s') (f : Nat)
    (hn : isSigStart f e = false) :
    (s'.gh f).claimed = (s.gh f).claimed ∧
    (s'.gh f).popped = (s.gh f).popped + (if isPopBy f e = true then 1 else 0) := by
  have frameM : ∀ {me : Mutex.Ev} {s1 : St}, stepM s me = some s1 → s1.gh = s.gh := by
    intro me s1 h1; obtain ⟨x, hx, rfl⟩ := stepM_shape h1; rfl
  cases e with
  | callLock g => simp only [Cond.step] at h; split at h; simp [isPopBy, frameM h]; cases h
  | retLock g => simp only [Cond.step] at h; split at h; simp [isPopBy, frameM h]; cases h
  | callUnlock g => simp only [Cond.step] at h; split at h; simp [isPopBy, frameM h]; cases h
  | retUnlock g => simp only [Cond.step] at h; split at h; simp [isPopBy, frameM h]; cases h
  | csEnter g => simp only [Cond.step] at h; split at h; simp [isPopBy, frameM h]; cases h
  | csExit g v => simp only [Cond.step] at h; split at h; simp [isPopBy, frameM h]; cases h
  | callWait g =>
    simp only [Cond.step] at h; split at h
    · simp at h; subst h; simp [isPopBy]
    · cases h
  | retWait g =>
    simp only [Cond.step] at h; split at h
    · simp only [Option.map_eq_some_iff] at h
      obtain ⟨s1, h1, rfl⟩ := h
      obtain ⟨x, hx, rfl⟩ := stepM_shape h1
      have := sameSig_upd (f := f) (s := s) (g := g) (s' := { s with gh := upd s.gh g { s.gh g with nR := (s.gh g).nR + 1 } }) rfl rfl rfl
      simpa [isPopBy, SameSig] using this
    · cases h
  | callSignal g hh =>
    simp only [isSigStart, decide_eq_false_iff_not] at hn
    obtain ⟨-, s1, h1, rfl⟩ := callSig_shape (by simpa only [Cond.step] using h)
    obtain ⟨x, hx, rfl⟩ := stepI_shape h1
    have := sameSig_upd_ne (f := f) (s := s) (g := g)
      (s' := { s with gh := upd s.gh g { s.gh g with holds := hh, claimed := 0, popped := 0 } }) rfl hn
    simpa [isPopBy, SameSig] using this
  | callBroadcast g hh =>
    simp only [isSigStart, decide_eq_false_iff_not] at hn
    obtain ⟨-, s1, h1, rfl⟩ := callSig_shape (by simpa only [Cond.step] using h)
    obtain ⟨x, hx, rfl⟩ := stepI_shape h1
    have := sameSig_upd_ne (f := f) (s := s) (g := g)
      (s' := { s with gh := upd s.gh g { s.gh g with holds := hh, claimed := 0, popped := 0 } }) rfl hn
    simpa [isPopBy, SameSig] using this
  | retSignal g =>
    simp only [Cond.step, Cond.retSig] at h; split at h
    · simp only [Option.map_eq_some_iff] at h
      obtain ⟨s1, h1, rfl⟩ := h
      obtain ⟨x, hx, rfl⟩ := stepI_shape h1
      simp [isPopBy]
    · cases h
  | retBroadcast g =>
    simp only [Cond.step, Cond.retSig] at h; split at h
    · simp only [Option.map_eq_some_iff] at h
      obtain ⟨s1, h1, rfl⟩ := h
      obtain ⟨x, hx, rfl⟩ := stepI_shape h1
      simp [isPopBy]
    · cases h
  | fsubCount g old =>
    simp only [isSigStart, decide_eq_false_iff_not] at hn
    simp only [Cond.step] at h; split at h
    · simp only [Option.bind_eq_some_iff] at h
      obtain ⟨s1, h1, h⟩ := h
      obtain ⟨x, hx, rfl⟩ := stepI_shape h1
      split at h
      · simp at h; subst h
        have := sameSig_upd_ne (f := f) (s := s) (g := g)
          (s' := { s with gh := upd s.gh g { s.gh g with claimed := 1 } }) rfl hn
        simpa [isPopBy, SameSig] using this
      · simp at h; subst h; simp [isPopBy]
    · cases h
  | xchgCount g old =>
    simp only [isSigStart, decide_eq_false_iff_not] at hn
    simp only [Cond.step] at h; split at h
    · simp only [Option.bind_eq_some_iff] at h
      obtain ⟨s1, h1, h⟩ := h
      obtain ⟨x, hx, rfl⟩ := stepI_shape h1
      have key := sameSig_upd_ne (f := f) (s := s) (g := g)
          (s' := { s with gh := upd s.gh g { s.gh g with claimed := old.toNat } }) rfl hn
      simp only [] at h
      split at h
      · obtain ⟨y, hy, rfl⟩ := toUnlockI_shape h
        simpa [isPopBy, SameSig] using key
      · simp at h; subst h
        simpa [isPopBy, SameSig] using key
    · cases h
  | faddCount t g old =>
    simp only [Cond.step] at h; split at h
    · split at h
      · simp at h; subst h
        have := sameSig_upd (f := f) (s := s) (g := g)
          (s' := { s with gh := upd s.gh g { s.gh g with nC := (s.gh g).nC + 1 } }) rfl rfl rfl
        simpa [isPopBy, SameSig] using this
      · cases h
    · split at h
      · split at h
        · obtain ⟨x, hx, rfl⟩ := toUnlockI_shape h
          simp [isPopBy]
        · cases h
      · cases h
  | fsub q g old =>
    simp only [Cond.step] at h; split at h
    · split at h
      · cases h
      · split at h
        · simp only [Option.map_eq_some_iff, Option.bind_eq_some_iff] at h
          obtain ⟨s2, ⟨s1, h1, h2⟩, rfl⟩ := h
          obtain ⟨x, hx, rfl⟩ := stepM_shape h1
          obtain ⟨y, hy, rfl⟩ := stepM_shape h2
          simp [isPopBy]
        · split at h
          · simp [isPopBy, frameM h]
          · cases h
    · have := dispatch_sig h f
      simpa [isPopBy] using this
  | fadd q t g old =>
    simp only [Cond.step] at h; split at h
    · split at h
      · cases h
      · split at h
        · simp [isPopBy, frameM h]
        · split at h
          · next w hw =>
            split at h
            · simp only [Option.map_eq_some_iff, Option.bind_eq_some_iff] at h
              obtain ⟨s3, ⟨s2, ⟨s1, h1, h2⟩, h3⟩, rfl⟩ := h
              obtain ⟨x, hx, rfl⟩ := stepM_shape h1
              obtain ⟨y, hy, rfl⟩ := stepM_shape h2
              have hg := retireD_gh h3
              have := sameSig_upd (f := f) (s := s3) (g := w)
                (s' := { s3 with gh := upd s3.gh w { s3.gh w with nU := (s3.gh w).nU + 1 } }) rfl rfl rfl
              have h0 : SameSig f s s3 := sameSig_of_gh hg
              simp only [SameSig] at this h0
              simp only [isPopBy]
              exact ⟨this.1.trans h0.1, by simp; exact this.2.trans h0.2⟩
            · cases h
          · cases h
    · have := dispatch_sig h f
      simpa [isPopBy] using this
  | xchgTail q g o n => exact dispatch_sig (by simpa only [Cond.step] using h) f
  | rHead q g n => exact dispatch_sig (by simpa only [Cond.step] using h) f
  | wHead q g n => exact dispatch_sig (by simpa only [Cond.step] using h) f
  | wState g g' v => exact dispatch_sig (by simpa only [Cond.step] using h) f
  | rState g g' v => exact dispatch_sig (by simpa only [Cond.step] using h) f
  | rNode g g' n => exact dispatch_sig (by simpa only [Cond.step] using h) f
  | wNode g g' n => exact dispatch_sig (by simpa only [Cond.step] using h) f
  | wData g n g' => exact dispatch_sig (by simpa only [Cond.step] using h) f
  | rData g n g' => exact dispatch_sig (by simpa only [Cond.step] using h) f
  | wNext g n x => exact dispatch_sig (by simpa only [Cond.step] using h) f
  | rNext g n x => exact dispatch_sig (by simpa only [Cond.step] using h) f

/-- along a run segment without call / claim events of `f` -/
theorem runFrom_sig (f : Nat) : ∀ (mid : List Ev) (s s2 : St), sys.runFrom s mid = some s2 →
    (∀ e ∈ mid, isSigStart f e = false) →
    (s2.gh f).claimed = (s.gh f).claimed ∧ (s2.gh f).popped = (s.gh f).popped + popsBy f mid
  | [], s, s2, h, _ => by simp [Sys.runFrom] at h; subst h; simp [popsBy]
  | e :: mid, s, s2, h, hn => by
    simp only [Sys.runFrom] at h
    cases hs : sys.step s e with
    | none => rw [hs] at h; cases h
    | some s1 =>
      rw [hs] at h
      have h1 := step_sig (f := f) hs (hn e (by simp))
      have h2 := runFrom_sig f mid s1 s2 h (fun e' he' => hn e' (by simp [he']))
      refine ⟨by rw [h2.1, h1.1], ?_⟩
      rw [h2.2, h1.2]
      simp only [popsBy, List.filter_cons]
      split <;> simp <;> omega

theorem run_append {es fs : List Ev} {s' : St} (h : sys.run (es ++ fs) = some s') :
    ∃ s, sys.run es = some s ∧ sys.runFrom s fs = some s' := by
  simp only [Sys.run, Sys.runFrom_append] at h
  cases h1 : sys.runFrom sys.init es with
  | none => rw [h1] at h; cases h
  | some s => rw [h1] at h; exact ⟨s, h1, h⟩

theorem runFrom_single {s s' : St} {e : Ev} (h : sys.runFrom s [e] = some s') : step s e = some s' := by
  simp only [Sys.runFrom] at h
  cases h1 : sys.step s e with
  | none => rw [h1] at h; cases h
  | some s1 => rw [h1] at h; simp [Sys.runFrom] at h; subst h; exact h1

end LibfiberVerif.Cond
