/-
  Proof/QueueHistSound.lean — soundness ("no false alarm") of the API-level container monitor
  `QueueHist.check` (Core/QueueHist.lean).

  * `WellFormed ops`        what the harnesses guarantee about a history: call < ret, distinct
                            positions, distinct pushed values
  * `seqStep` / `run`       the SEQUENTIAL container specification selected by a `Cfg`
  * `Linearization`         a total order of the operations that respects real time and is a
                            legal sequential history
  * `check_sound_lin`       `check cfg ops = none` for every well-formed history that has a
                            linearization (whose final state is empty when `cfg.drained`) — for
                            EVERY `cfg`, hence for each configuration the drivers use

  The property-level statements (one per configuration in use, non-vacuity examples, one
  non-linearizable history per clause) are in `Props/QueueHist.lean`.
-/
import LibfiberVerif.Core.QueueHist

namespace LibfiberVerif.QueueHist

deriving instance DecidableEq for Op

/-! ## Well-formed histories -/

/-- What every harness guarantees about the list of completed operations:
    * `call < ret` for every operation;
    * positions are distinct (all positions come from one counter): a push shares its `call`
      position with no other operation, and no `call` position equals any `ret` position.
      (Two POPS may share their positions: `Model/Stack.lean` encodes a flush that handed out
      several items as one pop per item, all with the flush's call/return positions.  With the
      ordinary `opsOf` all positions are distinct — `opsOf_wellFormed`, `wellFormed_of_positions`.)
    * the list has no repeated entry;
    * pushed values are distinct (over ALL push calls, successful or not). -/
def WellFormed (ops : List Op) : Prop :=
  (∀ o ∈ ops, o.call < o.ret) ∧
  (∀ a ∈ ops, ∀ b ∈ ops, a.isPush = true → a.call = b.call → a = b) ∧
  (∀ a ∈ ops, ∀ b ∈ ops, a.call ≠ b.ret) ∧
  ops.Nodup ∧
  (∀ a ∈ ops, ∀ b ∈ ops, a.isPush = true → b.isPush = true → a.val = b.val → a = b)

instance (ops : List Op) : Decidable (WellFormed ops) := by
  unfold WellFormed; infer_instance

theorem WellFormed.perm {ops lin : List Op} (h : WellFormed ops) (p : lin.Perm ops) :
    WellFormed lin := by
  obtain ⟨h1, h2, h3, h4, h5⟩ := h
  refine ⟨?_, ?_, ?_, ?_, ?_⟩
  · intro o ho; exact h1 o (p.mem_iff.1 ho)
  · intro a ha b hb; exact h2 a (p.mem_iff.1 ha) b (p.mem_iff.1 hb)
  · intro a ha b hb; exact h3 a (p.mem_iff.1 ha) b (p.mem_iff.1 hb)
  · exact p.nodup_iff.2 h4
  · intro a ha b hb; exact h5 a (p.mem_iff.1 ha) b (p.mem_iff.1 hb)

theorem inj_of_nodup_map {α β : Type} (f : α → β) :
    ∀ (l : List α), (l.map f).Nodup → (∀ a ∈ l, ∀ b ∈ l, f a = f b → a = b) ∧ l.Nodup := by
  intro l
  induction l with
  | nil => intro _; exact ⟨fun a ha => absurd ha (List.not_mem_nil), List.nodup_nil⟩
  | cons x r ih =>
    intro h
    rw [List.map_cons, List.nodup_cons] at h
    obtain ⟨ih1, ih2⟩ := ih h.2
    have hx : ∀ b ∈ r, f x ≠ f b := fun b hb e => h.1 (e ▸ List.mem_map.2 ⟨b, hb, rfl⟩)
    constructor
    · intro a ha b hb e
      rcases List.mem_cons.1 ha with rfl | ha' <;> rcases List.mem_cons.1 hb with rfl | hb'
      · rfl
      · exact absurd e (hx b hb')
      · exact absurd e.symm (hx a ha')
      · exact ih1 a ha' b hb' e
    · rw [List.nodup_cons]
      exact ⟨fun hm => hx x hm rfl, ih2⟩

/-- the textbook form of "distinct positions": the `2n` call/return positions of the history are
    pairwise distinct -/
theorem wellFormed_of_positions {ops : List Op} (h1 : ∀ o ∈ ops, o.call < o.ret)
    (h2 : (ops.map (·.call) ++ ops.map (·.ret)).Nodup)
    (h3 : ∀ a ∈ ops, ∀ b ∈ ops, a.isPush = true → b.isPush = true → a.val = b.val → a = b) :
    WellFormed ops := by
  have hn := List.nodup_append.1 h2
  refine ⟨h1, ?_, ?_, ?_, h3⟩
  · intro a ha b hb _ e
    exact (inj_of_nodup_map _ ops hn.1).1 a ha b hb e
  · intro a ha b hb e
    exact hn.2.2 a.call (List.mem_map.2 ⟨a, ha, rfl⟩) b.ret (List.mem_map.2 ⟨b, hb, rfl⟩) e
  · exact (inj_of_nodup_map _ ops hn.1).2

/-! ## The sequential specification -/

/-- successful push -/
abbrev okPush (o : Op) : Bool := o.isPush && o.ok
/-- successful pop -/
abbrev okPop (o : Op) : Bool := !o.isPush && o.ok

/-- `e` overlapped no other operation of the history (literally the monitor's `alone`) -/
def alone (ops : List Op) (e : Op) : Bool :=
  ops.all (fun o => o.call = e.call || o.ret < e.call || e.ret < o.call)

/-- no push call (successful or not) overlapped `e` -/
def noPushInFlight (ops : List Op) (e : Op) : Bool :=
  (ops.filter (fun o => o.isPush)).all (fun q => q.ret < e.call || e.ret < q.call)

/-- May a pop take the element `a` out of the container content `st` (oldest first)?
    * `fifo`: `a` is the oldest element; with `perProducerFifo` only "the oldest element
      pushed by `a.thread`" (a relaxed queue may reorder values of different producers);
    * `lifo`: `a` is the newest element;
    * `bag`: any element. -/
def takeOk (cfg : Cfg) (st : List Op) (a : Op) : Bool :=
  match cfg.disc with
  | .fifo =>
    if cfg.perProducerFifo then st.find? (fun b => b.thread = a.thread) == some a
    else st.head? == some a
  | .lifo => st.getLast? == some a
  | .bag => true

/-- One step of the sequential container selected by `cfg`.  The state is the list of the push
    operations whose values are in the container, oldest first.  `ops` (the whole history) is
    needed only for the two "spurious failure" excuses, which refer to real-time overlap.

    * successful push: there must be room — `cfg.capacity = 0` means unbounded, otherwise fewer
      than `capacity` values are present; the value is appended;
    * failed push: the container is full (`capacity > 0` and `capacity` values present) — or
      `cfg.failOnlyAlone` and some other operation overlapped this one (try-operations built on
      one weak CAS, ring buffer: may fail under contention);
    * successful pop of `v`: `v` is in the container and `cfg.disc` / `cfg.perProducerFifo` allow
      taking it (`takeOk`: FIFO = oldest, per-producer FIFO = oldest of its producer, LIFO =
      newest, bag = any); it is removed;
    * pop that reports EMPTY: the container is empty — or `cfg.checkEmpty = false` (the
      container makes no promise about EMPTY answers) — or `cfg.failOnlyAlone` and another
      operation overlapped the pop — or `cfg.emptyOkInFlight` and some push call overlapped the
      pop (optimistic MPMC queue: EMPTY is legitimate while any push is in flight).

    `cfg.drained` is not part of a step: it demands that the run ends with an empty container
    (`Linearizable`). -/
def seqStep (cfg : Cfg) (ops : List Op) (st : List Op) (o : Op) : Option (List Op) :=
  if o.isPush then
    if o.ok then
      if cfg.capacity = 0 ∨ st.length < cfg.capacity then some (st ++ [o]) else none
    else
      if (0 < cfg.capacity ∧ cfg.capacity ≤ st.length) ∨
         (cfg.failOnlyAlone = true ∧ alone ops o = false) then some st else none
  else
    if o.ok then
      match st.find? (fun a => a.val = o.val) with
      | none => none
      | some a => if takeOk cfg st a then some (st.erase a) else none
    else
      if st = [] ∨ cfg.checkEmpty = false ∨
         (cfg.failOnlyAlone = true ∧ alone ops o = false) ∨
         (cfg.emptyOkInFlight = true ∧ noPushInFlight ops o = false) then some st else none

/-- run the sequential container over a list of operations -/
def run (cfg : Cfg) (ops : List Op) (st : List Op) : List Op → Option (List Op)
  | [] => some st
  | o :: rest => (seqStep cfg ops st o).bind (fun st' => run cfg ops st' rest)

/-- `lin` is a linearization of the history `ops` that ends in container content `fin`:
    a permutation of `ops` that respects real time (if `y` returned before `x` was called, `y`
    is not listed after `x`) and is a legal sequential history of the container `cfg`. -/
structure Linearization (cfg : Cfg) (ops lin fin : List Op) : Prop where
  perm : lin.Perm ops
  realTime : lin.Pairwise (fun x y => ¬ y.ret < x.call)
  legal : run cfg ops [] lin = some fin

instance (cfg : Cfg) (ops lin fin : List Op) : Decidable (Linearization cfg ops lin fin) :=
  decidable_of_iff (lin.Perm ops ∧ lin.Pairwise (fun x y => ¬ y.ret < x.call) ∧
      run cfg ops [] lin = some fin)
    ⟨fun ⟨a, b, c⟩ => ⟨a, b, c⟩, fun ⟨a, b, c⟩ => ⟨a, b, c⟩⟩

/-- the history is linearizable w.r.t. the container `cfg` (and, if the harness drained the
    container, the linearization ends with an empty container) -/
def Linearizable (cfg : Cfg) (ops : List Op) : Prop :=
  ∃ lin fin, Linearization cfg ops lin fin ∧ (cfg.drained = true → fin = [])

/-! ## Invariant of the sequential container along a run -/

theorem run_append (cfg : Cfg) (ops : List Op) (l1 l2 : List Op) (st : List Op) :
    run cfg ops st (l1 ++ l2) = (run cfg ops st l1).bind (fun s => run cfg ops s l2) := by
  induction l1 generalizing st with
  | nil => simp [run]
  | cons o r ih =>
    simp only [List.cons_append, run]
    cases seqStep cfg ops st o with
    | none => simp
    | some s => simp [ih]

/-- `pre` = operations processed so far, `st` = container content -/
structure SeqInv (pre st : List Op) : Prop where
  sub : st.Sublist (pre.filter okPush)
  popped : ∀ a ∈ pre, okPush a = true → a ∉ st → ∃ p ∈ pre, okPop p = true ∧ p.val = a.val
  fresh : ∀ a ∈ st, ∀ p ∈ pre, okPop p = true → p.val ≠ a.val
  src : ∀ p ∈ pre, okPop p = true → ∃ a ∈ pre, okPush a = true ∧ a.val = p.val
  uniq : ∀ p ∈ pre, ∀ q ∈ pre, okPop p = true → okPop q = true → p.val = q.val → p = q
  len : st.length + pre.countP okPop = pre.countP okPush

theorem SeqInv.nil : SeqInv [] [] := by
  constructor <;> simp

theorem SeqInv.mem_pre {pre st : List Op} (h : SeqInv pre st) {a : Op} (ha : a ∈ st) :
    a ∈ pre ∧ okPush a = true := by
  have := h.sub.subset ha
  simpa [List.mem_filter] using this


theorem SeqInv.nodup {pre st : List Op} (h : SeqInv pre st) (hnd : pre.Nodup) : st.Nodup :=
  h.sub.nodup (hnd.sublist List.filter_sublist)

/-- a step that does not change the content and is neither a successful push nor pop -/
theorem SeqInv.step_noop {pre st : List Op} {o : Op} (h : SeqInv pre st)
    (h1 : okPush o = false) (h2 : okPop o = false) : SeqInv (pre ++ [o]) st := by
  obtain ⟨sub, popped, fresh, src, uniq, len⟩ := h
  refine ⟨?_, ?_, ?_, ?_, ?_, ?_⟩
  · simpa [List.filter_append, List.filter_cons, h1] using sub
  · intro a ha hpa hst
    have ha' : a ∈ pre := by
      rcases List.mem_append.1 ha with ha | ha
      · exact ha
      · simp at ha; subst ha; simp [hpa] at h1
    obtain ⟨p, hp, hp2⟩ := popped a ha' hpa hst
    exact ⟨p, List.mem_append_left _ hp, hp2⟩
  · intro a ha p hp hpp
    have hp' : p ∈ pre := by
      rcases List.mem_append.1 hp with hp | hp
      · exact hp
      · simp at hp; subst hp; simp [hpp] at h2
    exact fresh a ha p hp' hpp
  · intro p hp hpp
    have hp' : p ∈ pre := by
      rcases List.mem_append.1 hp with hp | hp
      · exact hp
      · simp at hp; subst hp; simp [hpp] at h2
    obtain ⟨a, ha, ha2⟩ := src p hp' hpp
    exact ⟨a, List.mem_append_left _ ha, ha2⟩
  · intro p hp q hq hpp hqq
    have hp' : p ∈ pre := by
      rcases List.mem_append.1 hp with hp | hp
      · exact hp
      · simp at hp; subst hp; simp [hpp] at h2
    have hq' : q ∈ pre := by
      rcases List.mem_append.1 hq with hq | hq
      · exact hq
      · simp at hq; subst hq; simp [hqq] at h2
    exact uniq p hp' q hq' hpp hqq
  · simp [List.countP_append, h1, h2, len]

theorem SeqInv.step_push {pre st : List Op} {o : Op} (h : SeqInv pre st)
    (h1 : okPush o = true) (ho : o ∉ pre)
    (hval : ∀ a ∈ pre, a.isPush = true → a.val = o.val → a = o) :
    SeqInv (pre ++ [o]) (st ++ [o]) := by
  have h2 : okPop o = false := by
    simp only [okPush, okPop, Bool.and_eq_true] at h1 ⊢; simp [h1.1]
  obtain ⟨sub, popped, fresh, src, uniq, len⟩ := h
  have notpop : ∀ p ∈ pre ++ [o], okPop p = true → p ∈ pre := by
    intro p hp hpp
    rcases List.mem_append.1 hp with hp | hp
    · exact hp
    · simp at hp; subst hp; simp [hpp] at h2
  refine ⟨?_, ?_, ?_, ?_, ?_, ?_⟩
  · simp only [List.filter_append, List.filter_cons, h1, List.filter_nil, if_true]
    exact List.Sublist.append sub (List.Sublist.refl _)
  · intro a ha hpa hst
    have hne : a ≠ o := by intro e; subst e; simp at hst
    have ha' : a ∈ pre := by
      rcases List.mem_append.1 ha with ha | ha
      · exact ha
      · simp at ha; exact absurd ha hne
    have hst' : a ∉ st := fun hm => hst (List.mem_append_left _ hm)
    obtain ⟨p, hp, hp2⟩ := popped a ha' hpa hst'
    exact ⟨p, List.mem_append_left _ hp, hp2⟩
  · intro a ha p hp hpp
    have hp' := notpop p hp hpp
    rcases List.mem_append.1 ha with ha | ha
    · exact fresh a ha p hp' hpp
    · simp at ha; subst ha
      intro e
      obtain ⟨b, hb, hb1, hb2⟩ := src p hp' hpp
      have hbp : b.isPush = true := by simp only [okPush, Bool.and_eq_true] at hb1; exact hb1.1
      have := hval b hb hbp (hb2.trans e)
      subst this; exact ho hb
  · intro p hp hpp
    obtain ⟨a, ha, ha2⟩ := src p (notpop p hp hpp) hpp
    exact ⟨a, List.mem_append_left _ ha, ha2⟩
  · intro p hp q hq hpp hqq
    exact uniq p (notpop p hp hpp) q (notpop q hq hqq) hpp hqq
  · simp only [List.countP_append, List.countP_cons, List.countP_nil, h1, h2, List.length_append,
      List.length_cons, List.length_nil]
    simp; omega

theorem SeqInv.step_pop {pre st : List Op} {o a : Op} (h : SeqInv pre st)
    (h2 : okPop o = true) (ha : a ∈ st) (hv : a.val = o.val) (hnd : pre.Nodup)
    (hval : ∀ a ∈ pre, ∀ b ∈ pre, a.isPush = true → b.isPush = true → a.val = b.val → a = b) :
    SeqInv (pre ++ [o]) (st.erase a) := by
  have h1 : okPush o = false := by
    simp only [okPush, okPop, Bool.and_eq_true, Bool.not_eq_true'] at h2 ⊢; simp [h2.1]
  have hstnd := h.nodup hnd
  obtain ⟨sub, popped, fresh, src, uniq, len⟩ := h
  have hapre : a ∈ pre ∧ okPush a = true := by
    have := sub.subset ha; simpa [List.mem_filter] using this
  have notpush : ∀ p ∈ pre ++ [o], okPush p = true → p ∈ pre := by
    intro p hp hpp
    rcases List.mem_append.1 hp with hp | hp
    · exact hp
    · simp at hp; subst hp; simp [hpp] at h1
  refine ⟨?_, ?_, ?_, ?_, ?_, ?_⟩
  · simp only [List.filter_append, List.filter_cons, h1, List.filter_nil]
    simpa using (List.erase_sublist).trans sub
  · intro x hx hpx hst
    have hx' := notpush x hx hpx
    by_cases hxs : x ∈ st
    · have : x = a := by
        apply Classical.byContradiction; intro hne
        exact hst ((List.mem_erase_of_ne hne).2 hxs)
      subst this
      exact ⟨o, by simp, h2, hv.symm⟩
    · obtain ⟨p, hp, hp2⟩ := popped x hx' hpx hxs
      exact ⟨p, List.mem_append_left _ hp, hp2⟩
  · intro x hx p hp hpp
    have hxst : x ∈ st := List.mem_of_mem_erase hx
    rcases List.mem_append.1 hp with hp | hp
    · exact fresh x hxst p hp hpp
    · simp at hp; subst hp
      intro e
      have hxa : x ≠ a := by
        intro e'; subst e'; exact (hstnd.mem_erase_iff.1 hx).1 rfl
      have hxpre : x ∈ pre ∧ okPush x = true := by
        have := sub.subset hxst; simpa [List.mem_filter] using this
      apply hxa
      have p1 : x.isPush = true := by have := hxpre.2; simp only [okPush, Bool.and_eq_true] at this; exact this.1
      have p2 : a.isPush = true := by have := hapre.2; simp only [okPush, Bool.and_eq_true] at this; exact this.1
      exact hval x hxpre.1 a hapre.1 p1 p2 (e.symm.trans hv.symm)
  · intro p hp hpp
    rcases List.mem_append.1 hp with hp | hp
    · obtain ⟨b, hb, hb2⟩ := src p hp hpp
      exact ⟨b, List.mem_append_left _ hb, hb2⟩
    · simp at hp; subst hp
      exact ⟨a, List.mem_append_left _ hapre.1, hapre.2, hv⟩
  · intro p hp q hq hpp hqq e
    rcases List.mem_append.1 hp with hp' | hp' <;> rcases List.mem_append.1 hq with hq' | hq'
    · exact uniq p hp' q hq' hpp hqq e
    · simp at hq'; subst hq'
      exact absurd (e.trans hv.symm) (fresh a ha p hp' hpp)
    · simp at hp'; subst hp'
      exact absurd (e.symm.trans hv.symm) (fresh a ha q hq' hqq)
    · simp at hp' hq'; subst hp'; subst hq'; rfl
  · have hl : (st.erase a).length = st.length - 1 := List.length_erase_of_mem ha
    have hpos : 0 < st.length := List.length_pos_of_mem ha
    simp only [List.countP_append, List.countP_cons, List.countP_nil, h1, h2]
    simp; omega


/-! ### Inversion of `seqStep` -/

theorem seqStep_okPush {cfg : Cfg} {ops st st' : List Op} {o : Op}
    (h1 : o.isPush = true) (h2 : o.ok = true) (hs : seqStep cfg ops st o = some st') :
    st' = st ++ [o] ∧ (cfg.capacity = 0 ∨ st.length < cfg.capacity) := by
  unfold seqStep at hs
  simp only [h1, h2, ↓reduceIte] at hs
  split at hs
  · next hc => cases hs; exact ⟨rfl, hc⟩
  · cases hs

theorem seqStep_failPush {cfg : Cfg} {ops st st' : List Op} {o : Op}
    (h1 : o.isPush = true) (h2 : o.ok = false) (hs : seqStep cfg ops st o = some st') :
    st' = st ∧ ((0 < cfg.capacity ∧ cfg.capacity ≤ st.length) ∨
      (cfg.failOnlyAlone = true ∧ alone ops o = false)) := by
  unfold seqStep at hs
  simp only [h1, h2, ↓reduceIte, Bool.false_eq_true] at hs
  split at hs
  · next hc => cases hs; exact ⟨rfl, hc⟩
  · cases hs

theorem seqStep_okPop {cfg : Cfg} {ops st st' : List Op} {o : Op}
    (h1 : o.isPush = false) (h2 : o.ok = true) (hs : seqStep cfg ops st o = some st') :
    ∃ a, a ∈ st ∧ a.val = o.val ∧ takeOk cfg st a = true ∧ st' = st.erase a := by
  unfold seqStep at hs
  simp only [h1, h2, ↓reduceIte, Bool.false_eq_true] at hs
  split at hs
  · cases hs
  · next a hf =>
    split at hs
    · next ht =>
      cases hs
      have hm := List.mem_of_find?_eq_some hf
      have hp := List.find?_some hf
      exact ⟨a, hm, by simpa using hp, ht, rfl⟩
    · cases hs

theorem seqStep_empty {cfg : Cfg} {ops st st' : List Op} {o : Op}
    (h1 : o.isPush = false) (h2 : o.ok = false) (hs : seqStep cfg ops st o = some st') :
    st' = st ∧ (st = [] ∨ cfg.checkEmpty = false ∨
      (cfg.failOnlyAlone = true ∧ alone ops o = false) ∨
      (cfg.emptyOkInFlight = true ∧ noPushInFlight ops o = false)) := by
  unfold seqStep at hs
  simp only [h1, h2, ↓reduceIte, Bool.false_eq_true] at hs
  split at hs
  · next hc => cases hs; exact ⟨rfl, hc⟩
  · cases hs

theorem SeqInv.step {cfg : Cfg} {ops pre st st' : List Op} {o : Op} (h : SeqInv pre st)
    (hs : seqStep cfg ops st o = some st')
    (hnd : (pre ++ [o]).Nodup)
    (hval : ∀ a ∈ pre ++ [o], ∀ b ∈ pre ++ [o], a.isPush = true → b.isPush = true →
      a.val = b.val → a = b) :
    SeqInv (pre ++ [o]) st' := by
  have hnd' := List.nodup_append.1 hnd
  have ho : o ∉ pre := fun hm => hnd'.2.2 o hm o (by simp) rfl
  cases h1 : o.isPush <;> cases h2 : o.ok
  · obtain ⟨rfl, -⟩ := seqStep_empty h1 h2 hs
    exact h.step_noop (by simp [okPush, h1]) (by simp [okPop, h2])
  · obtain ⟨a, ha, hv, -, rfl⟩ := seqStep_okPop h1 h2 hs
    exact h.step_pop (by simp [okPop, h1, h2]) ha hv hnd'.1
      (fun a ha b hb => hval a (List.mem_append_left _ ha) b (List.mem_append_left _ hb))
  · obtain ⟨rfl, -⟩ := seqStep_failPush h1 h2 hs
    exact h.step_noop (by simp [okPush, h2]) (by simp [okPop, h2])
  · obtain ⟨rfl, -⟩ := seqStep_okPush h1 h2 hs
    exact h.step_push (by simp [okPush, h1, h2]) ho
      (fun a ha hp hv => hval a (List.mem_append_left _ ha) o (by simp) hp h1 hv)

/-- the invariant holds along every legal run -/
theorem SeqInv.run {cfg : Cfg} {ops : List Op} :
    ∀ (rest pre st fin : List Op), SeqInv pre st → (pre ++ rest).Nodup →
      (∀ a ∈ pre ++ rest, ∀ b ∈ pre ++ rest, a.isPush = true → b.isPush = true →
        a.val = b.val → a = b) →
      QueueHist.run cfg ops st rest = some fin → SeqInv (pre ++ rest) fin := by
  intro rest
  induction rest with
  | nil => intro pre st fin h _ _ hr; simp [QueueHist.run] at hr; subst hr; simpa using h
  | cons o r ih =>
    intro pre st fin h hnd hval hr
    simp only [QueueHist.run] at hr
    cases hs : seqStep cfg ops st o with
    | none => simp [hs] at hr
    | some st' =>
      simp only [hs, Option.bind_some] at hr
      have e : pre ++ o :: r = (pre ++ [o]) ++ r := by simp
      rw [e] at hnd hval ⊢
      have hnd1 : (pre ++ [o]).Nodup := (List.nodup_append.1 hnd).1
      have h' := h.step hs hnd1
        (fun a ha b hb => hval a (List.mem_append_left _ ha) b (List.mem_append_left _ hb))
      exact ih (pre ++ [o]) st' fin h' hnd hval hr


/-! ## Looking at one operation of a linearization -/

/-- everything known at the linearization point of `o`: `pre` was processed before it and left
    content `st`; `post` comes after it -/
structure At (cfg : Cfg) (ops lin : List Op) (o : Op) (pre post st st' : List Op) : Prop where
  split : lin = pre ++ o :: post
  inv : SeqInv pre st
  step : seqStep cfg ops st o = some st'
  pre_rt : ∀ x ∈ pre, ¬ o.ret < x.call
  post_rt : ∀ y ∈ post, ¬ y.ret < o.call
  cross_rt : ∀ x ∈ pre, ∀ y ∈ post, ¬ y.ret < x.call
  st_rt : st.Pairwise (fun x y => ¬ y.ret < x.call)
  notin_pre : o ∉ pre
  notin_post : o ∉ post
  disj : ∀ x ∈ pre, x ∉ post

theorem at_split {cfg : Cfg} {ops lin fin pre post : List Op} {o : Op}
    (hW : WellFormed lin) (hrt : lin.Pairwise (fun x y => ¬ y.ret < x.call))
    (hrun : run cfg ops [] lin = some fin) (e : lin = pre ++ o :: post) :
    ∃ st st', At cfg ops lin o pre post st st' := by
  subst e
  rw [run_append] at hrun
  cases h1 : run cfg ops [] pre with
  | none => simp [h1] at hrun
  | some st =>
    simp only [h1, Option.bind_some, run] at hrun
    cases h2 : seqStep cfg ops st o with
    | none => simp [h2] at hrun
    | some st' =>
      obtain ⟨_, _, _, hnd, hval⟩ := hW
      have hnd' := List.nodup_append.1 hnd
      have hnd2 := List.nodup_cons.1 hnd'.2.1
      have inv : SeqInv pre st := by
        have := SeqInv.run (cfg := cfg) (ops := ops) pre [] [] st SeqInv.nil
          (by simpa using hnd'.1)
          (by intro a ha b hb
              exact hval a (by simp at ha; simp [ha]) b (by simp at hb; simp [hb])) h1
        simpa using this
      have hp := List.pairwise_append.1 hrt
      have hp2 := List.pairwise_cons.1 hp.2.1
      refine ⟨st, st', rfl, inv, h2, ?_, ?_, ?_, ?_, ?_, ?_, ?_⟩
      · intro x hx; exact hp.2.2 x hx o (by simp)
      · intro y hy; exact hp2.1 y hy
      · intro x hx y hy; exact hp.2.2 x hx y (by simp [hy])
      · exact hp.1.sublist (inv.sub.trans List.filter_sublist)
      · intro hm; exact hnd'.2.2 o hm o (by simp) rfl
      · exact hnd2.1
      · intro x hx hx'; exact hnd'.2.2 x hx x (by simp [hx']) rfl

theorem at_mem {cfg : Cfg} {ops lin fin : List Op} {o : Op}
    (hW : WellFormed lin) (hrt : lin.Pairwise (fun x y => ¬ y.ret < x.call))
    (hrun : run cfg ops [] lin = some fin) (ho : o ∈ lin) :
    ∃ pre post st st', At cfg ops lin o pre post st st' := by
  obtain ⟨pre, post, e⟩ := List.append_of_mem ho
  obtain ⟨st, st', h⟩ := at_split hW hrt hrun e
  exact ⟨pre, post, st, st', h⟩

theorem At.mem_cases {cfg : Cfg} {ops lin : List Op} {o : Op} {pre post st st' : List Op}
    (h : At cfg ops lin o pre post st st') {x : Op} (hx : x ∈ lin) :
    x ∈ pre ∨ x = o ∨ x ∈ post := by
  rw [h.split] at hx; simpa using hx

/-- an operation that returned before `o` was called is linearized before `o` -/
theorem At.mem_pre_of_lt {cfg : Cfg} {ops lin : List Op} {o : Op} {pre post st st' : List Op}
    (h : At cfg ops lin o pre post st st') (hW : WellFormed lin) {x : Op} (hx : x ∈ lin)
    (hlt : x.ret < o.call) : x ∈ pre := by
  rcases h.mem_cases hx with h1 | h1 | h1
  · exact h1
  · subst h1; have := hW.1 x hx; omega
  · exact absurd hlt (h.post_rt x h1)

/-- an operation that was called after `o` returned is linearized after `o` -/
theorem At.mem_post_of_lt {cfg : Cfg} {ops lin : List Op} {o : Op} {pre post st st' : List Op}
    (h : At cfg ops lin o pre post st st') (hW : WellFormed lin) {x : Op} (hx : x ∈ lin)
    (hlt : o.ret < x.call) : x ∈ post := by
  rcases h.mem_cases hx with h1 | h1 | h1
  · exact absurd hlt (h.pre_rt x h1)
  · subst h1; have := hW.1 x hx; omega
  · exact h1

theorem At.pre_sub {cfg : Cfg} {ops lin : List Op} {o : Op} {pre post st st' : List Op}
    (h : At cfg ops lin o pre post st st') {x : Op} (hx : x ∈ pre) : x ∈ lin := by
  rw [h.split]; simp [hx]

theorem At.post_sub {cfg : Cfg} {ops lin : List Op} {o : Op} {pre post st st' : List Op}
    (h : At cfg ops lin o pre post st st') {x : Op} (hx : x ∈ post) : x ∈ lin := by
  rw [h.split]; simp [hx]

theorem At.self_mem {cfg : Cfg} {ops lin : List Op} {o : Op} {pre post st st' : List Op}
    (h : At cfg ops lin o pre post st st') : o ∈ lin := by
  rw [h.split]; simp

/-- whatever is linearized before `o` was called before `o` returned -/
theorem At.call_lt_ret {cfg : Cfg} {ops lin : List Op} {o : Op} {pre post st st' : List Op}
    (h : At cfg ops lin o pre post st st') (hW : WellFormed lin) {x : Op} (hx : x ∈ pre) :
    x.call < o.ret := by
  have h1 := h.pre_rt x hx
  have h2 := hW.2.2.1 x (h.pre_sub hx) o h.self_mem
  omega

/-! ## The facts about a linearizable history that the clauses of `check` rely on -/

section Facts
variable {cfg : Cfg} {ops lin fin : List Op}

/-- the invariant at the end of the linearization -/
theorem final_inv (hW : WellFormed lin) (hrun : run cfg ops [] lin = some fin) :
    SeqInv lin fin := by
  have := SeqInv.run (cfg := cfg) (ops := ops) lin [] [] fin SeqInv.nil
    (by simpa using hW.2.2.2.1)
    (by intro a ha b hb
        exact hW.2.2.2.2 a (by simpa using ha) b (by simpa using hb)) hrun
  simpa using this

/-- (invented, phantom) a successfully popped value was pushed SUCCESSFULLY by a push that was
    called before the pop returned -/
theorem pop_has_push (hW : WellFormed lin) (hrt : lin.Pairwise (fun x y => ¬ y.ret < x.call))
    (hrun : run cfg ops [] lin = some fin) {p : Op} (hp : p ∈ lin) (hpp : okPop p = true) :
    ∃ a ∈ lin, okPush a = true ∧ a.val = p.val ∧ a.call < p.ret := by
  obtain ⟨pre, post, st, st', h⟩ := at_mem hW hrt hrun hp
  simp only [okPop, Bool.and_eq_true, Bool.not_eq_true'] at hpp
  obtain ⟨a, ha, hv, -, -⟩ := seqStep_okPop hpp.1 hpp.2 h.step
  have ha' := h.inv.mem_pre ha
  exact ⟨a, h.pre_sub ha'.1, ha'.2, hv, h.call_lt_ret hW ha'.1⟩

/-- (duplicate) no value is popped twice -/
theorem pop_unique (hW : WellFormed lin) (hrun : run cfg ops [] lin = some fin) {p q : Op}
    (hp : p ∈ lin) (hq : q ∈ lin) (hpp : okPop p = true) (hqq : okPop q = true)
    (hv : p.val = q.val) : p = q :=
  (final_inv hW hrun).uniq p hp q hq hpp hqq hv

/-- a successfully pushed value that is absent at the linearization point of `o` has been
    popped by an operation linearized before `o` -/
theorem At.absent_popped {o : Op} {pre post st st' : List Op}
    (h : At cfg ops lin o pre post st st') {a : Op} (ha : a ∈ pre) (hpa : okPush a = true)
    (hst : a ∉ st) : ∃ p ∈ pre, okPop p = true ∧ p.val = a.val :=
  h.inv.popped a ha hpa hst

/-- the successful pop `o` took the push operation with the same value -/
theorem At.took {o : Op} {pre post st st' : List Op}
    (h : At cfg ops lin o pre post st st') (hW : WellFormed lin) (ho : okPop o = true)
    {a : Op} (ha : a ∈ lin) (hpa : a.isPush = true) (hv : a.val = o.val) :
    a ∈ st ∧ takeOk cfg st a = true := by
  simp only [okPop, Bool.and_eq_true, Bool.not_eq_true'] at ho
  obtain ⟨b, hb, hbv, ht, -⟩ := seqStep_okPop ho.1 ho.2 h.step
  have hb' := h.inv.mem_pre hb
  have hbp : b.isPush = true := by
    have := hb'.2; simp only [okPush, Bool.and_eq_true] at this; exact this.1
  have : b = a := hW.2.2.2.2 b (h.pre_sub hb'.1) a ha hbp hpa (hbv.trans hv.symm)
  subst this
  exact ⟨hb, ht⟩

/-- (order, FIFO) -/
theorem fifo_order (hW : WellFormed lin) (hrt : lin.Pairwise (fun x y => ¬ y.ret < x.call))
    (hrun : run cfg ops [] lin = some fin) (hd : cfg.disc = .fifo)
    {a b pa pb : Op} (ha : a ∈ lin) (hb : b ∈ lin) (hpa : pa ∈ lin) (hpb : pb ∈ lin)
    (ha1 : okPush a = true) (hb1 : okPush b = true) (hpa1 : okPop pa = true)
    (hpb1 : okPop pb = true) (hva : pa.val = a.val) (hvb : pb.val = b.val)
    (hab : a.ret < b.call) (hthr : cfg.perProducerFifo = true → a.thread = b.thread)
    (hpp : pb.ret < pa.call) : False := by
  obtain ⟨pre, post, st, st', h⟩ := at_mem hW hrt hrun hpb
  have hbp : b.isPush = true := by simp only [okPush, Bool.and_eq_true] at hb1; exact hb1.1
  obtain ⟨hbst, htake⟩ := h.took hW hpb1 hb hbp hvb.symm
  have hbpre := (h.inv.mem_pre hbst).1
  -- a is linearized before pb
  have hapre : a ∈ pre := by
    rcases h.mem_cases ha with h1 | h1 | h1
    · exact h1
    · subst h1; simp only [okPush, okPop, Bool.and_eq_true, Bool.not_eq_true'] at ha1 hpb1
      rw [ha1.1] at hpb1; exact absurd hpb1.1 (by simp)
    · exact absurd hab (h.cross_rt b hbpre a h1)
  -- a has not been popped yet, since its only pop pa comes after pb
  have hapost : pa ∈ post := h.mem_post_of_lt hW hpa hpp
  have hast : a ∈ st := by
    apply Classical.byContradiction; intro hn
    obtain ⟨p, hp, hp1, hp2⟩ := h.absent_popped hapre ha1 hn
    have : p = pa := pop_unique hW hrun (h.pre_sub hp) hpa hp1 hpa1 (hp2.trans hva.symm)
    subst this
    exact h.disj p hp hapost
  have hne : a ≠ b := by intro e; subst e; have := hW.1 a ha; omega
  -- but b could be taken, so a is not in front of it
  simp only [takeOk, hd] at htake
  split at htake
  · next hper =>
    have htake' : st.find? (fun c => decide (c.thread = b.thread)) = some b := by
      simpa using htake
    obtain ⟨-, l1, l2, e, hl1⟩ := List.find?_eq_some_iff_append.1 htake'
    rw [e] at hast
    rcases List.mem_append.1 hast with h1 | h1
    · have := hl1 a h1; simp at this; exact this (hthr hper)
    · rcases List.mem_cons.1 h1 with h1 | h1
      · exact hne h1
      · have hpw := h.st_rt; rw [e] at hpw
        have := (List.pairwise_cons.1 (List.pairwise_append.1 hpw).2.1).1 a h1
        exact this hab
  · have htake' : st.head? = some b := by simpa using htake
    cases st with
    | nil => simp at htake'
    | cons c l2 =>
      simp at htake'; subst htake'
      rcases List.mem_cons.1 hast with h1 | h1
      · exact hne h1
      · exact (List.pairwise_cons.1 h.st_rt).1 a h1 hab

/-- (order, LIFO) -/
theorem lifo_order (hW : WellFormed lin) (hrt : lin.Pairwise (fun x y => ¬ y.ret < x.call))
    (hrun : run cfg ops [] lin = some fin) (hd : cfg.disc = .lifo)
    {a b pa : Op} (ha : a ∈ lin) (hb : b ∈ lin) (hpa : pa ∈ lin)
    (ha1 : okPush a = true) (hb1 : okPush b = true) (hpa1 : okPop pa = true)
    (hva : pa.val = a.val) (hab : a.ret < b.call) (hbpa : b.ret < pa.call)
    (hpb : ∀ pb ∈ lin, okPop pb = true → pb.val = b.val → pa.ret < pb.call) : False := by
  obtain ⟨pre, post, st, st', h⟩ := at_mem hW hrt hrun hpa
  have hap : a.isPush = true := by simp only [okPush, Bool.and_eq_true] at ha1; exact ha1.1
  obtain ⟨hast, htake⟩ := h.took hW hpa1 ha hap hva.symm
  have hbpre : b ∈ pre := h.mem_pre_of_lt hW hb hbpa
  have hbst : b ∈ st := by
    apply Classical.byContradiction; intro hn
    obtain ⟨p, hp, hp1, hp2⟩ := h.absent_popped hbpre hb1 hn
    have := hpb p (h.pre_sub hp) hp1 hp2
    exact h.disj p hp (h.mem_post_of_lt hW (h.pre_sub hp) this)
  have hne : b ≠ a := by intro e; subst e; have := hW.1 b hb; omega
  simp only [takeOk, hd] at htake
  have htake' : st.getLast? = some a := by simpa using htake
  obtain ⟨l1, e⟩ := List.getLast?_eq_some_iff.1 htake'
  rw [e] at hbst
  rcases List.mem_append.1 hbst with h1 | h1
  · have hpw := h.st_rt; rw [e] at hpw
    exact (List.pairwise_append.1 hpw).2.2 b h1 a (by simp) hab
  · simp at h1; exact hne h1

/-- (lost) after a drain every successfully pushed value has been popped -/
theorem not_lost (hW : WellFormed lin) (hrun : run cfg ops [] lin = some fin) (hfin : fin = [])
    {a : Op} (ha : a ∈ lin) (ha1 : okPush a = true) :
    ∃ p ∈ lin, okPop p = true ∧ p.val = a.val :=
  (final_inv hW hrun).popped a ha ha1 (by simp [hfin])

/-- (emptyLie) -/
theorem empty_honest (hW : WellFormed lin) (hrt : lin.Pairwise (fun x y => ¬ y.ret < x.call))
    (hrun : run cfg ops [] lin = some fin) {e a : Op} (he : e ∈ lin)
    (he1 : e.isPush = false) (he2 : e.ok = false) (hce : cfg.checkEmpty = true)
    (hal : cfg.failOnlyAlone = true → alone ops e = true)
    (hfl : cfg.emptyOkInFlight = true → noPushInFlight ops e = true)
    (ha : a ∈ lin) (ha1 : okPush a = true) (hae : a.ret < e.call)
    (hpop : ∀ p ∈ lin, okPop p = true → p.val = a.val → e.ret < p.call) : False := by
  obtain ⟨pre, post, st, st', h⟩ := at_mem hW hrt hrun he
  obtain ⟨-, hc⟩ := seqStep_empty he1 he2 h.step
  have hst : st = [] := by
    rcases hc with hc | hc | hc | hc
    · exact hc
    · rw [hce] at hc; cases hc
    · have := hal hc.1; rw [this] at hc; cases hc.2
    · have := hfl hc.1; rw [this] at hc; cases hc.2
  have hapre : a ∈ pre := h.mem_pre_of_lt hW ha hae
  obtain ⟨p, hp, hp1, hp2⟩ := h.absent_popped hapre ha1 (by simp [hst])
  have := hpop p (h.pre_sub hp) hp1 hp2
  exact h.disj p hp (h.mem_post_of_lt hW (h.pre_sub hp) this)

theorem exists_last {α : Type} (P : α → Bool) :
    ∀ l : List α, (∃ x ∈ l, P x = true) →
      ∃ pre m suf, l = pre ++ m :: suf ∧ P m = true ∧ ∀ y ∈ suf, P y = false := by
  intro l
  induction l with
  | nil => intro ⟨x, hx, _⟩; cases hx
  | cons x r ih =>
    intro _
    by_cases hr : ∃ y ∈ r, P y = true
    · obtain ⟨pre, m, suf, e, hm, hs⟩ := ih hr
      exact ⟨x :: pre, m, suf, by simp [e], hm, hs⟩
    · have hr' : ∀ y ∈ r, P y = false := by
        intro y hy; cases hpy : P y with
        | false => rfl
        | true => exact absurd ⟨y, hy, hpy⟩ hr
      rename_i hx
      obtain ⟨z, hz, hpz⟩ := hx
      rcases List.mem_cons.1 hz with h1 | h1
      · subst h1; exact ⟨[], z, r, rfl, hpz, hr'⟩
      · rw [hr' z h1] at hpz; cases hpz

/-- (overfull) at the moment push `a` returns, the pushes that have returned exceed the pops
    that have been called by at most the capacity -/
theorem not_overfull (hW : WellFormed lin) (hrt : lin.Pairwise (fun x y => ¬ y.ret < x.call))
    (hrun : run cfg ops [] lin = some fin) (hcap : 0 < cfg.capacity)
    {a : Op} (ha : a ∈ lin) (ha1 : okPush a = true) :
    lin.countP (fun q => okPush q && decide (q.ret ≤ a.ret)) ≤
      cfg.capacity + lin.countP (fun q => okPop q && decide (q.call < a.ret)) := by
  obtain ⟨pre, m, suf, e, hm, hsuf⟩ :=
    exists_last (fun q => okPush q && decide (q.ret ≤ a.ret)) lin ⟨a, ha, by simp [ha1]⟩
  obtain ⟨st, st', h⟩ := at_split hW hrt hrun e
  simp only [Bool.and_eq_true, decide_eq_true_eq] at hm
  have hm1 := hm.1
  obtain ⟨-, hroom⟩ := seqStep_okPush hm1.1 hm1.2 h.step
  have hlen := h.inv.len
  have hmpop : okPop m = false := by simp [okPop, hm1.1]
  rw [e]
  simp only [List.countP_append, List.countP_cons]
  have c1 : suf.countP (fun q => okPush q && decide (q.ret ≤ a.ret)) = 0 := by
    rw [List.countP_eq_zero]; intro y hy; simp [hsuf y hy]
  have c2 : pre.countP (fun q => okPush q && decide (q.ret ≤ a.ret)) ≤ pre.countP okPush := by
    apply List.countP_mono_left; intro x _ hx
    simp only [Bool.and_eq_true] at hx; simp [hx.1]
  have c3 : pre.countP (fun q => okPop q && decide (q.call < a.ret)) = pre.countP okPop := by
    apply List.countP_congr; intro x hx
    have := h.call_lt_ret hW hx
    simp only [Bool.and_eq_true, decide_eq_true_eq]
    constructor
    · intro hh; exact hh.1
    · intro hh; exact ⟨hh, by omega⟩
  rw [c1, c3]
  have c4 : (if (okPush m && decide (m.ret ≤ a.ret)) = true then 1 else 0) ≤ 1 := by
    split <;> omega
  rcases hroom with hroom | hroom
  · omega
  · omega

/-- (fullLie) a failed push that overlapped nothing found the container full -/
theorem full_honest (hW : WellFormed lin) (hrt : lin.Pairwise (fun x y => ¬ y.ret < x.call))
    (hrun : run cfg ops [] lin = some fin) (hmem : ∀ x ∈ lin, x ∈ ops)
    {f : Op} (hf : f ∈ lin) (hf1 : f.isPush = true) (hf2 : f.ok = false)
    (hal : alone ops f = true) :
    cfg.capacity + lin.countP (fun q => okPop q && decide (q.ret < f.call)) ≤
      lin.countP (fun q => okPush q && decide (q.ret < f.call)) := by
  obtain ⟨pre, post, st, st', h⟩ := at_mem hW hrt hrun hf
  obtain ⟨-, hc⟩ := seqStep_failPush hf1 hf2 h.step
  have hfull : cfg.capacity ≤ st.length := by
    rcases hc with hc | hc
    · exact hc.2
    · rw [hal] at hc; cases hc.2
  have hal' : ∀ o ∈ lin, o.call = f.call ∨ o.ret < f.call ∨ f.ret < o.call := by
    intro o ho
    have := List.all_eq_true.1 hal o (hmem o ho)
    simpa [Bool.or_eq_true, or_assoc] using this
  have hpre : ∀ x ∈ pre, x.ret < f.call := by
    intro x hx
    rcases hal' x (h.pre_sub hx) with h1 | h1 | h1
    · have := hW.2.1 f hf x (h.pre_sub hx) hf1 h1.symm
      subst this; exact absurd hx h.notin_pre
    · exact h1
    · exact absurd h1 (h.pre_rt x hx)
  have hlen := h.inv.len
  have hfpush : okPush f = false := by simp [okPush, hf2]
  have hfpop : okPop f = false := by simp [okPop, hf2]
  rw [h.split]
  simp only [List.countP_append, List.countP_cons, hfpush, hfpop, Bool.false_and]
  have c1 : post.countP (fun q => okPush q && decide (q.ret < f.call)) = 0 := by
    rw [List.countP_eq_zero]; intro y hy; simp [h.post_rt y hy]
  have c2 : post.countP (fun q => okPop q && decide (q.ret < f.call)) = 0 := by
    rw [List.countP_eq_zero]; intro y hy; simp [h.post_rt y hy]
  have c3 : pre.countP (fun q => okPush q && decide (q.ret < f.call)) = pre.countP okPush := by
    apply List.countP_congr; intro x hx; simp [hpre x hx]
  have c4 : pre.countP (fun q => okPop q && decide (q.ret < f.call)) = pre.countP okPop := by
    apply List.countP_congr; intro x hx; simp [hpre x hx]
  rw [c1, c2, c3, c4]
  omega

end Facts


/-! ## The clauses of `check`, one function each

`checkClauses` is literally `check` with each clause given a name; `check_eq` is `rfl`. -/

def popOf (ops : List Op) (v : Nat) : Option Op := (ops.filter okPop).find? (fun p => p.val = v)

def cInvented (ops : List Op) : Option Op :=
  (ops.filter okPop).find? (fun p =>
    !((ops.filter (fun o => o.isPush)).any (fun q => q.val = p.val && q.call < p.ret)))

def cDuplicate (ops : List Op) : Option Op :=
  (ops.filter okPop).find? (fun p => (ops.filter okPop).any (fun q => q.val = p.val && q.call ≠ p.call))

def cPhantom (ops : List Op) : Option Op :=
  (ops.filter okPop).find? (fun p => (ops.filter (fun o => o.isPush)).any (fun q => q.val = p.val && !q.ok))

def cOrderFifo (cfg : Cfg) (ops : List Op) : Option String :=
  (ops.filter okPush).findSome? fun a => (ops.filter okPush).findSome? fun b =>
    if a.ret < b.call && (!cfg.perProducerFifo || a.thread = b.thread) then
      match popOf ops a.val, popOf ops b.val with
      | some pa, some pb =>
        if pb.ret < pa.call then some s!"order: {a.val} pushed before {b.val} but popped after it" else none
      | _, _ => none
    else none

def cOrderLifo (ops : List Op) : Option String :=
  (ops.filter okPush).findSome? fun a => (ops.filter okPush).findSome? fun b =>
    if a.ret < b.call then
      match popOf ops a.val with
      | some pa =>
        if b.ret < pa.call && (match popOf ops b.val with
            | some pb => pa.ret < pb.call
            | none => true) then
          some s!"order: {b.val} was pushed on top of {a.val} but {a.val} was popped from under it"
        else none
      | none => none
    else none

def cOrder (cfg : Cfg) (ops : List Op) : Option String :=
  if cfg.disc = .fifo then cOrderFifo cfg ops else if cfg.disc = .lifo then cOrderLifo ops else none

def cLost (cfg : Cfg) (ops : List Op) : Option Op :=
  if cfg.drained then (ops.filter okPush).find? (fun a => (popOf ops a.val).isNone) else none

def cEmptyLie (cfg : Cfg) (ops : List Op) : Option Op :=
  if cfg.checkEmpty then
    (ops.filter (fun o => !o.isPush && !o.ok)).find? (fun e => (!cfg.failOnlyAlone || alone ops e) &&
      (!cfg.emptyOkInFlight || noPushInFlight ops e) && (ops.filter okPush).any (fun a => a.ret < e.call &&
      match popOf ops a.val with
      | some p => e.ret < p.call
      | none => true))
  else none

def cOverfull (cfg : Cfg) (ops : List Op) : Option Op :=
  (ops.filter okPush).find? (fun a =>
    let donePushes := ((ops.filter okPush).filter (fun q => q.ret ≤ a.ret)).length
    let startedPops := ((ops.filter okPop).filter (fun q => q.call < a.ret)).length
    donePushes > cfg.capacity + startedPops)

def cFullLie (cfg : Cfg) (ops : List Op) : Option Op :=
  (ops.filter (fun o => o.isPush && !o.ok)).find? (fun f => alone ops f &&
    ((ops.filter okPush).filter (fun q => q.ret < f.call)).length
      < cfg.capacity + ((ops.filter okPop).filter (fun q => q.ret < f.call)).length)


def checkClauses (cfg : Cfg) (ops : List Op) : Option String :=
  match cInvented ops with
  | some p => some s!"invented: pop returned {p.val} which was not pushed before"
  | none =>
  match cDuplicate ops with
  | some p => some s!"duplicate: value {p.val} popped twice"
  | none =>
  match cPhantom ops with
  | some p => some s!"phantom: value {p.val} popped although its push reported failure"
  | none =>
  match cOrder cfg ops with
  | some m => some m
  | none =>
  match cLost cfg ops with
  | some a => some s!"lost: value {a.val} was pushed successfully but never popped"
  | none =>
  match cEmptyLie cfg ops with
  | some e => some s!"emptyLie: thread {e.thread} pop at {e.call} reported empty while a value was present throughout"
  | none =>
  if cfg.capacity > 0 then
    match cOverfull cfg ops with
    | some a => some s!"overfull: after push of {a.val} more than {cfg.capacity} items are present"
    | none =>
      match cFullLie cfg ops with
      | some f => some s!"fullLie: push of {f.val} failed alone although the buffer had room"
      | none => none
  else none

theorem check_eq (cfg : Cfg) (ops : List Op) : check cfg ops = checkClauses cfg ops := rfl

theorem check_eq_none_iff (cfg : Cfg) (ops : List Op) :
    check cfg ops = none ↔
      cInvented ops = none ∧ cDuplicate ops = none ∧ cPhantom ops = none ∧ cOrder cfg ops = none ∧
      cLost cfg ops = none ∧ cEmptyLie cfg ops = none ∧
      (0 < cfg.capacity → cOverfull cfg ops = none ∧ cFullLie cfg ops = none) := by
  rw [check_eq, checkClauses]
  cases cInvented ops <;> cases cDuplicate ops <;> cases cPhantom ops <;> cases cOrder cfg ops <;>
    cases cLost cfg ops <;> cases cEmptyLie cfg ops <;> simp
  split <;> simp_all
  cases cOverfull cfg ops <;> cases cFullLie cfg ops <;> simp

/-! ### What each clause looks for (plain-logic reading of the list programs) -/

theorem mem_okPop {ops : List Op} {p : Op} : p ∈ ops.filter okPop ↔ p ∈ ops ∧ okPop p = true := by
  simp [List.mem_filter]

theorem mem_okPush {ops : List Op} {p : Op} :
    p ∈ ops.filter okPush ↔ p ∈ ops ∧ okPush p = true := by
  simp [List.mem_filter]

theorem popOf_some {ops : List Op} {v : Nat} {p : Op} (h : popOf ops v = some p) :
    p ∈ ops ∧ okPop p = true ∧ p.val = v := by
  have h1 := List.mem_of_find?_eq_some h
  have h2 := List.find?_some h
  rw [mem_okPop] at h1
  exact ⟨h1.1, h1.2, by simpa using h2⟩

theorem popOf_none {ops : List Op} {v : Nat} (h : popOf ops v = none) :
    ∀ p ∈ ops, okPop p = true → p.val ≠ v := by
  intro p hp hpp
  have := List.find?_eq_none.1 h p (mem_okPop.2 ⟨hp, hpp⟩)
  simpa using this

theorem popOf_isSome {ops : List Op} {v : Nat} {p : Op} (hp : p ∈ ops) (hpp : okPop p = true)
    (hv : p.val = v) : ∃ q, popOf ops v = some q := by
  cases h : popOf ops v with
  | some q => exact ⟨q, rfl⟩
  | none => exact absurd hv (popOf_none h p hp hpp)

/-- `invented` is silent iff every successfully popped value has a push call that started
    before the pop returned -/
theorem cInvented_eq_none_iff (ops : List Op) :
    cInvented ops = none ↔
      ∀ p ∈ ops, okPop p = true → ∃ q ∈ ops, q.isPush = true ∧ q.val = p.val ∧ q.call < p.ret := by
  unfold cInvented
  rw [List.find?_eq_none]
  constructor
  · intro h p hp hpp
    have := h p (mem_okPop.2 ⟨hp, hpp⟩)
    simp only [Bool.not_eq_true, Bool.not_eq_false', List.any_eq_true, List.mem_filter,
      Bool.and_eq_true, decide_eq_true_eq] at this
    obtain ⟨q, ⟨hq, hq1⟩, hq2, hq3⟩ := this
    exact ⟨q, hq, hq1, hq2, hq3⟩
  · intro h p hp
    rw [mem_okPop] at hp
    obtain ⟨q, hq, hq1, hq2, hq3⟩ := h p hp.1 hp.2
    simp only [Bool.not_eq_true, Bool.not_eq_false', List.any_eq_true, List.mem_filter,
      Bool.and_eq_true, decide_eq_true_eq]
    exact ⟨q, ⟨hq, hq1⟩, hq2, hq3⟩

/-- `duplicate` is silent iff two successful pops with the same value are the same call -/
theorem cDuplicate_eq_none_iff (ops : List Op) :
    cDuplicate ops = none ↔
      ∀ p ∈ ops, ∀ q ∈ ops, okPop p = true → okPop q = true → q.val = p.val → q.call = p.call := by
  unfold cDuplicate
  rw [List.find?_eq_none]
  constructor
  · intro h p hp q hq hpp hqq hv
    have := h p (mem_okPop.2 ⟨hp, hpp⟩)
    simp only [List.any_eq_true, Bool.and_eq_true, decide_eq_true_eq, not_exists, not_and] at this
    have := this q (mem_okPop.2 ⟨hq, hqq⟩) hv
    simpa using this
  · intro h p hp
    rw [mem_okPop] at hp
    simp only [List.any_eq_true, Bool.and_eq_true, decide_eq_true_eq, not_exists, not_and]
    intro q hq hv
    rw [mem_okPop] at hq
    simp [h p hp.1 q hq.1 hp.2 hq.2 hv]

/-- `phantom` is silent iff no successfully popped value is the value of a failed push -/
theorem cPhantom_eq_none_iff (ops : List Op) :
    cPhantom ops = none ↔
      ∀ p ∈ ops, ∀ q ∈ ops, okPop p = true → q.isPush = true → q.val = p.val → q.ok = true := by
  unfold cPhantom
  rw [List.find?_eq_none]
  constructor
  · intro h p hp q hq hpp hqq hv
    have := h p (mem_okPop.2 ⟨hp, hpp⟩)
    simp only [List.any_eq_true, List.mem_filter, Bool.and_eq_true, decide_eq_true_eq, not_exists,
      not_and, Bool.not_eq_true', Bool.not_eq_false] at this
    exact this q ⟨hq, hqq⟩ hv
  · intro h p hp
    rw [mem_okPop] at hp
    simp only [List.any_eq_true, List.mem_filter, Bool.and_eq_true, decide_eq_true_eq, not_exists,
      not_and, Bool.not_eq_true', Bool.not_eq_false]
    intro q hq hv
    exact h p hp.1 q hq.1 hp.2 hq.2 hv

/-- `lost` is silent iff (when drained) every successfully pushed value was popped -/
theorem cLost_eq_none_iff (cfg : Cfg) (ops : List Op) :
    cLost cfg ops = none ↔
      (cfg.drained = true → ∀ a ∈ ops, okPush a = true → ∃ p ∈ ops, okPop p = true ∧ p.val = a.val) := by
  unfold cLost
  split
  · next hd =>
    rw [List.find?_eq_none]
    constructor
    · intro h _ a ha ha1
      have := h a (mem_okPush.2 ⟨ha, ha1⟩)
      cases hp : popOf ops a.val with
      | none => simp [hp] at this
      | some p => obtain ⟨h1, h2, h3⟩ := popOf_some hp; exact ⟨p, h1, h2, h3⟩
    · intro h a ha
      rw [mem_okPush] at ha
      obtain ⟨p, hp, hpp, hv⟩ := h hd a ha.1 ha.2
      obtain ⟨q, hq⟩ := popOf_isSome hp hpp hv
      simp [hq]
  · next hd => simp [hd]


/-! ## Soundness: no clause fires on a linearizable history -/

section Sound
variable {cfg : Cfg} {ops lin fin : List Op}

theorem sound_invented (hW : WellFormed ops) (hL : Linearization cfg ops lin fin) :
    cInvented ops = none := by
  have wl := hW.perm hL.perm
  rw [cInvented_eq_none_iff]
  intro p hp hpp
  obtain ⟨a, ha, ha1, hv, hlt⟩ := pop_has_push wl hL.realTime hL.legal (hL.perm.mem_iff.2 hp) hpp
  simp only [okPush, Bool.and_eq_true] at ha1
  exact ⟨a, hL.perm.mem_iff.1 ha, ha1.1, hv, hlt⟩

theorem sound_duplicate (hW : WellFormed ops) (hL : Linearization cfg ops lin fin) :
    cDuplicate ops = none := by
  have wl := hW.perm hL.perm
  rw [cDuplicate_eq_none_iff]
  intro p hp q hq hpp hqq hv
  have := pop_unique wl hL.legal (hL.perm.mem_iff.2 hp) (hL.perm.mem_iff.2 hq) hpp hqq hv.symm
  rw [this]

theorem sound_phantom (hW : WellFormed ops) (hL : Linearization cfg ops lin fin) :
    cPhantom ops = none := by
  have wl := hW.perm hL.perm
  rw [cPhantom_eq_none_iff]
  intro p hp q hq hpp hqp hv
  obtain ⟨a, ha, ha1, hva, -⟩ := pop_has_push wl hL.realTime hL.legal (hL.perm.mem_iff.2 hp) hpp
  simp only [okPush, Bool.and_eq_true] at ha1
  have : a = q := hW.2.2.2.2 a (hL.perm.mem_iff.1 ha) q hq ha1.1 hqp (hva.trans hv.symm)
  subst this; exact ha1.2

theorem sound_order (hW : WellFormed ops) (hL : Linearization cfg ops lin fin) :
    cOrder cfg ops = none := by
  have wl := hW.perm hL.perm
  have mem : ∀ {x}, x ∈ ops → x ∈ lin := fun h => hL.perm.mem_iff.2 h
  unfold cOrder
  split
  · next hd =>
    unfold cOrderFifo
    rw [List.findSome?_eq_none_iff]; intro a ha
    rw [List.findSome?_eq_none_iff]; intro b hb
    rw [mem_okPush] at ha hb
    split
    · next hc =>
      simp only [Bool.and_eq_true, decide_eq_true_eq, Bool.or_eq_true, Bool.not_eq_true'] at hc
      split
      · next pa pb hpa hpb =>
        split
        · next hlt =>
          exfalso
          obtain ⟨m1, o1, v1⟩ := popOf_some hpa
          obtain ⟨m2, o2, v2⟩ := popOf_some hpb
          refine fifo_order wl hL.realTime hL.legal hd (mem ha.1) (mem hb.1) (mem m1) (mem m2)
            ha.2 hb.2 o1 o2 v1 v2 hc.1 ?_ hlt
          intro hper
          rcases hc.2 with h | h
          · rw [hper] at h; cases h
          · exact h
        · rfl
      · rfl
    · rfl
  · split
    · next hd =>
      unfold cOrderLifo
      rw [List.findSome?_eq_none_iff]; intro a ha
      rw [List.findSome?_eq_none_iff]; intro b hb
      rw [mem_okPush] at ha hb
      split
      · next hab =>
        split
        · next pa hpa =>
          rw [ite_eq_right_iff]
          intro hc
          exfalso
          simp only [Bool.and_eq_true, decide_eq_true_eq] at hc
          obtain ⟨m1, o1, v1⟩ := popOf_some hpa
          refine lifo_order wl hL.realTime hL.legal hd (mem ha.1) (mem hb.1) (mem m1)
            ha.2 hb.2 o1 v1 hab hc.1 ?_
          intro pb hpb hpb1 hpbv
          obtain ⟨q, hq⟩ := popOf_isSome (hL.perm.mem_iff.1 hpb) hpb1 hpbv
          obtain ⟨m2, o2, v2⟩ := popOf_some hq
          have : q = pb := pop_unique wl hL.legal (mem m2) hpb o2 hpb1 (v2.trans hpbv.symm)
          subst this
          have h2 := hc.2
          rw [hq] at h2
          simpa using h2
        · rfl
      · rfl
    · rfl

theorem sound_lost (hW : WellFormed ops) (hL : Linearization cfg ops lin fin)
    (hfin : cfg.drained = true → fin = []) : cLost cfg ops = none := by
  have wl := hW.perm hL.perm
  rw [cLost_eq_none_iff]
  intro hd a ha ha1
  obtain ⟨p, hp, h1, h2⟩ := not_lost wl hL.legal (hfin hd) (hL.perm.mem_iff.2 ha) ha1
  exact ⟨p, hL.perm.mem_iff.1 hp, h1, h2⟩

theorem sound_emptyLie (hW : WellFormed ops) (hL : Linearization cfg ops lin fin) :
    cEmptyLie cfg ops = none := by
  have wl := hW.perm hL.perm
  have mem : ∀ {x}, x ∈ ops → x ∈ lin := fun h => hL.perm.mem_iff.2 h
  unfold cEmptyLie
  split
  · next hce =>
    rw [List.find?_eq_none]
    intro e he hbad
    simp only [List.mem_filter, Bool.and_eq_true, Bool.not_eq_true', Bool.or_eq_true,
      List.any_eq_true, decide_eq_true_eq] at he hbad
    obtain ⟨⟨hal, hfl⟩, a, ha, hae, hm⟩ := hbad
    refine empty_honest wl hL.realTime hL.legal (mem he.1) he.2.1 he.2.2 hce ?_ ?_ (mem ha.1)
      (by simp [okPush, ha.2]) hae ?_
    · intro h; rcases hal with h' | h'
      · rw [h] at h'; cases h'
      · exact h'
    · intro h; rcases hfl with h' | h'
      · rw [h] at h'; cases h'
      · exact h'
    · intro p hp hpp hpv
      obtain ⟨q, hq⟩ := popOf_isSome (hL.perm.mem_iff.1 hp) hpp hpv
      obtain ⟨m2, o2, v2⟩ := popOf_some hq
      have : q = p := pop_unique wl hL.legal (mem m2) hp o2 hpp (v2.trans hpv.symm)
      subst this
      rw [hq] at hm
      simpa using hm
  · rfl

theorem filter_filter_length (ops : List Op) (P Q : Op → Bool) :
    ((ops.filter P).filter Q).length = ops.countP (fun q => P q && Q q) := by
  rw [List.filter_filter, List.countP_eq_length_filter]
  congr 1
  apply List.filter_congr
  intro x _; exact Bool.and_comm _ _

theorem sound_overfull (hW : WellFormed ops) (hL : Linearization cfg ops lin fin)
    (hcap : 0 < cfg.capacity) : cOverfull cfg ops = none := by
  have wl := hW.perm hL.perm
  unfold cOverfull
  rw [List.find?_eq_none]
  intro a ha
  rw [mem_okPush] at ha
  have := not_overfull wl hL.realTime hL.legal hcap (hL.perm.mem_iff.2 ha.1) ha.2
  rw [hL.perm.countP_eq, hL.perm.countP_eq] at this
  simp only [filter_filter_length, gt_iff_lt, decide_eq_true_eq]
  omega

theorem sound_fullLie (hW : WellFormed ops) (hL : Linearization cfg ops lin fin) :
    cFullLie cfg ops = none := by
  have wl := hW.perm hL.perm
  unfold cFullLie
  rw [List.find?_eq_none]
  intro f hf hbad
  simp only [List.mem_filter, Bool.and_eq_true, Bool.not_eq_true', decide_eq_true_eq,
    filter_filter_length] at hf hbad
  have := full_honest wl hL.realTime hL.legal (fun x hx => hL.perm.mem_iff.1 hx)
    (hL.perm.mem_iff.2 hf.1) hf.2.1 hf.2.2 hbad.1
  rw [hL.perm.countP_eq, hL.perm.countP_eq] at this
  omega

/-- **Soundness of the monitor** (for EVERY configuration): on a well-formed history that has a
    linearization w.r.t. the sequential container selected by `cfg` — ending with an empty
    container if `cfg.drained` — `check` raises no alarm. -/
theorem check_sound_lin (cfg : Cfg) (ops lin fin : List Op) (hW : WellFormed ops)
    (hL : Linearization cfg ops lin fin) (hfin : cfg.drained = true → fin = []) :
    check cfg ops = none := by
  rw [check_eq_none_iff]
  exact ⟨sound_invented hW hL, sound_duplicate hW hL, sound_phantom hW hL, sound_order hW hL,
    sound_lost hW hL hfin, sound_emptyLie hW hL,
    fun hcap => ⟨sound_overfull hW hL hcap, sound_fullLie hW hL⟩⟩

end Sound

/-! ## Histories built by `opsOf` are positionally well-formed -/

structure AccInv (a : Acc) : Prop where
  pend_le : ∀ p ∈ a.pend, p.2.2.2 ≤ a.pos
  pend_inj : ∀ p ∈ a.pend, ∀ q ∈ a.pend, p.2.2.2 = q.2.2.2 → p = q
  ops_lt : ∀ o ∈ a.ops, o.call < o.ret ∧ o.ret ≤ a.pos
  ops_pend : ∀ o ∈ a.ops, ∀ p ∈ a.pend, o.call ≠ p.2.2.2 ∧ o.ret ≠ p.2.2.2
  ops_inj : ∀ x ∈ a.ops, ∀ y ∈ a.ops, x.call = y.call → x = y
  ops_cr : ∀ x ∈ a.ops, ∀ y ∈ a.ops, x.call ≠ y.ret
  ops_nodup : a.ops.Nodup

theorem AccInv.init : AccInv {} := by
  constructor <;> simp

/-- a call note -/
theorem AccInv.call {a : Acc} (h : AccInv a) (t : Nat) (b : Bool) (v : Nat) :
    AccInv { a with pos := a.pos + 1, pend := (t, b, v, a.pos + 1) :: a.pend } := by
  obtain ⟨h1, h2, h3, h4, h5, h6, h7⟩ := h
  refine ⟨?_, ?_, ?_, ?_, h5, h6, h7⟩
  · intro p hp
    rcases List.mem_cons.1 hp with rfl | hp
    · exact Nat.le_refl _
    · exact Nat.le_succ_of_le (h1 p hp)
  · intro p hp q hq e
    rcases List.mem_cons.1 hp with rfl | hp <;> rcases List.mem_cons.1 hq with rfl | hq
    · rfl
    · have := h1 q hq; simp at e; omega
    · have := h1 p hp; simp at e; omega
    · exact h2 p hp q hq e
  · intro o ho; have := h3 o ho; exact ⟨this.1, Nat.le_succ_of_le this.2⟩
  · intro o ho p hp
    rcases List.mem_cons.1 hp with rfl | hp
    · have := h3 o ho; simp; omega
    · exact h4 o ho p hp

/-- a return note that completes the pending call `e` of thread `t` -/
theorem AccInv.ret {a : Acc} (h : AccInv a) (t : Nat) (e : Nat × Bool × Nat × Nat)
    (he : e ∈ a.pend) (het : e.1 = t) (isPush : Bool) (v : Nat) (ok : Bool) :
    AccInv { a with pos := a.pos + 1, pend := a.pend.filter (fun p => p.1 ≠ t),
                    ops := a.ops ++ [{ thread := t, isPush := isPush, val := v, ok := ok,
                                       call := e.2.2.2, ret := a.pos + 1 }] } := by
  obtain ⟨h1, h2, h3, h4, h5, h6, h7⟩ := h
  have hec := h1 e he
  have sub : ∀ p, p ∈ a.pend.filter (fun p => p.1 ≠ t) → p ∈ a.pend ∧ p.1 ≠ t := by
    intro p hp; simpa [List.mem_filter] using hp
  have hne : ∀ p, p ∈ a.pend.filter (fun p => p.1 ≠ t) → p.2.2.2 ≠ e.2.2.2 := by
    intro p hp e'
    have := h2 p (sub p hp).1 e he e'
    subst this; exact (sub p hp).2 het
  refine ⟨?_, ?_, ?_, ?_, ?_, ?_, ?_⟩
  · intro p hp; exact Nat.le_succ_of_le (h1 p (sub p hp).1)
  · intro p hp q hq; exact h2 p (sub p hp).1 q (sub q hq).1
  · intro o ho
    rcases List.mem_append.1 ho with ho | ho
    · have := h3 o ho; exact ⟨this.1, Nat.le_succ_of_le this.2⟩
    · simp at ho; subst ho; simp; omega
  · intro o ho p hp
    rcases List.mem_append.1 ho with ho | ho
    · exact h4 o ho p (sub p hp).1
    · simp at ho; subst ho
      have := h1 p (sub p hp).1
      exact ⟨fun e' => hne p hp e'.symm, by simp; omega⟩
  · intro x hx y hy exy
    rcases List.mem_append.1 hx with hx | hx <;> rcases List.mem_append.1 hy with hy | hy
    · exact h5 x hx y hy exy
    · simp at hy; subst hy; exact absurd exy (h4 x hx e he).1
    · simp at hx; subst hx; exact absurd exy.symm (h4 y hy e he).1
    · simp at hx hy; rw [hx, hy]
  · intro x hx y hy
    rcases List.mem_append.1 hx with hx | hx <;> rcases List.mem_append.1 hy with hy | hy
    · exact h6 x hx y hy
    · simp at hy; subst hy; have := h3 x hx; simp; omega
    · simp at hx; subst hx; exact fun e' => (h4 y hy e he).2 e'.symm
    · simp at hx hy; subst hx; subst hy; simp; omega
  · rw [List.nodup_append]
    refine ⟨h7, by simp, ?_⟩
    intro x hx y hy exy
    simp at hy; subst hy; subst exy
    exact (h4 _ hx e he).1 rfl

theorem AccInv.bump {a : Acc} (h : AccInv a) : AccInv { a with pos := a.pos + 1 } := by
  obtain ⟨h1, h2, h3, h4, h5, h6, h7⟩ := h
  refine ⟨?_, h2, ?_, h4, h5, h6, h7⟩
  · intro p hp; exact Nat.le_succ_of_le (h1 p hp)
  · intro o ho; have := h3 o ho; exact ⟨this.1, Nat.le_succ_of_le this.2⟩

theorem AccInv.step {a : Acc} (h : AccInv a) (n : Note) : AccInv (accStep a n) := by
  cases n with
  | callPush t v => exact h.call t true v
  | callPop t => exact h.call t false 0
  | retPush t r =>
    simp only [accStep]
    split
    · next x1 x2 v c hf =>
      have hm := List.mem_of_find?_eq_some hf
      have ht := List.find?_some hf
      exact h.ret t _ hm (by simpa using ht) true v (r ≠ 0)
    · exact h.bump
  | retPop t v =>
    simp only [accStep]
    split
    · next x1 x2 x3 c hf =>
      have hm := List.mem_of_find?_eq_some hf
      have ht := List.find?_some hf
      exact h.ret t _ hm (by simpa using ht) false v (v ≠ 0)
    · exact h.bump

theorem AccInv.foldl (ns : List Note) : ∀ a, AccInv a → AccInv (ns.foldl accStep a) := by
  induction ns with
  | nil => intro a h; exact h
  | cons n r ih => intro a h; exact ih _ (h.step n)

/-- The operations reconstructed by `opsOf` from ANY sequence of call/return notes satisfy all
    positional clauses of `WellFormed` (call < ret, distinct positions, no repeated entry);
    only "pushed values are distinct" is a property of the harness scripts. -/
theorem opsOf_wellFormed (ns : List Note)
    (hv : ∀ a ∈ opsOf ns, ∀ b ∈ opsOf ns, a.isPush = true → b.isPush = true → a.val = b.val → a = b) :
    WellFormed (opsOf ns) := by
  have h := AccInv.foldl ns {} AccInv.init
  exact ⟨fun o ho => (h.ops_lt o ho).1, fun a ha b hb _ e => h.ops_inj a ha b hb e, h.ops_cr,
    h.ops_nodup, hv⟩


/-! ## Real time, textbook form -/

/-- `a` is listed before `b` -/
def Before (l : List Op) (a b : Op) : Prop := ∃ l1 l2 l3, l = l1 ++ a :: l2 ++ b :: l3

/-- The `realTime` clause of `Linearization` says exactly: whenever `a` returned before `b` was
    called, `a` is listed before `b`. -/
theorem realTime_iff_before {lin : List Op} (hnd : lin.Nodup) (hlt : ∀ o ∈ lin, o.call < o.ret) :
    lin.Pairwise (fun x y => ¬ y.ret < x.call) ↔
      ∀ a ∈ lin, ∀ b ∈ lin, a.ret < b.call → Before lin a b := by
  constructor
  · intro hp a ha b hb hab
    obtain ⟨pre, post, e⟩ := List.append_of_mem hb
    have hp' := List.pairwise_append.1 (e ▸ hp)
    have hp2 := List.pairwise_cons.1 hp'.2.1
    have hane : a ≠ b := by intro h; subst h; have := hlt a ha; omega
    rw [e] at ha
    rcases List.mem_append.1 ha with h1 | h1
    · obtain ⟨l1, l2, e1⟩ := List.append_of_mem h1
      exact ⟨l1, l2, post, by rw [e, e1]⟩
    · rcases List.mem_cons.1 h1 with h1 | h1
      · exact absurd h1 hane
      · exact absurd hab (hp2.1 a h1)
  · induction lin with
    | nil => intro _; exact List.Pairwise.nil
    | cons x r ih =>
      intro h
      have hx := (List.nodup_cons.1 hnd)
      rw [List.pairwise_cons]
      constructor
      · intro y hy hyx
        obtain ⟨l1, l2, l3, e⟩ := h y (List.mem_cons_of_mem _ hy) x (List.mem_cons_self ..) hyx
        cases l1 with
        | nil =>
          simp at e; exact hx.1 (e.1 ▸ hy)
        | cons z l1' =>
          simp at e; exact hx.1 (by rw [e.2]; simp)
      · apply ih hx.2 (fun o ho => hlt o (List.mem_cons_of_mem _ ho))
        intro a ha b hb hab
        obtain ⟨l1, l2, l3, e⟩ := h a (List.mem_cons_of_mem _ ha) b (List.mem_cons_of_mem _ hb) hab
        cases l1 with
        | nil => simp at e; exact absurd (e.1 ▸ ha) hx.1
        | cons z l1' => simp at e; exact ⟨l1', l2, l3, by rw [e.2]; simp⟩

end LibfiberVerif.QueueHist
